(* Proofs about Model/SparseMatrix.v, part 4: the queries count_ones, get_row_iter,
   get_ones_in_column (concrete characterisations under the invariant). *)
From Coq Require Import NArith ZArith List Bool Lia Arith Sorted Permutation ZifyBool ZifyN.
From RQ Require Import Base.Outcome Base.Ints Base.ListX Spec.BitMatrix Spec.SparseAdm
  Model.DenseMatrix Model.SparseMatrix Proofs.DenseBits Proofs.DenseMatrixProofs Proofs.DenseQueries
  Proofs.SparseVecProofs Proofs.SparseMatrixProofs.
Import ListNotations.
Open Scope N_scope.

(* the keys of a row whose logical column lies in [s, e) *)
Definition in_range (p2l : list N) (s e : N) (k : N) : bool :=
  (s <=? eword p2l k) && (eword p2l k <? e).

(* ---------------- count_ones ---------------- *)

Lemma count_fold m s e l : forall acc, Forall (fun k => k < W0 m) l ->
  perm_pair (s_l2p_col m) (s_p2l_col m) (W0 m) ->
  ofold (fun ones (kv : N * N) =>
           let '(physical_col, value) := kv in
           obind (vget (s_p2l_col m) physical_col) (fun col =>
             Ok (if (s <=? col) && (col <? e) && (value =? 1) then ones + 1 else ones)))
        (sv_keys_values l) acc =
  Ok (acc + N.of_nat (length (filter (in_range (s_p2l_col m) s e) l))).
Proof.
  induction l as [|k t IH]; intros acc HF Hp; cbn [sv_keys_values map ofold filter length].
  - f_equal. lia.
  - inversion HF; subst. fold (sv_keys_values t).
    rewrite vget_ok by (rewrite (perm_len_g _ _ _ Hp); assumption). cbn [obind].
    rewrite IH by assumption. rewrite N.eqb_refl, andb_true_r.
    fold (in_range (s_p2l_col m) s e k).
    destruct (in_range (s_p2l_col m) s e k); cbn [length]; f_equal; lia.
Qed.

Lemma sm_count_ones_ok md m row s e : sm_inv md m -> row < s_height m -> e <= sfd m ->
  sm_count_ones md m row s e =
  Ok (N.of_nat (length (filter (in_range (s_p2l_col m) s e) (rowk m (eword (s_l2p_row m) row))))).
Proof.
  intros Hinv Hrow He. unfold sm_count_ones. rewrite (fd_ok md m Hinv). cbn [obind].
  assert (E : (sfd m <? e) = false) by (apply N.ltb_ge; exact He). rewrite E.
  rewrite (l2p_row_ok md m Hinv row Hrow). cbn [obind].
  pose proof (l2p_row_lt md m Hinv row Hrow) as Hp.
  rewrite (rows_get md m Hinv _ Hp). cbn [obind].
  destruct (rowk_ok md m Hinv _ Hp) as [_ Hk].
  rewrite count_fold; [rewrite N.add_0_l; reflexivity | | exact (inv_colmaps _ _ Hinv)].
  eapply Forall_impl; [|exact Hk]. intros k [H _]. exact H.
Qed.

(* the logical columns in [s, e) where the row has a one, two ways *)
Lemma row_cols_perm md m p s e : sm_inv md m -> p < s_height m -> e <= sfd m -> s <= e ->
  Permutation (map (eword (s_p2l_col m)) (filter (in_range (s_p2l_col m) s e) (rowk m p)))
              (filter (fun c => memN (eword (s_l2p_col m) c) (rowk m p)) (range_from s e)).
Proof.
  intros Hinv Hp He Hse. pose proof (inv_colmaps _ _ Hinv) as Hc.
  pose proof (inv_w _ _ Hinv) as Hw. pose proof (inv_nd _ _ Hinv) as Hnd.
  destruct (rowk_ok md m Hinv p Hp) as [Hs Hk]. rewrite Forall_forall in Hk.
  apply NoDup_Permutation.
  - (* p2l is injective on the keys *)
    assert (Hnd' : NoDup (filter (in_range (s_p2l_col m) s e) (rowk m p))).
    { apply NoDup_filter. apply ssorted_NoDup. exact Hs. }
    assert (Hin : forall k, In k (filter (in_range (s_p2l_col m) s e) (rowk m p)) -> k < W0 m).
    { intros k Hk'. apply filter_In in Hk'. apply (Hk k). apply Hk'. }
    induction (filter (in_range (s_p2l_col m) s e) (rowk m p)) as [|k t IH]; cbn [map]; [constructor|].
    inversion Hnd'; subst. constructor; [|apply IH; [assumption | intros; apply Hin; right; assumption]].
    intros Habs. apply in_map_iff in Habs. destruct Habs as [k' [Ek Hk']].
    assert (k' = k).
    { rewrite <- (perm_l2p_p2l _ _ _ k' Hc), <- (perm_l2p_p2l _ _ _ k Hc), Ek; [reflexivity | |];
        apply Hin; [left; reflexivity | right; exact Hk']. }
    subst k'. contradiction.
  - apply NoDup_filter. unfold range_from. apply FinFun.Injective_map_NoDup; [|apply seq_NoDup].
    intros x y Hxy. lia.
  - intros c. rewrite in_map_iff, filter_In. split.
    + intros [k [Ek Hk']]. apply filter_In in Hk'. destruct Hk' as [Hk1 Hk2]. subst c.
      unfold in_range in Hk2. apply andb_true_iff in Hk2. destruct Hk2 as [H1 H2].
      apply N.leb_le in H1. apply N.ltb_lt in H2. destruct (Hk k Hk1) as [Hkw _]. split.
      * unfold range_from. apply in_map_iff. exists (N.to_nat (eword (s_p2l_col m) k - s)).
        split; [lia|]. apply in_seq. lia.
      * rewrite (perm_l2p_p2l _ _ _ k Hc Hkw). apply memN_In. exact Hk1.
    + intros [Hr Hm]. apply in_range_from in Hr. exists (eword (s_l2p_col m) c).
      assert (Hcw : c < W0 m) by (unfold sfd in *; lia).
      split; [apply (perm_p2l_l2p _ _ _ c Hc Hcw)|]. apply filter_In. split; [apply memN_In; exact Hm|].
      unfold in_range. rewrite (perm_p2l_l2p _ _ _ c Hc Hcw). apply andb_true_iff.
      split; [apply N.leb_le | apply N.ltb_lt]; lia.
Qed.

(* ---------------- get_row_iter ---------------- *)

Lemma iter_sparse_ok m s e r : s < 2 ^ 16 -> e < 2 ^ 16 -> Forall (fun k => k < W0 m) r ->
  perm_pair (s_l2p_col m) (s_p2l_col m) (W0 m) ->
  forall (n idx : nat), (idx + n = length r)%nat ->
  iter_sparse (s_p2l_col m) s e r idx n =
  Ok (map (fun k => (eword (s_p2l_col m) k, 1)) (filter (in_range (s_p2l_col m) s e) (skipn idx r))).
Proof.
  intros Hs He HF Hp. induction n as [|n IH]; intros idx Hn; cbn [iter_sparse].
  - rewrite skipn_all2 by lia. reflexivity.
  - unfold sv_get_by_raw_index. rewrite (lget_ok r (N.of_nat idx) 0) by lia. cbn [obind fst snd].
    rewrite Nat2N.id.
    assert (Hin : In (nth idx r 0) r) by (apply nth_In; lia).
    rewrite Forall_forall in HF. pose proof (HF _ Hin) as Hk.
    rewrite vget_ok by (rewrite (perm_len_g _ _ _ Hp); exact Hk). cbn [obind].
    rewrite IH by lia. cbn [obind].
    assert (Esk : skipn idx r = nth idx r 0 :: skipn (S idx) r).
    { clear -Hn. revert idx Hn. induction r as [|x t IHr]; intros idx Hn; cbn [length] in Hn; [lia|].
      destruct idx as [|idx]; [reflexivity|]. cbn [skipn nth]. apply IHr. lia. }
    assert (Eq : (u16 s <=? eword (s_p2l_col m) (nth idx r 0)) && (eword (s_p2l_col m) (nth idx r 0) <? u16 e)
                 = in_range (s_p2l_col m) s e (nth idx r 0)).
    { unfold in_range, u16. rewrite !wrap_small by assumption. reflexivity. }
    rewrite Eq, Esk. cbn [filter]. destruct (in_range (s_p2l_col m) s e (nth idx r 0)); reflexivity.
Qed.

Lemma sm_get_row_iter_ok md m row s e : sm_inv md m -> row < s_height m -> s <= e -> e <= sfd m ->
  sm_get_row_iter md m row s e =
  Ok (map (fun k => (eword (s_p2l_col m) k, 1))
          (filter (in_range (s_p2l_col m) s e) (rowk m (eword (s_l2p_row m) row)))).
Proof.
  intros Hinv Hrow Hse He. unfold sm_get_row_iter. rewrite (fd_ok md m Hinv). cbn [obind].
  assert (E : (sfd m <? e) = false) by (apply N.ltb_ge; exact He). rewrite E.
  rewrite (l2p_row_ok md m Hinv row Hrow). cbn [obind].
  pose proof (l2p_row_lt md m Hinv row Hrow) as Hp.
  rewrite (rows_get md m Hinv _ Hp). cbn [obind].
  destruct (rowk_ok md m Hinv _ Hp) as [_ Hk].
  pose proof (inv_w _ _ Hinv). pose proof (inv_w0 _ _ Hinv). pose proof (inv_nd _ _ Hinv).
  rewrite (iter_sparse_ok m s e); try (unfold sfd in *; lia); try exact (inv_colmaps _ _ Hinv).
  - reflexivity.
  - eapply Forall_impl; [|exact Hk]. intros k [Hk1 _]. exact Hk1.
Qed.

(* ---------------- get_ones_in_column ---------------- *)

Definition row_in_range (p2l : list N) (s e : N) (pr : N) : bool :=
  (s <=? eword p2l pr) && (eword p2l pr <? e).

Lemma ones_fold m s e l : forall out, Forall (fun r => r < s_height m) l ->
  perm_pair (s_l2p_row m) (s_p2l_row m) (s_height m) -> e < 2 ^ 32 ->
  ofold (fun out physical_row =>
           obind (vget (s_p2l_row m) physical_row) (fun logical_row =>
             Ok (if (s <=? logical_row) && (logical_row <? u32 e)
                 then out ++ [logical_row] else out)))
        l out =
  Ok (out ++ map (eword (s_p2l_row m)) (filter (row_in_range (s_p2l_row m) s e) l)).
Proof.
  induction l as [|pr t IH]; intros out HF Hp He; cbn [ofold filter map].
  - rewrite app_nil_r. reflexivity.
  - inversion HF; subst. rewrite vget_ok by (rewrite (perm_len_g _ _ _ Hp); assumption). cbn [obind].
    rewrite IH by assumption.
    assert (Eq : (s <=? eword (s_p2l_row m) pr) && (eword (s_p2l_row m) pr <? u32 e)
                 = row_in_range (s_p2l_row m) s e pr).
    { unfold row_in_range, u32. rewrite wrap_small by exact He. reflexivity. }
    rewrite Eq. destruct (row_in_range (s_p2l_row m) s e pr); [|reflexivity].
    cbn [map]. rewrite <- app_assoc. reflexivity.
Qed.

Lemma sm_get_ones_in_column_ok md m col s e ix : sm_inv md m -> s_index m = Some ix ->
  col < W0 m -> e <= s_height m -> (md = Checked -> nth (N.to_nat col) (s_valid m) false = true) ->
  sm_get_ones_in_column md m col s e =
  Ok (map (eword (s_p2l_row m))
          (filter (row_in_range (s_p2l_row m) s e) (nth (N.to_nat (eword (s_l2p_col m) col)) ix []))).
Proof.
  intros Hinv Hix Hcol He Hval. unfold sm_get_ones_in_column.
  pose proof (inv_index _ _ Hinv) as Hii. unfold index_inv in Hii. rewrite Hix in Hii.
  destruct Hii as [Hdis [Hlen [Hwh [Hlists _]]]]. rewrite Hdis. cbn [negb assert_ok obind].
  assert (Hv : (match md with
                | Checked => obind (lget (s_valid m) col) (fun v => assert_ok v)
                | Release => Ok tt end) = Ok tt).
  { destruct md; [reflexivity|]. rewrite (lget_ok (s_valid m) col false).
    - cbn [obind]. rewrite (Hval eq_refl). reflexivity.
    - rewrite (inv_valid _ _ Hinv eq_refl). exact Hcol. }
  rewrite Hv. cbn [obind]. rewrite (l2p_col_ok m col Hcol). cbn [obind]. rewrite Hix. cbn [unwrap obind].
  pose proof (l2p_col_lt md m Hinv col Hcol) as Hpc.
  unfold ilm_get. rewrite (lget_ok ix _ []) by lia. cbn [obind].
  pose proof (inv_h _ _ Hinv) as Hh.
  rewrite ones_fold; [reflexivity | apply (Hlists _ Hpc) | exact (inv_rowmaps _ _ Hinv) |].
  change (2 ^ 32) with 4294967296. change (2 ^ 24) with 16777216 in Hh. lia.
Qed.

(* ---------------- get_sub_row_as_octets ---------------- *)

Lemma lpb_div m : (sm_lpb m + 0) / 64 = 0.
Proof. unfold sm_lpb, WORD_WIDTH. zlia. Qed.

Lemma dense_row_le md m p : sm_inv md m -> p < s_height m ->
  p * sm_rww m + sm_rww m <= N.of_nat (length (s_dense m)).
Proof.
  intros Hinv Hp. destruct (inv_dense _ _ Hinv) as [Hl _]. rewrite Hl.
  unfold sm_rww, WORD_WIDTH. pose proof (row_mul_le p (s_height m) (ceil_div (s_nd m) 64) Hp). lia.
Qed.

Lemma sm_get_sub_row_ok md m row : sm_inv md m -> row < s_height m ->
  exists ws, sm_get_sub_row_as_octets md m row (sfd m) = Ok (ws, s_nd m) /\
    N.of_nat (length ws) = ceil_div (s_nd m) 64 /\
    bov_to_octet_vec ws (s_nd m) =
    Ok (map (fun t => b2n (sm_dbit m (eword (s_l2p_row m) row) (N.of_nat t))) (seq 0 (N.to_nat (s_nd m)))).
Proof.
  intros Hinv Hrow. unfold sm_get_sub_row_as_octets. rewrite (fd_ok md m Hinv). cbn [obind].
  rewrite N.eqb_refl. cbn [assert_ok obind]. rewrite (l2p_row_ok md m Hinv row Hrow). cbn [obind].
  pose proof (l2p_row_lt md m Hinv row Hrow) as Hp. set (p := eword (s_l2p_row m) row) in *.
  unfold sm_dense_col. rewrite (fd_ok md m Hinv). cbn [obind]. rewrite N.leb_refl, N.sub_diag.
  cbn [obind]. unfold sm_bit_position, sm_word_offset, WORD_WIDTH. rewrite lpb_div, N.add_0_r.
  pose proof (dense_row_le md m p Hinv Hp) as Hle.
  rewrite slice_ok_eq by lia. cbn [obind].
  replace (p * sm_rww m + sm_rww m - p * sm_rww m) with (sm_rww m) by lia.
  rewrite sl_length by lia. rewrite N2Nat.id. fold WORD_WIDTH. fold (sm_rww m). rewrite N.eqb_refl.
  cbn [assert_ok obind]. eexists. split; [reflexivity|]. split; [rewrite sl_length by lia; lia|].
  unfold bov_to_octet_vec, bov_padding_bits.
  set (ws := sl (s_dense m) (p * sm_rww m) (sm_rww m)).
  set (pad := (64 - s_nd m mod 64) mod 64).
  assert (Hpad : pad + s_nd m = 64 * sm_rww m) by (apply lpb_nd).
  assert (Hwl : N.of_nat (length ws) = sm_rww m) by (unfold ws; rewrite sl_length by lia; lia).
  replace 0 with (pad / 64) at 1 by (unfold pad; zlia).
  replace pad with (pad mod 64) at 2 by (unfold pad; zlia).
  rewrite bov_unpack_ok by lia. cbn [obind]. rewrite N2Nat.id.
  replace ((pad + s_nd m) / 64 =? N.of_nat (length ws)) with true by (symmetry; apply N.eqb_eq; zlia).
  replace ((pad + s_nd m) mod 64 =? 0) with true by (symmetry; apply N.eqb_eq; zlia).
  cbn [assert_ok obind]. f_equal. apply map_ext_in. intros t Ht. apply in_seq in Ht. f_equal.
  unfold wbit, sm_dbit, lbit, ebit, ws. rewrite eword_sl by zlia. reflexivity.
Qed.

(* ---------------- query_non_zero_columns ---------------- *)

Lemma ctz_pos_spec p : N.testbit (Npos p) (ctz_pos p) = true /\
  forall k, k < ctz_pos p -> N.testbit (Npos p) k = false.
Proof.
  induction p as [q IH|q IH|]; cbn [ctz_pos].
  - split; [reflexivity|]. intros k Hk. lia.
  - destruct IH as [H1 H2]. split.
    + change (N.pos q~0) with (2 * N.pos q). rewrite N.testbit_even_succ by lia. exact H1.
    + intros k Hk. change (N.pos q~0) with (2 * N.pos q).
      destruct (N.eq_dec k 0) as [->|Hk0]; [apply N.testbit_even_0|].
      replace k with (N.succ (N.pred k)) by lia. rewrite N.testbit_even_succ by lia. apply H2. lia.
  - split; [reflexivity|]. intros k Hk. lia.
Qed.

Lemma tz64_spec x : x <> 0 -> x < 2 ^ 64 ->
  tz64 x < 64 /\ N.testbit x (tz64 x) = true /\ forall k, k < tz64 x -> N.testbit x k = false.
Proof.
  intros Hx Hlt. destruct x as [|p]; [contradiction|]. cbn [tz64].
  destruct (ctz_pos_spec p) as [H1 H2]. split; [|split; assumption].
  destruct (N.lt_ge_cases (ctz_pos p) 64) as [L|L]; [exact L|].
  rewrite (proj1 (lt_pow2_bits (N.pos p) 64) Hlt _ L) in H1. discriminate.
Qed.

Definition lowzero (x lo : N) : Prop := forall k, k < lo -> N.testbit x k = false.

Lemma filter_false {A} (f : A -> bool) l : (forall x, In x l -> f x = false) -> filter f l = [].
Proof.
  induction l as [|x t IH]; intros H; [reflexivity|]. cbn [filter].
  rewrite (H x) by (left; reflexivity). apply IH. intros y Hy. apply H. right. exact Hy.
Qed.

Lemma range_from_app a b c : a <= b -> b <= c -> range_from a c = range_from a b ++ range_from b c.
Proof.
  intros Hab Hbc. unfold range_from.
  replace (N.to_nat (c - a)) with (N.to_nat (b - a) + N.to_nat (c - b))%nat by lia.
  rewrite seq_app, map_app. f_equal. cbn [Nat.add].
  rewrite <- (seq_map_add (N.to_nat (b - a))), map_map. apply map_ext. intros k. lia.
Qed.

Lemma drain_ok md col bit : forall (n fuel : nat) block lo out,
  (N.to_nat (64 - lo) <= n)%nat -> (n < fuel)%nat -> lo <= 64 -> block < 2 ^ 64 ->
  lowzero block lo -> bit <= col + lo ->
  drain_block md fuel block col bit out =
  Ok (out ++ map (fun b => col + b - bit) (filter (N.testbit block) (range_from lo 64))).
Proof.
  induction n as [|n IH]; intros fuel block lo out Hn Hf Hlo Hb Hz Hbit;
    (destruct fuel as [|f]; [lia|]); cbn [drain_block].
  - assert (lo = 64) by lia. subst lo.
    assert (block = 0).
    { apply N.bits_inj_0. intros k. destruct (N.lt_ge_cases k 64) as [L|L]; [apply Hz; exact L|].
      apply (proj1 (lt_pow2_bits block 64) Hb). exact L. }
    subst block. cbn [tz64]. unfold WORD_WIDTH. rewrite N.ltb_irrefl.
    rewrite range_from_nil by lia. cbn [filter map]. rewrite app_nil_r. reflexivity.
  - unfold WORD_WIDTH. destruct (N.eq_dec block 0) as [->|Hne].
    + cbn [tz64]. rewrite N.ltb_irrefl. rewrite filter_false; [cbn [map]; rewrite app_nil_r; reflexivity|].
      intros. apply N.bits_0.
    + destruct (tz64_spec block Hne Hb) as [Ht [Hset Hlow]]. set (tz := tz64 block) in *.
      apply N.ltb_lt in Ht. rewrite Ht. apply N.ltb_lt in Ht.
      assert (Hlt : lo <= tz).
      { destruct (N.lt_ge_cases tz lo) as [L|L]; [|exact L]. rewrite (Hz tz L) in Hset. discriminate. }
      rewrite sub_w_ok by lia. cbn [obind].
      set (block' := N.land block (not64 (select_mask tz))).
      assert (Hb' : block' < 2 ^ 64) by (apply land_lt64_l; exact Hb).
      assert (Hbits : forall k, N.testbit block' k = N.testbit block k && negb (k =? tz)).
      { intros k. unfold block'. rewrite N.land_spec, not64_testbit, select_mask_testbit.
        rewrite (N.eqb_sym tz k). destruct (k <? 64) eqn:E; cbn [andb]; [reflexivity|].
        apply N.ltb_ge in E. rewrite (proj1 (lt_pow2_bits block 64) Hb k E). reflexivity. }
      rewrite (IH f block' (tz + 1) (out ++ [col + tz - bit])); try lia; try assumption.
      * rewrite <- app_assoc. do 2 f_equal. cbn [app].
        rewrite (range_from_app lo tz 64) by lia. rewrite filter_app.
        rewrite (filter_false _ (range_from lo tz)) by (intros k Hk; apply in_range_from in Hk; apply Hlow; lia).
        cbn [app]. rewrite (range_from_cons tz 64) by lia. cbn [filter]. rewrite Hset. cbn [map].
        f_equal. f_equal. apply filter_ext_in'. intros k Hk. apply in_range_from in Hk.
        rewrite Hbits. destruct (k =? tz) eqn:E; [apply N.eqb_eq in E; lia|]. apply andb_true_r.
      * intros k Hk. rewrite Hbits. destruct (k =? tz) eqn:E; cbn [negb]; [apply andb_false_r|].
        apply N.eqb_neq in E. rewrite Hlow by lia. reflexivity.
Qed.

Lemma lpb_nd_m m : sm_lpb m + s_nd m = 64 * sm_rww m.
Proof. unfold sm_lpb, sm_rww, WORD_WIDTH. apply lpb_nd. Qed.
Lemma lpb_lt_m m : sm_lpb m < 64.
Proof. unfold sm_lpb, WORD_WIDTH. apply lpb_lt. Qed.

(* word t of physical row p *)
Definition row_word (m : smat) (p t : N) : N := eword (s_dense m) (p * sm_rww m + t).

Lemma dbit_word m p d : sm_dbit m p d =
  N.testbit (row_word m p ((sm_lpb m + d) / 64)) ((sm_lpb m + d) mod 64).
Proof. reflexivity. Qed.

(* the set bits of word t, from bit lo on, reported as columns = the dense columns in that window *)
Lemma piece_reindex m p t lo C : lo <= 64 -> sm_lpb m <= 64 * t + lo -> C + sm_lpb m = sfd m + 64 * t ->
  map (fun b => C + b) (filter (N.testbit (row_word m p t)) (range_from lo 64)) =
  map (fun d => sfd m + d)
      (filter (sm_dbit m p) (range_from (64 * t + lo - sm_lpb m) (64 * t + 64 - sm_lpb m))).
Proof.
  intros Hlo Hl HC. unfold range_from.
  replace (N.to_nat (64 * t + 64 - sm_lpb m - (64 * t + lo - sm_lpb m))) with (N.to_nat (64 - lo)) by lia.
  rewrite !filter_map_comm, !map_map.
  rewrite (filter_ext_in' (fun x : nat => sm_dbit m p (64 * t + lo - sm_lpb m + N.of_nat x))
                          (fun k => N.testbit (row_word m p t) (lo + N.of_nat k))).
  - apply map_ext. intros k. lia.
  - intros k Hk. apply in_seq in Hk. rewrite dbit_word.
    replace ((sm_lpb m + (64 * t + lo - sm_lpb m + N.of_nat k)) / 64) with t by zlia.
    replace ((sm_lpb m + (64 * t + lo - sm_lpb m + N.of_nat k)) mod 64) with (lo + N.of_nat k) by zlia.
    reflexivity.
Qed.

Lemma piece0_reindex m p :
  map (fun b => sfd m + b - sm_lpb m) (filter (N.testbit (row_word m p 0)) (range_from (sm_lpb m) 64)) =
  map (fun d => sfd m + d) (filter (sm_dbit m p) (range_from 0 (64 - sm_lpb m))).
Proof.
  pose proof (lpb_lt_m m) as Hl. unfold range_from.
  rewrite N.sub_0_r. rewrite !filter_map_comm, !map_map.
  rewrite (filter_ext_in' (fun x : nat => sm_dbit m p (0 + N.of_nat x))
                          (fun k => N.testbit (row_word m p 0) (sm_lpb m + N.of_nat k))).
  - apply map_ext. intros k. lia.
  - intros k Hk. apply in_seq in Hk. rewrite dbit_word.
    replace ((sm_lpb m + (0 + N.of_nat k)) / 64) with 0 by zlia.
    replace ((sm_lpb m + (0 + N.of_nat k)) mod 64) with (sm_lpb m + N.of_nat k) by zlia.
    reflexivity.
Qed.

Lemma nz_words_ok md m p : sm_inv md m -> p < s_height m ->
  forall (n fuel : nat) t out, 1 <= t -> t + N.of_nat n = sm_rww m -> (n < fuel)%nat ->
  nz_words md fuel m (sfd m + 64 * t - sm_lpb m) (p * sm_rww m + t) out =
  Ok (out ++ map (fun d => sfd m + d) (filter (sm_dbit m p) (range_from (64 * t - sm_lpb m) (s_nd m)))).
Proof.
  intros Hinv Hp. pose proof (lpb_lt_m m) as Hl. pose proof (lpb_nd_m m) as Hln.
  pose proof (inv_nd _ _ Hinv) as Hnd.
  induction n as [|n IH]; intros fuel t out Ht Hn Hf; (destruct fuel as [|f]; [lia|]); cbn [nz_words].
  - assert (E : (sfd m + 64 * t - sm_lpb m <? s_width m) = false) by (apply N.ltb_ge; unfold sfd; lia).
    rewrite E. rewrite range_from_nil by lia. cbn [filter map]. rewrite app_nil_r. reflexivity.
  - assert (E : (sfd m + 64 * t - sm_lpb m <? s_width m) = true) by (apply N.ltb_lt; unfold sfd; lia).
    rewrite E. rewrite vget_ok by (pose proof (dense_row_le md m p Hinv Hp); lia). cbn [obind].
    fold (row_word m p t).
    rewrite (drain_ok md _ 0 64 65 (row_word m p t) 0 out); try lia.
    + cbn [obind]. unfold WORD_WIDTH.
      replace (sfd m + 64 * t - sm_lpb m + 64) with (sfd m + 64 * (t + 1) - sm_lpb m) by lia.
      replace (p * sm_rww m + t + 1) with (p * sm_rww m + (t + 1)) by lia.
      rewrite IH by lia. rewrite <- app_assoc. do 2 f_equal.
      rewrite (range_from_app (64 * t - sm_lpb m) (64 * (t + 1) - sm_lpb m) (s_nd m)) by lia.
      rewrite filter_app, map_app. f_equal.
      rewrite (map_ext (fun b => sfd m + 64 * t - sm_lpb m + b - 0) (fun b => (sfd m + 64 * t - sm_lpb m) + b))
        by (intros; lia).
      rewrite (piece_reindex m p t 0) by lia.
      replace (64 * t + 0 - sm_lpb m) with (64 * t - sm_lpb m) by lia.
      replace (64 * t + 64 - sm_lpb m) with (64 * (t + 1) - sm_lpb m) by lia. reflexivity.
    + unfold row_word. apply eword_lt64. apply (inv_dense _ _ Hinv).
    + intros k Hk. lia.
Qed.

Lemma sm_query_non_zero_columns_ok md m row : sm_inv md m -> row < s_height m ->
  sm_query_non_zero_columns md m row (sfd m) =
  Ok (map (fun d => sfd m + d)
          (filter (sm_dbit m (eword (s_l2p_row m) row)) (range_from 0 (s_nd m)))).
Proof.
  intros Hinv Hrow. unfold sm_query_non_zero_columns, sm_query_non_zero_columns_gen.
  rewrite (fd_ok md m Hinv). cbn [obind].
  rewrite N.eqb_refl. cbn [assert_ok obind andb].
  destruct (s_nd m =? 0) eqn:End0.
  { apply N.eqb_eq in End0. rewrite End0. rewrite range_from_nil by lia. reflexivity. }
  apply N.eqb_neq in End0. assert (Hnd0 : 0 < s_nd m) by lia.
  rewrite (l2p_row_ok md m Hinv row Hrow). cbn [obind].
  pose proof (l2p_row_lt md m Hinv row Hrow) as Hp. set (p := eword (s_l2p_row m) row) in *.
  unfold sm_dense_col. rewrite (fd_ok md m Hinv). cbn [obind]. rewrite N.leb_refl, N.sub_diag.
  cbn [obind]. unfold sm_bit_position, sm_word_offset, WORD_WIDTH. rewrite lpb_div, N.add_0_r.
  pose proof (lpb_lt_m m) as Hl. pose proof (lpb_nd_m m) as Hln.
  pose proof (inv_nd _ _ Hinv) as Hnd. pose proof (inv_w _ _ Hinv) as Hw. pose proof (inv_w0 _ _ Hinv) as Hw0.
  assert (Hrww : 1 <= sm_rww m) by lia.
  rewrite (N.add_0_r (sm_lpb m)), (N.mod_small (sm_lpb m) 64) by exact Hl.
  pose proof (dense_row_le md m p Hinv Hp) as Hle.
  rewrite vget_ok by lia. cbn [obind].
  replace (eword (s_dense m) (p * sm_rww m)) with (row_word m p 0) by (unfold row_word; f_equal; lia).
  destruct (inv_dense _ _ Hinv) as [_ [Hall Hpad]].
  rewrite (drain_ok md (sfd m) (sm_lpb m) 64 65 (row_word m p 0) (sm_lpb m) []); try lia.
  - cbn [obind app]. rewrite piece0_reindex.
    replace (sfd m + (64 - sm_lpb m)) with (sfd m + 64 * 1 - sm_lpb m) by lia.
    assert (Hfuel : s_width m / 64 + 1 >= sm_rww m) by (rewrite rww_unfold; zlia).
    rewrite (nz_words_ok md m p Hinv Hp (N.to_nat (sm_rww m - 1))) by lia.
    rewrite <- map_app, <- filter_app. rewrite N.mul_1_r.
    rewrite <- range_from_app by lia. reflexivity.
  - unfold row_word. apply eword_lt64. exact Hall.
  - intros k Hk. unfold row_word. rewrite N.add_0_r. apply (Hpad p k Hp). exact Hk.
Qed.
