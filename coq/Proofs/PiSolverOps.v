(* PS_ops_are_row_ops: every operation the solver records is a valid elementary row operation on
   ORIGINAL row indices (destination and source are distinct rows below the height of the matrix,
   multipliers are bytes, a MulAssign never multiplies by zero), so that the `apply_ops` semantics
   of Spec/Linear.v applies to the recorded list.  It is an invariant of the recording functions:
   d stays a permutation of the row indices, the octets stored in A, in the HDPC rows and in the
   second-phase submatrix stay bytes. *)
From Coq Require Import NArith List Bool Lia Arith.
From RQ Require Import Base.Outcome Base.Ints Base.ListX Model.Octet Model.CMatrix Model.Slab
  Spec.Linear Proofs.OutcomeLemmas Proofs.OctetProofs Proofs.LinearProofs Model.PiSolver
  Proofs.PiSolverBase Proofs.PiSolverStruct.
Import ListNotations.
Open Scope N_scope.

(* ---- validity of a recorded operation ---- *)
Definition sop_valid (M : N) (o : symbol_op) : bool :=
  match o with
  | SAdd d s => (d <? M) && (s <? M) && negb (d =? s)
  | SMul d c => (d <? M) && (c <? 256) && negb (c =? 0)
  | SFMA d s c => (d <? M) && (s <? M) && negb (d =? s) && (c <? 256)
  | SReorder _ => false
  end.

(* the operation in the vocabulary of Spec/Linear.v *)
Definition sym_of (o : symbol_op) : symop :=
  match o with
  | SAdd d s => OpAdd (N.to_nat d) (N.to_nat s)
  | SMul d c => OpMul (N.to_nat d) c
  | SFMA d s c => OpFMA (N.to_nat d) (N.to_nat s) c
  | SReorder _ => OpMul 0 0
  end.

Lemma sop_valid_op_valid M o : sop_valid M o = true -> op_valid (N.to_nat M) (sym_of o) = true.
Proof.
  destruct o as [d s|d c|d s c|ord]; cbn [sop_valid sym_of op_valid]; intros H; [| | |discriminate];
    rewrite ?andb_true_iff, ?negb_true_iff, ?N.ltb_lt, ?N.eqb_neq in H;
    rewrite ?andb_true_iff, ?negb_true_iff, ?Nat.ltb_lt, ?Nat.eqb_neq, ?N.ltb_lt, ?N.eqb_neq;
    intuition lia.
Qed.

(* ---- permutations of 0..n-1 as lists ---- *)
Definition permN (n : N) (l : list N) : Prop :=
  lenN l = n /\ NoDup l /\ Forall (fun x => x < n) l.

Lemma NoDup_nth_neq (l : list N) a b d : NoDup l -> (a < length l)%nat -> (b < length l)%nat ->
  a <> b -> nth a l d <> nth b l d.
Proof. intros ND La Lb Hab E. apply Hab. apply (proj1 (NoDup_nth l d) ND a b La Lb E). Qed.

Lemma permN_seqN n : permN n (seqN 0 n).
Proof.
  repeat split.
  - unfold lenN. rewrite seqN_length. lia.
  - apply seqN_NoDup.
  - apply Forall_forall. intros x Hx. apply seqN_in in Hx. lia.
Qed.

Lemma permN_swap n l i j l' : permN n l -> swapN l i j = Ok l' -> permN n l'.
Proof.
  intros [Hl [ND Hb]] H. destruct (swapN_inv _ _ _ _ 0 H) as [Li [Lj [Len Hn]]].
  repeat split.
  - unfold lenN in *. rewrite Len. exact Hl.
  - apply (proj2 (NoDup_nth l' 0)). intros a b La Lb E. rewrite !Hn in E. rewrite Len in La, Lb.
    apply (proj1 (NoDup_nth l 0) ND) in E; try (apply tr_lt; assumption).
    apply tr_inj in E. exact E.
  - apply Forall_forall. intros x Hx. destruct (In_nth _ _ 0 Hx) as [k [Lk Ek]]. subst x.
    rewrite Hn. rewrite Forall_forall in Hb. apply Hb. apply nth_In. rewrite Len in Lk. apply tr_lt; assumption.
Qed.

Lemma permN_get n l i x : permN n l -> getN l i = Ok x -> x < n.
Proof.
  intros [_ [_ Hb]] H. destruct (getN_inv _ _ _ 0 H) as [Li ->].
  rewrite Forall_forall in Hb. apply Hb. apply nth_In. exact Li.
Qed.

Lemma permN_get_neq n l i j x y : permN n l -> getN l i = Ok x -> getN l j = Ok y -> i <> j -> x <> y.
Proof.
  intros [_ [ND _]] Hx Hy Hij. destruct (getN_inv _ _ _ 0 Hx) as [Li ->]. destruct (getN_inv _ _ _ 0 Hy) as [Lj ->].
  apply NoDup_nth_neq; try assumption. lia.
Qed.

(* ---- byte matrices ---- *)
Definition bytes_row (r : list N) : Prop := Forall (fun x => x < 256) r.
Definition bytes_mat (A : list (list N)) : Prop := Forall bytes_row A.

Lemma bytes_nth r k : bytes_row r -> nth k r 0 < 256.
Proof.
  intros H. destruct (Nat.ltb_spec k (length r)) as [L|L].
  - unfold bytes_row in H. rewrite Forall_forall in H. apply H. apply nth_In. exact L.
  - rewrite nth_overflow by exact L. reflexivity.
Qed.

Lemma bytes_mat_nth A k : bytes_mat A -> bytes_row (nth k A []).
Proof.
  intros H. destruct (Nat.ltb_spec k (length A)) as [L|L].
  - unfold bytes_mat in H. rewrite Forall_forall in H. apply H. apply nth_In. exact L.
  - rewrite nth_overflow by exact L. constructor.
Qed.

Lemma bytes_getN r i x : bytes_row r -> getN r i = Ok x -> x < 256.
Proof. intros H E. destruct (getN_inv _ _ _ 0 E) as [_ ->]. apply bytes_nth. exact H. Qed.

Lemma bytes_mat_getN A i r : bytes_mat A -> getN A i = Ok r -> bytes_row r.
Proof. intros H E. destruct (getN_inv _ _ _ [] E) as [_ ->]. apply bytes_mat_nth. exact H. Qed.

Lemma bytes_bm_get A i j x : bytes_mat A -> bm_get A i j = Ok x -> x < 256.
Proof.
  unfold bm_get. intros H E. oinvas E as r Er. eapply bytes_getN; [|exact E]. eapply bytes_mat_getN; eassumption.
Qed.

Lemma bytes_putN {A} (P : A -> Prop) (l : list A) i v l' :
  Forall P l -> P v -> putN l i v = Ok l' -> Forall P l'.
Proof. intros Hl Hv E. destruct (putN_inv _ _ _ _ E) as [_ ->]. apply Forall_upd_nth; assumption. Qed.

Lemma Forall_swapN {A} (P : A -> Prop) (l : list A) i j l' :
  Forall P l -> swapN l i j = Ok l' -> Forall P l'.
Proof.
  unfold swapN. intros Hl H. oinvas H as x Ex. oinvas H as y Ey. oinvas H as l1 E1.
  assert (Px : P x). { rewrite Forall_forall in Hl. destruct l as [|d0 l0]; [unfold getN, nth_ok in Ex; destruct (N.to_nat i); discriminate|].
    destruct (getN_inv _ _ _ d0 Ex) as [L ->]. apply Hl. apply nth_In. exact L. }
  assert (Py : P y). { rewrite Forall_forall in Hl. destruct l as [|d0 l0]; [unfold getN, nth_ok in Ey; destruct (N.to_nat j); discriminate|].
    destruct (getN_inv _ _ _ d0 Ey) as [L ->]. apply Hl. apply nth_In. exact L. }
  eapply bytes_putN; [| exact Px | exact H]. eapply bytes_putN; [exact Hl | exact Py | exact E1].
Qed.

Lemma Forall_omapM {A B} (P : A -> Prop) (Q : B -> Prop) (f : A -> outcome B) l r :
  (forall a b, P a -> f a = Ok b -> Q b) -> Forall P l -> omapM f l = Ok r -> Forall Q r.
Proof.
  intros Hf Hl H. apply omapM_Forall2 in H. induction H as [|a b l r Hab _ IH]; [constructor|].
  inversion Hl; subst. constructor; [eapply Hf; eassumption | apply IH; assumption].
Qed.

Lemma In_firstn_incl' {A} n (l : list A) x : In x (firstn n l) -> In x l.
Proof. revert l; induction n as [|n IH]; intros [|h t] H; cbn in *; try contradiction. destruct H; [left; assumption | right; apply IH; assumption]. Qed.
Lemma Forall_firstn {A} (P : A -> Prop) n (l : list A) : Forall P l -> Forall P (firstn n l).
Proof. intros H. apply Forall_forall. intros x Hx. rewrite Forall_forall in H. apply H. eapply In_firstn_incl'; eauto. Qed.
Lemma In_skipn_incl {A} n (l : list A) x : In x (skipn n l) -> In x l.
Proof. revert l; induction n as [|n IH]; intros [|h t] H; cbn in *; try contradiction; auto. Qed.
Lemma Forall_skipn {A} (P : A -> Prop) n (l : list A) : Forall P l -> Forall P (skipn n l).
Proof. intros H. apply Forall_forall. intros x Hx. rewrite Forall_forall in H. apply H. eapply In_skipn_incl; eauto. Qed.
Lemma Forall_subl {A} (P : A -> Prop) (l : list A) s e : Forall P l -> Forall P (subl l s e).
Proof. intros H. unfold subl. apply Forall_firstn, Forall_skipn, H. Qed.

Lemma bytes_map2_lxor a b : bytes_row a -> bytes_row b -> bytes_row (Slab.map2 N.lxor a b).
Proof.
  unfold bytes_row. revert b; induction a as [|x a IH]; intros [|y b] Ha Hb; cbn; try constructor.
  - inversion Ha; inversion Hb; subst. apply lxor_lt_256; assumption.
  - inversion Ha; inversion Hb; subst. apply IH; assumption.
Qed.

Lemma bytes_bm_swap_cols A i j sr A' : bytes_mat A -> bm_swap_cols A i j sr = Ok A' -> bytes_mat A'.
Proof.
  unfold bm_swap_cols. intros H E. oinvas E as t Et. inversion E; subst A'.
  apply Forall_app. split; [apply Forall_firstn, H|].
  eapply Forall_omapM; [| apply Forall_skipn, H | exact Et].
  intros a b Pa Eb. unfold bytes_row in *. eapply Forall_swapN; eassumption.
Qed.

Lemma bytes_bm_add_rows A dest src sc A' : bytes_mat A -> bm_add_rows A dest src sc = Ok A' ->
  bytes_mat A' /\ dest <> src.
Proof.
  unfold bm_add_rows. intros H E. destruct (dest =? src) eqn:Eds; [discriminate|]. apply N.eqb_neq in Eds.
  oinvas E as rd Erd. oinvas E as rs Ers. split; [|exact Eds].
  eapply bytes_putN; [exact H | | exact E].
  apply Forall_app. split.
  - apply Forall_firstn. eapply bytes_mat_getN; eassumption.
  - apply bytes_map2_lxor; apply Forall_skipn; eapply bytes_mat_getN; eassumption.
Qed.

(* ---- the light invariant ---- *)
Record lite (M : N) (s : pstate) : Prop := mkLite {
  lt_d : permN M (ps_d s);
  lt_A : bytes_mat (ps_A s);
  lt_hd : match ps_hd s with Some h => bytes_mat h | None => True end;
  lt_ops : forallb (sop_valid M) (ps_ops s) = true }.

Lemma lite_set_X M s X : lite M s -> lite M (set_X s X).
Proof. intros [a b c d]. constructor; assumption. Qed.

Lemma lite_onX M m s f s' : lite M s -> onX m s f = Ok s' -> lite M s'.
Proof.
  unfold onX. intros L H. destruct m; [inversion H; subst; exact L|].
  oinvas H as X EX. inversion H; subst. apply lite_set_X, L.
Qed.

Lemma lite_record_fma M s i ip beta s' : lite M s -> record_fma_rows s i ip beta = Ok s' ->
  beta < 256 -> i <> ip -> lite M s'.
Proof.
  unfold record_fma_rows. intros [Ld LA Lh Lo] H Hb Hne.
  oinvas H as dp Edp. oinvas H as di Edi. inversion H; subst s'. clear H.
  constructor; cbn; try assumption.
  pose proof (permN_get _ _ _ _ Ld Edp) as Bdp. pose proof (permN_get _ _ _ _ Ld Edi) as Bdi.
  pose proof (permN_get_neq _ _ _ _ _ _ Ld Edp Edi (not_eq_sym Hne)) as Nq.
  apply N.ltb_lt in Bdp, Bdi. apply N.eqb_neq in Nq. apply N.ltb_lt in Hb.
  rewrite Lo, andb_true_r. destruct (beta =? 1); cbn; rewrite Bdp, Bdi, Nq; cbn; [reflexivity | exact Hb].
Qed.

Lemma lite_record_mul M s i beta s' : lite M s -> record_mul_row s i beta = Ok s' ->
  beta < 256 -> beta <> 0 -> lite M s'.
Proof.
  unfold record_mul_row. intros [Ld LA Lh Lo] H Hb Hnz.
  oinvas H as di Edi. destruct (ps_hd s) eqn:Eh; [discriminate|]. inversion H; subst s'. clear H.
  constructor; cbn; try assumption; [rewrite Eh; exact I|].
  pose proof (permN_get _ _ _ _ Ld Edi) as Bdi. apply N.ltb_lt in Bdi, Hb. apply N.eqb_neq in Hnz.
  rewrite Bdi, Hb, Hnz, Lo. reflexivity.
Qed.

Lemma lite_set_A M s A : lite M s -> bytes_mat A -> lite M (set_A s A).
Proof. intros [a b c d] H. constructor; assumption. Qed.

Lemma lite_fma_rows M m s i ip sc s' : lite M s -> fma_rows m s i ip sc = Ok s' -> lite M s' /\ i <> ip.
Proof.
  unfold fma_rows. intros L H. oinvas H as s1 E1.
  assert (A1 : ps_A s1 = ps_A s /\ ps_hd s1 = ps_hd s).
  { unfold record_fma_rows in E1. oinvas E1 as dp Edp. oinvas E1 as di Edi. inversion E1; subst; cbn; auto. }
  destruct A1 as [EA Eh].
  assert (K : forall A', bm_add_rows (ps_A s1) ip i sc = Ok A' -> lite M (set_A s1 A') /\ i <> ip).
  { intros A' EA'. rewrite EA in EA'. destruct (bytes_bm_add_rows _ _ _ _ _ (lt_A _ _ L) EA') as [BA Hne].
    split; [|congruence]. apply lite_set_A; [|exact BA].
    eapply lite_record_fma; [exact L | exact E1 | reflexivity | congruence]. }
  destruct (ps_hd s1) as [h|] eqn:Eh1.
  - oinvas H as first Ef. oinvas H as u0 Eas. destruct (first <=? ip); [discriminate|].
    oinvas H as A' EA'. inversion H; subst. apply K, EA'.
  - oinvas H as A' EA'. inversion H; subst. apply K, EA'.
Qed.

Lemma bytes_fma_binary m dest bits beta r : bytes_row dest -> beta < 256 ->
  fma_binary m dest bits beta = Ok r -> bytes_row r.
Proof.
  unfold fma_binary. intros Hd Hb H. omon H. inversion H; subst r. clear - Hd Hb.
  revert bits; unfold bytes_row in *. induction dest as [|x dest IH]; intros [|b bits]; cbn; try constructor.
  - inversion Hd; subst. destruct (b =? 1); [apply lxor_lt_256|]; assumption.
  - inversion Hd; subst. apply IH. assumption.
Qed.

Lemma record_fma_frame s i ip beta s' : record_fma_rows s i ip beta = Ok s' ->
  ps_A s' = ps_A s /\ ps_hd s' = ps_hd s /\ ps_d s' = ps_d s /\ ps_c s' = ps_c s /\ ps_W s' = ps_W s
  /\ ps_i s' = ps_i s /\ ps_u s' = ps_u s /\ ps_L s' = ps_L s /\ ps_X s' = ps_X s.
Proof. unfold record_fma_rows. intros H. omon H. inversion H; subst; cbn. repeat split. Qed.

Lemma lite_set_hd M s h : lite M s -> bytes_mat h -> lite M (set_hd s (Some h)).
Proof. intros [a b c d] H. constructor; assumption. Qed.

Lemma lite_fma_rows_with_pi M m s i ip beta col pio s' : lite M s -> beta < 256 ->
  fma_rows_with_pi m s i ip beta col pio = Ok s' -> lite M s'.
Proof.
  unfold fma_rows_with_pi. intros L Hb H. oinvas H as s1 E1.
  destruct (record_fma_frame _ _ _ _ _ E1) as [EA [Eh _]].
  assert (K : forall A', bm_add_rows (ps_A s1) ip i 0 = Ok A' -> lite M (set_A s1 A')).
  { intros A' EA'. rewrite EA in EA'. destruct (bytes_bm_add_rows _ _ _ _ _ (lt_A _ _ L) EA') as [BA Hne].
    apply lite_set_A; [|exact BA]. eapply lite_record_fma; [exact L | exact E1 | exact Hb | congruence]. }
  destruct (ps_hd s1) as [h|] eqn:Eh1.
  - oinvas H as first Ef. obind_inv H. apply N.ltb_lt in As. destruct (first <=? ip) eqn:Efi.
    + apply N.leb_le in Efi.
      assert (L1 : lite M s1) by (eapply lite_record_fma; [exact L | exact E1 | exact Hb | lia]).
      assert (Bh : bytes_mat h). { pose proof (lt_hd _ _ L1) as X. rewrite Eh1 in X. exact X. }
      oinvas H as row Er. pose proof (bytes_mat_getN _ _ _ Bh Er) as Brow.
      oinvas H as row2 Er2.
      assert (Brow2 : bytes_row row2).
      { destruct m; [inversion Er2; subst; exact Brow|].
        omon Er2. eapply bytes_putN; [exact Brow | | exact Er2].
        pose proof (bytes_getN _ _ _ Brow E0) as Ba0.
        match goal with |- (if ?c then _ else _) < 256 => destruct c end; [|exact Ba0].
        apply lxor_lt_256; [exact Ba0|]. apply mulN_lt; [|exact Hb].
        eapply bytes_bm_get; [apply (lt_A _ _ L1) | exact E]. }
      omon H. inversion H; subst s'. apply lite_set_hd; [exact L1|].
      eapply bytes_putN; [exact Bh | | exact E3].
      apply Forall_app. split; [apply Forall_firstn, Brow2|]. apply Forall_app. split; [|apply Forall_skipn, Brow2].
      eapply bytes_fma_binary; [| exact Hb | exact E2]. apply Forall_subl, Brow2.
    + omon H. inversion H; subst. apply K, E.
  - omon H. inversion H; subst. apply K, E.
Qed.

Lemma lite_ps_swap_rows M m s i j s' : lite M s -> ps_swap_rows m s i j = Ok s' -> lite M s'.
Proof.
  unfold ps_swap_rows. intros [Ld LA Lh Lo] H. oinvas H as u0 E0. omon H. inversion H; subst s'.
  constructor; cbn; try assumption.
  - eapply permN_swap; eassumption.
  - unfold bm_swap_rows in E. eapply Forall_swapN; eassumption.
Qed.

Lemma lite_ps_swap_cols M s i j sr s' : lite M s -> ps_swap_cols s i j sr = Ok s' -> lite M s'.
Proof.
  unfold ps_swap_cols. intros [Ld LA Lh Lo] H. omon H. inversion H; subst s'.
  constructor; cbn; try assumption.
  - eapply bytes_bm_swap_cols; eassumption.
  - destruct (ps_hd s) as [h|]; [|inversion E0; exact I]. omon E0. inversion E0; subst.
    eapply bytes_bm_swap_cols; eassumption.
Qed.

Lemma lite_swap_cols_all M m s st dest col s' st' : lite M s ->
  swap_cols_all m s st dest col = Ok (s', st') -> lite M s'.
Proof.
  unfold swap_cols_all. intros L H. omon H. inversion H; subst.
  eapply lite_onX; [|exact E1]. eapply lite_ps_swap_cols; eassumption.
Qed.

Lemma lite_swap_cols_loop M m it : forall r s st rem ff s' st' rem', lite M s ->
  swap_cols_loop m it r s st rem ff = Ok (s', st', rem') -> lite M s'.
Proof.
  induction it as [|[col value] t IH]; intros r s st rem ff s' st' rem' L H; cbn [swap_cols_loop] in H.
  - inversion H; subst; exact L.
  - destruct (value =? 0); [eapply IH; eassumption|].
    omon H. destruct (a1 <=? col).
    + omon H. eapply IH; eassumption.
    + destruct (col =? ps_i s).
      * omon H. eapply IH; eassumption.
      * omon H. pose proof (lite_swap_cols_all _ _ _ _ _ _ _ _ L E3) as L1.
        destruct (a3 =? 0); [inversion H; subst; exact L1|]. eapply IH; eassumption.
Qed.

Lemma lite_swap_substep M m s st r s' st' : lite M s ->
  first_phase_swap_columns_substep m s st r = Ok (s', st') -> lite M s'.
Proof.
  unfold first_phase_swap_columns_substep. intros L H. omon H. destruct (r =? 1).
  - destruct (filter _ a0) as [|[col v] t]; [discriminate|]. eapply lite_swap_cols_all; eassumption.
  - omon H. inversion H; subst. eapply lite_swap_cols_loop; eassumption.
Qed.

Lemma lite_eliminate_row M m r temp tv row s st rops s' st' rops' : lite M s ->
  eliminate_row m r temp tv row (s, st, rops) = Ok (s', st', rops') -> lite M s'.
Proof.
  unfold eliminate_row. intros L H. omon H.
  destruct (lite_fma_rows _ _ _ _ _ _ _ L E0) as [L1 _].
  destruct (r =? 1); [inversion H; subst; exact L1|]. omon H. inversion H; subst. exact L1.
Qed.

Lemma lite_mk M s i u : lite M s ->
  lite M (mkPS (ps_A s) (ps_W s) (ps_hd s) (ps_X s) (ps_c s) (ps_d s) i u (ps_L s) (ps_ops s)).
Proof. intros [a b c d]. constructor; assumption. Qed.

Lemma lite_advance M s r1 : lite M s -> lite M (advance s r1).
Proof. intros [a b c d]. constructor; assumption. Qed.

Lemma lite_eliminate_hdpc M m nh temp tv r s s' : lite M s -> tv < 256 ->
  eliminate_hdpc m nh temp tv r s = Ok s' -> lite M s'.
Proof.
  unfold eliminate_hdpc. intros L Htv H. destruct (0 <? nh); [|inversion H; subst; exact L]. omon H.
  revert H. apply (ofold_inv_in (lite M)); [|exact L].
  intros row sa sb _ La Eb. unfold eliminate_hdpc_row in Eb.
  destruct (ps_hd sa) as [h|] eqn:Eh; [|discriminate]. omon Eb.
  destruct (a1 =? 0); [inversion Eb; subst; exact La|]. omon Eb.
  destruct (tv =? 0) eqn:Ez; [discriminate|]. apply N.eqb_neq in Ez.
  eapply lite_fma_rows_with_pi; [exact La | | exact Eb].
  pose proof (lt_hd _ _ La) as Bh. rewrite Eh in Bh.
  apply divN_lt; [eapply bytes_bm_get; eassumption | exact Htv | exact Ez].
Qed.

Lemma lite_first_phase_step M m s st rops s' st' rops' : lite M s ->
  first_phase_step m s st rops = Ok (Some (s', st', rops')) -> lite M s'.
Proof.
  intros L H. apply first_phase_step_inv in H.
  destruct H as [(end_row & chosen & r & s1 & s2 & st1 & s3 & st2 & tv & pco & r1 & wu & ec & st3 & s4 & s5 &
    Eer & Esel & Hch & Esw & EX & Est & Esub & Etv & Epco & Er1 & Ewu & Eec & Ers & Eel & Ehd & ->) Evf].
  pose proof (lite_ps_swap_rows _ _ _ _ _ _ L Esw) as L1.
  pose proof (lite_onX _ _ _ _ _ L1 EX) as L2.
  pose proof (lite_swap_substep _ _ _ _ _ _ _ L2 Esub) as L3.
  assert (L4 : lite M s4).
  { revert Eel. apply (ofold_inv_in (fun x : pstate * stats * list rowop => lite M (fst (fst x)))
      (eliminate_row m r (ps_i s) tv) pco); [|exact L3].
    intros row [[sa sta] ra] [[sb stb] rb] _ La Eb. cbn in *. eapply lite_eliminate_row; eassumption. }
  cbn [fst] in L4.
  apply lite_advance. eapply lite_eliminate_hdpc; [exact L4 | | exact Ehd].
  eapply bytes_bm_get; [apply (lt_A _ _ L3) | exact Etv].
Qed.

Lemma lite_first_phase_loop M m fuel : forall s st rops s' rops', lite M s ->
  first_phase_loop m fuel s st rops = Ok (Some (s', rops')) -> lite M s'.
Proof.
  induction fuel as [|k IH]; intros s st rops s' rops' L H; cbn [first_phase_loop] in H.
  - destruct (ps_i s + ps_u s <? ps_L s); [discriminate|]. inversion H; subst; exact L.
  - destruct (ps_i s + ps_u s <? ps_L s); [|inversion H; subst; exact L].
    oinvas H as r Er. destruct r as [[[s1 st1] rops1]|]; [|discriminate].
    eapply IH; [|exact H]. eapply lite_first_phase_step; eassumption.
Qed.

Lemma lite_first_phase M m s s' xo : lite M s -> first_phase m s = Ok (Some (s', xo)) -> lite M s'.
Proof.
  unfold first_phase. intros L H. omon H. destruct a2 as [[s1 rops]|]; [|discriminate]. omon H.
  inversion H; subst. eapply lite_first_phase_loop; eassumption.
Qed.

(* ---- second phase ---- *)

Lemma bytes_oct_row_fma dest src c : bytes_row dest -> bytes_row src -> c < 256 ->
  bytes_row (oct_row_fma dest src c).
Proof.
  unfold oct_row_fma, bytes_row. intros Hd Hs Hc. destruct (c =? 1); [apply bytes_map2_lxor; assumption|].
  revert src Hs; induction dest as [|x dest IH]; intros [|y src] Hs; cbn; try constructor.
  - inversion Hd; inversion Hs; subst. apply lxor_lt_256; [assumption|]. apply mulN_lt; assumption.
  - inversion Hd; inversion Hs; subst. apply IH; assumption.
Qed.

Lemma bytes_map_mulN c r : c < 256 -> bytes_row r -> bytes_row (map (mulN c) r).
Proof.
  unfold bytes_row. intros Hc Hr. apply Forall_forall. intros x Hx. apply in_map_iff in Hx.
  destruct Hx as [y [<- Hy]]. rewrite Forall_forall in Hr. apply mulN_lt; [exact Hc | apply Hr, Hy].
Qed.

Lemma lite_reduce_column M m ro i s sub s' sub' : lite M s -> bytes_mat sub ->
  reduce_column m ro i (s, sub) = Ok (Some (s', sub')) -> lite M s' /\ bytes_mat sub'.
Proof.
  unfold reduce_column. intros L Bs H. omon H.
  assert (K1 : lite M p /\ bytes_mat l).
  { destruct a as [j|]; [|inversion E0; subst; auto]. omon E0. inversion E0; subst. split.
    - eapply lite_ps_swap_rows; eassumption.
    - unfold bytes_mat in *. eapply Forall_swapN; eassumption. }
  destruct K1 as [Lp Bl].
  pose proof (bytes_bm_get _ _ _ _ Bl E1) as Ba0.
  destruct (a0 =? 0) eqn:Ez; [discriminate|]. apply N.eqb_neq in Ez. omon H.
  assert (K2 : lite M p0 /\ bytes_mat l0).
  { destruct (a0 =? 1); [inversion E2; subst; auto|]. omon E2. inversion E2; subst.
    assert (Hinv : divN 1 a0 < 256) by (apply divN_lt; [reflexivity | exact Ba0 | exact Ez]).
    split.
    - eapply lite_record_mul; [exact Lp | eassumption | exact Hinv | apply divN_1_nz; assumption].
    - eapply bytes_putN; [exact Bl | | eassumption]. apply bytes_map_mulN; [exact Hinv|].
      eapply bytes_mat_getN; eassumption. }
  destruct K2 as [Lp0 Bl0].
  pose proof (bytes_mat_getN _ _ _ Bl0 E3) as Bprow.
  inversion H; subst p1 l1. clear H.
  revert E4.
  apply (ofold_inv_in (fun x : pstate * list (list N) => lite M (fst x) /\ bytes_mat (snd x))); [|split; assumption].
  intros j [sa suba] [sb subb] Hj [La Ba] Eb. cbn [fst snd] in *. omon Eb.
  match goal with X : getN suba j = Ok ?r |- _ => pose proof (bytes_mat_getN _ _ _ Ba X) as Browj end.
  match goal with X : getN ?r i = Ok ?c, Y : bytes_row ?r |- _ => pose proof (bytes_getN _ _ _ Y X) as Bsc end.
  match type of Eb with (if ?c then _ else _) = _ => destruct c end; [inversion Eb; subst; auto|].
  omon Eb. inversion Eb; subst. split.
  - eapply lite_record_fma; [exact La | eassumption | exact Bsc|]. apply seqN_in in Hj. lia.
  - eapply bytes_putN; [exact Ba | | eassumption]. apply bytes_oct_row_fma; assumption.
Qed.

Lemma lite_reduce_loop M m ro cols : forall s sub s' sub', lite M s -> bytes_mat sub ->
  reduce_loop m ro cols (s, sub) = Ok (Some (s', sub')) -> lite M s' /\ bytes_mat sub'.
Proof.
  induction cols as [|i t IH]; intros s sub s' sub' L B H; cbn [reduce_loop] in H.
  - inversion H; subst; auto.
  - oinvas H as r Er. destruct r as [[s1 sub1]|]; [|discriminate].
    destruct (lite_reduce_column _ _ _ _ _ _ _ _ L B Er) as [L1 B1]. eapply IH; eassumption.
Qed.

Lemma lite_set_hd_none M s : lite M s -> lite M (set_hd s None).
Proof. intros [a b c d]. constructor; try assumption. exact I. Qed.

Lemma lite_reduce M m s hd ro co size s' sub' : lite M s -> bytes_mat hd ->
  record_reduce_to_row_echelon m s hd ro co size = Ok (Some (s', sub')) -> lite M s' /\ bytes_mat sub'.
Proof.
  unfold record_reduce_to_row_echelon. intros L Bh H. omon H.
  eapply lite_reduce_loop; [exact L | | exact H].
  eapply (Forall_omapM (fun _ => True)); [| | exact E1]; [|apply Forall_forall; auto].
  intros row b _ Eb. omon Eb.
  assert (Ba2 : bytes_row a2).
  { destruct (row <? a); [eapply bytes_mat_getN; [apply (lt_A _ _ L)|eassumption] | eapply bytes_mat_getN; eassumption]. }
  destruct ((size =? 0) || (co + size <=? lenN a2)); [|discriminate]. inversion Eb; subst.
  apply Forall_subl, Ba2.
Qed.

Lemma lite_backwards M s sub ro co size s' : lite M s -> bytes_mat sub ->
  backwards_elimination s sub ro co size = Ok s' -> lite M s'.
Proof.
  unfold backwards_elimination. intros L Bs H. omon H. inversion H; subst.
  assert (La : lite M a).
  { revert E. apply (ofold_inv_in (lite M)); [|exact L].
    intros i sa sb Hi La. apply (ofold_inv_in (lite M)); [|exact La].
    intros j sc sd Hj Lc Ed. omon Ed. destruct (a1 =? 0); [inversion Ed; subst; exact Lc|].
    eapply lite_record_fma; [exact Lc | exact Ed | eapply bytes_bm_get; eassumption|].
    apply seqN_in in Hj. lia. }
  apply lite_set_A; [exact La|].
  revert E0. apply (ofold_inv_in bytes_mat); [|apply (lt_A _ _ La)].
  intros row Aa Ab _ Ba Eb. omon Eb.
  eapply bytes_putN; [exact Ba | | exact Eb].
  pose proof (bytes_mat_getN _ _ _ Ba E0) as Br.
  apply Forall_app. split; [apply Forall_firstn, Br|]. apply Forall_app. split; [|apply Forall_skipn, Br].
  apply Forall_forall. intros x Hx. apply in_map_iff in Hx. destruct Hx as [col [<- _]].
  destruct (row =? col); reflexivity.
Qed.

Lemma bytes_bm_resize A w h w' A' : bytes_mat A -> bm_resize A w h w' = Ok A' -> bytes_mat A'.
Proof.
  unfold bm_resize. intros B H. destruct ((h <=? lenN A) && (w' <=? w)); [|discriminate]. inversion H; subst.
  apply Forall_forall. intros x Hx. apply in_map_iff in Hx. destruct Hx as [y [<- Hy]].
  apply Forall_firstn. unfold bytes_mat in B. rewrite Forall_forall in B. apply B. eapply In_firstn_incl'; eauto.
Qed.

Lemma lite_second_phase M m s xo s' : lite M s -> second_phase m s xo = Ok (Some s') -> lite M s'.
Proof.
  unfold second_phase. intros L H. omon H.
  pose proof (lite_onX _ _ _ _ _ L E0) as L0.
  destruct a1 as [[s1 sub]|]; [|discriminate]. omon H. inversion H; subst.
  assert (Bh : bytes_mat (match ps_hd a0 with Some h => h | None => [] end)).
  { pose proof (lt_hd _ _ L0) as X. destruct (ps_hd a0); [exact X | constructor]. }
  destruct (lite_reduce _ _ _ _ _ _ _ _ _ (lite_set_hd_none _ _ L0) Bh E1) as [L1 B1].
  pose proof (lite_backwards _ _ _ _ _ _ _ L1 B1 E2) as [Ld LA Lh Lo].
  constructor; cbn; try assumption. eapply bytes_bm_resize; eassumption.
Qed.

(* ---- third, fourth, fifth phase ---- *)

Definition xo_ok (op : rowop) : Prop := match op with RAdd a b => a <> b | RSwap _ _ => False end.

Lemma lite_third_fold M m l : forall s s', lite M s ->
  ofold (fun op s => match op with
                     | RAdd src dest => fma_rows m s src dest (errata11_start m s)
                     | RSwap _ _ => Panic PUnreachable
                     end) l s = Ok s' -> lite M s' /\ Forall xo_ok l.
Proof.
  induction l as [|op l IH]; intros s s' L E0.
  - cbn in E0. inversion E0; subst. auto.
  - apply ofold_cons_inv in E0. destruct E0 as [s1 [E1 E2]]. destruct op as [src dest|]; [|discriminate].
    destruct (lite_fma_rows _ _ _ _ _ _ _ L E1) as [L1 Hne]. destruct (IH _ _ L1 E2) as [L2 F2].
    split; [exact L2|]. constructor; [exact Hne | exact F2].
Qed.

Lemma lite_third_phase M m s xo s' : lite M s -> third_phase m s xo = Ok s' ->
  lite M s' /\ Forall xo_ok xo.
Proof.
  unfold third_phase. intros L H. omon H. inversion H; subst.
  destruct (lite_third_fold _ _ _ _ _ L E0) as [K1 K2].
  split; [exact K1|]. apply Forall_rev in K2. rewrite rev_involutive in K2. exact K2.
Qed.

Lemma lite_fourth_phase M m s s' : lite M s -> fourth_phase m s = Ok s' -> lite M s'.
Proof.
  unfold fourth_phase. intros L H. omon H. inversion H; subst.
  revert E. apply (ofold_inv_in (lite M)); [|exact L].
  intros i sa sb _ La Eb. omon Eb. revert Eb. apply (ofold_inv_in (lite M)); [|exact La].
  intros j sc sd _ Lc Ed. eapply lite_fma_rows; eassumption.
Qed.

Lemma lite_fifth_phase M m s xo s' : lite M s -> Forall xo_ok xo -> fifth_phase m s xo = Ok s' -> lite M s'.
Proof.
  unfold fifth_phase. intros L F H. omon H. inversion H; subst.
  revert E. apply (ofold_inv_in (lite M)); [|exact L].
  intros op sa sb Hin La Eb. rewrite Forall_forall in F. specialize (F op Hin).
  destruct op as [src dest|]; [|discriminate]. cbn in F. destruct m.
  - eapply lite_record_fma; [exact La | exact Eb | reflexivity | exact F].
  - eapply lite_fma_rows; eassumption.
Qed.

(* ---- the whole run ---- *)

Lemma lite_execute M m s ops : lite M s -> execute m s = Ok (Some ops) ->
  exists body ord, ops = body ++ [SReorder ord] /\ forallb (sop_valid M) body = true.
Proof.
  unfold execute. intros L H. omon H. destruct a as [[s1 xo]|]; [|discriminate]. omon H.
  destruct a as [s2|]; [|discriminate]. omon H. inversion H; subst.
  pose proof (lite_first_phase _ _ _ _ _ L E) as L1.
  pose proof (lite_second_phase _ _ _ _ _ L1 E0) as L2.
  destruct (lite_third_phase _ _ _ _ _ L2 E1) as [L3 F].
  pose proof (lite_fourth_phase _ _ _ _ L3 E2) as L4.
  pose proof (lite_fifth_phase _ _ _ _ _ L4 F E3) as L5.
  exists (rev (ps_ops a1)), a2. split; [reflexivity|].
  pose proof (lt_ops _ _ L5) as Ho. rewrite forallb_forall in *. intros x Hx. apply Ho. apply in_rev. exact Hx.
Qed.

Lemma lite_new_common M m A L P s : bytes_mat A -> lenN A = M -> ps_new_common m A L P = Ok s -> lite M s.
Proof.
  unfold ps_new_common. intros B HM H. omon H. inversion H; subst. constructor; cbn; auto.
  apply permN_seqN.
Qed.

Lemma ps_swap_rows_height m s i j s' : ps_swap_rows m s i j = Ok s' -> ps_height s' = ps_height s.
Proof.
  unfold ps_swap_rows. intros H. omon H. inversion H; subst. unfold ps_height, lenN. cbn.
  unfold bm_swap_rows in E0. destruct (swapN_inv _ _ _ _ [] E0) as [_ [_ [Len _]]]. rewrite Len. reflexivity.
Qed.

Lemma lite_new m S H A hdpc L P s : bytes_mat A -> bytes_mat hdpc ->
  ps_new m S H A hdpc L P = Ok s -> lite (lenN A) s.
Proof.
  unfold ps_new. intros BA Bh E. omon E. inversion E; subst s.
  apply lite_set_hd; [|exact Bh].
  revert E1. apply (ofold_inv_in (lite (lenN A))); [|eapply lite_new_common; [exact BA | reflexivity | eassumption]].
  intros i sa sb _ La Eb. omon Eb. eapply lite_onX; [|exact Eb]. eapply lite_ps_swap_rows; eassumption.
Qed.

(* PS_ops_are_row_ops *)
Theorem pi_run_ops_valid m S H A hdpc L P ops :
  bytes_mat A -> bytes_mat hdpc ->
  pi_run m S H A hdpc L P = Ok (Some ops) ->
  exists body ord, ops = body ++ [SReorder ord] /\ forallb (sop_valid (lenN A)) body = true.
Proof.
  unfold pi_run. intros BA Bh E. omon E. eapply lite_execute; [|exact E].
  eapply lite_new; [exact BA | exact Bh | exact E0].
Qed.

Theorem pi_run_no_hdpc_ops_valid m A L P ops :
  bytes_mat A ->
  pi_run_no_hdpc m A L P = Ok (Some ops) ->
  exists body ord, ops = body ++ [SReorder ord] /\ forallb (sop_valid (lenN A)) body = true.
Proof.
  unfold pi_run_no_hdpc. intros BA E. omon E. eapply lite_execute; [|exact E].
  eapply lite_new_common; [exact BA | reflexivity | exact E0].
Qed.
