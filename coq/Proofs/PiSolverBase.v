(* Helper lemmas for the proofs about Model/PiSolver.v: the list primitives with machine-integer
   indices (getN putN swapN subl seqN), folds in the outcome monad, the field laws of mulN. *)
From Coq Require Import NArith List Bool Lia Arith.
From RQ Require Import Base.Outcome Base.Ints Base.ListX Model.Octet Model.CMatrix Model.Slab
  Spec.Linear Proofs.OutcomeLemmas Proofs.OctetProofs Proofs.LinearProofs Model.PiSolver.
Import ListNotations.
Open Scope N_scope.

Arguments N.add : simpl never.
Arguments N.sub : simpl never.
Arguments N.mul : simpl never.
Arguments N.eqb : simpl never.
Arguments N.ltb : simpl never.
Arguments N.leb : simpl never.

(* ---- the transposition (a b) on positions ---- *)
Definition tr (a b k : nat) : nat := if Nat.eqb k a then b else if Nat.eqb k b then a else k.

Lemma tr_invol a b k : tr a b (tr a b k) = k.
Proof.
  unfold tr. destruct (Nat.eqb k a) eqn:E1.
  - apply Nat.eqb_eq in E1. subst. destruct (Nat.eqb b a) eqn:E2.
    + apply Nat.eqb_eq in E2. auto.
    + rewrite Nat.eqb_refl. reflexivity.
  - destruct (Nat.eqb k b) eqn:E2.
    + apply Nat.eqb_eq in E2. subst. rewrite Nat.eqb_refl. reflexivity.
    + rewrite E1, E2. reflexivity.
Qed.

Lemma tr_l a b : tr a b a = b.
Proof. unfold tr. rewrite Nat.eqb_refl. reflexivity. Qed.
Lemma tr_r a b : tr a b b = a.
Proof. unfold tr. rewrite Nat.eqb_refl. destruct (Nat.eqb b a) eqn:E; [apply Nat.eqb_eq in E; auto | reflexivity]. Qed.
Lemma tr_other a b k : k <> a -> k <> b -> tr a b k = k.
Proof. intros H1 H2. unfold tr. apply Nat.eqb_neq in H1, H2. rewrite H1, H2. reflexivity. Qed.
Lemma tr_lt a b k n : (a < n)%nat -> (b < n)%nat -> (k < n)%nat -> (tr a b k < n)%nat.
Proof. intros. unfold tr. destruct (Nat.eqb k a); [assumption|]. destruct (Nat.eqb k b); assumption. Qed.
Lemma tr_inj a b k k' : tr a b k = tr a b k' -> k = k'.
Proof. intros H. rewrite <- (tr_invol a b k), H. apply tr_invol. Qed.
Lemma tr_ge a b k n : (n <= a)%nat -> (n <= b)%nat -> (n <= k)%nat -> (n <= tr a b k)%nat.
Proof. intros. unfold tr. destruct (Nat.eqb k a); [assumption|]. destruct (Nat.eqb k b); assumption. Qed.
Lemma tr_below a b k n : (n <= a)%nat -> (n <= b)%nat -> (k < n)%nat -> tr a b k = k.
Proof. intros. apply tr_other; lia. Qed.

(* ---- nth / upd_nth ---- *)
Lemma nth_upd_same {A} i (x d : A) l : (i < length l)%nat -> nth i (upd_nth i x l) d = x.
Proof. revert i; induction l as [|h t IH]; intros [|i] H; cbn in *; try lia; auto. apply IH. lia. Qed.

Lemma nth_upd_other {A} i j (x d : A) l : i <> j -> nth j (upd_nth i x l) d = nth j l d.
Proof.
  revert i j; induction l as [|h t IH]; intros [|i] [|j] H; cbn; try reflexivity; try congruence.
  apply IH. congruence.
Qed.

Lemma list_put_upd {A} (l : list A) v : forall i l', list_put l i v = Ok l' ->
  (i < length l)%nat /\ l' = upd_nth i v l.
Proof.
  induction l as [|h t IH]; intros [|i] l' H; cbn in H; try discriminate.
  - inversion H. cbn. split; [lia | reflexivity].
  - destruct (list_put t i v) eqn:E; cbn in H; [|discriminate]. inversion H; subst.
    destruct (IH _ _ E) as [L E']. subst. cbn. split; [lia | reflexivity].
Qed.

Lemma list_put_ok' {A} (l : list A) v : forall i, (i < length l)%nat -> list_put l i v = Ok (upd_nth i v l).
Proof.
  induction l as [|h t IH]; intros [|i] H; cbn in *; try lia; [reflexivity|].
  rewrite IH by lia. reflexivity.
Qed.

(* ---- getN putN swapN ---- *)
Lemma getN_inv {A} (l : list A) i x d : getN l i = Ok x ->
  (N.to_nat i < length l)%nat /\ x = nth (N.to_nat i) l d.
Proof. unfold getN. apply nth_ok_inv. Qed.

Lemma getN_ok {A} (l : list A) i d : (N.to_nat i < length l)%nat -> getN l i = Ok (nth (N.to_nat i) l d).
Proof. unfold getN. apply nth_ok_some. Qed.

Lemma putN_inv {A} (l : list A) i v l' : putN l i v = Ok l' ->
  (N.to_nat i < length l)%nat /\ l' = upd_nth (N.to_nat i) v l.
Proof. unfold putN. apply list_put_upd. Qed.

Lemma putN_ok {A} (l : list A) i v : (N.to_nat i < length l)%nat -> putN l i v = Ok (upd_nth (N.to_nat i) v l).
Proof. unfold putN. apply list_put_ok'. Qed.

Lemma swapN_inv {A} (l : list A) i j l' d : swapN l i j = Ok l' ->
  (N.to_nat i < length l)%nat /\ (N.to_nat j < length l)%nat /\ length l' = length l /\
  forall k, nth k l' d = nth (tr (N.to_nat i) (N.to_nat j) k) l d.
Proof.
  unfold swapN. intros H.
  oinvas H as x Ex. oinvas H as y Ey. oinvas H as l1 E1.
  destruct (getN_inv _ _ _ d Ex) as [Li Hx]. destruct (getN_inv _ _ _ d Ey) as [Lj Hy].
  destruct (putN_inv _ _ _ _ E1) as [_ H1]. destruct (putN_inv _ _ _ _ H) as [L2 H2]. subst l1 l'.
  repeat split; auto.
  - rewrite !upd_nth_length. reflexivity.
  - intros k. unfold tr.
    destruct (Nat.eqb k (N.to_nat i)) eqn:Ki.
    + apply Nat.eqb_eq in Ki. subst k.
      destruct (Nat.eq_dec (N.to_nat i) (N.to_nat j)) as [e|ne].
      * rewrite e. rewrite nth_upd_same by (rewrite upd_nth_length; lia). rewrite Hx, e. reflexivity.
      * rewrite nth_upd_other by congruence. rewrite nth_upd_same by lia. exact Hy.
    + apply Nat.eqb_neq in Ki. destruct (Nat.eqb k (N.to_nat j)) eqn:Kj.
      * apply Nat.eqb_eq in Kj. subst k. rewrite nth_upd_same by (rewrite upd_nth_length; lia). exact Hx.
      * apply Nat.eqb_neq in Kj. rewrite !nth_upd_other by congruence. reflexivity.
Qed.

(* ---- seqN ---- *)
Lemma seqN_from_spec n : forall i, seqN_from n i = map N.of_nat (seq (N.to_nat i) n).
Proof.
  induction n as [|n IH]; intros i; cbn [seqN_from seq map]; [reflexivity|].
  rewrite IH. f_equal; [lia|]. f_equal. f_equal. lia.
Qed.

Lemma seqN_spec s e : seqN s e = map N.of_nat (seq (N.to_nat s) (N.to_nat (e - s))).
Proof. unfold seqN. apply seqN_from_spec. Qed.

Lemma seqN_length s e : length (seqN s e) = N.to_nat (e - s).
Proof. rewrite seqN_spec, map_length, seq_length. reflexivity. Qed.

Lemma seqN_in s e x : In x (seqN s e) <-> s <= x < e.
Proof.
  rewrite seqN_spec, in_map_iff. split.
  - intros [k [Hk Hin]]. apply in_seq in Hin. lia.
  - intros H. exists (N.to_nat x). split; [lia|]. apply in_seq. lia.
Qed.

Lemma seqN_nth s e k d : (k < N.to_nat (e - s))%nat -> nth k (seqN s e) d = s + N.of_nat k.
Proof.
  intros H. rewrite seqN_spec. rewrite (nth_indep _ d (N.of_nat 0)) by (rewrite map_length, seq_length; exact H).
  rewrite map_nth, seq_nth by exact H. lia.
Qed.

Lemma seqN_nil s e : e <= s -> seqN s e = [].
Proof. intros H. unfold seqN. replace (e - s) with 0 by lia. reflexivity. Qed.

Lemma seqN_cons s e : s < e -> seqN s e = s :: seqN (s + 1) e.
Proof.
  intros H. unfold seqN. replace (N.to_nat (e - s)) with (S (N.to_nat (e - (s + 1)))) by lia.
  cbn [seqN_from]. f_equal. f_equal. lia.
Qed.

Lemma seqN_snoc s e : s <= e -> seqN s (e + 1) = seqN s e ++ [e].
Proof.
  intros H. rewrite !seqN_spec. replace (N.to_nat (e + 1 - s)) with (N.to_nat (e - s) + 1)%nat by lia.
  rewrite seq_app, map_app. cbn [seq map]. f_equal. f_equal. lia.
Qed.

Lemma seqN_NoDup s e : NoDup (seqN s e).
Proof.
  rewrite seqN_spec. apply FinFun.Injective_map_NoDup; [|apply seq_NoDup].
  intros a b H. lia.
Qed.

(* ---- subl ---- *)
Lemma subl_length {A} (l : list A) s e : e <= lenN l -> length (subl l s e) = N.to_nat (e - s).
Proof.
  unfold subl, lenN. intros H. rewrite firstn_length, skipn_length. lia.
Qed.

Lemma nth_firstn_lt {A} (l : list A) n k d : (k < n)%nat -> nth k (firstn n l) d = nth k l d.
Proof.
  revert n k; induction l as [|h t IH]; intros [|n] [|k] H; cbn; try reflexivity; try lia.
  apply IH. lia.
Qed.

Lemma nth_skipn' {A} (l : list A) n k d : nth k (skipn n l) d = nth (n + k) l d.
Proof.
  revert l; induction n as [|n IH]; intros l; [reflexivity|].
  destruct l as [|h t]; cbn [skipn]; [destruct k; reflexivity|]. apply IH.
Qed.

Lemma subl_nth {A} (l : list A) s e k d : (k < N.to_nat (e - s))%nat ->
  nth k (subl l s e) d = nth (N.to_nat s + k) l d.
Proof.
  unfold subl. intros H. rewrite nth_firstn_lt by exact H. apply nth_skipn'.
Qed.

(* ---- folds in the outcome monad ---- *)
Lemma ofold_nil {A St} (f : A -> St -> outcome St) s : ofold f [] s = Ok s.
Proof. reflexivity. Qed.

Lemma ofold_cons_inv {A St} (f : A -> St -> outcome St) a l s r :
  ofold f (a :: l) s = Ok r -> exists s1, f a s = Ok s1 /\ ofold f l s1 = Ok r.
Proof. cbn [ofold]. intros H. oinvas H as s1 E. eauto. Qed.

Lemma ofold_inv_in {A St} (Q : St -> Prop) (f : A -> St -> outcome St) l :
  (forall a s s', In a l -> Q s -> f a s = Ok s' -> Q s') ->
  forall s r, Q s -> ofold f l s = Ok r -> Q r.
Proof.
  induction l as [|a l IH]; intros Hstep s r Hs H.
  - cbn in H. inversion H; subst; exact Hs.
  - apply ofold_cons_inv in H. destruct H as [s1 [E1 E2]].
    apply (IH (fun a' s0 s0' Hin => Hstep a' s0 s0' (or_intror Hin)) s1 r); [|exact E2].
    apply (Hstep a s s1 (or_introl eq_refl) Hs E1).
Qed.

(* invariant indexed by the processed prefix *)
Lemma ofold_inv_pre {A St} (P : list A -> St -> Prop) (f : A -> St -> outcome St) l :
  (forall pre a post s s', l = pre ++ a :: post -> P pre s -> f a s = Ok s' -> P (pre ++ [a]) s') ->
  forall s r, P [] s -> ofold f l s = Ok r -> P l r.
Proof.
  intros Hstep.
  assert (G : forall post pre s r, l = pre ++ post -> P pre s -> ofold f post s = Ok r -> P l r).
  { induction post as [|a post IH]; intros pre s r El Hs H.
    - cbn in H. inversion H; subst. rewrite app_nil_r. exact Hs.
    - apply ofold_cons_inv in H. destruct H as [s1 [E1 E2]].
      apply (IH (pre ++ [a]) s1 r); [rewrite <- app_assoc; exact El | | exact E2].
      apply (Hstep pre a post s s1 El Hs E1). }
  intros s r Hs H. apply (G l [] s r eq_refl Hs H).
Qed.

Lemma omapM_nth {A B} (f : A -> outcome B) l r da db k :
  omapM f l = Ok r -> (k < length l)%nat -> f (nth k l da) = Ok (nth k r db).
Proof.
  intros H Hk. apply omapM_Forall2 in H.
  revert k Hk. induction H as [|a b l r Hab _ IH]; intros k Hk; cbn in *; [lia|].
  destruct k; [exact Hab | apply IH; lia].
Qed.

(* ---- usub ---- *)
Lemma usub_inv m a b v : usub m a b = Ok v -> b <= a -> v = a - b.
Proof.
  unfold usub, sub_w. intros H L. destruct (b <=? a) eqn:E; [inversion H; reflexivity|].
  apply N.leb_gt in E. lia.
Qed.

Lemma usub_checked a b v : usub Checked a b = Ok v -> b <= a /\ v = a - b.
Proof.
  unfold usub, sub_w. destruct (b <=? a) eqn:E; intros H; [|discriminate].
  apply N.leb_le in E. inversion H. auto.
Qed.

(* ---- the field laws of the table multiplication ---- *)
Definition inv8 (a : N) : N := divN 1 a.

Lemma mulN_1_l a : a < 256 -> mulN 1 a = a.
Proof. intros H. rewrite mulN_comm. apply mulN_1_r. exact H. Qed.

Lemma divN_lt a b : a < 256 -> b < 256 -> b <> 0 -> divN a b < 256.
Proof.
  intros Ha Hb Hz.
  destruct (N.eq_dec a 0) as [->|Hnz]; [reflexivity|].
  unfold divN. apply N.eqb_neq in Hnz. rewrite Hnz. apply N.eqb_neq in Hnz.
  pose proof (log_facts a Ha Hnz) as [La _]. pose proof (log_facts b Hb Hz) as [Lb _].
  apply exp_facts. lia.
Qed.

Lemma mulN_field : field_ok mulN inv8.
Proof.
  constructor.
  - apply mulN_lt.
  - intros a b _ _. apply mulN_comm.
  - apply mulN_assoc.
  - apply mulN_1_r.
  - apply mulN_1_l.
  - intros a _. apply mulN_0_l.
  - intros a _. apply mulN_0_r.
  - apply mulN_distr_r.
  - intros a b c Ha Hb Hc. pose proof (lxor_lt_256 a b Ha Hb).
    rewrite (mulN_comm (N.lxor a b) c), (mulN_comm a c), (mulN_comm b c). apply mulN_distr_r; assumption.
  - intros a Ha Hz. split; [apply mulN_inv; assumption|]. unfold inv8. apply divN_lt; [reflexivity | exact Ha | exact Hz].
Qed.

Lemma divN_1_r a : a < 256 -> divN a 1 = a.
Proof.
  intros Ha. destruct (N.eq_dec a 0) as [->|Hnz]; [reflexivity|].
  pose proof (mulN_div a 1 Ha eq_refl) as H. rewrite mulN_1_r in H; [apply H; discriminate|].
  apply divN_lt; [exact Ha | reflexivity | discriminate].
Qed.

Lemma divN_1_nz a : a < 256 -> a <> 0 -> divN 1 a <> 0.
Proof. intros Ha Hz. apply (inv_nz mulN inv8 mulN_field a Ha Hz). Qed.
