(* Proofs about Model/Encoder.v: enc_into is the xor of the intermediate symbols at enc_indices;
   the structure of repair windows (stream addressing, C18); source packets; the per-object
   packet list. *)
From Coq Require Import NArith List Bool Lia Arith FinFun.
From RQ Require Import Base.Outcome Base.Ints Base.ListX Gen.Consts Gen.SysTables
  Spec.Linear Spec.Layout Spec.Tuple
  Model.Octet Model.FieldFast Model.SysConst Model.Tuple Model.CMatrix Model.Layout Model.Slab
  Model.Encoder
  Proofs.SysConstProofs Proofs.C15Sweep1 Proofs.C15Proofs Proofs.TupleProofs
  Proofs.OutcomeLemmas Proofs.RowParams.
Import ListNotations.
Open Scope N_scope.

Notation packet := ((N * N) * list N)%type.

(* ---- Enc: xor of the symbols of C at a list of indices, first index copied ---- *)

Definition xor_step (C : list (list N)) (j : N) (acc : list N) : outcome (list N) :=
  obind (nth_ok C (N.to_nat j)) (fun s => Ok (bytes_add acc s)).

Definition xor_at (C : list (list N)) (idx : list N) : outcome (list N) :=
  match idx with
  | [] => Panic PIndex
  | i0 :: rest => obind (nth_ok C (N.to_nat i0)) (fun first => ofold (xor_step C) rest first)
  end.

(* total version, for in-range indices *)
Definition xsyms (C : list (list N)) (idx : list N) (acc : list N) : list N :=
  fold_left (fun acc j => bytes_add acc (nth (N.to_nat j) C [])) idx acc.

Lemma ofold_xor_step C idx : Forall (fun j => j < lenN C) idx -> forall acc,
  ofold (xor_step C) idx acc = Ok (xsyms C idx acc).
Proof.
  induction 1 as [|j idx Hj Hall IH]; intros acc; cbn [ofold xsyms fold_left]; [reflexivity|].
  unfold xor_step at 1. rewrite (nth_ok_some C (N.to_nat j) []) by (unfold lenN in Hj; lia).
  cbn [obind]. apply IH.
Qed.

Lemma xor_at_ok C i0 rest : Forall (fun j => j < lenN C) (i0 :: rest) ->
  xor_at C (i0 :: rest) = Ok (xsyms C rest (nth (N.to_nat i0) C [])).
Proof.
  intros Hall. inversion Hall as [|? ? H0 Hr]; subst. unfold xor_at.
  rewrite (nth_ok_some C (N.to_nat i0) []) by (unfold lenN in H0; lia). cbn [obind].
  apply ofold_xor_step. exact Hr.
Qed.

Lemma ofold_xor_step_inv C idx : forall acc v,
  ofold (xor_step C) idx acc = Ok v -> Forall (fun j => j < lenN C) idx.
Proof.
  induction idx as [|j idx IH]; intros acc v E; [constructor|]. cbn [ofold] in E. oinv E.
  unfold xor_step in E0. oinv E0. apply (nth_ok_inv _ _ _ []) in E1. destruct E1 as [Hj _].
  constructor; [unfold lenN; lia | eapply IH; exact E].
Qed.

Lemma xor_at_inv C idx v : xor_at C idx = Ok v -> Forall (fun j => j < lenN C) idx.
Proof.
  destruct idx as [|i0 rest]; [discriminate|]. unfold xor_at. intros E. oinv E.
  apply (nth_ok_inv _ _ _ []) in E0. destruct E0 as [Hj _].
  constructor; [unfold lenN; lia | eapply ofold_xor_step_inv; exact E].
Qed.

(* enc_into against enc_indices: the same asserts (enc_indices has `d > 0` in addition), the same
   three loops *)
Lemma enc_into_is_enc_indices m K C t W P P1 idx :
  num_lt_symbols K = Ok W -> num_pi_symbols K = Ok P -> calculate_p1 K = Ok P1 ->
  enc_indices m t W P P1 = Ok idx -> enc_into m K C t = xor_at C idx.
Proof.
  intros HW HP HP1 E. destruct t as [[[[[d a] b] d1] a1] b1].
  unfold enc_into. rewrite HW, HP, HP1. cbn [obind]. unfold enc_indices in E.
  destruct (0 <? d); [|discriminate E].
  destruct ((1 <=? a) && (a <? W)); [|discriminate E].
  destruct (b <? W); [|discriminate E].
  destruct ((d1 =? 2) || (d1 =? 3)); [|discriminate E].
  destruct ((1 <=? a1) && (a1 <? P1)); [|discriminate E].
  destruct (b1 <? P1); [|discriminate E].
  cbn [assert_ok obind] in E |- *.
  oinv E. oinv E. oinv E. oinv E. injection E as <-.
  unfold xor_at. destruct (nth_ok C (N.to_nat b)) as [first|c]; cbn [obind]; [|reflexivity].
  rewrite E0. cbn [obind]. rewrite E1. cbn [obind]. rewrite E2. cbn [obind]. rewrite E3. cbn [obind].
  reflexivity.
Qed.

Lemma enc_into_ok_enc_indices m K C t W P P1 v :
  num_lt_symbols K = Ok W -> num_pi_symbols K = Ok P -> calculate_p1 K = Ok P1 ->
  (let '(d, _, _, _, _, _) := t in 1 <= d) ->
  enc_into m K C t = Ok v -> exists idx, enc_indices m t W P P1 = Ok idx /\ xor_at C idx = Ok v.
Proof.
  intros HW HP HP1 Hd E. destruct t as [[[[[d a] b] d1] a1] b1].
  assert (X : exists idx, enc_indices m (d, a, b, d1, a1, b1) W P P1 = Ok idx).
  { unfold enc_into in E. rewrite HW, HP, HP1 in E. cbn [obind] in E. unfold enc_indices.
    replace (0 <? d) with true by (symmetry; apply N.ltb_lt; lia).
    destruct ((1 <=? a) && (a <? W)); [|discriminate E].
    destruct (b <? W); [|discriminate E].
    destruct ((d1 =? 2) || (d1 =? 3)); [|discriminate E].
    destruct ((1 <=? a1) && (a1 <? P1)); [|discriminate E].
    destruct (b1 <? P1); [|discriminate E].
    cbn [assert_ok obind] in E |- *.
    oinv E. oinv E. oinv E. oinv E. oinv E.
    rewrite E1. cbn [obind]. rewrite E2. cbn [obind]. rewrite E3. cbn [obind]. rewrite E4. cbn [obind].
    eauto. }
  destruct X as [idx X]. exists idx. split; [exact X|].
  rewrite <- (enc_into_is_enc_indices m K C _ W P P1 idx HW HP HP1 X). exact E.
Qed.

(* ---- source packets ---- *)

Lemma enumerate_from_length {A} (l : list A) : forall i, length (enumerate_from i l) = length l.
Proof. induction l as [|a t IH]; intros i; cbn [enumerate_from length]; [reflexivity|]. rewrite IH. reflexivity. Qed.

Lemma enumerate_from_nth {A} (l : list A) d : forall i k, (k < length l)%nat ->
  nth k (enumerate_from i l) (0, d) = (i + N.of_nat k, nth k l d).
Proof.
  induction l as [|a t IH]; intros i k Hk; cbn [length] in Hk; [lia|].
  cbn [enumerate_from]. destruct k as [|k]; cbn [nth].
  - f_equal. lia.
  - rewrite IH by lia. f_equal. lia.
Qed.

Lemma enumerate_from_map_fst {A} (l : list A) : forall i,
  map fst (enumerate_from i l) = map (fun k => i + k) (rangeN (length l)).
Proof.
  induction l as [|a t IH]; intros i; [reflexivity|].
  cbn [enumerate_from map length fst]. unfold rangeN. cbn [seq map]. f_equal; [lia|].
  rewrite IH. unfold rangeN. rewrite <- seq_shift, !map_map. apply map_ext. intros k. lia.
Qed.

Lemma enumerate_from_map_snd {A} (l : list A) : forall i, map snd (enumerate_from i l) = l.
Proof. induction l as [|a t IH]; intros i; cbn [enumerate_from map snd]; [reflexivity|]. rewrite IH. reflexivity. Qed.

(* ids (sbn, 0..K-1) in order, payloads the symbols in order *)
Lemma source_packets_inv sbn syms l : source_packets sbn syms = Ok l ->
  map fst l = map (fun i => (sbn, i)) (rangeN (length syms)) /\ map snd l = syms /\
  lenN syms <= 16777216.
Proof.
  unfold source_packets.
  assert (G : forall i0 l, i0 <= 16777216 ->
    omapM (fun im : N * list N => obind (payload_id_new sbn (u32 (fst im))) (fun id => Ok (id, snd im)))
          (enumerate_from i0 syms) = Ok l ->
    map fst l = map (fun i => (sbn, i0 + i)) (rangeN (length syms)) /\ map snd l = syms /\
    i0 + lenN syms <= 16777216).
  { clear l. induction syms as [|s t IH]; intros i0 l Hb E.
    - cbn [enumerate_from omapM] in E. injection E as <-. unfold lenN. cbn [length map].
      repeat split; try reflexivity; lia.
    - cbn [enumerate_from omapM fst snd] in E.
      unfold payload_id_new in E at 1.
      destruct (u32 i0 <? 16777216) eqn:Ei; [|discriminate E]. cbn [assert_ok obind] in E.
      destruct (omapM _ (enumerate_from (i0 + 1) t)) as [r|] eqn:Er; [|discriminate E].
      injection E as <-.
      assert (Hlen : lenN (s :: t) = 1 + lenN t) by (unfold lenN; cbn [length]; lia).
      apply N.ltb_lt in Ei. unfold u32, wrap in Ei |- *.
      assert (Hi0 : i0 < 2 ^ 32) by (change (2 ^ 32) with 4294967296; lia).
      rewrite N.mod_small in Ei |- * by exact Hi0.
      destruct (IH (i0 + 1) r) as [I1 [I2 I3]]; [lia | exact Er |].
      split; [|split].
      + cbn [map fst length]. unfold rangeN. cbn [seq map]. f_equal; [f_equal; lia|].
        rewrite I1. unfold rangeN. rewrite <- seq_shift, !map_map. apply map_ext. intros k. f_equal. lia.
      + cbn [map snd]. rewrite I2. reflexivity.
      + rewrite Hlen. lia. }
  intros E. destruct (G 0 l) as [G1 [G2 G3]]; [lia | exact E |]. split; [|split; [exact G2 | lia]].
  rewrite G1. apply map_ext. intros k. reflexivity.
Qed.

(* ---- repair windows of the pinned (pre-repair) body: sbe_repair_packets_pinned ---- *)

Section Window.
Variables (m : mode) (e : sb_encoder).
Let K := lenN (sbe_syms e).
Variables K' J S H W P1 : N.
Hypothesis PO : params_of K K' J S H W P1.

(* packet i of the window starting at repair index s, the start being added inside *)
Definition rp_body (s i : N) : outcome packet :=
  obind (add2 m s K' i) (fun isi =>
  obind (intermediate_tuple_gen true m isi W J P1) (fun t =>
  obind (enc_into m K (sbe_C e) t) (fun data =>
  obind (add2 m K s i) (fun esi =>
  obind (payload_id_new (sbe_id e) esi) (fun id => Ok (id, data)))))).

Lemma repair_packets_unfold s n :
  sbe_repair_packets_pinned m e s n =
  obind (add_w m 32 s K') (fun _ => omapM (rp_body s) (rangeN (N.to_nat n))).
Proof.
  unfold sbe_repair_packets_pinned. fold K.
  rewrite (po_ext _ _ _ _ _ _ _ PO). cbn [obind].
  destruct (add_w m 32 s K') as [se|c] eqn:Ese; cbn [obind]; [|reflexivity].
  rewrite (po_W _ _ _ _ _ _ _ PO), (po_J _ _ _ _ _ _ _ PO), (po_Kp1 _ _ _ _ _ _ _ PO). cbn [obind].
  apply omapM_ext_in. intros i _. unfold rp_body, add2. rewrite Ese. cbn [obind].
  destruct (add_w m 32 se i); cbn [obind]; [|reflexivity].
  destruct (intermediate_tuple_gen true m a W J P1); cbn [obind]; [|reflexivity].
  destruct (enc_into m K (sbe_C e) a0); cbn [obind]; [|reflexivity].
  destruct (add_w m 32 K s); cbn [obind]; reflexivity.
Qed.

Lemma rp_body_start s i p : rp_body s i = Ok p -> exists se, add_w m 32 s K' = Ok se.
Proof.
  unfold rp_body, add2. intros E. destruct (add_w m 32 s K') as [se|]; [eauto | discriminate E].
Qed.

Lemma rp_body_shift s i : rp_body s i = rp_body (s + i) 0.
Proof.
  unfold rp_body. rewrite (add2_regroup_l m s K' i), (add2_regroup_r m K s i). reflexivity.
Qed.

Lemma window_spec s n l :
  sbe_repair_packets_pinned m e s n = Ok l <->
  (exists se, add_w m 32 s K' = Ok se) /\
  Forall2 (fun i p => rp_body s i = Ok p) (rangeN (N.to_nat n)) l.
Proof.
  rewrite repair_packets_unfold. split.
  - intros E. destruct (add_w m 32 s K') as [se|]; [|discriminate E]. cbn [obind] in E.
    split; [eauto | apply omapM_Forall2; exact E].
  - intros [[se Ese] F]. rewrite Ese. cbn [obind]. apply omapM_Forall2. exact F.
Qed.

Lemma single_spec s p : sbe_repair_packets_pinned m e s 1 = Ok [p] <-> rp_body s 0 = Ok p.
Proof.
  rewrite window_spec. change (rangeN (N.to_nat 1)) with [0]. split.
  - intros [_ F]. inversion F; subst. assumption.
  - intros E. split; [eapply rp_body_start; exact E | constructor; [exact E | constructor]].
Qed.

Lemma window_nth s n l : sbe_repair_packets_pinned m e s n = Ok l ->
  length l = N.to_nat n /\
  forall i d, i < n -> rp_body s i = Ok (nth (N.to_nat i) l d).
Proof.
  intros E. apply window_spec in E. destruct E as [_ F].
  pose proof (Forall2_length' _ _ _ F) as Hlen. rewrite rangeN_length in Hlen.
  split; [symmetry; exact Hlen|]. intros i d Hi.
  pose proof (Forall2_nth_N _ _ _ 0 d (N.to_nat i) F) as X. rewrite rangeN_length in X.
  specialize (X ltac:(lia)). rewrite rangeN_nth, N2Nat.id in X by lia. exact X.
Qed.

(* a window is the list of the single-packet requests s, s+1, ..., s+n-1 *)
Lemma window_is_singles s n l : sbe_repair_packets_pinned m e s n = Ok l ->
  length l = N.to_nat n /\
  forall i d, i < n -> sbe_repair_packets_pinned m e (s + i) 1 = Ok [nth (N.to_nat i) l d].
Proof.
  intros E. destruct (window_nth s n l E) as [Hlen Hn]. split; [exact Hlen|].
  intros i d Hi. apply single_spec. rewrite <- rp_body_shift. apply Hn. exact Hi.
Qed.

Lemma singles_make_window s n l d :
  (m = Release \/ (K' + s < 2 ^ 32 /\ K' + s + n <= 2 ^ 32)) -> length l = N.to_nat n ->
  (forall i, i < n -> sbe_repair_packets_pinned m e (s + i) 1 = Ok [nth (N.to_nat i) l d]) ->
  sbe_repair_packets_pinned m e s n = Ok l.
Proof.
  intros Hm Hlen Hs. apply window_spec. split.
  - destruct Hm as [->|Hb]; [rewrite add_w_release; eauto|].
    rewrite add_w_small' by lia. eauto.
  - apply (Forall2_from_nth _ _ _ 0 d); [rewrite rangeN_length; lia|].
    rewrite rangeN_length. intros k Hk. rewrite rangeN_nth by exact Hk.
    rewrite rp_body_shift. apply single_spec.
    replace k with (N.to_nat (N.of_nat k)) at 2 by apply Nat2N.id. apply Hs. lia.
Qed.

(* identifiers and payloads of the packets of a window *)
Lemma rp_body_inv s i p : rp_body s i = Ok p ->
  exists t, fst p = (sbe_id e, (K + s + i) mod 2 ^ 32) /\ (K + s + i) mod 2 ^ 32 < 16777216 /\
            intermediate_tuple_gen true m ((s + K' + i) mod 2 ^ 32) W J P1 = Ok t /\
            enc_into m K (sbe_C e) t = Ok (snd p).
Proof.
  unfold rp_body. intros E. oinv E. oinv E. oinv E. oinv E. oinv E. injection E as <-.
  apply add2_ok_mod in E0, E3. subst a a2. unfold payload_id_new in E4.
  destruct ((K + s + i) mod 2 ^ 32 <? 16777216) eqn:Eb; [|discriminate E4].
  cbn [assert_ok obind] in E4. injection E4 as <-. apply N.ltb_lt in Eb.
  exists a0. cbn [fst snd]. auto.
Qed.

(* a window that starts at a valid ESI (or just past the last one) never wraps *)
Lemma window_no_wrap s n l : K + s <= 16777216 -> sbe_repair_packets_pinned m e s n = Ok l ->
  K + s + n <= 16777216.
Proof.
  intros Hs E. destruct (window_nth s n l E) as [_ Hn].
  destruct (N.le_gt_cases (K + s + n) 16777216) as [Hle|Hgt]; [exact Hle|]. exfalso.
  assert (Hi : 16777216 - (K + s) < n) by lia.
  pose proof (Hn _ ((0, 0), []) Hi) as X. apply rp_body_inv in X.
  destruct X as [t [_ [X _]]].
  replace (K + s + (16777216 - (K + s))) with 16777216 in X by lia.
  vm_compute in X. discriminate X.
Qed.

Lemma window_ids s n l : K' + s + n <= 2 ^ 32 -> sbe_repair_packets_pinned m e s n = Ok l ->
  map fst l = map (fun i => (sbe_id e, K + s + i)) (rangeN (N.to_nat n)) /\
  (n <> 0 -> K + s + n <= 16777216).
Proof.
  intros Hb E. destruct (window_nth s n l E) as [Hlen Hn].
  pose proof (po_le _ _ _ _ _ _ _ PO) as HKK.
  split.
  - apply (nth_ext _ _ (0, 0) ((fun i => (sbe_id e, K + s + i)) 0)); [rewrite !map_length, rangeN_length; exact Hlen|].
    rewrite map_length. intros k Hk.
    change (nth k (map fst l) (0, 0)) with (nth k (map fst l) (fst ((0, 0), @nil N))).
    rewrite (map_nth fst l ((0, 0), []) k).
    rewrite (map_nth (fun i => (sbe_id e, K + s + i))). rewrite rangeN_nth by lia.
    pose proof (Hn (N.of_nat k) ((0, 0), []) ltac:(lia)) as X. rewrite Nat2N.id in X.
    apply rp_body_inv in X. destruct X as [t [X _]]. rewrite X. f_equal. apply N.mod_small. lia.
  - intros Hn0. assert (Hi : n - 1 < n) by lia.
    pose proof (Hn _ ((0, 0), []) Hi) as X. apply rp_body_inv in X. destruct X as [t [_ [X _]]].
    rewrite N.mod_small in X by lia. lia.
Qed.

End Window.

(* ---- consequences: overlapping windows, distinct ids, producibility, payload determinacy ---- *)

Lemma windows_agree m e s1 n1 l1 s2 n2 l2 i1 i2 d :
  sbe_repair_packets_pinned m e s1 n1 = Ok l1 -> sbe_repair_packets_pinned m e s2 n2 = Ok l2 ->
  i1 < n1 -> i2 < n2 -> s1 + i1 = s2 + i2 ->
  nth (N.to_nat i1) l1 d = nth (N.to_nat i2) l2 d.
Proof.
  intros E1 E2 H1 H2 Hs.
  assert (X : exists Kp, extended_source_block_symbols (lenN (sbe_syms e)) = Ok Kp).
  { unfold sbe_repair_packets_pinned in E1. oinv E1. eauto. }
  destruct X as [Kp X]. destruct (params_of_ext _ _ X) as [J [S [H [W [P1 PO]]]]].
  destruct (window_is_singles m e Kp J S H W P1 PO s1 n1 l1 E1) as [_ A1].
  destruct (window_is_singles m e Kp J S H W P1 PO s2 n2 l2 E2) as [_ A2].
  pose proof (A1 i1 d H1) as B1. pose proof (A2 i2 d H2) as B2. rewrite Hs in B1.
  rewrite B1 in B2. injection B2 as B2. exact B2.
Qed.

Lemma rangeN_NoDup n : NoDup (rangeN n).
Proof.
  unfold rangeN. apply FinFun.Injective_map_NoDup; [|apply seq_NoDup].
  intros a b E. apply Nat2N.inj. exact E.
Qed.

Lemma window_ids_distinct m e Kp s n l :
  extended_source_block_symbols (lenN (sbe_syms e)) = Ok Kp -> Kp + s + n <= 2 ^ 32 ->
  sbe_repair_packets_pinned m e s n = Ok l ->
  NoDup (map fst l) /\
  Forall (fun p => fst (fst p) = sbe_id e /\ lenN (sbe_syms e) <= snd (fst p) < 16777216) l.
Proof.
  intros X Hb E. destruct (params_of_ext _ _ X) as [J [S [H [W [P1 PO]]]]].
  destruct (window_ids m e Kp J S H W P1 PO s n l Hb E) as [Hids Hmax]. split.
  - rewrite Hids. apply FinFun.Injective_map_NoDup; [|apply rangeN_NoDup].
    intros a b Eab. injection Eab as Eab. lia.
  - apply Forall_forall. intros p Hp.
    assert (Hin : In (fst p) (map fst l)) by (apply in_map; exact Hp).
    rewrite Hids in Hin. apply in_map_iff in Hin. destruct Hin as [i [Ei Hi]].
    apply rangeN_in in Hi. rewrite N2Nat.id in Hi. rewrite <- Ei. cbn [fst snd].
    assert (n <> 0) by lia. specialize (Hmax H0). split; [reflexivity | lia].
Qed.

Section Producible.
Variables (m : mode) (e : sb_encoder).
Let K := lenN (sbe_syms e).
Variables K' J S H W P1 : N.
Hypothesis PO : params_of K K' J S H W P1.
Hypothesis HC : lenN (sbe_C e) = K' + S + H.

Lemma tuple_enc_ok X : X < 2 ^ 32 ->
  exists t idx v, intermediate_tuple_gen true m X W J P1 = Ok t /\
    enc_indices m t W (K' + S + H - W) P1 = Ok idx /\ Forall (fun j => j < K' + S + H) idx /\
    (2 <= length idx)%nat /\ enc_into m K (sbe_C e) t = Ok v /\ xor_at (sbe_C e) idx = Ok v.
Proof.
  intros HX. pose proof (po_row _ _ _ _ _ _ _ PO) as Hr. pose proof (po_p1 _ _ _ _ _ _ _ PO) as Hp.
  pose proof (c15_tuple_ok true m K' J S H W P1 X Hr Hp HX (or_introl eq_refl)) as ET.
  pose proof (c15_enc_indices m K' J S H W P1 X Hr Hp) as EI.
  pose proof (c15_tuple_ranges K' J S H W P1 X Hr Hp) as RG.
  destruct (Tuple J W P1 X) as [[[[[d a] b] d1] a1] b1] eqn:ETu.
  destruct EI as [idx [EI [Hlen Hall]]].
  destruct RG as [Rd [_ [_ [Rd1 _]]]].
  assert (Hl2 : (2 <= length idx)%nat) by (rewrite Hlen; destruct Rd1; lia).
  assert (Hall' : Forall (fun j => j < lenN (sbe_C e)) idx) by (rewrite HC; exact Hall).
  destruct idx as [|i0 rest]; [cbn [length] in Hl2; lia|].
  exists (d, a, b, d1, a1, b1), (i0 :: rest), (xsyms (sbe_C e) rest (nth (N.to_nat i0) (sbe_C e) [])).
  split; [exact ET|]. split; [exact EI|]. split; [exact Hall|]. split; [exact Hl2|].
  rewrite (enc_into_is_enc_indices m K (sbe_C e) _ W (K' + S + H - W) P1 _
             (po_W _ _ _ _ _ _ _ PO) (po_P _ _ _ _ _ _ _ PO) (po_Kp1 _ _ _ _ _ _ _ PO) EI).
  split; apply xor_at_ok; exact Hall'.
Qed.

Lemma rp_body_ok s i : K + s + i < 16777216 -> exists p, rp_body m e K' J W P1 s i = Ok p.
Proof.
  intros Hb. pose proof (po_facts _ _ _ _ _ _ _ PO) as F. destruct F.
  change MAX_SOURCE_SYMBOLS_PER_BLOCK with 56403 in ro_Kmax.
  assert (P32 : 16777216 + 56403 < 2 ^ 32) by reflexivity.
  unfold rp_body. rewrite add2_small by lia. cbn [obind].
  destruct (tuple_enc_ok (s + K' + i) ltac:(lia)) as [t [idx [v [ET [_ [_ [_ [EE _]]]]]]]].
  rewrite ET. cbn [obind]. fold K. rewrite EE. cbn [obind].
  rewrite add2_small by lia. cbn [obind]. unfold payload_id_new.
  replace (K + s + i <? 16777216) with true by (symmetry; apply N.ltb_lt; exact Hb).
  cbn [assert_ok obind]. eauto.
Qed.

Lemma window_producible s n : K + s + n <= 16777216 ->
  exists l, sbe_repair_packets_pinned m e s n = Ok l.
Proof.
  intros Hb. pose proof (po_facts _ _ _ _ _ _ _ PO) as F. destruct F.
  change MAX_SOURCE_SYMBOLS_PER_BLOCK with 56403 in ro_Kmax.
  assert (P32 : 16777216 + 56403 < 2 ^ 32) by reflexivity.
  destruct (omapM_all_ok (rp_body m e K' J W P1 s) (rangeN (N.to_nat n))) as [l El].
  { intros i Hi. apply rangeN_in in Hi. rewrite N2Nat.id in Hi. apply rp_body_ok. lia. }
  exists l. apply (window_spec m e K' J S H W P1 PO). split.
  - rewrite add_w_small' by lia. eauto.
  - apply omapM_Forall2. exact El.
Qed.

End Producible.

(* the payload for an ESI depends on (K, C, ESI) only *)
Lemma payload_depends_only m e1 e2 K' J S H W P1 s1 i1 s2 i2 p1 p2 :
  lenN (sbe_syms e1) = lenN (sbe_syms e2) -> sbe_C e1 = sbe_C e2 ->
  params_of (lenN (sbe_syms e1)) K' J S H W P1 ->
  rp_body m e1 K' J W P1 s1 i1 = Ok p1 -> rp_body m e2 K' J W P1 s2 i2 = Ok p2 ->
  snd (fst p1) = snd (fst p2) -> snd p1 = snd p2.
Proof.
  intros EK EC PO B1 B2 Eesi. pose proof (po_le _ _ _ _ _ _ _ PO) as HKK.
  apply rp_body_inv in B1, B2. destruct B1 as [t1 [I1 [_ [T1 D1]]]]. destruct B2 as [t2 [I2 [_ [T2 D2]]]].
  rewrite I1, I2 in Eesi. cbn [snd] in Eesi. rewrite <- EK in *. set (K := lenN (sbe_syms e1)) in *.
  assert (M : 2 ^ 32 <> 0) by discriminate.
  assert (Eisi : (s1 + K' + i1) mod 2 ^ 32 = (s2 + K' + i2) mod 2 ^ 32).
  { replace (s1 + K' + i1) with ((K + s1 + i1) + (K' - K)) by lia.
    replace (s2 + K' + i2) with ((K + s2 + i2) + (K' - K)) by lia.
    rewrite <- (N.add_mod_idemp_l (K + s1 + i1)), <- (N.add_mod_idemp_l (K + s2 + i2)) by exact M.
    rewrite Eesi. reflexivity. }
  rewrite Eisi in T1. rewrite T1 in T2. injection T2 as <-. rewrite EC in D1. rewrite D1 in D2.
  injection D2 as D2. exact D2.
Qed.

(* ---- pinned body, statements without the table row as a parameter ---- *)

Lemma window_params m e s n l : sbe_repair_packets_pinned m e s n = Ok l ->
  exists Kp J S H W P1, params_of (lenN (sbe_syms e)) Kp J S H W P1.
Proof.
  intros E. unfold sbe_repair_packets_pinned in E. oinvas E as Kp X.
  destruct (params_of_ext _ _ X) as [J [S [H [W [P1 PO]]]]]. eauto 10.
Qed.

(* identifiers of the pinned body, any mode: K + s + i reduced mod 2^32 (and below 2^24) *)
Lemma pinned_ids_mod m e s n l : sbe_repair_packets_pinned m e s n = Ok l ->
  forall i d, i < n ->
    fst (nth (N.to_nat i) l d) = (sbe_id e, (lenN (sbe_syms e) + s + i) mod 2 ^ 32) /\
    (lenN (sbe_syms e) + s + i) mod 2 ^ 32 < 16777216.
Proof.
  intros E i d Hi. destruct (window_params m e s n l E) as [Kp [J [S [H [W [P1 PO]]]]]].
  destruct (window_nth m e Kp J S H W P1 PO s n l E) as [_ Hn].
  destruct (rp_body_inv m e Kp J W P1 s i _ (Hn i d Hi)) as [t [I1 [I2 _]]]. auto.
Qed.

(* ---- the repaired function: the id-space assert, then the pinned body ---- *)

Lemma repair_unfold m e s n :
  sbe_repair_packets m e s n =
  if lenN (sbe_syms e) + s + n <=? 16777216 then sbe_repair_packets_pinned m e s n else Panic PAssert.
Proof.
  unfold sbe_repair_packets. change ESI_LIMIT with 16777216.
  destruct (lenN (sbe_syms e) + s + n <=? 16777216); reflexivity.
Qed.

Lemma repair_ok_iff m e s n l :
  sbe_repair_packets m e s n = Ok l <->
  lenN (sbe_syms e) + s + n <= 16777216 /\ sbe_repair_packets_pinned m e s n = Ok l.
Proof.
  rewrite repair_unfold. destruct (N.leb_spec (lenN (sbe_syms e) + s + n) 16777216) as [Hle|Hgt].
  - split; [auto | intros [_ E]; exact E].
  - split; [discriminate | intros [X _]; lia].
Qed.

Lemma repair_refused m e s n : 16777216 < lenN (sbe_syms e) + s + n ->
  sbe_repair_packets m e s n = Panic PAssert.
Proof.
  intros Hgt. rewrite repair_unfold.
  replace (lenN (sbe_syms e) + s + n <=? 16777216) with false by (symmetry; apply N.leb_gt; exact Hgt).
  reflexivity.
Qed.

(* inside the id space nothing leaves u32 *)
Lemma inside_no_wrap K K' J S H W P1 s n : params_of K K' J S H W P1 -> K + s + n <= 16777216 ->
  K' + s < 2 ^ 32 /\ K' + s + n <= 2 ^ 32.
Proof.
  intros PO Hb. pose proof (po_K'_lt _ _ _ _ _ _ _ PO). lia.
Qed.

Lemma repair_params m e s n l : sbe_repair_packets m e s n = Ok l ->
  exists Kp J S H W P1, params_of (lenN (sbe_syms e)) Kp J S H W P1.
Proof. intros E. apply repair_ok_iff in E. destruct E as [_ E]. exact (window_params m e s n l E). Qed.

Lemma c18_window_is_singles m e s n l : sbe_repair_packets m e s n = Ok l ->
  length l = N.to_nat n /\
  forall i d, i < n -> sbe_repair_packets m e (s + i) 1 = Ok [nth (N.to_nat i) l d].
Proof.
  intros E. apply repair_ok_iff in E. destruct E as [Hb E].
  destruct (window_params m e s n l E) as [Kp [J [S [H [W [P1 PO]]]]]].
  destruct (window_is_singles m e Kp J S H W P1 PO s n l E) as [Hl Hs]. split; [exact Hl|].
  intros i d Hi. apply repair_ok_iff. split; [lia | exact (Hs i d Hi)].
Qed.

Lemma c18_singles_make_window m e Kp s n l d :
  extended_source_block_symbols (lenN (sbe_syms e)) = Ok Kp ->
  lenN (sbe_syms e) + s + n <= 16777216 -> length l = N.to_nat n ->
  (forall i, i < n -> sbe_repair_packets m e (s + i) 1 = Ok [nth (N.to_nat i) l d]) ->
  sbe_repair_packets m e s n = Ok l.
Proof.
  intros X Hb Hl Hs. destruct (params_of_ext _ _ X) as [J [S [H [W [P1 PO]]]]].
  apply repair_ok_iff. split; [exact Hb|].
  apply (singles_make_window m e Kp J S H W P1 PO s n l d);
    [right; exact (inside_no_wrap _ _ _ _ _ _ _ s n PO Hb) | exact Hl|].
  intros i Hi. exact (proj2 (proj1 (repair_ok_iff m e (s + i) 1 _) (Hs i Hi))).
Qed.

Lemma c18_overlap_agree m e s1 n1 l1 s2 n2 l2 i1 i2 d :
  sbe_repair_packets m e s1 n1 = Ok l1 -> sbe_repair_packets m e s2 n2 = Ok l2 ->
  i1 < n1 -> i2 < n2 -> s1 + i1 = s2 + i2 ->
  nth (N.to_nat i1) l1 d = nth (N.to_nat i2) l2 d.
Proof.
  intros E1 E2. apply repair_ok_iff in E1, E2. destruct E1 as [_ E1]. destruct E2 as [_ E2].
  exact (windows_agree m e s1 n1 l1 s2 n2 l2 i1 i2 d E1 E2).
Qed.

Lemma c18_ids m e s n l : sbe_repair_packets m e s n = Ok l ->
  lenN (sbe_syms e) + s + n <= 16777216 /\
  map fst l = map (fun i => (sbe_id e, lenN (sbe_syms e) + s + i)) (rangeN (N.to_nat n)) /\
  NoDup (map fst l) /\
  Forall (fun p => fst (fst p) = sbe_id e /\ lenN (sbe_syms e) <= snd (fst p) < 16777216) l /\
  (forall src p q, sbe_source_packets e = Ok src -> In p l -> In q src -> fst p <> fst q).
Proof.
  intros E. apply repair_ok_iff in E. destruct E as [Hb E]. split; [exact Hb|].
  destruct (window_params m e s n l E) as [Kp [J [S [H [W [P1 PO]]]]]].
  pose proof (po_ext _ _ _ _ _ _ _ PO) as X.
  destruct (inside_no_wrap _ _ _ _ _ _ _ s n PO Hb) as [_ Hw].
  destruct (window_ids m e Kp J S H W P1 PO s n l Hw E) as [Hids _].
  destruct (window_ids_distinct m e Kp s n l X Hw E) as [ND FA].
  split; [exact Hids|]. split; [exact ND|]. split; [exact FA|].
  intros src p q Es Hp Hq Eq. unfold sbe_source_packets in Es.
  destruct (source_packets_inv _ _ _ Es) as [S1 _].
  rewrite Forall_forall in FA. destruct (FA p Hp) as [_ [Hge _]].
  assert (Hin : In (fst q) (map fst src)) by (apply in_map; exact Hq).
  rewrite S1 in Hin. apply in_map_iff in Hin. destruct Hin as [i [Ei Hi]].
  apply rangeN_in in Hi. rewrite Eq, <- Ei in Hge. cbn [snd] in Hge. unfold lenN in Hge. lia.
Qed.

Lemma c18_all_ids_producible m e L s n :
  lenN (sbe_syms e) <= 56403 -> num_intermediate_symbols (lenN (sbe_syms e)) = Ok L ->
  lenN (sbe_C e) = L -> lenN (sbe_syms e) + s + n <= 16777216 ->
  exists l, sbe_repair_packets m e s n = Ok l.
Proof.
  intros HK HL HC Hb. destruct (params_exist _ HK) as [K' [J [S [H [W [P1 PO]]]]]].
  rewrite (po_L _ _ _ _ _ _ _ PO) in HL. injection HL as <-.
  destruct (window_producible m e K' J S H W P1 PO HC s n Hb) as [l El].
  exists l. apply repair_ok_iff. auto.
Qed.

Lemma c18_symbol_depends_only_on m e1 e2 s1 n1 l1 s2 n2 l2 i1 i2 d :
  lenN (sbe_syms e1) = lenN (sbe_syms e2) -> sbe_C e1 = sbe_C e2 ->
  sbe_repair_packets m e1 s1 n1 = Ok l1 -> sbe_repair_packets m e2 s2 n2 = Ok l2 ->
  i1 < n1 -> i2 < n2 ->
  snd (fst (nth (N.to_nat i1) l1 d)) = snd (fst (nth (N.to_nat i2) l2 d)) ->
  snd (nth (N.to_nat i1) l1 d) = snd (nth (N.to_nat i2) l2 d).
Proof.
  intros EK EC E1 E2 H1 H2 Eesi. apply repair_ok_iff in E1, E2.
  destruct E1 as [_ E1]. destruct E2 as [_ E2].
  destruct (window_params m e1 s1 n1 l1 E1) as [Kp [J [S [H [W [P1 PO]]]]]].
  assert (PO2 : params_of (lenN (sbe_syms e2)) Kp J S H W P1) by (rewrite <- EK; exact PO).
  destruct (window_nth m e1 Kp J S H W P1 PO s1 n1 l1 E1) as [_ N1].
  destruct (window_nth m e2 Kp J S H W P1 PO2 s2 n2 l2 E2) as [_ N2].
  exact (payload_depends_only m e1 e2 Kp J S H W P1 s1 i1 s2 i2 _ _ EK EC PO (N1 i1 d H1) (N2 i2 d H2) Eesi).
Qed.

(* ---- the per-object packet list ---- *)

Definition block_packets_ok (m : mode) (n : N) (e : sb_encoder) (part : list packet) : Prop :=
  let K := lenN (sbe_syms e) in
  exists src rep,
    sbe_source_packets e = Ok src /\ sbe_repair_packets m e 0 n = Ok rep /\ part = src ++ rep /\
    map fst src = map (fun i => (sbe_id e, i)) (rangeN (N.to_nat K)) /\ map snd src = sbe_syms e /\
    map fst rep = map (fun i => (sbe_id e, K + i)) (rangeN (N.to_nat n)) /\
    K + n <= 16777216.

Lemma encoded_packets_order m encs n l : get_encoded_packets m encs n = Ok l ->
  exists parts, Forall2 (block_packets_ok m n) encs parts /\ l = concat parts.
Proof.
  unfold get_encoded_packets. intros E. oinv E. injection E as <-. exists a. split; [|reflexivity].
  apply omapM_Forall2 in E0. eapply Forall2_impl'; [|exact E0]. cbv beta. clear. intros e part E.
  oinvas E as src E0. oinvas E as rep E1. injection E as <-. exists src, rep.
  destruct (c18_ids m e 0 n rep E1) as [Hb [Hids _]].
  unfold sbe_source_packets in E0. destruct (source_packets_inv _ _ _ E0) as [S1 [S2 S3]].
  split; [exact E0|]. split; [exact E1|]. split; [reflexivity|].
  split; [unfold lenN; rewrite Nat2N.id; exact S1|]. split; [exact S2|].
  split; [|lia]. rewrite Hids. apply map_ext. intros i. f_equal. lia.
Qed.
