(* Proofs about Model/Kernels.v, part 3: the BinaryOctetVec layout (to_octet_vec = Spec to_bits),
   the u32 / u64 views of the word buffer, the bit-unpacking of one AVX2 / AVX-512 register, and the
   two binary fused kernels (head + 32- resp. 64-byte chunks, every length). *)
From Coq Require Import NArith ZArith List Bool Arith Lia ZifyBool ZifyN ZifyNat.
From RQ Require Import Base.Outcome Base.Ints Base.ListX Base.Vec Spec.Bits Model.Octet Model.Kernels
  Proofs.OctetProofs Proofs.VecLemmas Proofs.KernelsProofs Proofs.KernelsMulProofs.
Import ListNotations.
Ltac Zify.zify_post_hook ::= Z.div_mod_to_equations.
Open Scope N_scope.

(* ---------------------------------------------------------------- bits *)

Lemma land_pow2 a n : N.land a (2 ^ n) = if N.testbit a n then 2 ^ n else 0.
Proof.
  apply N.bits_inj. intros m. rewrite N.land_spec, N.pow2_bits_eqb.
  destruct (N.eqb_spec n m) as [->|Hne].
  - destruct (N.testbit a m) eqn:E; [now rewrite N.pow2_bits_true | now rewrite N.bits_0].
  - rewrite andb_false_r. destruct (N.testbit a n); [now rewrite N.pow2_bits_false | now rewrite N.bits_0].
Qed.

Lemma select_mask_test e bit : bit < 64 ->
  select_mask bit = Ok (N.shiftl 1 bit) /\ negb (N.land e (N.shiftl 1 bit) =? 0) = N.testbit e bit.
Proof.
  intros H. unfold select_mask. apply N.ltb_lt in H. rewrite H. split; [reflexivity|].
  rewrite N.shiftl_1_l, land_pow2. destruct (N.testbit e bit); [|reflexivity].
  destruct (2 ^ bit =? 0) eqn:E; [|reflexivity]. apply N.eqb_eq in E.
  exfalso. revert E. apply N.pow_nonzero. discriminate.
Qed.

Lemma b2n_shift_and a n : u8 (N.land (N.shiftr a n) 1) = N.b2n (N.testbit a n).
Proof.
  change 1 with (N.ones 1) at 1. rewrite N.land_ones, N.shiftr_div_pow2. change (2 ^ 1) with 2.
  rewrite <- N.testbit_spec'. unfold u8, wrap. destruct (N.testbit a n); reflexivity.
Qed.

Lemma mul_b2n c t : c < 256 -> mulN c (N.b2n t) = c * N.b2n t.
Proof.
  intros Hc. destruct t; cbn [N.b2n].
  - rewrite mulN_1_r by exact Hc. lia.
  - rewrite mulN_0_r. lia.
Qed.

Lemma sel_b2n (c : N) (t : bool) : (if t then c else 0) = c * N.b2n t.
Proof. destruct t; cbn [N.b2n]; lia. Qed.

Lemma testbit_le_bytes : forall n w k m, (k < n)%nat -> m < 8 ->
  N.testbit (nth k (le_bytes n w) 0) m = N.testbit w (8 * N.of_nat k + m).
Proof.
  induction n as [|n IH]; intros w k m Hk Hm; [lia|].
  destruct k as [|k]; cbn [le_bytes nth].
  - change 256 with (2 ^ 8). rewrite N.mod_pow2_bits_low by exact Hm. f_equal.
  - rewrite IH by (try lia; exact Hm). change 256 with (2 ^ 8). rewrite N.div_pow2_bits. f_equal. lia.
Qed.

Lemma le_bytes_bytes : forall n w, bytes (le_bytes n w).
Proof.
  induction n as [|n IH]; intros w; cbn [le_bytes]; constructor; [|apply IH].
  apply N.mod_lt. discriminate.
Qed.

(* ---------------------------------------------------------------- positions in the bit string *)

(* bit number g (nat) of the word sequence *)
Definition gtest (els : list N) (g : nat) : bool :=
  N.testbit (nth (g / 64) els 0) (N.of_nat (g mod 64)).

Definition padn (bv : bvec) : nat := N.to_nat (padding_bits bv).
Definition lenn (bv : bvec) : nat := N.to_nat (snd bv).

Lemma padn_eq bv : padn bv = ((64 - lenn bv mod 64) mod 64)%nat.
Proof. unfold padn, lenn, padding_bits, WORD_WIDTH. lia. Qed.

Lemma layout_total bv : wf_bvec bv -> (padn bv + lenn bv = 64 * length (fst bv))%nat.
Proof.
  intros [HL _]. rewrite padn_eq. unfold lenn. rewrite HL. unfold ceil_div.
  destruct (snd bv mod 64 =? 0) eqn:E; lia.
Qed.

Lemma bit_at_gtest els g : bit_at els (N.of_nat g) = N.b2n (gtest els g).
Proof.
  unfold bit_at, gtest.
  replace (N.to_nat (N.of_nat g / 64)) with (g / 64)%nat by lia.
  replace (N.of_nat g mod 64) with (N.of_nat (g mod 64)) by lia. reflexivity.
Qed.

Lemma to_bits_gtest bv :
  to_bits bv = map (fun i => N.b2n (gtest (fst bv) (padn bv + i))) (seq 0 (lenn bv)).
Proof.
  unfold to_bits, lenn. apply map_ext. intros i. rewrite <- bit_at_gtest. f_equal.
  unfold padn, padding_bits, bv_padding, WORD_WIDTH. lia.
Qed.

Lemma to_bits_length bv : length (to_bits bv) = lenn bv.
Proof. unfold to_bits. rewrite map_length, seq_length. reflexivity. Qed.

(* ---------------------------------------------------------------- to_octet_vec *)

Lemma to_octet_vec_loop_ok els : forall n word bit,
  bit < 64 -> (N.to_nat (64 * word + bit) + n <= 64 * length els)%nat ->
  exists w' b',
    to_octet_vec_loop els n word bit
    = Ok (map (fun i => bit_at els (64 * word + bit + N.of_nat i)) (seq 0 n), w', b') /\
    b' < 64 /\ 64 * w' + b' = 64 * word + bit + N.of_nat n.
Proof.
  induction n as [|n IH]; intros word bit Hb Hn.
  - exists word, bit. cbn [to_octet_vec_loop seq map]. repeat split; [exact Hb | lia].
  - cbn [to_octet_vec_loop].
    rewrite (nth_ok_nth 0) by lia. cbn [obind].
    destruct (select_mask_test (nth (N.to_nat word) els 0) bit Hb) as [E1 E2].
    rewrite E1. cbn [obind]. rewrite E2.
    set (wb := if bit + 1 =? 64 then (word + 1, 0) else (word, bit + 1)).
    assert (Hwb : snd wb < 64 /\ 64 * fst wb + snd wb = 64 * word + bit + 1).
    { unfold wb. destruct (bit + 1 =? 64) eqn:E; cbn [fst snd]; lia. }
    destruct Hwb as [Hwb1 Hwb2].
    destruct (IH (fst wb) (snd wb) Hwb1 ltac:(lia)) as [w' [b' [E3 [Hb' Hw']]]].
    rewrite E3. cbn [obind fst snd]. exists w', b'. split; [|split; [exact Hb' | lia]].
    f_equal. f_equal. f_equal. cbn [seq map]. f_equal.
    + unfold bit_at. replace ((64 * word + bit + N.of_nat 0) / 64) with word by lia.
      replace ((64 * word + bit + N.of_nat 0) mod 64) with bit by lia. reflexivity.
    + rewrite <- seq_shift, map_map. apply map_ext. intros i. f_equal. lia.
Qed.

Theorem to_octet_vec_ok bv : wf_bvec bv -> to_octet_vec bv = Ok (to_bits bv).
Proof.
  intros Hwf. pose proof (layout_total bv Hwf) as HT. unfold to_octet_vec.
  assert (Hp : padding_bits bv < 64) by (unfold padding_bits, WORD_WIDTH; lia).
  destruct (to_octet_vec_loop_ok (fst bv) (N.to_nat (snd bv)) 0 (padding_bits bv) Hp) as [w' [b' [E [Hb' Hw']]]].
  { unfold padn, lenn in HT. lia. }
  rewrite E. cbn [obind fst snd].
  unfold padn, lenn in HT.
  replace (w' =? N.of_nat (length (fst bv))) with true by (symmetry; apply N.eqb_eq; lia).
  replace (b' =? 0) with true by (symmetry; apply N.eqb_eq; lia).
  cbn [assert_ok obind]. reflexivity.
Qed.

(* ---------------------------------------------------------------- seq chunks *)

Lemma skipn_seq' : forall p a n, skipn p (seq a n) = seq (a + p) (n - p).
Proof.
  induction p as [|p IH]; intros a n.
  - rewrite Nat.add_0_r, Nat.sub_0_r. reflexivity.
  - destruct n as [|n]; [reflexivity|]. cbn [seq skipn]. rewrite IH. f_equal; lia.
Qed.

Lemma firstn_seq' : forall w a n, (w <= n)%nat -> firstn w (seq a n) = seq a w.
Proof.
  induction w as [|w IH]; intros a n H; [reflexivity|].
  destruct n as [|n]; [lia|]. cbn [seq firstn]. f_equal. apply IH. lia.
Qed.

Lemma seq_as_map : forall w p, seq p w = map (fun j => (p + j)%nat) (seq 0 w).
Proof.
  induction w as [|w IH]; intros p; [reflexivity|].
  cbn [seq map]. f_equal; [lia|]. rewrite <- (seq_shift w 0), map_map, (IH (S p)). apply map_ext. intros j. lia.
Qed.

Lemma chunk_seq_map {B} (G : nat -> B) w p l : (p + w <= l)%nat ->
  firstn w (skipn p (map G (seq 0 l))) = map (fun j => G (p + j)%nat) (seq 0 w).
Proof.
  intros H. rewrite skipn_map, firstn_map, skipn_seq', firstn_seq' by lia.
  cbn [Nat.add]. rewrite seq_as_map, map_map. reflexivity.
Qed.

Lemma nth_repeat_lt {A} (a d : A) : forall m j, (j < m)%nat -> nth j (repeat a m) d = a.
Proof.
  induction m as [|m IH]; intros j H; [lia|]. destruct j; cbn [repeat nth]; [reflexivity|]. apply IH. lia.
Qed.

(* ---------------------------------------------------------------- views of the word buffer *)

(* the u64 view: bit j of word k is bit 64k + j of the string *)
Lemma u64_view_bit els k j : (j < 64)%nat ->
  N.testbit (nth k els 0) (N.of_nat j) = gtest els (64 * k + j).
Proof.
  intros Hj. unfold gtest. replace ((64 * k + j) / 64)%nat with k by lia.
  replace ((64 * k + j) mod 64)%nat with j by lia. reflexivity.
Qed.

Lemma u32_view_nth : forall els k,
  nth k (u32_view els) 0 =
  if (k mod 2 =? 0)%nat then (nth (k / 2) els 0) mod 2 ^ 32 else ((nth (k / 2) els 0) / 2 ^ 32) mod 2 ^ 32.
Proof.
  induction els as [|e t IH]; intros k.
  - cbn [u32_view flat_map].
    assert (Z : forall i, nth i (@nil N) 0 = 0) by (intros [|i]; reflexivity). rewrite !Z.
    destruct (k mod 2 =? 0)%nat; reflexivity.
  - unfold u32_view in *. cbn [flat_map app].
    destruct k as [|[|k]]; [reflexivity | reflexivity |].
    cbn [nth]. rewrite IH.
    replace (S (S k) mod 2)%nat with (k mod 2)%nat by lia.
    replace (S (S k) / 2)%nat with (S (k / 2)) by lia. reflexivity.
Qed.

Lemma u32_view_length els : length (u32_view els) = (2 * length els)%nat.
Proof.
  unfold u32_view. induction els as [|e t IH]; [reflexivity|]. cbn [flat_map app length]. rewrite IH. lia.
Qed.

Lemma u32_view_lt els k : nth k (u32_view els) 0 < 2 ^ 32.
Proof.
  rewrite u32_view_nth. destruct (k mod 2 =? 0)%nat; apply N.mod_lt; discriminate.
Qed.

(* the u32 view on a little-endian host: bit j of u32 word k is bit 32k + j of the string *)
Lemma u32_view_bit els k j : (j < 32)%nat ->
  N.testbit (nth k (u32_view els) 0) (N.of_nat j) = gtest els (32 * k + j).
Proof.
  intros Hj. rewrite u32_view_nth. unfold gtest.
  replace ((32 * k + j) / 64)%nat with (k / 2)%nat by lia.
  destruct (k mod 2 =? 0)%nat eqn:E.
  - apply Nat.eqb_eq in E. replace ((32 * k + j) mod 64)%nat with j by lia.
    apply N.mod_pow2_bits_low. lia.
  - apply Nat.eqb_neq in E. replace ((32 * k + j) mod 64)%nat with (j + 32)%nat by lia.
    rewrite N.mod_pow2_bits_low by lia. rewrite N.div_pow2_bits. f_equal. lia.
Qed.

(* ---------------------------------------------------------------- AVX2: 32 bits -> 32 bytes *)

Definition SHUF : list N :=
  v_set_epi64x 0x0303030303030303 0x0202020202020202 0x0101010101010101 0.
Definition BITSEL : list N := v_set1_epi64x 32 0x8040201008040201.

Lemma shuffle_unpack_nth b0 b1 b2 b3 j : (j < 32)%nat ->
  nth j (v_shuffle_epi8 2 (concat (repeat [b0; b1; b2; b3] 8)) SHUF) 0 = nth (j / 8) [b0; b1; b2; b3] 0.
Proof.
  intros H. do 32 (destruct j as [|j]; [reflexivity|]). lia.
Qed.

Lemma shuffle_unpack_length b0 b1 b2 b3 :
  length (v_shuffle_epi8 2 (concat (repeat [b0; b1; b2; b3] 8)) SHUF) = 32%nat.
Proof. reflexivity. Qed.

Lemma bitsel_nth j : (j < 32)%nat -> nth j BITSEL 0 = 2 ^ N.of_nat (j mod 8).
Proof. intros H. do 32 (destruct j as [|j]; [reflexivity|]). lia. Qed.

Lemma sweep_andnot_ok :
  forall_lt2 256 8 (fun b m => Bool.eqb (N.land (255 - b) (2 ^ m) =? 0) (N.testbit b m)) = true.
Proof. vm_compute. reflexivity. Qed.

Lemma andnot_test b m : b < 256 -> m < 8 -> (N.land (255 - b) (2 ^ m) =? 0) = N.testbit b m.
Proof.
  intros Hb Hm. apply Bool.eqb_prop. pose proof sweep_andnot_ok as S0.
  exact (forall_lt2_spec _ _ _ S0 b m Hb Hm).
Qed.

Lemma land_255 c : c < 256 -> N.land 255 c = c.
Proof. intros H. rewrite N.land_comm. change 255 with (N.ones 8). rewrite N.land_ones. apply N.mod_small. exact H. Qed.

Lemma avx2_unpack w c : c < 256 ->
  v_and (v_cmpeq_epi8 (v_andnot (v_shuffle_epi8 2 (v_set1_epi32 32 w) SHUF) BITSEL) (v_setzero 32))
        (v_set1_epi8 32 c)
  = map (fun j => if N.testbit w (N.of_nat j) then c else 0) (seq 0 32).
Proof.
  intros Hc.
  set (b0 := nth 0 (le_bytes 4 w) 0). set (b1 := nth 1 (le_bytes 4 w) 0).
  set (b2 := nth 2 (le_bytes 4 w) 0). set (b3 := nth 3 (le_bytes 4 w) 0).
  change (v_set1_epi32 32 w) with (concat (repeat [b0; b1; b2; b3] 8)).
  set (SH := v_shuffle_epi8 2 (concat (repeat [b0; b1; b2; b3] 8)) SHUF).
  assert (LSH : length SH = 32%nat) by reflexivity.
  apply (nth_ext _ _ 0 0).
  - unfold v_and, v_cmpeq_epi8, v_andnot, v_setzero, v_set1_epi8.
    rewrite !map2_length, LSH, map_length, seq_length, !repeat_length. reflexivity.
  - intros j Hj.
    assert (Hj32 : (j < 32)%nat).
    { revert Hj. unfold v_and, v_cmpeq_epi8, v_andnot, v_setzero, v_set1_epi8.
      rewrite !map2_length, LSH, !repeat_length. change (length BITSEL) with 32%nat. lia. }
    clear Hj.
    unfold v_and, v_cmpeq_epi8, v_andnot, v_setzero, v_set1_epi8.
    rewrite (nth_map2 _ 0 0 0) by (rewrite ?map2_length, ?LSH, ?repeat_length; change (length BITSEL) with 32%nat; lia).
    rewrite (nth_map2 _ 0 0 0) by (rewrite ?map2_length, ?LSH, ?repeat_length; change (length BITSEL) with 32%nat; lia).
    rewrite (nth_map2 _ 0 0 0) by (rewrite ?map2_length, ?LSH, ?repeat_length; change (length BITSEL) with 32%nat; lia).
    rewrite !nth_repeat_lt by lia.
    unfold SH. rewrite shuffle_unpack_nth by exact Hj32. rewrite bitsel_nth by exact Hj32.
    change [b0; b1; b2; b3] with (le_bytes 4 w).
    assert (Hk : (j / 8 < 4)%nat) by lia.
    assert (Hm : N.of_nat (j mod 8) < 8) by lia.
    assert (Hb : nth (j / 8) (le_bytes 4 w) 0 < 256) by (apply bytes_nth; [apply le_bytes_bytes | rewrite le_bytes_length; lia]).
    rewrite andnot_test by assumption.
    rewrite testbit_le_bytes by assumption.
    replace (8 * N.of_nat (j / 8) + N.of_nat (j mod 8)) with (N.of_nat j) by lia.
    rewrite (nth_map_lt _ O 0) by (rewrite seq_length; exact Hj32).
    rewrite seq_nth by exact Hj32. cbn [Nat.add].
    destruct (N.testbit w (N.of_nat j)); [apply land_255; exact Hc | reflexivity].
Qed.

(* ---------------------------------------------------------------- AVX-512: maskz_mov *)

Lemma map_combine_repeat {B} (g : nat * N -> B) (c : N) : forall n a,
  map g (combine (seq a n) (repeat c n)) = map (fun j => g (j, c)) (seq a n).
Proof. induction n as [|n IH]; intros a; cbn [seq repeat combine map]; [reflexivity|]. f_equal. apply IH. Qed.

Lemma avx512_unpack k c :
  v_maskz_mov_epi8 k (v_set1_epi8 64 c) = map (fun j => if N.testbit k (N.of_nat j) then c else 0) (seq 0 64).
Proof.
  unfold v_maskz_mov_epi8, v_set1_epi8. rewrite repeat_length. rewrite map_combine_repeat. reflexivity.
Qed.

(* ---------------------------------------------------------------- the element-wise result *)

Definition bin_spec (c : N) (dest : list N) (bv : bvec) : list N :=
  map2 (fun d b => N.lxor d (mulN c b)) dest (to_bits bv).

Lemma bin_spec_length c dest bv : length dest = lenn bv -> length (bin_spec c dest bv) = length dest.
Proof. intros H. unfold bin_spec. apply map2_length_eq. rewrite to_bits_length. exact H. Qed.

Lemma bin_spec_nth c dest bv i : c < 256 -> length dest = lenn bv -> (i < length dest)%nat ->
  nth i (bin_spec c dest bv) 0 = N.lxor (nth i dest 0) (c * N.b2n (gtest (fst bv) (padn bv + i))).
Proof.
  intros Hc HL Hi. unfold bin_spec.
  rewrite (nth_map2 (fun d b => N.lxor d (mulN c b)) 0 0 0) by (rewrite ?to_bits_length; lia).
  rewrite to_bits_gtest. rewrite (nth_map_lt _ O 0) by (rewrite seq_length; lia).
  rewrite seq_nth by lia. cbn [Nat.add]. rewrite mul_b2n by exact Hc. reflexivity.
Qed.

Lemma bin_spec_chunk c dest bv w p : c < 256 -> length dest = lenn bv -> (p + w <= length dest)%nat ->
  firstn w (skipn p (bin_spec c dest bv)) =
  v_xor (firstn w (skipn p dest))
        (map (fun j => if gtest (fst bv) (padn bv + p + j) then c else 0) (seq 0 w)).
Proof.
  intros Hc HL Hp. unfold bin_spec, v_xor. rewrite skipn_map2, firstn_map2.
  rewrite to_bits_gtest. rewrite chunk_seq_map by lia.
  rewrite !map2_map_r. apply (map2_ext_in _ _ (fun _ => True) (fun _ => True)).
  - apply Forall_forall. auto.
  - apply Forall_forall. auto.
  - intros d j _ _. rewrite mul_b2n by exact Hc. rewrite <- sel_b2n.
    replace (padn bv + (p + j))%nat with (padn bv + p + j)%nat by lia. reflexivity.
Qed.

Lemma mix_skip spec dest p w : length spec = length dest -> (p + w <= length dest)%nat ->
  firstn w (skipn p spec) = firstn w (skipn p dest) -> mix spec dest p = mix spec dest (p + w).
Proof.
  intros HL Hp E. unfold mix. rewrite firstn_add, <- app_assoc. f_equal.
  rewrite E. rewrite <- skipn_add. apply eq_sym, firstn_skipn.
Qed.

Lemma v_xor_zero v w : length v = w ->
  v_xor v (map (fun _ : nat => 0) (seq 0 w)) = v.
Proof.
  intros <-. unfold v_xor. generalize 0%nat. induction v as [|x t IH]; intros a; [reflexivity|].
  cbn [length seq map map2]. rewrite N.lxor_0_r. f_equal. apply IH.
Qed.

(* ---------------------------------------------------------------- the 64-byte loop (AVX-512) *)

Lemma nth_ok_mix spec dest p : length spec = length dest -> (p < length dest)%nat ->
  nth_ok (mix spec dest p) p = Ok (nth p dest 0).
Proof. exact (get_mix spec dest p). Qed.

Lemma avx512_main_loop dest bv c head start n s :
  c < 256 -> wf_bvec bv -> length dest = lenn bv ->
  (head + n * 64 = length dest)%nat -> (64 * start = padn bv + head)%nat ->
  s = mix (bin_spec c dest bv) dest head ->
  ofold (fun o i =>
           bits <- get_unchecked (fst bv) (start + i) ;;
           if bits =? 0 then Ok o
           else
             let product := v_maskz_mov_epi8 bits (v_set1_epi8 64 c) in
             self_vec <- loadu 64 o (head + i * 64) ;;
             let result := v_xor self_vec product in
             storeu o (head + i * 64) result)%outcome
        (range 0 n) s = Ok (bin_spec c dest bv).
Proof.
  intros Hc Hwf HL Hn Hst ->.
  pose proof (layout_total bv Hwf) as HT.
  remember (bin_spec c dest bv) as spec eqn:Espec.
  assert (HS : length spec = length dest) by (subst spec; apply bin_spec_length; exact HL).
  loop_with (fun i => mix spec dest (i * 64 + head)).
  { lia. }
  { intros i Hi.
    assert (Hp : (i * 64 + head + 64 <= length dest)%nat) by lia.
    rewrite get_ok by lia. cbn [obind].
    replace (head + i * 64)%nat with (i * 64 + head)%nat by lia.
    replace (S i * 64 + head)%nat with (i * 64 + head + 64)%nat by lia.
    assert (Hbits : forall j, In j (seq 0 64) ->
              N.testbit (nth (start + i) (fst bv) 0) (N.of_nat j)
              = gtest (fst bv) (padn bv + (i * 64 + head) + j)).
    { intros j Hj. apply in_seq in Hj. rewrite u64_view_bit by lia. f_equal. lia. }
    destruct (nth (start + i) (fst bv) 0 =? 0) eqn:Ez.
    - (* zero word: nothing to add, the chunk already is the result *)
      apply N.eqb_eq in Ez. f_equal. apply mix_skip; [exact HS | exact Hp |].
      subst spec. rewrite bin_spec_chunk by (try assumption; lia).
      rewrite (map_ext_in _ (fun _ : nat => 0)).
      + apply v_xor_zero. apply chunk_length. lia.
      + intros j Hj. rewrite <- (Hbits j Hj), Ez, N.bits_0. reflexivity.
    - rewrite avx512_unpack. cbv zeta.
      rewrite loadu_mix by (try assumption; lia). cbn [obind].
      apply storeu_mix; [exact HS | exact Hp |].
      subst spec. rewrite bin_spec_chunk by (try assumption; lia). f_equal.
      apply map_ext_in. intros j Hj. rewrite (Hbits j Hj). reflexivity. }
  f_equal. apply mix_all; [exact HS | lia].
Qed.

Theorem fused_addassign_mul_scalar_binary_avx512_ok dest bv c :
  c < 256 -> wf_bvec bv -> length dest = lenn bv ->
  fused_addassign_mul_scalar_binary_avx512 dest bv c = Ok (bin_spec c dest bv).
Proof.
  intros Hc Hwf HL. unfold fused_addassign_mul_scalar_binary_avx512.
  destruct (length dest =? 0)%nat eqn:E0.
  { apply Nat.eqb_eq in E0. destruct dest; [reflexivity | discriminate]. }
  apply Nat.eqb_neq in E0.
  pose proof (layout_total bv Hwf) as HT. pose proof (padn_eq bv) as HP.
  change (N.to_nat (padding_bits bv)) with (padn bv).
  remember (padn bv) as pad eqn:Epad.
  replace (pad / 64)%nat with O by lia. replace (pad mod 64)%nat with pad by lia.
  rewrite get_ok by lia. cbn [obind].
  remember (bin_spec c dest bv) as spec eqn:Espec.
  assert (HS : length spec = length dest) by (subst spec; apply bin_spec_length; exact HL).
  destruct (0 <? pad)%nat eqn:Ep.
  - apply Nat.ltb_lt in Ep.
    assert (Hhead : (64 - pad <= length dest)%nat) by lia.
    loop_with (fun i => mix spec dest i).
    { lia. }
    { intros i Hi. rewrite b2n_shift_and.
      rewrite get_mix by (try assumption; lia). cbn [obind].
      apply set_mix; [exact HS | lia |].
      subst spec. rewrite bin_spec_nth by (try assumption; lia).
      rewrite u64_view_bit by lia. subst pad. do 3 f_equal. }
    unfold sub_usize. replace (64 - pad <=? length dest)%nat with true by (symmetry; apply Nat.leb_le; lia).
    cbn [obind fst snd].
    replace ((length dest - (64 - pad)) mod 64 =? 0)%nat with true by (symmetry; apply Nat.eqb_eq; lia).
    cbn [assert_ok obind]. subst spec.
    apply avx512_main_loop; try assumption; try reflexivity; lia.
  - apply Nat.ltb_ge in Ep. cbn [obind fst snd].
    replace (length dest mod 64 =? 0)%nat with true by (symmetry; apply Nat.eqb_eq; lia).
    cbn [assert_ok obind]. subst spec.
    apply avx512_main_loop; try assumption; try reflexivity; lia.
Qed.

(* ---------------------------------------------------------------- the 32-byte loop (AVX2) *)

Lemma avx2_main_loop dest bv c head start n s :
  c < 256 -> wf_bvec bv -> length dest = lenn bv ->
  (head + n * 32 = length dest)%nat -> (32 * start = padn bv + head)%nat ->
  s = mix (bin_spec c dest bv) dest head ->
  ofold (fun o i =>
           w <- nth_ok (u32_view (fst bv)) (start + i) ;;
           let other_vec := v_set1_epi32 32 w in
           let other_vec := v_shuffle_epi8 2 other_vec SHUF in
           let other_vec := v_andnot other_vec BITSEL in
           let other_vec := v_cmpeq_epi8 other_vec (v_setzero 32) in
           let product := v_and other_vec (v_set1_epi8 32 c) in
           self_vec <- loadu 32 o (head + i * 32) ;;
           let result := v_xor self_vec product in
           storeu o (head + i * 32) result)%outcome
        (range 0 n) s = Ok (bin_spec c dest bv).
Proof.
  intros Hc Hwf HL Hn Hst ->.
  pose proof (layout_total bv Hwf) as HT.
  remember (bin_spec c dest bv) as spec eqn:Espec.
  assert (HS : length spec = length dest) by (subst spec; apply bin_spec_length; exact HL).
  loop_with (fun i => mix spec dest (i * 32 + head)).
  { lia. }
  { intros i Hi.
    assert (Hp : (i * 32 + head + 32 <= length dest)%nat) by lia.
    rewrite (nth_ok_nth 0) by (rewrite u32_view_length; lia). cbn [obind]. cbv zeta.
    rewrite avx2_unpack by exact Hc.
    replace (head + i * 32)%nat with (i * 32 + head)%nat by lia.
    replace (S i * 32 + head)%nat with (i * 32 + head + 32)%nat by lia.
    rewrite loadu_mix by (try assumption; lia). cbn [obind].
    apply storeu_mix; [exact HS | exact Hp |].
    subst spec. rewrite bin_spec_chunk by (try assumption; lia). f_equal.
    apply map_ext_in. intros j Hj. apply in_seq in Hj.
    rewrite u32_view_bit by lia.
    replace (32 * (start + i) + j)%nat with (padn bv + (i * 32 + head) + j)%nat by lia. reflexivity. }
  f_equal. apply mix_all; [exact HS | lia].
Qed.

Lemma sweep_lor256_ok : forall_lt 32 (fun x => N.lor x 256 =? x + 256) = true.
Proof. vm_compute. reflexivity. Qed.

Lemma bextr_bit a b i : (b + i < 32)%nat ->
  u8 (bextr2_u32 a (u32 (N.lor (N.of_nat b) 256 + N.of_nat i))) = N.b2n (N.testbit a (N.of_nat (b + i))).
Proof.
  intros H.
  assert (E : N.lor (N.of_nat b) 256 = N.of_nat b + 256).
  { apply N.eqb_eq. pose proof sweep_lor256_ok as S0. apply (forall_lt_spec _ _ S0). lia. }
  rewrite E. unfold u32, wrap. rewrite (N.mod_small (N.of_nat b + 256 + N.of_nat i)) by (change (2 ^ 32) with 4294967296; lia).
  unfold bextr2_u32.
  replace ((N.of_nat b + 256 + N.of_nat i) mod 256) with (N.of_nat (b + i)) by lia.
  replace (((N.of_nat b + 256 + N.of_nat i) / 256) mod 256) with 1 by lia.
  rewrite N.shiftr_div_pow2. change (2 ^ 1) with 2. rewrite <- N.testbit_spec'.
  unfold u8, wrap. destruct (N.testbit a (N.of_nat (b + i))); reflexivity.
Qed.

Theorem fused_addassign_mul_scalar_binary_avx2_ok dest bv c :
  c < 256 -> wf_bvec bv -> length dest = lenn bv -> (0 < length dest)%nat ->
  fused_addassign_mul_scalar_binary_avx2 dest bv c = Ok (bin_spec c dest bv).
Proof.
  intros Hc Hwf HL E0. unfold fused_addassign_mul_scalar_binary_avx2.
  pose proof (layout_total bv Hwf) as HT. pose proof (padn_eq bv) as HP.
  change (N.to_nat (padding_bits bv)) with (padn bv).
  remember (padn bv) as pad eqn:Epad.
  rewrite (nth_ok_nth 0) by (rewrite u32_view_length; lia). cbn [obind].
  remember (bin_spec c dest bv) as spec eqn:Espec.
  assert (HS : length spec = length dest) by (subst spec; apply bin_spec_length; exact HL).
  destruct (0 <? pad mod 32)%nat eqn:Ep.
  - apply Nat.ltb_lt in Ep.
    assert (Hhead : (32 - pad mod 32 <= length dest)%nat) by lia.
    replace (Nat.min (length dest) (32 - pad mod 32)) with (32 - pad mod 32)%nat by lia.
    loop_with (fun i => mix spec dest i).
    { lia. }
    { intros i Hi. rewrite bextr_bit by lia.
      rewrite nth_ok_mix by (try assumption; lia). cbn [obind].
      apply set_mix; [exact HS | lia |].
      subst spec. rewrite bin_spec_nth by (try assumption; lia).
      rewrite u32_view_bit by lia. subst pad.
      replace (32 * (padn bv / 32) + (padn bv mod 32 + i))%nat with (padn bv + i)%nat by lia.
      reflexivity. }
    unfold sub_usize.
    replace (32 - pad mod 32 <=? length dest)%nat with true by (symmetry; apply Nat.leb_le; lia).
    cbn [obind fst snd].
    replace ((length dest - (32 - pad mod 32)) mod 32 =? 0)%nat with true by (symmetry; apply Nat.eqb_eq; lia).
    cbn [assert_ok obind]. subst spec.
    apply avx2_main_loop; try assumption; try reflexivity; lia.
  - apply Nat.ltb_ge in Ep. cbn [obind fst snd].
    replace (length dest mod 32 =? 0)%nat with true by (symmetry; apply Nat.eqb_eq; lia).
    cbn [assert_ok obind]. subst spec.
    apply avx2_main_loop; try assumption; try reflexivity; lia.
Qed.

(* on the empty vector the AVX2 kernel indexes other_u32[0] of an empty slice: the dispatcher's
   `if octets.is_empty() { return }` is what keeps that from happening *)
Lemma fused_addassign_mul_scalar_binary_avx2_empty c :
  fused_addassign_mul_scalar_binary_avx2 [] ([], 0) c = Panic PIndex.
Proof. reflexivity. Qed.

(* after the head (w - padding mod w elements, if any) the remaining length is a multiple of w,
   and the head never exceeds the vector: the asserts `remaining % 32 == 0` / `% 64 == 0` hold and
   `remaining -= head` cannot underflow *)
Lemma binary_head_aligned bv w : wf_bvec bv -> (w = 32 \/ w = 64)%nat ->
  let b := (padn bv mod w)%nat in
  let head := if (0 <? b)%nat then (w - b)%nat else O in
  (head <= lenn bv)%nat /\ ((lenn bv - head) mod w = 0)%nat /\
  (w * (if (0 <? b)%nat then padn bv / w + 1 else padn bv / w) = padn bv + head)%nat.
Proof.
  intros Hwf Hw. pose proof (layout_total bv Hwf) as HT. pose proof (padn_eq bv) as HP.
  cbv zeta. destruct Hw as [-> | ->].
  - destruct (0 <? padn bv mod 32)%nat eqn:E; [apply Nat.ltb_lt in E | apply Nat.ltb_ge in E]; lia.
  - destruct (0 <? padn bv mod 64)%nat eqn:E; [apply Nat.ltb_lt in E | apply Nat.ltb_ge in E]; lia.
Qed.
