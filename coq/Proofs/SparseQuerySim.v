(* Proofs about Model/SparseMatrix.v, part 5: the answers of the queries agree with the abstract
   matrix (count_ones, get_row_iter and get_ones_in_column as sets, get_sub_row_as_octets,
   query_non_zero_columns), for operations admissible in the sense of Spec/SparseAdm.v. *)
From Coq Require Import NArith ZArith List Bool Lia Arith Sorted Permutation ZifyBool ZifyN.
From RQ Require Import Base.Outcome Base.Ints Base.ListX Spec.BitMatrix Spec.SparseAdm
  Model.DenseMatrix Model.SparseMatrix Proofs.DenseBits Proofs.DenseMatrixProofs Proofs.DenseQueries
  Proofs.DenseSeq Proofs.SparseVecProofs Proofs.SparseMatrixProofs Proofs.SparseSim
  Proofs.SparseQueries.
Import ListNotations.
Open Scope N_scope.

(* ---------------- sorting ---------------- *)

Lemma ins_sorted_comm x y l : ins_sorted x (ins_sorted y l) = ins_sorted y (ins_sorted x l).
Proof.
  induction l as [|z t IH]; cbn [ins_sorted];
    repeat (match goal with |- context [?a <=? ?b] => destruct (a <=? b) eqn:?; cbn [ins_sorted] end);
    try reflexivity; try (f_equal; exact IH);
    repeat (match goal with
            | H : (_ <=? _) = true |- _ => apply N.leb_le in H
            | H : (_ <=? _) = false |- _ => apply N.leb_gt in H
            end);
    try lia; assert (x = y) by lia; subst; reflexivity.
Qed.

Lemma sortN_perm_eq l1 l2 : Permutation l1 l2 -> sortN l1 = sortN l2.
Proof.
  intros H. induction H; unfold sortN in *; cbn [fold_right]; try congruence.
  apply ins_sorted_comm.
Qed.

Lemma sortN_sorted_id l : ssorted l -> sortN l = l.
Proof.
  induction l as [|x t IH]; intros Hs; [reflexivity|].
  apply ssorted_cons_inv in Hs. destruct Hs as [Hs Hlt]. unfold sortN in *. cbn [fold_right].
  rewrite (IH Hs). destruct t as [|y t']; [reflexivity|]. cbn [ins_sorted].
  inversion Hlt; subst. assert (E : (x <=? y) = true) by (apply N.leb_le; lia). rewrite E. reflexivity.
Qed.

Lemma sortN_perm_sorted l1 l2 : Permutation l1 l2 -> ssorted l2 -> sortN l1 = l2.
Proof. intros Hp Hs. rewrite (sortN_perm_eq _ _ Hp). apply sortN_sorted_id. exact Hs. Qed.

Lemma ssorted_range_from a b : ssorted (range_from a b).
Proof.
  unfold range_from. generalize (N.to_nat (b - a)). intros n. generalize 0%nat.
  induction n as [|n IH]; intros s; cbn [seq map]; [constructor|].
  apply ssorted_cons; [apply IH|]. apply Forall_forall. intros y Hy.
  apply in_map_iff in Hy. destruct Hy as [k [Ek Hk]]. apply in_seq in Hk. lia.
Qed.

Lemma ssorted_filter f l : ssorted l -> ssorted (filter f l).
Proof.
  induction l as [|x t IH]; intros Hs; cbn [filter]; [constructor|].
  apply ssorted_cons_inv in Hs. destruct Hs as [Hs Hlt]. destruct (f x); [|apply IH; exact Hs].
  apply ssorted_cons; [apply IH; exact Hs|]. rewrite Forall_forall in *. intros y Hy.
  apply filter_In in Hy. apply Hlt. apply Hy.
Qed.

(* a filtered range of N, in nat *)
Lemma filter_range_nat (f : N -> bool) a b :
  filter f (range_from a b) =
  map N.of_nat (filter (fun c => f (N.of_nat c)) (seq (N.to_nat a) (N.to_nat b - N.to_nat a))).
Proof. rewrite range_from_nat, filter_map_comm. reflexivity. Qed.

Lemma map_to_nat_of_nat l : map N.to_nat (map N.of_nat l) = l.
Proof. rewrite map_map. rewrite <- (map_id l) at 2. apply map_ext. intros. apply Nat2N.id. Qed.

(* ---------------- count_ones ---------------- *)

(* the abstract row restricted to defined sparse columns = the concrete row *)
Lemma abs_row_cell md m st row c : srefines md m st -> row < s_height m -> c < sfd m ->
  bm_def (fst st) (N.to_nat row) (N.to_nat c) = true ->
  bm_get (fst st) (N.to_nat row) (N.to_nat c) =
  memN (eword (s_l2p_col m) c) (rowk m (eword (s_l2p_row m) row)).
Proof.
  intros Hr Hrow Hc Hd. pose proof (ref_inv _ _ _ Hr) as Hinv. pose proof (inv_nd _ _ Hinv).
  rewrite (ref_cells md m st Hr) by (try assumption; rewrite ?(ref_h md m st Hr), ?(ref_w md m st Hr); unfold sfd in *; lia).
  unfold sm_bitn, sm_bit. rewrite !N2Nat.id. apply N.ltb_lt in Hc. rewrite Hc. reflexivity.
Qed.

Lemma ones_cols_eq md m st row s e : srefines md m st -> row < s_height m -> s <= e -> e <= sfd m ->
  all_def_row (fst st) (N.to_nat row) (N.to_nat s) (N.to_nat e) = true ->
  filter (fun c => memN (eword (s_l2p_col m) c) (rowk m (eword (s_l2p_row m) row))) (range_from s e) =
  map N.of_nat (filter (fun c => bm_get (fst st) (N.to_nat row) c) (seq (N.to_nat s) (N.to_nat e - N.to_nat s))).
Proof.
  intros Hr Hrow Hse He Hdef. rewrite filter_range_nat. f_equal. apply filter_ext_in'.
  intros c Hc. apply in_seq in Hc. symmetry.
  rewrite <- (Nat2N.id c) at 1. apply (abs_row_cell md m st); try assumption; try lia.
  rewrite Nat2N.id. apply (all_def_row_spec _ _ _ _ _ Hdef). lia.
Qed.

Lemma ssim_count_ones md m st row s e : srefines md m st -> adm_sparse st (OCountOnes row s e) = true ->
  sm_count_ones md m row s e = Ok (N.of_nat (bm_count_ones (fst st) (N.to_nat row) (N.to_nat s) (N.to_nat e))).
Proof.
  intros Hr Hadm. pose proof (fd_N md m st Hr) as Hfd. pose proof (ref_inv _ _ _ Hr) as Hinv. destruct st as [a0 g].
  unfold adm_sparse in Hadm. rewrite Hfd in Hadm. cbn [fst snd] in *.
  apply andb_true_iff in Hadm. destruct Hadm as [Ha He]. cbn [adm] in Ha.
  pose proof (ref_h md m _ Hr) as Hh. pose proof (ref_w md m _ Hr) as Hw. cbn [fst] in Hh, Hw.
  rewrite Hh, Hw, !N2Nat.id in Ha. bsplit Ha.
  rewrite sm_count_ones_ok by (try assumption; lia). do 2 f_equal.
  unfold bm_count_ones, q_count_ones.
  assert (Hp : eword (s_l2p_row m) row < s_height m) by (apply (l2p_row_lt md m Hinv); lia).
  assert (He' : e <= sfd m) by lia. assert (Hse : s <= e) by lia.
  rewrite <- (map_length (eword (s_p2l_col m))).
  rewrite (Permutation_length (row_cols_perm md m _ s e Hinv Hp He' Hse)).
  rewrite (ones_cols_eq md m (a0, g) row s e) by (try assumption; lia). rewrite map_length. reflexivity.
Qed.

(* ---------------- get_row_iter ---------------- *)

(* the answer, as the sorted list of the columns whose value is 1 *)
Lemma ssim_row_iter md m st row s e : srefines md m st -> adm_sparse st (ORowIter row s e) = true ->
  exists l, sm_get_row_iter md m row s e = Ok l /\
    Forall (fun cv => snd cv = 1) l /\
    Permutation (map fst l)
      (map N.of_nat (filter (fun c => bm_get (fst st) (N.to_nat row) c) (seq (N.to_nat s) (N.to_nat e - N.to_nat s)))).
Proof.
  intros Hr Hadm. pose proof (fd_N md m st Hr) as Hfd. pose proof (ref_inv _ _ _ Hr) as Hinv. destruct st as [a0 g].
  unfold adm_sparse in Hadm. rewrite Hfd in Hadm. cbn [fst snd] in *.
  apply andb_true_iff in Hadm. destruct Hadm as [Ha He]. cbn [adm] in Ha.
  pose proof (ref_h md m _ Hr) as Hh. pose proof (ref_w md m _ Hr) as Hw. cbn [fst] in Hh, Hw.
  rewrite Hh, Hw, !N2Nat.id in Ha. bsplit Ha.
  rewrite sm_get_row_iter_ok by (try assumption; lia). eexists. split; [reflexivity|]. split.
  - apply Forall_forall. intros cv Hcv. apply in_map_iff in Hcv. destruct Hcv as [k [E _]]. subst cv. reflexivity.
  - rewrite map_map. cbn [fst].
    pose proof (ones_cols_eq md m (a0, g) row s e Hr) as Hoc. cbn [fst] in Hoc.
    rewrite <- Hoc by (try assumption; lia).
    apply (row_cols_perm md m _ s e Hinv); try lia. apply (l2p_row_lt md m Hinv). lia.
Qed.

(* ---------------- get_ones_in_column ---------------- *)

Lemma ssim_ones_in_column md m st col s e : srefines md m st -> adm_sparse st (OOnesInCol col s e) = true ->
  exists l, sm_get_ones_in_column md m col s e = Ok l /\
    Permutation l
      (map N.of_nat (filter (fun r => bm_get (fst st) r (N.to_nat col)) (seq (N.to_nat s) (N.to_nat e - N.to_nat s)))).
Proof.
  intros Hr Hadm. pose proof (fd_N md m st Hr) as Hfd. pose proof (ref_inv _ _ _ Hr) as Hinv. destruct st as [a0 g].
  unfold adm_sparse in Hadm. rewrite Hfd in Hadm. cbn [fst snd] in *.
  apply andb_true_iff in Hadm. destruct Hadm as [Ha Hs]. cbn [adm] in Ha.
  pose proof (ref_h md m _ Hr) as Hh. pose proof (ref_w md m _ Hr) as Hw. cbn [fst] in Hh, Hw.
  rewrite Hh, Hw, !N2Nat.id in Ha. bsplit Ha. bsplit Hs.
  pose proof (ref_idx md m _ Hr) as Hidx. cbn [snd] in Hidx. rewrite Hs in Hidx.
  assert (Hdis : s_disabled m = false) by (destruct (s_disabled m); [discriminate | reflexivity]).
  pose proof (inv_index _ _ Hinv) as Hii. unfold index_inv in Hii.
  destruct (s_index m) as [ix|] eqn:Eix; [|congruence].
  destruct Hii as [_ [Hlen [Hwh [Hlists Hsup]]]].
  pose proof (inv_w _ _ Hinv) as Hww. pose proof (inv_nd _ _ Hinv) as Hnd.
  assert (Hcol : col < W0 m) by (unfold sfd in *; lia).
  apply negb_true_iff in Hs0.
  assert (Hvalid : md = Checked -> nth (N.to_nat col) (s_valid m) false = true).
  { intros E. pose proof (ref_valid md m _ Hr E) as Hv. pose proof (ref_stale_len md m _ Hr) as Hl.
    cbn [snd] in Hv, Hl. rewrite Hv.
    rewrite (nth_indep _ false (negb true)) by (rewrite map_length, Hl; unfold W0 in Hcol; lia).
    rewrite map_nth, Hs0. reflexivity. }
  rewrite (sm_get_ones_in_column_ok md m col s e ix Hinv Eix Hcol) by (try lia; exact Hvalid).
  eexists. split; [reflexivity|].
  pose proof (l2p_col_lt md m Hinv col Hcol) as Hpc. set (pc := eword (s_l2p_col m) col) in *.
  destruct (Hlists pc Hpc) as [Hnd' Hrng]. rewrite Forall_forall in Hrng.
  pose proof (inv_rowmaps _ _ Hinv) as Hrm.
  assert (Hcell : forall r, r < s_height m -> s <= r -> r < e ->
            bm_get a0 (N.to_nat r) (N.to_nat col) = memN pc (rowk m (eword (s_l2p_row m) r))).
  { intros r Hr1 Hr2 Hr3. apply (abs_row_cell md m (a0, g) r col Hr); try lia. cbn [fst].
    apply (all_def_col_spec _ _ _ _ _ Ha0). lia. }
  apply NoDup_Permutation.
  - (* p2l_row injective on the index list *)
    assert (Hnd2 : NoDup (filter (row_in_range (s_p2l_row m) s e) (nth (N.to_nat pc) ix []))) by (apply NoDup_filter; exact Hnd').
    assert (Hin : forall r, In r (filter (row_in_range (s_p2l_row m) s e) (nth (N.to_nat pc) ix [])) -> r < s_height m).
    { intros r Hr'. apply filter_In in Hr'. apply Hrng. apply Hr'. }
    induction (filter (row_in_range (s_p2l_row m) s e) (nth (N.to_nat pc) ix [])) as [|k t IH]; cbn [map]; [constructor|].
    inversion Hnd2; subst. constructor; [|apply IH; [assumption | intros; apply Hin; right; assumption]].
    intros Habs. apply in_map_iff in Habs. destruct Habs as [k' [Ek Hk']].
    assert (k' = k).
    { rewrite <- (perm_l2p_p2l _ _ _ k' Hrm), <- (perm_l2p_p2l _ _ _ k Hrm), Ek; [reflexivity | |];
        apply Hin; [left; reflexivity | right; exact Hk']. }
    subst k'. contradiction.
  - apply FinFun.Injective_map_NoDup; [intros x y; lia|]. apply NoDup_filter. apply seq_NoDup.
  - intros r. rewrite in_map_iff. split.
    + intros [pr [Epr Hpr]]. apply filter_In in Hpr. destruct Hpr as [Hpr1 Hpr2].
      unfold row_in_range in Hpr2. rewrite Epr in Hpr2. bsplit Hpr2.
      pose proof (Hrng pr Hpr1) as Hprh.
      apply in_map_iff. exists (N.to_nat r). split; [lia|]. apply filter_In. split; [apply in_seq; lia|].
      rewrite Hcell by lia. rewrite <- Epr, (perm_l2p_p2l _ _ _ pr Hrm Hprh).
      apply (ref_exact md m _ Hr ix col pr Eix); [lia | exact Hs0 | exact Hpr1].
    + intros Hin. apply in_map_iff in Hin. destruct Hin as [rn [Ern Hrn]]. subst r.
      apply filter_In in Hrn. destruct Hrn as [Hrn1 Hrn2]. apply in_seq in Hrn1.
      exists (eword (s_l2p_row m) (N.of_nat rn)).
      assert (Hrh : N.of_nat rn < s_height m) by lia.
      split; [apply (perm_p2l_l2p _ _ _ _ Hrm Hrh)|]. apply filter_In. split.
      * apply Hsup; [apply (perm_l2p_lt _ _ _ _ Hrm Hrh)|].
        rewrite <- Hcell by lia. rewrite Nat2N.id. exact Hrn2.
      * unfold row_in_range. rewrite (perm_p2l_l2p _ _ _ _ Hrm Hrh). lia.
Qed.

(* ---------------- dense tail queries ---------------- *)

Lemma abs_dense_cell md m st row d : srefines md m st -> row < s_height m -> d < s_nd m ->
  bm_def (fst st) (N.to_nat row) (N.to_nat (sfd m + d)) = true ->
  bm_get (fst st) (N.to_nat row) (N.to_nat (sfd m + d)) = sm_dbit m (eword (s_l2p_row m) row) d.
Proof.
  intros Hr Hrow Hd Hdef. pose proof (ref_inv _ _ _ Hr) as Hinv. pose proof (inv_nd _ _ Hinv).
  rewrite (ref_cells md m st Hr) by (try assumption; rewrite ?(ref_h md m st Hr), ?(ref_w md m st Hr); unfold sfd in *; lia).
  unfold sm_bitn, sm_bit. rewrite !N2Nat.id.
  assert (E : (sfd m + d <? sfd m) = false) by (apply N.ltb_ge; lia). rewrite E. f_equal. lia.
Qed.

Lemma ssim_sub_row md m st row s : srefines md m st -> adm_sparse st (OSubRow row s) = true ->
  exists ws, sm_get_sub_row_as_octets md m row s = Ok (ws, s_nd m) /\
    N.of_nat (length ws) = ceil_div (s_nd m) 64 /\
    bov_to_octet_vec ws (s_nd m) = Ok (map b2n (bm_sub_row (fst st) (N.to_nat row) (N.to_nat s))).
Proof.
  intros Hr Hadm. pose proof (fd_N md m st Hr) as Hfd. pose proof (ref_inv _ _ _ Hr) as Hinv. destruct st as [a0 g].
  unfold adm_sparse in Hadm. rewrite Hfd in Hadm. cbn [fst snd] in *.
  apply andb_true_iff in Hadm. destruct Hadm as [Ha Hs]. cbn [adm] in Ha.
  pose proof (ref_h md m _ Hr) as Hh. pose proof (ref_w md m _ Hr) as Hw. cbn [fst] in Hh, Hw.
  rewrite Hh, !N2Nat.id in Ha. bsplit Ha. apply N.eqb_eq in Hs. subst s.
  pose proof (inv_nd _ _ Hinv) as Hnd.
  destruct (sm_get_sub_row_ok md m row Hinv) as [ws [H1 [H2 H3]]]; [lia|].
  exists ws. split; [exact H1|]. split; [exact H2|]. rewrite H3. do 2 f_equal.
  unfold bm_sub_row, q_sub_row. rewrite Hw.
  replace (N.to_nat (s_width m) - N.to_nat (sfd m))%nat with (N.to_nat (s_nd m)) by (unfold sfd; lia).
  rewrite <- (seq_map_add (N.to_nat (sfd m))), !map_map. apply map_ext_in. intros t Ht. apply in_seq in Ht.
  f_equal. replace (N.to_nat (sfd m) + t)%nat with (N.to_nat (sfd m + N.of_nat t)) by lia.
  symmetry. apply (abs_dense_cell md m (a0, g) row (N.of_nat t) Hr); try lia. cbn [fst].
  apply (all_def_row_spec _ _ _ _ _ Ha0). unfold sfd in *. lia.
Qed.

Lemma ssim_non_zero_columns md m st row s : srefines md m st -> adm_sparse st (ONonZeroCols row s) = true ->
  sm_query_non_zero_columns md m row s =
  Ok (map N.of_nat (bm_non_zero_columns (fst st) (N.to_nat row) (N.to_nat s))).
Proof.
  intros Hr Hadm. pose proof (fd_N md m st Hr) as Hfd. pose proof (ref_inv _ _ _ Hr) as Hinv. destruct st as [a0 g].
  unfold adm_sparse in Hadm. rewrite Hfd in Hadm. cbn [fst snd] in *.
  apply andb_true_iff in Hadm. destruct Hadm as [Ha Hs]. cbn [adm] in Ha.
  pose proof (ref_h md m _ Hr) as Hh. pose proof (ref_w md m _ Hr) as Hw.
  pose proof (ref_nd md m _ Hr) as Hgnd. cbn [fst snd] in Hh, Hw, Hgnd.
  rewrite Hh, !N2Nat.id in Ha. bsplit Ha. apply N.eqb_eq in Hs. subst s.
  pose proof (inv_nd _ _ Hinv) as Hnd.
  rewrite sm_query_non_zero_columns_ok by (try assumption; lia). f_equal.
  unfold bm_non_zero_columns, q_non_zero_columns. rewrite Hw.
  replace (N.to_nat (s_width m) - N.to_nat (sfd m))%nat with (N.to_nat (s_nd m)) by (unfold sfd; lia).
  rewrite range_from_nat. change (N.to_nat 0) with 0%nat. rewrite Nat.sub_0_r, filter_map_comm, map_map.
  rewrite <- (seq_map_add (N.to_nat (sfd m))), filter_map_comm, map_map.
  rewrite (filter_ext_in' (fun x => bm_get a0 (N.to_nat row) (N.to_nat (sfd m) + x))
                          (fun x => sm_dbit m (eword (s_l2p_row m) row) (N.of_nat x))).
  - apply map_ext. intros x. lia.
  - intros t Ht. apply in_seq in Ht.
    replace (N.to_nat (sfd m) + t)%nat with (N.to_nat (sfd m + N.of_nat t)) by lia.
    apply (abs_dense_cell md m (a0, g) row (N.of_nat t) Hr); try lia. cbn [fst].
    apply (all_def_row_spec _ _ _ _ _ Ha0). unfold sfd in *. lia.
Qed.

