(* Proofs about Model/Wire.v: the serialisers produce the big-endian layouts of Spec/Wire.v, the
   deserialisers invert them, and the deserialisers' plain `+` / `<<` stay inside their lanes. *)
From Coq Require Import NArith List Bool Lia NArithRing.
From RQ Require Import Base.Outcome Base.Ints Gen.Consts Spec.Wire Model.Wire.
Import ListNotations.
Open Scope N_scope.

(* ---- big-endian digits and positional value ---- *)

Lemma pow256_nz n : 256 ^ n <> 0.
Proof. apply N.pow_nonzero. discriminate. Qed.

Lemma pow256_S (w : nat) : 256 ^ N.of_nat (S w) = 256 * 256 ^ N.of_nat w.
Proof. rewrite Nat2N.inj_succ. apply N.pow_succ_r'. Qed.

Lemma be_length w x : length (be w x) = w.
Proof. induction w as [|w IH]; cbn [be length]; [reflexivity | rewrite IH; reflexivity]. Qed.

Lemma be_bytes w x : bytes (be w x).
Proof.
  induction w as [|w IH]; cbn [be]; constructor; [|exact IH].
  unfold is_byte. apply N.mod_lt. discriminate.
Qed.

Lemma be_val_be w x : be_val (be w x) = x mod 256 ^ N.of_nat w.
Proof.
  induction w as [|w IH].
  - cbn [be be_val]. change (256 ^ N.of_nat 0) with 1. rewrite N.mod_1_r. reflexivity.
  - cbn [be be_val]. rewrite be_length, IH, pow256_S.
    rewrite (N.mul_comm 256 (256 ^ N.of_nat w)).
    rewrite N.mod_mul_r; [ring | apply pow256_nz | discriminate].
Qed.

Lemma be_val_be_small w x : x < 256 ^ N.of_nat w -> be_val (be w x) = x.
Proof. intros H. rewrite be_val_be. apply N.mod_small. exact H. Qed.

Lemma be_drop w : forall x k, be w (x + k * 256 ^ N.of_nat w) = be w x.
Proof.
  induction w as [|w IH]; intros x k.
  - reflexivity.
  - cbn [be]. rewrite pow256_S.
    replace (x + k * (256 * 256 ^ N.of_nat w)) with (x + (k * 256) * 256 ^ N.of_nat w) by ring.
    f_equal.
    + rewrite N.div_add by apply pow256_nz. rewrite N.mod_add by discriminate. reflexivity.
    + apply IH.
Qed.

Lemma be_mod w x : be w (x mod 256 ^ N.of_nat w) = be w x.
Proof.
  rewrite (N.div_mod x (256 ^ N.of_nat w)) at 2 by apply pow256_nz.
  rewrite N.add_comm, N.mul_comm, be_drop. reflexivity.
Qed.

Lemma be_val_lt l : bytes l -> be_val l < 256 ^ N.of_nat (length l).
Proof.
  induction l as [|d t IH]; intros H.
  - cbn. lia.
  - inversion H as [|d' t' Hd Ht]; subst. specialize (IH Ht). unfold is_byte in Hd.
    cbn [be_val length]. rewrite pow256_S.
    remember (256 ^ N.of_nat (length t)) as P. nia.
Qed.

Lemma be_be_val l : bytes l -> be (length l) (be_val l) = l.
Proof.
  induction l as [|d t IH]; intros H.
  - reflexivity.
  - inversion H as [|d' t' Hd Ht]; subst. unfold is_byte in Hd.
    pose proof (be_val_lt t Ht) as Hlt.
    cbn [be_val length be]. rewrite (N.add_comm (d * _)). f_equal.
    + rewrite N.div_add by apply pow256_nz. rewrite (N.div_small _ _ Hlt).
      rewrite N.add_0_l. apply N.mod_small. exact Hd.
    + rewrite be_drop. apply IH. exact Ht.
Qed.

Lemma be_be_val' l w : w = length l -> bytes l -> be w (be_val l) = l.
Proof. intros ->. apply be_be_val. Qed.

(* be is injective on values below 256^w *)
Lemma be_inj w x y : x < 256 ^ N.of_nat w -> y < 256 ^ N.of_nat w -> be w x = be w y -> x = y.
Proof.
  intros Hx Hy H. rewrite <- (be_val_be_small w x Hx), <- (be_val_be_small w y Hy), H. reflexivity.
Qed.

(* ---- the model's shifts and masks are digits ---- *)

Lemma byte_hi x s : u8 (N.shiftr x s) = (x / 2 ^ s) mod 256.
Proof. unfold u8, wrap. rewrite N.shiftr_div_pow2. reflexivity. Qed.

Lemma byte_mid x s : u8 (N.land (N.shiftr x s) 255) = (x / 2 ^ s) mod 256.
Proof.
  unfold u8, wrap. change 255 with (N.ones 8). rewrite N.land_ones, N.shiftr_div_pow2.
  rewrite N.mod_mod by (apply N.pow_nonzero; discriminate). reflexivity.
Qed.

Lemma byte_lo x : u8 (N.land x 255) = x mod 256.
Proof.
  unfold u8, wrap. change 255 with (N.ones 8). rewrite N.land_ones.
  rewrite N.mod_mod by (apply N.pow_nonzero; discriminate). reflexivity.
Qed.

Lemma be2 x : be 2 x = [(x / 2 ^ 8) mod 256; x mod 256].
Proof. cbn [be]. change (256 ^ N.of_nat 0) with 1. rewrite N.div_1_r. reflexivity. Qed.

Lemma be3 x : be 3 x = [(x / 2 ^ 16) mod 256; (x / 2 ^ 8) mod 256; x mod 256].
Proof. cbn [be]. change (256 ^ N.of_nat 0) with 1. rewrite N.div_1_r. reflexivity. Qed.

Lemma be5 x : be 5 x = [(x / 2 ^ 32) mod 256; (x / 2 ^ 24) mod 256; (x / 2 ^ 16) mod 256;
                         (x / 2 ^ 8) mod 256; x mod 256].
Proof. cbn [be]. change (256 ^ N.of_nat 0) with 1. rewrite N.div_1_r. reflexivity. Qed.

Lemma deser2 d0 d1 : N.shiftl d0 8 + d1 = be_val [d0; d1].
Proof.
  rewrite N.shiftl_mul_pow2. cbn [be_val length].
  change (256 ^ N.of_nat 1) with (2 ^ 8). change (256 ^ N.of_nat 0) with 1. ring.
Qed.

Lemma deser3 d0 d1 d2 : N.shiftl d0 16 + N.shiftl d1 8 + d2 = be_val [d0; d1; d2].
Proof.
  rewrite !N.shiftl_mul_pow2. cbn [be_val length].
  change (256 ^ N.of_nat 2) with (2 ^ 16). change (256 ^ N.of_nat 1) with (2 ^ 8).
  change (256 ^ N.of_nat 0) with 1. ring.
Qed.

Lemma deser5 d0 d1 d2 d3 d4 :
  N.shiftl d0 32 + N.shiftl d1 24 + N.shiftl d2 16 + N.shiftl d3 8 + d4 = be_val [d0; d1; d2; d3; d4].
Proof.
  rewrite !N.shiftl_mul_pow2. cbn [be_val length].
  change (256 ^ N.of_nat 4) with (2 ^ 32). change (256 ^ N.of_nat 3) with (2 ^ 24).
  change (256 ^ N.of_nat 2) with (2 ^ 16). change (256 ^ N.of_nat 1) with (2 ^ 8).
  change (256 ^ N.of_nat 0) with 1. ring.
Qed.

Ltac bytes_tac := unfold bytes; repeat constructor; unfold is_byte; assumption.

(* ---- PayloadId ---- *)

Lemma pid_new_ok sbn esi : esi < 2 ^ 24 -> pid_new sbn esi = Ok (sbn, esi).
Proof.
  intros H. unfold pid_new. change ESI_LIMIT with (2 ^ 24).
  apply N.ltb_lt in H. rewrite H. reflexivity.
Qed.

Lemma pid_new_panics sbn esi : 2 ^ 24 <= esi -> pid_new sbn esi = Panic PAssert.
Proof.
  intros H. unfold pid_new. change ESI_LIMIT with (2 ^ 24).
  apply N.ltb_ge in H. rewrite H. reflexivity.
Qed.

(* no range hypothesis is needed for the layout: the masks / `as u8` pick the digits *)
Lemma pid_ser_layout sbn esi : pid_ser (sbn, esi) = payload_id_wire sbn esi.
Proof.
  unfold pid_ser, payload_id_wire. rewrite be3, byte_hi, byte_mid, byte_lo. reflexivity.
Qed.

Lemma pid_ser_length p : length (pid_ser p) = 4%nat.
Proof. destruct p. reflexivity. Qed.

Lemma pid_ser_bytes sbn esi : sbn < 256 -> bytes (pid_ser (sbn, esi)).
Proof.
  intros H. rewrite pid_ser_layout. unfold payload_id_wire. constructor; [exact H | apply be_bytes].
Qed.

Lemma pid_deser_eq d0 d1 d2 d3 : pid_deser [d0; d1; d2; d3] = Ok (d0, be_val [d1; d2; d3]).
Proof. unfold pid_deser. rewrite deser3. reflexivity. Qed.

Lemma pid_deser_len b : length b <> 4%nat -> pid_deser b = Panic PIndex.
Proof.
  destruct b as [|d0 [|d1 [|d2 [|d3 [|d4 r]]]]]; cbn [length]; intros H; try reflexivity.
  exfalso. apply H. reflexivity.
Qed.

(* the u32 additions and shifts of PayloadId::deserialize cannot overflow *)
Lemma pid_deser_range d0 d1 d2 d3 : d1 < 256 -> d2 < 256 -> d3 < 256 ->
  N.shiftl d1 16 < 2 ^ 24 /\ N.shiftl d2 8 < 2 ^ 16 /\
  N.shiftl d1 16 + N.shiftl d2 8 + d3 < 2 ^ 24 /\
  exists esi, pid_deser [d0; d1; d2; d3] = Ok (d0, esi) /\ esi < 2 ^ 24.
Proof.
  intros H1 H2 H3. rewrite !N.shiftl_mul_pow2.
  change (2 ^ 16) with 65536. change (2 ^ 8) with 256. change (2 ^ 24) with 16777216.
  repeat split; try lia.
  exists (be_val [d1; d2; d3]). split; [apply pid_deser_eq|].
  pose proof (be_val_lt [d1; d2; d3]) as L. cbn [length] in L.
  change (256 ^ N.of_nat 3) with 16777216 in L. apply L. bytes_tac.
Qed.

Lemma pid_roundtrip sbn esi : esi < 2 ^ 24 -> pid_deser (pid_ser (sbn, esi)) = Ok (sbn, esi).
Proof.
  intros H. rewrite pid_ser_layout. unfold payload_id_wire. rewrite be3, pid_deser_eq, <- be3.
  rewrite be_val_be_small; [reflexivity | exact H].
Qed.

Lemma pid_reserialize b0 b1 b2 b3 : b0 < 256 -> b1 < 256 -> b2 < 256 -> b3 < 256 ->
  exists p, pid_deser [b0; b1; b2; b3] = Ok p /\ pid_ser p = [b0; b1; b2; b3].
Proof.
  intros H0 H1 H2 H3. exists (b0, be_val [b1; b2; b3]). split; [apply pid_deser_eq|].
  rewrite pid_ser_layout. unfold payload_id_wire.
  rewrite (be_be_val' [b1; b2; b3] 3 eq_refl); [reflexivity | bytes_tac].
Qed.

(* ---- EncodingPacket ---- *)

Lemma pkt_ser_layout id data : pkt_ser (id, data) = pid_ser id ++ data.
Proof. reflexivity. Qed.

Lemma pkt_deser_cons4 d0 d1 d2 d3 rest :
  pkt_deser (d0 :: d1 :: d2 :: d3 :: rest) =
  match pid_deser [d0; d1; d2; d3] with Ok id => Ok (id, rest) | Panic c => Panic c end.
Proof. unfold pkt_deser. cbn [nth_ok nth_error obind]. destruct (pid_deser [d0; d1; d2; d3]); reflexivity. Qed.

Lemma pkt_roundtrip sbn esi data : esi < 2 ^ 24 ->
  pkt_deser (pkt_ser ((sbn, esi), data)) = Ok ((sbn, esi), data).
Proof.
  intros H. pose proof (pid_roundtrip sbn esi H) as R.
  rewrite pkt_ser_layout. unfold pid_ser in *. cbn [app]. rewrite pkt_deser_cons4, R. reflexivity.
Qed.

Lemma pkt_short b : (length b < 4)%nat -> pkt_deser b = Panic PIndex.
Proof.
  destruct b as [|d0 [|d1 [|d2 [|d3 r]]]]; cbn [length]; intros H; try reflexivity. lia.
Qed.

Lemma pkt_reserialize b : (4 <= length b)%nat -> bytes b ->
  exists p, pkt_deser b = Ok p /\ pkt_ser p = b.
Proof.
  destruct b as [|d0 [|d1 [|d2 [|d3 r]]]]; cbn [length]; intros H Hb; try lia.
  inversion Hb as [|? ? H0 Hb1]; subst. inversion Hb1 as [|? ? H1 Hb2]; subst.
  inversion Hb2 as [|? ? H2 Hb3]; subst. inversion Hb3 as [|? ? H3 Hb4]; subst.
  destruct (pid_reserialize d0 d1 d2 d3 H0 H1 H2 H3) as [p [Hp Hs]].
  exists (p, r). split.
  - rewrite pkt_deser_cons4, Hp. reflexivity.
  - rewrite pkt_ser_layout, Hs. reflexivity.
Qed.

Lemma pkt_ser_length id data : length (pkt_ser (id, data)) = (4 + length data)%nat.
Proof. rewrite pkt_ser_layout, app_length, pid_ser_length. reflexivity. Qed.

Lemma pkt_ser_bytes sbn esi data : sbn < 256 -> bytes data -> bytes (pkt_ser ((sbn, esi), data)).
Proof.
  intros H Hd. rewrite pkt_ser_layout. apply Forall_app. split; [apply pid_ser_bytes; exact H | exact Hd].
Qed.

(* ---- ObjectTransmissionInformation ---- *)

Lemma oti_ser_layout F T Z Nsub Al : oti_ser (F, T, Z, Nsub, Al) = oti_wire F T Z Nsub Al.
Proof.
  unfold oti_ser, oti_wire. rewrite be5, !be2, !byte_hi, !byte_mid, !byte_lo. reflexivity.
Qed.

Lemma oti_ser_length x : length (oti_ser x) = 12%nat.
Proof. destruct x as [[[[F T] Z] Nsub] Al]. reflexivity. Qed.

Lemma oti_ser_bytes F T Z Nsub Al : Z < 256 -> Al < 256 -> bytes (oti_ser (F, T, Z, Nsub, Al)).
Proof.
  intros HZ HA. rewrite oti_ser_layout. unfold oti_wire.
  repeat (apply Forall_app; split); try apply be_bytes; repeat constructor; unfold is_byte; try assumption; lia.
Qed.

Lemma oti_deser_eq d0 d1 d2 d3 d4 d5 d6 d7 d8 d9 d10 d11 :
  oti_deser [d0; d1; d2; d3; d4; d5; d6; d7; d8; d9; d10; d11] =
  Ok (be_val [d0; d1; d2; d3; d4], be_val [d6; d7], d8, be_val [d9; d10], d11).
Proof. unfold oti_deser. rewrite deser5, !deser2. reflexivity. Qed.

Lemma oti_deser_len b : length b <> 12%nat -> oti_deser b = Panic PIndex.
Proof.
  destruct b as [|d0 [|d1 [|d2 [|d3 [|d4 [|d5 [|d6 [|d7 [|d8 [|d9 [|d10 [|d11 [|d12 r]]]]]]]]]]]]];
    cbn [length]; intros H; try reflexivity.
  exfalso. apply H. reflexivity.
Qed.

(* the u64 / u16 additions and shifts of OTI::deserialize cannot overflow, and the fields decoded
   from bytes are in the ranges of their Rust types (F even in 40 bits) *)
Lemma oti_deser_range d0 d1 d2 d3 d4 d5 d6 d7 d8 d9 d10 d11 :
  d0 < 256 -> d1 < 256 -> d2 < 256 -> d3 < 256 -> d4 < 256 -> d6 < 256 -> d7 < 256 ->
  d8 < 256 -> d9 < 256 -> d10 < 256 -> d11 < 256 ->
  N.shiftl d0 32 + N.shiftl d1 24 + N.shiftl d2 16 + N.shiftl d3 8 + d4 < 2 ^ 40 /\
  N.shiftl d6 8 + d7 < 2 ^ 16 /\ N.shiftl d9 8 + d10 < 2 ^ 16 /\
  exists F T Z Nsub Al,
    oti_deser [d0; d1; d2; d3; d4; d5; d6; d7; d8; d9; d10; d11] = Ok (F, T, Z, Nsub, Al) /\
    F < 2 ^ 40 /\ T < 2 ^ 16 /\ Z < 2 ^ 8 /\ Nsub < 2 ^ 16 /\ Al < 2 ^ 8.
Proof.
  intros H0 H1 H2 H3 H4 H6 H7 H8 H9 H10 H11.
  assert (A : N.shiftl d0 32 + N.shiftl d1 24 + N.shiftl d2 16 + N.shiftl d3 8 + d4 < 2 ^ 40).
  { rewrite !N.shiftl_mul_pow2.
    change (2 ^ 32) with 4294967296. change (2 ^ 24) with 16777216. change (2 ^ 16) with 65536.
    change (2 ^ 8) with 256. change (2 ^ 40) with 1099511627776. lia. }
  assert (B : N.shiftl d6 8 + d7 < 2 ^ 16).
  { rewrite !N.shiftl_mul_pow2. change (2 ^ 8) with 256. change (2 ^ 16) with 65536. lia. }
  assert (C : N.shiftl d9 8 + d10 < 2 ^ 16).
  { rewrite !N.shiftl_mul_pow2. change (2 ^ 8) with 256. change (2 ^ 16) with 65536. lia. }
  split; [exact A|]. split; [exact B|]. split; [exact C|].
  do 5 eexists. split; [reflexivity|].
  change (2 ^ 8) with 256. repeat split; assumption.
Qed.

Lemma oti_roundtrip F T Z Nsub Al : F < 2 ^ 40 -> T < 2 ^ 16 -> Nsub < 2 ^ 16 ->
  oti_deser (oti_ser (F, T, Z, Nsub, Al)) = Ok (F, T, Z, Nsub, Al).
Proof.
  intros HF HT HN. rewrite oti_ser_layout. unfold oti_wire. rewrite be5, !be2. cbn [app].
  rewrite oti_deser_eq, <- be5, <- !be2.
  rewrite !be_val_be_small; [reflexivity | exact HN | exact HT | exact HF].
Qed.

Lemma oti_reserialize d0 d1 d2 d3 d4 d5 d6 d7 d8 d9 d10 d11 :
  d0 < 256 -> d1 < 256 -> d2 < 256 -> d3 < 256 -> d4 < 256 -> d6 < 256 -> d7 < 256 ->
  d9 < 256 -> d10 < 256 ->
  exists x, oti_deser [d0; d1; d2; d3; d4; d5; d6; d7; d8; d9; d10; d11] = Ok x /\
            oti_ser x = [d0; d1; d2; d3; d4; 0; d6; d7; d8; d9; d10; d11].
Proof.
  intros H0 H1 H2 H3 H4 H6 H7 H9 H10.
  eexists. split; [apply oti_deser_eq|].
  rewrite oti_ser_layout. unfold oti_wire.
  rewrite (be_be_val' [d0; d1; d2; d3; d4] 5 eq_refl) by bytes_tac.
  rewrite (be_be_val' [d6; d7] 2 eq_refl) by bytes_tac.
  rewrite (be_be_val' [d9; d10] 2 eq_refl) by bytes_tac.
  reflexivity.
Qed.

(* list form: byte 5 (reserved) is the only information lost *)
Lemma oti_reserialize_list b : length b = 12%nat -> bytes b ->
  exists x, oti_deser b = Ok x /\ oti_ser x = firstn 5 b ++ 0 :: skipn 6 b.
Proof.
  destruct b as [|d0 [|d1 [|d2 [|d3 [|d4 [|d5 [|d6 [|d7 [|d8 [|d9 [|d10 [|d11 [|d12 r]]]]]]]]]]]]];
    cbn [length]; intros H Hb; try discriminate.
  unfold bytes in Hb.
  repeat match goal with Hx : Forall _ (_ :: _) |- _ =>
    let Hd := fresh "Hd" in let Ht := fresh "Ht" in
    inversion Hx as [|? ? Hd Ht]; subst; clear Hx end.
  unfold is_byte in *.
  cbn [firstn skipn app]. apply oti_reserialize; assumption.
Qed.
