(* Proofs about Model/Kernels.v, part 1: memory operations on the loop invariant, the byte / u64
   tail loops, add_assign (all four kernels, every length). *)
From Coq Require Import NArith ZArith List Bool Arith Lia ZifyBool ZifyN ZifyNat.
From RQ Require Import Base.Outcome Base.Ints Base.ListX Base.Vec Spec.Bits Model.Octet Model.Kernels
  Proofs.OctetProofs Proofs.VecLemmas.
Import ListNotations.
Ltac Zify.zify_post_hook ::= Z.div_mod_to_equations.
Open Scope N_scope.

(* ---------------------------------------------------------------- memory *)

Lemma loadu_ok w buf o : (o + w <= length buf)%nat -> loadu w buf o = Ok (firstn w (skipn o buf)).
Proof. intros H. unfold loadu. apply Nat.leb_le in H. rewrite H. reflexivity. Qed.

Lemma chunk_length {A} w p (l : list A) : (p + w <= length l)%nat -> length (firstn w (skipn p l)) = w.
Proof. intros H. rewrite firstn_length, skipn_length. lia. Qed.

Lemma loadu_mix w spec dest p : length spec = length dest -> (p + w <= length dest)%nat ->
  loadu w (mix spec dest p) p = Ok (firstn w (skipn p dest)).
Proof.
  intros HL Hp. rewrite loadu_ok by (rewrite mix_length; assumption).
  rewrite mix_chunk by lia. reflexivity.
Qed.

Lemma storeu_mix w spec dest p v : length spec = length dest -> (p + w <= length dest)%nat ->
  v = firstn w (skipn p spec) -> storeu (mix spec dest p) p v = Ok (mix spec dest (p + w)).
Proof.
  intros HL Hp ->. unfold storeu. rewrite chunk_length by lia. rewrite mix_length by assumption.
  apply Nat.leb_le in Hp. rewrite Hp. apply Nat.leb_le in Hp. f_equal. apply mix_store; assumption.
Qed.

Lemma get_mix spec dest p : length spec = length dest -> (p < length dest)%nat ->
  get_unchecked (mix spec dest p) p = Ok (nth p dest 0).
Proof.
  intros HL Hp. unfold get_unchecked. rewrite (nth_ok_nth 0) by (rewrite mix_length; assumption).
  rewrite mix_nth by assumption. reflexivity.
Qed.

Lemma get_ok buf p : (p < length buf)%nat -> get_unchecked buf p = Ok (nth p buf 0).
Proof. intros Hp. unfold get_unchecked. apply nth_ok_nth. exact Hp. Qed.

Lemma set_mix spec dest p v : length spec = length dest -> (p < length dest)%nat ->
  v = nth p spec 0 -> set_unchecked (mix spec dest p) p v = Ok (mix spec dest (S p)).
Proof.
  intros HL Hp ->. unfold set_unchecked. rewrite mix_length by assumption.
  apply Nat.ltb_lt in Hp. rewrite Hp. apply Nat.ltb_lt in Hp. f_equal. apply mix_set; assumption.
Qed.

(* introduce the invariant St for the next loop  ofold f (range a b) s  of the goal *)
Ltac loop_with St :=
  match goal with
  | |- context [ofold ?f (range ?a ?b) ?s] =>
      let H := fresh "HLoop" in
      assert (H : ofold f (range a b) s = Ok (St b));
      [ apply (ofold_range f St a b) | rewrite H; clear H; cbn [obind] ]
  end.

(* ---------------------------------------------------------------- xor tail loops *)

Lemma xor_byte_loop_ok dest other a b :
  length dest = length other -> (a <= b <= length dest)%nat ->
  xor_byte_loop a b other (mix (map2 N.lxor dest other) dest a)
  = Ok (mix (map2 N.lxor dest other) dest b).
Proof.
  intros HL Hab. remember (map2 N.lxor dest other) as spec eqn:Espec.
  assert (HS : length spec = length dest) by (subst spec; apply map2_length_eq; exact HL).
  unfold xor_byte_loop. apply (ofold_range _ (fun i => mix spec dest i)); [lia|].
  intros i Hi. rewrite get_mix by (try assumption; lia). cbn [obind].
  rewrite get_ok by lia. cbn [obind].
  apply set_mix; [assumption | lia |].
  subst spec. symmetry. apply nth_map2; lia.
Qed.

Lemma xor_u64_loop_ok dest other a b :
  length dest = length other -> bytes dest -> bytes other -> (a <= b)%nat -> (b * 8 <= length dest)%nat ->
  xor_u64_loop a b other (mix (map2 N.lxor dest other) dest (a * 8))
  = Ok (mix (map2 N.lxor dest other) dest (b * 8)).
Proof.
  intros HL Bd Bo Hab Hb. remember (map2 N.lxor dest other) as spec eqn:Espec.
  assert (HS : length spec = length dest) by (subst spec; apply map2_length_eq; exact HL).
  unfold xor_u64_loop. apply (ofold_range _ (fun i => mix spec dest (i * 8))); [lia|].
  intros i Hi. rewrite loadu_mix by (try assumption; lia). cbn [obind].
  rewrite loadu_ok by lia. cbn [obind].
  replace (S i * 8)%nat with (i * 8 + 8)%nat by lia.
  apply storeu_mix; [assumption | lia |].
  subst spec. rewrite skipn_map2, firstn_map2.
  apply u64_xor_bytes; try (apply chunk_length; lia); apply bytes_chunk; assumption.
Qed.

(* ---------------------------------------------------------------- add_assign *)

Theorem add_assign_fallback_ok dest src :
  length dest = length src -> bytes dest -> bytes src ->
  add_assign_fallback dest src = Ok (map2 N.lxor dest src).
Proof.
  intros HL Bd Bs. unfold add_assign_fallback.
  rewrite (proj2 (Nat.eqb_eq _ _) HL). cbn [assert_ok obind].
  assert (HS : length (map2 N.lxor dest src) = length dest) by (apply map2_length_eq; exact HL).
  change dest with (mix (map2 N.lxor dest src) dest (0 * 8)) at 2.
  rewrite xor_u64_loop_ok by (try assumption; lia). cbn [obind].
  replace (length dest / 8 * 8)%nat with (length dest - length dest mod 8)%nat by lia.
  rewrite xor_byte_loop_ok by (try assumption; lia).
  f_equal. apply mix_all; [exact HS | lia].
Qed.

Theorem add_assign_simd_ok w dest src : (w = 16 \/ w = 32 \/ w = 64)%nat ->
  length dest = length src -> bytes dest -> bytes src ->
  add_assign_simd w dest src = Ok (map2 N.lxor dest src).
Proof.
  intros Hw HL Bd Bs. unfold add_assign_simd.
  rewrite (proj2 (Nat.eqb_eq _ _) HL). cbn [assert_ok obind].
  remember (map2 N.lxor dest src) as spec eqn:Espec.
  assert (HS : length spec = length dest) by (subst spec; apply map2_length_eq; exact HL).
  loop_with (fun i => mix spec dest (i * w)).
  { lia. }
  { intros i Hi.
    assert (Hiw : (i * w + w <= length dest)%nat) by (destruct Hw as [->|[->| ->]]; lia).
    rewrite loadu_mix by (try assumption; lia). cbn [obind].
    rewrite loadu_ok by lia. cbn [obind].
    replace (S i * w)%nat with (i * w + w)%nat by lia.
    apply storeu_mix; [assumption | lia |].
    subst spec. rewrite skipn_map2, firstn_map2. reflexivity. }
  replace (length dest / w * w)%nat with ((length dest - length dest mod w) / 8 * 8)%nat
    by (destruct Hw as [->|[->| ->]]; lia).
  subst spec. rewrite xor_u64_loop_ok by (try assumption; destruct Hw as [->|[->| ->]]; lia).
  cbn [obind].
  replace (length dest / 8 * 8)%nat with (length dest - length dest mod 8)%nat by lia.
  rewrite xor_byte_loop_ok by (try assumption; lia).
  f_equal. apply mix_all; [exact HS | lia].
Qed.

Theorem add_assign_avx512_ok dest src : length dest = length src -> bytes dest -> bytes src ->
  add_assign_avx512 dest src = Ok (map2 N.lxor dest src).
Proof. apply add_assign_simd_ok. auto. Qed.
Theorem add_assign_avx2_ok dest src : length dest = length src -> bytes dest -> bytes src ->
  add_assign_avx2 dest src = Ok (map2 N.lxor dest src).
Proof. apply add_assign_simd_ok. auto. Qed.
Theorem add_assign_ssse3_ok dest src : length dest = length src -> bytes dest -> bytes src ->
  add_assign_ssse3 dest src = Ok (map2 N.lxor dest src).
Proof. apply add_assign_simd_ok. auto. Qed.

Lemma add_assign_len_mismatch w dest src : length dest <> length src ->
  add_assign_simd w dest src = Panic PAssert /\ add_assign_fallback dest src = Panic PAssert.
Proof.
  intros H. apply Nat.eqb_neq in H. unfold add_assign_simd, add_assign_fallback. rewrite H. auto.
Qed.
