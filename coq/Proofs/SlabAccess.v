(* C12, slab part: the raw-pointer slices that SymbolSlab::get_pair_mut (src/symbol_slab.rs) creates.
   The slab's storage is one Vec<u8> of count * symbol_size bytes; get_pair_mut computes
     dest_start = dest * ss,  src_start = src * ss     (physical indices, after the optional mapping)
   and builds  from_raw_parts_mut(ptr + dest_start, ss)  and  from_raw_parts(ptr + src_start, ss)
   after three asserts.  [slab_pair_ranges] is that computation on byte offsets; the symbol-level
   [slab_pair] of Model/Slab.v succeeds exactly when it does, with the same physical indices. *)
From Coq Require Import NArith List Bool Arith Lia.
From RQ Require Import Base.Outcome Base.Ints Model.Slab.
Import ListNotations.
Open Scope N_scope.

(* ((dest offset, dest width), (src offset, src width)) in bytes *)
Definition slab_pair_ranges (s : slab) (dest src : N) : outcome ((N * N) * (N * N)) :=
  match phys s dest with
  | Panic c => Panic c
  | Ok pd =>
      match phys s src with
      | Panic c => Panic c
      | Ok ps =>
          if pd =? ps then Panic PAssert
          else if negb (Nat.ltb (N.to_nat pd) (slab_count s)) then Panic PAssert
          else if negb (Nat.ltb (N.to_nat ps) (slab_count s)) then Panic PAssert
          else let ss := N.of_nat (sl_ss s) in Ok ((pd * ss, ss), (ps * ss, ss))
      end
  end.

(* total size of the storage in bytes *)
Definition slab_bytes (s : slab) : N := N.of_nat (slab_count s) * N.of_nat (sl_ss s).

Lemma pair_ranges_safe s dest src o1 w1 o2 w2 :
  slab_pair_ranges s dest src = Ok ((o1, w1), (o2, w2)) ->
  w1 = N.of_nat (sl_ss s) /\ w2 = N.of_nat (sl_ss s) /\
  o1 + w1 <= slab_bytes s /\ o2 + w2 <= slab_bytes s /\
  (o1 + w1 <= o2 \/ o2 + w2 <= o1).
Proof.
  unfold slab_pair_ranges, slab_bytes.
  destruct (phys s dest) as [pd|c]; [|discriminate].
  destruct (phys s src) as [ps|c]; [|discriminate].
  destruct (pd =? ps) eqn:E; [discriminate|].
  destruct (Nat.ltb (N.to_nat pd) (slab_count s)) eqn:E1; cbn [negb]; [|discriminate].
  destruct (Nat.ltb (N.to_nat ps) (slab_count s)) eqn:E2; cbn [negb]; [|discriminate].
  intros H. injection H as <- <- <- <-.
  apply N.eqb_neq in E. apply Nat.ltb_lt in E1. apply Nat.ltb_lt in E2.
  set (ss := N.of_nat (sl_ss s)). set (n := N.of_nat (slab_count s)).
  assert (H1 : pd < n) by (unfold n; lia).
  assert (H2 : ps < n) by (unfold n; lia).
  repeat split; try reflexivity.
  - assert ((pd + 1) * ss <= n * ss) by (apply N.mul_le_mono_r; lia). lia.
  - assert ((ps + 1) * ss <= n * ss) by (apply N.mul_le_mono_r; lia). lia.
  - destruct (N.lt_ge_cases pd ps) as [L|G].
    + left. assert ((pd + 1) * ss <= ps * ss) by (apply N.mul_le_mono_r; lia). lia.
    + right. assert ((ps + 1) * ss <= pd * ss) by (apply N.mul_le_mono_r; lia). lia.
Qed.

(* the symbol-level model used everywhere else takes the same decisions *)
Lemma pair_ranges_agree s dest src :
  (forall sym, In sym (sl_data s) -> length sym = sl_ss s) ->
  match slab_pair s dest src, slab_pair_ranges s dest src with
  | Ok (pd, d, v), Ok ((o1, w1), (o2, _)) =>
      o1 = pd * N.of_nat (sl_ss s) /\ N.of_nat (length d) = w1 /\ N.of_nat (length v) = w1 /\
      exists ps, o2 = ps * N.of_nat (sl_ss s) /\ nth_ok (sl_data s) (N.to_nat ps) = Ok v /\
                 nth_ok (sl_data s) (N.to_nat pd) = Ok d
  | Panic _, Panic _ => True
  | _, _ => False
  end.
Proof.
  intros Hwf. unfold slab_pair, slab_pair_ranges. cbn [obind].
  destruct (phys s dest) as [pd|c]; cbn [obind]; [|exact I].
  destruct (phys s src) as [ps|c]; cbn [obind]; [|exact I].
  destruct (pd =? ps); [exact I|].
  destruct (Nat.ltb (N.to_nat pd) (slab_count s)) eqn:E1; cbn [negb]; [|exact I].
  destruct (Nat.ltb (N.to_nat ps) (slab_count s)) eqn:E2; cbn [negb]; [|exact I].
  apply Nat.ltb_lt in E1. apply Nat.ltb_lt in E2. unfold slab_count in *.
  destruct (nth_ok (sl_data s) (N.to_nat pd)) as [d|c] eqn:Ed.
  2:{ exfalso. unfold nth_ok in Ed. destruct (nth_error (sl_data s) (N.to_nat pd)) eqn:En; [discriminate|].
      apply nth_error_None in En. lia. }
  cbn [obind].
  destruct (nth_ok (sl_data s) (N.to_nat ps)) as [v|c] eqn:Ev.
  2:{ exfalso. unfold nth_ok in Ev. destruct (nth_error (sl_data s) (N.to_nat ps)) eqn:En; [discriminate|].
      apply nth_error_None in En. lia. }
  cbn [obind].
  assert (Hd : length d = sl_ss s).
  { apply Hwf. unfold nth_ok in Ed. destruct (nth_error (sl_data s) (N.to_nat pd)) eqn:En; [|discriminate].
    injection Ed as <-. eapply nth_error_In. exact En. }
  assert (Hv : length v = sl_ss s).
  { apply Hwf. unfold nth_ok in Ev. destruct (nth_error (sl_data s) (N.to_nat ps)) eqn:En; [|discriminate].
    injection Ev as <-. eapply nth_error_In. exact En. }
  rewrite Hd, Hv. split; [reflexivity|]. split; [reflexivity|]. split; [reflexivity|].
  exists ps. split; [reflexivity|]. split; [exact Ev | exact Ed].
Qed.
