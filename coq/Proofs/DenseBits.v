(* Primitive facts used by the dense-matrix proofs: vector access, bit masks, popcount, and
   counting / filtering over [seq]. *)
From Coq Require Import NArith List Bool Lia Arith.
From RQ Require Import Base.Outcome Base.Ints Base.ListX Spec.BitMatrix Model.DenseMatrix.
Import ListNotations.
Open Scope N_scope.

(* ---------------- vectors ---------------- *)

Definition eword (els : list N) (p : N) : N := nth (N.to_nat p) els 0.

Lemma upd_length {A} (l : list A) i v : length (upd l i v) = length l.
Proof. revert i; induction l as [|x t IH]; intros [|i]; cbn; auto. Qed.

Lemma nth_upd {A} (l : list A) i k v d :
  (i < length l)%nat -> nth k (upd l i v) d = if Nat.eqb k i then v else nth k l d.
Proof.
  revert i k; induction l as [|x t IH]; intros i k H; cbn in H; [lia|].
  destruct i as [|i]; destruct k as [|k]; cbn; auto.
  apply IH. lia.
Qed.

Lemma vget_ok l p : p < N.of_nat (length l) -> vget l p = Ok (eword l p).
Proof.
  intros H. unfold vget, eword. apply N.ltb_lt in H. rewrite H. apply N.ltb_lt in H.
  unfold nth_ok. rewrite (nth_error_nth' l (N.to_nat p) 0) by lia. reflexivity.
Qed.

Lemma vget_panic l p : N.of_nat (length l) <= p -> vget l p = Panic PIndex.
Proof. intros H. unfold vget. apply N.ltb_ge in H. rewrite H. reflexivity. Qed.

Lemma vset_ok l p x : p < N.of_nat (length l) -> vset l p x = Ok (upd l (N.to_nat p) x).
Proof. intros H. unfold vset. apply N.ltb_lt in H. rewrite H. reflexivity. Qed.

Lemma eword_upd l p x q : p < N.of_nat (length l) ->
  eword (upd l (N.to_nat p) x) q = if q =? p then x else eword l q.
Proof.
  intros H. unfold eword. rewrite nth_upd by lia.
  destruct (q =? p) eqn:E.
  - apply N.eqb_eq in E. subst. rewrite Nat.eqb_refl. reflexivity.
  - apply N.eqb_neq in E. destruct (Nat.eqb (N.to_nat q) (N.to_nat p)) eqn:E2; [|reflexivity].
    apply Nat.eqb_eq in E2. apply N2Nat.inj in E2. contradiction.
Qed.

Lemma Forall_upd {A} (P : A -> Prop) l i v : Forall P l -> P v -> Forall P (upd l i v).
Proof.
  intros H Hv. revert i. induction H as [|x t Hx Ht IH]; intros [|i]; cbn; constructor; auto.
Qed.

Lemma Forall_eword (P : N -> Prop) l p : Forall P l -> P 0 -> P (eword l p).
Proof.
  intros H H0. unfold eword. destruct (Nat.lt_ge_cases (N.to_nat p) (length l)) as [L|L].
  - rewrite Forall_forall in H. apply H. apply nth_In. exact L.
  - rewrite nth_overflow by lia. exact H0.
Qed.

(* ---------------- words and masks ---------------- *)

Lemma lt_pow2_bits x n : x < 2 ^ n <-> (forall k, n <= k -> N.testbit x k = false).
Proof.
  split.
  - intros H k Hk. rewrite <- (N.mod_small x (2 ^ n)) by exact H. apply N.mod_pow2_bits_high. exact Hk.
  - intros H. assert (E : x mod 2 ^ n = x).
    { apply N.bits_inj. intros k. destruct (N.lt_ge_cases k n) as [L|L].
      - apply N.mod_pow2_bits_low. exact L.
      - rewrite N.mod_pow2_bits_high by exact L. symmetry. apply H. exact L. }
    rewrite <- E. apply N.mod_lt. apply N.pow_nonzero. discriminate.
Qed.

Lemma ones_testbit n k : N.testbit (N.ones n) k = (k <? n).
Proof.
  destruct (k <? n) eqn:E.
  - apply N.ltb_lt in E. apply N.ones_spec_low. exact E.
  - apply N.ltb_ge in E. apply N.ones_spec_high. exact E.
Qed.

Lemma select_mask_testbit b k : N.testbit (select_mask b) k = (b =? k).
Proof. unfold select_mask. rewrite N.shiftl_1_l. apply N.pow2_bits_eqb. Qed.

Lemma not64_testbit x k : N.testbit (not64 x) k = (k <? 64) && negb (N.testbit x k).
Proof. unfold not64. rewrite N.ldiff_spec, ones_testbit. reflexivity. Qed.

Lemma right_mask_ones b : select_all_right_of_mask b = N.ones b.
Proof. unfold select_all_right_of_mask, select_mask, N.ones. rewrite N.sub_1_r. reflexivity. Qed.

Lemma right_mask_testbit b k : N.testbit (select_all_right_of_mask b) k = (k <? b).
Proof. rewrite right_mask_ones. apply ones_testbit. Qed.

Lemma left_mask_testbit b k :
  N.testbit (select_bit_and_all_left_mask b) k = (k <? 64) && (b <=? k).
Proof.
  unfold select_bit_and_all_left_mask. rewrite not64_testbit, right_mask_testbit.
  f_equal. rewrite N.leb_antisym. reflexivity.
Qed.

Lemma select_mask_lt b : b < 64 -> select_mask b < 2 ^ 64.
Proof.
  intros H. apply lt_pow2_bits. intros k Hk. rewrite select_mask_testbit.
  apply N.eqb_neq. lia.
Qed.

Lemma lor_lt64 x y : x < 2 ^ 64 -> y < 2 ^ 64 -> N.lor x y < 2 ^ 64.
Proof.
  intros Hx Hy. rewrite lt_pow2_bits in *. intros k Hk.
  rewrite N.lor_spec, Hx, Hy by exact Hk. reflexivity.
Qed.
Lemma lxor_lt64 x y : x < 2 ^ 64 -> y < 2 ^ 64 -> N.lxor x y < 2 ^ 64.
Proof.
  intros Hx Hy. rewrite lt_pow2_bits in *. intros k Hk.
  rewrite N.lxor_spec, Hx, Hy by exact Hk. reflexivity.
Qed.
Lemma land_lt64_l x y : x < 2 ^ 64 -> N.land x y < 2 ^ 64.
Proof.
  intros Hx. rewrite lt_pow2_bits in *. intros k Hk.
  rewrite N.land_spec, Hx by exact Hk. reflexivity.
Qed.

(* the test `word & select_mask(bit) == 0` reads bit `bit` *)
Lemma land_mask_eqb x b : (N.land x (select_mask b) =? 0) = negb (N.testbit x b).
Proof.
  destruct (N.testbit x b) eqn:T; cbn [negb].
  - apply N.eqb_neq. intros E.
    assert (F : N.testbit (N.land x (select_mask b)) b = false) by (rewrite E; apply N.bits_0).
    rewrite N.land_spec, T, select_mask_testbit, N.eqb_refl in F. discriminate.
  - apply N.eqb_eq. apply N.bits_inj. intros k. rewrite N.land_spec, select_mask_testbit, N.bits_0.
    destruct (b =? k) eqn:E; [apply N.eqb_eq in E; subst; rewrite T; reflexivity | apply andb_false_r].
Qed.

Lemma set_bit_testbit x b k : N.testbit (set_bit x b) k = N.testbit x k || (b =? k).
Proof. unfold set_bit. rewrite N.lor_spec, select_mask_testbit. reflexivity. Qed.

Lemma clear_bit_testbit x b k : x < 2 ^ 64 ->
  N.testbit (clear_bit x b) k = N.testbit x k && negb (b =? k).
Proof.
  intros Hx. unfold clear_bit. rewrite N.land_spec, not64_testbit, select_mask_testbit.
  destruct (k <? 64) eqn:E; [reflexivity|].
  apply N.ltb_ge in E. rewrite (proj1 (lt_pow2_bits x 64) Hx k E). reflexivity.
Qed.

(* ---------------- counting over seq ---------------- *)

Definition cnt (f : nat -> bool) (s n : nat) : nat := length (filter f (seq s n)).

Lemma cnt_app f s n1 n2 : cnt f s (n1 + n2) = (cnt f s n1 + cnt f (s + n1) n2)%nat.
Proof. unfold cnt. rewrite seq_app, filter_app, app_length. reflexivity. Qed.

Lemma filter_ext_in' {A} (f g : A -> bool) l :
  (forall x, In x l -> f x = g x) -> filter f l = filter g l.
Proof.
  induction l as [|x t IH]; intros H; cbn; [reflexivity|].
  rewrite (H x) by (left; reflexivity). rewrite IH by (intros y Hy; apply H; right; exact Hy).
  reflexivity.
Qed.

Lemma cnt_ext f g s n : (forall k, (s <= k < s + n)%nat -> f k = g k) -> cnt f s n = cnt g s n.
Proof.
  intros H. unfold cnt. f_equal. apply filter_ext_in'. intros x Hx. apply in_seq in Hx. apply H. lia.
Qed.

Lemma cnt_false f s n : (forall k, (s <= k < s + n)%nat -> f k = false) -> cnt f s n = 0%nat.
Proof.
  intros H. rewrite (cnt_ext f (fun _ => false)) by exact H.
  unfold cnt. induction (seq s n); cbn; auto.
Qed.

Lemma cnt_shift f s n d : cnt f (s + d) n = cnt (fun k => f (k + d)%nat) s n.
Proof.
  unfold cnt. revert s. induction n as [|n IH]; intros s; cbn [seq filter]; [reflexivity|].
  change (S (s + d)) with (S s + d)%nat.
  destruct (f (s + d)%nat); cbn [length]; rewrite IH; reflexivity.
Qed.

(* a window [a, b) of [0, n) *)
Lemma cnt_window f a b n : (a <= b)%nat -> (b <= n)%nat ->
  cnt (fun k => f k && (Nat.leb a k && Nat.ltb k b)) 0 n = cnt f a (b - a).
Proof.
  intros Hab Hbn.
  replace n with (a + ((b - a) + (n - b)))%nat by lia.
  rewrite cnt_app, cnt_app. cbn [Nat.add].
  rewrite cnt_false, (cnt_false _ (a + (b - a))).
  - rewrite Nat.add_0_r. cbn [Nat.add]. apply cnt_ext. intros k Hk.
    replace (Nat.leb a k) with true by (symmetry; apply Nat.leb_le; lia).
    replace (Nat.ltb k b) with true by (symmetry; apply Nat.ltb_lt; lia).
    apply andb_true_r.
  - intros k Hk. replace (Nat.ltb k b) with false by (symmetry; apply Nat.ltb_ge; lia).
    rewrite andb_false_r. apply andb_false_r.
  - intros k Hk. replace (Nat.leb a k) with false by (symmetry; apply Nat.leb_gt; lia).
    apply andb_false_r.
Qed.

(* ---------------- popcount ---------------- *)

Lemma popcount_div2 x : popcount x = b2n (N.testbit x 0) + popcount (N.div2 x).
Proof.
  destruct x as [|[p|p|]]; cbn [popcount N.div2 pop_pos N.testbit Pos.testbit b2n]; try reflexivity.
  all: try lia.
Qed.

Lemma filter_map_length {A B} (g : A -> B) (f : B -> bool) l :
  length (filter f (map g l)) = length (filter (fun x => f (g x)) l).
Proof. induction l as [|x t IH]; cbn; [reflexivity|]. destruct (f (g x)); cbn; rewrite IH; reflexivity. Qed.

(* u64::count_ones counts the set bits *)
Lemma popcount_spec n x : x < 2 ^ N.of_nat n ->
  popcount x = N.of_nat (cnt (fun k => N.testbit x (N.of_nat k)) 0 n).
Proof.
  revert x. induction n as [|n IH]; intros x Hx.
  - cbn in Hx. assert (x = 0) by lia. subst. reflexivity.
  - rewrite popcount_div2. unfold cnt. rewrite <- cons_seq, <- seq_shift. cbn [filter].
    assert (Hd : N.div2 x < 2 ^ N.of_nat n).
    { rewrite N.div2_div. apply N.div_lt_upper_bound; [discriminate|].
      rewrite Nat2N.inj_succ, N.pow_succ_r' in Hx. exact Hx. }
    rewrite (IH _ Hd). unfold cnt.
    change (N.of_nat 0) with 0.
    assert (E : length (filter (fun k => N.testbit x (N.of_nat k)) (map S (seq 0 n))) =
                length (filter (fun k => N.testbit (N.div2 x) (N.of_nat k)) (seq 0 n))).
    { rewrite filter_map_length. f_equal. apply filter_ext_in'. intros k _.
      rewrite Nat2N.inj_succ. apply N.testbit_succ_r_div2. lia. }
    destruct (N.testbit x 0); cbn [b2n length]; rewrite E; lia.
Qed.

(* popcount lemma: count_ones over a masked word = number of set bits in the selected range *)
Lemma popcount_masked x a b : x < 2 ^ 64 -> a <= b -> b <= 64 ->
  popcount (N.land x (N.land (select_bit_and_all_left_mask a) (select_all_right_of_mask b))) =
  N.of_nat (cnt (fun k => N.testbit x (N.of_nat k)) (N.to_nat a) (N.to_nat b - N.to_nat a)).
Proof.
  intros Hx Hab Hb.
  rewrite (popcount_spec 64) by (apply land_lt64_l; exact Hx).
  f_equal. rewrite <- (cnt_window _ (N.to_nat a) (N.to_nat b) 64) by lia.
  apply cnt_ext. intros k Hk.
  rewrite !N.land_spec, left_mask_testbit, right_mask_testbit. f_equal.
  replace (N.of_nat k <? 64) with true by (symmetry; apply N.ltb_lt; lia).
  cbn [andb]. f_equal.
  - destruct (a <=? N.of_nat k) eqn:E; symmetry.
    + apply N.leb_le in E. apply Nat.leb_le. lia.
    + apply N.leb_gt in E. apply Nat.leb_gt. lia.
  - destruct (N.of_nat k <? b) eqn:E; symmetry.
    + apply N.ltb_lt in E. apply Nat.ltb_lt. lia.
    + apply N.ltb_ge in E. apply Nat.ltb_ge. lia.
Qed.

Lemma popcount_left x a : x < 2 ^ 64 -> a <= 64 ->
  popcount (N.land x (select_bit_and_all_left_mask a)) =
  N.of_nat (cnt (fun k => N.testbit x (N.of_nat k)) (N.to_nat a) (64 - N.to_nat a)).
Proof.
  intros Hx Ha.
  rewrite (popcount_spec 64) by (apply land_lt64_l; exact Hx).
  f_equal. rewrite <- (cnt_window _ (N.to_nat a) 64 64) by lia.
  apply cnt_ext. intros k Hk.
  rewrite !N.land_spec, left_mask_testbit. f_equal.
  replace (N.of_nat k <? 64) with true by (symmetry; apply N.ltb_lt; lia).
  replace (Nat.ltb k 64) with true by (symmetry; apply Nat.ltb_lt; lia).
  rewrite andb_true_r. cbn [andb].
  destruct (a <=? N.of_nat k) eqn:E; symmetry.
  + apply N.leb_le in E. apply Nat.leb_le. lia.
  + apply N.leb_gt in E. apply Nat.leb_gt. lia.
Qed.

Lemma popcount_right x b : x < 2 ^ 64 -> b <= 64 ->
  popcount (N.land x (select_all_right_of_mask b)) =
  N.of_nat (cnt (fun k => N.testbit x (N.of_nat k)) 0 (N.to_nat b)).
Proof.
  intros Hx Hb.
  rewrite (popcount_spec 64) by (apply land_lt64_l; exact Hx).
  f_equal. rewrite <- (Nat.sub_0_r (N.to_nat b)). rewrite <- (cnt_window _ 0 (N.to_nat b) 64) by lia.
  apply cnt_ext. intros k Hk.
  rewrite !N.land_spec, right_mask_testbit. f_equal. cbn [Nat.leb andb].
  destruct (N.of_nat k <? b) eqn:E; symmetry.
  + apply N.ltb_lt in E. apply Nat.ltb_lt. lia.
  + apply N.ltb_ge in E. apply Nat.ltb_ge. lia.
Qed.

Lemma popcount_full x : x < 2 ^ 64 ->
  popcount x = N.of_nat (cnt (fun k => N.testbit x (N.of_nat k)) 0 64).
Proof. intros Hx. apply (popcount_spec 64). exact Hx. Qed.

(* ---------------- ranges ---------------- *)

Lemma range_from_length a b : length (range_from a b) = N.to_nat (b - a).
Proof. unfold range_from. rewrite map_length, seq_length. reflexivity. Qed.

Lemma range_from_nil a b : b <= a -> range_from a b = [].
Proof. intros H. unfold range_from. replace (b - a) with 0 by lia. reflexivity. Qed.

Lemma range_from_cons a b : a < b -> range_from a b = a :: range_from (a + 1) b.
Proof.
  intros H. unfold range_from.
  replace (N.to_nat (b - a)) with (S (N.to_nat (b - (a + 1)))) by lia.
  rewrite <- cons_seq, <- seq_shift. cbn [map]. rewrite map_map. f_equal.
  - lia.
  - apply map_ext. intros k. lia.
Qed.

Lemma range_from_snoc a b : a <= b -> range_from a (b + 1) = range_from a b ++ [b].
Proof.
  intros H. unfold range_from.
  replace (N.to_nat (b + 1 - a)) with (N.to_nat (b - a) + 1)%nat by lia.
  rewrite seq_app, map_app. cbn [seq map Nat.add]. f_equal. f_equal. lia.
Qed.

Lemma range_from_nat_aux a s n :
  map (fun k => a + N.of_nat k) (seq s n) = map N.of_nat (seq (N.to_nat a + s) n).
Proof.
  revert s. induction n as [|n IH]; intros s; cbn [seq map]; [reflexivity|].
  f_equal; [lia|]. rewrite IH. rewrite Nat.add_succ_r. reflexivity.
Qed.

Lemma range_from_nat a b :
  range_from a b = map N.of_nat (seq (N.to_nat a) (N.to_nat b - N.to_nat a)).
Proof.
  unfold range_from. replace (N.to_nat (b - a)) with (N.to_nat b - N.to_nat a)%nat by lia.
  rewrite range_from_nat_aux, Nat.add_0_r. reflexivity.
Qed.
