(* first_phase_swap_columns_substep: a sequence of exchanges of columns of V that brings a one of
   row i to column i and the other r-1 ones of the row to the last r-1 columns of V. *)
From Coq Require Import NArith List Bool Lia Arith.
From RQ Require Import Base.Outcome Base.Ints Base.ListX Model.Octet Model.CMatrix Model.Slab
  Spec.Linear Proofs.OutcomeLemmas Model.PiSolver
  Proofs.PiSolverBase Proofs.PiSolverStruct Proofs.PiSolverOps Proofs.PiSolverG Proofs.PiSolverInvDefs.
Import ListNotations.
Open Scope N_scope.

(* ---------- counting the ones of a function N -> N over a range ---------- *)
Definition b1 (x : N) : N := if x =? 1 then 1 else 0.

Fixpoint ones (f : N -> N) (a : N) (n : nat) : N :=
  match n with O => 0 | S k => b1 (f a) + ones f (a + 1) k end.

Definition onesR (f : N -> N) (a b : N) : N := ones f a (N.to_nat (b - a)).

Definition zo (a : N) (f : N -> N) : N -> N := fun j => if j =? a then 0 else f j.

Lemma b1_le x : b1 x <= 1.
Proof. unfold b1. destruct (x =? 1); lia. Qed.

Lemma ones_ext f g : forall n a, (forall j, a <= j < a + N.of_nat n -> f j = g j) -> ones f a n = ones g a n.
Proof.
  induction n as [|n IH]; intros a H; cbn [ones]; [reflexivity|].
  rewrite (H a) by lia. rewrite (IH (a + 1)); [reflexivity|]. intros j Hj. apply H. lia.
Qed.

Lemma ones_app f : forall n1 n2 a, ones f a (n1 + n2) = ones f a n1 + ones f (a + N.of_nat n1) n2.
Proof.
  induction n1 as [|n1 IH]; intros n2 a; cbn [ones plus].
  - replace (a + N.of_nat 0) with a by lia. lia.
  - rewrite IH. replace (a + 1 + N.of_nat n1) with (a + N.of_nat (S n1)) by lia. lia.
Qed.

Lemma ones_le f : forall n a, ones f a n <= N.of_nat n.
Proof.
  induction n as [|n IH]; intros a; cbn [ones]; [lia|].
  pose proof (IH (a + 1)). pose proof (b1_le (f a)). lia.
Qed.

Lemma ones_zero f : forall n a, (forall j, a <= j < a + N.of_nat n -> f j <> 1) -> ones f a n = 0.
Proof.
  induction n as [|n IH]; intros a H; cbn [ones]; [reflexivity|].
  rewrite IH by (intros j Hj; apply H; lia).
  assert (f a <> 1) as Hn by (apply H; lia). unfold b1. apply N.eqb_neq in Hn. rewrite Hn. reflexivity.
Qed.

Lemma ones_zero_inv f : forall n a, ones f a n = 0 -> forall j, a <= j < a + N.of_nat n -> f j <> 1.
Proof.
  induction n as [|n IH]; intros a H j Hj; cbn [ones] in H; [lia|].
  destruct (N.eq_dec j a) as [->|Hne].
  - unfold b1 in H. destruct (N.eqb_spec (f a) 1); [lia | assumption].
  - apply (IH (a + 1)); lia.
Qed.

Lemma ones_full f : forall n a, (forall j, a <= j < a + N.of_nat n -> f j = 1) -> ones f a n = N.of_nat n.
Proof.
  induction n as [|n IH]; intros a H; cbn [ones]; [reflexivity|].
  rewrite IH by (intros j Hj; apply H; lia). rewrite (H a) by lia. change (b1 1) with 1. lia.
Qed.

Lemma ones_zo f x : forall n a, a <= x < a + N.of_nat n -> ones f a n = ones (zo x f) a n + b1 (f x).
Proof.
  induction n as [|n IH]; intros a H; cbn [ones]; [lia|].
  destruct (N.eq_dec a x) as [->|Hne].
  - rewrite (ones_ext (zo x f) f n (x + 1)).
    + unfold zo at 1. rewrite N.eqb_refl. change (b1 0) with 0. lia.
    + intros j Hj. unfold zo. destruct (N.eqb_spec j x); [lia | reflexivity].
  - rewrite (IH (a + 1)) by lia. unfold zo at 2. destruct (N.eqb_spec a x); [contradiction|]. lia.
Qed.

(* range versions *)
Lemma onesR_nil f a b : b <= a -> onesR f a b = 0.
Proof. intros H. unfold onesR. replace (b - a) with 0 by lia. reflexivity. Qed.

Lemma onesR_split f a b c : a <= b <= c -> onesR f a c = onesR f a b + onesR f b c.
Proof.
  intros H. unfold onesR. replace (N.to_nat (c - a)) with (N.to_nat (b - a) + N.to_nat (c - b))%nat by lia.
  rewrite ones_app. f_equal. f_equal. lia.
Qed.

Lemma onesR_one f a : onesR f a (a + 1) = b1 (f a).
Proof. unfold onesR. replace (a + 1 - a) with 1 by lia. change (N.to_nat 1) with 1%nat. cbn [ones]. lia. Qed.

Lemma onesR_snoc f a b : a <= b -> onesR f a (b + 1) = onesR f a b + b1 (f b).
Proof. intros H. rewrite (onesR_split f a b (b + 1)) by lia. rewrite onesR_one. reflexivity. Qed.

Lemma onesR_ext f g a b : (forall j, a <= j < b -> f j = g j) -> onesR f a b = onesR g a b.
Proof. intros H. unfold onesR. apply ones_ext. intros j Hj. apply H. lia. Qed.

Lemma onesR_le f a b : onesR f a b <= b - a.
Proof. unfold onesR. pose proof (ones_le f (N.to_nat (b - a)) a). lia. Qed.

Lemma onesR_zero f a b : (forall j, a <= j < b -> f j <> 1) -> onesR f a b = 0.
Proof. intros H. unfold onesR. apply ones_zero. intros j Hj. apply H. lia. Qed.

Lemma onesR_zero_inv f a b : onesR f a b = 0 -> forall j, a <= j < b -> f j <> 1.
Proof. unfold onesR. intros H j Hj. apply (ones_zero_inv f _ a H). lia. Qed.

Lemma onesR_full f a b : (forall j, a <= j < b -> f j = 1) -> onesR f a b = b - a.
Proof. intros H. unfold onesR. rewrite ones_full; [lia|]. intros j Hj. apply H. lia. Qed.

Lemma onesR_zo f x a b : a <= x < b -> onesR f a b = onesR (zo x f) a b + b1 (f x).
Proof. intros H. unfold onesR. apply ones_zo. lia. Qed.

Lemma onesR_swap f x y a b : a <= x < b -> a <= y < b ->
  onesR (fun j => f (trN x y j)) a b = onesR f a b.
Proof.
  intros Hx Hy. destruct (N.eq_dec x y) as [->|Hne].
  - apply onesR_ext. intros j _. unfold trN. destruct (N.eqb_spec j y); [subst; reflexivity | reflexivity].
  - set (g := fun j => f (trN x y j)).
    rewrite (onesR_zo g x a b Hx), (onesR_zo (zo x g) y a b Hy).
    rewrite (onesR_zo f x a b Hx), (onesR_zo (zo x f) y a b Hy).
    rewrite (onesR_ext (zo y (zo x g)) (zo y (zo x f)) a b).
    + unfold zo at 3 6. destruct (N.eqb_spec y x); [congruence|]. unfold g. rewrite trN_l, trN_r. lia.
    + intros j _. unfold zo, g. destruct (N.eqb_spec j y); [reflexivity|]. destruct (N.eqb_spec j x); [reflexivity|].
      rewrite trN_other by assumption. reflexivity.
Qed.

(* exactly one one *)
Lemma onesR_unique f a b x : onesR f a b = 1 -> (forall j, f j = 0 \/ f j = 1) -> a <= x < b -> f x = 1 ->
  forall j, a <= j < b -> j <> x -> f j = 0.
Proof.
  intros H Hb Hx Hfx j Hj Hne. rewrite (onesR_zo f x a b Hx), Hfx in H. change (b1 1) with 1 in H.
  assert (Z : onesR (zo x f) a b = 0) by lia.
  pose proof (onesR_zero_inv _ _ _ Z j Hj) as Hz. unfold zo in Hz. destruct (N.eqb_spec j x); [contradiction|].
  destruct (Hb j); [assumption | contradiction].
Qed.

(* ---------- cnt as onesR ---------- *)
Definition nthf (row : list N) (j : N) : N := nth (N.to_nat j) row 0.

Lemma count1_cons x l : count1 (x :: l) = b1 x + count1 l.
Proof. unfold count1, b1. cbn [filter]. destruct (x =? 1); unfold lenN; cbn [length]; lia. Qed.

Lemma skipn_cons_nth {A} (d : A) : forall (l : list A) k, (k < length l)%nat -> skipn k l = nth k l d :: skipn (S k) l.
Proof.
  induction l as [|h t IH]; intros k H; cbn [length] in H; [lia|].
  destruct k as [|k]; [reflexivity|]. cbn [skipn nth]. rewrite (IH k) by lia. reflexivity.
Qed.

Lemma count1_window row : forall n k, (k + n <= length row)%nat ->
  count1 (firstn n (skipn k row)) = ones (nthf row) (N.of_nat k) n.
Proof.
  induction n as [|n IH]; intros k H; [reflexivity|].
  rewrite (skipn_cons_nth 0) by lia. cbn [firstn ones]. rewrite count1_cons, (IH (S k)) by lia.
  unfold nthf at 2. rewrite Nat2N.id. replace (N.of_nat (S k)) with (N.of_nat k + 1) by lia. reflexivity.
Qed.

Lemma cnt_onesR row s e : s <= e -> e <= lenN row -> cnt row s e = onesR (nthf row) s e.
Proof.
  intros H1 H2. unfold cnt, subl, onesR, lenN in *. rewrite count1_window by lia.
  rewrite N2Nat.id. reflexivity.
Qed.

Lemma bin_nthf row : bin_row row -> forall j, nthf row j = 0 \/ nthf row j = 1.
Proof.
  intros H j. unfold nthf. destruct (Nat.ltb_spec (N.to_nat j) (length row)) as [L|L].
  - unfold bin_row in H. rewrite Forall_forall in H. apply H. apply nth_In. exact L.
  - left. apply nth_overflow. exact L.
Qed.

(* ---------- the effect of one exchange on row i ---------- *)
Definition live (s : pstate) (j : N) : N := cell (ps_A s) (ps_i s) j.

Lemma usub_ok m a b : b <= a -> usub m a b = Ok (a - b).
Proof. intros H. unfold usub, sub_w. apply N.leb_le in H. rewrite H. reflexivity. Qed.

Lemma bm_get_cell A i j v : bm_get A i j = Ok v -> v = cell A i j.
Proof.
  unfold bm_get. intros H. oinvas H as row Er.
  destruct (getN_inv _ _ _ [] Er) as [_ ->]. destruct (getN_inv _ _ _ 0 H) as [_ ->]. reflexivity.
Qed.

Lemma bm_swap_cols_row A a b sr A' : bm_swap_cols A a b sr = Ok A' -> (N.to_nat sr < length A)%nat ->
  swapN (nth (N.to_nat sr) A []) a b = Ok (nth (N.to_nat sr) A' []).
Proof.
  unfold bm_swap_cols. intros H L. oinvas H as t Et. inversion H; subst A'. clear H.
  rewrite app_nth2 by (rewrite firstn_length; lia).
  rewrite firstn_length. replace (N.to_nat sr - Nat.min (N.to_nat sr) (length A))%nat with 0%nat by lia.
  pose proof (omapM_nth _ _ _ [] [] 0%nat Et) as Hn.
  rewrite nth_skipn' in Hn. replace (N.to_nat sr + 0)%nat with (N.to_nat sr) in Hn by lia.
  apply Hn. rewrite skipn_length. lia.
Qed.

Lemma onX_frame m s f s' : onX m s f = Ok s' ->
  ps_A s' = ps_A s /\ ps_i s' = ps_i s /\ ps_W s' = ps_W s /\ ps_u s' = ps_u s.
Proof.
  unfold onX. destruct m; intros H.
  - inversion H; subst. auto.
  - oinvas H as X EX. inversion H; subst. cbn. auto.
Qed.

Lemma ps_swap_cols_frame s a b sr s' : ps_swap_cols s a b sr = Ok s' ->
  bm_swap_cols (ps_A s) a b sr = Ok (ps_A s') /\ ps_i s' = ps_i s /\ ps_W s' = ps_W s /\ ps_u s' = ps_u s.
Proof.
  unfold ps_swap_cols. intros H. oinvas H as A' EA. oinvas H as h' Eh. oinvas H as c' Ec.
  inversion H; subst s'. cbn. auto.
Qed.

Lemma swap_cols_all_row m s st a b s1 st1 :
  swap_cols_all m s st a b = Ok (s1, st1) ->
  lenN (rowN (ps_A s) (ps_i s)) <> 0 ->
  ps_i s1 = ps_i s /\ ps_W s1 = ps_W s /\ ps_u s1 = ps_u s /\
  swapN (rowN (ps_A s) (ps_i s)) a b = Ok (rowN (ps_A s1) (ps_i s)).
Proof.
  unfold swap_cols_all. intros H Hne.
  oinvas H as s2 E2. oinvas H as st2 Est. oinvas H as s3 E3. inversion H; subst s3 st2. clear H.
  destruct (ps_swap_cols_frame _ _ _ _ _ E2) as [EA [Ei [EW Eu]]].
  destruct (onX_frame _ _ _ _ E3) as [EA' [Ei' [EW' Eu']]].
  repeat split; try congruence.
  rewrite EA'. unfold rowN. apply bm_swap_cols_row; [exact EA|].
  destruct (Nat.ltb_spec (N.to_nat (ps_i s)) (length (ps_A s))) as [L|L]; [exact L|].
  exfalso. apply Hne. unfold rowN. rewrite nth_overflow by exact L. reflexivity.
Qed.

Lemma bin_swapN l a b l' : bin_row l -> swapN l a b = Ok l' -> bin_row l'.
Proof. unfold bin_row. apply Forall_swapN. Qed.

(* everything we need about one exchange inside the window [i, ve) *)
Lemma swap_cols_all_live m s st a b s1 st1 ve :
  swap_cols_all m s st a b = Ok (s1, st1) ->
  lenN (rowN (ps_A s) (ps_i s)) = ps_W s -> ps_W s <> 0 -> bin_row (rowN (ps_A s) (ps_i s)) ->
  ps_i s <= a < ve -> ps_i s <= b < ve ->
  ps_i s1 = ps_i s /\ ps_W s1 = ps_W s /\ ps_u s1 = ps_u s /\
  lenN (rowN (ps_A s1) (ps_i s)) = ps_W s /\ bin_row (rowN (ps_A s1) (ps_i s)) /\
  (forall j, live s1 j = live s (trN a b j)) /\
  onesR (live s1) (ps_i s) ve = onesR (live s) (ps_i s) ve.
Proof.
  intros H Hlen HW Hbin Ha Hb.
  destruct (swap_cols_all_row _ _ _ _ _ _ _ H) as [Ei [EW [Eu Esw]]]; [congruence|].
  assert (Hl : forall j, live s1 j = live s (trN a b j)).
  { intros j. unfold live, cell. rewrite Ei. apply (swapN_cell _ _ _ _ 0 j Esw). }
  repeat split; try assumption.
  - destruct (swapN_lenN _ _ _ _ Esw) as [-> _]. exact Hlen.
  - eapply bin_swapN; eassumption.
  - rewrite (onesR_ext (live s1) (fun j => live s (trN a b j))) by (intros j _; apply Hl).
    apply onesR_swap; assumption.
Qed.

(* ---------- find_dest ---------- *)
Lemma find_dest_spec m A i : forall fuel d dest, fuel = S (N.to_nat d) ->
  find_dest m fuel A i d = Ok dest ->
  dest <= d /\ cell A i dest = 0 /\ forall j, dest < j <= d -> cell A i j <> 0.
Proof.
  induction fuel as [|k IH]; intros d dest Hf H; [discriminate|].
  cbn [find_dest] in H. oinvas H as v Ev. apply bm_get_cell in Ev.
  destruct (N.eqb_spec v 0) as [Hz|Hnz].
  - inversion H; subst dest. repeat split; [lia | congruence | intros j Hj; lia].
  - oinvas H as d' Ed. destruct (N.eq_dec d 0) as [->|Hd].
    + assert (k = 0%nat) by (cbn in Hf; lia). subst k. discriminate.
    + apply usub_inv in Ed; [|lia]. subst d'.
      destruct (IH (d - 1) dest) as [H1 [H2 H3]]; [lia | exact H |].
      repeat split; [lia | exact H2 |]. intros j Hj.
      destruct (N.eq_dec j d) as [->|Hjd]; [congruence | apply H3; lia].
Qed.

(* ---------- the snapshot of row i ---------- *)
Lemma combine_seqN_from (f : N -> N) : forall l n c0, length l = n ->
  (forall k, (k < n)%nat -> nth k l 0 = f (c0 + N.of_nat k)) ->
  combine (seqN_from n c0) l = map (fun j => (j, f j)) (seqN_from n c0).
Proof.
  induction l as [|x l IH]; intros n c0 Hn Hk; cbn [length] in Hn; subst n; [reflexivity|].
  cbn [seqN_from combine map]. f_equal.
  - f_equal. pose proof (Hk 0%nat) as H0. cbn [nth] in H0. rewrite H0 by lia. f_equal. lia.
  - apply IH; [reflexivity|]. intros k Hk'. pose proof (Hk (S k)) as H0. cbn [nth] in H0. rewrite H0 by lia. f_equal. lia.
Qed.

Lemma row_iter_snapshot A i s e it : bm_row_iter A i s e = Ok it -> s <= e -> e <= lenN (rowN A i) ->
  it = map (fun j => (j, nthf (rowN A i) j)) (seqN_from (N.to_nat (e - s)) s).
Proof.
  unfold bm_row_iter. intros H Hse Hlen. oinvas H as row Er.
  destruct (getN_inv _ _ _ [] Er) as [_ Erow]. fold (rowN A i) in Erow. subst row.
  destruct ((e <=? s) || (e <=? lenN (rowN A i))); [|discriminate]. inversion H; subst it. clear H.
  unfold seqN. apply combine_seqN_from.
  - apply subl_length. exact Hlen.
  - intros k Hk. rewrite subl_nth by exact Hk. unfold nthf. f_equal. lia.
Qed.

(* the first non-zero entry of a snapshot *)
Lemma filter_first (f : N -> N) : forall n c0 col v t,
  filter (fun p : N * N => negb (snd p =? 0)) (map (fun j => (j, f j)) (seqN_from n c0)) = (col, v) :: t ->
  c0 <= col < c0 + N.of_nat n /\ f col <> 0 /\ forall j, c0 <= j < col -> f j = 0.
Proof.
  induction n as [|n IH]; intros c0 col v t H; cbn [seqN_from map filter snd] in H; [discriminate|].
  destruct (N.eqb_spec (f c0) 0) as [Hz|Hnz]; cbn [negb] in H.
  - destruct (IH _ _ _ _ H) as [H1 [H2 H3]]. repeat split; [lia | lia | exact H2 |].
    intros j Hj. destruct (N.eq_dec j c0) as [->|Hne]; [exact Hz | apply H3; lia].
  - inversion H; subst. repeat split; [lia | lia | exact Hnz | intros j Hj; lia].
Qed.

(* ---------- the loop invariant ---------- *)
Section Loop.
Variables (i W u r : N) (f0 : N -> N).
Hypothesis HuW : u <= W.
Hypothesis HiV : i < W - u.
Hypothesis Hr1 : 1 <= r.
Hypothesis Hf0 : forall j, f0 j = 0 \/ f0 j = 1.
Hypothesis Hcnt0 : onesR f0 i (W - u) = r.

Local Notation ve := (W - u).
Local Notation lim := (W - u - (r - 1)).

Lemma r_le : r <= ve - i.
Proof. rewrite <- Hcnt0. apply onesR_le. Qed.

(* c0: the first column of the snapshot not yet processed *)
Record linv (c0 : N) (s : pstate) (rem : N) (ff : bool) : Prop := mkLinv {
  li_i : ps_i s = i;
  li_W : ps_W s = W;
  li_u : ps_u s = u;
  li_len : lenN (rowN (ps_A s) i) = W;
  li_bin : bin_row (rowN (ps_A s) i);
  li_snap : forall j, c0 <= j < lim -> live s j = f0 j;
  li_done : forall j, i < j < c0 -> j < lim -> live s j = 0;
  li_ff : ff = true <-> live s i = 1;
  li_rem : rem + onesR f0 i c0 = r;
  li_cnt : onesR (live s) i ve = r }.

Lemma live_bin c0 s rem ff : linv c0 s rem ff -> forall j, live s j = 0 \/ live s j = 1.
Proof.
  intros I j. unfold live, cell. rewrite (li_i _ _ _ _ I). apply (bin_nthf _ (li_bin _ _ _ _ I)).
Qed.

Lemma rem_pos c0 s rem ff : linv c0 s rem ff -> i <= c0 < ve -> f0 c0 = 1 ->
  1 <= rem /\ (rem - 1) + onesR f0 i (c0 + 1) = r.
Proof.
  intros I Hc Hv. pose proof (li_rem _ _ _ _ I) as Hr. pose proof r_le as Hrl.
  pose proof (onesR_split f0 i (c0 + 1) ve) as Hs. rewrite Hcnt0 in Hs.
  rewrite (onesR_snoc f0 i c0) in * by lia. rewrite Hv in *. change (b1 1) with 1 in *. lia.
Qed.

Lemma step_skip c0 s rem ff : linv c0 s rem ff -> i <= c0 -> f0 c0 = 0 -> linv (c0 + 1) s rem ff.
Proof.
  intros I Hc Hv. destruct I. constructor; try assumption.
  - intros j Hj. apply li_snap0. lia.
  - intros j Hj Hl. destruct (N.eq_dec j c0) as [->|Hne].
    + rewrite li_snap0 by lia. exact Hv.
    + apply li_done0; lia.
  - rewrite onesR_snoc by lia. rewrite Hv. change (b1 0) with 0. lia.
Qed.

Lemma step_tail c0 s rem ff : linv c0 s rem ff -> i <= c0 < ve -> f0 c0 = 1 -> lim <= c0 ->
  linv (c0 + 1) s (rem - 1) ff.
Proof.
  intros I Hc Hv Hl. destruct (rem_pos _ _ _ _ I Hc Hv) as [_ Hrem]. destruct I. constructor; try assumption.
  - intros j Hj. apply li_snap0. lia.
  - intros j Hj Hjl. apply li_done0; lia.
Qed.

Lemma step_first s rem ff : linv i s rem ff -> f0 i = 1 -> linv (i + 1) s (rem - 1) true.
Proof.
  intros I Hv. pose proof r_le as Hrl.
  destruct (rem_pos _ _ _ _ I (conj (N.le_refl i) HiV) Hv) as [_ Hrem]. destruct I. constructor; try assumption.
  - intros j Hj. apply li_snap0. lia.
  - intros j Hj Hjl. lia.
  - split; [intros _ | reflexivity]. rewrite li_snap0 by lia. exact Hv.
Qed.

Lemma step_swap m c0 s st rem ff dest s1 st1 : linv c0 s rem ff -> i < c0 < lim -> f0 c0 = 1 ->
  swap_cols_all m s st dest c0 = Ok (s1, st1) ->
  (dest = i /\ live s i = 0) \/ (lim <= dest < ve /\ live s dest = 0 /\ live s i = 1) ->
  i <= dest < ve /\ linv (c0 + 1) s1 (rem - 1) true.
Proof.
  intros I Hc Hv Hsw Hd. pose proof r_le as Hrl.
  assert (Hc' : i <= c0 < ve) by lia.
  destruct (rem_pos _ _ _ _ I Hc' Hv) as [_ Hrem].
  assert (Hdest : i <= dest < ve) by (destruct Hd as [[-> _]|[? _]]; lia).
  split; [exact Hdest|].
  destruct I.
  assert (Hlc : live s c0 = 1) by (rewrite li_snap0 by lia; exact Hv).
  assert (Hld : live s dest = 0) by (destruct Hd as [[-> ?]|[_ [? _]]]; assumption).
  destruct (swap_cols_all_live m s st dest c0 s1 st1 ve Hsw) as [Ei [EW [Eu [Elen [Ebin [Hl Hones]]]]]];
    try (rewrite li_i0); try assumption; try lia.
  rewrite li_i0 in *.
  constructor; try congruence.
  - intros j Hj. rewrite Hl, trN_other; [apply li_snap0; lia | | lia].
    destruct Hd as [[-> _]|[? _]]; lia.
  - intros j Hj Hjl. rewrite Hl. destruct (N.eq_dec j c0) as [->|Hne].
    + rewrite trN_r. exact Hld.
    + rewrite trN_other; [apply li_done0; lia | | exact Hne]. destruct Hd as [[-> _]|[? _]]; lia.
  - split; [intros _ | reflexivity]. rewrite Hl. destruct Hd as [[-> _]|[? [_ Hi1]]].
    + rewrite trN_l. exact Hlc.
    + rewrite trN_other by lia. exact Hi1.
Qed.

Lemma dest_in_tail m c0 s rem dest : linv c0 s rem true -> i < c0 < lim -> f0 c0 = 1 ->
  find_dest m (S (N.to_nat (ve - 1))) (ps_A s) i (ve - 1) = Ok dest ->
  lim <= dest < ve /\ live s dest = 0 /\ live s i = 1.
Proof.
  intros I Hc Hv Hfd. pose proof r_le as Hrl. pose proof (live_bin _ _ _ _ I) as Hb.
  destruct (find_dest_spec _ _ _ _ _ _ eq_refl Hfd) as [H1 [H2 H3]].
  destruct I. unfold live. rewrite li_i0.
  assert (Hi1 : live s i = 1) by (apply li_ff0; reflexivity).
  assert (Hlc : live s c0 = 1) by (rewrite li_snap0 by lia; exact Hv).
  unfold live in Hi1. rewrite li_i0 in Hi1.
  repeat split; [| lia | exact H2 | exact Hi1].
  destruct (N.le_gt_cases lim dest) as [L|L]; [exact L | exfalso].
  assert (Ht : onesR (live s) lim ve = ve - lim).
  { apply onesR_full. intros j Hj. destruct (Hb j) as [Z|O]; [|exact O].
    exfalso. apply (H3 j); [lia|]. unfold live in Z. rewrite li_i0 in Z. exact Z. }
  rewrite (onesR_split (live s) i (i + 1) ve), (onesR_split (live s) (i + 1) c0 ve),
    (onesR_split (live s) c0 (c0 + 1) ve), (onesR_split (live s) (c0 + 1) lim ve) in li_cnt0 by lia.
  rewrite !onesR_one, Ht, Hlc in li_cnt0. unfold live at 1 in li_cnt0. rewrite li_i0, Hi1 in li_cnt0.
  change (b1 1) with 1 in li_cnt0. lia.
Qed.

Definition inV (p : N * N) : Prop := (i <= fst p < ve) /\ (i <= snd p < ve).

Lemma loop_spec m : forall n c0 s st rem ff s' st' rem',
  c0 + N.of_nat n = ve -> i <= c0 -> linv c0 s rem ff ->
  swap_cols_loop m (map (fun j => (j, f0 j)) (seqN_from n c0)) r s st rem ff = Ok (s', st', rem') ->
  exists sw c1 ff', swaps_all m s st sw = Ok (s', st') /\ Forall inV sw /\ i <= c1 <= ve /\
    linv c1 s' rem' ff'.
Proof.
  pose proof r_le as Hrl.
  induction n as [|n IH]; intros c0 s st rem ff s' st' rem' Hn Hc I H.
  - cbn [seqN_from map swap_cols_loop] in H. inversion H; subst.
    exists [], c0, ff. split; [reflexivity|]. split; [constructor|]. split; [lia | exact I].
  - cbn [seqN_from map swap_cols_loop] in H. rewrite <- N.add_1_r in H.
    assert (Hc' : i <= c0 < ve) by lia.
    destruct (N.eqb_spec (f0 c0) 0) as [Hz|Hnz].
    { apply (IH (c0 + 1) s st rem ff); [lia | lia | apply step_skip; assumption | exact H]. }
    assert (Hv : f0 c0 = 1) by (destruct (Hf0 c0); [contradiction | assumption]).
    destruct (rem_pos _ _ _ _ I Hc' Hv) as [Hrem _].
    rewrite (li_W _ _ _ _ I), (li_u _ _ _ _ I), (li_i _ _ _ _ I) in H.
    rewrite (usub_ok m W u HuW) in H. cbn [obind] in H.
    rewrite (usub_ok m r 1 Hr1) in H. cbn [obind] in H.
    rewrite (usub_ok m ve (r - 1)) in H by lia. cbn [obind] in H.
    destruct (N.leb_spec lim c0) as [Hl|Hl].
    { rewrite (usub_ok m rem 1 Hrem) in H. cbn [obind] in H.
      apply (IH (c0 + 1) s st (rem - 1) ff); [lia | lia | apply step_tail; assumption | exact H]. }
    destruct (N.eqb_spec c0 i) as [->|Hci].
    { rewrite (usub_ok m rem 1 Hrem) in H. cbn [obind] in H.
      apply (IH (i + 1) s st (rem - 1) true); [lia | lia | apply (step_first _ _ ff); assumption | exact H]. }
    apply obind_ok in H. destruct H as [dest [Ed H]].
    apply obind_ok in H. destruct H as [[s1 st1] [Esw H]].
    rewrite (usub_ok m rem 1 Hrem) in H. cbn [obind] in H.
    assert (Hd : (dest = i /\ live s i = 0) \/ (lim <= dest < ve /\ live s dest = 0 /\ live s i = 1)).
    { destruct ff; cbn [negb] in Ed.
      - right. rewrite (usub_ok m ve 1) in Ed by lia. cbn [obind] in Ed.
        apply (dest_in_tail m c0 s rem dest I); [lia | exact Hv | exact Ed].
      - left. inversion Ed; subst dest. split; [reflexivity|].
        destruct (live_bin _ _ _ _ I i) as [Z|O]; [exact Z|].
        apply (li_ff _ _ _ _ I) in O. discriminate. }
    destruct (step_swap m c0 s st rem ff dest s1 st1 I) as [Hdest I1]; [lia | exact Hv | exact Esw | exact Hd |].
    assert (Hin : inV (dest, c0)) by (unfold inV; cbn [fst snd]; lia).
    destruct (N.eqb_spec (rem - 1) 0) as [Hr0|Hr0].
    + inversion H; subst s' st' rem'. exists [(dest, c0)], (c0 + 1), true.
      split; [cbn [swaps_all]; rewrite Esw; reflexivity|]. split; [repeat constructor; apply Hin|]. split; [lia | exact I1].
    + destruct (IH (c0 + 1) s1 st1 (rem - 1) true s' st' rem') as [sw [c1 [ff' [Hsw [Hall [Hc1 I']]]]]];
        [lia | lia | exact I1 | exact H |].
      exists ((dest, c0) :: sw), c1, ff'.
      split; [cbn [swaps_all]; rewrite Esw; exact Hsw|]. split; [constructor; assumption|]. split; [lia | exact I'].
Qed.

Lemma loop_finish c1 s ff : linv c1 s 0 ff -> i <= c1 <= ve ->
  live s i = 1 /\ forall j, i < j < lim -> live s j = 0.
Proof.
  intros I Hc. pose proof r_le as Hrl. pose proof (live_bin _ _ _ _ I) as Hb. destruct I.
  assert (Hz : onesR f0 c1 ve = 0).
  { pose proof (onesR_split f0 i c1 ve Hc). lia. }
  assert (HF : forall j, i < j < lim -> live s j = 0).
  { intros j Hj. destruct (N.lt_ge_cases j c1) as [L|L]; [apply li_done0; lia|].
    rewrite li_snap0 by lia. destruct (Hf0 j) as [Z|O]; [exact Z|].
    exfalso. apply (onesR_zero_inv _ _ _ Hz j); [lia | exact O]. }
  split; [|exact HF].
  rewrite (onesR_split (live s) i (i + 1) ve), (onesR_split (live s) (i + 1) lim ve) in li_cnt0 by lia.
  rewrite onesR_one in li_cnt0.
  rewrite (onesR_zero (live s) (i + 1) lim) in li_cnt0
    by (intros j Hj; rewrite HF by lia; discriminate).
  pose proof (onesR_le (live s) lim ve) as Hle.
  destruct (Hb i) as [Z|O]; [|exact O]. rewrite Z in li_cnt0. change (b1 0) with 0 in li_cnt0. lia.
Qed.

End Loop.

(* ---------- the substep ---------- *)
Lemma substep_spec m s st r s' st' :
  ps_u s <= ps_W s -> ps_i s < ps_W s - ps_u s -> 1 <= r ->
  lenN (rowN (ps_A s) (ps_i s)) = ps_W s ->
  bin_row (rowN (ps_A s) (ps_i s)) ->
  cnt (rowN (ps_A s) (ps_i s)) (ps_i s) (ps_W s - ps_u s) = r ->
  first_phase_swap_columns_substep m s st r = Ok (s', st') ->
  exists sw, swaps_all m s st sw = Ok (s', st') /\
    Forall (fun p => (ps_i s <= fst p < ps_W s - ps_u s) /\ (ps_i s <= snd p < ps_W s - ps_u s)) sw /\
    cell (ps_A s') (ps_i s) (ps_i s) = 1 /\
    (forall j, ps_i s < j < ps_W s - ps_u s - (r - 1) -> cell (ps_A s') (ps_i s) j = 0).
Proof.
  intros HuW HiV Hr1 Hlen Hbin Hcnt H.
  set (f0 := nthf (rowN (ps_A s) (ps_i s))).
  assert (Hf0 : forall j, f0 j = 0 \/ f0 j = 1) by (apply bin_nthf; exact Hbin).
  assert (Hcnt0 : onesR f0 (ps_i s) (ps_W s - ps_u s) = r).
  { unfold f0. rewrite <- cnt_onesR; [exact Hcnt | lia | lia]. }
  assert (Hlive : forall j, live s j = f0 j) by reflexivity.
  unfold first_phase_swap_columns_substep in H.
  rewrite (usub_ok m _ _ HuW) in H. cbn [obind] in H.
  oinvas H as it Eit. apply row_iter_snapshot in Eit; [| lia | lia]. fold f0 in Eit. subst it.
  destruct (N.eqb_spec r 1) as [->|Hr].
  - destruct (filter _ _) as [|[col v] t] eqn:Ef; [discriminate|].
    apply filter_first in Ef. destruct Ef as [Hcol [Hnz _]].
    assert (Hv : f0 col = 1) by (destruct (Hf0 col); [contradiction | assumption]).
    assert (HcV : ps_i s <= col < ps_W s - ps_u s) by lia.
    pose proof (onesR_unique f0 _ _ col Hcnt0 Hf0 HcV Hv) as Hu.
    destruct (swap_cols_all_live m s st (ps_i s) col s' st' (ps_W s - ps_u s) H)
      as [Ei [_ [_ [_ [_ [Hl _]]]]]]; try assumption; try lia.
    assert (Hc : forall j, cell (ps_A s') (ps_i s) j = f0 (trN (ps_i s) col j)).
    { intros j. rewrite <- Hlive, <- Hl. unfold live. rewrite Ei. reflexivity. }
    exists [(ps_i s, col)]. split; [cbn [swaps_all]; rewrite H; reflexivity|].
    split; [repeat constructor; cbn [fst snd]; lia|]. split.
    + rewrite Hc, trN_l. exact Hv.
    + intros j Hj. rewrite Hc. destruct (N.eq_dec j col) as [->|Hne].
      * rewrite trN_r. apply Hu; lia.
      * rewrite trN_other by lia. apply Hu; lia.
  - oinvas H as v Ev. apply bm_get_cell in Ev.
    oinvas H as [[s1 st1] rem1] El. oinvas H as uu Eas. apply assert_ok_inv in Eas.
    apply N.eqb_eq in Eas. subst rem1. inversion H; subst s1 st1. clear H.
    assert (I0 : linv (ps_i s) (ps_W s) (ps_u s) r f0 (ps_i s) s r (v =? 1)).
    { constructor; try reflexivity; try assumption.
      - intros j Hj _. lia.
      - subst v. fold (live s (ps_i s)). split; [apply N.eqb_eq | intros E; apply N.eqb_eq; exact E].
      - rewrite onesR_nil by lia. lia. }
    destruct (loop_spec (ps_i s) (ps_W s) (ps_u s) r f0 HuW HiV Hr1 Hf0 Hcnt0 m
                (N.to_nat (ps_W s - ps_u s - ps_i s)) (ps_i s) s st r (v =? 1) s' st' 0) as [sw [c1 [ff' [Hsw [Hall [Hc1 I']]]]]];
      [ | apply N.le_refl | exact I0 | exact El | ].
    { lia. }
    destruct (loop_finish _ _ _ _ _ HuW HiV Hr1 Hf0 Hcnt0 c1 s' ff' I' Hc1) as [F1 F2].
    unfold live in F1, F2. rewrite (li_i _ _ _ _ _ _ _ _ _ I') in F1, F2.
    exists sw. split; [exact Hsw|]. split; [exact Hall|]. split; [exact F1 | exact F2].
Qed.
