(* C04, LDPC part: the three loops of `set_ldpc` write exactly the LDPC relations of RFC 6330
   5.3.3.3 (Spec.Code.ldpc_entry) into rows 0..S-1 and leave every other entry untouched. *)
From Coq Require Import NArith ZArith List Bool Lia Arith ZifyBool ZifyN.
From RQ Require Import Base.Outcome Base.Ints Base.ListX Spec.Code Model.CMatrix
  Proofs.CMatrixBase.
Import ListNotations.
Open Scope N_scope.
Open Scope outcome_scope.

Ltac beq :=
  repeat match goal with
  | |- context [N.eqb ?a ?b] => destruct (N.eqb_spec a b)
  | |- context [N.ltb ?a ?b] => destruct (N.ltb_spec a b)
  end; cbn [andb orb]; try reflexivity; try lia.

Section Ldpc.
Variables (K' J S H W P1 : N) (h w : nat).
Let p := mkCP K' J S H W P1.
Let B := W - S.
Let P := K' + S + H - W.
Hypothesis HS3 : 3 <= S.
Hypothesis HSodd : S mod 2 = 1.
Hypothesis Ha : 1 + (W - S - 1) / S < S.
Hypothesis HSW : S < W.
Hypothesis HP2 : 2 <= P.
Hypothesis HWL : W <= K' + S.
Hypothesis Hh : S <= N.of_nat h.
Hypothesis Hw : N.of_nat w = K' + S + H.

Definition lb0 (c : N) := c mod S.
Definition la (c : N) := 1 + c / S.
Definition lb1 (c : N) := (lb0 c + la c) mod S.
Definition lb2 (c : N) := (lb1 c + la c) mod S.

Lemma la_range c : c < B -> 1 <= la c < S.
Proof.
  intros Hc. unfold la.
  assert (c / S <= (W - S - 1) / S) by (apply N.div_le_mono; unfold B in Hc; lia).
  pose proof (N.le_0_l (c / S)). revert H0 H1 Ha. generalize (c / S) ((W - S - 1) / S). intros; lia.
Qed.

Lemma lb_facts c : c < B ->
  lb0 c < S /\ lb1 c < S /\ lb2 c < S /\ lb0 c <> lb1 c /\ lb1 c <> lb2 c /\ lb0 c <> lb2 c.
Proof.
  intros Hc. pose proof (la_range c Hc) as Hla.
  assert (H0 : lb0 c < S) by (apply N.mod_lt; lia).
  assert (E1 : lb1 c = if lb0 c + la c <? S then lb0 c + la c else lb0 c + la c - S)
    by (apply mod_lt2; lia).
  assert (H1 : lb1 c < S) by (apply N.mod_lt; lia).
  assert (E2 : lb2 c = if lb1 c + la c <? S then lb1 c + la c else lb1 c + la c - S)
    by (apply mod_lt2; lia).
  assert (H2 : lb2 c < S) by (apply N.mod_lt; lia).
  assert (Hodd : exists q, S = 2 * q + 1).
  { exists (S / 2). rewrite (N.div_mod S 2) at 1 by discriminate. rewrite HSodd. reflexivity. }
  destruct Hodd as [q Hq].
  set (x0 := lb0 c) in *. set (x1 := lb1 c) in *. set (x2 := lb2 c) in *. set (a := la c) in *.
  clearbody x0 x1 x2 a.
  destruct (N.ltb_spec (x0 + a) S); destruct (N.ltb_spec (x1 + a) S); repeat split; lia.
Qed.

(* the three stages, as entry functions *)
Definition le1 (r c : N) : N :=
  if (c <? B) && ((lb0 c =? r) || (lb1 c =? r) || (lb2 c =? r)) then 1 else 0.
Definition le2 (r c : N) : N := if (r <? S) && (c =? r + B) then 1 else le1 r c.
Definition le3 (r c : N) : N :=
  if (r <? S) && ((c =? r mod P + W) || (c =? (r + 1) mod P + W)) then 1 else le2 r c.

Lemma set_ldpc_ok mat0 : wfm h w mat0 -> (forall r c, ent mat0 r c = 0) ->
  exists mat, set_ldpc S B W P mat0 = Ok mat /\ wfm h w mat /\ forall r c, ent mat r c = le3 r c.
Proof.
  intros Hwf0 Hz0. unfold set_ldpc.
  assert (HS0 : S <> 0) by lia. assert (HP0 : P <> 0) by lia.
  (* loop 1 *)
  destruct (ofor_inv
    (fun k mat => wfm h w mat /\ forall r c, ent mat r c =
       if (c <? k) && ((lb0 c =? r) || (lb1 c =? r) || (lb2 c =? r)) then 1 else 0)
    (fun i mat =>
           a <- (d <- div_ok i S ;; Ok (1 + d)) ;;
           b <- rem_ok i S ;;
           mat <- mset mat b i 1 ;;
           b <- rem_ok (b + a) S ;;
           mat <- mset mat b i 1 ;;
           b <- rem_ok (b + a) S ;;
           mset mat b i 1) (N.to_nat B) 0 mat0) as [mat1 [E1 [Hwf1 He1]]].
  { split; [exact Hwf0|]. intros r c. rewrite Hz0.
    replace (c <? 0) with false by (symmetry; apply N.ltb_ge; lia). reflexivity. }
  { intros k mat Hk [Hwf He]. rewrite N2Nat.id in Hk.
    assert (HkB : k < B) by lia.
    destruct (lb_facts k HkB) as [H0 [H1 [H2 _]]].
    assert (Hkw : k < N.of_nat w) by (unfold B in HkB; lia).
    rewrite div_ok_nz by exact HS0. cbn [obind]. rewrite rem_ok_nz' by exact HS0. cbn [obind].
    fold (lb0 k). fold (la k).
    destruct (mset_ok h w mat (lb0 k) k 1 Hwf ltac:(lia) Hkw) as [m1 [F1 [W1 G1]]].
    rewrite F1. cbn [obind]. rewrite rem_ok_nz' by exact HS0. cbn [obind]. fold (lb1 k).
    destruct (mset_ok h w m1 (lb1 k) k 1 W1 ltac:(lia) Hkw) as [m2 [F2 [W2 G2]]].
    rewrite F2. cbn [obind]. rewrite rem_ok_nz' by exact HS0. cbn [obind]. fold (lb2 k).
    destruct (mset_ok h w m2 (lb2 k) k 1 W2 ltac:(lia) Hkw) as [m3 [F3 [W3 G3]]].
    rewrite F3. exists m3. split; [reflexivity|]. split; [exact W3|].
    intros r c. rewrite G3, G2, G1, He.
    destruct (N.eqb_spec c k) as [->|Hck].
    - generalize (lb0 k) (lb1 k) (lb2 k). intros y0 y1 y2. rewrite !andb_true_r. beq.
    - rewrite !andb_false_r.
      replace (c <? k + 1) with (c <? k); [reflexivity|].
      destruct (N.ltb_spec c k); destruct (N.ltb_spec c (k + 1)); try reflexivity; lia. }
  rewrite E1. cbn [obind]. cbn [N.add] in He1. rewrite N2Nat.id in He1.
  change (0 + B) with B in He1.
  (* loop 2 *)
  destruct (ofor_inv
    (fun k mat => wfm h w mat /\ forall r c, ent mat r c =
       if (r <? k) && (c =? r + B) then 1 else le1 r c)
    (fun i mat => mset mat i (i + B) 1) (N.to_nat S) 0 mat1) as [mat2 [E2 [Hwf2 He2]]].
  { split; [exact Hwf1|]. intros r c. rewrite He1.
    replace (r <? 0) with false by (symmetry; apply N.ltb_ge; lia). reflexivity. }
  { intros k mat Hk [Hwf He]. rewrite N2Nat.id in Hk.
    destruct (mset_ok h w mat k (k + B) 1 Hwf ltac:(lia) ltac:(unfold B; lia)) as [m1 [F1 [W1 G1]]].
    rewrite F1. exists m1. split; [reflexivity|]. split; [exact W1|].
    intros r c. rewrite G1, He. generalize (le1 r c). intros y.
    destruct (N.eqb_spec r k) as [->|Hrk].
    - replace (k <? k) with false by (symmetry; apply N.ltb_ge; lia).
      replace (k <? k + 1) with true by (symmetry; apply N.ltb_lt; lia). reflexivity.
    - replace (r <? k + 1) with (r <? k); [reflexivity|].
      destruct (N.ltb_spec r k); destruct (N.ltb_spec r (k + 1)); try reflexivity; lia. }
  rewrite E2. cbn [obind]. rewrite N2Nat.id in He2. change (0 + S) with S in He2.
  (* loop 3 *)
  destruct (ofor_inv
    (fun k mat => wfm h w mat /\ forall r c, ent mat r c =
       if (r <? k) && ((c =? r mod P + W) || (c =? (r + 1) mod P + W)) then 1 else le2 r c)
    (fun i mat =>
           c1 <- rem_ok i P ;;
           mat <- mset mat i (c1 + W) 1 ;;
           c2 <- rem_ok (i + 1) P ;;
           mset mat i (c2 + W) 1) (N.to_nat S) 0 mat2) as [mat3 [E3 [Hwf3 He3]]].
  { split; [exact Hwf2|]. intros r c. rewrite He2.
    replace (r <? 0) with false by (symmetry; apply N.ltb_ge; lia). reflexivity. }
  { intros k mat Hk [Hwf He]. rewrite N2Nat.id in Hk.
    assert (M1 : k mod P < P) by (apply N.mod_lt; exact HP0).
    assert (M2 : (k + 1) mod P < P) by (apply N.mod_lt; exact HP0).
    rewrite rem_ok_nz' by exact HP0. cbn [obind].
    destruct (mset_ok h w mat k (k mod P + W) 1 Hwf ltac:(lia) ltac:(unfold P in M1; lia))
      as [m1 [F1 [W1 G1]]].
    rewrite F1. cbn [obind]. rewrite rem_ok_nz' by exact HP0. cbn [obind].
    destruct (mset_ok h w m1 k ((k + 1) mod P + W) 1 W1 ltac:(lia) ltac:(unfold P in M2; lia))
      as [m2 [F2 [W2 G2]]].
    rewrite F2. exists m2. split; [reflexivity|]. split; [exact W2|].
    intros r c. rewrite G2, G1, He. generalize (le2 r c). intros y.
    destruct (N.eqb_spec r k) as [->|Hrk].
    - replace (k <? k) with false by (symmetry; apply N.ltb_ge; lia).
      replace (k <? k + 1) with true by (symmetry; apply N.ltb_lt; lia). cbn [andb].
      destruct (c =? k mod P + W), (c =? (k + 1) mod P + W); reflexivity.
    - replace (r <? k + 1) with (r <? k); [reflexivity|].
      destruct (N.ltb_spec r k); destruct (N.ltb_spec r (k + 1)); try reflexivity; lia. }
  rewrite E3. rewrite N2Nat.id in He3. change (0 + S) with S in He3.
  exists mat3. split; [reflexivity|]. split; [exact Hwf3|]. exact He3.
Qed.

(* consecutive residues modulo P >= 2 differ *)
Lemma succ_mod_neq r : r mod P <> (r + 1) mod P.
Proof.
  assert (HP0 : P <> 0) by lia.
  assert (M : r mod P < P) by (apply N.mod_lt; exact HP0).
  rewrite <- (N.add_mod_idemp_l r 1 P) by exact HP0.
  rewrite (mod_lt2 (r mod P + 1) P) by lia.
  destruct (N.ltb_spec (r mod P + 1) P); lia.
Qed.

(* the entries written are the RFC's *)
Lemma le3_arith_lt (S' B' W' P' r c y0 y1 y2 z1 z2 : N) :
  W' = B' + S' -> c < B' -> z1 < P' -> z2 < P' -> y0 < S' -> y1 < S' -> y2 < S' ->
  y0 <> y1 -> y1 <> y2 -> y0 <> y2 ->
  (if (r <? S') && ((c =? z1 + W') || (c =? z2 + W')) then 1
   else if (r <? S') && (c =? r + B') then 1
   else if true && ((y0 =? r) || (y1 =? r) || (y2 =? r)) then 1 else 0) =
  (if r <? S' then (b2n (y0 =? r) + b2n (y1 =? r) + b2n (y2 =? r)) mod 2 else 0).
Proof.
  intros HW Hc M1 M2 H0 H1 H2 D01 D12 D02. unfold b2n.
  replace (c =? z1 + W') with false by (symmetry; apply N.eqb_neq; lia).
  replace (c =? z2 + W') with false by (symmetry; apply N.eqb_neq; lia).
  replace (c =? r + B') with false by (symmetry; apply N.eqb_neq; lia).
  rewrite !andb_false_r. cbn [andb orb].
  destruct (N.ltb_spec r S');
  destruct (N.eqb_spec y0 r); destruct (N.eqb_spec y1 r); destruct (N.eqb_spec y2 r);
    cbn [andb orb]; try reflexivity; lia.
Qed.

Lemma le3_arith_ge (S' B' W' P' r c z1 z2 : N) :
  W' = B' + S' -> B' <= c -> z1 < P' -> z2 < P' -> z1 <> z2 -> r < S' ->
  (if true && ((c =? z1 + W') || (c =? z2 + W')) then 1
   else if true && (c =? r + B') then 1 else 0) =
  (if c <? W' then b2n (c - B' =? r) else b2n (z1 =? c - W') + b2n (z2 =? c - W')) mod 2.
Proof.
  intros HW Hc M1 M2 Hne Hr. unfold b2n. cbn [andb].
  destruct (N.ltb_spec c W') as [HcW|HcW].
  - replace (c =? z1 + W') with false by (symmetry; apply N.eqb_neq; lia).
    replace (c =? z2 + W') with false by (symmetry; apply N.eqb_neq; lia).
    cbn [orb].
    destruct (N.eqb_spec c (r + B')); destruct (N.eqb_spec (c - B') r); try reflexivity; lia.
  - assert (E : forall z, (c =? z + W') = (z =? c - W')).
    { intros z. destruct (N.eqb_spec c (z + W')); destruct (N.eqb_spec z (c - W'));
        try reflexivity; lia. }
    rewrite !E.
    replace (c =? r + B') with false by (symmetry; apply N.eqb_neq; lia).
    destruct (N.eqb_spec z1 (c - W')); destruct (N.eqb_spec z2 (c - W'));
      cbn [orb]; try reflexivity; lia.
Qed.

Lemma le3_is_rfc r c : c < K' + S + H ->
  le3 r c = if r <? S then ldpc_entry p r c else 0.
Proof.
  intros Hc. unfold le3, le2, le1, ldpc_entry, ldpc_count, parity, cP, cL, cB.
  cbn [cS cW cK cH p]. fold B. fold P. cbv zeta.
  fold (lb0 c). fold (la c). fold (lb1 c). fold (lb2 c).
  pose proof (succ_mod_neq r) as Hsucc.
  assert (M1 : r mod P < P) by (apply N.mod_lt; lia).
  assert (M2 : (r + 1) mod P < P) by (apply N.mod_lt; lia).
  assert (HWB : W = B + S) by (unfold B; lia).
  destruct (N.ltb_spec c B) as [HcB|HcB].
  - destruct (lb_facts c HcB) as [H0 [H1 [H2 [D01 [D12 D02]]]]].
    apply (le3_arith_lt S B W P); assumption.
  - cbn [andb].
    destruct (N.ltb_spec r S) as [HrS|HrS]; [|reflexivity].
    apply (le3_arith_ge S B W P); assumption.
Qed.

End Ldpc.
