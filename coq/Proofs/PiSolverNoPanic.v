(* PS_no_panic, part 1: an iteration of the first phase never panics (both modes, up to the
   debug-only first_phase_verify), and the complete invariant np_inv is preserved. *)
From Coq Require Import NArith List Bool Lia Arith.
From RQ Require Import Base.Outcome Base.Ints Base.ListX Model.Octet Model.CMatrix Model.Slab
  Spec.Linear Proofs.OutcomeLemmas Proofs.OctetProofs Proofs.LinearProofs Model.PiSolver
  Proofs.PiSolverBase Proofs.PiSolverStruct Proofs.PiSolverOps Proofs.PiSolverG Proofs.PiSolverInvDefs
  Proofs.PiSolverStats Proofs.PiSolverHist Proofs.PiSolverGraph Proofs.PiSolverXStats
  Proofs.PiSolverSwapCols Proofs.PiSolverSwapTotal Proofs.PiSolverCells Proofs.PiSolverPhase1
  Proofs.PiSolverElimTotal.
Import ListNotations.
Open Scope N_scope.

(* ---- totality of the primitives ---- *)
Lemma getN_total {A} (l : list A) k : k < lenN l -> exists x, getN l k = Ok x.
Proof.
  intros H. destruct l as [|d0 l0]; [cbn in H; lia|]. exists (nth (N.to_nat k) (d0 :: l0) d0).
  apply getN_ok. unfold lenN in H. lia.
Qed.

Lemma putN_total {A} (l : list A) k v : k < lenN l -> exists l', putN l k v = Ok l'.
Proof. intros H. eexists. apply putN_ok. unfold lenN in H. lia. Qed.

Lemma swapN_total {A} (l : list A) i j : i < lenN l -> j < lenN l -> exists l', swapN l i j = Ok l'.
Proof.
  intros Hi Hj. unfold swapN. destruct (getN_total l i Hi) as [x Ex]. destruct (getN_total l j Hj) as [y Ey].
  rewrite Ex, Ey. cbn [obind]. rewrite (putN_ok l i y) by (unfold lenN in Hi; lia). cbn [obind].
  eexists. apply putN_ok. rewrite upd_nth_length. unfold lenN in Hj. lia.
Qed.

Lemma omapM_total {A B} (f : A -> outcome B) l : (forall a, In a l -> exists b, f a = Ok b) ->
  exists r, omapM f l = Ok r.
Proof.
  induction l as [|a t IH]; intros H; cbn [omapM]; [eauto|].
  destruct (H a (or_introl eq_refl)) as [b Eb]. rewrite Eb.
  destruct IH as [r Er]; [intros x Hx; apply H; right; exact Hx|]. rewrite Er. eauto.
Qed.

Lemma bm_swap_cols_total A Mn Wn a b sr : dims A Mn Wn -> a < Wn -> b < Wn ->
  exists A', bm_swap_cols A a b sr = Ok A'.
Proof.
  intros [Hl Hr] Ha Hb. unfold bm_swap_cols.
  destruct (omapM_total (fun r => swapN r a b) (skipn (N.to_nat sr) A)) as [t Et].
  { intros r Hin. apply In_skipn_incl in Hin. rewrite Forall_forall in Hr. specialize (Hr r Hin).
    apply swapN_total; lia. }
  rewrite Et. cbn [obind]. eauto.
Qed.

Lemma bm_get_total A Mn Wn k j : dims A Mn Wn -> k < Mn -> j < Wn -> exists v, bm_get A k j = Ok v.
Proof.
  intros D Hk Hj. unfold bm_get. destruct D as [Hl Hr].
  rewrite (getN_ok A k []) by (unfold lenN in Hl; lia). cbn [obind].
  apply getN_total. fold (rowN A k). rewrite (dims_row A Mn Wn k (conj Hl Hr) Hk). exact Hj.
Qed.

Lemma col_scan_total rows col : forall r, Forall (fun row => (col < length row)%nat) rows ->
  exists l, col_scan rows col r = Ok l.
Proof.
  induction rows as [|row t IH]; intros r F; cbn [col_scan]; [eauto|].
  inversion F as [|? ? Hrow Ft]; subst.
  unfold nth_ok. destruct (nth_error row col) eqn:E; [|apply nth_error_None in E; lia]. cbn [obind].
  destruct (IH (N.succ r) Ft) as [l El]. rewrite El. cbn [obind]. eauto.
Qed.

Lemma bm_ones_in_col_total A Mn Wn col s e : dims A Mn Wn -> col < Wn -> e <= Mn ->
  exists l, bm_ones_in_col A col s e = Ok l.
Proof.
  intros [Hl Hr] Hc He. unfold bm_ones_in_col.
  replace ((e <=? s) || (e <=? lenN A)) with true
    by (symmetry; apply orb_true_iff; right; apply N.leb_le; lia).
  apply col_scan_total. apply Forall_subl. rewrite Forall_forall in *. intros row Hin.
  specialize (Hr row Hin). unfold lenN in Hr. lia.
Qed.

Lemma usub_total m a b : b <= a -> usub m a b = Ok (a - b).
Proof. intros H. unfold usub, sub_w. apply N.leb_le in H. rewrite H. reflexivity. Qed.

(* a dims fact about the X matrix, which exists in mode Checked only *)
Definition xdims (m : mode) (X : bmat) (Mn Wx : N) : Prop :=
  match m with Release => True | Checked => dims X Mn Wx end.

Lemma onX_swap_rows_total m s Mn Wx i j : xdims m (ps_X s) Mn Wx -> i < Mn -> j < Mn ->
  exists s', onX m s (fun X => bm_swap_rows X i j) = Ok s' /\ xdims m (ps_X s') Mn Wx.
Proof.
  intros Hx Hi Hj. unfold onX. destruct m; [exists s; auto|]. cbn [xdims] in *.
  destruct Hx as [Hl Hr]. unfold bm_swap_rows.
  destruct (swapN_total (ps_X s) i j ltac:(lia) ltac:(lia)) as [X' E]. rewrite E. cbn [obind].
  eexists. split; [reflexivity|]. cbn. destruct (swapN_lenN _ _ _ _ E) as [L1 _].
  split; [lia | eapply Forall_swapN; eassumption].
Qed.

Lemma onX_swap_cols_total m s Mn Wx a b : xdims m (ps_X s) Mn Wx -> a < Wx -> b < Wx ->
  exists s', onX m s (fun X => bm_swap_cols X a b 0) = Ok s' /\ xdims m (ps_X s') Mn Wx.
Proof.
  intros Hx Ha Hb. unfold onX. destruct m; [exists s; auto|]. cbn [xdims] in *.
  destruct (bm_swap_cols_total _ _ _ a b 0 Hx Ha Hb) as [X' E]. rewrite E. cbn [obind].
  eexists. split; [reflexivity|]. cbn. apply (bm_swap_cols_spec _ _ _ _ _ _ _ Hx E).
Qed.

Lemma ps_swap_rows_total m s Mn i j :
  lenN (ps_A s) = Mn -> lenN (ps_d s) = Mn -> lenN (hd_rows s) <= Mn ->
  i + lenN (hd_rows s) < Mn -> j + lenN (hd_rows s) < Mn ->
  exists s', ps_swap_rows m s i j = Ok s'.
Proof.
  intros HA Hd Hh Hi Hj. unfold ps_swap_rows, hd_rows, ps_height in *.
  assert (E0 : exists u0, match ps_hd s with
      | Some h => obind (usub m (lenN (ps_A s)) (lenN h)) (fun first =>
                  obind (assert_ok (i <? first)) (fun _ => assert_ok (j <? first)))
      | None => Ok tt end = Ok u0).
  { destruct (ps_hd s) as [h|]; [|eauto]. rewrite HA, usub_total by lia. cbn [obind].
    replace (i <? Mn - lenN h) with true by (symmetry; apply N.ltb_lt; lia).
    replace (j <? Mn - lenN h) with true by (symmetry; apply N.ltb_lt; lia). cbn. eauto. }
  destruct E0 as [u0 E0]. rewrite E0. cbn [obind]. unfold bm_swap_rows.
  destruct (swapN_total (ps_A s) i j ltac:(lia) ltac:(lia)) as [A' EA]. rewrite EA. cbn [obind].
  destruct (swapN_total (ps_d s) i j ltac:(lia) ltac:(lia)) as [d' Ed]. rewrite Ed. cbn [obind]. eauto.
Qed.

Lemma ps_swap_cols_total s Mn Wn Hn a b sr :
  dims (ps_A s) Mn Wn -> dims (hd_rows s) Hn Wn -> lenN (ps_c s) = Wn -> a < Wn -> b < Wn ->
  exists s', ps_swap_cols s a b sr = Ok s'.
Proof.
  intros DA Dh Hc Ha Hb. unfold ps_swap_cols.
  destruct (bm_swap_cols_total _ _ _ a b sr DA Ha Hb) as [A' EA]. rewrite EA. cbn [obind].
  assert (E1 : exists hd', match ps_hd s with
      | Some h => obind (bm_swap_cols h a b 0) (fun h' => Ok (Some h'))
      | None => Ok None end = Ok hd').
  { unfold hd_rows in Dh. destruct (ps_hd s) as [h|]; [|eauto].
    destruct (bm_swap_cols_total _ _ _ a b 0 Dh Ha Hb) as [h' Eh]. rewrite Eh. cbn. eauto. }
  destruct E1 as [hd' E1]. rewrite E1. cbn [obind].
  destruct (swapN_total (ps_c s) a b ltac:(lia) ltac:(lia)) as [c' Ec]. rewrite Ec. cbn [obind]. eauto.
Qed.

(* ---- the recorded row operations ---- *)
Fixpoint good (Mn lo : N) (rops : list rowop) : Prop :=
  match rops with
  | [] => True
  | RAdd a b :: t => a < lo /\ b < Mn /\ lo <= b /\ good Mn lo t
  | RSwap a b :: t => a < Mn /\ b < Mn /\ good Mn (N.min lo (N.min a b)) t
  end.

Lemma x_elim_total Mn i : forall rops mapping lo acc,
  good Mn lo rops -> lo <= i -> i <= Mn -> permN Mn mapping ->
  (forall p, p < lo -> nth (N.to_nat p) mapping 0 = p) ->
  Forall (xo_lt i) acc ->
  exists xo, x_elimination_ops rops mapping i acc = Ok xo /\ Forall (xo_lt i) xo.
Proof.
  induction rops as [|[a b|a b] t IH]; intros mapping lo acc G Hlo HiM Pm Hid Fa; cbn [x_elimination_ops good] in *.
  - eauto.
  - destruct G as (Ga & Gb & Gne & Gt). destruct Pm as (Pl & Pn & Pb).
    assert (La : a < Mn) by lia.
    rewrite (getN_ok mapping a 0) by (unfold lenN in Pl; lia). cbn [obind].
    rewrite (Hid a Ga).
    replace (a <? i) with true by (symmetry; apply N.ltb_lt; lia). cbn [assert_ok obind].
    rewrite (getN_ok mapping b 0) by (unfold lenN in Pl; lia). cbn [obind].
    destruct (N.ltb_spec (nth (N.to_nat b) mapping 0) i) as [Hlt|Hge].
    + apply (IH mapping lo); try assumption; [repeat split; assumption|].
      constructor; [|exact Fa]. cbn. repeat split; try lia.
      rewrite <- (Hid a Ga) at 1. apply NoDup_nth_neq; try assumption; unfold lenN in Pl; lia.
    + apply (IH mapping lo); try assumption. repeat split; assumption.
  - destruct G as (Ga & Gb & Gt). pose proof Pm as (Pl & _ & _).
    destruct (swapN_total mapping a b ltac:(lia) ltac:(lia)) as [mp' Em]. rewrite Em. cbn [obind].
    apply (IH mp' (N.min lo (N.min a b))); try assumption; [lia | eapply permN_swap; eassumption |].
    intros p Hp. rewrite (swapN_cell _ _ _ _ 0 p Em). rewrite trN_other by lia. apply Hid. lia.
Qed.

Lemma el_rops m r temp tv : forall pco s st rops s' st' rops',
  ofold (eliminate_row m r temp tv) pco (s, st, rops) = Ok (s', st', rops') ->
  rops' = rev (map (RAdd temp) pco) ++ rops.
Proof.
  induction pco as [|row t IH]; intros s st rops s' st' rops' H.
  - cbn in H. inversion H. reflexivity.
  - apply ofold_cons_inv in H. destruct H as [[[s1 st1] rops1] [E1 E2]].
    assert (X : rops1 = RAdd temp row :: rops).
    { unfold eliminate_row in E1. omon E1. destruct (r =? 1); [inversion E1; reflexivity|]. omon E1. inversion E1. reflexivity. }
    subst rops1. rewrite (IH _ _ _ _ _ _ E2). cbn [map rev]. rewrite <- app_assoc. reflexivity.
Qed.

Lemma good_adds Mn lo temp rops l : temp < lo -> Forall (fun x => x < Mn /\ lo <= x) l ->
  good Mn lo rops -> good Mn lo (rev (map (RAdd temp) l) ++ rops).
Proof.
  intros Ht F G.
  assert (F2 : Forall (fun op => exists x, op = RAdd temp x /\ x < Mn /\ lo <= x) (rev (map (RAdd temp) l))).
  { apply Forall_rev. apply Forall_forall. intros op Hop. apply in_map_iff in Hop. destruct Hop as (x & <- & Hx).
    rewrite Forall_forall in F. destruct (F x Hx). eauto. }
  induction F2 as [|op l2 (x & -> & Hx & Hne) _ IH]; [exact G|].
  cbn [app good]. repeat split; assumption.
Qed.

(* frames: X, i, u are not touched by the elimination loops *)
Definition xiu (s' s : pstate) : Prop :=
  ps_X s' = ps_X s /\ ps_i s' = ps_i s /\ ps_u s' = ps_u s /\ ps_d s' = ps_d s /\ ps_c s' = ps_c s.

Lemma xiu_trans a b c : xiu a b -> xiu b c -> xiu a c.
Proof. intros (A1 & A2 & A3 & A4 & A5) (B1 & B2 & B3 & B4 & B5). repeat split; congruence. Qed.

Lemma record_fma_X s i ip beta s' : record_fma_rows s i ip beta = Ok s' -> xiu s' s.
Proof. intros H. apply record_fma_frame in H. repeat split; apply H. Qed.

Lemma fma_rows_X m s i ip sc s' : fma_rows m s i ip sc = Ok s' -> xiu s' s.
Proof.
  intros H. destruct (fma_rows_inv _ _ _ _ _ _ H) as (s1 & A' & E1 & _ & -> & _).
  apply (record_fma_X _ _ _ _ _ E1).
Qed.

Lemma el_fold_X m r temp tv : forall pco s st rops s' st' rops',
  ofold (eliminate_row m r temp tv) pco (s, st, rops) = Ok (s', st', rops') -> xiu s' s.
Proof.
  induction pco as [|row t IH]; intros s st rops s' st' rops' H.
  - cbn in H. inversion H. repeat split.
  - apply ofold_cons_inv in H. destruct H as [[[s1 st1] rops1] [E1 E2]].
    apply (xiu_trans _ s1); [exact (IH _ _ _ _ _ _ E2)|]. unfold eliminate_row in E1. omon E1.
    destruct (r =? 1); [inversion E1; subst | omon E1; inversion E1; subst]; eapply fma_rows_X; eassumption.
Qed.

Lemma fma_rows_with_pi_X m s i ip beta col pio s' : fma_rows_with_pi m s i ip beta col pio = Ok s' ->
  xiu s' s.
Proof.
  unfold fma_rows_with_pi. intros H. oinvas H as s1 E1. apply (xiu_trans _ s1); [|exact (record_fma_X _ _ _ _ _ E1)].
  destruct (ps_hd s1) as [h|].
  - omon H. destruct (a <=? ip); omon H; inversion H; repeat split.
  - omon H. inversion H; repeat split.
Qed.

Lemma eliminate_hdpc_X m nh temp tv r s s' : eliminate_hdpc m nh temp tv r s = Ok s' -> xiu s' s.
Proof.
  unfold eliminate_hdpc. intros H. destruct (0 <? nh); [|inversion H; repeat split]. omon H.
  revert H. apply (ofold_inv_in (fun x => xiu x s)); [|repeat split].
  intros hr sa sb _ Ea Eb. apply (xiu_trans _ sa); [|exact Ea]. unfold eliminate_hdpc_row in Eb.
  destruct (ps_hd sa); [|discriminate]. omon Eb. destruct (a1 =? 0); [inversion Eb; repeat split|]. omon Eb.
  eapply fma_rows_with_pi_X; eassumption.
Qed.

(* original degrees stay below u16::MAX, so that a candidate is always selected *)
Definition od_ok (st : stats) : Prop := Forall (fun d => d < 65535) (st_od st).

Section NP.
Variable A0 : list (list N).
Variable M W Hn : N.
Hypothesis A0_wf : wf_mat (N.to_nat W) A0.
Hypothesis A0_len : lenN A0 = M.
Hypothesis W16 : W < 65536.
Hypothesis HM : Hn <= M.
Hypothesis M32 : M < 4294967296.
Local Notation G := (G A0).
Local Notation fp_inv := (fp_inv A0 M W Hn).
Local Notation el_inv := (el_inv A0 M W Hn).
Local Notation cover_s := (cover_s M W Hn).

(* the complete invariant of the first phase; N0 = the number of columns of V at the start *)
Record np_inv (m : mode) (N0 : N) (s : pstate) (st : stats) : Prop := mkNP {
  ni_fp : fp_inv s st;
  ni_xs : xst_inv (ps_A s) st (ps_i s) (M - Hn) (ps_i s) (W - ps_u s) N0;
  ni_N0 : W - ps_u s <= N0 /\ N0 <= W;
  ni_X : xdims m (ps_X s) M N0;
  ni_od : od_ok st;
  ni_Xrel : m = Checked -> forall k j, k + Hn < M -> j < N0 ->
              cell (ps_X s) k j = cell A0 (dat s k) (cat s j);
  ni_ph : forall k j, M - Hn <= k < M -> j < N0 -> cell (ps_A s) k j = 0 }.

Lemma np_swap_cols_all m N0 s st a b : np_inv m N0 s st ->
  ps_i s <= a < W - ps_u s -> ps_i s <= b < W - ps_u s ->
  exists s' st', swap_cols_all m s st a b = Ok (s', st') /\ np_inv m N0 s' st' /\
    ps_i s' = ps_i s /\ ps_u s' = ps_u s /\ ps_W s' = ps_W s.
Proof.
  intros [I X [HN1 HN2] HX Hod HXr Hph] Ha Hb.
  pose proof (fi_iu _ _ _ _ _ _ I) as Hiu. pose proof (fi_iH _ _ _ _ _ _ I) as HiH.
  assert (Dh : dims (hd_rows s) Hn W) by (split; [apply (fi_hlen _ _ _ _ _ _ I) | apply (fi_hrows _ _ _ _ _ _ I)]).
  destruct (fi_c _ _ _ _ _ _ I) as (Lc & _ & _).
  destruct (ps_swap_cols_total s M W Hn a b (ps_i s) (fi_dims _ _ _ _ _ _ I) Dh Lc ltac:(lia) ltac:(lia)) as [s1 E1].
  destruct (ps_swap_cols_frame _ _ _ _ _ E1) as (EA & _ & Ec1 & Ed1 & EW1 & Ei1 & Eu1 & _).
  assert (Her : M - Hn <= M) by lia.
  destruct (xst_swap_cols st (ps_A s) M W (ps_i s) (M - Hn) (ps_i s) (W - ps_u s) N0 a b (ps_i s) (ps_A s1)
              X (fi_dims _ _ _ _ _ _ I) Her HN1 Ha Hb ltac:(lia) EA) as (st' & Est & X').
  assert (HX1 : xdims m (ps_X s1) M N0).
  { unfold ps_swap_cols in E1. omon E1. inversion E1; subst. exact HX. }
  destruct (onX_swap_cols_total m s1 M N0 a b HX1 ltac:(lia) ltac:(lia)) as (s' & E2 & HX').
  assert (Esw : swap_cols_all m s st a b = Ok (s', st')).
  { unfold swap_cols_all. rewrite E1. cbn [obind]. rewrite Est. cbn [obind]. rewrite E2. reflexivity. }
  destruct (fp_inv_swap_cols_all A0 M W Hn A0_len W16 HM M32 m s st a b s' st' I Ha Hb Esw) as (I' & Ei & Eu).
  destruct (onX_frame _ _ _ _ E2) as (EA2 & _ & Ed2 & Ec2 & EW2 & _).
  destruct (bm_swap_cols_spec _ _ _ _ _ _ _ (fi_dims _ _ _ _ _ _ I) EA) as [_ CsA].
  exists s', st'. split; [exact Esw|]. split; [|split; [exact Ei | split; [exact Eu | congruence]]].
  constructor; rewrite ?Ei, ?Eu; try assumption; [|split; assumption|exact (st_swap_cols_od _ _ _ _ Est Hod)| |].
  - rewrite EA2. exact X'.
  - intros Em k j Hk Hj. subst m. cbn [xdims onX] in *. oinvas E2 as X2 EX2. inversion E2; subst s'. cbn [set_X ps_X ps_d ps_c] in *.
    destruct (bm_swap_cols_spec _ _ _ _ _ _ _ HX1 EX2) as [_ CsX]. rewrite CsX by lia.
    destruct (N.leb_spec 0 k); [|lia].
    assert (HX1r : ps_X s1 = ps_X s) by (unfold ps_swap_cols in E1; omon E1; inversion E1; reflexivity).
    rewrite HX1r. rewrite (HXr eq_refl) by (try assumption; apply (trN_range a b j 0 N0); lia).
    unfold dat, cat. cbn [set_X ps_d ps_c]. rewrite Ed1. rewrite (swapN_cell _ _ _ _ 0 j Ec1). reflexivity.
  - intros k j Hk Hj. rewrite EA2, CsA by lia. destruct (N.leb_spec (ps_i s) k); [|lia].
    apply Hph; [exact Hk|]. apply (trN_range a b j 0 N0); lia.
Qed.

Lemma np_swaps_all m N0 sw : forall s st s' st', np_inv m N0 s st ->
  Forall (fun p => (ps_i s <= fst p < W - ps_u s) /\ (ps_i s <= snd p < W - ps_u s)) sw ->
  swaps_all m s st sw = Ok (s', st') -> np_inv m N0 s' st'.
Proof.
  induction sw as [|[a b] t IH]; intros s st s' st' NI F H; cbn [swaps_all] in H.
  - inversion H; subst. exact NI.
  - inversion F as [|x l [Ha Hb] Ft]; subst. cbn [fst snd] in *.
    destruct (np_swap_cols_all m N0 s st a b NI Ha Hb) as (s1 & st1 & E1 & NI1 & Ei & Eu & _).
    rewrite E1 in H. eapply IH; [exact NI1 | rewrite Ei, Eu; exact Ft | exact H].
Qed.


Lemma ps_swap_rows_X m s i j s' : ps_swap_rows m s i j = Ok s' -> ps_X s' = ps_X s.
Proof. unfold ps_swap_rows. intros H. oinvas H as u0 E0. omon H. inversion H; reflexivity. Qed.

(* one iteration: either the selection finds no row, or all parts of the iteration succeed *)
Lemma np_step_pre m N0 s st rops : np_inv m N0 s st -> good M (ps_i s) rops -> ps_i s + ps_u s < W ->
  first_phase_step m s st rops = Ok None \/
  exists s' st' rops', fp_pre_step m s st rops s' st' rops' /\ np_inv m N0 s' st' /\
    good M (ps_i s') rops' /\ ps_i s + ps_u s < ps_i s' + ps_u s'.
Proof.
  intros NI Gd Hlt. pose proof NI as [I X [HN1 HN2] HX Hod HXr Hph].
  pose proof (fi_iu _ _ _ _ _ _ I) as Hiu. pose proof (fi_iH _ _ _ _ _ _ I) as HiH.
  pose proof (fi_dims _ _ _ _ _ _ I) as DA.
  (* end_row *)
  assert (Eer : usub m (ps_height s) (num_hdpc s) = Ok (M - Hn)).
  { rewrite (fp_height _ _ _ _ _ _ I), num_hdpc_hd_rows, (fi_hlen _ _ _ _ _ _ I). apply usub_total. exact HM. }
  (* selection *)
  destruct (xst_selection_total m st (ps_A s) M W (ps_i s) (M - Hn) (ps_i s) (W - ps_u s) N0 X DA
              ltac:(lia) HN1 HN2 ltac:(lia) Hod) as [res Esel].
  destruct res as [[chosen r]|].
  2:{ left. unfold first_phase_step. rewrite Eer. cbn [obind]. rewrite Esel. reflexivity. }
  right.
  destruct (sel_spec _ _ _ _ _ _ _ _ _ (fi_st _ _ _ _ _ _ I) ltac:(destruct DA; lia) Esel) as (Hch & Hopr & Hr).
  assert (HchA : chosen < lenN (ps_A s)).
  { destruct (N.lt_ge_cases chosen (lenN (ps_A s))) as [|Hge]; [assumption|].
    rewrite nth_overflow in Hopr; [lia|]. pose proof (si_len _ _ _ _ _ _ (fi_st _ _ _ _ _ _ I)) as SL.
    unfold lenN in *. lia. }
  assert (HchM : chosen + Hn < M).
  { destruct (N.lt_ge_cases (chosen + Hn) M) as [|Hge]; [assumption|].
    pose proof (xs_out _ _ _ _ _ _ _ X chosen HchA ltac:(lia)) as Z. unfold oprN in Z. lia. }
  assert (HiM : ps_i s + Hn < M) by lia.
  (* exchange of rows i and chosen *)
  destruct (lt_d _ _ (fi_lite _ _ _ _ _ _ I)) as (Ld & _ & _).
  destruct (ps_swap_rows_total m s M (ps_i s) chosen (proj1 DA) Ld
              ltac:(rewrite (fi_hlen _ _ _ _ _ _ I); exact HM)
              ltac:(rewrite (fi_hlen _ _ _ _ _ _ I); exact HiM)
              ltac:(rewrite (fi_hlen _ _ _ _ _ _ I); exact HchM)) as [s1 Esw].
  destruct (ps_swap_rows_frame _ _ _ _ _ Esw) as (EA1 & Ed1 & _ & Ec1 & EW1 & Ei1' & Eu1' & _).
  unfold bm_swap_rows in EA1.
  destruct (xst_swap_rows st (ps_A s) M W (ps_i s) (M - Hn) (ps_i s) (W - ps_u s) N0 chosen (ps_A s1)
              X DA ltac:(lia) ltac:(lia) EA1) as (st1 & Est & X1).
  destruct (fp_inv_swap_rows A0 M W Hn A0_len W16 HM M32 m s st chosen s1 st1 I Hch Esw Est)
    as (I1 & _ & Ei1 & Eu1 & Hopr1).
  assert (HX1 : xdims m (ps_X s1) M N0) by (rewrite (ps_swap_rows_X _ _ _ _ _ Esw); exact HX).
  destruct (onX_swap_rows_total m s1 M N0 (ps_i s) chosen HX1 ltac:(lia) ltac:(lia)) as (s2 & EX & HX2).
  pose proof (fp_inv_onX A0 M W Hn _ _ _ _ _ I1 EX) as I2.
  destruct (onX_frame _ _ _ _ EX) as (EA2 & Eh2 & Ed2 & Ec2 & EW2 & Ei2 & Eu2 & EL2 & Eo2).
  assert (Ei2' : ps_i s2 = ps_i s) by congruence. assert (Eu2' : ps_u s2 = ps_u s) by congruence.
  assert (NI2 : np_inv m N0 s2 st1).
  { constructor; rewrite ?Ei2', ?Eu2', ?EA2; try assumption; [split; assumption| | |].
    - exact (st_swap_rows_od _ _ _ _ Est Hod).
    - intros Em k j Hk Hj. subst m. cbn [xdims onX] in *. oinvas EX as X2 EX2. inversion EX; subst s2.
      cbn [set_X ps_X ps_d ps_c] in *. unfold bm_swap_rows in EX2. unfold cell, rowN.
      rewrite (swapN_cell _ _ _ _ [] k EX2). fold (rowN (ps_X s1) (trN (ps_i s) chosen k)).
      fold (cell (ps_X s1) (trN (ps_i s) chosen k) j). rewrite (ps_swap_rows_X _ _ _ _ _ Esw).
      assert (Htr : trN (ps_i s) chosen k + Hn < M)
        by (unfold trN; destruct (k =? ps_i s); [lia|]; destruct (k =? chosen); lia).
      rewrite (HXr eq_refl _ _ Htr Hj).
      unfold dat, cat. cbn [set_X ps_d ps_c]. rewrite Ec1. rewrite (swapN_cell _ _ _ _ 0 k Ed1). reflexivity.
    - intros k j Hk Hj. unfold cell, rowN. rewrite (swapN_cell _ _ _ _ [] k EA1). rewrite trN_other by lia.
      apply Hph; assumption. }
  assert (Hcnt : cnt (rowN (ps_A s2) (ps_i s)) (ps_i s) (W - ps_u s) = r).
  { pose proof (si_opr _ _ _ _ _ _ (fi_st _ _ _ _ _ _ I2)) as Y. rewrite Ei2', Eu2' in Y. rewrite <- Y by lia.
    rewrite Hopr1. exact Hopr. }
  assert (Hrle : r <= W - ps_u s - ps_i s) by (rewrite <- Hcnt; apply PiSolverStats.cnt_le).
  pose proof (fi_W _ _ _ _ _ _ I2) as W2.
  (* the column exchanges *)
  destruct (substep_total m (np_inv m N0) s2 st1 r) as (s3 & st2 & Esub); try assumption.
  { intros sa sta a b Ra Eia Eua EWa Ha Hb. rewrite W2, Ei2', Eu2' in Ha, Hb. rewrite Ei2' in Eia. rewrite Eu2' in Eua.
    destruct (np_swap_cols_all m N0 sa sta a b Ra ltac:(rewrite Eia, Eua; exact Ha) ltac:(rewrite Eia, Eua; exact Hb))
      as (sb & stb & E & Rb & _). eauto. }
  { rewrite W2, Eu2'. lia. }
  { rewrite W2, Eu2', Ei2'. lia. }
  { rewrite Ei2'. destruct (fi_dims _ _ _ _ _ _ I2). lia. }
  { rewrite Ei2'. rewrite (dims_row _ _ _ _ (fi_dims _ _ _ _ _ _ I2)) by lia. symmetry. exact W2. }
  { rewrite Ei2'. apply bin_mat_row. apply (fi_bin _ _ _ _ _ _ I2). }
  { rewrite W2, Eu2', Ei2'. exact Hcnt. }
  destruct (substep_spec m s2 st1 r s3 st2) as (sw & Esw2 & Fsw & Hone & Hzeros); try assumption.
  { rewrite W2, Eu2'. lia. }
  { rewrite W2, Eu2', Ei2'. lia. }
  { rewrite Ei2'. rewrite (dims_row _ _ _ _ (fi_dims _ _ _ _ _ _ I2)) by lia. symmetry. exact W2. }
  { rewrite Ei2'. apply bin_mat_row. apply (fi_bin _ _ _ _ _ _ I2). }
  { rewrite W2, Eu2', Ei2'. exact Hcnt. }
  rewrite W2, Eu2', Ei2' in *.
  destruct (fp_inv_swaps_all A0 M W Hn A0_len W16 HM M32 m sw s2 st1 s3 st2 I2) as (I3 & Ei3 & Eu3);
    [rewrite Ei2', Eu2'; exact Fsw | exact Esw2 |].
  rewrite Ei2' in Ei3. rewrite Eu2' in Eu3.
  assert (NI3 : np_inv m N0 s3 st2).
  { eapply (np_swaps_all m N0 sw s2 st1); [exact NI2 | rewrite Ei2', Eu2'; exact Fsw | exact Esw2]. }
  pose proof (fi_dims _ _ _ _ _ _ I3) as D3.
  (* the pivot and the rows below it *)
  destruct (bm_get_total (ps_A s3) M W (ps_i s) (ps_i s) D3 ltac:(lia) ltac:(lia)) as [tv Etv].
  pose proof (bm_get_cell _ _ _ _ Etv) as Htv. rewrite Hone in Htv. subst tv.
  destruct (bm_ones_in_col_total (ps_A s3) M W (ps_i s) (ps_i s3 + 1) (M - Hn) D3 ltac:(lia) ltac:(lia)) as [pco Epco].
  assert (Er1 : usub m r 1 = Ok (r - 1)) by (apply usub_total; exact Hr).
  assert (Ewu : usub m (ps_W s3) (ps_u s3) = Ok (W - ps_u s)) by (rewrite (fi_W _ _ _ _ _ _ I3), Eu3; apply usub_total; lia).
  set (ec := W - ps_u s - (r - 1)).
  assert (Eec : usub m (W - ps_u s) (r - 1) = Ok ec) by (apply usub_total; lia).
  assert (Hshape : forall j, ps_i s < j < ec -> cell (ps_A s3) (ps_i s) j = 0)
    by (intros j Hj; apply Hzeros; unfold ec in Hj; lia).
  pose proof (ni_xs _ _ _ _ NI3) as X3. rewrite Ei3, Eu3 in X3.
  rewrite Ei3 in Epco.
  destruct (xst_resize m st2 (ps_A s3) M W (ps_i s) (M - Hn) (W - ps_u s) ec N0 pco X3 D3 (fi_bin _ _ _ _ _ _ I3) M32)
    as (st3 & Ers & X3'); try assumption; try (unfold ec; lia).
  destruct (bm_ones_in_col_spec _ _ _ _ _ Epco) as (NDpco & Hpco).
  assert (E0 : el_inv s3 ec [] s3 st3).
  { apply mkEL; try reflexivity.
    - apply (fi_lite _ _ _ _ _ _ I3).
    - exact D3.
    - apply (fi_bin _ _ _ _ _ _ I3).
    - intros k j Hk Hj. apply (fi_agreeA _ _ _ _ _ _ I3); [exact Hk | lia].
    - rewrite Ei3. apply (xs_st _ _ _ _ _ _ _ X3'). }
  assert (P2 : ps_i s3 + Hn < M) by (rewrite Ei3; exact HiM).
  assert (P4 : ec = W - ps_u s3 - (r - 1)) by (rewrite Eu3; reflexivity).
  assert (P5 : ps_i s3 + 1 <= ec) by (rewrite Ei3; unfold ec; lia).
  assert (P6 : ps_u s3 + (r - 1) <= W) by (rewrite Eu3; lia).
  assert (P7 : forall j, ps_i s3 < j < ec -> cell (ps_A s3) (ps_i s3) j = 0) by (rewrite Ei3; exact Hshape).
  assert (P9 : forall x, In x ([] ++ pco) -> ps_i s3 < x /\ x + Hn < M)
    by (intros x Hx; apply Hpco in Hx; rewrite Ei3; lia).
  assert (X30 : xst_inv (ps_A s3) st3 (ps_i s3 + 1) (M - Hn) (ps_i s3 + 1) ec N0) by (rewrite Ei3; exact X3').
  destruct (el_fold_total A0 M W Hn A0_wf A0_len W16 HM M32 m r s3 st2 ec N0 pco [] s3 st3
              (RSwap (ps_i s) chosen :: rops) I3 P2 Hr P4 P5 P6 P7 NDpco P9 E0 X30 ltac:(unfold ec; lia) HN2)
    as (s4 & st' & rops' & Eel & X4 & Eod).
  pose proof (el_loop A0 M W Hn A0_wf A0_len W16 HM M32 m r 1 s3 st2 ec pco [] s3 st3 _ s4 st' rops'
                I3 P2 Hr P4 P5 P6 P7 NDpco P9 E0 Eel) as E4.
  cbn [app] in E4.
  (* the HDPC rows *)
  pose proof (ei_i _ _ _ _ _ _ _ _ _ E4) as Ei4. rewrite Ei3 in Ei4.
  pose proof (ei_u _ _ _ _ _ _ _ _ _ E4) as Eu4. rewrite Eu3 in Eu4.
  destruct (hd_total A0 M W Hn A0_wf A0_len W16 HM M32 m r s4) as (s5 & Ehd & EA5).
  { apply (ei_lite _ _ _ _ _ _ _ _ _ E4). }
  { apply (ei_dims _ _ _ _ _ _ _ _ _ E4). }
  { rewrite (ei_W _ _ _ _ _ _ _ _ _ E4). apply (fi_W _ _ _ _ _ _ I3). }
  { unfold hd_rows. rewrite (ei_hd _ _ _ _ _ _ _ _ _ E4). apply (fi_hlen _ _ _ _ _ _ I3). }
  { unfold hd_rows. rewrite (ei_hd _ _ _ _ _ _ _ _ _ E4). apply (fi_hrows _ _ _ _ _ _ I3). }
  { rewrite Ei4. exact HiM. }
  { exact Hr. }
  { rewrite Eu4. lia. }
  { rewrite Ei4, Eu4. lia. }
  rewrite Ei4 in Ehd.
  (* the iteration *)
  pose proof Eel as Eel'. rewrite Ei3 in Eel'.
  assert (Pre : fp_pre_step m s st rops (advance s5 (r - 1)) st' rops').
  { exists (M - Hn), chosen, r, s1, s2, st1, s3, st2, 1, pco, (r - 1), (W - ps_u s), ec, st3, s4, s5.
    rewrite Ei3. repeat (split; [first [assumption | reflexivity]|]).
    rewrite num_hdpc_hd_rows, (fi_hlen _ _ _ _ _ _ I).
    repeat (split; [first [assumption | reflexivity]|]). reflexivity. }
  destruct (fp_step_inv_pre A0 M W Hn A0_wf A0_len W16 HM M32 m s st rops _ _ _ I Hlt Pre) as (I' & Ei' & _).
  pose proof (eliminate_hdpc_X _ _ _ _ _ _ _ Ehd) as (EX5 & Ei5 & Eu5 & Ed5 & Ec5).
  pose proof (el_fold_X _ _ _ _ _ _ _ _ _ _ _ Eel) as (EX4 & _ & _ & Ed4 & Ec4).
  exists (advance s5 (r - 1)), st', rops'. split; [exact Pre|]. split; [|split].
  3:{ cbn [advance ps_i ps_u]. rewrite Ei5, Eu5, Ei4, Eu4. lia. }
  - constructor; cbn [advance ps_A ps_X ps_i ps_u]; rewrite ?Ei5, ?Eu5, ?Ei4, ?Eu4, ?EA5, ?EX5, ?EX4.
    + exact I'.
    + replace (W - (ps_u s + (r - 1))) with ec by (unfold ec; lia). rewrite Ei3 in X4. exact X4.
    + split; [lia | exact HN2].
    + apply (ni_X _ _ _ _ NI3).
    + unfold od_ok. rewrite Eod. exact (st_resize_od _ _ _ _ _ _ _ _ _ Ers (ni_od _ _ _ _ NI3)).
    + intros Em k j Hk Hj. rewrite (ni_Xrel _ _ _ _ NI3 Em k j Hk Hj). unfold dat, cat. cbn [advance ps_d ps_c].
      rewrite Ed5, Ed4, Ec5, Ec4. reflexivity.
    + intros k j Hk Hj. unfold cell. rewrite (ei_rows _ _ _ _ _ _ _ _ _ E4) by (intros Z; apply Hpco in Z; lia).
      apply (ni_ph _ _ _ _ NI3); assumption.
  - rewrite Ei'. rewrite (el_rops _ _ _ _ _ _ _ _ _ _ _ Eel).
    apply good_adds; [lia | |].
    + apply Forall_forall. intros x Hx. apply Hpco in Hx. lia.
    + cbn [good]. split; [lia|]. split; [lia|].
      replace (N.min (ps_i s + 1) (N.min (ps_i s) chosen)) with (ps_i s) by lia. exact Gd.
Qed.

End NP.
