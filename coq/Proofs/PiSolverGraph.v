(* The ConnectedComponentGraph (src/graph.rs) never hits a panicking branch: structural invariant
   cg_inv (array lengths, component ids in range, merge chains decreasing, sizes exact, the id counter
   bounded through the potential  num <= #assigned nodes + #dead nodes), totality and effect of every
   operation on the set of assigned nodes. *)
From Coq Require Import NArith List Bool Lia Arith Permutation.
From RQ Require Import Base.Outcome Base.Ints Base.ListX Model.Octet Model.CMatrix Model.Slab
  Spec.Linear Proofs.OutcomeLemmas Proofs.LinearProofs Model.PiSolver
  Proofs.PiSolverBase Proofs.PiSolverStruct.
Import ListNotations.
Open Scope N_scope.

(* node p is assigned to a component *)
Definition nzn (g : ccg) (p : N) : Prop := nth (N.to_nat p) (g_node g) 0 <> 0.

(* the canonical component of an id (0 when the search fails) *)
Definition canonf (g : ccg) (id : N) : N := match g_canon g id with Ok v => v | Panic _ => 0 end.

(* number of positions p < n whose node entry satisfies f *)
Definition cntn (f : N -> bool) (l : list N) : N := lenN (filter f l).

(* N0 = max_nodes; D = the dead positions (columns that left V): they are unassigned for ever *)
Record cg_inv (g : ccg) (N0 : N) (D : list N) : Prop := mkCG {
  cg_N0 : N0 < 65536;
  cg_len : lenN (g_node g) = N0 /\ lenN (g_merged g) = N0 /\ lenN (g_size g) = N0;
  cg_num : g_num g <= N0;
  cg_node : forall p, p < N0 -> nth (N.to_nat p) (g_node g) 0 <= g_num g;
  cg_merged : forall id, 1 <= id <= N0 ->
     1 <= nth (N.to_nat (id - 1)) (g_merged g) 0 <= id /\
     (g_num g < id -> nth (N.to_nat (id - 1)) (g_merged g) 0 = id);
  cg_size : forall c, 1 <= c <= N0 ->
     nth (N.to_nat (c - 1)) (g_size g) 0 =
       if nth (N.to_nat (c - 1)) (g_merged g) 0 =? c
       then cntn (fun v => canonf g v =? c) (g_node g) else 0;
  cg_dead : NoDup D /\ forall p, In p D -> p < N0 /\ ~ nzn g p;
  cg_pot : g_num g <= cntn (fun v => negb (v =? 0)) (g_node g) + lenN D }.


(* ================= helpers: lists ================= *)
Local Notation nN l i := (nth (N.to_nat i) l 0).
Definition b2n (b : bool) : N := if b then 1 else 0.

Lemma u16_small x : x < 65536 -> u16 x = x.
Proof. intros H. unfold u16. apply wrap_small. exact H. Qed.

Lemma lenN_updG {A} i (x : A) l : lenN (upd_nth i x l) = lenN l.
Proof. unfold lenN. rewrite upd_nth_length. reflexivity. Qed.

Lemma nN_upd l i j x : i < lenN l ->
  nN (upd_nth (N.to_nat i) x l) j = if j =? i then x else nN l j.
Proof.
  unfold lenN. intros H. destruct (N.eqb_spec j i) as [->|ne].
  - apply nth_upd_same. lia.
  - apply nth_upd_other. lia.
Qed.

Lemma nN_default (l : list N) i : lenN l <= i -> nN l i = 0.
Proof. unfold lenN. intros H. apply nth_overflow. lia. Qed.

Lemma am_get1_ok l k : 1 <= k <= lenN l -> am_get 1 l k = Ok (nN l (k - 1)).
Proof.
  unfold lenN. intros H. unfold am_get. destruct (N.ltb_spec k 1); [lia|].
  apply getN_ok. lia.
Qed.

Lemma am_put1_ok l k v : 1 <= k <= lenN l ->
  am_put 1 l k v = Ok (upd_nth (N.to_nat (k - 1)) v l).
Proof.
  unfold lenN. intros H. unfold am_put. destruct (N.ltb_spec k 1); [lia|].
  apply putN_ok. lia.
Qed.

Lemma am_inc1_ok m l k : 1 <= k <= lenN l -> nN l (k - 1) + 1 < 65536 ->
  am_inc m 1 l k = Ok (upd_nth (N.to_nat (k - 1)) (nN l (k - 1) + 1) l).
Proof.
  intros H H1. unfold am_inc. rewrite am_get1_ok by exact H. cbn [obind].
  rewrite add_w_small' by (change (2 ^ 16) with 65536; exact H1). cbn [obind].
  apply am_put1_ok. exact H.
Qed.

Lemma am_dec1_ok m l k : 1 <= k <= lenN l -> 1 <= nN l (k - 1) ->
  am_dec m 1 l k = Ok (upd_nth (N.to_nat (k - 1)) (nN l (k - 1) - 1) l).
Proof.
  intros H H1. unfold am_dec. rewrite am_get1_ok by exact H. cbn [obind].
  unfold sub_w. destruct (N.leb_spec 1 (nN l (k - 1))); [|lia]. cbn [obind].
  apply am_put1_ok. exact H.
Qed.

(* ---- counting ---- *)
Lemma cntn_cons f h t : cntn f (h :: t) = b2n (f h) + cntn f t.
Proof. unfold cntn, lenN. cbn [filter]. destruct (f h); cbn [b2n length]; lia. Qed.

Lemma cntn_nil f : cntn f [] = 0.
Proof. reflexivity. Qed.

Lemma cntn_upd f l : forall i v, (i < length l)%nat ->
  cntn f (upd_nth i v l) + b2n (f (nth i l 0)) = cntn f l + b2n (f v).
Proof.
  induction l as [|h t IH]; intros [|i] v H; cbn [length] in H; try lia;
    cbn [upd_nth nth]; rewrite !cntn_cons.
  - lia.
  - specialize (IH i v). lia.
Qed.

Lemma cntn_le f l : cntn f l <= lenN l.
Proof.
  induction l as [|h t IH]; [unfold cntn, lenN; cbn; lia|].
  rewrite cntn_cons. unfold lenN in *. cbn [length]. destruct (f h); cbn [b2n]; lia.
Qed.

Lemma cntn_ext f g l : (forall x, In x l -> f x = g x) -> cntn f l = cntn g l.
Proof.
  induction l as [|h t IH]; intros H; [reflexivity|]. rewrite !cntn_cons.
  rewrite (H h (or_introl eq_refl)). rewrite IH; [reflexivity|]. intros x Hx. apply H. right. exact Hx.
Qed.

Lemma cntn_or h f g l : (forall x, In x l -> h x = f x || g x) ->
  (forall x, In x l -> f x = true -> g x = true -> False) -> cntn h l = cntn f l + cntn g l.
Proof.
  induction l as [|a t IH]; intros H1 H2; [reflexivity|]. rewrite !cntn_cons.
  rewrite IH; [| intros x Hx; apply H1; right; exact Hx | intros x Hx; apply H2; right; exact Hx].
  rewrite (H1 a (or_introl eq_refl)). specialize (H2 a (or_introl eq_refl)).
  destruct (f a), (g a); cbn [orb b2n]; try lia; exfalso; auto.
Qed.

Lemma cntn_zero f l : (forall x, In x l -> f x = false) -> cntn f l = 0.
Proof.
  induction l as [|a t IH]; intros H; [reflexivity|]. rewrite cntn_cons.
  rewrite (H a (or_introl eq_refl)). rewrite IH; [reflexivity|]. intros x Hx. apply H. right. exact Hx.
Qed.

Lemma cntn_pos_ex f l : 1 <= cntn f l -> exists p, (p < length l)%nat /\ f (nth p l 0) = true.
Proof.
  induction l as [|a t IH]; [rewrite cntn_nil; lia|]. rewrite cntn_cons.
  destruct (f a) eqn:E.
  - intros _. exists 0%nat. cbn [length nth]. split; [lia | exact E].
  - cbn [b2n]. intros H. destruct IH as [p [L P]]; [lia|]. exists (S p). cbn [length nth]. split; [lia | exact P].
Qed.

Lemma cntn_ex_pos f l p : (p < length l)%nat -> f (nth p l 0) = true -> 1 <= cntn f l.
Proof.
  revert p; induction l as [|a t IH]; intros [|p] L P; cbn [length nth] in *; try lia; rewrite cntn_cons.
  - rewrite P. cbn [b2n]. lia.
  - specialize (IH p ltac:(lia) P). destruct (f a); cbn [b2n]; lia.
Qed.

Lemma cntn_disj f g l : (forall x, In x l -> f x = true -> g x = true -> False) ->
  cntn f l + cntn g l <= lenN l.
Proof.
  intros H. rewrite <- (cntn_or (fun x => f x || g x) f g l); [apply cntn_le | reflexivity | exact H].
Qed.

(* distinct positions satisfying f are counted *)
Lemma cntn_nodup_gen f w (l : list N) : f w = false -> forall L, NoDup l ->
  (forall x, In x l -> x < lenN L /\ f (nN L x) = true) -> lenN l <= cntn f L.
Proof.
  intros Fw. induction l as [|x t IH]; intros L ND H; [unfold lenN; cbn; lia|].
  inversion ND as [|? ? Hx ND']; subst.
  destruct (H x (or_introl eq_refl)) as [Lx Nx].
  pose proof (cntn_upd f L (N.to_nat x) w) as CU.
  unfold lenN in Lx. specialize (CU ltac:(lia)). rewrite Nx, Fw in CU. cbn [b2n] in CU.
  assert (lenN t <= cntn f (upd_nth (N.to_nat x) w L)) as IH'.
  { apply IH; [exact ND'|]. intros y Hy. rewrite lenN_updG. destruct (H y (or_intror Hy)) as [Ly Ny].
    split; [exact Ly|]. rewrite nN_upd by (unfold lenN; lia).
    destruct (N.eqb_spec y x) as [->|_]; [contradiction | exact Ny]. }
  unfold lenN in *. cbn [length]. lia.
Qed.

Local Notation nzb := (fun v : N => negb (v =? 0)).

Lemma cntn_nodup_le (l : list N) L : NoDup l ->
  (forall x, In x l -> x < lenN L /\ nN L x <> 0) -> lenN l <= cntn nzb L.
Proof.
  intros ND H. apply (cntn_nodup_gen nzb 0); [reflexivity | exact ND|].
  intros x Hx. destruct (H x Hx) as [Lx Nx]. split; [exact Lx|].
  destruct (N.eqb_spec (nN L x) 0); [contradiction | reflexivity].
Qed.

Lemma cntn_free (l : list N) L : NoDup l ->
  (forall x, In x l -> x < lenN L /\ nN L x = 0) -> cntn nzb L + lenN l <= lenN L.
Proof.
  intros ND H.
  assert (A : lenN l <= cntn (fun v => v =? 0) L).
  { apply (cntn_nodup_gen (fun v => v =? 0) 1); [reflexivity | exact ND|].
    intros x Hx. destruct (H x Hx) as [Lx Nx]. split; [exact Lx|]. rewrite Nx. reflexivity. }
  pose proof (cntn_disj nzb (fun v => v =? 0) L) as B.
  assert (cntn nzb L + cntn (fun v => v =? 0) L <= lenN L).
  { apply B. intros x _ E1 E2. rewrite E2 in E1. discriminate. }
  lia.
Qed.

Lemma cntn_nz_set l p c : p < lenN l -> nN l p = 0 -> c <> 0 ->
  cntn nzb (upd_nth (N.to_nat p) c l) = cntn nzb l + 1.
Proof.
  intros Hp E Hc. pose proof (cntn_upd nzb l (N.to_nat p) c ltac:(unfold lenN in Hp; lia)) as CU.
  cbv beta in CU. rewrite E in CU. destruct (N.eqb_spec c 0); [contradiction|].
  change (0 =? 0) with true in CU. cbn [negb b2n] in CU. lia.
Qed.

Lemma cntn_nz_clear l p : p < lenN l -> nN l p <> 0 ->
  cntn nzb (upd_nth (N.to_nat p) 0 l) + 1 = cntn nzb l.
Proof.
  intros Hp E. pose proof (cntn_upd nzb l (N.to_nat p) 0 ltac:(unfold lenN in Hp; lia)) as CU.
  cbv beta in CU. destruct (N.eqb_spec (nN l p) 0); [contradiction|].
  change (0 =? 0) with true in CU. cbn [negb b2n] in CU. lia.
Qed.

Lemma nth_repeat0 n k : nth k (repeat 0 n) 0 = 0.
Proof. revert k; induction n as [|n IH]; intros [|k]; cbn [repeat nth]; auto. Qed.

Lemma lenN_repeat0 n : lenN (repeat 0 (N.to_nat n)) = n.
Proof. unfold lenN. rewrite repeat_length. lia. Qed.

(* ================= canonical ids ================= *)
Definition mok (mg : list N) (N0 : N) : Prop :=
  lenN mg = N0 /\ forall id, 1 <= id <= N0 -> 1 <= nN mg (id - 1) <= id.

Lemma canon_loop_S k mg id : canon_loop (S k) mg id =
  obind (am_get 1 mg id) (fun nx => if nx =? id then Ok id else canon_loop k mg nx).
Proof. reflexivity. Qed.

Lemma canon_loop_ok mg N0 : mok mg N0 -> forall fuel id, 1 <= id <= N0 -> (N.to_nat id <= fuel)%nat ->
  exists c, canon_loop fuel mg id = Ok c /\ 1 <= c <= id /\ nN mg (c - 1) = c.
Proof.
  intros [L H] fuel. induction fuel as [|k IH]; intros id Hid Hf; [lia|].
  rewrite canon_loop_S. rewrite am_get1_ok by lia. cbn [obind].
  destruct (N.eqb_spec (nN mg (id - 1)) id) as [e|ne].
  - exists id. split; [reflexivity|]. split; [lia | exact e].
  - pose proof (H id Hid) as Hm.
    destruct (IH (nN mg (id - 1))) as [c [E [R F]]]; [lia | lia |].
    exists c. split; [exact E|]. split; [lia | exact F].
Qed.

Lemma canon_loop_mono mg : forall fuel id c, canon_loop fuel mg id = Ok c -> canon_loop (S fuel) mg id = Ok c.
Proof.
  induction fuel as [|k IH]; intros id c H; [discriminate|].
  rewrite canon_loop_S in H |- *. destruct (am_get 1 mg id) as [nx|]; cbn [obind] in *; [|discriminate].
  destruct (nx =? id); [exact H|]. apply IH. exact H.
Qed.

Definition cfm (mg : list N) (id : N) : N :=
  match (if id =? 0 then Ok 0 else canon_loop (S (length mg)) mg id) with Ok v => v | Panic _ => 0 end.

Lemma canonf_cfm g id : canonf g id = cfm (g_merged g) id.
Proof. reflexivity. Qed.

Lemma cfm_0 mg : cfm mg 0 = 0.
Proof. reflexivity. Qed.

Lemma cfm_spec mg N0 id : mok mg N0 -> 1 <= id <= N0 ->
  canon_loop (S (length mg)) mg id = Ok (cfm mg id) /\ 1 <= cfm mg id <= id /\
  nN mg (cfm mg id - 1) = cfm mg id.
Proof.
  intros Hm Hid. destruct (canon_loop_ok mg N0 Hm (S (length mg)) id Hid) as [c [E R]].
  { destruct Hm as [L _]. unfold lenN in L. lia. }
  unfold cfm. destruct (N.eqb_spec id 0); [lia|]. rewrite E. split; [reflexivity | exact R].
Qed.

Lemma cfm_step mg N0 id : mok mg N0 -> 1 <= id <= N0 ->
  cfm mg id = if nN mg (id - 1) =? id then id else cfm mg (nN mg (id - 1)).
Proof.
  intros Hm Hid. pose proof Hm as [L H]. unfold cfm at 1. destruct (N.eqb_spec id 0); [lia|].
  rewrite canon_loop_S. rewrite am_get1_ok by lia. cbn [obind].
  destruct (N.eqb_spec (nN mg (id - 1)) id) as [e|ne]; [reflexivity|].
  pose proof (H id Hid) as Hx.
  destruct (canon_loop_ok mg N0 Hm (length mg) (nN mg (id - 1))) as [c [E R]];
    [lia | unfold lenN in L; lia |].
  rewrite E. unfold cfm. destruct (N.eqb_spec (nN mg (id - 1)) 0); [lia|].
  rewrite (canon_loop_mono _ _ _ _ E). reflexivity.
Qed.

Lemma cfm_fix mg N0 c : mok mg N0 -> 1 <= c <= N0 -> nN mg (c - 1) = c -> cfm mg c = c.
Proof. intros Hm Hc E. rewrite (cfm_step mg N0 c Hm Hc), E, N.eqb_refl. reflexivity. Qed.

Lemma cfm_le mg N0 id : mok mg N0 -> id <= N0 -> cfm mg id <= id.
Proof.
  intros Hm Hid. destruct (N.eq_dec id 0) as [->|ne]; [rewrite cfm_0; lia|].
  apply (cfm_spec mg N0 id Hm). lia.
Qed.

Lemma cfm_zero mg N0 id : mok mg N0 -> id <= N0 -> cfm mg id = 0 -> id = 0.
Proof.
  intros Hm Hid E. destruct (N.eq_dec id 0) as [->|ne]; [reflexivity|].
  destruct (cfm_spec mg N0 id Hm) as [_ [R _]]; lia.
Qed.

Lemma g_canon_ok g N0 id : mok (g_merged g) N0 -> id <= N0 -> g_canon g id = Ok (canonf g id).
Proof.
  intros Hm Hid. rewrite canonf_cfm. unfold g_canon.
  destruct (N.eqb_spec id 0) as [->|ne]; [reflexivity|].
  apply (cfm_spec _ N0 id Hm). lia.
Qed.

(* merged[mf] := mt *)
Lemma cfm_merge mg N0 mt mf : mok mg N0 -> 1 <= mt -> mt < mf -> mf <= N0 ->
  nN mg (mt - 1) = mt -> nN mg (mf - 1) = mf ->
  mok (upd_nth (N.to_nat (mf - 1)) mt mg) N0 /\
  forall x, x <= N0 ->
    cfm (upd_nth (N.to_nat (mf - 1)) mt mg) x = if cfm mg x =? mf then mt else cfm mg x.
Proof.
  intros Hm H1 H2 H3 Et Ef. pose proof Hm as [L H].
  assert (Hm' : mok (upd_nth (N.to_nat (mf - 1)) mt mg) N0).
  { split; [rewrite lenN_updG; exact L|]. intros id Hid. rewrite nN_upd by lia.
    destruct (N.eqb_spec (id - 1) (mf - 1)); [lia | apply H; exact Hid]. }
  split; [exact Hm'|].
  assert (G : forall n x, (N.to_nat x <= n)%nat -> x <= N0 ->
    cfm (upd_nth (N.to_nat (mf - 1)) mt mg) x = if cfm mg x =? mf then mt else cfm mg x).
  { induction n as [|n IH]; intros x Hn Hx.
    - replace x with 0 by lia. rewrite !cfm_0. destruct (N.eqb_spec 0 mf); [lia | reflexivity].
    - destruct (N.eq_dec x 0) as [->|nz].
      { rewrite !cfm_0. destruct (N.eqb_spec 0 mf); [lia | reflexivity]. }
      assert (Hx1 : 1 <= x <= N0) by lia.
      rewrite (cfm_step _ N0 x Hm' Hx1). rewrite (cfm_step mg N0 x Hm Hx1).
      rewrite nN_upd by lia. pose proof (H x Hx1) as Hr.
      destruct (N.eqb_spec (x - 1) (mf - 1)) as [e|ne].
      + assert (x = mf) by lia. subst x. rewrite Ef, N.eqb_refl.
        destruct (N.eqb_spec mt mf); [lia|]. rewrite N.eqb_refl.
        apply (cfm_fix _ N0 mt Hm'); [lia|]. rewrite nN_upd by lia.
        destruct (N.eqb_spec (mt - 1) (mf - 1)); [lia | exact Et].
      + destruct (N.eqb_spec (nN mg (x - 1)) x) as [e|ne2].
        * destruct (N.eqb_spec x mf); [lia | reflexivity].
        * apply IH; lia. }
  intros x Hx. apply (G (N.to_nat x)); [lia | exact Hx].
Qed.

(* ================= the structural part of the invariant ================= *)
Record cg_core (g : ccg) (N0 : N) : Prop := mkCore {
  cc_N0 : N0 < 65536;
  cc_len : lenN (g_node g) = N0 /\ lenN (g_merged g) = N0 /\ lenN (g_size g) = N0;
  cc_num : g_num g <= N0;
  cc_node : forall p, p < N0 -> nN (g_node g) p <= g_num g;
  cc_merged : forall id, 1 <= id <= N0 ->
     1 <= nN (g_merged g) (id - 1) <= id /\ (g_num g < id -> nN (g_merged g) (id - 1) = id);
  cc_size : forall c, 1 <= c <= N0 ->
     nN (g_size g) (c - 1) =
       if nN (g_merged g) (c - 1) =? c then cntn (fun v => canonf g v =? c) (g_node g) else 0 }.

Lemma cg_split g N0 D : cg_inv g N0 D <->
  cg_core g N0 /\ (NoDup D /\ forall p, In p D -> p < N0 /\ ~ nzn g p) /\
  g_num g <= cntn (fun v => negb (v =? 0)) (g_node g) + lenN D.
Proof.
  split.
  - intros []. split; [constructor; assumption | split; assumption].
  - intros [[] []]. constructor; assumption.
Qed.

Lemma core_mok g N0 : cg_core g N0 -> mok (g_merged g) N0.
Proof. intros C. split; [apply C|]. intros id Hid. apply (cc_merged _ _ C id Hid). Qed.

Lemma core_in_node g N0 v : cg_core g N0 -> In v (g_node g) -> v <= g_num g.
Proof.
  intros C Hin. destruct (In_nth _ _ 0 Hin) as [k [Lk Ek]].
  pose proof (cc_node _ _ C (N.of_nat k)) as H. destruct (cc_len _ _ C) as [Ln _].
  unfold lenN in Ln. rewrite Nat2N.id in H. rewrite <- Ek. apply H. lia.
Qed.

Lemma core_canon g N0 v : cg_core g N0 -> v <= g_num g -> v <> 0 ->
  1 <= canonf g v <= v /\ nN (g_merged g) (canonf g v - 1) = canonf g v.
Proof.
  intros C Hv Hz. pose proof (cc_num _ _ C). rewrite canonf_cfm.
  apply (cfm_spec _ N0 v (core_mok _ _ C)). lia.
Qed.

Lemma cntn_canonf_eq g' g c l : g_merged g' = g_merged g ->
  cntn (fun v => canonf g' v =? c) l = cntn (fun v => canonf g v =? c) l.
Proof. intros E. apply cntn_ext. intros x _. rewrite !canonf_cfm, E. reflexivity. Qed.

Lemma cntn_swap f l a b : a < lenN l -> b < lenN l ->
  cntn f (upd_nth (N.to_nat b) (nN l a) (upd_nth (N.to_nat a) (nN l b) l)) = cntn f l.
Proof.
  intros Ha Hb.
  pose proof (cntn_upd f l (N.to_nat a) (nN l b) ltac:(unfold lenN in Ha; lia)) as C1.
  pose proof (cntn_upd f (upd_nth (N.to_nat a) (nN l b) l) (N.to_nat b) (nN l a)
                ltac:(rewrite upd_nth_length; unfold lenN in Hb; lia)) as C2.
  rewrite nN_upd in C2 by exact Ha. destruct (b =? a); lia.
Qed.

Lemma core_assign g N0 p c : cg_core g N0 -> p < N0 -> nN (g_node g) p = 0 -> 1 <= c <= g_num g ->
  nN (g_merged g) (c - 1) = c ->
  nN (g_size g) (c - 1) + 1 <= N0 /\
  cg_core (mkG (upd_nth (N.to_nat p) c (g_node g)) (g_merged g)
               (upd_nth (N.to_nat (c - 1)) (nN (g_size g) (c - 1) + 1) (g_size g)) (g_num g)) N0.
Proof.
  intros C Hp Ep Hc Ec. pose proof (core_mok _ _ C) as Hm.
  destruct C as [HN [Ln [Lm Ls]] Hnum Hnode Hmer Hsz].
  assert (CU : forall c', 1 <= c' <= N0 ->
    cntn (fun v => canonf g v =? c') (upd_nth (N.to_nat p) c (g_node g)) =
    cntn (fun v => canonf g v =? c') (g_node g) + b2n (c =? c')).
  { intros c' Hc'.
    pose proof (cntn_upd (fun v => canonf g v =? c') (g_node g) (N.to_nat p) c
                  ltac:(unfold lenN in Ln; lia)) as CU.
    cbv beta in CU. rewrite Ep in CU.
    rewrite (canonf_cfm g 0), cfm_0, (canonf_cfm g c), (cfm_fix _ N0 c Hm) in CU by (try lia; exact Ec).
    destruct (N.eqb_spec 0 c'); [lia|]. cbn [b2n] in CU. lia. }
  assert (B : nN (g_size g) (c - 1) + 1 <= N0).
  { rewrite Hsz by lia. rewrite Ec, N.eqb_refl.
    pose proof (CU c ltac:(lia)) as CUc. rewrite N.eqb_refl in CUc. cbn [b2n] in CUc.
    rewrite <- CUc. eapply N.le_trans; [apply cntn_le | rewrite lenN_updG, Ln; lia]. }
  split; [exact B|].
  constructor; cbn [g_node g_merged g_size g_num]; try assumption.
  - rewrite !lenN_updG. auto.
  - intros q Hq. rewrite nN_upd by lia. destruct (q =? p); [lia | apply Hnode; exact Hq].
  - intros c' Hc'. rewrite nN_upd by lia.
    rewrite (cntn_canonf_eq _ g) by reflexivity. rewrite (CU c' Hc').
    destruct (N.eqb_spec (c' - 1) (c - 1)) as [e|ne].
    + assert (c' = c) by lia. subst c'. rewrite Ec, !N.eqb_refl. cbn [b2n].
      rewrite Hsz by lia. rewrite Ec, N.eqb_refl. reflexivity.
    + rewrite Hsz by exact Hc'. destruct (N.eqb_spec c c'); [lia|]. cbn [b2n].
      destruct (_ =? c'); [lia | reflexivity].
Qed.

Lemma core_clear g N0 p : cg_core g N0 -> p < N0 -> nN (g_node g) p <> 0 ->
  1 <= canonf g (nN (g_node g) p) <= N0 /\
  1 <= nN (g_size g) (canonf g (nN (g_node g) p) - 1) /\
  cg_core (mkG (upd_nth (N.to_nat p) 0 (g_node g)) (g_merged g)
               (upd_nth (N.to_nat (canonf g (nN (g_node g) p) - 1))
                        (nN (g_size g) (canonf g (nN (g_node g) p) - 1) - 1) (g_size g)) (g_num g)) N0.
Proof.
  intros C Hp Ep. pose proof (core_mok _ _ C) as Hm.
  pose proof (core_canon g N0 _ C (cc_node _ _ C p Hp) Ep) as [Hc Ec].
  pose proof (cc_node _ _ C p Hp) as Hv.
  set (c := canonf g (nN (g_node g) p)) in *.
  destruct C as [HN [Ln [Lm Ls]] Hnum Hnode Hmer Hsz].
  assert (CU : forall c', 1 <= c' <= N0 ->
    cntn (fun v => canonf g v =? c') (upd_nth (N.to_nat p) 0 (g_node g)) + b2n (c =? c') =
    cntn (fun v => canonf g v =? c') (g_node g)).
  { intros c' Hc'.
    pose proof (cntn_upd (fun v => canonf g v =? c') (g_node g) (N.to_nat p) 0
                  ltac:(unfold lenN in Ln; lia)) as CU.
    cbv beta in CU. fold c in CU.
    rewrite (canonf_cfm g 0), cfm_0 in CU.
    destruct (N.eqb_spec 0 c'); [lia|]. cbn [b2n] in CU. lia. }
  assert (B : 1 <= nN (g_size g) (c - 1)).
  { rewrite Hsz by lia. rewrite Ec, N.eqb_refl.
    pose proof (CU c ltac:(lia)) as CUc. rewrite N.eqb_refl in CUc. cbn [b2n] in CUc. lia. }
  split; [lia|]. split; [exact B|].
  constructor; cbn [g_node g_merged g_size g_num]; try assumption.
  - rewrite !lenN_updG. auto.
  - intros q Hq. rewrite nN_upd by lia. destruct (q =? p); [lia | apply Hnode; exact Hq].
  - intros c' Hc'. rewrite nN_upd by lia.
    rewrite (cntn_canonf_eq _ g) by reflexivity. pose proof (CU c' Hc') as CUc.
    destruct (N.eqb_spec (c' - 1) (c - 1)) as [e|ne].
    + assert (c' = c) by lia. subst c'. rewrite Ec, !N.eqb_refl in *. cbn [b2n] in CUc.
      rewrite Hsz by lia. rewrite Ec, N.eqb_refl. lia.
    + rewrite Hsz by exact Hc'. destruct (N.eqb_spec c c'); [lia|]. cbn [b2n] in CUc.
      destruct (_ =? c'); [lia | reflexivity].
Qed.

Lemma core_create g N0 : cg_core g N0 -> g_num g + 1 <= N0 ->
  cg_core (mkG (g_node g) (g_merged g) (g_size g) (g_num g + 1)) N0.
Proof.
  intros [HN HL Hnum Hnode Hmer Hsz] H.
  constructor; cbn [g_node g_merged g_size g_num]; try assumption.
  - intros p Hp. specialize (Hnode p Hp). lia.
  - intros id Hid. split; [apply Hmer; exact Hid|]. intros Hl. apply Hmer; lia.
Qed.

Lemma core_swap g N0 a b : cg_core g N0 -> a < N0 -> b < N0 ->
  cg_core (mkG (upd_nth (N.to_nat b) (nN (g_node g) a) (upd_nth (N.to_nat a) (nN (g_node g) b) (g_node g)))
               (g_merged g) (g_size g) (g_num g)) N0.
Proof.
  intros [HN [Ln [Lm Ls]] Hnum Hnode Hmer Hsz] Ha Hb.
  constructor; cbn [g_node g_merged g_size g_num]; try assumption.
  - rewrite !lenN_updG. auto.
  - intros p Hp. rewrite nN_upd by (rewrite lenN_updG; lia). rewrite nN_upd by lia.
    destruct (p =? b); [apply Hnode; exact Ha|]. destruct (p =? a); apply Hnode; assumption.
  - intros c Hc. rewrite (cntn_canonf_eq _ g) by reflexivity. rewrite cntn_swap by lia.
    apply Hsz. exact Hc.
Qed.

Lemma core_merge g N0 mt mf : cg_core g N0 -> 1 <= mt -> mt < mf -> mf <= g_num g ->
  nN (g_merged g) (mt - 1) = mt -> nN (g_merged g) (mf - 1) = mf ->
  nN (g_size g) (mt - 1) + nN (g_size g) (mf - 1) <= N0 /\
  cg_core (mkG (g_node g) (upd_nth (N.to_nat (mf - 1)) mt (g_merged g))
               (upd_nth (N.to_nat (mt - 1)) (nN (g_size g) (mt - 1) + nN (g_size g) (mf - 1))
                        (upd_nth (N.to_nat (mf - 1)) 0 (g_size g))) (g_num g)) N0.
Proof.
  intros C H1 H2 H3 Et Ef. pose proof (core_mok _ _ C) as Hm.
  pose proof (fun v => core_in_node g N0 v C) as Hin.
  destruct C as [HN [Ln [Lm Ls]] Hnum Hnode Hmer Hsz].
  destruct (cfm_merge _ N0 mt mf Hm H1 H2 ltac:(lia) Et Ef) as [Hm' Hcf].
  pose proof (Hsz mt ltac:(lia)) as St. rewrite Et, N.eqb_refl in St.
  pose proof (Hsz mf ltac:(lia)) as Sf. rewrite Ef, N.eqb_refl in Sf.
  assert (B : nN (g_size g) (mt - 1) + nN (g_size g) (mf - 1) <= N0).
  { rewrite St, Sf. rewrite <- Ln. apply cntn_disj. intros x _ E1 E2.
    apply N.eqb_eq in E1, E2. lia. }
  split; [exact B|].
  constructor; cbn [g_node g_merged g_size g_num]; try assumption.
  - rewrite !lenN_updG. auto.
  - intros id Hid. rewrite nN_upd by lia. destruct (N.eqb_spec (id - 1) (mf - 1)).
    + split; [lia|]. intros; lia.
    + apply Hmer. exact Hid.
  - intros c Hc. rewrite nN_upd by (rewrite lenN_updG; lia). rewrite nN_upd by lia.
    rewrite nN_upd by lia.
    destruct (N.eqb_spec (c - 1) (mt - 1)) as [e1|n1].
    + assert (c = mt) by lia. subst c.
      destruct (N.eqb_spec (mt - 1) (mf - 1)); [lia|]. rewrite Et, N.eqb_refl.
      rewrite St, Sf. symmetry. apply cntn_or.
      * intros x Hx. cbv beta. rewrite !canonf_cfm. cbn [g_merged].
        rewrite Hcf by (specialize (Hin x Hx); lia).
        destruct (N.eqb_spec (cfm (g_merged g) x) mf) as [e|ne]; [rewrite N.eqb_refl, orb_true_r; reflexivity|].
        rewrite orb_false_r. reflexivity.
      * intros x _ E1 E2. apply N.eqb_eq in E1, E2. lia.
    + destruct (N.eqb_spec (c - 1) (mf - 1)) as [e2|n2].
      * destruct (N.eqb_spec mt c); [lia | reflexivity].
      * rewrite Hsz by exact Hc. destruct (_ =? c); [|reflexivity].
        apply cntn_ext. intros x Hx. cbv beta. rewrite !canonf_cfm. cbn [g_merged].
        rewrite Hcf by (specialize (Hin x Hx); lia).
        destruct (N.eqb_spec (cfm (g_merged g) x) mf) as [e|ne].
        -- rewrite e. destruct (N.eqb_spec mf c), (N.eqb_spec mt c); try lia; reflexivity.
        -- reflexivity.
Qed.

(* ================= the stated lemmas ================= *)
Lemma merged_id_nth N0 id : N0 < 65536 -> 1 <= id <= N0 ->
  nN (map u16 (seqN 1 (1 + N0))) (id - 1) = id.
Proof.
  intros HN Hid.
  rewrite (nth_indep _ 0 (u16 0)) by (rewrite map_length, seqN_length; lia).
  rewrite map_nth. rewrite seqN_nth by lia. rewrite u16_small by lia. lia.
Qed.

Lemma cg_new N0 : N0 < 65536 -> cg_inv (g_new N0) N0 [] /\ forall p, ~ nzn (g_new N0) p.
Proof.
  intros HN. split.
  - unfold g_new. constructor; cbn [g_node g_merged g_size g_num].
    + exact HN.
    + rewrite !lenN_repeat0. split; [reflexivity|]. split; [|reflexivity].
      unfold lenN. rewrite map_length, seqN_length. lia.
    + lia.
    + intros p _. rewrite nth_repeat0. lia.
    + intros id Hid. rewrite merged_id_nth by assumption. split; [lia | reflexivity].
    + intros c Hc. rewrite nth_repeat0. rewrite merged_id_nth by assumption. rewrite N.eqb_refl.
      symmetry. apply cntn_zero. intros x Hx. apply repeat_spec in Hx. subst x.
      rewrite canonf_cfm, cfm_0. destruct (N.eqb_spec 0 c); [lia | reflexivity].
    + split; [constructor | intros p []].
    + lia.
  - intros p. unfold nzn, g_new. cbn [g_node]. rewrite nth_repeat0. intros H. apply H. reflexivity.
Qed.

(* a dead position can be forgotten only by proving it again; more dead positions is harmless as
   long as they are unassigned *)
Lemma cg_dead_ext g N0 D D' : cg_inv g N0 D -> NoDup D' -> incl D D' ->
  (forall p, In p D' -> p < N0 /\ ~ nzn g p) -> cg_inv g N0 D'.
Proof.
  intros I ND' Hi HD'. apply cg_split in I. destruct I as [C [[ND HD] P]].
  apply cg_split. split; [exact C|]. split; [split; assumption|].
  pose proof (NoDup_incl_length ND Hi) as L. unfold lenN in *. lia.
Qed.

Lemma cg_canon_total g N0 D id : cg_inv g N0 D -> id <= N0 -> exists v, g_canon g id = Ok v.
Proof.
  intros I Hid. apply cg_split in I. destruct I as [C _].
  exists (canonf g id). apply (g_canon_ok g N0); [apply core_mok; exact C | exact Hid].
Qed.

(* assigning an unassigned live node to a canonical component *)
Lemma inv_assign g N0 D p c : cg_inv g N0 D -> p < N0 -> ~ In p D -> nN (g_node g) p = 0 ->
  1 <= c <= g_num g -> nN (g_merged g) (c - 1) = c ->
  nN (g_size g) (c - 1) + 1 <= N0 /\
  cg_inv (mkG (upd_nth (N.to_nat p) c (g_node g)) (g_merged g)
               (upd_nth (N.to_nat (c - 1)) (nN (g_size g) (c - 1) + 1) (g_size g)) (g_num g)) N0 D /\
  forall q, nzn (mkG (upd_nth (N.to_nat p) c (g_node g)) (g_merged g)
               (upd_nth (N.to_nat (c - 1)) (nN (g_size g) (c - 1) + 1) (g_size g)) (g_num g)) q <->
            (nzn g q \/ q = p).
Proof.
  intros I Hp HpD Ep Hc Ec. apply cg_split in I. destruct I as [C [[ND HD] P]].
  destruct (core_assign g N0 p c C Hp Ep Hc Ec) as [B C'].
  destruct (cc_len _ _ C) as [Ln _].
  assert (NZ : forall q, nzn (mkG (upd_nth (N.to_nat p) c (g_node g)) (g_merged g)
               (upd_nth (N.to_nat (c - 1)) (nN (g_size g) (c - 1) + 1) (g_size g)) (g_num g)) q <->
            (nzn g q \/ q = p)).
  { intros q. unfold nzn. cbn [g_node]. rewrite nN_upd by lia.
    destruct (N.eqb_spec q p) as [->|ne]; [split; [auto | intros _; lia]|].
    split; [auto | intros [H|H]; [exact H | contradiction]]. }
  split; [exact B|]. split; [|exact NZ].
  apply cg_split. split; [exact C'|]. split.
  - split; [exact ND|]. intros q Hq. destruct (HD q Hq) as [Lq Nq]. split; [exact Lq|].
    intros H. apply NZ in H. destruct H as [H|H]; [contradiction | subst q; contradiction].
  - cbn [g_node g_num]. rewrite cntn_nz_set by lia. lia.
Qed.

Lemma assign_ops m g N0 p c : cg_core g N0 -> p < N0 -> 1 <= c <= g_num g ->
  nN (g_size g) (c - 1) + 1 <= N0 ->
  am_inc m 1 (g_size g) c = Ok (upd_nth (N.to_nat (c - 1)) (nN (g_size g) (c - 1) + 1) (g_size g)) /\
  putN (g_node g) p (u16 c) = Ok (upd_nth (N.to_nat p) c (g_node g)).
Proof.
  intros C Hp Hc B. destruct (cc_len _ _ C) as [Ln [Lm Ls]]. pose proof (cc_N0 _ _ C). pose proof (cc_num _ _ C).
  split.
  - apply am_inc1_ok; lia.
  - rewrite u16_small by lia. apply putN_ok. unfold lenN in Ln. lia.
Qed.

(* a fresh component with two nodes *)
Lemma core_new_pair g N0 a b : cg_core g N0 -> g_num g + 1 <= N0 -> a < N0 -> b < N0 -> a <> b ->
  nN (g_node g) a = 0 -> nN (g_node g) b = 0 ->
  cg_core (mkG (upd_nth (N.to_nat b) (g_num g + 1) (upd_nth (N.to_nat a) (g_num g + 1) (g_node g)))
               (g_merged g) (upd_nth (N.to_nat (g_num g + 1 - 1)) 2 (g_size g)) (g_num g + 1)) N0.
Proof.
  intros C Hn Ha Hb Hab Ea Eb. pose proof (core_mok _ _ C) as Hm.
  destruct (cc_len _ _ C) as [Ln [Lm Ls]].
  assert (Eid : nN (g_merged g) (g_num g + 1 - 1) = g_num g + 1) by (apply (cc_merged _ _ C); lia).
  assert (Z : nN (g_size g) (g_num g + 1 - 1) = 0).
  { rewrite (cc_size _ _ C) by lia. rewrite Eid, N.eqb_refl. apply cntn_zero. intros x Hx.
    pose proof (core_in_node _ _ _ C Hx) as Lx. rewrite canonf_cfm.
    pose proof (cfm_le _ N0 x Hm ltac:(lia)). destruct (N.eqb_spec (cfm (g_merged g) x) (g_num g + 1)); [lia | reflexivity]. }
  pose proof (core_create g N0 C Hn) as C1.
  destruct (core_assign _ N0 a (g_num g + 1) C1 Ha Ea ltac:(cbn [g_num]; lia) Eid) as [_ C2].
  cbn [g_node g_merged g_size g_num] in C2.
  destruct (core_assign _ N0 b (g_num g + 1) C2 Hb) as [_ C3]; cbn [g_node g_merged g_size g_num].
  { rewrite nN_upd by lia. destruct (N.eqb_spec b a); [congruence | exact Eb]. }
  { lia. }
  { exact Eid. }
  cbn [g_node g_merged g_size g_num] in C3. rewrite nN_upd in C3 by lia. rewrite N.eqb_refl in C3.
  rewrite upd_nth_upd in C3. rewrite Z in C3. exact C3.
Qed.

Lemma cg_add_edge m g N0 D a b : cg_inv g N0 D -> a < N0 -> b < N0 -> a <> b -> ~ In a D -> ~ In b D ->
  exists g', g_add_edge m g a b = Ok g' /\ cg_inv g' N0 D /\
    forall p, nzn g' p <-> (nzn g p \/ p = a \/ p = b).
Proof.
  intros I Ha Hb Hab HaD HbD. pose proof I as I0. apply cg_split in I. destruct I as [C [[ND HD] P]].
  pose proof (core_mok _ _ C) as Hm.
  destruct (cc_len _ _ C) as [Ln [Lm Ls]]. pose proof (cc_N0 _ _ C) as HN. pose proof (cc_num _ _ C) as Hnum.
  pose proof (cc_node _ _ C a Ha) as Hva. pose proof (cc_node _ _ C b Hb) as Hvb.
  unfold g_add_edge.
  rewrite (getN_ok _ a 0) by (unfold lenN in Ln; lia). cbn [obind].
  rewrite (g_canon_ok g N0) by (first [exact Hm | lia]). cbn [obind].
  rewrite (getN_ok _ b 0) by (unfold lenN in Ln; lia). cbn [obind].
  rewrite (g_canon_ok g N0) by (first [exact Hm | lia]). cbn [obind].
  assert (Z : forall v, v <= g_num g -> (canonf g v = 0 <-> v = 0)).
  { intros v Hv. split; [intros E; rewrite canonf_cfm in E; apply (cfm_zero _ N0 v Hm) in E; [exact E | lia]
                        | intros ->; reflexivity]. }
  destruct (N.eqb_spec (canonf g (nN (g_node g) a)) 0) as [e1|n1];
    destruct (N.eqb_spec (canonf g (nN (g_node g) b)) 0) as [e2|n2]; cbn [andb].
  - (* both unassigned *)
    apply (proj1 (Z _ Hva)) in e1. apply (proj1 (Z _ Hvb)) in e2.
    assert (F : cntn nzb (g_node g) + lenN (a :: b :: D) <= lenN (g_node g)).
    { apply cntn_free.
      - constructor; [intros [H|H]; [congruence | contradiction]|]. constructor; assumption.
      - intros x [<-|[<-|Hx]]; [split; [lia | exact e1] | split; [lia | exact e2] |].
        destruct (HD x Hx) as [Lx Nx]. split; [lia|]. unfold nzn in Nx.
        destruct (N.eq_dec (nN (g_node g) x) 0); [assumption | contradiction]. }
    assert (Hn : g_num g + 1 <= N0) by (unfold lenN in *; cbn [length] in F; lia).
    pose proof (core_new_pair g N0 a b C Hn Ha Hb Hab e1 e2) as C'.
    unfold g_create. cbv beta iota zeta. cbn [g_node g_merged g_size g_num].
    rewrite (u16_small (g_num g + 1)) by lia.
    rewrite putN_ok by (unfold lenN in Ln; lia). cbn [obind].
    rewrite putN_ok by (rewrite upd_nth_length; unfold lenN in Ln; lia). cbn [obind].
    rewrite am_put1_ok by lia. cbn [obind].
    eexists. split; [reflexivity|].
    assert (NZ : forall p, nzn (mkG (upd_nth (N.to_nat b) (g_num g + 1) (upd_nth (N.to_nat a) (g_num g + 1) (g_node g)))
               (g_merged g) (upd_nth (N.to_nat (g_num g + 1 - 1)) 2 (g_size g)) (g_num g + 1)) p <->
               (nzn g p \/ p = a \/ p = b)).
    { intros p. unfold nzn. cbn [g_node]. rewrite nN_upd by (rewrite lenN_updG; lia). rewrite nN_upd by lia.
      destruct (N.eqb_spec p b) as [->|nb]; [split; [auto | intros _; lia]|].
      destruct (N.eqb_spec p a) as [->|na]; [split; [auto | intros _; lia]|].
      split; [auto | intros [H|[H|H]]; [exact H | contradiction | contradiction]]. }
    split; [|exact NZ].
    apply cg_split. split; [exact C'|]. split.
    + split; [exact ND|]. intros q Hq. destruct (HD q Hq) as [Lq Nq]. split; [exact Lq|].
      intros H. apply NZ in H. destruct H as [H|[H|H]]; [contradiction | subst q; contradiction | subst q; contradiction].
    + cbn [g_node g_num]. rewrite cntn_nz_set; [| rewrite lenN_updG; lia | | lia].
      * rewrite cntn_nz_set by lia. lia.
      * rewrite nN_upd by lia. destruct (N.eqb_spec b a); [congruence | exact e2].
  - (* a joins the component of b *)
    apply (proj1 (Z _ Hva)) in e1.
    assert (nb : nN (g_node g) b <> 0) by (intros E; apply n2; apply (Z _ Hvb); exact E).
    destruct (core_canon g N0 _ C Hvb nb) as [Rc Ec].
    destruct (inv_assign g N0 D a (canonf g (nN (g_node g) b)) I0 Ha HaD e1 ltac:(lia) Ec) as [B [I' NZ]].
    destruct (assign_ops m g N0 a (canonf g (nN (g_node g) b)) C Ha ltac:(lia) B) as [O1 O2].
    rewrite O1. cbn [obind]. rewrite O2. cbn [obind].
    eexists. split; [reflexivity|]. split; [exact I'|].
    intros p. rewrite NZ. unfold nzn. split; [tauto|]. intros [H|[H|H]]; [auto | auto | subst p; auto].
  - (* b joins the component of a *)
    apply (proj1 (Z _ Hvb)) in e2.
    assert (na : nN (g_node g) a <> 0) by (intros E; apply n1; apply (Z _ Hva); exact E).
    destruct (core_canon g N0 _ C Hva na) as [Rc Ec].
    destruct (inv_assign g N0 D b (canonf g (nN (g_node g) a)) I0 Hb HbD e2 ltac:(lia) Ec) as [B [I' NZ]].
    destruct (assign_ops m g N0 b (canonf g (nN (g_node g) a)) C Hb ltac:(lia) B) as [O1 O2].
    rewrite O1. cbn [obind]. rewrite O2. cbn [obind].
    eexists. split; [reflexivity|]. split; [exact I'|].
    intros p. rewrite NZ. unfold nzn. split; [tauto|]. intros [H|[H|H]]; [auto | subst p; auto | auto].
  - (* both assigned *)
    assert (na : nN (g_node g) a <> 0) by (intros E; apply n1; apply (Z _ Hva); exact E).
    assert (nb : nN (g_node g) b <> 0) by (intros E; apply n2; apply (Z _ Hvb); exact E).
    destruct (core_canon g N0 _ C Hva na) as [Ra Ea].
    destruct (core_canon g N0 _ C Hvb nb) as [Rb Eb].
    assert (NZ : forall p, nzn g p <-> (nzn g p \/ p = a \/ p = b)).
    { intros p. unfold nzn. split; [auto|]. intros [H|[H|H]]; [exact H | subst p; exact na | subst p; exact nb]. }
    destruct (N.eqb_spec (canonf g (nN (g_node g) a)) (canonf g (nN (g_node g) b))) as [e|ne]; cbn [negb].
    + exists g. split; [reflexivity|]. split; [exact I0 | exact NZ].
    + set (c1 := canonf g (nN (g_node g) a)) in *. set (c2 := canonf g (nN (g_node g) b)) in *.
      assert (Emt : nN (g_merged g) (N.min c1 c2 - 1) = N.min c1 c2).
      { destruct (N.min_spec c1 c2) as [[_ ->]|[_ ->]]; assumption. }
      assert (Emf : nN (g_merged g) (N.max c1 c2 - 1) = N.max c1 c2).
      { destruct (N.max_spec c1 c2) as [[_ ->]|[_ ->]]; assumption. }
      destruct (core_merge g N0 (N.min c1 c2) (N.max c1 c2) C ltac:(lia) ltac:(lia) ltac:(lia) Emt Emf) as [B C'].
      rewrite !am_get1_ok by lia. cbn [obind].
      rewrite am_put1_ok by lia. cbn [obind].
      rewrite add_w_small' by (change (2 ^ 16) with 65536; lia). cbn [obind].
      rewrite am_put1_ok by (rewrite lenN_updG; lia). cbn [obind].
      rewrite u16_small by lia.
      rewrite am_put1_ok by lia. cbn [obind].
      eexists. split; [reflexivity|]. split; [|exact NZ].
      apply cg_split. split; [exact C'|]. split; [split; assumption | exact P].
Qed.

Lemma lenN_cons {A} (x : A) l : lenN (x :: l) = lenN l + 1.
Proof. unfold lenN. cbn [length]. lia. Qed.

Lemma cg_remove_node m g N0 D p : cg_inv g N0 D -> p < N0 -> ~ In p D ->
  exists g', g_remove_node m g p = Ok g' /\ cg_inv g' N0 (p :: D) /\
    forall q, nzn g' q <-> (nzn g q /\ q <> p).
Proof.
  intros I Hp HpD. pose proof I as I0. apply cg_split in I. destruct I as [C [[ND HD] P]].
  pose proof (core_mok _ _ C) as Hm.
  destruct (cc_len _ _ C) as [Ln [Lm Ls]]. pose proof (cc_N0 _ _ C) as HN. pose proof (cc_num _ _ C) as Hnum.
  pose proof (cc_node _ _ C p Hp) as Hv.
  unfold g_remove_node.
  rewrite (getN_ok _ p 0) by (unfold lenN in Ln; lia). cbn [obind].
  rewrite (g_canon_ok g N0) by (first [exact Hm | lia]). cbn [obind].
  destruct (N.eqb_spec (canonf g (nN (g_node g) p)) 0) as [e|ne].
  - rewrite canonf_cfm in e. apply (cfm_zero _ N0 _ Hm) in e; [|lia].
    exists g. split; [reflexivity|]. split.
    + apply cg_split. split; [exact C|]. split.
      * split; [constructor; assumption|]. intros q [eq|Hq]; [subst q|apply HD; exact Hq].
        split; [exact Hp|]. unfold nzn. intros H. apply H. exact e.
      * rewrite lenN_cons. lia.
    + intros q. unfold nzn. split; [|tauto]. intros H. split; [exact H|]. intros ->. apply H. exact e.
  - assert (nz : nN (g_node g) p <> 0) by (intros E; apply ne; rewrite E; reflexivity).
    destruct (core_clear g N0 p C Hp nz) as [Rc [B C']].
    rewrite am_dec1_ok by lia. cbn [obind].
    rewrite putN_ok by (unfold lenN in Ln; lia). cbn [obind].
    eexists. split; [reflexivity|].
    assert (NZ : forall q, nzn (mkG (upd_nth (N.to_nat p) 0 (g_node g)) (g_merged g)
               (upd_nth (N.to_nat (canonf g (nN (g_node g) p) - 1))
                        (nN (g_size g) (canonf g (nN (g_node g) p) - 1) - 1) (g_size g)) (g_num g)) q <->
               (nzn g q /\ q <> p)).
    { intros q. unfold nzn. cbn [g_node]. rewrite nN_upd by lia.
      destruct (N.eqb_spec q p) as [->|nq]; [split; [intros H; exfalso; apply H; reflexivity | tauto]|].
      tauto. }
    split; [|exact NZ].
    apply cg_split. split; [exact C'|]. split.
    + split; [constructor; assumption|]. intros q Hq. split.
      * destruct Hq as [eq|Hq]; [subst q; exact Hp | apply HD; exact Hq].
      * intros H. apply NZ in H. destruct H as [H1 H2]. destruct Hq as [e|Hq]; [congruence|].
        apply (HD q Hq). exact H1.
    + cbn [g_node g_num]. rewrite lenN_cons. pose proof (cntn_nz_clear (g_node g) p ltac:(lia) nz). lia.
Qed.

Lemma cg_swap g N0 D a b : cg_inv g N0 D -> a < N0 -> b < N0 -> ~ In a D -> ~ In b D ->
  exists g', g_swap g a b = Ok g' /\ cg_inv g' N0 D /\
    forall p, nzn g' p <-> nzn g (if p =? a then b else if p =? b then a else p).
Proof.
  intros I Ha Hb HaD HbD. apply cg_split in I. destruct I as [C [[ND HD] P]].
  destruct (cc_len _ _ C) as [Ln [Lm Ls]].
  unfold g_swap, swapN.
  rewrite (getN_ok _ a 0) by (unfold lenN in Ln; lia). cbn [obind].
  rewrite (getN_ok _ b 0) by (unfold lenN in Ln; lia). cbn [obind].
  rewrite putN_ok by (unfold lenN in Ln; lia). cbn [obind].
  rewrite putN_ok by (rewrite upd_nth_length; unfold lenN in Ln; lia). cbn [obind].
  eexists. split; [reflexivity|].
  assert (NZ : forall p, nzn (mkG (upd_nth (N.to_nat b) (nN (g_node g) a) (upd_nth (N.to_nat a) (nN (g_node g) b) (g_node g)))
               (g_merged g) (g_size g) (g_num g)) p <->
               nzn g (if p =? a then b else if p =? b then a else p)).
  { intros p. unfold nzn. cbn [g_node]. rewrite nN_upd by (rewrite lenN_updG; lia). rewrite nN_upd by lia.
    destruct (N.eqb_spec p b) as [eb|nb]; destruct (N.eqb_spec p a) as [ea|na]; subst; tauto. }
  split; [|exact NZ].
  apply cg_split. split; [apply core_swap; assumption|]. split.
  - split; [exact ND|]. intros q Hq. destruct (HD q Hq) as [Lq Nq]. split; [exact Lq|].
    intros H. apply NZ in H.
    destruct (N.eqb_spec q a) as [->|na]; [contradiction|].
    destruct (N.eqb_spec q b) as [->|nb]; [contradiction|]. contradiction.
  - cbn [g_node g_num]. rewrite cntn_swap by lia. exact P.
Qed.

(* ---- get_node_in_largest_connected_component ---- *)
Lemma largest_fold g N0 : lenN (g_size g) = N0 -> forall ids, (forall i, In i ids -> 1 <= i <= N0) ->
  forall acc : N * N,
  ((fst acc = 0 /\ snd acc = 0) \/ (1 <= fst acc /\ 1 <= snd acc <= N0 /\ nN (g_size g) (snd acc - 1) = fst acc)) ->
  exists acc', ofold (fun i (acc : N * N) =>
            sz <- am_get 1 (g_size g) i ;;
            Ok (if fst acc <? sz then (sz, i) else acc))%outcome ids acc = Ok acc' /\
    ((fst acc' = 0 /\ snd acc' = 0) \/
     (1 <= fst acc' /\ 1 <= snd acc' <= N0 /\ nN (g_size g) (snd acc' - 1) = fst acc')) /\
    fst acc <= fst acc' /\ forall i, In i ids -> nN (g_size g) (i - 1) <= fst acc'.
Proof.
  intros Ls. induction ids as [|i t IH]; intros Hin acc Q.
  - exists acc. split; [reflexivity|]. split; [exact Q|]. split; [lia | intros i []].
  - cbn [ofold]. pose proof (Hin i (or_introl eq_refl)) as Hi.
    rewrite am_get1_ok by lia. cbn [obind].
    destruct (IH (fun j Hj => Hin j (or_intror Hj))
                 (if fst acc <? nN (g_size g) (i - 1) then (nN (g_size g) (i - 1), i) else acc)) as [acc' [E [Q' [M1 M2]]]].
    { destruct (N.ltb_spec (fst acc) (nN (g_size g) (i - 1))); [|exact Q].
      right. cbn [fst snd]. split; [lia|]. split; [lia | reflexivity]. }
    exists acc'. split; [exact E|]. split; [exact Q'|].
    destruct (N.ltb_spec (fst acc) (nN (g_size g) (i - 1))); cbn [fst snd] in M1.
    + split; [lia|]. intros j [<-|Hj]; [lia | apply M2; exact Hj].
    + split; [lia|]. intros j [<-|Hj]; [lia | apply M2; exact Hj].
Qed.

Lemma find_node_ok g N0 target : cg_core g N0 -> forall l, (forall n, In n l -> n < N0) ->
  (exists q, In q l /\ canonf g (nN (g_node g) q) = target) ->
  exists n, g_find_node g target l = Ok n /\ In n l /\ canonf g (nN (g_node g) n) = target.
Proof.
  intros C. pose proof (core_mok _ _ C) as Hm. destruct (cc_len _ _ C) as [Ln _]. pose proof (cc_num _ _ C) as Hnum.
  induction l as [|n t IH]; intros Hl [q [Hq Eq]]; [destruct Hq|].
  cbn [g_find_node]. pose proof (Hl n (or_introl eq_refl)) as Hn.
  rewrite (getN_ok _ n 0) by (unfold lenN in Ln; lia). cbn [obind].
  pose proof (cc_node _ _ C n Hn) as Hv.
  rewrite (g_canon_ok g N0) by (first [exact Hm | lia]). cbn [obind].
  destruct (N.eqb_spec (canonf g (nN (g_node g) n)) target) as [e|ne].
  - exists n. split; [reflexivity|]. split; [left; reflexivity | exact e].
  - destruct IH as [n' [E [I' F]]].
    + intros x Hx. apply Hl. right. exact Hx.
    + destruct Hq as [->|Hq]; [contradiction|]. exists q. split; assumption.
    + exists n'. split; [exact E|]. split; [right; exact I' | exact F].
Qed.

Lemma cg_largest g N0 D lo hi : cg_inv g N0 D -> hi <= N0 ->
  (forall p, nzn g p -> lo <= p < hi) -> (exists p, nzn g p) ->
  exists n, g_largest g lo hi = Ok n /\ lo <= n < hi /\ nzn g n.
Proof.
  intros I Hhi Hrange [p0 Hp0]. apply cg_split in I. destruct I as [C _].
  pose proof (core_mok _ _ C) as Hm.
  destruct (cc_len _ _ C) as [Ln [Lm Ls]]. pose proof (cc_num _ _ C) as Hnum.
  assert (Lp0 : p0 < N0) by (specialize (Hrange p0 Hp0); lia).
  unfold nzn in Hp0. pose proof (cc_node _ _ C p0 Lp0) as Hv0.
  destruct (core_canon g N0 _ C Hv0 Hp0) as [Rc Ec].
  set (c0 := canonf g (nN (g_node g) p0)) in *.
  assert (S0 : 1 <= nN (g_size g) (c0 - 1)).
  { rewrite (cc_size _ _ C) by lia. rewrite Ec, N.eqb_refl.
    apply (cntn_ex_pos _ _ (N.to_nat p0)); [unfold lenN in Ln; lia|]. apply N.eqb_eq. reflexivity. }
  unfold g_largest.
  destruct (largest_fold g N0 Ls (seqN 1 (g_num g + 1))
              ltac:(intros i Hi; apply seqN_in in Hi; lia) (0, 0) ltac:(left; split; reflexivity))
    as [best [E [Q [_ M]]]].
  rewrite E. cbn [obind].
  pose proof (M c0 ltac:(apply seqN_in; lia)) as Mc.
  destruct Q as [[Q1 Q2]|[Q1 [Q2 Q3]]]; [lia|].
  destruct (N.eqb_spec (snd best) 0) as [|nzb0]; [lia|]. cbn [negb assert_ok obind].
  pose proof (cc_size _ _ C (snd best) Q2) as Sb. rewrite Q3 in Sb.
  destruct (N.eqb_spec (nN (g_merged g) (snd best - 1)) (snd best)) as [eb|nb]; [|lia].
  destruct (cntn_pos_ex _ _ ltac:(rewrite <- Sb; exact Q1)) as [q [Lq Fq]]. apply N.eqb_eq in Fq.
  assert (Zq : nth q (g_node g) 0 <> 0).
  { intros Z. rewrite Z in Fq. rewrite canonf_cfm, cfm_0 in Fq. lia. }
  assert (Rq : lo <= N.of_nat q < hi).
  { apply Hrange. unfold nzn. rewrite Nat2N.id. exact Zq. }
  destruct (find_node_ok g N0 (snd best) C (seqN lo hi)) as [n [En [In_n Fn]]].
  - intros x Hx. apply seqN_in in Hx. lia.
  - exists (N.of_nat q). split; [apply seqN_in; exact Rq|]. rewrite Nat2N.id. exact Fq.
  - exists n. split; [exact En|]. apply seqN_in in In_n. split; [exact In_n|].
    unfold nzn. intros Z. rewrite Z in Fn. rewrite canonf_cfm, cfm_0 in Fn. lia.
Qed.

(* ================= rebuild_connected_components ================= *)
Definition endp (E : list (N * N)) (y : N) : Prop := exists e, In e E /\ (y = fst e \/ y = snd e).

Fixpoint ssorted (l : list N) : Prop :=
  match l with [] => True | x :: t => (forall y, In y t -> x < y) /\ ssorted t end.

Lemma ins_sorted_in x l y : In y (ins_sorted x l) <-> y = x \/ In y l.
Proof.
  induction l as [|h t IH]; cbn [ins_sorted].
  - cbn [In]. intuition.
  - destruct (N.ltb_spec x h).
    + cbn [In]. intuition.
    + destruct (N.eqb_spec x h) as [->|ne].
      * cbn [In]. intuition.
      * cbn [In]. rewrite IH. intuition.
Qed.

Lemma ins_sorted_ssorted x l : ssorted l -> ssorted (ins_sorted x l).
Proof.
  induction l as [|h t IH]; cbn [ins_sorted ssorted].
  - intros _. split; [intros y [] | exact I].
  - intros [H1 H2]. destruct (N.ltb_spec x h).
    + cbn [ssorted]. split; [|split; assumption].
      intros y [<-|Hy]; [lia | specialize (H1 y Hy); lia].
    + destruct (N.eqb_spec x h) as [->|ne]; cbn [ssorted].
      * split; assumption.
      * split; [|apply IH; exact H2]. intros y Hy. apply ins_sorted_in in Hy.
        destruct Hy as [->|Hy]; [lia | apply H1; exact Hy].
Qed.

Lemma ssorted_NoDup l : ssorted l -> NoDup l.
Proof.
  induction l as [|h t IH]; cbn [ssorted]; [constructor|]. intros [H1 H2].
  constructor; [|apply IH; exact H2]. intros Hin. specialize (H1 h Hin). lia.
Qed.

Lemma gn_fold E : forall acc, ssorted acc ->
  ssorted (fold_left (fun acc e => ins_sorted (snd e) (ins_sorted (fst e) acc)) E acc) /\
  forall y, In y (fold_left (fun acc e => ins_sorted (snd e) (ins_sorted (fst e) acc)) E acc) <->
            (In y acc \/ endp E y).
Proof.
  induction E as [|e E IH]; intros acc Hs; cbn [fold_left].
  - split; [exact Hs|]. intros y. split; [auto|]. intros [H|[e [[] _]]]. exact H.
  - destruct (IH (ins_sorted (snd e) (ins_sorted (fst e) acc))) as [S1 S2].
    { apply ins_sorted_ssorted, ins_sorted_ssorted. exact Hs. }
    split; [exact S1|]. intros y. rewrite S2, !ins_sorted_in. unfold endp. split.
    + intros [[H|[H|H]]|[e' [He' H]]].
      * right. exists e. split; [left; reflexivity | auto].
      * right. exists e. split; [left; reflexivity | auto].
      * left. exact H.
      * right. exists e'. split; [right; exact He' | exact H].
    + intros [H|[e' [[<-|He'] H]]].
      * auto.
      * destruct H as [H|H]; auto.
      * right. exists e'. split; assumption.
Qed.

Lemma graph_nodes_spec E : NoDup (graph_nodes E) /\ forall y, In y (graph_nodes E) <-> endp E y.
Proof.
  destruct (gn_fold E [] I) as [S1 S2]. split; [apply ssorted_NoDup; exact S1|].
  intros y. unfold graph_nodes. rewrite S2. split; [intros [[]|H]; exact H | auto].
Qed.

Lemma adj_endp E x y : In y (graph_adjacent E x) -> endp E y.
Proof.
  unfold graph_adjacent. rewrite in_flat_map. intros [e [He Hy]]. exists e. split; [exact He|].
  apply in_app_or in Hy. destruct Hy as [Hy|Hy].
  - destruct (fst e =? x); [destruct Hy as [<-|[]]; auto | destruct Hy].
  - destruct (snd e =? x); [destruct Hy as [<-|[]]; auto | destruct Hy].
Qed.

Fixpoint cnteq (a : N) (l : list N) : nat :=
  match l with [] => 0%nat | x :: t => ((if N.eqb a x then 1 else 0) + cnteq a t)%nat end.

Lemma cnteq_notin a l : ~ In a l -> cnteq a l = 0%nat.
Proof.
  induction l as [|x t IH]; intros H; [reflexivity|]. cbn [cnteq].
  destruct (N.eqb_spec a x) as [->|ne]; [exfalso; apply H; left; reflexivity|].
  rewrite IH; [reflexivity|]. intros Hin. apply H. right. exact Hin.
Qed.

Lemma cnteq_nodup a l : NoDup l -> (cnteq a l <= 1)%nat.
Proof.
  induction 1 as [|x t Hx ND IH]; cbn [cnteq]; [lia|].
  destruct (N.eqb_spec a x) as [->|ne]; [rewrite cnteq_notin by exact Hx; lia | lia].
Qed.

Fixpoint Wsum (E : list (N * N)) (l : list N) : nat :=
  match l with [] => 0%nat | x :: t => (length (graph_adjacent E x) + Wsum E t)%nat end.

Lemma adj_cons_len e E x : length (graph_adjacent (e :: E) x) =
  ((if N.eqb (fst e) x then 1 else 0) + (if N.eqb (snd e) x then 1 else 0) + length (graph_adjacent E x))%nat.
Proof.
  unfold graph_adjacent. cbn [flat_map]. rewrite !app_length.
  destruct (fst e =? x), (snd e =? x); reflexivity.
Qed.

Lemma Wsum_cons e E l : Wsum (e :: E) l = (cnteq (fst e) l + cnteq (snd e) l + Wsum E l)%nat.
Proof.
  induction l as [|x t IH]; cbn [Wsum cnteq]; [reflexivity|]. rewrite adj_cons_len, IH. lia.
Qed.

Lemma Wsum_le E : forall l, NoDup l -> (Wsum E l <= 2 * length E)%nat.
Proof.
  induction E as [|e E IH]; intros l ND.
  - induction l as [|x t IHl]; cbn [Wsum]; [lia|]. inversion ND; subst.
    unfold graph_adjacent at 1. cbn [flat_map length]. apply IHl. assumption.
  - rewrite Wsum_cons. pose proof (cnteq_nodup (fst e) l ND). pose proof (cnteq_nodup (snd e) l ND).
    specialize (IH l ND). cbn [length]. lia.
Qed.

(* the adjacency lists still to be pushed: those of the unlabelled nodes *)
Fixpoint wsum (E : list (N * N)) (nd : list N) (l : list N) : nat :=
  match l with
  | [] => 0%nat
  | x :: t => ((if N.eqb (nN nd x) 0%N then length (graph_adjacent E x) else 0) + wsum E nd t)%nat
  end.

Lemma wsum_le_W E nd l : (wsum E nd l <= Wsum E l)%nat.
Proof.
  induction l as [|x t IH]; cbn [wsum Wsum]; [lia|]. destruct (nN nd x =? 0); lia.
Qed.

Lemma wsum_same E nd nd' x l : ~ In x l -> (forall y, y <> x -> nN nd' y = nN nd y) ->
  wsum E nd' l = wsum E nd l.
Proof.
  intros Hx Ho. induction l as [|a t IH]; [reflexivity|]. cbn [wsum].
  rewrite Ho by (intros ->; apply Hx; left; reflexivity).
  rewrite IH; [reflexivity|]. intros Hin. apply Hx. right. exact Hin.
Qed.

Lemma wsum_assign E nd nd' x l : NoDup l -> In x l -> nN nd x = 0 -> nN nd' x <> 0 ->
  (forall y, y <> x -> nN nd' y = nN nd y) ->
  (wsum E nd' l + length (graph_adjacent E x) = wsum E nd l)%nat.
Proof.
  intros ND Hin E0 E1 Ho. induction ND as [|a t Ha ND IH]; [destruct Hin|]. cbn [wsum].
  destruct Hin as [->|Hin].
  - rewrite E0, N.eqb_refl. destruct (N.eqb_spec (nN nd' x) 0); [contradiction|].
    rewrite (wsum_same E nd nd' x t Ha Ho). lia.
  - assert (a <> x) by (intros ->; contradiction).
    rewrite Ho by assumption. specialize (IH Hin). lia.
Qed.

Lemma cc_dfs_S m k E g id n r : cc_dfs m (S k) E g id (n :: r) =
  obind (g_contains g n) (fun c => if c then cc_dfs m k E g id r else
    obind (g_add_node m g n id) (fun g => cc_dfs m k E g id (rev (graph_adjacent E n) ++ r))).
Proof. reflexivity. Qed.

Lemma dfs_ok m E N0 nodes id :
  (forall x, In x nodes -> x < N0) -> NoDup nodes ->
  (forall x y, In x nodes -> In y (graph_adjacent E x) -> In y nodes) ->
  1 <= id ->
  forall fuel g stack, cg_core g N0 -> g_num g = id -> nN (g_merged g) (id - 1) = id ->
  (forall x, In x stack -> In x nodes) -> (length stack + wsum E (g_node g) nodes <= fuel)%nat ->
  exists g', cc_dfs m fuel E g id stack = Ok g' /\ cg_core g' N0 /\ g_num g' = id /\
    g_merged g' = g_merged g /\ (forall p, nzn g p -> nzn g' p) /\
    (forall p, nzn g' p -> nzn g p \/ In p nodes) /\ (forall x, In x stack -> nzn g' x).
Proof.
  intros Hlt ND Hadj Hid. induction fuel as [|k IH]; intros g stack C Hnum Eid Hst Hf.
  - destruct stack as [|n r]; [|cbn [length] in Hf; lia]. exists g. cbn [cc_dfs].
    split; [reflexivity|]. split; [exact C|]. split; [exact Hnum|]. split; [reflexivity|]. split; [auto|]. split; [auto|]. intros x [].
  - destruct stack as [|n r].
    { exists g. cbn [cc_dfs]. split; [reflexivity|]. split; [exact C|]. split; [exact Hnum|]. split; [reflexivity|]. split; [auto|]. split; [auto|]. intros x []. }
    rewrite cc_dfs_S.
    pose proof (core_mok _ _ C) as Hm.
    destruct (cc_len _ _ C) as [Ln [Lm Ls]]. pose proof (cc_N0 _ _ C) as HN. pose proof (cc_num _ _ C) as Hnum'.
    assert (Hn : n < N0) by (apply Hlt, Hst; left; reflexivity).
    unfold g_contains. rewrite (getN_ok _ n 0) by (unfold lenN in Ln; lia). cbn [obind].
    cbn [length] in Hf.
    destruct (N.eqb_spec (nN (g_node g) n) 0) as [e|ne]; cbn [negb].
    + (* not yet labelled *)
      destruct (core_assign g N0 n id C Hn e ltac:(lia) Eid) as [B C1].
      destruct (assign_ops m g N0 n id C Hn ltac:(lia) B) as [O1 O2].
      unfold g_add_node. assert (U : u16 (g_num g) = id) by (rewrite Hnum; apply u16_small; lia).
      rewrite U. rewrite N.leb_refl. cbn [assert_ok obind].
      rewrite (getN_ok _ n 0) by (unfold lenN in Ln; lia). cbn [obind]. rewrite e.
      change (0 =? 0) with true. cbn [assert_ok obind].
      rewrite (g_canon_ok g N0) by (first [exact Hm | lia]). cbn [obind].
      rewrite canonf_cfm, (cfm_fix _ N0 id Hm) by (first [exact Eid | lia]).
      rewrite (u16_small id) in O2 by lia. rewrite (u16_small id) by lia.
      rewrite O2. cbn [obind]. rewrite O1. cbn [obind].
      set (g1 := mkG _ _ _ _) in *.
      assert (NZ1 : forall q, nzn g1 q <-> (nzn g q \/ q = n)).
      { intros q. unfold nzn, g1. cbn [g_node]. rewrite nN_upd by lia.
        destruct (N.eqb_spec q n) as [->|nq]; [split; [auto | intros _; lia]|].
        split; [auto | intros [H|H]; [exact H | contradiction]]. }
      destruct (IH g1 (rev (graph_adjacent E n) ++ r) C1) as [g' [Ed [C' [N' [M' [Z1 [Z2 Z3]]]]]]].
      * exact Hnum.
      * exact Eid.
      * intros x Hx. apply in_app_or in Hx. destruct Hx as [Hx|Hx].
        -- apply in_rev in Hx. apply (Hadj n); [apply Hst; left; reflexivity | exact Hx].
        -- apply Hst. right. exact Hx.
      * rewrite app_length, rev_length.
        pose proof (wsum_assign E (g_node g) (g_node g1) n nodes ND ltac:(apply Hst; left; reflexivity) e) as WA.
        unfold g1 in WA. cbn [g_node] in WA.
        rewrite nN_upd in WA by lia. rewrite N.eqb_refl in WA.
        specialize (WA ltac:(lia)).
        assert (Ho : forall y, y <> n -> nN (upd_nth (N.to_nat n) id (g_node g)) y = nN (g_node g) y).
        { intros y Hy. rewrite nN_upd by lia. destruct (N.eqb_spec y n); [contradiction | reflexivity]. }
        specialize (WA Ho). unfold g1. cbn [g_node]. lia.
      * exists g'. split; [exact Ed|]. split; [exact C'|]. split; [exact N'|]. split; [exact M'|].
        split; [|split].
        -- intros p Hp. apply Z1, NZ1. left. exact Hp.
        -- intros p Hp. apply Z2 in Hp. destruct Hp as [Hp|Hp]; [|right; exact Hp].
           apply NZ1 in Hp. destruct Hp as [Hp | ->]; [left; exact Hp | right; apply Hst; left; reflexivity].
        -- intros x [<-|Hx]; [apply Z1, NZ1; right; reflexivity|].
           apply Z3. apply in_or_app. right. exact Hx.
    + (* already labelled *)
      destruct (IH g r C Hnum Eid) as [g' [Ed [C' [N' [M' [Z1 [Z2 Z3]]]]]]].
      * intros x Hx. apply Hst. right. exact Hx.
      * lia.
      * exists g'. split; [exact Ed|]. split; [exact C'|]. split; [exact N'|]. split; [exact M'|].
        split; [exact Z1|]. split; [exact Z2|].
        intros x [<-|Hx]; [apply Z1; exact ne | apply Z3; exact Hx].
Qed.

Lemma rebuild_loop m E N0 fuel nodes :
  (forall x, In x nodes -> x < N0) -> NoDup nodes ->
  (forall x y, In x nodes -> In y (graph_adjacent E x) -> In y nodes) ->
  lenN nodes <= N0 -> N0 < 65536 -> (1 + 2 * length E <= fuel)%nat ->
  forall post pre g, nodes = pre ++ post -> cg_core g N0 -> g_num g = lenN pre ->
  (forall id, 1 <= id <= N0 -> nN (g_merged g) (id - 1) = id) ->
  (forall p, nzn g p -> In p nodes) -> (forall x, In x pre -> nzn g x) ->
  exists g', ofold (fun key g => let '(g, id) := g_create g in cc_dfs m fuel E g id [key]) post g = Ok g' /\
    cg_core g' N0 /\ g_num g' = lenN nodes /\ (forall p, nzn g' p -> In p nodes) /\
    (forall x, In x nodes -> nzn g' x).
Proof.
  intros Hlt ND Hadj Hlen HN Hfuel. induction post as [|key post IH]; intros pre g En C Hnum Hid Hz Hpre.
  - rewrite app_nil_r in En. subst pre. exists g. split; [reflexivity|]. split; [exact C|].
    split; [exact Hnum|]. split; assumption.
  - cbn [ofold]. unfold g_create. cbv beta iota zeta.
    assert (Hn : g_num g + 1 <= N0).
    { rewrite Hnum. rewrite En in Hlen. unfold lenN in *. rewrite app_length in Hlen. cbn [length] in Hlen. lia. }
    rewrite (u16_small (g_num g + 1)) by lia.
    pose proof (core_create g N0 C Hn) as C1.
    assert (Hkey : In key nodes) by (rewrite En; apply in_or_app; right; left; reflexivity).
    destruct (dfs_ok m E N0 nodes (g_num g + 1) Hlt ND Hadj ltac:(lia) fuel _ [key] C1 eq_refl)
      as [g' [Ed [C' [N' [M' [Z1 [Z2 Z3]]]]]]].
    + cbn [g_merged]. apply Hid. lia.
    + intros x [<-|[]]. exact Hkey.
    + cbn [length g_node]. pose proof (wsum_le_W E (g_node g) nodes). pose proof (Wsum_le E nodes ND). lia.
    + rewrite Ed. cbn [obind].
      destruct (IH (pre ++ [key]) g') as [g'' R].
      * rewrite <- app_assoc. exact En.
      * exact C'.
      * rewrite N', Hnum. unfold lenN. rewrite app_length. cbn [length]. lia.
      * intros id Hi. rewrite M'. cbn [g_merged]. apply Hid. exact Hi.
      * intros p Hp. apply Z2 in Hp. destruct Hp as [Hp|Hp]; [apply Hz; exact Hp | exact Hp].
      * intros x Hx. apply in_app_or in Hx. destruct Hx as [Hx|Hx].
        -- apply Z1. apply Hpre. exact Hx.
        -- apply Z3. exact Hx.
      * exists g''. exact R.
Qed.

Lemma all_zero_repeat (l : list N) : (forall k, nth k l 0 = 0) -> repeat 0 (length l) = l.
Proof.
  induction l as [|h t IH]; intros H; [reflexivity|]. cbn [length repeat].
  rewrite IH by (intros k; apply (H (S k))). f_equal. symmetry. apply (H 0%nat).
Qed.

(* rebuild_connected_components on a fresh graph: edges are pairs of distinct nodes < N0 *)
Lemma cg_rebuild m (s : stats) (A : bmat) sr er N0 edges :
  cg_inv (st_g s) N0 [] -> (forall p, ~ nzn (st_g s) p) -> g_num (st_g s) = 0 ->
  build_adjacency s A sr er = Ok edges ->
  (forall e, In e edges -> fst e < N0 /\ snd e < N0 /\ fst e <> snd e) ->
  exists s', rebuild_cc m s A sr er = Ok s' /\
    st_od s' = st_od s /\ st_opr s' = st_opr s /\ st_hist s' = st_hist s /\ st_sc s' = st_sc s /\
    st_ec s' = st_ec s /\ st_sr s' = st_sr s /\ st_single s' = st_single s /\
    cg_inv (st_g s') N0 [] /\
    forall p, nzn (st_g s') p <-> exists e, In e edges /\ (p = fst e \/ p = snd e).
Proof.
  intros I Hz Hnum Hb HE. apply cg_split in I. destruct I as [C _].
  destruct (cc_len _ _ C) as [Ln [Lm Ls]]. pose proof (cc_N0 _ _ C) as HN.
  destruct (graph_nodes_spec edges) as [ND Hin].
  assert (Hlt : forall x, In x (graph_nodes edges) -> x < N0).
  { intros x Hx. apply Hin in Hx. destruct Hx as [e [He [-> | ->]]]; apply (HE e He). }
  assert (Hadj : forall x y, In x (graph_nodes edges) -> In y (graph_adjacent edges x) -> In y (graph_nodes edges)).
  { intros x y _ Hy. apply Hin. apply (adj_endp _ x). exact Hy. }
  assert (Hlen : lenN (graph_nodes edges) <= N0).
  { assert (Hi : incl (graph_nodes edges) (seqN 0 N0)).
    { intros x Hx. apply seqN_in. specialize (Hlt x Hx). lia. }
    pose proof (NoDup_incl_length ND Hi) as L. rewrite seqN_length in L. unfold lenN. lia. }
  assert (Eg : g_reset (st_g s) = Ok (st_g s)).
  { unfold g_reset. rewrite Hnum. change (seqN 1 (0 + 1)) with (@nil N). cbn [ofold obind fst snd].
    rewrite all_zero_repeat.
    - rewrite <- Hnum. destruct (st_g s); reflexivity.
    - intros k. specialize (Hz (N.of_nat k)). unfold nzn in Hz. rewrite Nat2N.id in Hz.
      destruct (N.eq_dec (nth k (g_node (st_g s)) 0) 0); [assumption | contradiction]. }
  unfold rebuild_cc. rewrite Eg. cbn [obind]. rewrite Hb. cbn [obind].
  destruct (rebuild_loop m edges N0 (S (length (graph_nodes edges) + 4 * length edges)) (graph_nodes edges)
              Hlt ND Hadj Hlen HN ltac:(lia) (graph_nodes edges) [] (st_g s) eq_refl C)
    as [g' [Eo [C' [N' [Z1 Z2]]]]].
  - rewrite Hnum. reflexivity.
  - intros id Hid. apply (cc_merged _ _ C id Hid). lia.
  - intros p Hp. exfalso. exact (Hz p Hp).
  - intros x [].
  - rewrite Eo. cbn [obind]. exists (st_set_g s g'). split; [reflexivity|].
    cbn [st_set_g st_od st_opr st_hist st_sc st_ec st_sr st_single st_g].
    repeat (split; [reflexivity|]). split.
    + apply cg_split. split; [exact C'|]. split; [split; [constructor | intros p []]|].
      rewrite N'. change (lenN (@nil N)) with 0. rewrite N.add_0_r.
      apply cntn_nodup_le; [exact ND|]. intros x Hx. destruct (cc_len _ _ C') as [Ln' _].
      split; [rewrite Ln'; apply Hlt; exact Hx | apply Z2; exact Hx].
    + intros p. split; [intros Hp; apply Hin, Z1; exact Hp | intros Hp; apply Z2, Hin; exact Hp].
Qed.
