(* Theory of Spec/Linear.v over any byte field: module laws of lincomb, row operations preserve
   (and reflect) solutions, certificates are sound, Gaussian elimination is correct and decides
   injectivity. *)
From Coq Require Import NArith List Bool Arith Lia Permutation.
From RQ Require Import Spec.Linear.
Import ListNotations.
Open Scope N_scope.

(* ---- the field laws, on bytes ---- *)
Record field_ok (mul : N -> N -> N) (inv : N -> N) : Prop := {
  f_closed : forall a b, a < 256 -> b < 256 -> mul a b < 256;
  f_comm : forall a b, a < 256 -> b < 256 -> mul a b = mul b a;
  f_assoc : forall a b c, a < 256 -> b < 256 -> c < 256 -> mul (mul a b) c = mul a (mul b c);
  f_1_r : forall a, a < 256 -> mul a 1 = a;
  f_1_l : forall a, a < 256 -> mul 1 a = a;
  f_0_l : forall a, a < 256 -> mul 0 a = 0;
  f_0_r : forall a, a < 256 -> mul a 0 = 0;
  f_distr_r : forall a b c, a < 256 -> b < 256 -> c < 256 ->
     mul a (N.lxor b c) = N.lxor (mul a b) (mul a c);
  f_distr_l : forall a b c, a < 256 -> b < 256 -> c < 256 ->
     mul (N.lxor a b) c = N.lxor (mul a c) (mul b c);
  f_inv : forall a, a < 256 -> a <> 0 -> mul a (inv a) = 1 /\ inv a < 256
}.

(* ---- generic list facts ---- *)

Lemma lxor_byte a b : a < 256 -> b < 256 -> N.lxor a b < 256.
Proof.
  intros Ha Hb.
  destruct (N.eq_dec (N.lxor a b) 0) as [->|Hz]; [lia|].
  change 256 with (2 ^ 8). apply N.log2_lt_pow2; [lia|].
  eapply N.le_lt_trans; [apply N.log2_lxor|].
  destruct (N.eq_dec a 0) as [->|Ea]; destruct (N.eq_dec b 0) as [->|Eb]; cbn [N.log2 N.max];
    try (apply N.max_lub_lt); try (apply N.log2_lt_pow2; lia); try lia.
  all: rewrite ?N.max_0_l, ?N.max_0_r; try (apply N.log2_lt_pow2; lia).
Qed.

Lemma lxor_eq_0 a b : N.lxor a b = 0 -> a = b.
Proof. apply N.lxor_eq. Qed.

Lemma wf_vecb_ok v : wf_vecb v = true <-> wf_vec v.
Proof.
  unfold wf_vecb, wf_vec. rewrite forallb_forall, Forall_forall.
  split; intros H x Hx; specialize (H x Hx); [apply N.ltb_lt | apply N.ltb_lt]; exact H.
Qed.

Lemma wf_matb_ok n A : wf_matb n A = true <-> wf_mat n A.
Proof.
  unfold wf_matb, wf_mat. rewrite forallb_forall, Forall_forall.
  split; intros H r Hr; specialize (H r Hr).
  - apply andb_true_iff in H. destruct H as [H1 H2]. apply Nat.eqb_eq in H1.
    apply wf_vecb_ok in H2. auto.
  - destruct H as [H1 H2]. apply andb_true_iff. split; [apply Nat.eqb_eq; exact H1 | apply wf_vecb_ok; exact H2].
Qed.

Lemma vec_eqb_eq u v : vec_eqb u v = true -> u = v.
Proof.
  revert v; induction u as [|x u IH]; intros [|y v] H; cbn in H; try discriminate; auto.
  apply andb_true_iff in H. destruct H as [H1 H2]. apply N.eqb_eq in H1. f_equal; auto.
Qed.

Lemma vec_eqb_refl u : vec_eqb u u = true.
Proof. induction u as [|x u IH]; cbn; auto. rewrite N.eqb_refl. exact IH. Qed.

Lemma upd_nth_length {A} i (x : A) l : length (upd_nth i x l) = length l.
Proof. revert i; induction l as [|h t IH]; intros [|i]; cbn; auto. Qed.

Lemma nth_error_upd_same {A} i (x : A) l : (i < length l)%nat -> nth_error (upd_nth i x l) i = Some x.
Proof. revert i; induction l as [|h t IH]; intros [|i] H; cbn in *; try lia; auto. apply IH. lia. Qed.

Lemma nth_error_upd_other {A} i j (x : A) l : i <> j -> nth_error (upd_nth i x l) j = nth_error l j.
Proof.
  revert i j; induction l as [|h t IH]; intros [|i] [|j] H; cbn; auto; try congruence.
Qed.

Lemma upd_nth_upd {A} i (x y : A) l : upd_nth i y (upd_nth i x l) = upd_nth i y l.
Proof. revert i; induction l as [|h t IH]; intros [|i]; cbn; auto. f_equal. apply IH. Qed.

Lemma upd_nth_same {A} i (x : A) l : nth_error l i = Some x -> upd_nth i x l = l.
Proof.
  revert i; induction l as [|h t IH]; intros [|i] H; cbn in *; auto; try congruence.
  f_equal. apply IH. exact H.
Qed.

Lemma Forall_upd_nth {A} (P : A -> Prop) i x l : Forall P l -> P x -> Forall P (upd_nth i x l).
Proof.
  intros H Hx. revert i; induction H as [|h t Hh Ht IH]; intros [|i]; cbn; constructor; auto.
Qed.

Lemma Forall2_upd_nth {A B} (P : A -> B -> Prop) i x y l m :
  Forall2 P l m -> P x y -> Forall2 P (upd_nth i x l) (upd_nth i y m).
Proof.
  intros H Hx. revert i; induction H as [|a b l m Hab Hlm IH]; intros [|i]; cbn; constructor; auto.
Qed.

Lemma Forall2_nth_error {A B} (P : A -> B -> Prop) l m i a :
  Forall2 P l m -> nth_error l i = Some a -> exists b, nth_error m i = Some b /\ P a b.
Proof.
  intros H. revert i; induction H as [|a' b' l m Hab Hlm IH]; intros [|i] E; cbn in *; try discriminate.
  - injection E as <-. eauto.
  - apply IH. exact E.
Qed.

Lemma Forall2_len {A B} (P : A -> B -> Prop) l m : Forall2 P l m -> length l = length m.
Proof. intros H; induction H; cbn; auto. Qed.

Lemma Forall2_nth_error_none {A B} (P : A -> B -> Prop) l m i :
  Forall2 P l m -> nth_error l i = None -> nth_error m i = None.
Proof.
  intros H E. apply nth_error_None. apply nth_error_None in E.
  rewrite <- (Forall2_len _ _ _ H). exact E.
Qed.

Lemma Forall2_nth {A B} (P : A -> B -> Prop) l m i da db :
  Forall2 P l m -> (i < length l)%nat -> P (nth i l da) (nth i m db).
Proof.
  intros H. revert i; induction H as [|a b l m Hab Hlm IH]; intros [|i] Hi; cbn in *; try lia; auto.
  apply IH. lia.
Qed.

Lemma Forall2_of_nth {A B} (P : A -> B -> Prop) l m da db :
  length l = length m -> (forall i, (i < length l)%nat -> P (nth i l da) (nth i m db)) -> Forall2 P l m.
Proof.
  revert m; induction l as [|a l IH]; intros [|b m] E H; cbn in E; try discriminate; constructor.
  - apply (H O). cbn. lia.
  - apply IH; [lia|]. intros i Hi. apply (H (S i)). cbn. lia.
Qed.

Lemma Forall2_map_map2 {A B C D} (P : A -> B -> Prop) (Q : C -> D -> Prop) (f : A -> C) (g : A -> B -> D) l m :
  Forall2 P l m -> (forall a b, In a l -> P a b -> Q (f a) (g a b)) ->
  Forall2 Q (map f l) (map2 g l m).
Proof.
  intros H. induction H as [|a b l m Hab Hlm IH]; intros HQ; cbn; constructor.
  - apply HQ; [left; reflexivity | exact Hab].
  - apply IH. intros a' b' Hin. apply HQ. right. exact Hin.
Qed.

Lemma Forall_Forall2_repeat {A B} (P : A -> B -> Prop) l d :
  Forall (fun a => P a d) l <-> Forall2 P l (repeat d (length l)).
Proof.
  induction l as [|a l IH]; cbn; split; intros H; try constructor; inversion H; subst; try apply IH; auto.
Qed.

(* ---- vadd ---- *)

Lemma vadd_length u v : length (vadd u v) = Nat.min (length u) (length v).
Proof. revert v; induction u as [|x u IH]; intros [|y v]; cbn; auto. Qed.

Lemma vadd_comm u v : vadd u v = vadd v u.
Proof. revert v; induction u as [|x u IH]; intros [|y v]; cbn; auto. rewrite N.lxor_comm, IH. reflexivity. Qed.

Lemma vadd_assoc u v w : vadd (vadd u v) w = vadd u (vadd v w).
Proof.
  revert v w; induction u as [|x u IH]; intros [|y v] [|z w]; cbn; auto.
  rewrite N.lxor_assoc, IH. reflexivity.
Qed.

Lemma vadd_vzero_r v n : (length v <= n)%nat -> vadd v (vzero n) = v.
Proof.
  revert n; induction v as [|x v IH]; intros [|n] H; cbn in *; auto; try lia.
  rewrite N.lxor_0_r. f_equal. apply IH. lia.
Qed.

Lemma vadd_vzero_l v n : (length v <= n)%nat -> vadd (vzero n) v = v.
Proof. intros H. rewrite vadd_comm. apply vadd_vzero_r. exact H. Qed.

Lemma vadd_nilpotent v : vadd v v = vzero (length v).
Proof. induction v as [|x v IH]; cbn; auto. rewrite N.lxor_nilpotent, IH. reflexivity. Qed.

Lemma vadd_cancel_l u v : (length v <= length u)%nat -> vadd u (vadd u v) = v.
Proof.
  intros H. rewrite <- vadd_assoc, vadd_nilpotent. apply vadd_vzero_l. exact H.
Qed.

Lemma vadd_cancel_r u v : (length u <= length v)%nat -> vadd (vadd u v) v = u.
Proof.
  intros H. rewrite vadd_assoc, vadd_nilpotent. apply vadd_vzero_r. exact H.
Qed.

(* (B + X) + (B + Z) = X + Z *)
Lemma vadd_cross B X Z : (length X <= length B)%nat \/ (length Z <= length B)%nat ->
  vadd (vadd B X) (vadd B Z) = vadd X Z.
Proof.
  intros H. rewrite vadd_assoc. rewrite <- (vadd_assoc X B Z). rewrite (vadd_comm X B).
  rewrite (vadd_assoc B X Z). apply vadd_cancel_l. rewrite vadd_length. lia.
Qed.

Lemma wf_vec_vadd u v : wf_vec u -> wf_vec v -> wf_vec (vadd u v).
Proof.
  unfold wf_vec. intros Hu. revert v; induction Hu as [|x u Hx Hu IH]; intros v Hv; cbn; [constructor|].
  destruct Hv as [|y v Hy Hv]; constructor; [apply lxor_byte; assumption | apply IH; exact Hv].
Qed.

Lemma wf_vec_vzero n : wf_vec (vzero n).
Proof. unfold wf_vec, vzero. induction n; cbn; constructor; [lia | assumption]. Qed.

Lemma vzero_length n : length (vzero n) = n.
Proof. apply repeat_length. Qed.

Lemma wf_mat_nth n A i : wf_mat n A -> (i < length A)%nat -> length (nth i A []) = n /\ wf_vec (nth i A []).
Proof.
  intros H Hi. unfold wf_mat in H. rewrite Forall_forall in H. apply H. apply nth_In. exact Hi.
Qed.

Lemma wf_mat_nth_error n A i r : wf_mat n A -> nth_error A i = Some r -> length r = n /\ wf_vec r.
Proof.
  intros H E. unfold wf_mat in H. rewrite Forall_forall in H. apply H. eapply nth_error_In. exact E.
Qed.

Section Field.
Variable mul : N -> N -> N.
Variable inv : N -> N.
Hypothesis F : field_ok mul inv.

Local Notation vscale := (vscale mul).
Local Notation dot := (dot mul).
Local Notation lincomb := (lincomb mul).
Local Notation solves := (solves mul).
Local Notation injective := (injective mul).
Local Notation injective_dot := (injective_dot mul).
Local Notation apply_op := (apply_op mul).
Local Notation apply_ops := (apply_ops mul).
Local Notation check_cert := (check_cert mul).
Local Notation elim_coef := (elim_coef mul inv).
Local Notation elim_row := (elim_row mul inv).
Local Notation elim_rhs := (elim_rhs mul inv).
Local Notation gauss_rank_full := (gauss_rank_full mul inv).
Local Notation gauss_solve := (gauss_solve mul inv).

Let Fclosed := f_closed _ _ F.
Let Fcomm := f_comm _ _ F.
Let Fassoc := f_assoc _ _ F.
Let F1r := f_1_r _ _ F.
Let F1l := f_1_l _ _ F.
Let F0l := f_0_l _ _ F.
Let F0r := f_0_r _ _ F.
Let Fdr := f_distr_r _ _ F.
Let Fdl := f_distr_l _ _ F.
Let Finv := f_inv _ _ F.

Lemma inv_byte a : a < 256 -> a <> 0 -> inv a < 256.
Proof. intros Ha Hz. apply (Finv a Ha Hz). Qed.

Lemma mul_inv_r a : a < 256 -> a <> 0 -> mul a (inv a) = 1.
Proof. intros Ha Hz. apply (Finv a Ha Hz). Qed.

Lemma mul_inv_l a : a < 256 -> a <> 0 -> mul (inv a) a = 1.
Proof. intros Ha Hz. rewrite Fcomm; [apply mul_inv_r | apply inv_byte | ]; assumption. Qed.

Lemma inv_nz a : a < 256 -> a <> 0 -> inv a <> 0.
Proof.
  intros Ha Hz E. pose proof (mul_inv_r a Ha Hz) as H. rewrite E, F0r in H by exact Ha. discriminate.
Qed.

(* no zero divisors *)
Lemma mul_eq_0 a b : a < 256 -> b < 256 -> a <> 0 -> mul a b = 0 -> b = 0.
Proof.
  intros Ha Hb Hz E.
  assert (H : mul (inv a) (mul a b) = b).
  { rewrite <- Fassoc by (try apply inv_byte; assumption). rewrite mul_inv_l by assumption.
    apply F1l. exact Hb. }
  rewrite E, F0r in H by (apply inv_byte; assumption). auto.
Qed.

(* ---- vscale ---- *)

Lemma vscale_length c v : length (vscale c v) = length v.
Proof. apply map_length. Qed.

Lemma wf_vec_vscale c v : c < 256 -> wf_vec v -> wf_vec (vscale c v).
Proof.
  unfold wf_vec. intros Hc H. induction H as [|x v Hx Hv IH]; cbn; constructor; auto.
Qed.

Lemma vscale_vadd c u v : c < 256 -> wf_vec u -> wf_vec v ->
  vscale c (vadd u v) = vadd (vscale c u) (vscale c v).
Proof.
  unfold wf_vec. intros Hc Hu. revert v; induction Hu as [|x u Hx Hu IH]; intros v Hv; cbn; [reflexivity|].
  destruct Hv as [|y v Hy Hv]; cbn; [reflexivity|]. rewrite Fdr by assumption. f_equal. apply IH. exact Hv.
Qed.

Lemma vscale_lxor a b v : a < 256 -> b < 256 -> wf_vec v ->
  vscale (N.lxor a b) v = vadd (vscale a v) (vscale b v).
Proof.
  unfold wf_vec. intros Ha Hb H. induction H as [|x v Hx Hv IH]; cbn; [reflexivity|].
  rewrite Fdl by assumption. f_equal. exact IH.
Qed.

Lemma vscale_vscale a b v : a < 256 -> b < 256 -> wf_vec v ->
  vscale a (vscale b v) = vscale (mul a b) v.
Proof.
  unfold wf_vec. intros Ha Hb H. induction H as [|x v Hx Hv IH]; cbn; [reflexivity|].
  rewrite Fassoc by assumption. f_equal. exact IH.
Qed.

Lemma vscale_1 v : wf_vec v -> vscale 1 v = v.
Proof.
  unfold wf_vec. intros H. induction H as [|x v Hx Hv IH]; cbn; [reflexivity|].
  rewrite F1l by assumption. f_equal. exact IH.
Qed.

Lemma vscale_0 v : wf_vec v -> vscale 0 v = vzero (length v).
Proof.
  unfold wf_vec. intros H. induction H as [|x v Hx Hv IH]; cbn; [reflexivity|].
  rewrite F0l by assumption. f_equal. exact IH.
Qed.

Lemma vscale_vzero c n : c < 256 -> vscale c (vzero n) = vzero n.
Proof. intros Hc. induction n; cbn; [reflexivity|]. rewrite F0r by assumption. f_equal. exact IHn. Qed.

(* ---- lincomb ---- *)

Lemma lincomb_length T r C : wf_mat T C -> length (lincomb T r C) = T.
Proof.
  intros H. revert r; induction H as [|c C [Hc _] HC IH]; intros [|a r]; cbn; try apply vzero_length.
  rewrite vadd_length, vscale_length, IH, Hc. lia.
Qed.

Lemma lincomb_wf T r C : wf_vec r -> wf_mat T C -> wf_vec (lincomb T r C).
Proof.
  intros Hr H. revert r Hr; induction H as [|c C [_ Hc] HC IH]; intros [|a r] Hr; cbn; try apply wf_vec_vzero.
  pose proof (Forall_inv Hr) as Ha. pose proof (Forall_inv_tail Hr) as Hr'.
  apply wf_vec_vadd; [apply wf_vec_vscale; assumption | apply IH; assumption].
Qed.

Lemma lincomb_nil_r T r : lincomb T r [] = vzero T.
Proof. destruct r; reflexivity. Qed.
Lemma lincomb_nil_l T C : lincomb T [] C = vzero T.
Proof. reflexivity. Qed.
Lemma lincomb_cons T a r s C : lincomb T (a :: r) (s :: C) = vadd (vscale a s) (lincomb T r C).
Proof. reflexivity. Qed.
Lemma vscale_cons c a r : vscale c (a :: r) = mul c a :: vscale c r.
Proof. reflexivity. Qed.
Lemma vscale_nil c : vscale c [] = [].
Proof. reflexivity. Qed.

(* additivity in the row *)
Lemma lincomb_add T r1 r2 C : length r1 = length r2 -> wf_vec r1 -> wf_vec r2 -> wf_mat T C ->
  lincomb T (vadd r1 r2) C = vadd (lincomb T r1 C) (lincomb T r2 C).
Proof.
  intros E H1 H2 HC. revert r1 r2 E H1 H2; induction HC as [|c C [Hlen Hc] HC IH]; intros r1 r2 E H1 H2.
  - rewrite !lincomb_nil_r. rewrite vadd_vzero_l; [reflexivity | rewrite vzero_length; lia].
  - destruct r1 as [|a1 r1], r2 as [|a2 r2]; cbn in E; try discriminate.
    + cbn. rewrite vadd_vzero_l; [reflexivity | rewrite vzero_length; lia].
    + pose proof (Forall_inv H1) as Ha1. pose proof (Forall_inv_tail H1) as Hr1.
      pose proof (Forall_inv H2) as Ha2. pose proof (Forall_inv_tail H2) as Hr2.
      cbn [vadd]. rewrite !lincomb_cons.
      rewrite IH by (try lia; assumption).
      rewrite vscale_lxor by assumption.
      set (X := vscale a1 c). set (Y := vscale a2 c).
      set (U := lincomb T r1 C). set (V := lincomb T r2 C).
      rewrite !vadd_assoc. f_equal. rewrite <- !vadd_assoc. f_equal. apply vadd_comm.
Qed.

(* homogeneity in the row *)
Lemma lincomb_scale T c r C : c < 256 -> wf_vec r -> wf_mat T C ->
  lincomb T (vscale c r) C = vscale c (lincomb T r C).
Proof.
  intros Hc Hr HC. revert r Hr; induction HC as [|s C [Hlen Hs] HC IH]; intros r Hr.
  - rewrite !lincomb_nil_r, vscale_vzero by assumption. reflexivity.
  - destruct r as [|a r].
    + rewrite vscale_nil, !lincomb_nil_l, vscale_vzero by assumption. reflexivity.
    + pose proof (Forall_inv Hr) as Ha. pose proof (Forall_inv_tail Hr) as Hr'.
      rewrite vscale_cons, !lincomb_cons. rewrite IH by assumption.
      rewrite vscale_vadd; try assumption.
      * rewrite vscale_vscale by assumption. reflexivity.
      * apply wf_vec_vscale; assumption.
      * apply lincomb_wf; assumption.
Qed.

Lemma lincomb_zero_row T n C : wf_mat T C -> lincomb T (repeat 0 n) C = vzero T.
Proof.
  intros HC. revert n; induction HC as [|s C [Hlen Hs] HC IH]; intros [|n]; try reflexivity.
  cbn [repeat]. rewrite lincomb_cons.
  rewrite IH. rewrite vscale_0 by assumption. rewrite Hlen. apply vadd_vzero_l. rewrite vzero_length. lia.
Qed.

Lemma lincomb_zero_syms T r n : wf_vec r -> lincomb T r (repeat (vzero T) n) = vzero T.
Proof.
  intros Hr. revert n; induction Hr as [|a r Ha Hr IH]; intros [|n]; try reflexivity.
  cbn [repeat]. rewrite lincomb_cons.
  rewrite IH. rewrite vscale_vzero by assumption.
  apply vadd_vzero_l. rewrite vzero_length. lia.
Qed.

Lemma unit_row_0 L : unit_row (S L) 0 = 1 :: repeat 0 L.
Proof.
  unfold unit_row. cbn [seq map Nat.eqb]. f_equal. rewrite <- seq_shift, map_map.
  cbn [Nat.eqb]. clear. generalize 0%nat. induction L; intros k; cbn; [reflexivity|]. f_equal. apply IHL.
Qed.

Lemma unit_row_S L j : unit_row (S L) (S j) = 0 :: unit_row L j.
Proof.
  unfold unit_row. cbn [seq map Nat.eqb]. f_equal. rewrite <- seq_shift, map_map. reflexivity.
Qed.

Lemma unit_row_length L j : length (unit_row L j) = L.
Proof. unfold unit_row. rewrite map_length, seq_length. reflexivity. Qed.

Lemma unit_row_wf L j : wf_vec (unit_row L j).
Proof.
  unfold wf_vec, unit_row. apply Forall_forall. intros x Hx. apply in_map_iff in Hx.
  destruct Hx as [k [<- _]]. destruct (k =? j)%nat; lia.
Qed.

(* e_j . C = C[j] *)
Lemma lincomb_unit T C j : wf_mat T C -> (j < length C)%nat ->
  lincomb T (unit_row (length C) j) C = nth j C [].
Proof.
  intros HC. revert j; induction HC as [|s C [Hlen Hs] HC IH]; intros j Hj; cbn [length] in *; [lia|].
  destruct j as [|j].
  - rewrite unit_row_0. rewrite lincomb_cons. cbn [nth]. rewrite lincomb_zero_row by assumption.
    rewrite vscale_1 by assumption. apply vadd_vzero_r. lia.
  - rewrite unit_row_S. rewrite lincomb_cons. cbn [nth]. rewrite IH by lia.
    rewrite vscale_0 by assumption. rewrite Hlen. apply vadd_vzero_l.
    destruct (wf_mat_nth T C j HC) as [E _]; [lia|]. rewrite E. lia.
Qed.

(* ---- dot: the scalar case of lincomb ---- *)

Lemma lincomb_dot r x : lincomb 1 r (map (fun v => [v]) x) = [dot r x].
Proof.
  revert x; induction r as [|a r IH]; intros [|v x]; try reflexivity.
  cbn [map]. rewrite lincomb_cons, IH. reflexivity.
Qed.

Lemma wf_mat_singletons x : wf_vec x -> wf_mat 1 (map (fun v => [v]) x).
Proof.
  unfold wf_vec, wf_mat. intros H. induction H as [|v x Hv Hx IH]; cbn; constructor; auto.
  split; [reflexivity | constructor; [exact Hv | constructor]].
Qed.

Lemma injective_iff_dot L A : injective L A <-> injective_dot L A.
Proof.
  unfold Linear.injective, Linear.injective_dot, wf_vec. split; intros H x Hl Hx HA; apply H; auto.
  - eapply Forall_impl; [|exact HA]. intros r Hr. cbv beta in *. rewrite lincomb_dot, Hr. reflexivity.
  - eapply Forall_impl; [|exact HA]. intros r Hr. cbv beta in *. rewrite lincomb_dot in Hr. congruence.
Qed.

Lemma dot_byte r x : wf_vec r -> wf_vec x -> dot r x < 256.
Proof.
  unfold wf_vec. intros Hr. revert x; induction Hr as [|a r Ha Hr IH]; intros x Hx; cbn; [lia|].
  destruct Hx as [|v x Hv Hx]; [lia|]. apply lxor_byte; auto.
Qed.

Lemma dot_vadd_l r1 r2 x : length r1 = length r2 -> wf_vec r1 -> wf_vec r2 -> wf_vec x ->
  dot (vadd r1 r2) x = N.lxor (dot r1 x) (dot r2 x).
Proof.
  intros E H1 H2 Hx.
  pose proof (lincomb_add 1 r1 r2 _ E H1 H2 (wf_mat_singletons x Hx)) as H.
  rewrite !lincomb_dot in H. cbn in H. congruence.
Qed.

Lemma dot_vscale_l c r x : c < 256 -> wf_vec r -> wf_vec x -> dot (vscale c r) x = mul c (dot r x).
Proof.
  intros Hc Hr Hx.
  pose proof (lincomb_scale 1 c r _ Hc Hr (wf_mat_singletons x Hx)) as H.
  rewrite !lincomb_dot in H. cbn in H. congruence.
Qed.

Lemma dot_zero_r r n : wf_vec r -> dot r (repeat 0 n) = 0.
Proof.
  unfold wf_vec. intros Hr. revert n; induction Hr as [|a r Ha Hr IH]; intros [|n]; cbn; try reflexivity.
  rewrite IH, F0r by assumption. reflexivity.
Qed.

(* ---- row operations ---- *)

Lemma apply_op_length o rows : length (apply_op o rows) = length rows.
Proof.
  destruct o as [d s|d c|d s c]; unfold Linear.apply_op.
  - destruct (nth_error rows d); [|reflexivity]. destruct (nth_error rows s); [|reflexivity]. apply upd_nth_length.
  - destruct (nth_error rows d); [|reflexivity]. apply upd_nth_length.
  - destruct (nth_error rows d); [|reflexivity]. destruct (nth_error rows s); [|reflexivity]. apply upd_nth_length.
Qed.

Lemma apply_ops_length ops rows : length (apply_ops ops rows) = length rows.
Proof.
  revert rows; induction ops as [|o ops IH]; intros rows; [reflexivity|].
  unfold Linear.apply_ops. cbn [fold_left]. fold (apply_ops ops (apply_op o rows)).
  rewrite IH. apply apply_op_length.
Qed.

Lemma apply_ops_cons o ops rows : apply_ops (o :: ops) rows = apply_ops ops (apply_op o rows).
Proof. reflexivity. Qed.

Lemma op_valid_scalar M o : op_valid M o = true ->
  match o with OpAdd _ _ => True | OpMul _ c => c < 256 /\ c <> 0 | OpFMA _ _ c => c < 256 end.
Proof.
  destruct o as [d s|d c|d s c]; cbn; intros H; auto.
  - apply andb_true_iff in H. destruct H as [H H3]. apply andb_true_iff in H. destruct H as [H1 H2].
    apply N.ltb_lt in H2. apply negb_true_iff in H3. apply N.eqb_neq in H3. auto.
  - apply andb_true_iff in H. destruct H as [H H3]. apply N.ltb_lt in H3. exact H3.
Qed.

Lemma op_valid_idx M o : op_valid M o = true ->
  match o with
  | OpAdd d s => (d < M)%nat /\ (s < M)%nat /\ d <> s
  | OpMul d _ => (d < M)%nat
  | OpFMA d s _ => (d < M)%nat /\ (s < M)%nat /\ d <> s
  end.
Proof.
  destruct o as [d s|d c|d s c]; cbn; intros H.
  - apply andb_true_iff in H. destruct H as [H H3]. apply andb_true_iff in H. destruct H as [H1 H2].
    apply Nat.ltb_lt in H1, H2. apply negb_true_iff in H3. apply Nat.eqb_neq in H3. auto.
  - apply andb_true_iff in H. destruct H as [H H3]. apply andb_true_iff in H. destruct H as [H1 H2].
    apply Nat.ltb_lt in H1. exact H1.
  - apply andb_true_iff in H. destruct H as [H H4]. apply andb_true_iff in H. destruct H as [H H3].
    apply andb_true_iff in H. destruct H as [H1 H2].
    apply Nat.ltb_lt in H1, H2. apply negb_true_iff in H3. apply Nat.eqb_neq in H3. auto.
Qed.

Lemma apply_op_wf n M o rows : op_valid M o = true -> wf_mat n rows -> wf_mat n (apply_op o rows).
Proof.
  intros V H. pose proof (op_valid_scalar M o V) as Sc.
  destruct o as [d s|d c|d s c]; unfold Linear.apply_op.
  - destruct (nth_error rows d) as [rd|] eqn:Ed; [|exact H].
    destruct (nth_error rows s) as [rs|] eqn:Es; [|exact H].
    destruct (wf_mat_nth_error _ _ _ _ H Ed) as [Ld Wd]. destruct (wf_mat_nth_error _ _ _ _ H Es) as [Ls Ws].
    apply Forall_upd_nth; [exact H|]. split; [rewrite vadd_length; lia | apply wf_vec_vadd; assumption].
  - destruct (nth_error rows d) as [rd|] eqn:Ed; [|exact H].
    destruct (wf_mat_nth_error _ _ _ _ H Ed) as [Ld Wd].
    apply Forall_upd_nth; [exact H|]. split; [rewrite vscale_length; exact Ld | apply wf_vec_vscale; tauto].
  - destruct (nth_error rows d) as [rd|] eqn:Ed; [|exact H].
    destruct (nth_error rows s) as [rs|] eqn:Es; [|exact H].
    destruct (wf_mat_nth_error _ _ _ _ H Ed) as [Ld Wd]. destruct (wf_mat_nth_error _ _ _ _ H Es) as [Ls Ws].
    apply Forall_upd_nth; [exact H|]. split.
    + rewrite vadd_length, vscale_length; lia.
    + apply wf_vec_vadd; [assumption | apply wf_vec_vscale; assumption].
Qed.

Lemma apply_ops_wf n M ops rows : forallb (op_valid M) ops = true -> wf_mat n rows -> wf_mat n (apply_ops ops rows).
Proof.
  revert rows; induction ops as [|o ops IH]; intros rows V H; [exact H|].
  cbn [forallb] in V. apply andb_true_iff in V. destruct V as [V1 V2].
  rewrite apply_ops_cons. apply IH; [exact V2|]. eapply apply_op_wf; eassumption.
Qed.

Lemma op_preserve_fwd T L M A C D o : op_valid M o = true -> wf_mat L A -> wf_mat T C ->
  solves T A C D -> solves T (apply_op o A) C (apply_op o D).
Proof.
  intros V HA HC H. pose proof (op_valid_scalar M o V) as Sc. unfold Linear.solves in *.
  destruct o as [d s|d c|d s c]; unfold Linear.apply_op.
  - destruct (nth_error A d) as [rd|] eqn:Ed;
      [|rewrite (Forall2_nth_error_none _ _ _ _ H Ed); exact H].
    destruct (Forall2_nth_error _ _ _ _ _ H Ed) as [dd [Edd Pd]]. rewrite Edd.
    destruct (nth_error A s) as [rs|] eqn:Es;
      [|rewrite (Forall2_nth_error_none _ _ _ _ H Es); exact H].
    destruct (Forall2_nth_error _ _ _ _ _ H Es) as [ds [Eds Ps]]. rewrite Eds.
    destruct (wf_mat_nth_error _ _ _ _ HA Ed) as [Ld Wd]. destruct (wf_mat_nth_error _ _ _ _ HA Es) as [Ls Ws].
    apply Forall2_upd_nth; [exact H|]. cbv beta.
    rewrite lincomb_add by (try assumption; lia). rewrite Pd, Ps. reflexivity.
  - destruct (nth_error A d) as [rd|] eqn:Ed;
      [|rewrite (Forall2_nth_error_none _ _ _ _ H Ed); exact H].
    destruct (Forall2_nth_error _ _ _ _ _ H Ed) as [dd [Edd Pd]]. rewrite Edd.
    destruct (wf_mat_nth_error _ _ _ _ HA Ed) as [Ld Wd].
    apply Forall2_upd_nth; [exact H|]. cbv beta.
    rewrite lincomb_scale by tauto. rewrite Pd. reflexivity.
  - destruct (nth_error A d) as [rd|] eqn:Ed;
      [|rewrite (Forall2_nth_error_none _ _ _ _ H Ed); exact H].
    destruct (Forall2_nth_error _ _ _ _ _ H Ed) as [dd [Edd Pd]]. rewrite Edd.
    destruct (nth_error A s) as [rs|] eqn:Es;
      [|rewrite (Forall2_nth_error_none _ _ _ _ H Es); exact H].
    destruct (Forall2_nth_error _ _ _ _ _ H Es) as [ds [Eds Ps]]. rewrite Eds.
    destruct (wf_mat_nth_error _ _ _ _ HA Ed) as [Ld Wd]. destruct (wf_mat_nth_error _ _ _ _ HA Es) as [Ls Ws].
    apply Forall2_upd_nth; [exact H|]. cbv beta.
    rewrite lincomb_add; try assumption.
    + rewrite lincomb_scale by assumption. rewrite Pd, Ps. reflexivity.
    + rewrite vscale_length. lia.
    + apply wf_vec_vscale; assumption.
Qed.

Theorem ops_preserve_fwd T L A C D ops :
  forallb (op_valid (length A)) ops = true -> wf_mat L A -> wf_mat T C ->
  solves T A C D -> solves T (apply_ops ops A) C (apply_ops ops D).
Proof.
  revert A D; induction ops as [|o ops IH]; intros A D V HA HC H; [exact H|].
  cbn [forallb] in V. apply andb_true_iff in V. destruct V as [V1 V2].
  rewrite !apply_ops_cons. apply IH.
  - rewrite apply_op_length. exact V2.
  - eapply apply_op_wf; eassumption.
  - exact HC.
  - eapply op_preserve_fwd; eassumption.
Qed.

(* every valid operation has an inverse operation *)
Definition inv_op (o : symop) : symop :=
  match o with OpMul d c => OpMul d (inv c) | _ => o end.

Lemma inv_op_valid M o : op_valid M o = true -> op_valid M (inv_op o) = true.
Proof.
  intros V. pose proof (op_valid_scalar M o V) as Sc. pose proof (op_valid_idx M o V) as Ix.
  destruct o as [d s|d c|d s c]; cbn [inv_op]; try exact V.
  cbn [op_valid]. destruct Sc as [Hc Hz].
  apply andb_true_iff; split; [apply andb_true_iff; split|].
  - apply Nat.ltb_lt. exact Ix.
  - apply N.ltb_lt. apply inv_byte; assumption.
  - apply negb_true_iff. apply N.eqb_neq. apply inv_nz; assumption.
Qed.

Lemma nth_error_lt {A} (l : list A) i : (i < length l)%nat -> exists x, nth_error l i = Some x.
Proof.
  intros H. destruct (nth_error l i) as [x|] eqn:E; [eauto|]. apply nth_error_None in E. lia.
Qed.

Lemma apply_op_inv n o rows : op_valid (length rows) o = true -> wf_mat n rows ->
  apply_op (inv_op o) (apply_op o rows) = rows.
Proof.
  intros V H. pose proof (op_valid_scalar _ o V) as Sc. pose proof (op_valid_idx _ o V) as Ix.
  destruct o as [d s|d c|d s c]; cbn [inv_op]; unfold Linear.apply_op.
  - destruct Ix as [Hd [Hs Hne]].
    destruct (nth_error_lt rows d Hd) as [rd Ed]. destruct (nth_error_lt rows s Hs) as [rs Es].
    rewrite Ed, Es. rewrite nth_error_upd_same by exact Hd. rewrite nth_error_upd_other by exact Hne.
    rewrite Es. rewrite upd_nth_upd.
    destruct (wf_mat_nth_error _ _ _ _ H Ed) as [Ld Wd]. destruct (wf_mat_nth_error _ _ _ _ H Es) as [Ls Ws].
    rewrite vadd_cancel_r by lia. apply upd_nth_same. exact Ed.
  - destruct Sc as [Hc Hz].
    destruct (nth_error_lt rows d Ix) as [rd Ed].
    rewrite Ed. rewrite nth_error_upd_same by exact Ix. rewrite upd_nth_upd.
    destruct (wf_mat_nth_error _ _ _ _ H Ed) as [Ld Wd].
    rewrite vscale_vscale by (try apply inv_byte; assumption).
    rewrite mul_inv_l by assumption. rewrite vscale_1 by assumption. apply upd_nth_same. exact Ed.
  - destruct Ix as [Hd [Hs Hne]].
    destruct (nth_error_lt rows d Hd) as [rd Ed]. destruct (nth_error_lt rows s Hs) as [rs Es].
    rewrite Ed, Es. rewrite nth_error_upd_same by exact Hd. rewrite nth_error_upd_other by exact Hne.
    rewrite Es. rewrite upd_nth_upd.
    destruct (wf_mat_nth_error _ _ _ _ H Ed) as [Ld Wd]. destruct (wf_mat_nth_error _ _ _ _ H Es) as [Ls Ws].
    rewrite vadd_cancel_r by (rewrite vscale_length; lia). apply upd_nth_same. exact Ed.
Qed.

Theorem ops_preserve_bwd T L A C D ops :
  forallb (op_valid (length A)) ops = true -> wf_mat L A -> wf_mat T C -> wf_mat T D ->
  solves T (apply_ops ops A) C (apply_ops ops D) -> solves T A C D.
Proof.
  revert A D; induction ops as [|o ops IH]; intros A D V HA HC HD H; [exact H|].
  cbn [forallb] in V. apply andb_true_iff in V. destruct V as [V1 V2].
  rewrite !apply_ops_cons in H.
  assert (Elen : length A = length D).
  { pose proof (Forall2_len _ _ _ H) as E. rewrite !apply_ops_length, !apply_op_length in E. exact E. }
  assert (H1 : solves T (apply_op o A) C (apply_op o D)).
  { apply IH; try assumption.
    - rewrite apply_op_length. exact V2.
    - eapply apply_op_wf; eassumption.
    - eapply apply_op_wf; eassumption. }
  pose proof (op_preserve_fwd T L (length A) _ C _ (inv_op o) (inv_op_valid _ _ V1)
                (apply_op_wf _ _ _ _ V1 HA) HC H1) as H2.
  rewrite (apply_op_inv L o A V1 HA) in H2.
  rewrite Elen in V1. rewrite (apply_op_inv T o D V1 HD) in H2. exact H2.
Qed.

(* ---- certificates ---- *)

Lemma check_cert_spec L A ops order : check_cert L A ops order = true ->
  forallb (op_valid (length A)) ops = true /\ length order = L /\
  (forall j, (j < L)%nat -> (nth j order O < length A)%nat) /\
  (forall j, (j < L)%nat -> nth (nth j order O) (apply_ops ops A) [] = unit_row L j).
Proof.
  unfold Linear.check_cert. intros H.
  apply andb_true_iff in H. destruct H as [H H4]. apply andb_true_iff in H. destruct H as [H H3].
  apply andb_true_iff in H. destruct H as [H1 H2]. apply Nat.eqb_eq in H2.
  split; [exact H1|]. split; [exact H2|]. split.
  - intros j Hj. rewrite forallb_forall in H3. apply Nat.ltb_lt. apply H3. apply nth_In. lia.
  - intros j Hj. rewrite forallb_forall in H4. apply vec_eqb_eq. apply H4. apply in_seq. lia.
Qed.

Lemma read_out_length order rows : length (read_out order rows) = length order.
Proof. apply map_length. Qed.

Lemma read_out_nth order rows j : (j < length order)%nat ->
  nth j (read_out order rows) [] = nth (nth j order O) rows [].
Proof.
  intros Hj. unfold read_out.
  rewrite (nth_indep _ [] (nth O rows [])) by (rewrite map_length; exact Hj).
  apply (map_nth (fun i => nth i rows [])).
Qed.

(* if C solves the system then the read-out of the transformed right-hand sides is C *)
Theorem cert_sound_unique T L A ops order C D :
  check_cert L A ops order = true -> wf_mat L A -> wf_mat T C -> length C = L ->
  solves T A C D -> read_out order (apply_ops ops D) = C.
Proof.
  intros Hc HA HC HL H. destruct (check_cert_spec _ _ _ _ Hc) as [V [Ho [Hlt Hu]]].
  pose proof (ops_preserve_fwd T L A C D ops V HA HC H) as H'.
  apply (nth_ext _ _ [] []); [rewrite read_out_length; lia|].
  intros j Hj. rewrite read_out_length in Hj. rewrite read_out_nth by exact Hj.
  rewrite Ho in Hj.
  pose proof (Forall2_nth _ _ _ (nth j order O) [] [] H') as P. cbv beta in P.
  rewrite <- P by (rewrite apply_ops_length; apply Hlt; exact Hj).
  rewrite Hu by exact Hj. rewrite <- HL. apply lincomb_unit; [exact HC | lia].
Qed.

Lemma map_singleton_inj (x y : list N) : map (fun v => [v]) x = map (fun v => [v]) y -> x = y.
Proof.
  revert y; induction x as [|a x IH]; intros [|b y] H; cbn in H; try discriminate; auto.
  injection H as -> H. f_equal. apply IH. exact H.
Qed.

Theorem cert_injective L A ops order :
  check_cert L A ops order = true -> wf_mat L A -> injective L A.
Proof.
  intros Hc HA x Hl Hx Hk.
  set (Z := repeat [0] (length A)).
  assert (S1 : solves 1 A (map (fun v => [v]) x) Z).
  { unfold Linear.solves, Z. apply Forall_Forall2_repeat. exact Hk. }
  assert (S2 : solves 1 A (map (fun v => [v]) (repeat 0 L)) Z).
  { unfold Linear.solves, Z. apply Forall_Forall2_repeat.
    eapply Forall_impl; [|exact HA]. intros r [_ Wr]. cbv beta.
    rewrite lincomb_dot, dot_zero_r by exact Wr. reflexivity. }
  pose proof (cert_sound_unique 1 L A ops order _ Z Hc HA (wf_mat_singletons x Hx)
                ltac:(rewrite map_length; exact Hl) S1) as E1.
  assert (W0 : wf_vec (repeat 0 L)) by apply wf_vec_vzero.
  pose proof (cert_sound_unique 1 L A ops order _ Z Hc HA (wf_mat_singletons _ W0)
                ltac:(rewrite map_length, repeat_length; reflexivity) S2) as E2.
  apply map_singleton_inj. rewrite <- E1, <- E2. reflexivity.
Qed.

(* square system: the read-out is a solution *)
Theorem cert_sound_exists T L A ops order D :
  check_cert L A ops order = true -> length A = L -> NoDup order ->
  wf_mat L A -> wf_mat T D -> length D = L ->
  solves T A (read_out order (apply_ops ops D)) D.
Proof.
  intros Hc Hsq Hnd HA HD HDl. destruct (check_cert_spec _ _ _ _ Hc) as [V [Ho [Hlt Hu]]].
  set (A' := apply_ops ops A). set (D' := apply_ops ops D).
  assert (V' : forallb (op_valid (length D)) ops = true) by (rewrite HDl, <- Hsq; exact V).
  assert (HD' : wf_mat T D') by (eapply apply_ops_wf; eassumption).
  assert (LD' : length D' = L) by (unfold D'; rewrite apply_ops_length; exact HDl).
  assert (LA' : length A' = L) by (unfold A'; rewrite apply_ops_length; exact Hsq).
  set (C := read_out order D').
  assert (HC : wf_mat T C).
  { unfold wf_mat, C, read_out. apply Forall_forall. intros c Hin. apply in_map_iff in Hin.
    destruct Hin as [i [<- Hi]]. apply (wf_mat_nth T D' i HD').
    destruct (In_nth _ _ O Hi) as [j [Hj <-]]. rewrite LD', <- Hsq. apply Hlt. lia. }
  assert (LC : length C = L) by (unfold C; rewrite read_out_length; exact Ho).
  (* order is onto the row indices *)
  assert (Onto : forall i, (i < L)%nat -> exists j, (j < L)%nat /\ nth j order O = i).
  { intros i Hi.
    assert (Inc : incl (seq 0 L) order).
    { apply NoDup_length_incl; [exact Hnd | rewrite seq_length; lia|].
      intros k Hk. apply in_seq. destruct (In_nth _ _ O Hk) as [j [Hj <-]].
      specialize (Hlt j ltac:(lia)). lia. }
    assert (Hin : In i order) by (apply Inc; apply in_seq; lia).
    destruct (In_nth _ _ O Hin) as [j [Hj E]]. exists j. split; [lia | exact E]. }
  apply (ops_preserve_bwd T L A C D ops V HA HC HD).
  fold A' D'. unfold Linear.solves. apply (Forall2_of_nth _ _ _ [] []); [lia|].
  intros i Hi. rewrite LA' in Hi. destruct (Onto i Hi) as [j [Hj <-]].
  fold A'. rewrite Hu by exact Hj. rewrite <- LC. rewrite lincomb_unit by (try exact HC; lia).
  unfold C. apply read_out_nth. lia.
Qed.

(* ---- Gaussian elimination ---- *)

Lemma pick_row_some A p R : pick_row A = Some (p, R) -> Permutation A (p :: R) /\ hd 0 p <> 0.
Proof.
  revert p R; induction A as [|r A IH]; intros p R H; cbn in H; [discriminate|].
  destruct (hd 0 r =? 0) eqn:E.
  - destruct (pick_row A) as [[p' R']|]; [|discriminate]. injection H as <- <-.
    destruct (IH p' R' eq_refl) as [P Hz]. split; [|exact Hz].
    eapply perm_trans; [apply perm_skip; exact P | apply perm_swap].
  - injection H as <- <-. split; [apply Permutation_refl | apply N.eqb_neq; exact E].
Qed.

Lemma pick_row_none A : pick_row A = None -> Forall (fun r => hd 0 r = 0) A.
Proof.
  induction A as [|r A IH]; intros H; cbn in H; [constructor|].
  destruct (hd 0 r =? 0) eqn:E; [|discriminate].
  destruct (pick_row A) as [[p' R']|]; [discriminate|].
  constructor; [apply N.eqb_eq; exact E | apply IH; reflexivity].
Qed.

Lemma pick_rhs_spec {P : list N -> list N -> Prop} A D p R dp RD :
  Forall2 P A D -> pick_row A = Some (p, R) -> pick_rhs A D = (dp, RD) ->
  P p dp /\ Forall2 P R RD.
Proof.
  intros H. revert p R dp RD; induction H as [|r d A D Hrd HAD IH]; intros p R dp RD E1 E2; cbn in E1, E2; [discriminate|].
  destruct (hd 0 r =? 0) eqn:E.
  - destruct (pick_row A) as [[p' R']|]; [|discriminate]. injection E1 as <- <-.
    destruct (pick_rhs A D) as [dp' RD'] eqn:E3. injection E2 as <- <-.
    destruct (IH p' R' dp' RD' eq_refl eq_refl) as [Hp HR]. split; [exact Hp|]. constructor; assumption.
  - injection E1 as <- <-. injection E2 as <- <-. split; assumption.
Qed.

(* the converse: reassemble a statement about all rows *)
Lemma pick_rhs_build {P : list N -> list N -> Prop} A D p R dp RD :
  length A = length D -> pick_row A = Some (p, R) -> pick_rhs A D = (dp, RD) ->
  P p dp -> Forall2 P R RD -> Forall2 P A D.
Proof.
  revert D p R dp RD; induction A as [|r A IH]; intros [|d D] p R dp RD El E1 E2 Hp HR;
    cbn in El, E1, E2; try discriminate.
  destruct (hd 0 r =? 0) eqn:E.
  - destruct (pick_row A) as [[p' R']|]; [|discriminate]. injection E1 as <- <-.
    destruct (pick_rhs A D) as [dp' RD'] eqn:E3. injection E2 as <- <-.
    inversion HR; subst. constructor; [assumption|].
    apply (IH D p' R' dp' RD'); auto.
  - injection E1 as <- <-. injection E2 as <- <-. constructor; assumption.
Qed.

Lemma elim_coef_byte p r : wf_vec p -> wf_vec r -> hd 0 p <> 0 -> elim_coef p r < 256.
Proof.
  intros Hp Hr Hz. unfold Linear.elim_coef.
  assert (Bp : hd 0 p < 256) by (destruct Hp; cbn; [lia | assumption]).
  assert (Br : hd 0 r < 256) by (destruct Hr; cbn; [lia | assumption]).
  apply Fclosed; [exact Br | apply inv_byte; assumption].
Qed.

Lemma wf_vec_tl v : wf_vec v -> wf_vec (tl v).
Proof. intros H. destruct H; cbn; [constructor | assumption]. Qed.

Lemma elim_row_wf L p r : length p = S L -> length r = S L -> wf_vec p -> wf_vec r -> hd 0 p <> 0 ->
  length (elim_row p r) = L /\ wf_vec (elim_row p r).
Proof.
  intros Lp Lr Hp Hr Hz. unfold Linear.elim_row. split.
  - rewrite vadd_length, vscale_length. destruct p, r; cbn in *; lia.
  - apply wf_vec_vadd; [apply wf_vec_tl; exact Hr|].
    apply wf_vec_vscale; [apply elim_coef_byte; assumption | apply wf_vec_tl; exact Hp].
Qed.

Lemma elim_rows_wf L p R : length p = S L -> wf_vec p -> hd 0 p <> 0 -> wf_mat (S L) R ->
  wf_mat L (map (elim_row p) R).
Proof.
  intros Lp Hp Hz HR. unfold wf_mat in *. apply Forall_map. eapply Forall_impl; [|exact HR].
  intros r [Lr Hr]. apply elim_row_wf; assumption.
Qed.

(* one elimination step on an equation *)
Lemma elim_step T a pr b rr c0 C1 :
  a < 256 -> a <> 0 -> b < 256 -> wf_vec pr -> wf_vec rr -> length pr = length rr ->
  length c0 = T -> wf_vec c0 -> wf_mat T C1 ->
  lincomb T (elim_row (a :: pr) (b :: rr)) C1 =
  elim_rhs (a :: pr) (lincomb T (a :: pr) (c0 :: C1)) (b :: rr) (lincomb T (b :: rr) (c0 :: C1)).
Proof.
  intros Ha Hz Hb Hpr Hrr El Lc Hc HC.
  unfold Linear.elim_row, Linear.elim_rhs, Linear.elim_coef. cbn [hd tl].
  set (f := mul b (inv a)).
  assert (Hf : f < 256) by (apply Fclosed; [exact Hb | apply inv_byte; assumption]).
  rewrite !lincomb_cons.
  rewrite lincomb_add; try assumption;
    [| rewrite vscale_length; lia | apply wf_vec_vscale; assumption].
  rewrite lincomb_scale by assumption.
  rewrite vscale_vadd; try assumption;
    [| apply wf_vec_vscale; assumption | apply lincomb_wf; assumption].
  rewrite vscale_vscale by assumption.
  assert (Efa : mul f a = b).
  { unfold f. rewrite Fassoc by (try apply inv_byte; assumption).
    rewrite mul_inv_l by assumption. apply F1r. exact Hb. }
  rewrite Efa. symmetry. apply vadd_cross. left.
  rewrite vscale_length, lincomb_length by exact HC. lia.
Qed.

Lemma hd_cons_of_nz (p : list N) : hd 0 p <> 0 -> exists a pr, p = a :: pr.
Proof. destruct p as [|a pr]; cbn; [congruence | eauto]. Qed.

(* uniqueness / correctness: any (well-formed) solution is the one computed *)
Theorem gauss_solve_unique T L A D C C' :
  gauss_solve T L A D = Some C -> wf_mat L A -> wf_mat T C' -> length C' = L ->
  solves T A C' D -> C' = C.
Proof.
  revert A D C C'; induction L as [|L IH]; intros A D C C' G HA HC' HL H.
  - cbn in G. injection G as <-. destruct C'; [reflexivity | discriminate].
  - cbn [Linear.gauss_solve] in G.
    destruct (pick_row A) as [[p R]|] eqn:Ep; [|discriminate].
    destruct (pick_rhs A D) as [dp RD] eqn:Ed.
    destruct (gauss_solve T L (map (elim_row p) R) (map2 (elim_rhs p dp) R RD)) as [Y|] eqn:Er; [|discriminate].
    injection G as <-.
    destruct (pick_row_some _ _ _ Ep) as [Perm Hz].
    assert (HpR : wf_mat (S L) (p :: R)) by (eapply Permutation_Forall; eassumption).
    pose proof (Forall_inv HpR) as [Lp Wp]. pose proof (Forall_inv_tail HpR) as HR. fold (wf_mat (S L) R) in HR.
    destruct (pick_rhs_spec _ _ _ _ _ _ H Ep Ed) as [Pp PR].
    destruct C' as [|c0 C1]; [discriminate|]. cbn [length] in HL.
    pose proof (Forall_inv HC') as [Lc Wc]. pose proof (Forall_inv_tail HC') as HC1. fold (wf_mat T C1) in HC1.
    destruct (hd_cons_of_nz p Hz) as [a [pr ->]]. cbn [hd tl] in *.
    pose proof (Forall_inv Wp) as Ba. pose proof (Forall_inv_tail Wp) as Wpr. fold (wf_vec pr) in Wpr.
    assert (E1 : C1 = Y).
    { apply (IH (map (elim_row (a :: pr)) R) (map2 (elim_rhs (a :: pr) dp) R RD)); try assumption.
      - apply elim_rows_wf; assumption.
      - lia.
      - unfold Linear.solves.
        apply (Forall2_map_map2 _ _ _ _ _ _ PR). intros r d Hin Pr. cbv beta in Pr.
        unfold wf_mat in HR. rewrite Forall_forall in HR. destruct (HR r Hin) as [Lr Wr].
        destruct r as [|b rr]; [discriminate|].
        pose proof (Forall_inv Wr) as Bb. pose proof (Forall_inv_tail Wr) as Wrr. fold (wf_vec rr) in Wrr.
        rewrite <- Pr, <- Pp. apply elim_step; try assumption. cbn in Lp, Lr. lia. }
    subst Y. f_equal.
    rewrite <- Pp. rewrite lincomb_cons.
    rewrite vadd_cancel_r by (rewrite vscale_length, lincomb_length by exact HC1; lia).
    rewrite vscale_vscale by (try apply inv_byte; assumption).
    rewrite mul_inv_l by assumption. symmetry. apply vscale_1. exact Wc.
Qed.

Theorem gauss_solve_correct T L A D C :
  gauss_solve T L A D = Some C -> wf_mat L A ->
  forall C', wf_mat T C' -> length C' = L -> solves T A C' D -> C' = C.
Proof. intros G HA C' HC' HL H. eapply gauss_solve_unique; eassumption. Qed.

Theorem gauss_solve_consistent T L A D C C' :
  wf_mat L A -> wf_mat T C' -> length C' = L ->
  solves T A C' D -> gauss_solve T L A D = Some C -> C = C'.
Proof. intros HA HC' HL H G. symmetry. eapply gauss_solve_unique; eassumption. Qed.

Theorem gauss_solve_some_iff T L A D : gauss_solve T L A D <> None <-> gauss_rank_full L A = true.
Proof.
  revert A D; induction L as [|L IH]; intros A D; cbn [Linear.gauss_solve Linear.gauss_rank_full].
  - split; [reflexivity | discriminate].
  - destruct (pick_row A) as [[p R]|]; [|split; [congruence | discriminate]].
    destruct (pick_rhs A D) as [dp RD].
    rewrite <- (IH (map (elim_row p) R) (map2 (elim_rhs p dp) R RD)).
    destruct (gauss_solve T L (map (elim_row p) R) (map2 (elim_rhs p dp) R RD)); split; congruence.
Qed.

(* ---- rank and injectivity ---- *)

Lemma dot_cons a r v x : dot (a :: r) (v :: x) = N.lxor (mul a v) (dot r x).
Proof. reflexivity. Qed.

Lemma elim_dot a pr b rr y :
  a < 256 -> a <> 0 -> b < 256 -> wf_vec pr -> wf_vec rr -> length pr = length rr -> wf_vec y ->
  dot (elim_row (a :: pr) (b :: rr)) y = N.lxor (dot rr y) (mul (mul b (inv a)) (dot pr y)).
Proof.
  intros Ha Hz Hb Hpr Hrr El Hy. unfold Linear.elim_row, Linear.elim_coef. cbn [hd tl].
  assert (Hf : mul b (inv a) < 256) by (apply Fclosed; [exact Hb | apply inv_byte; assumption]).
  rewrite dot_vadd_l; try assumption;
    [| rewrite vscale_length; lia | apply wf_vec_vscale; assumption].
  rewrite dot_vscale_l by assumption. reflexivity.
Qed.

Lemma wf_vec_cons a v : wf_vec (a :: v) <-> a < 256 /\ wf_vec v.
Proof. unfold wf_vec. exact (Forall_cons_iff (fun x => x < 256) a v). Qed.

Lemma rank_full_injective_dot L A : wf_mat L A -> gauss_rank_full L A = true -> injective_dot L A.
Proof.
  revert A; induction L as [|L IH]; intros A HA G x Hl Hx Hk.
  - destruct x; [reflexivity | discriminate].
  - cbn [Linear.gauss_rank_full] in G.
    destruct (pick_row A) as [[p R]|] eqn:Ep; [|discriminate].
    destruct (pick_row_some _ _ _ Ep) as [Perm Hz].
    assert (HpR : wf_mat (S L) (p :: R)) by (eapply Permutation_Forall; eassumption).
    pose proof (Forall_inv HpR) as [Lp Wp]. pose proof (Forall_inv_tail HpR) as HR. fold (wf_mat (S L) R) in HR.
    assert (KpR : Forall (fun r => dot r x = 0) (p :: R)) by (eapply Permutation_Forall; eassumption).
    pose proof (Forall_inv KpR) as Kp. pose proof (Forall_inv_tail KpR) as KR.
    destruct (hd_cons_of_nz p Hz) as [a [pr ->]]. cbn [hd tl] in *.
    apply wf_vec_cons in Wp. destruct Wp as [Ba Wpr].
    destruct x as [|x0 y]; [discriminate|]. cbn [length] in Hl.
    apply wf_vec_cons in Hx. destruct Hx as [Bx Hy].
    rewrite dot_cons in Kp. apply lxor_eq_0 in Kp.
    assert (Ey : y = repeat 0 L).
    { apply (IH (map (elim_row (a :: pr)) R)); try assumption; try lia.
      - apply elim_rows_wf; try assumption. apply wf_vec_cons; auto.
      - apply Forall_map. unfold wf_mat in HR. rewrite Forall_forall in *. intros r Hin.
        destruct (HR r Hin) as [Lr Wr]. specialize (KR r Hin). cbv beta in KR.
        destruct r as [|b rr]; [discriminate|].
        apply wf_vec_cons in Wr. destruct Wr as [Bb Wrr].
        rewrite dot_cons in KR. apply lxor_eq_0 in KR.
        rewrite elim_dot; try assumption; [|cbn in Lp, Lr; lia].
        rewrite <- Kp, <- KR.
        rewrite <- Fassoc by (first [assumption | apply Fclosed; [assumption | apply inv_byte; assumption]]).
        rewrite (Fassoc b (inv a) a) by (try apply inv_byte; assumption).
        rewrite mul_inv_l by assumption. rewrite F1r by assumption. apply N.lxor_nilpotent. }
    subst y. rewrite dot_zero_r in Kp by exact Wpr.
    apply mul_eq_0 in Kp; try assumption. subst x0. reflexivity.
Qed.

Lemma injective_dot_rank_full L A : wf_mat L A -> injective_dot L A -> gauss_rank_full L A = true.
Proof.
  revert A; induction L as [|L IH]; intros A HA Inj; [reflexivity|].
  cbn [Linear.gauss_rank_full].
  destruct (pick_row A) as [[p R]|] eqn:Ep.
  - destruct (pick_row_some _ _ _ Ep) as [Perm Hz].
    assert (HpR : wf_mat (S L) (p :: R)) by (eapply Permutation_Forall; eassumption).
    pose proof (Forall_inv HpR) as [Lp Wp]. pose proof (Forall_inv_tail HpR) as HR. fold (wf_mat (S L) R) in HR.
    destruct (hd_cons_of_nz p Hz) as [a [pr ->]]. cbn [hd tl] in *.
    apply wf_vec_cons in Wp. destruct Wp as [Ba Wpr].
    apply IH; [apply elim_rows_wf; try assumption; apply wf_vec_cons; auto|].
    intros y Ly Hy Ky. apply Forall_map in Ky.
    set (dd := dot pr y). assert (Bd : dd < 256) by (apply dot_byte; assumption).
    set (x0 := mul (inv a) dd).
    assert (Bx : x0 < 256) by (apply Fclosed; [apply inv_byte; assumption | exact Bd]).
    assert (E : x0 :: y = repeat 0 (S L)).
    { apply Inj; [cbn; lia | apply wf_vec_cons; auto |].
      apply (Permutation_Forall (Permutation_sym Perm)). constructor.
      - rewrite dot_cons. fold dd. unfold x0.
        rewrite <- Fassoc by (try apply inv_byte; assumption).
        rewrite mul_inv_r by assumption. rewrite F1l by assumption. apply N.lxor_nilpotent.
      - unfold wf_mat in HR. rewrite Forall_forall in *. intros r Hin.
        destruct (HR r Hin) as [Lr Wr]. specialize (Ky r Hin). cbv beta in Ky.
        destruct r as [|b rr]; [discriminate|].
        apply wf_vec_cons in Wr. destruct Wr as [Bb Wrr].
        rewrite elim_dot in Ky; try assumption; [|cbn in Lp, Lr; lia].
        rewrite dot_cons. unfold x0. fold dd in Ky.
        rewrite <- Fassoc by (try apply inv_byte; assumption).
        rewrite N.lxor_comm. exact Ky. }
    cbn [repeat] in E. injection E as _ E. exact E.
  - exfalso. pose proof (pick_row_none _ Ep) as Hz.
    assert (E : 1 :: repeat 0 L = repeat 0 (S L)).
    { apply Inj; [cbn; rewrite repeat_length; reflexivity | apply wf_vec_cons; split; [lia | apply wf_vec_vzero] |].
      unfold wf_mat in HA. rewrite Forall_forall in *. intros r Hin.
      destruct (HA r Hin) as [Lr Wr]. specialize (Hz r Hin). cbv beta in Hz.
      destruct r as [|b rr]; [discriminate|]. cbn [hd] in Hz. subst b.
      apply wf_vec_cons in Wr. destruct Wr as [_ Wrr].
      rewrite dot_cons, dot_zero_r by exact Wrr. rewrite F0l by lia. reflexivity. }
    cbn [repeat] in E. discriminate.
Qed.

Theorem gauss_rank_full_iff_injective L A : wf_mat L A -> (gauss_rank_full L A = true <-> injective L A).
Proof.
  intros HA. rewrite injective_iff_dot. split.
  - apply rank_full_injective_dot. exact HA.
  - apply injective_dot_rank_full. exact HA.
Qed.

Lemma rank_full_rows L A : gauss_rank_full L A = true -> (L <= length A)%nat.
Proof.
  revert A; induction L as [|L IH]; intros A G; [lia|].
  cbn [Linear.gauss_rank_full] in G.
  destruct (pick_row A) as [[p R]|] eqn:Ep; [|discriminate].
  destruct (pick_row_some _ _ _ Ep) as [Perm _]. apply Permutation_length in Perm.
  apply IH in G. rewrite map_length in G. rewrite Perm. cbn. lia.
Qed.

Theorem fewer_rows_not_injective L A : wf_mat L A -> (length A < L)%nat -> ~ injective L A.
Proof.
  intros HA Hlt Inj. apply (gauss_rank_full_iff_injective L A HA) in Inj.
  apply rank_full_rows in Inj. lia.
Qed.

Theorem injective_incl L A B : incl A B -> injective L A -> injective L B.
Proof.
  intros Inc Inj x Hl Hx Hk. apply Inj; try assumption.
  rewrite Forall_forall in *. intros r Hin. apply Hk. apply Inc. exact Hin.
Qed.

Theorem injective_mono L A B : injective L A -> injective L (A ++ B).
Proof. apply injective_incl. apply incl_appl. apply incl_refl. Qed.

Theorem injective_mono_l L A B : injective L A -> injective L (B ++ A).
Proof. apply injective_incl. apply incl_appr. apply incl_refl. Qed.

Theorem injective_perm L A A' : Permutation A A' -> injective L A -> injective L A'.
Proof.
  intros P. apply injective_incl. intros r Hin. eapply Permutation_in; eassumption.
Qed.

(* ---- existence for square systems: the computed C does solve the system ---- *)

Lemma Forall2_map_map2_inv {A B C D} (Q : C -> D -> Prop) (f : A -> C) (g : A -> B -> D) l m :
  length l = length m -> Forall2 Q (map f l) (map2 g l m) -> Forall2 (fun a b => Q (f a) (g a b)) l m.
Proof.
  revert m; induction l as [|a l IH]; intros [|b m] E H; cbn in E; try discriminate; [constructor|].
  cbn in H. inversion H; subst. constructor; [assumption | apply IH; [lia | assumption]].
Qed.

Lemma Forall2_cons_inv {A B} (P : A -> B -> Prop) a b l m :
  Forall2 P (a :: l) (b :: m) -> P a b /\ Forall2 P l m.
Proof. intros H; inversion H; auto. Qed.

Lemma vadd_inj_r u v w : (length w >= length u)%nat -> (length w >= length v)%nat ->
  vadd u w = vadd v w -> u = v.
Proof.
  intros Hu Hv E. rewrite <- (vadd_cancel_r u w) by lia. rewrite E. apply vadd_cancel_r. lia.
Qed.

Theorem gauss_solve_exists T L A D C :
  gauss_solve T L A D = Some C -> length A = L -> length D = L -> wf_mat L A -> wf_mat T D ->
  solves T A C D /\ wf_mat T C /\ length C = L.
Proof.
  revert A D C; induction L as [|L IH]; intros A D C G LA LD HA HD.
  - cbn in G. injection G as <-. destruct A; [|discriminate]. destruct D; [|discriminate].
    split; [constructor | split; [constructor | reflexivity]].
  - cbn [Linear.gauss_solve] in G.
    destruct (pick_row A) as [[p R]|] eqn:Ep; [|discriminate].
    destruct (pick_rhs A D) as [dp RD] eqn:Ed.
    destruct (gauss_solve T L (map (elim_row p) R) (map2 (elim_rhs p dp) R RD)) as [Y|] eqn:Er; [|discriminate].
    injection G as <-.
    destruct (pick_row_some _ _ _ Ep) as [Perm Hz].
    assert (HpR : wf_mat (S L) (p :: R)) by (eapply Permutation_Forall; eassumption).
    pose proof (Forall_inv HpR) as [Lp Wp]. pose proof (Forall_inv_tail HpR) as HR. fold (wf_mat (S L) R) in HR.
    assert (LR : length R = L) by (apply Permutation_length in Perm; cbn in Perm; lia).
    (* the right-hand sides split into well-formed parts of the right lengths *)
    assert (F2 : Forall2 (fun _ d => length d = T /\ wf_vec d) A D).
    { apply (Forall2_of_nth _ _ _ [] []); [lia|]. intros i Hi. apply (wf_mat_nth T D i HD). lia. }
    destruct (pick_rhs_spec _ _ _ _ _ _ F2 Ep Ed) as [[Ldp Wdp] FR].
    assert (LRD : length RD = L) by (rewrite <- (Forall2_len _ _ _ FR); exact LR).
    assert (HRD : wf_mat T RD).
    { unfold wf_mat. clear - FR. induction FR; constructor; auto. }
    destruct (hd_cons_of_nz p Hz) as [a [pr ->]]. cbn [hd tl] in *.
    pose proof Wp as Wp0. apply wf_vec_cons in Wp. destruct Wp as [Ba Wpr].
    assert (HA' : wf_mat L (map (elim_row (a :: pr)) R)) by (apply elim_rows_wf; assumption).
    assert (HD' : wf_mat T (map2 (elim_rhs (a :: pr) dp) R RD)).
    { unfold wf_mat in *. clear - HR FR Ldp Wdp Wp0 Hz Fclosed Finv F.
      induction FR as [|r d R RD [Ld Wd] FR IH']; cbn [map2]; constructor.
      - pose proof (Forall_inv HR) as [Lr Wr]. unfold Linear.elim_rhs. split.
        + rewrite vadd_length, vscale_length. lia.
        + apply wf_vec_vadd; [exact Wd|]. apply wf_vec_vscale; [|exact Wdp].
          apply elim_coef_byte; assumption.
      - apply IH'. exact (Forall_inv_tail HR). }
    assert (LD' : length (map2 (elim_rhs (a :: pr) dp) R RD) = L).
    { clear - LR LRD. revert RD L LR LRD. induction R as [|r R IHR]; intros [|d RD] L LR LRD; cbn in *; try lia.
      destruct L; [lia|]. rewrite (IHR RD L); lia. }
    destruct (IH _ _ _ Er ltac:(rewrite map_length; exact LR) LD' HA' HD') as [SY [WY LY]].
    set (x0 := vscale (inv a) (vadd dp (lincomb T pr Y))).
    assert (Bi : inv a < 256) by (apply inv_byte; assumption).
    assert (Wx : wf_vec x0).
    { apply wf_vec_vscale; [exact Bi|]. apply wf_vec_vadd; [exact Wdp | apply lincomb_wf; assumption]. }
    assert (Lx : length x0 = T).
    { unfold x0. rewrite vscale_length, vadd_length, lincomb_length by exact WY. lia. }
    assert (Pp : lincomb T (a :: pr) (x0 :: Y) = dp).
    { rewrite lincomb_cons. unfold x0. rewrite vscale_vscale; try assumption;
        [| apply wf_vec_vadd; [exact Wdp | apply lincomb_wf; assumption]].
      rewrite mul_inv_r by assumption.
      rewrite vscale_1 by (apply wf_vec_vadd; [exact Wdp | apply lincomb_wf; assumption]).
      apply vadd_cancel_r. rewrite lincomb_length by exact WY. lia. }
    split; [|split; [constructor; [split; assumption | exact WY] | cbn; lia]].
    unfold Linear.solves. apply (pick_rhs_build A D (a :: pr) R dp RD); try assumption; [lia|].
    unfold Linear.solves in SY. apply Forall2_map_map2_inv in SY; [|lia].
    (* row by row *)
    clear - SY HR FR Pp Ba Hz Wpr Lp Wx Lx WY Ldp Wdp Fclosed Fcomm Fassoc F1r F1l F0l F0r Fdr Fdl Finv F.
    revert HR FR. induction SY as [|r d R RD Hrd SY IH']; intros HR FR; constructor.
    + pose proof (Forall_inv HR) as [Lr Wr]. destruct (Forall2_cons_inv _ _ _ _ _ FR) as [[Ld Wd] _].
      destruct r as [|b rr]; [discriminate|]. apply wf_vec_cons in Wr. destruct Wr as [Bb Wrr].
      cbv beta in Hrd.
      rewrite (elim_step T a pr b rr x0 Y) in Hrd; try assumption; [|cbn in Lp, Lr; lia].
      rewrite Pp in Hrd. unfold Linear.elim_rhs in Hrd.
      apply vadd_inj_r in Hrd; [exact Hrd | |].
      * rewrite vscale_length. rewrite lincomb_length by (constructor; [split; assumption | exact WY]). lia.
      * rewrite vscale_length. lia.
    + apply IH'; [exact (Forall_inv_tail HR) | exact (proj2 (Forall2_cons_inv _ _ _ _ _ FR))].
Qed.

End Field.
