(* Proofs about Model/Octet.v over the regenerated tables: the model is the field of Spec/GF256.v. *)
From Coq Require Import NArith List Bool Lia.
From RQ Require Import Base.Outcome Base.ListX Gen.OctetTables Spec.GF256 Model.Octet.
Import ListNotations.
Open Scope N_scope.


Definition oeqb (x : outcome N) (v : N) : bool :=
  match x with Ok w => w =? v | Panic _ => false end.
Lemma oeqb_eq x v : oeqb x v = true -> x = Ok v.
Proof. destruct x; cbn; intros H; [apply N.eqb_eq in H; subst; auto | discriminate]. Qed.

Lemma len_exp : length OCT_EXP = 510%nat. Proof. reflexivity. Qed.
Lemma len_log : length OCT_LOG = 256%nat. Proof. reflexivity. Qed.

Lemma exp_at_ok i : i < 510 -> exp_at i = Ok (expN i).
Proof.
  intros H. unfold exp_at, nth_ok, expN.
  rewrite (nth_error_nth' OCT_EXP (N.to_nat i) 0); [reflexivity | rewrite len_exp; lia].
Qed.
Lemma log_at_ok a : a < 256 -> log_at a = Ok (logN a).
Proof.
  intros H. unfold log_at, nth_ok, logN.
  rewrite (nth_error_nth' OCT_LOG (N.to_nat a) 0); [reflexivity | rewrite len_log; lia].
Qed.

(* ---- finite sweeps over the tables (re-checked against the current source every run) ---- *)

Lemma sweep_exp_ok :
  forall_lt 510 (fun k => negb (expN k =? 0) && (expN k <? 256) && (logN (expN k) =? k mod 255)) = true. Proof. vm_compute. reflexivity. Qed.

Lemma sweep_log_ok :
  forall_lt 256 (fun a => (a =? 0) || ((logN a <? 255) && (expN (logN a) =? a))) = true. Proof. vm_compute. reflexivity. Qed.

Lemma exp_facts k : k < 510 -> expN k <> 0 /\ expN k < 256 /\ logN (expN k) = k mod 255.
Proof.
  intros H. pose proof sweep_exp_ok as S0.
  pose proof (forall_lt_spec _ _ S0 k H) as S. cbv beta in S. clear S0.
  apply andb_true_iff in S. destruct S as [S S3]. apply andb_true_iff in S. destruct S as [S1 S2].
  apply negb_true_iff in S1. apply N.eqb_neq in S1. apply N.ltb_lt in S2. apply N.eqb_eq in S3. auto.
Qed.
Lemma log_facts a : a < 256 -> a <> 0 -> logN a < 255 /\ expN (logN a) = a.
Proof.
  intros H Hz. pose proof sweep_log_ok as S0.
  pose proof (forall_lt_spec _ _ S0 a H) as S. cbv beta in S. clear S0.
  apply orb_true_iff in S. destruct S as [S|S]; [apply N.eqb_eq in S; contradiction|].
  apply andb_true_iff in S. destruct S as [S1 S2]. apply N.ltb_lt in S1. apply N.eqb_eq in S2. auto.
Qed.

Lemma exp_periodic i : i < 510 -> expN i = expN (i mod 255).
Proof.
  intros H. destruct (exp_facts i H) as [Hnz [Hlt Hlog]].
  destruct (log_facts (expN i) Hlt Hnz) as [_ He]. rewrite Hlog in He. symmetry. exact He.
Qed.


Lemma oct_mul_ok a b : a < 256 -> b < 256 -> oct_mul a b = Ok (mulN a b).
Proof.
  intros Ha Hb. unfold oct_mul, mulN.
  destruct ((a =? 0) || (b =? 0)) eqn:E; [reflexivity|].
  apply orb_false_iff in E. destruct E as [Ea Eb]. apply N.eqb_neq in Ea, Eb.
  rewrite (log_at_ok a Ha), (log_at_ok b Hb). cbn [obind].
  destruct (log_facts a Ha Ea) as [La _]. destruct (log_facts b Hb Eb) as [Lb _].
  apply exp_at_ok. lia.
Qed.

Lemma oct_div_ok a b : a < 256 -> b < 256 -> b <> 0 -> oct_div a b = Ok (divN a b).
Proof.
  intros Ha Hb Hz. unfold oct_div, divN.
  apply N.eqb_neq in Hz. rewrite Hz. apply N.eqb_neq in Hz.
  destruct (a =? 0) eqn:Ea; [reflexivity|]. apply N.eqb_neq in Ea.
  rewrite (log_at_ok a Ha), (log_at_ok b Hb). cbn [obind].
  destruct (log_facts a Ha Ea) as [La _]. destruct (log_facts b Hb Hz) as [Lb _].
  destruct (255 + logN a <? logN b) eqn:E; [apply N.ltb_lt in E; lia|].
  apply exp_at_ok. lia.
Qed.

Lemma mulN_lt a b : a < 256 -> b < 256 -> mulN a b < 256.
Proof.
  intros Ha Hb. unfold mulN. destruct ((a =? 0) || (b =? 0)) eqn:E; [lia|].
  apply orb_false_iff in E. destruct E as [Ea Eb]. apply N.eqb_neq in Ea, Eb.
  destruct (log_facts a Ha Ea) as [La _]. destruct (log_facts b Hb Eb) as [Lb _].
  apply exp_facts. lia.
Qed.

Lemma mulN_nz a b : a < 256 -> b < 256 -> a <> 0 -> b <> 0 ->
  mulN a b <> 0 /\ logN (mulN a b) = (logN a + logN b) mod 255.
Proof.
  intros Ha Hb Ea Eb. unfold mulN.
  assert (E : (a =? 0) || (b =? 0) = false)
    by (apply orb_false_iff; split; apply N.eqb_neq; assumption).
  rewrite E.
  destruct (log_facts a Ha Ea) as [La _]. destruct (log_facts b Hb Eb) as [Lb _].
  assert (Hk : logN a + logN b < 510) by lia.
  destruct (exp_facts _ Hk) as [H1 [_ H3]]. auto.
Qed.

Lemma mulN_comm a b : mulN a b = mulN b a.
Proof. unfold mulN. rewrite orb_comm, N.add_comm. reflexivity. Qed.

Lemma mulN_0_l b : mulN 0 b = 0. Proof. reflexivity. Qed.
Lemma mulN_0_r a : mulN a 0 = 0. Proof. unfold mulN. rewrite orb_true_r. reflexivity. Qed.

Lemma mulN_assoc a b c : a < 256 -> b < 256 -> c < 256 -> mulN (mulN a b) c = mulN a (mulN b c).
Proof.
  intros Ha Hb Hc.
  destruct (N.eq_dec a 0) as [->|Ea]; [reflexivity|].
  destruct (N.eq_dec b 0) as [->|Eb]; [rewrite mulN_0_r; change (mulN 0 c) with 0; rewrite mulN_0_r; reflexivity|].
  destruct (N.eq_dec c 0) as [->|Ec]; [rewrite !mulN_0_r; reflexivity|].
  destruct (mulN_nz a b Ha Hb Ea Eb) as [Nab Lab].
  destruct (mulN_nz b c Hb Hc Eb Ec) as [Nbc Lbc].
  destruct (log_facts a Ha Ea) as [La _]. destruct (log_facts b Hb Eb) as [Lb _].
  destruct (log_facts c Hc Ec) as [Lc _].
  assert (M : forall x y, x <> 0 -> y <> 0 -> mulN x y = expN (logN x + logN y)).
  { intros x y Hx Hy. unfold mulN.
    replace ((x =? 0) || (y =? 0)) with false; [reflexivity|].
    symmetry. apply orb_false_iff; split; apply N.eqb_neq; assumption. }
  rewrite (M (mulN a b) c Nab Ec), (M a (mulN b c) Ea Nbc), Lab, Lbc.
  assert (B1 : (logN a + logN b) mod 255 < 255) by (apply N.mod_lt; discriminate).
  assert (B2 : (logN b + logN c) mod 255 < 255) by (apply N.mod_lt; discriminate).
  rewrite (exp_periodic ((logN a + logN b) mod 255 + logN c)) by lia.
  rewrite (exp_periodic (logN a + (logN b + logN c) mod 255)) by lia.
  rewrite N.add_mod_idemp_l by discriminate.
  rewrite N.add_mod_idemp_r by discriminate.
  rewrite N.add_assoc. reflexivity.
Qed.

Lemma log_1 : logN 1 = 0. Proof. reflexivity. Qed.
Lemma exp_0 : expN 0 = 1. Proof. reflexivity. Qed.
Lemma exp_255 : expN 255 = 1. Proof. reflexivity. Qed.

Lemma mulN_1_r a : a < 256 -> mulN a 1 = a.
Proof.
  intros Ha. destruct (N.eq_dec a 0) as [->|Ea]; [reflexivity|].
  unfold mulN. replace ((a =? 0) || (1 =? 0)) with false.
  - rewrite log_1, N.add_0_r. apply log_facts; assumption.
  - symmetry. apply orb_false_iff. split; [apply N.eqb_neq; assumption | reflexivity].
Qed.

Lemma mulN_inv a : a < 256 -> a <> 0 -> mulN a (divN 1 a) = 1.
Proof.
  intros Ha Ea. destruct (log_facts a Ha Ea) as [La Hexp].
  unfold divN. cbn [N.eqb]. rewrite log_1, N.add_0_r.
  assert (Hk : 255 - logN a < 510) by lia.
  destruct (exp_facts _ Hk) as [Hnz [Hlt Hlog]].
  unfold mulN.
  replace ((a =? 0) || (expN (255 - logN a) =? 0)) with false
    by (symmetry; apply orb_false_iff; split; apply N.eqb_neq; assumption).
  rewrite Hlog.
  destruct (N.eq_dec (logN a) 0) as [Z|NZ].
  - rewrite Z. cbn. exact exp_0.
  - rewrite (N.mod_small (255 - logN a)) by lia.
    replace (logN a + (255 - logN a)) with 255 by lia. exact exp_255.
Qed.

Lemma mulN_div a b : a < 256 -> b < 256 -> b <> 0 -> mulN (divN a b) b = a.
Proof.
  intros Ha Hb Eb. destruct (log_facts b Hb Eb) as [Lb _].
  destruct (N.eq_dec a 0) as [->|Ea]; [reflexivity|].
  destruct (log_facts a Ha Ea) as [La Hexp].
  unfold divN. replace (a =? 0) with false by (symmetry; apply N.eqb_neq; assumption).
  assert (Hk : 255 + logN a - logN b < 510) by lia.
  destruct (exp_facts _ Hk) as [Hnz [Hlt Hlog]].
  unfold mulN.
  replace ((expN (255 + logN a - logN b) =? 0) || (b =? 0)) with false
    by (symmetry; apply orb_false_iff; split; apply N.eqb_neq; assumption).
  rewrite Hlog.
  assert (B1 : (255 + logN a - logN b) mod 255 < 255) by (apply N.mod_lt; discriminate).
  rewrite exp_periodic by lia.
  rewrite N.add_mod_idemp_l by discriminate.
  replace (255 + logN a - logN b + logN b) with (logN a + 1 * 255) by lia.
  rewrite N.mod_add by discriminate. rewrite N.mod_small by lia. exact Hexp.
Qed.

(* ---- the table arithmetic is the polynomial arithmetic of the Spec (65 536-pair sweep) ---- *)

Lemma sweep_mul_poly_ok :
  forall_lt2 256 256 (fun a b => mulN a b =? pmul a b) = true. Proof. vm_compute. reflexivity. Qed.

Lemma mulN_is_pmul a b : a < 256 -> b < 256 -> mulN a b = pmul a b.
Proof.
  intros Ha Hb. apply N.eqb_eq. pose proof sweep_mul_poly_ok as S0.
  exact (forall_lt2_spec _ _ _ S0 a b Ha Hb).
Qed.

(* polynomial multiplication is additive in its second argument: structural, any operands *)
Lemma sel_xorb p q m : sel (xorb p q) m = N.lxor (sel p m) (sel q m).
Proof. destruct p, q; cbn [sel xorb]; rewrite ?N.lxor_0_l, ?N.lxor_0_r, ?N.lxor_nilpotent; reflexivity. Qed.

Lemma pmul_lxor_r a b c : pmul a (N.lxor b c) = N.lxor (pmul a b) (pmul a c).
Proof.
  unfold pmul. rewrite <- xsum_map_lxor. f_equal. apply map_ext. intros i.
  rewrite N.lxor_spec. apply sel_xorb.
Qed.

Lemma lxor_lt_256 a b : a < 256 -> b < 256 -> N.lxor a b < 256.
Proof.
  intros Ha Hb.
  destruct (N.eq_dec (N.lxor a b) 0) as [->|Hz]; [lia|].
  change 256 with (2 ^ 8). apply N.log2_lt_pow2; [lia|].
  eapply N.le_lt_trans; [apply N.log2_lxor|].
  destruct (N.eq_dec a 0) as [->|Ea]; destruct (N.eq_dec b 0) as [->|Eb]; cbn [N.log2 N.max];
    try (apply N.max_lub_lt); try (apply N.log2_lt_pow2; lia); try lia.
  all: rewrite ?N.max_0_l, ?N.max_0_r; try (apply N.log2_lt_pow2; lia).
Qed.

Lemma mulN_distr_r a b c : a < 256 -> b < 256 -> c < 256 ->
  mulN a (N.lxor b c) = N.lxor (mulN a b) (mulN a c).
Proof.
  intros Ha Hb Hc. rewrite !mulN_is_pmul by (try apply lxor_lt_256; assumption).
  apply pmul_lxor_r.
Qed.

(* alpha *)
Lemma sweep_alpha_ok :
  forall_lt 256 (fun i => expN i =? ppow2 (N.to_nat i)) = true. Proof. vm_compute. reflexivity. Qed.

(* derived tables *)
Lemma sweep_tables_ok :
  forall_lt2 256 256 (fun c x =>
    oeqb (tbl2 octet_mul_table c x) (mulN c x) &&
    match tbl2 octet_mul_low_table c (N.land x 15), tbl2 octet_mul_hi_table c (N.shiftr x 4) with
    | Ok l, Ok h => N.lxor l h =? mulN c x
    | _, _ => false
    end) = true. Proof. vm_compute. reflexivity. Qed.

Lemma sweep_tables_dup_ok :
  forall_lt2 256 16 (fun c j =>
    match tbl2 octet_mul_low_table c j, tbl2 octet_mul_low_table c (j + 16),
          tbl2 octet_mul_hi_table c j, tbl2 octet_mul_hi_table c (j + 16) with
    | Ok l, Ok l', Ok h, Ok h' => (l =? l') && (h =? h')
    | _, _, _, _ => false
    end) = true. Proof. vm_compute. reflexivity. Qed.

Lemma oct_fma_ok acc a b : acc < 256 -> a < 256 -> b < 256 ->
  oct_fma acc a b = Ok (N.lxor acc (mulN a b)).
Proof.
  intros _ Ha Hb. unfold oct_fma, mulN.
  destruct (a =? 0) eqn:Ea; cbn [negb andb orb]; [rewrite N.lxor_0_r; reflexivity|].
  destruct (b =? 0) eqn:Eb; cbn [negb andb orb]; [rewrite N.lxor_0_r; reflexivity|].
  apply N.eqb_neq in Ea, Eb.
  rewrite (log_at_ok a Ha), (log_at_ok b Hb). cbn [obind].
  destruct (log_facts a Ha Ea) as [La _]. destruct (log_facts b Hb Eb) as [Lb _].
  rewrite exp_at_ok by lia. reflexivity.
Qed.

Lemma oct_alpha_ok i : i < 256 -> oct_alpha i = Ok (ppow2 (N.to_nat i)).
Proof.
  intros H. unfold oct_alpha. apply N.ltb_lt in H. rewrite H. apply N.ltb_lt in H.
  rewrite exp_at_ok by lia. f_equal. apply N.eqb_eq.
  pose proof sweep_alpha_ok as S0. exact (forall_lt_spec _ _ S0 i H).
Qed.

Lemma tables_ok c x : c < 256 -> x < 256 ->
  tbl2 octet_mul_table c x = Ok (mulN c x) /\
  exists l h, tbl2 octet_mul_low_table c (N.land x 15) = Ok l /\
              tbl2 octet_mul_hi_table c (N.shiftr x 4) = Ok h /\ N.lxor l h = mulN c x.
Proof.
  intros Hc Hx. pose proof sweep_tables_ok as S0.
  pose proof (forall_lt2_spec _ _ _ S0 c x Hc Hx) as S. cbv beta in S. clear S0.
  apply andb_true_iff in S. destruct S as [S1 S2]. split; [apply oeqb_eq; exact S1|].
  destruct (tbl2 octet_mul_low_table c (N.land x 15)) as [l|]; [|discriminate].
  destruct (tbl2 octet_mul_hi_table c (N.shiftr x 4)) as [h|]; [|discriminate].
  exists l, h. apply N.eqb_eq in S2. auto.
Qed.

Lemma tables_dup_ok c j : c < 256 -> j < 16 ->
  tbl2 octet_mul_low_table c (j + 16) = tbl2 octet_mul_low_table c j /\
  tbl2 octet_mul_hi_table c (j + 16) = tbl2 octet_mul_hi_table c j /\
  is_ok (tbl2 octet_mul_low_table c j) = true /\ is_ok (tbl2 octet_mul_hi_table c j) = true.
Proof.
  intros Hc Hj. pose proof sweep_tables_dup_ok as S0.
  pose proof (forall_lt2_spec _ _ _ S0 c j Hc Hj) as S. cbv beta in S. clear S0.
  destruct (tbl2 octet_mul_low_table c j) as [l|]; [|discriminate].
  destruct (tbl2 octet_mul_low_table c (j + 16)) as [l'|]; [|discriminate].
  destruct (tbl2 octet_mul_hi_table c j) as [h|]; [|discriminate].
  destruct (tbl2 octet_mul_hi_table c (j + 16)) as [h'|]; [|discriminate].
  apply andb_true_iff in S. destruct S as [S1 S2]. apply N.eqb_eq in S1, S2. subst.
  cbn [is_ok]. auto.
Qed.

Lemma unchecked_in_bounds a b : a < 256 -> b < 256 -> a <> 0 -> b <> 0 ->
  logN a + logN b < 510 /\ 1 <= 255 + logN a - logN b < 510.
Proof.
  intros Ha Hb Ea Eb.
  destruct (log_facts a Ha Ea) as [La _]. destruct (log_facts b Hb Eb) as [Lb _]. lia.
Qed.
