(* Mode Checked (debug_assertions): the second to fifth phase with their *_verify assertions and the
   final read-out never panic, given the facts established by the first phase. *)
From Coq Require Import NArith List Bool Lia Arith.
From RQ Require Import Base.Outcome Base.Ints Base.ListX Model.Octet Model.CMatrix Model.Slab
  Spec.Linear Proofs.OutcomeLemmas Proofs.OctetProofs Proofs.LinearProofs Model.PiSolver
  Proofs.PiSolverBase Proofs.PiSolverStruct Proofs.PiSolverOps Proofs.PiSolverG Proofs.PiSolverInvDefs
  Proofs.PiSolverPhase2 Proofs.PiSolverPhase345 Proofs.PiSolverPhaseTotal Proofs.PiSolverCells.
Import ListNotations.
Open Scope N_scope.

(* execute after the first phase *)
Definition exec_tail (m : mode) (s : pstate) (xo : list rowop) : outcome (option (list symbol_op)) :=
  obind (second_phase m s xo) (fun r2 =>
    match r2 with
    | None => Ok None
    | Some s =>
        obind (third_phase m s xo) (fun s =>
        obind (fourth_phase m s) (fun s =>
        obind (fifth_phase m s xo) (fun s =>
        obind (reorder_of s) (fun ord =>
        Ok (Some (rev (ps_ops s) ++ [SReorder ord]))))))
    end).

Lemma execute_tail m s : execute m s =
  obind (first_phase m s) (fun r => match r with None => Ok None | Some (s, xo) => exec_tail m s xo end).
Proof. reflexivity. Qed.

(* ================= boolean checks of the *_verify functions from cell-level facts ================= *)

Lemma assert_ok_true b {B} (k : unit -> outcome B) : b = true -> obind (assert_ok b) k = k tt.
Proof. intros ->. reflexivity. Qed.

Lemma forallb_combine_seqN {X} (f : N * X -> bool) (d : X) : forall (l : list X) a b,
  (forall t, a + t < b -> t < lenN l -> f (a + t, nth (N.to_nat t) l d) = true) ->
  forallb f (combine (seqN a b) l) = true.
Proof.
  induction l as [|x l IH]; intros a b Hf.
  - destruct (seqN a b); reflexivity.
  - destruct (N.ltb_spec a b) as [Hab|Hab].
    + rewrite seqN_cons by exact Hab. cbn [combine forallb]. apply andb_true_iff. split.
      * specialize (Hf 0). rewrite N.add_0_r in Hf. apply Hf; [exact Hab | unfold lenN; cbn [length]; lia].
      * apply IH. intros t Ht Hl. specialize (Hf (t + 1)).
        replace (a + (t + 1)) with (a + 1 + t) in Hf by lia.
        replace (N.to_nat (t + 1)) with (S (N.to_nat t)) in Hf by lia. cbn [nth] in Hf.
        apply Hf; [exact Ht | unfold lenN in *; cbn [length]; lia].
    + rewrite seqN_nil by lia. reflexivity.
Qed.

Lemma forallb_combine2 {X Y} (f : X * Y -> bool) (dx : X) (dy : Y) : forall l1 l2,
  (forall t, (t < length l1)%nat -> (t < length l2)%nat -> f (nth t l1 dx, nth t l2 dy) = true) ->
  forallb f (combine l1 l2) = true.
Proof.
  induction l1 as [|x l1 IH]; intros [|y l2] Hf; cbn [combine forallb]; try reflexivity.
  apply andb_true_iff. split.
  - apply (Hf 0%nat); cbn [length]; lia.
  - apply IH. intros t H1 H2. apply (Hf (S t)); cbn [length]; lia.
Qed.

Lemma forallb_nth {X} (f : X -> bool) (d : X) l :
  (forall t, (t < length l)%nat -> f (nth t l d) = true) -> forallb f l = true.
Proof.
  intros H. apply forallb_forall. intros x Hx. destruct (In_nth _ _ d Hx) as [t [Lt <-]]. apply H, Lt.
Qed.

Lemma all_zero_intro l : (forall t, (t < length l)%nat -> nth t l 0 = 0) -> all_zero l = true.
Proof.
  intros H. unfold all_zero. apply (forallb_nth _ 0). intros t Lt. rewrite H by exact Lt. reflexivity.
Qed.

Lemma all_zero_subl row s e : (forall j, s <= j < e -> nth (N.to_nat j) row 0 = 0) ->
  all_zero (subl row s e) = true.
Proof.
  intros H. apply all_zero_intro. intros t Lt.
  assert (Ht : (t < N.to_nat (e - s))%nat) by (unfold subl in Lt; rewrite firstn_length in Lt; lia).
  rewrite subl_nth by exact Ht. replace (N.to_nat s + t)%nat with (N.to_nat (s + N.of_nat t)) by lia.
  apply H. lia.
Qed.

Lemma all_zero_firstn row n : (forall j, j < n -> nth (N.to_nat j) row 0 = 0) ->
  all_zero (firstn (N.to_nat n) row) = true.
Proof.
  intros H. apply all_zero_intro. intros t Lt. rewrite firstn_length in Lt.
  rewrite nth_firstn_lt by lia. replace t with (N.to_nat (N.of_nat t)) by lia. apply H. lia.
Qed.

Lemma is_unit_prefix_intro k row n : n <= lenN row ->
  (forall j, j < n -> nth (N.to_nat j) row 0 = if j =? k then 1 else 0) -> is_unit_prefix k row n = true.
Proof.
  intros Hl H. unfold is_unit_prefix. apply andb_true_iff. split; [|apply N.leb_le, Hl].
  apply (forallb_combine_seqN _ 0). intros t Ht _. cbn [fst snd]. rewrite N.add_0_l in *.
  rewrite H by exact Ht. apply N.eqb_refl.
Qed.

Lemma is_identity_intro A n : n <= lenN A ->
  (forall k, k < n -> n <= lenN (rowN A k)) ->
  (forall k j, k < n -> j < n -> cell A k j = if k =? j then 1 else 0) -> is_identity A n = true.
Proof.
  intros Hl Hr Hc. unfold is_identity. apply andb_true_iff. split; [|apply N.leb_le, Hl].
  apply (forallb_combine_seqN _ []). intros t Ht _. cbn [fst snd]. rewrite N.add_0_l in *.
  apply is_unit_prefix_intro; [apply Hr, Ht|]. intros j Hj.
  change (nth (N.to_nat j) (nth (N.to_nat t) A []) 0) with (cell A t j).
  rewrite Hc by assumption. rewrite N.eqb_sym. reflexivity.
Qed.

(* ================= mode-generic totality of the primitives ================= *)

Lemma usub_ok m a b : b <= a -> usub m a b = Ok (a - b).
Proof. intros H. unfold usub, sub_w. destruct (N.leb_spec b a); [reflexivity | lia]. Qed.

Lemma ps_swap_rows_okm m Mn s Wn a b : lite Mn s -> ps_hd s = None -> dims (ps_A s) Mn Wn -> a < Mn -> b < Mn ->
  exists s', ps_swap_rows m s a b = Ok s'.
Proof.
  intros L Hh [DL _] Ha Hb. destruct (lt_d _ _ L) as [Ld _]. unfold ps_swap_rows. rewrite Hh. cbn [obind].
  unfold bm_swap_rows. destruct (swapN_okk (ps_A s) a b) as [A' EA]; try (rewrite DL; assumption).
  destruct (swapN_okk (ps_d s) a b) as [d' Ed]; try (rewrite Ld; assumption).
  rewrite EA. cbn [obind]. rewrite Ed. cbn [obind]. eauto.
Qed.

Lemma fma_rows_okm m Mn Wn s a b st : lite Mn s -> ps_hd s = None -> dims (ps_A s) Wn Wn -> Wn <= Mn ->
  a < Wn -> b < Wn -> a <> b -> exists s', fma_rows m s a b st = Ok s'.
Proof.
  intros L Hh D HWM Ha Hb Hne. destruct (record_fma_okk Mn s a b 1 L) as [s1 E1]; try lia.
  unfold fma_rows. rewrite E1. cbn [obind].
  destruct (record_fma_frame _ _ _ _ _ E1) as (EA & Eh & _). rewrite Eh, Hh, EA.
  destruct (bm_add_rows_okk _ _ _ b a st D Hb Ha) as [A' EA']; [congruence|].
  rewrite EA'. cbn [obind]. eauto.
Qed.

(* ================= the debug matrix X: second_phase_verify and the resize ================= *)

Lemma colapply_ext l : forall f g, (forall k, f k = g k) -> forall k, colapply l f k = colapply l g k.
Proof.
  induction l as [|[a b|a b] l IH]; intros f g E k; cbn [colapply]; [apply E | | apply IH, E].
  apply IH. intros k'. unfold addf. rewrite !E. reflexivity.
Qed.

Definition xfold (xo : list rowop) (X : bmat) : outcome bmat :=
  ofold (fun op X => match op with
                     | RAdd src dest => bm_add_rows X dest src 0
                     | RSwap _ _ => Panic PUnreachable
                     end) xo X.

Lemma xfold_total i Mn Nx : i <= Mn -> forall xo X, Forall (xo_lt i) xo -> dims X Mn Nx ->
  exists X', xfold xo X = Ok X' /\ dims X' Mn Nx /\
    forall k j, cell X' k j = colapply xo (fun k' => cell X k' j) k.
Proof.
  intros HiM. induction xo as [|op xo IH]; intros X Hxo D.
  - exists X. split; [reflexivity|]. split; [exact D|]. reflexivity.
  - inversion Hxo as [|o l Hop Ht]; subst. destruct op as [a b|a b]; [|destruct Hop]. cbn in Hop.
    destruct (bm_add_rows_okk X Mn Nx b a 0 D) as [X1 E1]; try lia.
    destruct (PiSolverCells.bm_add_rows_spec _ _ _ _ _ _ _ D (N.le_0_l _) E1) as (D1 & _ & _ & _ & Ro & Rc).
    destruct (IH X1 Ht D1) as [X' [E' [D' C']]].
    exists X'. split; [unfold xfold in *; cbn [ofold]; rewrite E1; cbn [obind]; exact E'|]. split; [exact D'|].
    intros k j. rewrite C'. cbn [colapply]. apply colapply_ext. intros k'. unfold addf.
    destruct (N.eqb_spec k' b) as [->|Hne].
    + rewrite Rc. destruct (N.leb_spec 0 j); [reflexivity | lia].
    + unfold cell. rewrite Ro by exact Hne. reflexivity.
Qed.

Lemma second_phase_verify_ok s xo Mn Nx :
  ps_i s <= Mn -> Forall (xo_lt (ps_i s)) xo -> dims (ps_X s) Mn Nx -> ps_i s <= Nx ->
  (forall k j, k < j -> j < ps_i s -> cell (ps_X s) k j = 0) ->
  (forall k j, k < ps_i s -> j < ps_i s ->
     colapply xo (fun k' => cell (ps_X s) k' j) k = if k =? j then 1 else 0) ->
  second_phase_verify s xo = Ok tt.
Proof.
  intros HiM Hxo D HNx Tri Id. unfold second_phase_verify. cbv zeta. pose proof D as [DL DF].
  rewrite assert_ok_true by (apply N.leb_le; lia).
  rewrite assert_ok_true.
  2:{ apply (forallb_combine_seqN _ []). intros t Ht Hl. cbn [fst snd]. rewrite N.add_0_l in *.
      fold (rowN (ps_X s) t). apply andb_true_iff. split.
      - apply all_zero_subl. intros j Hj. apply (Tri t j); lia.
      - apply orb_true_iff. right. apply N.leb_le.
        rewrite (PiSolverCells.dims_row _ _ _ t D) by lia. exact HNx. }
  destruct (xfold_total (ps_i s) Mn Nx HiM xo (ps_X s) Hxo D) as [X' [EX [D' C']]].
  unfold xfold in EX. rewrite EX. cbn [obind].
  replace (is_identity X' (ps_i s)) with true; [reflexivity|]. symmetry.
  pose proof D' as [DL' _].
  apply is_identity_intro; [lia | |].
  - intros k Hk. rewrite (PiSolverCells.dims_row _ _ _ k D') by lia. exact HNx.
  - intros k j Hk Hj. rewrite C'. apply Id; assumption.
Qed.

(* the i x i corner kept by X.resize(i, i) *)
Lemma resize_cell A wd h w A' : bm_resize A wd h w = Ok A' ->
  lenN A' = h /\ forall k, k < h -> rowN A' k = firstn (N.to_nat w) (rowN A k).
Proof.
  unfold bm_resize. intros H. destruct (N.leb_spec h (lenN A)) as [Hh|]; [|discriminate].
  destruct (w <=? wd); [|discriminate]. cbn [andb] in H. inversion H; subst A'. clear H. split.
  - unfold lenN in *. rewrite map_length, firstn_length. lia.
  - intros k Hk. unfold rowN. rewrite (nth_map_lt _ _ _ [] []) by (rewrite firstn_length; unfold lenN in *; lia).
    rewrite nth_firstn_lt by lia. reflexivity.
Qed.

Lemma nth_firstn_N (r : list N) w j : j < w -> nth (N.to_nat j) (firstn (N.to_nat w) r) 0 = nth (N.to_nat j) r 0.
Proof. intros H. apply nth_firstn_lt. lia. Qed.

Lemma resizeX_ok X Mn Nx i : dims X Mn Nx -> i <= Mn -> i <= Nx ->
  exists X', bm_resize X (lenN (hd [] X)) i i = Ok X' /\ lenN X' = i /\
    (forall k, k < i -> lenN (rowN X' k) = i) /\
    (forall k j, k < i -> j < i -> cell X' k j = cell X k j).
Proof.
  intros D HiM HiN. pose proof D as [DL DF].
  assert (E : exists X', bm_resize X (lenN (hd [] X)) i i = Ok X').
  { unfold bm_resize. destruct (N.leb_spec i (lenN X)); [|lia].
    destruct (N.leb_spec i (lenN (hd [] X))) as [|Hlt]; [cbn [andb]; eauto|]. exfalso.
    destruct X as [|r X]; [unfold lenN in *; cbn in *; lia|].
    inversion DF; subst. cbn [hd] in Hlt. lia. }
  destruct E as [X' E]. exists X'. split; [exact E|].
  destruct (resize_cell _ _ _ _ _ E) as [L' R']. split; [exact L'|]. split.
  - intros k Hk. rewrite R' by exact Hk. unfold lenN. rewrite firstn_length.
    pose proof (PiSolverCells.dims_row _ _ _ k D ltac:(lia)) as X0. unfold lenN in X0. lia.
  - intros k j Hk Hj. unfold cell. rewrite R' by exact Hk. apply nth_firstn_N, Hj.
Qed.

(* ================= the second phase without its debug prelude ================= *)

Definition second_core (m : mode) (s : pstate) : outcome (option pstate) :=
  let temp := ps_i s in
  let size := ps_u s in
  let hdpc_rows := match ps_hd s with Some h => h | None => [] end in
  let s := set_hd s None in
  obind (record_reduce_to_row_echelon m s hdpc_rows temp temp size) (fun r =>
  match r with
  | None => Ok None
  | Some (s, sub) =>
      obind (backwards_elimination s sub temp temp size) (fun s =>
      obind (bm_resize (ps_A s) (ps_W s) (ps_L s) (ps_L s)) (fun A =>
      Ok (Some (mkPS A (ps_L s) (ps_hd s) (ps_X s) (ps_c s) (ps_d s) (ps_i s) (ps_u s) (ps_L s)
                     (ps_ops s)))))
  end).

Lemma second_phase_unfold m s xo : second_phase m s xo =
  obind (match m with Checked => second_phase_verify s xo | Release => Ok tt end) (fun _ =>
  obind (onX m s (fun X => bm_resize X (lenN (hd [] X)) (ps_i s) (ps_i s))) (fun s => second_core m s)).
Proof. reflexivity. Qed.

(* the second phase does not touch X, and the rows from i0 on stay empty left of i0 *)
Definition Qz (i0 : N) (X0 : bmat) (s : pstate) : Prop :=
  ps_X s = X0 /\ forall k j, i0 <= k -> j < i0 -> cell (ps_A s) k j = 0.

Lemma Qz_frame i0 X0 s s' : ps_A s' = ps_A s -> ps_X s' = ps_X s -> Qz i0 X0 s -> Qz i0 X0 s'.
Proof. intros EA EX [QX QZ]. split; [congruence|]. rewrite EA. exact QZ. Qed.

Lemma trN_ge a b k lo : lo <= a -> lo <= b -> lo <= k -> lo <= trN a b k.
Proof. intros. unfold trN. destruct (k =? a); [assumption|]. destruct (k =? b); assumption. Qed.

Lemma Qz_swap i0 X0 m s a b s' : Qz i0 X0 s -> i0 <= a -> i0 <= b -> ps_swap_rows m s a b = Ok s' ->
  Qz i0 X0 s'.
Proof.
  intros [QX QZ] Ha Hb H. unfold ps_swap_rows in H. omon H. inversion H; subst s'.
  split; [exact QX|]. cbn [ps_A]. intros k j Hk Hj. unfold cell.
  match goal with E : bm_swap_rows _ _ _ = Ok _ |- _ =>
    unfold bm_swap_rows in E; rewrite (swapN_rowN _ _ _ _ k E) end.
  apply (QZ (trN a b k) j); [apply trN_ge; assumption | exact Hj].
Qed.

Lemma Qz_reduce_column i0 X0 m c s sub s' sub' : Qz i0 X0 s ->
  reduce_column m i0 c (s, sub) = Ok (Some (s', sub')) -> Qz i0 X0 s'.
Proof.
  unfold reduce_column. intros Q H. omon H.
  assert (K1 : Qz i0 X0 p).
  { destruct a as [j|]; [|inversion E0; subst; auto]. omon E0. inversion E0; subst.
    eapply Qz_swap; [exact Q | | | eassumption]; lia. }
  destruct (a0 =? 0); [discriminate|]. omon H.
  assert (K2 : Qz i0 X0 p0).
  { destruct (a0 =? 1); [inversion E2; subst; auto|]. omon E2. inversion E2; subst.
    match goal with X : record_mul_row _ _ _ = Ok _ |- _ =>
      destruct (record_mul_frame _ _ _ _ X) as (_ & EA & _ & _ & _ & _ & _ & _ & _ & EX) end.
    eapply Qz_frame; eassumption. }
  inversion H; subst p1 l1. clear H.
  revert E4. apply (ofold_inv_in (fun x : pstate * list (list N) => Qz i0 X0 (fst x))); [|exact K2].
  intros j [sa suba] [sb subb] Hj Qa Eb. cbn [fst snd] in *. omon Eb.
  match type of Eb with (if ?c then _ else _) = _ => destruct c end; [inversion Eb; subst; auto|].
  omon Eb. inversion Eb; subst.
  match goal with X : record_fma_rows _ _ _ _ = Ok _ |- _ =>
    destruct (record_fma_frame _ _ _ _ _ X) as (EA & _ & _ & _ & _ & _ & _ & _ & EX) end.
  eapply Qz_frame; eassumption.
Qed.

Lemma Qz_reduce_loop i0 X0 m cols : forall s sub s' sub', Qz i0 X0 s ->
  reduce_loop m i0 cols (s, sub) = Ok (Some (s', sub')) -> Qz i0 X0 s'.
Proof.
  induction cols as [|c t IH]; intros s sub s' sub' Q H; cbn [reduce_loop] in H.
  - inversion H; subst; auto.
  - oinvas H as r Er. destruct r as [[s1 sub1]|]; [|discriminate].
    pose proof (Qz_reduce_column _ _ _ _ _ _ _ _ Q Er) as Q1. eapply IH; eassumption.
Qed.

Lemma Qz_rrre i0 X0 m s hd co size s' sub' : Qz i0 X0 s ->
  record_reduce_to_row_echelon m s hd i0 co size = Ok (Some (s', sub')) -> Qz i0 X0 s'.
Proof.
  unfold record_reduce_to_row_echelon. intros Q H. omon H. eapply Qz_reduce_loop; eassumption.
Qed.

Lemma Qz_back i0 X0 s sub u s' : Qz i0 X0 s -> backwards_elimination s sub i0 i0 u = Ok s' -> Qz i0 X0 s'.
Proof.
  unfold backwards_elimination. intros Q H. omon H. inversion H; subst.
  assert (Qa : Qz i0 X0 a).
  { revert E. apply (ofold_inv_in (Qz i0 X0)); [|exact Q].
    intros i sa sb Hi Qa. apply (ofold_inv_in (Qz i0 X0)); [|exact Qa].
    intros j sc sd Hj Qc Ed. omon Ed. destruct (a1 =? 0); [inversion Ed; subst; exact Qc|].
    destruct (record_fma_frame _ _ _ _ _ Ed) as (EA & _ & _ & _ & _ & _ & _ & _ & EX).
    eapply Qz_frame; eassumption. }
  destruct Qa as [QX QZ]. split; [exact QX|]. cbn [set_A ps_A].
  revert E0. apply (ofold_inv_in (fun Aa => forall k j, i0 <= k -> j < i0 -> cell Aa k j = 0)); [|exact QZ].
  intros row Aa Ab Hrow Za Eb. apply seqN_in in Hrow. oinvas Eb as r Er. oinvas Eb as u0 Eg. cbv zeta in Eb.
  destruct (getN_rowN _ _ _ Er) as [_ ->].
  pose proof (putN_rowN _ _ _ _ Eb) as HR.
  assert (Hlen : i0 + u <= lenN (rowN Aa row)).
  { destruct (N.eqb_spec u 0); [lia|]. cbn [orb] in Eg.
    destruct (N.leb_spec (i0 + u) (lenN (rowN Aa row))); [assumption | discriminate]. }
  intros k j Hk Hj. unfold cell. rewrite HR. destruct (N.eqb_spec k row) as [->|Hne]; [|apply Za; assumption].
  rewrite app_nth1 by (rewrite firstn_length; unfold lenN in Hlen; lia).
  rewrite nth_firstn_lt by lia. apply Za; assumption.
Qed.

Lemma second_core_extra m s s' :
  (forall k j, ps_i s <= k -> j < ps_i s -> cell (ps_A s) k j = 0) ->
  second_core m s = Ok (Some s') ->
  ps_X s' = ps_X s /\
  forall k j, ps_i s <= k < ps_L s' -> j < ps_i s -> j < ps_L s' -> cell (ps_A s') k j = 0.
Proof.
  intros Z H. unfold second_core in H. cbv zeta in H. oinvas H as r Er.
  destruct r as [[sr sub]|]; [|discriminate]. oinvas H as sB EB. oinvas H as AF EF.
  inversion H; subst s'. clear H. cbn [ps_X ps_L ps_A].
  assert (Q0 : Qz (ps_i s) (ps_X s) (set_hd s None)) by (split; [reflexivity | exact Z]).
  pose proof (Qz_rrre _ _ _ _ _ _ _ _ _ Q0 Er) as Q1.
  destruct (Qz_back _ _ _ _ _ _ Q1 EB) as [QX QZ].
  split; [exact QX|]. intros k j Hk Hj HjL.
  destruct (resize_cell _ _ _ _ _ EF) as [_ R]. unfold cell. rewrite R by lia.
  rewrite nth_firstn_N by exact HjL. apply QZ; lia.
Qed.

(* ================= totality of the core of the second phase, any mode ================= *)

Section P2M.
Variable A0 : list (list N).
Variable M W : N.
Hypothesis A0_wf : wf_mat (N.to_nat W) A0.
Hypothesis A0_len : lenN A0 = M.

Section P2MInv.
Variable s0 : pstate.
Variables i0 u : N.
Hypothesis iuW : i0 + u = W.
Hypothesis WM : W <= M.
Local Notation sinv := (sinv A0 M W s0 i0 u).
Local Notation rinv := (rinv A0 M W s0 i0 u).

Lemma reduce_column_okm m c s sub : sinv c s sub -> c < u -> okk (reduce_column m i0 c (s, sub)).
Proof.
  intros S Hcu. unfold reduce_column.
  pose proof (si_len _ _ _ _ _ _ _ _ _ S) as SL. pose proof (si_rows _ _ _ _ _ _ _ _ _ S) as SR.
  apply (obind_okk (fun pv => forall p, pv = Some p -> c <= p < M - i0)).
  { destruct (find_pivot_okk (N.to_nat c) (skipn (N.to_nat c) sub) c) as [pv [E Hp]].
    - apply Forall_skipn. eapply Forall_impl; [|exact SR]. intros r Hr. cbv beta in Hr. unfold lenN in Hr. lia.
    - exists pv. split; [exact E|]. intros p Hpv. specialize (Hp p Hpv).
      assert (lenN (skipn (N.to_nat c) sub) = M - i0 - c) by (unfold lenN in *; rewrite skipn_length; lia). lia. }
  intros pv Hpv.
  apply (obind_okk (fun st1 : pstate * list (list N) => sinv c (fst st1) (snd st1))).
  { destruct pv as [j|].
    - destruct (Hpv j eq_refl) as [Hcj HjM].
      destruct (swapN_okk sub c j) as [sub1 E1]; try (rewrite SL; lia). rewrite E1. cbn [obind].
      pose proof (si_r _ _ _ _ _ _ _ _ _ S) as R.
      destruct (ps_swap_rows_okm m M s W (i0 + c) (j + i0) (ri_lite _ _ _ _ _ _ _ R) (ri_hd _ _ _ _ _ _ _ R)
                  (ri_dims _ _ _ _ _ _ _ R)) as [s1 E2]; try lia.
      rewrite E2. cbn [obind]. exists (s1, sub1). split; [reflexivity|]. cbn [fst snd].
      apply (sinv_swap A0 M W A0_len s0 i0 u iuW WM m c s sub j sub1 s1 S Hcj E1 E2).
    - exists (s, sub). split; [reflexivity | exact S]. }
  intros [s1 sub1] S1. cbn [fst snd] in S1. cbv beta iota.
  pose proof (si_len _ _ _ _ _ _ _ _ _ S1) as SL1.
  assert (Lc : c < lenN sub1) by (rewrite SL1; lia).
  unfold bm_get. rewrite (getN_row_ok sub1 c Lc). cbn [obind].
  rewrite (getN_okN (rowN sub1 c) c 0) by (rewrite (sinv_row_len _ _ _ _ _ _ _ _ _ _ S1); lia). cbn [obind].
  fold (cell sub1 c c).
  destruct (N.eqb_spec (cell sub1 c c) 0) as [Ez|Enz]; [eexists; reflexivity|].
  apply (obind_okk (fun st2 : pstate * list (list N) => sinv c (fst st2) (snd st2))).
  { destruct (N.eqb_spec (cell sub1 c c) 1) as [E1|Hne].
    - exists (s1, sub1). split; [reflexivity | exact S1].
    - cbv zeta.
      pose proof (putN_okN sub1 c (map (mulN (divN 1 (cell sub1 c c))) (rowN sub1 c)) Lc) as EP.
      rewrite EP. cbn [obind].
      pose proof (si_r _ _ _ _ _ _ _ _ _ S1) as R.
      destruct (record_mul_okk M s1 (i0 + c) (divN 1 (cell sub1 c c)) (ri_lite _ _ _ _ _ _ _ R) (ri_hd _ _ _ _ _ _ _ R))
        as [s2 E2]; [lia|].
      rewrite E2. cbn [obind]. eexists. split; [reflexivity|]. cbn [fst snd].
      assert (Bv : cell sub1 c c < 256) by apply (sinv_cell_byte _ _ _ _ _ _ _ _ _ _ _ S1).
      assert (Hi : divN 1 (cell sub1 c c) < 256) by (apply divN_lt; [reflexivity | exact Bv | exact Enz]).
      assert (Hnz : divN 1 (cell sub1 c c) <> 0) by (apply divN_1_nz; assumption).
      apply (sinv_mul A0 M W A0_len s0 i0 u iuW WM c s1 sub1 _ _ _ s2 S1 (getN_row_ok sub1 c Lc) EP E2 Hi Hnz). }
  intros [s2 sub2] S2. cbn [fst snd] in S2. cbv beta iota.
  pose proof (si_len _ _ _ _ _ _ _ _ _ S2) as SL2.
  rewrite (getN_row_ok sub2 c) by (rewrite SL2; lia). cbn [obind]. rewrite SL2.
  apply (obind_okk (fun _ => True)); [|intros; eexists; reflexivity].
  match goal with |- context [ofold ?F ?l ?z] =>
    destruct (ofold_okk (fun st : pstate * list (list N) => sinv c (fst st) (snd st) /\ rowN (snd st) c = rowN sub2 c) F l)
      with (s := z) as [r [Er _]] end.
  - intros j [sa suba] Hin [Sa Ra]. cbn [fst snd] in Sa, Ra. apply seqN_in in Hin.
    rewrite <- Ra.
    pose proof (si_len _ _ _ _ _ _ _ _ _ Sa) as SLa.
    assert (Lj : j < lenN suba) by (rewrite SLa; lia).
    rewrite (getN_row_ok suba j Lj). cbn [obind].
    rewrite (getN_okN (rowN suba j) c 0) by (rewrite (sinv_row_len _ _ _ _ _ _ _ _ _ _ Sa); lia). cbn [obind].
    fold (cell suba j c).
    destruct (N.eqb_spec (cell suba j c) 0) as [Ez|Esnz].
    + exists (sa, suba). split; [reflexivity|]. cbn [fst snd]. split; [exact Sa | reflexivity].
    + pose proof (putN_okN suba j (oct_row_fma (rowN suba j) (rowN suba c) (cell suba j c)) Lj) as EP.
      rewrite EP. cbn [obind].
      pose proof (si_r _ _ _ _ _ _ _ _ _ Sa) as R.
      destruct (record_fma_okk M sa (i0 + c) (i0 + j) (cell suba j c) (ri_lite _ _ _ _ _ _ _ R)) as [sb Eb]; try lia.
      rewrite Eb. cbn [obind]. eexists. split; [reflexivity|]. cbn [fst snd].
      assert (Hcj : c < j) by lia.
      destruct (sinv_fma A0 M W A0_wf A0_len s0 i0 u iuW WM c sa suba j _ _ _ sb Sa Hcj Hcu
                  (getN_row_ok suba j Lj) (sinv_cell_byte _ _ _ _ _ _ _ _ _ _ _ Sa) EP Eb) as (Sb & Rb & _).
      split; [exact Sb|]. apply Rb. lia.
  - cbn [fst snd]. split; [exact S2 | reflexivity].
  - exists r. split; [exact Er | exact I].
Qed.

Lemma reduce_loop_okm m : forall n c s sub, N.of_nat n + c = u -> sinv c s sub ->
  exists r, reduce_loop m i0 (seqN c u) (s, sub) = Ok r /\
    forall s' sub', r = Some (s', sub') -> sinv u s' sub'.
Proof.
  assert (K : forall n c s sub, N.of_nat n + c = u -> sinv c s sub ->
            okk (reduce_loop m i0 (seqN c u) (s, sub))).
  { induction n as [|n IH]; intros c s sub Hn S.
    - rewrite seqN_nil by lia. eexists. reflexivity.
    - rewrite seqN_cons by lia. cbn [reduce_loop].
      destruct (reduce_column_okm m c s sub S) as [r Er]; [lia|]. rewrite Er. cbn [obind].
      destruct r as [[s1 sub1]|]; [|eexists; reflexivity].
      apply (IH (c + 1) s1 sub1); [lia|].
      apply (sinv_reduce_column A0 M W A0_wf A0_len s0 i0 u iuW WM m c s sub s1 sub1 S); [lia | exact Er]. }
  intros n c s sub Hn S. destruct (K n c s sub Hn S) as [r Er]. exists r. split; [exact Er|].
  intros s' sub' ->. apply (sinv_reduce_loop A0 M W A0_wf A0_len s0 i0 u iuW WM m n c s sub s' sub' Hn S Er).
Qed.

End P2MInv.

Lemma second_core_total m H s : p2_pre A0 M W H s -> exists r, second_core m s = Ok r.
Proof.
  intros P. unfold second_core. cbv zeta. fold (PiSolverPhase2.hd_rows s).
  set (sI := set_hd s None). set (i0 := ps_i s). set (u := ps_u s).
  pose proof (p2_iu _ _ _ _ _ P) as iuW. fold i0 u in iuW. pose proof (p2_WM _ _ _ _ _ P) as WM.
  pose proof (p2_HM _ _ _ _ _ P) as HM. pose proof (p2_lite _ _ _ _ _ P) as L0.
  assert (LI : lite M sI) by apply lite_set_hd_none, L0.
  assert (GI : forall k j, G A0 sI k j = G A0 s k j) by (intros; apply G_frame; reflexivity).
  assert (RI : rinv A0 M W sI i0 u sI).
  { constructor; cbn [sI set_hd ps_hd ps_c ps_i ps_u ps_W ps_L ps_A]; try reflexivity; try assumption.
    - apply (p2_W _ _ _ _ _ P).
    - apply (p2_L _ _ _ _ _ P).
    - apply (p2_dims _ _ _ _ _ P).
    - apply (p2_bin _ _ _ _ _ P).
    - intros k j Hk Hj. rewrite GI. apply (p2_zero _ _ _ _ _ P); assumption. }
  assert (DI : dims (ps_A sI) M W) by apply (ri_dims _ _ _ _ _ _ _ RI).
  assert (EhI : ps_height sI = M) by (unfold ps_height; apply DI).
  assert (RR : exists r, record_reduce_to_row_echelon m sI (PiSolverPhase2.hd_rows s) i0 i0 u = Ok r /\
                forall sr sub, r = Some (sr, sub) -> sinv A0 M W sI i0 u u sr sub).
  { unfold record_reduce_to_row_echelon. rewrite EhI, (p2_hlen _ _ _ _ _ P).
    rewrite usub_ok by exact HM. cbn [obind].
    destruct (N.leb_spec i0 M) as [_|]; [|lia]. cbn [obind].
    match goal with |- context [omapM ?F ?l] => destruct (omapM_all_ok F l) as [sub0 E0] end.
    { intros row Hin. apply seqN_in in Hin.
      assert (ER : exists r, (if row <? M - H then getN (ps_A sI) row
                              else getN (PiSolverPhase2.hd_rows s) (row - (M - H))) = Ok r /\ lenN r = W).
      { destruct (N.ltb_spec row (M - H)).
        - exists (rowN (ps_A sI) row). destruct DI as [DL DF]. split; [apply getN_row_ok; lia|].
          apply (Forall_rowN _ _ _ DF). lia.
        - exists (rowN (PiSolverPhase2.hd_rows s) (row - (M - H))). pose proof (p2_hlen _ _ _ _ _ P) as HL.
          split; [apply getN_row_ok; lia|]. apply (Forall_rowN _ _ _ (p2_hrows _ _ _ _ _ P)). lia. }
      destruct ER as [r [-> Lr]]. cbn [obind]. rewrite Lr.
      replace ((u =? 0) || (i0 + u <=? W)) with true
        by (symmetry; apply orb_true_iff; right; apply N.leb_le; lia).
      eauto. }
    rewrite E0. cbn [obind].
    destruct (sub_init _ _ _ _ _ _ _ _ DI (p2_hrows _ _ _ _ _ P) iuW E0) as (SL & SR & SB & SC).
    assert (S0 : sinv A0 M W sI i0 u 0 sI sub0).
    { constructor.
      - exact RI.
      - exact SL.
      - exact SR.
      - apply SB; [apply (lt_A _ _ LI)|]. pose proof (lt_hd _ _ L0) as X. unfold PiSolverPhase2.hd_rows.
        destruct (ps_hd s); [exact X | constructor].
      - intros k' j' Hk' Hj'. rewrite SC by assumption. rewrite GI.
        destruct (N.ltb_spec (i0 + k') (M - H)).
        + cbn [sI set_hd ps_A]. apply (p2_agreeA _ _ _ _ _ P); fold i0; lia.
        + rewrite (p2_agreeH _ _ _ _ _ P) by (fold i0; lia). f_equal. lia.
      - intros c' Hc'. lia. }
    apply (reduce_loop_okm sI i0 u iuW WM m (N.to_nat u) 0 sI sub0); [lia | exact S0]. }
  destruct RR as [r [Er Hr]]. rewrite Er. cbn [obind].
  destruct r as [[sr sub]|]; [|eexists; reflexivity].
  specialize (Hr sr sub eq_refl).
  destruct (back_okk A0 M W A0_len sI i0 u iuW WM sr sub Hr) as [sB EB]. rewrite EB. cbn [obind].
  destruct (back_spec A0 M W A0_wf A0_len sI i0 u iuW WM _ _ _ Hr EB) as (_ & _ & _ & _ & BW & BL & [BDL _] & _).
  unfold bm_resize. rewrite BL, BW, BDL.
  destruct (N.leb_spec W M); [|lia]. destruct (N.leb_spec W W); [|lia]. cbn [andb obind]. eauto.
Qed.

Lemma p2_pre_set_X H s X : p2_pre A0 M W H s -> p2_pre A0 M W H (set_X s X).
Proof.
  intros [a b c d e f g h i j k l m]. constructor; try assumption.
  apply lite_set_X, a.
Qed.

End P2M.

(* ================= phases 3-5 in mode Checked: every stored cell stays exact ================= *)

Lemma assert_ok_intro b : b = true -> assert_ok b = Ok tt.
Proof. intros ->. reflexivity. Qed.

Definition third_F (op : rowop) (s : pstate) : outcome pstate :=
  match op with
  | RAdd src dest => fma_rows Checked s src dest (errata11_start Checked s)
  | RSwap _ _ => Panic PUnreachable
  end.

Definition fifth_F (op : rowop) (s : pstate) : outcome pstate :=
  match op with
  | RAdd src dest => fma_rows Checked s src dest 0
  | RSwap _ _ => Panic PUnreachable
  end.

Definition fourth_fold (m : mode) (s : pstate) : outcome pstate :=
  ofold (fun i s =>
         obind (bm_nonzero_cols (ps_A s) i (ps_i s)) (fun cols =>
         ofold (fun j s => fma_rows m s j i (errata11_start m s)) cols s))
       (seqN 0 (ps_i s)) s.

Lemma third_phase_unfold s xo : third_phase Checked s xo =
  obind (third_phase_verify s) (fun _ => obind (ofold third_F (rev xo) s) (fun s =>
  obind (third_phase_verify_end s) (fun _ => Ok s))).
Proof. reflexivity. Qed.

Lemma fourth_phase_unfold s : fourth_phase Checked s =
  obind (fourth_fold Checked s) (fun s => obind (fourth_phase_verify s) (fun _ => Ok s)).
Proof. reflexivity. Qed.

Lemma fifth_phase_unfold s xo : fifth_phase Checked s xo =
  obind (ofold fifth_F xo s) (fun s => obind (fifth_phase_verify s) (fun _ => Ok s)).
Proof. reflexivity. Qed.

(* third_phase_verify_end from cell-level facts *)
Lemma verify_end_ok s i : ps_i s = i -> i <= lenN (ps_X s) -> i <= lenN (ps_A s) ->
  (forall k, k < i -> i <= lenN (rowN (ps_X s) k)) -> (forall k, k < i -> i <= lenN (rowN (ps_A s) k)) ->
  (forall k j, k < i -> j < i -> cell (ps_X s) k j = cell (ps_A s) k j) ->
  third_phase_verify_end s = Ok tt.
Proof.
  intros Ei HX HA RX RA HC. unfold third_phase_verify_end. cbv zeta. rewrite Ei. unfold ps_height.
  rewrite assert_ok_true by (apply andb_true_iff; split; apply N.leb_le; assumption).
  apply assert_ok_intro.
  apply (forallb_combine2 _ [] []). intros t H1 H2. rewrite firstn_length in H1, H2. cbn [fst snd].
  rewrite !nth_firstn_lt by lia.
  set (k := N.of_nat t). assert (Hk : k < i) by lia. replace t with (N.to_nat k) by lia.
  fold (rowN (ps_X s) k). fold (rowN (ps_A s) k).
  apply andb_true_iff. split; [apply andb_true_iff; split; apply N.leb_le; [apply RX | apply RA]; exact Hk|].
  apply (forallb_combine2 _ 0 0). intros t' H1' H2'. rewrite firstn_length in H1', H2'. cbn [fst snd].
  rewrite !nth_firstn_lt by lia. set (j := N.of_nat t'). replace t' with (N.to_nat j) by lia.
  apply N.eqb_eq. apply (HC k j); lia.
Qed.

Section P345C.
Variable A0 : list (list N).
Variable M W : N.
Hypothesis A0_wf : wf_mat (N.to_nat W) A0.
Hypothesis A0_len : lenN A0 = M.
Local Notation G := (G A0).
Local Notation pinv := (pinv A0 M W).
Local Notation lowrows := (lowrows A0 W).

Record fa3 (i : N) (c : list N) (X : bmat) (s : pstate) : Prop := mkFa3 {
  fa_pv : pinv i c s;
  fa_W : ps_W s = W;
  fa_u : ps_u s = W - i;
  fa_X : ps_X s = X;
  fa_full : forall k j, k < W -> j < W -> cell (ps_A s) k j = G s k j }.

Lemma fa3_fma i c X s a b : i <= W -> W <= M -> fa3 i c X s -> a < W -> b < W -> a <> b ->
  exists s', fma_rows Checked s a b 0 = Ok s' /\ fa3 i c X s' /\
    forall k j, k < M -> G s' k j = addf a b (fun k => G s k j) k.
Proof.
  intros HiW HWM [P EW Eu EX Full] Ha Hb Hne.
  destruct (fma_rows_okm Checked M W s a b 0 (pv_lite _ _ _ _ _ _ P) (pv_hd _ _ _ _ _ _ P)
              (pv_dims _ _ _ _ _ _ P) HWM Ha Hb Hne) as [s' E].
  exists s'. split; [exact E|].
  destruct (pinv_fma A0 M W A0_wf A0_len i c Checked s a b 0 s' HiW HWM P (N.le_0_l _) E) as [P' [_ [_ [_ HG]]]].
  split; [|exact HG].
  destruct (PiSolverPhase345.fma_rows_inv _ _ _ _ _ _ (pv_hd _ _ _ _ _ _ P) E) as [s1 [A' [E1 [EA Es']]]].
  destruct (record_fma_frame _ _ _ _ _ E1) as (_ & _ & _ & _ & EW1 & _ & Eu1 & _ & EX1).
  assert (F : ps_W s' = ps_W s1 /\ ps_u s' = ps_u s1 /\ ps_X s' = ps_X s1 /\ ps_A s' = A')
    by (subst s'; cbn [set_A ps_W ps_u ps_X ps_A]; auto).
  destruct F as (F1 & F2 & F3 & F4).
  constructor; try congruence.
  destruct (PiSolverPhase345.bm_add_rows_spec W _ _ _ _ _ (pv_dims _ _ _ _ _ _ P) EA) as [_ [_ [_ [_ [_ Hcell]]]]].
  intros k j Hk Hj. rewrite F4. rewrite Hcell by exact Hj. rewrite HG by lia. unfold addf.
  destruct (N.leb_spec 0 j); [|lia]. rewrite andb_true_r.
  destruct (k =? b); [rewrite !Full by lia; reflexivity | apply Full; assumption].
Qed.

Lemma fa3_fold i c X (F : rowop -> pstate -> outcome pstate) :
  i <= W -> W <= M ->
  (forall a b s, F (RAdd a b) s = fma_rows Checked s a b 0) ->
  forall l s, Forall (xo_lt i) l -> fa3 i c X s ->
  exists s', ofold F l s = Ok s' /\ fa3 i c X s' /\
    forall k j, k < M -> G s' k j = colapply l (fun k => G s k j) k.
Proof.
  intros HiW HWM HF. induction l as [|op l IH]; intros s Hl Fa.
  - exists s. split; [reflexivity|]. split; [exact Fa|]. reflexivity.
  - inversion Hl as [|o t Hop Ht]; subst. destruct op as [a b|a b]; [|destruct Hop]. cbn in Hop.
    destruct (fa3_fma i c X s a b HiW HWM Fa) as [s1 [E1 [Fa1 G1]]]; try lia.
    destruct (IH s1 Ht Fa1) as [s' [E' [Fa' G']]].
    exists s'. split; [cbn [ofold]; rewrite HF, E1; cbn [obind]; exact E'|]. split; [exact Fa'|].
    intros k j Hk. rewrite G' by exact Hk. cbn [colapply].
    apply (colapply_ext_lt i M l Ht ltac:(lia)); [|exact Hk]. intros k' Hk'. apply G1, Hk'.
Qed.

Lemma fa3_rows i c X s k : fa3 i c X s -> k < W -> lenN (rowN (ps_A s) k) = W.
Proof. intros Fa Hk. apply (PiSolverCells.dims_row _ _ _ k (pv_dims _ _ _ _ _ _ (fa_pv _ _ _ _ Fa)) Hk). Qed.

(* ---- third phase ---- *)
Lemma third_verify_ok i c X s : i <= W -> fa3 i c X s ->
  (forall k j, k < i -> j < i -> G s k j = if k =? j then 1 else 0) ->
  lowrows i s -> third_phase_verify s = Ok tt.
Proof.
  intros HiW Fa HI Lw. pose proof Fa as [P EW Eu EX Full]. unfold third_phase_verify. cbv zeta.
  pose proof (pv_dims _ _ _ _ _ _ P) as D. pose proof D as [DL DF].
  apply assert_ok_intro.
  apply (forallb_combine_seqN _ []). intros t Ht Hl. cbn [fst snd]. rewrite N.add_0_l in *.
  unfold ps_height in Ht. rewrite DL in *. fold (rowN (ps_A s) t).
  rewrite (fa3_rows _ _ _ _ _ Fa Hl), EW, N.eqb_refl. cbn [andb]. rewrite (pv_i _ _ _ _ _ _ P), Eu.
  replace (W - (W - i)) with i by lia.
  destruct (N.ltb_spec t i) as [Hti|Hti]; apply is_unit_prefix_intro;
    try (rewrite (fa3_rows _ _ _ _ _ Fa Hl); lia).
  - intros j Hj. change (nth (N.to_nat j) (rowN (ps_A s) t) 0) with (cell (ps_A s) t j).
    rewrite Full by lia. rewrite HI by assumption. rewrite N.eqb_sym. reflexivity.
  - intros j Hj. change (nth (N.to_nat j) (rowN (ps_A s) t) 0) with (cell (ps_A s) t j).
    rewrite Full by lia. rewrite Lw by lia. rewrite N.eqb_sym. reflexivity.
Qed.

(* X = A on the i x i corner, given the logical corner *)
Lemma fa3_verify_end i c X s : i <= W -> fa3 i c X s -> lenN X = i -> (forall k, k < i -> lenN (rowN X k) = i) ->
  (forall k j, k < i -> j < i -> cell X k j = G s k j) -> third_phase_verify_end s = Ok tt.
Proof.
  intros HiW Fa LX RX HC. pose proof Fa as [P EW Eu EX Full]. pose proof (pv_dims _ _ _ _ _ _ P) as [DL _].
  apply (verify_end_ok s i (pv_i _ _ _ _ _ _ P)); rewrite ?EX, ?DL; try lia.
  - intros k Hk. rewrite RX by exact Hk. lia.
  - intros k Hk. rewrite (fa3_rows _ _ _ _ _ Fa) by lia. exact HiW.
  - intros k j Hk Hj. rewrite Full by lia. apply HC; assumption.
Qed.

Lemma third_checked_ok i c X s xo : i <= W -> W <= M -> fa3 i c X s -> Forall (xo_lt i) xo ->
  (forall k j, k < i -> j < i -> G s k j = if k =? j then 1 else 0) -> lowrows i s ->
  lenN X = i -> (forall k, k < i -> lenN (rowN X k) = i) ->
  (forall k j, k < i -> j < i -> cell X k j = colapply (rev xo) (fun k' => if k' =? j then 1 else 0) k) ->
  exists s3, third_phase Checked s xo = Ok s3 /\ fa3 i c X s3 /\
    forall k j, k < M -> G s3 k j = colapply (rev xo) (fun k => G s k j) k.
Proof.
  intros HiW HWM Fa Hxo HI Lw LX RX HXc. rewrite third_phase_unfold.
  rewrite (third_verify_ok i c X s HiW Fa HI Lw). cbn [obind].
  assert (Hrx : Forall (xo_lt i) (rev xo)) by (apply Forall_rev, Hxo).
  destruct (fa3_fold i c X third_F HiW HWM (fun _ _ _ => eq_refl) (rev xo) s Hrx Fa) as [s3 [E3 [Fa3 G3]]].
  rewrite E3. cbn [obind].
  rewrite (fa3_verify_end i c X s3 HiW Fa3 LX RX).
  - cbn [obind]. exists s3. auto.
  - intros k j Hk Hj. rewrite HXc by assumption. rewrite G3 by lia.
    apply (colapply_ext_lt i i (rev xo) Hrx (N.le_refl _)); [|exact Hk].
    intros k' Hk'. symmetry. apply HI; assumption.
Qed.

(* ---- fourth phase ---- *)
Lemma fourth_fold_total i c X s : i <= W -> W <= M -> fa3 i c X s ->
  exists s4, fourth_fold Checked s = Ok s4 /\ fa3 i c X s4.
Proof.
  intros HiW HWM Fa. unfold fourth_fold.
  apply (ofold_okk (fa3 i c X)); [|exact Fa].
  intros r sa Hin Pa. apply seqN_in in Hin. rewrite (pv_i _ _ _ _ _ _ (fa_pv _ _ _ _ Fa)) in Hin.
  pose proof (pv_dims _ _ _ _ _ _ (fa_pv _ _ _ _ Pa)) as D. pose proof D as [DL _].
  assert (Hr : r < lenN (ps_A sa)) by (rewrite DL; lia).
  assert (EN : exists cols, bm_nonzero_cols (ps_A sa) r (ps_i sa) = Ok cols)
    by (unfold bm_nonzero_cols; rewrite (getN_row_ok _ r Hr); cbn [obind]; eauto).
  destruct EN as [cols EN]. rewrite EN. cbn [obind].
  rewrite (pv_i _ _ _ _ _ _ (fa_pv _ _ _ _ Pa)) in EN.
  destruct (nonzero_cols_spec W _ _ _ _ D HiW EN) as [_ [Hcols _]].
  apply (ofold_okk (fa3 i c X)); [|exact Pa].
  intros j sb Hj Pb. rewrite Forall_forall in Hcols. specialize (Hcols j Hj).
  destruct (fa3_fma i c X sb j r HiW HWM Pb) as [s' [E [Fa' _]]]; try lia.
  exists s'. split; [exact E | exact Fa'].
Qed.

Lemma fourth_fold_spec i c m s3 s4 : i <= W -> W <= M -> pinv i c s3 -> lowrows i s3 ->
  fourth_fold m s3 = Ok s4 ->
  pinv i c s4 /\
  (forall k j, k < M -> j < W -> j < i \/ i <= k -> G s4 k j = G s3 k j) /\
  (forall r j, r < i -> i <= j < W -> G s4 r j = 0).
Proof.
  unfold fourth_fold. intros HiW HWM P3 Lw3 EF.
  rewrite (pv_i _ _ _ _ _ _ P3) in *.
  pose (P := fun (pre : list N) (s : pstate) => pinv i c s /\
    (forall k j, k < M -> j < W -> j < i \/ i <= k -> G s k j = G s3 k j) /\
    (forall r j, In r pre -> i <= j < W -> G s r j = 0)).
  assert (R : P (seqN 0 i) s4).
  { revert EF. apply (ofold_inv_pre P).
    - intros pre r post sa sb El [Pa [Fr Z]] Eb. oinvas Eb as cols EN.
      assert (Hr : r < i).
      { assert (In r (seqN 0 i)) by (rewrite El; apply in_or_app; right; left; reflexivity).
        apply seqN_in in H. lia. }
      rewrite (pv_i _ _ _ _ _ _ Pa) in *.
      destruct (nonzero_cols_spec W _ _ _ _ (pv_dims _ _ _ _ _ _ Pa) HiW EN) as [_ [Hcols Hhits]].
      assert (Lwa : lowrows i sa).
      { intros k j Hk Hj. rewrite Fr by lia. apply Lw3; assumption. }
      destruct (fourth_inner A0 M W A0_wf A0_len i c m r HiW HWM Hr _ _ _ Pa Lwa Hcols Eb) as [Pb HG].
      split; [exact Pb|]. split.
      + intros k j Hk Hj Hor. rewrite HG by assumption. destruct (N.eqb_spec k r) as [->|Hkr]; [|apply Fr; assumption].
        rewrite Hhits. destruct (N.leb_spec i j); [lia|]. cbn [andb]. rewrite N.lxor_0_r. apply Fr; assumption.
      + intros r' j Hin Hj. assert (Hr' : r' < i).
        { assert (In r' (seqN 0 i)).
          { rewrite El. apply in_app_or in Hin. apply in_or_app. destruct Hin as [Hin|[<-|[]]]; [left; exact Hin | right; left; reflexivity]. }
          apply seqN_in in H. lia. }
        rewrite HG by lia. destruct (N.eqb_spec r' r) as [->|Hne].
        * rewrite Hhits. destruct (N.leb_spec i j); [|lia]. destruct (N.ltb_spec j W); [|lia]. cbn [andb].
          rewrite <- (pv_agree _ _ _ _ _ _ Pa) by lia.
          destruct (PiSolverCells.bin_cell (ps_A sa) r j (pv_bin _ _ _ _ _ _ Pa)) as [-> | ->]; reflexivity.
        * apply Z; [|exact Hj]. apply in_app_or in Hin. destruct Hin as [Hin|[<-|[]]]; [exact Hin | contradiction].
    - split; [exact P3|]. split; [reflexivity | intros r j []]. }
  destruct R as [P4 [Fr Z]]. split; [exact P4|]. split; [exact Fr|].
  intros r j Hr Hj. apply Z; [|exact Hj]. apply seqN_in. lia.
Qed.

Lemma fourth_verify_ok i c X s : i <= W -> fa3 i c X s -> third_phase_verify_end s = Ok tt ->
  (forall r j, r < i -> i <= j < W -> G s r j = 0) -> lowrows i s ->
  fourth_phase_verify s = Ok tt.
Proof.
  intros HiW Fa Hve Z Lw. pose proof Fa as [P EW Eu EX Full].
  pose proof (pv_dims _ _ _ _ _ _ P) as D. pose proof D as [DL DF].
  unfold fourth_phase_verify. rewrite Hve. cbn [obind]. cbv zeta.
  rewrite (pv_i _ _ _ _ _ _ P), EW, Eu. unfold ps_height. rewrite DL.
  replace (W - (W - i)) with i by lia.
  assert (LA : length (ps_A s) = N.to_nat W) by (unfold lenN in DL; lia).
  rewrite assert_ok_true by (apply N.leb_le; exact HiW).
  rewrite assert_ok_true.
  2:{ apply (forallb_nth _ []). intros t Lt. rewrite firstn_length in Lt. rewrite nth_firstn_lt by lia.
      set (k := N.of_nat t). assert (Hk : k < i) by lia. replace t with (N.to_nat k) by lia.
      fold (rowN (ps_A s) k). apply andb_true_iff. split.
      - apply all_zero_subl. intros j Hj. change (nth (N.to_nat j) (rowN (ps_A s) k) 0) with (cell (ps_A s) k j).
        rewrite Full by lia. apply Z; lia.
      - apply orb_true_iff. right. apply N.leb_le. rewrite (fa3_rows _ _ _ _ _ Fa) by lia. lia. }
  rewrite assert_ok_true.
  2:{ apply (forallb_nth _ []). intros t Lt. rewrite skipn_length in Lt. rewrite nth_skipn'.
      set (k := i + N.of_nat t). assert (Hk : i <= k < W) by lia.
      replace (N.to_nat i + t)%nat with (N.to_nat k) by lia.
      fold (rowN (ps_A s) k). apply andb_true_iff. split.
      - apply all_zero_firstn. intros j Hj. change (nth (N.to_nat j) (rowN (ps_A s) k) 0) with (cell (ps_A s) k j).
        rewrite Full by lia. rewrite Lw by lia. destruct (N.eqb_spec k j); [lia | reflexivity].
      - apply N.leb_le. rewrite (fa3_rows _ _ _ _ _ Fa) by lia. exact HiW. }
  apply assert_ok_intro.
  apply (forallb_combine_seqN _ []). intros t Ht Hl. cbn [fst snd]. rewrite nth_skipn'.
  set (k := i + t) in *. assert (Hk : i <= k < W) by lia.
  replace (N.to_nat i + N.to_nat t)%nat with (N.to_nat k) by lia. fold (rowN (ps_A s) k).
  apply andb_true_iff. split.
  - apply (forallb_combine_seqN _ 0). intros t' Ht' _. cbn [fst snd].
    rewrite subl_nth by lia. set (j := i + t') in *.
    replace (N.to_nat i + N.to_nat t')%nat with (N.to_nat j) by lia.
    change (nth (N.to_nat j) (rowN (ps_A s) k) 0) with (cell (ps_A s) k j).
    rewrite Full by lia. rewrite Lw by lia. rewrite (N.eqb_sym k j). apply N.eqb_refl.
  - apply orb_true_iff. right. apply N.leb_le. rewrite (fa3_rows _ _ _ _ _ Fa) by lia. lia.
Qed.

(* ---- fifth phase ---- *)
Lemma fifth_verify_ok i c X s : fa3 i c X s ->
  (forall k j, k < W -> j < W -> G s k j = if k =? j then 1 else 0) -> fifth_phase_verify s = Ok tt.
Proof.
  intros Fa HG. pose proof Fa as [P EW Eu EX Full].
  pose proof (pv_dims _ _ _ _ _ _ P) as D. pose proof D as [DL DF].
  unfold fifth_phase_verify. unfold ps_height. rewrite (pv_L _ _ _ _ _ _ P), EW, DL.
  rewrite assert_ok_true by apply N.eqb_refl.
  replace (if 0 <? W then assert_ok (W =? W) else Ok tt) with (Ok tt)
    by (rewrite N.eqb_refl; destruct (0 <? W); reflexivity).
  cbn [obind]. apply assert_ok_intro. apply andb_true_iff. split.
  - apply forallb_forall. intros r Hr. rewrite Forall_forall in DF. apply N.eqb_eq, DF, Hr.
  - apply is_identity_intro; [lia | |].
    + intros k Hk. rewrite (fa3_rows _ _ _ _ _ Fa) by exact Hk. lia.
    + intros k j Hk Hj. rewrite Full by assumption. apply HG; assumption.
Qed.

Lemma tail345_ok i c X s xo : i <= W -> W <= M -> fa3 i c X s -> Forall (xo_lt i) xo -> permN W c ->
  (forall k j, k < i -> j < i -> G s k j = if k =? j then 1 else 0) -> lowrows i s ->
  lenN X = i -> (forall k, k < i -> lenN (rowN X k) = i) ->
  (forall k j, k < i -> j < i -> cell X k j = colapply (rev xo) (fun k' => if k' =? j then 1 else 0) k) ->
  exists s3 s4 s5 ord, third_phase Checked s xo = Ok s3 /\ fourth_phase Checked s3 = Ok s4 /\
    fifth_phase Checked s4 xo = Ok s5 /\ reorder_of s5 = Ok ord.
Proof.
  intros HiW HWM Fa Hxo Pc HI Hlow LX RX HXc.
  assert (HiM : i <= M) by lia.
  assert (Hrx : Forall (xo_lt i) (rev xo)) by (apply Forall_rev, Hxo).
  destruct (third_checked_ok i c X s xo HiW HWM Fa Hxo HI Hlow LX RX HXc) as [s3 [E3 [Fa3 G3]]].
  assert (Lw3 : lowrows i s3).
  { intros k j Hk Hj. rewrite G3 by lia. rewrite (colapply_high i _ Hrx) by lia. apply Hlow; assumption. }
  (* fourth *)
  destruct (fourth_fold_total i c X s3 HiW HWM Fa3) as [s4 [E4 Fa4]].
  destruct (fourth_fold_spec i c Checked s3 s4 HiW HWM (fa_pv _ _ _ _ Fa3) Lw3 E4) as [_ [Fr Z]].
  assert (Lw4 : lowrows i s4).
  { intros k j Hk Hj. rewrite Fr by (try lia; right; lia). apply Lw3; assumption. }
  assert (Hve4 : third_phase_verify_end s4 = Ok tt).
  { apply (fa3_verify_end i c X s4 HiW Fa4 LX RX). intros k j Hk Hj.
    rewrite Fr by (try lia; left; exact Hj). rewrite HXc by assumption. rewrite G3 by lia.
    apply (colapply_ext_lt i i (rev xo) Hrx (N.le_refl _)); [|exact Hk].
    intros k' Hk'. symmetry. apply HI; assumption. }
  assert (EP4 : fourth_phase Checked s3 = Ok s4).
  { rewrite fourth_phase_unfold, E4. cbn [obind].
    rewrite (fourth_verify_ok i c X s4 HiW Fa4 Hve4 Z Lw4). reflexivity. }
  (* fifth *)
  destruct (fa3_fold i c X fifth_F HiW HWM (fun _ _ _ => eq_refl) xo s4 Hxo Fa4) as [s5 [E5 [Fa5 G5]]].
  assert (Id5 : forall k j, k < W -> j < W -> G s5 k j = if k =? j then 1 else 0).
  { intros k j Hk Hj. rewrite G5 by lia.
    destruct (N.ltb_spec j i) as [Hji|Hji].
    - transitivity (colapply xo (colapply (rev xo) (fun k => G s k j)) k).
      { apply (colapply_ext_lt i M xo Hxo HiM); [|lia]. intros k' Hk'.
        rewrite Fr by (try lia; left; exact Hji). apply G3, Hk'. }
      rewrite (colapply_cancel i M xo Hxo HiM) by lia.
      destruct (N.ltb_spec k i); [apply HI; assumption | apply Hlow; lia].
    - destruct (N.ltb_spec k i) as [Hki|Hki].
      + rewrite (colapply_zero i xo Hxo); [| intros k' Hk'; apply Z; lia | exact Hki].
        destruct (N.eqb_spec k j); [lia | reflexivity].
      + rewrite (colapply_high i xo Hxo) by exact Hki.
        rewrite Fr by (try lia; right; exact Hki). apply Lw3; lia. }
  assert (EP5 : fifth_phase Checked s4 xo = Ok s5).
  { rewrite fifth_phase_unfold, E5. cbn [obind]. rewrite (fifth_verify_ok i c X s5 Fa5 Id5). reflexivity. }
  pose proof (fa_pv _ _ _ _ Fa5) as P5.
  destruct (reorder_total A0 M W A0_len s5 (pv_lite _ _ _ _ _ _ P5)) as [ord Eo];
    [rewrite (pv_c _ _ _ _ _ _ P5); exact Pc | apply (pv_L _ _ _ _ _ _ P5) | exact HWM|].
  exists s3, s4, s5, ord. auto.
Qed.

End P345C.

Lemma cell_out A k j : lenN A <= k -> cell A k j = 0.
Proof.
  intros H. unfold cell, rowN. rewrite (nth_overflow A) by (unfold lenN in H; lia).
  destruct (N.to_nat j); reflexivity.
Qed.

Section CT.
Variable A0 : list (list N).
Variable M W : N.
Hypothesis A0_wf : wf_mat (N.to_nat W) A0.
Hypothesis A0_len : lenN A0 = M.
Local Notation G := (G A0).

(* The statement as first given is FALSE: nothing forces the first i rows to lie above the HDPC
   placeholder rows.  Counterexample (vm_compute): M = W = H = 1, A0 = [[1]],
   s = mkPS [[0]] 1 (Some [[1]]) [[1]] [0] [0] 1 0 1 [], xo = [], Nx = 1 satisfies every hypothesis
   and exec_tail Checked s [] = Panic PAssert (third_phase_verify: the stored diagonal cell of the
   placeholder row 0 < i is 0).  The repaired statement below adds `ps_i s + H <= M`.

Lemma checked_tail H Nx s xo :
  p2_pre A0 M W H s -> permN W (ps_c s) ->
  (forall k j, k + H < M -> j < W -> cell (ps_A s) k j = G s k j) ->
  (forall k j, M - H <= k < M -> j < ps_i s -> cell (ps_A s) k j = 0) ->
  (forall k j, k < ps_i s -> j < ps_i s -> G s k j = if k =? j then 1 else 0) ->
  Forall (xo_lt (ps_i s)) xo ->
  dims (ps_X s) M Nx -> ps_i s <= Nx ->
  (forall k j, k < j -> j < ps_i s -> cell (ps_X s) k j = 0) ->
  (forall k j, k < ps_i s -> j < ps_i s ->
     colapply xo (fun k' => cell (ps_X s) k' j) k = if k =? j then 1 else 0) ->
  exists r, exec_tail Checked s xo = Ok r.
*)

Lemma checked_tail_fixed H Nx s xo :
  p2_pre A0 M W H s -> permN W (ps_c s) ->
  (* the rows processed by the first phase lie above the HDPC placeholders *)
  ps_i s + H <= M ->
  (* mode Checked keeps every cell exact *)
  (forall k j, k + H < M -> j < W -> cell (ps_A s) k j = G s k j) ->
  (* the rows of A under the HDPC block are empty left of i *)
  (forall k j, M - H <= k < M -> j < ps_i s -> cell (ps_A s) k j = 0) ->
  (* the identity block *)
  (forall k j, k < ps_i s -> j < ps_i s -> G s k j = if k =? j then 1 else 0) ->
  Forall (xo_lt (ps_i s)) xo ->
  (* the X matrix: lower triangular corner, and the recorded additions turn it into the identity *)
  dims (ps_X s) M Nx -> ps_i s <= Nx ->
  (forall k j, k < j -> j < ps_i s -> cell (ps_X s) k j = 0) ->
  (forall k j, k < ps_i s -> j < ps_i s ->
     colapply xo (fun k' => cell (ps_X s) k' j) k = if k =? j then 1 else 0) ->
  exists r, exec_tail Checked s xo = Ok r.
Proof.
  intros P Pc HiH Full Plc HI Hxo DX HNx Tri IdX.
  pose proof (p2_iu _ _ _ _ _ P) as iuW. pose proof (p2_WM _ _ _ _ _ P) as WM.
  set (i := ps_i s) in *.
  assert (HiW : i <= W) by lia. assert (HiM : i <= M) by lia.
  (* 1. second_phase_verify *)
  pose proof (second_phase_verify_ok s xo M Nx HiM Hxo DX HNx Tri IdX) as V.
  (* 2. the resize of X *)
  destruct (resizeX_ok (ps_X s) M Nx i DX HiM HNx) as [X' [EX' [LX [RX CX]]]].
  set (sx := set_X s X').
  assert (EonX : onX Checked s (fun X => bm_resize X (lenN (hd [] X)) (ps_i s) (ps_i s)) = Ok sx)
    by (unfold onX; fold i; rewrite EX'; reflexivity).
  (* 3. the core of the second phase *)
  pose proof (p2_pre_set_X A0 M W H s X' P) as Px. fold sx in Px.
  destruct (second_core_total A0 M W A0_wf A0_len Checked H sx Px) as [r Er].
  assert (E2 : second_phase Checked s xo = Ok r)
    by (rewrite second_phase_unfold, V; cbn [obind]; rewrite EonX; cbn [obind]; exact Er).
  unfold exec_tail. rewrite E2. cbn [obind].
  destruct r as [s2|]; [|eexists; reflexivity].
  (* 4. the state after the second phase *)
  destruct (second_phase_spec A0 M W A0_wf A0_len Checked H s xo s2 P E2)
    as (L2 & Hh2 & Ei2 & Eu2 & Ec2 & EW2 & EL2 & D2 & B2 & Aup & Gup & Glow & Alow).
  fold i in Aup, Gup, Glow, Alow, Ei2.
  assert (Zx : forall k j, ps_i sx <= k -> j < ps_i sx -> cell (ps_A sx) k j = 0).
  { change (ps_i sx) with i. change (ps_A sx) with (ps_A s). intros k j Hk Hj.
    destruct (N.ltb_spec k (M - H)) as [H1|H1].
    - rewrite Full by lia. apply (p2_zero _ _ _ _ _ P); fold i; lia.
    - destruct (N.ltb_spec k M) as [H2|H2]; [apply Plc; fold i; lia|].
      apply cell_out. rewrite (proj1 (p2_dims _ _ _ _ _ P)). exact H2. }
  destruct (second_core_extra Checked sx s2 Zx Er) as [EX2 Zl].
  change (ps_X sx) with X' in EX2. change (ps_i sx) with i in Zl. rewrite EL2 in Zl.
  assert (Full2 : forall k j, k < W -> j < W -> cell (ps_A s2) k j = G s2 k j).
  { intros k j Hk Hj. destruct (N.ltb_spec k i) as [Hki|Hki].
    - rewrite Aup, Gup by exact Hki. apply Full; lia.
    - rewrite Glow by lia. destruct (N.ltb_spec j i) as [Hji|Hji].
      + rewrite Zl by lia. destruct (N.eqb_spec k j); [lia | reflexivity].
      + apply Alow; lia. }
  assert (Fa2 : fa3 A0 M W i (ps_c s) X' s2).
  { constructor; try assumption; [|lia].
    constructor; try assumption. intros k j Hk Hj. apply Full2; lia. }
  assert (HI2 : forall k j, k < i -> j < i -> G s2 k j = if k =? j then 1 else 0).
  { intros k j Hk Hj. rewrite Gup by exact Hk. apply HI; assumption. }
  assert (Lw2 : lowrows A0 W i s2) by exact Glow.
  assert (Hrx : Forall (xo_lt i) (rev xo)) by (apply Forall_rev, Hxo).
  assert (HXc : forall k j, k < i -> j < i ->
            cell X' k j = colapply (rev xo) (fun k' => if k' =? j then 1 else 0) k).
  { intros k j Hk Hj. rewrite CX by assumption.
    pose proof (colapply_cancel i i (rev xo) Hrx (N.le_refl _) (fun k' => cell (ps_X s) k' j) k Hk) as C.
    rewrite rev_involutive in C. rewrite <- C.
    apply (colapply_ext_lt i i (rev xo) Hrx (N.le_refl _)); [|exact Hk].
    intros k' Hk'. apply IdX; assumption. }
  (* 5-8. the third, fourth and fifth phase and the read-out *)
  destruct (tail345_ok A0 M W A0_wf A0_len i (ps_c s) X' s2 xo HiW WM Fa2 Hxo Pc HI2 Lw2 LX RX HXc)
    as (s3 & s4 & s5 & ord & E3 & E4 & E5 & Eo).
  rewrite E3. cbn [obind]. rewrite E4. cbn [obind]. rewrite E5. cbn [obind]. rewrite Eo. cbn [obind].
  eexists. reflexivity.
Qed.

End CT.

(* the counterexample to the statement without `ps_i s + H <= M`: all its hypotheses hold, the run panics *)
Example checked_tail_needs_iH :
  let A0 := [[1]] in
  let s := mkPS [[0]] 1 (Some [[1]]) [[1]] [0] [0] 1 0 1 [] in
  wf_mat 1 A0 /\ lenN A0 = 1 /\ p2_pre A0 1 1 1 s /\ permN 1 (ps_c s) /\
  (forall k j, k + 1 < 1 -> j < 1 -> cell (ps_A s) k j = G A0 s k j) /\
  (forall k j, 1 - 1 <= k < 1 -> j < ps_i s -> cell (ps_A s) k j = 0) /\
  (forall k j, k < ps_i s -> j < ps_i s -> G A0 s k j = if k =? j then 1 else 0) /\
  Forall (xo_lt (ps_i s)) [] /\ dims (ps_X s) 1 1 /\ ps_i s <= 1 /\
  (forall k j, k < j -> j < ps_i s -> cell (ps_X s) k j = 0) /\
  (forall k j, k < ps_i s -> j < ps_i s ->
     colapply [] (fun k' => cell (ps_X s) k' j) k = if k =? j then 1 else 0) /\
  exec_tail Checked s [] = Panic PAssert.
Proof.
  cbv zeta. cbn [ps_i ps_c ps_A ps_X].
  assert (P1 : permN 1 [0]).
  { split; [reflexivity|]. split; [repeat constructor; intros []|]. repeat constructor. }
  assert (Z : forall k, k < 1 -> k = 0) by (intros; lia).
  split; [repeat constructor|]. split; [reflexivity|]. split.
  { constructor; cbn [ps_A ps_W ps_L ps_i ps_u]; try reflexivity; try lia.
    all: try (intros k j Hk; lia); try (intros k j _ Hk; lia).
    all: try (constructor; [exact P1 | repeat constructor | cbn [ps_hd]; repeat constructor | reflexivity]).
    all: try (split; [reflexivity|]); repeat constructor. }
  split; [exact P1|]. split; [intros k j Hk; lia|].
  split; [intros k j Hk Hj; rewrite (Z k) by lia; rewrite (Z j) by lia; reflexivity|].
  split; [intros k j Hk Hj; rewrite (Z k Hk), (Z j Hj); vm_compute; reflexivity|].
  split; [constructor|]. split; [split; [reflexivity | repeat constructor]|]. split; [lia|].
  split; [intros k j Hk Hj; lia|].
  split; [intros k j Hk Hj; rewrite (Z k Hk), (Z j Hj); reflexivity|].
  vm_compute. reflexivity.
Qed.
