(* The solver theorems instantiated at the matrices the crate actually builds
   (Model/CMatrix.v generate_constraint_matrix / generate_constraint_matrix_no_hdpc for any K <= 56403
   and any list of ISIs): they satisfy the shape, binarity and covering hypotheses of
   Proofs/PiSolverSound.v. *)
From Coq Require Import NArith List Bool Lia Arith.
From RQ Require Import Base.Outcome Base.Ints Base.ListX Model.Octet Model.FieldFast Model.SysConst
  Model.CMatrix Model.Slab Spec.Linear Proofs.OutcomeLemmas Model.PiSolver
  Proofs.PiSolverBase Proofs.PiSolverStruct Proofs.PiSolverOps Proofs.PiSolverG Proofs.PiSolverInvDefs
  Proofs.PiSolverSound.
From RQ Require Import Gen.SysTables Spec.Code Proofs.SysConstProofs Proofs.C15Sweep1 Proofs.CMatrixSweep
  Proofs.CMatrixBase Proofs.CMatrixLdpc Proofs.CMatrixHdpc Proofs.CMatrixProofs.
Import ListNotations.
Open Scope N_scope.


(* ---- a fact of every Table-2 row that was not needed before: H <= K' ---- *)
Lemma sweep_H_le_K :
  forallb (fun r : N * N * N * N * N => let '(k, _, _, h, _) := r in h <=? k) TABLE2 = true.
Proof. vm_compute. reflexivity. Qed.

Lemma row_H_le_K K' J S H W : In (K', J, S, H, W) TABLE2 -> H <= K'.
Proof.
  intros Hr. pose proof sweep_H_le_K as S0. rewrite forallb_forall in S0.
  specialize (S0 _ Hr). cbv beta iota in S0. apply N.leb_le in S0. exact S0.
Qed.

(* ---- bridges between (wfm, ent) and (dims, cell, bin_mat, bytes_mat) ---- *)
Lemma ent_is_cell A r c : ent A r c = cell A r c.
Proof. reflexivity. Qed.

Lemma wfm_dims h w A : wfm h w A -> dims A (N.of_nat h) (N.of_nat w).
Proof.
  intros [Hl Hf]. split; [unfold lenN; rewrite Hl; reflexivity|].
  apply Forall_forall. intros r Hr. rewrite Forall_forall in Hf. unfold lenN. rewrite (Hf r Hr). reflexivity.
Qed.

Lemma wfm_Forall_ent (Q : N -> Prop) h w A : wfm h w A ->
  (forall r c, r < N.of_nat h -> c < N.of_nat w -> Q (ent A r c)) -> Forall (Forall Q) A.
Proof.
  intros [Hl Hf] He. apply Forall_forall. intros row Hrow.
  destruct (In_nth _ _ [] Hrow) as [r [Hr Er]].
  rewrite Forall_forall in Hf. pose proof (Hf row Hrow) as Hlen.
  apply Forall_forall. intros x Hx. destruct (In_nth _ _ 0 Hx) as [c [Hc Ec]].
  pose proof (He (N.of_nat r) (N.of_nat c) ltac:(lia) ltac:(lia)) as B.
  unfold ent in B. rewrite !Nat2N.id, Er, Ec in B. exact B.
Qed.

Lemma parity_01 n : parity n = 0 \/ parity n = 1.
Proof. unfold parity. assert (n mod 2 < 2) by (apply N.mod_lt; discriminate). lia. Qed.

(* ---- every column of the LT part (c < W) has a one in an LDPC row ---- *)
Lemma ldpc_cover K' J S H W P1 :
  In (K', J, S, H, W) TABLE2 -> In (K', P1) P1_TABLE ->
  forall c, c < W -> exists r, r < S /\ ldpc_entry (mkCP K' J S H W P1) r c = 1.
Proof.
  intros Hr Hp c Hc.
  destruct (row_facts K' J S H W P1 Hr Hp). destruct (cm_row_facts K' J S H W P1 Hr Hp).
  destruct (N.lt_ge_cases c (W - S)) as [HcB|HcB].
  - destruct (lb_facts K' S H W (N.to_nat S) (N.to_nat (K' + S + H)) cm_S3 cm_Sodd cm_a ro_SW
                ltac:(lia) ro_WL ltac:(lia) ltac:(lia) c HcB) as [H0 [H1 [H2 [D01 [D12 D02]]]]].
    exists (lb0 S c). split; [exact H0|].
    unfold ldpc_entry, ldpc_count, cB. cbn [cS cW]. cbv zeta.
    replace (c <? W - S) with true by (symmetry; apply N.ltb_lt; exact HcB).
    fold (lb0 S c). fold (la S c). fold (lb1 S c). fold (lb2 S c).
    rewrite N.eqb_refl.
    replace (lb1 S c =? lb0 S c) with false by (symmetry; apply N.eqb_neq; congruence).
    replace (lb2 S c =? lb0 S c) with false by (symmetry; apply N.eqb_neq; congruence).
    reflexivity.
  - exists (c - (W - S)). split; [lia|].
    unfold ldpc_entry, ldpc_count, cB. cbn [cS cW]. cbv zeta.
    replace (c <? W - S) with false by (symmetry; apply N.ltb_ge; exact HcB).
    replace (c <? W) with true by (symmetry; apply N.ltb_lt; exact Hc).
    rewrite N.eqb_refl. reflexivity.
Qed.

(* ---- the hypotheses of the PiSolverSound theorems at the generated matrices ---- *)
Lemma system_facts m K isis sp bin hd :
  K <= 56403 -> Forall (fun x => x < 2 ^ 32) isis -> lenN isis < 2 ^ 31 ->
  sys_params K = Ok sp -> generate_constraint_matrix m K isis = Ok (bin, hd) ->
  let M := spS sp + spH sp + lenN isis in
  dims bin M (spL sp) /\ 0 < M /\ M < 4294967296 /\ bin_mat bin /\
  dims hd (spH sp) (spL sp) /\ bytes_mat hd /\ spS sp + 2 * spH sp <= M /\
  spP sp <= spL sp /\ spL sp < 65536 /\
  (forall j, j < spL sp - spP sp ->
     exists k, k < M /\ (k < spS sp \/ spS sp + spH sp <= k) /\ cell bin k j = 1).
Proof.
  intros HK Hisis Hn Hsys Hgen M.
  destruct (sys_params_ok K HK) as (K' & J & S & H & W & P1 & Hr & Hp & _ & Hsys').
  rewrite Hsys in Hsys'. injection Hsys' as ->. subst M. cbn [spS spH spL spP].
  pose proof (row_facts K' J S H W P1 Hr Hp) as RF. destruct RF.
  pose proof (cm_row_facts K' J S H W P1 Hr Hp) as CF. destruct CF.
  pose proof (row_H_le_K _ _ _ _ _ Hr) as HHK.
  assert (Hlen : K' + S + H <= S + H + N.of_nat (length isis)).
  { destruct (N.le_gt_cases (K' + S + H) (S + H + N.of_nat (length isis))) as [Hle|Hgt]; [exact Hle|].
    rewrite (cm_panics K' J S H W P1 K Hsys m isis Hgt) in Hgen. discriminate. }
  destruct (cm_generate K' J S H W P1 Hr Hp K Hsys m isis Hisis Hlen)
    as (bin' & hd' & E & Hwb & Hwh & Heb & Heh).
  rewrite Hgen in E. injection E as <- <-.
  unfold lenN in *.
  split.
  { pose proof (wfm_dims _ _ _ Hwb) as D.
    replace (N.of_nat (N.to_nat (S + H) + length isis)) with (S + H + N.of_nat (length isis)) in D by lia.
    rewrite N2Nat.id in D. exact D. }
  split; [lia|]. split; [lia|].
  split.
  { apply (wfm_Forall_ent (fun x => x = 0 \/ x = 1) _ _ _ Hwb). intros r c Hrr Hc.
    rewrite Heb by lia.
    destruct (r <? S); [unfold ldpc_entry; apply parity_01|].
    destruct ((S + H <=? r) && (r <? S + H + N.of_nat (length isis)));
      [unfold enc_entry; apply parity_01 | left; reflexivity]. }
  split.
  { pose proof (wfm_dims _ _ _ Hwh) as D. rewrite !N2Nat.id in D. exact D. }
  split.
  { apply (wfm_Forall_ent (fun x => x < 256) _ _ _ Hwh). intros r c Hrr Hc.
    rewrite Heh by lia. apply hdpc_entry_lt. }
  split; [lia|]. split; [lia|]. split; [lia|].
  intros j Hj. destruct (ldpc_cover K' J S H W P1 Hr Hp j ltac:(lia)) as (r & HrS & Er).
  exists r. split; [lia|]. split; [left; exact HrS|].
  rewrite <- ent_is_cell, Heb by lia.
  replace (r <? S) with true by (symmetry; apply N.ltb_lt; exact HrS). exact Er.
Qed.

Lemma system_no_hdpc_facts m K isis sp A :
  K <= 56403 -> Forall (fun x => x < 2 ^ 32) isis -> lenN isis < 2 ^ 31 ->
  sys_params K = Ok sp -> generate_constraint_matrix_no_hdpc m K isis = Ok A ->
  let M := spS sp + lenN isis in
  dims A M (spL sp) /\ 0 < M /\ M < 4294967296 /\ bin_mat A /\
  spP sp <= spL sp /\ spL sp < 65536 /\
  (forall j, j < spL sp - spP sp -> exists k, k < M /\ cell A k j = 1).
Proof.
  intros HK Hisis Hn Hsys Hgen M.
  destruct (sys_params_ok K HK) as (K' & J & S & H & W & P1 & Hr & Hp & _ & Hsys').
  rewrite Hsys in Hsys'. injection Hsys' as ->. subst M. cbn [spS spH spL spP].
  pose proof (row_facts K' J S H W P1 Hr Hp) as RF. destruct RF.
  pose proof (cm_row_facts K' J S H W P1 Hr Hp) as CF. destruct CF.
  assert (Hlen : K' + S + H <= S + N.of_nat (length isis)).
  { destruct (N.le_gt_cases (K' + S + H) (S + N.of_nat (length isis))) as [Hle|Hgt]; [exact Hle|].
    rewrite (cm_panics_no_hdpc K' J S H W P1 K Hsys m isis Hgt) in Hgen. discriminate. }
  destruct (cm_generate_no_hdpc K' J S H W P1 Hr Hp K Hsys m isis Hisis Hlen)
    as (bin' & E & Hwb & Heb).
  rewrite Hgen in E. injection E as <-.
  unfold lenN in *.
  split.
  { pose proof (wfm_dims _ _ _ Hwb) as D.
    replace (N.of_nat (N.to_nat S + length isis)) with (S + N.of_nat (length isis)) in D by lia.
    rewrite N2Nat.id in D. exact D. }
  split; [lia|]. split; [lia|].
  split.
  { apply (wfm_Forall_ent (fun x => x = 0 \/ x = 1) _ _ _ Hwb). intros r c Hrr Hc.
    rewrite Heb by lia.
    destruct (r <? S); [unfold ldpc_entry; apply parity_01|].
    destruct ((S <=? r) && (r <? S + N.of_nat (length isis)));
      [unfold enc_entry; apply parity_01 | left; reflexivity]. }
  split; [lia|]. split; [lia|].
  intros j Hj. destruct (ldpc_cover K' J S H W P1 Hr Hp j ltac:(lia)) as (r & HrS & Er).
  exists r. split; [lia|].
  rewrite <- ent_is_cell, Heb by lia.
  replace (r <? S) with true by (symmetry; apply N.ltb_lt; exact HrS). exact Er.
Qed.

Theorem pi_system_sound m K isis sp bin hd ops :
  K <= 56403 -> Forall (fun x => x < 2 ^ 32) isis -> lenN isis < 2 ^ 31 ->
  sys_params K = Ok sp -> generate_constraint_matrix m K isis = Ok (bin, hd) ->
  pi_system_run m K isis = Ok (Some ops) ->
  exists body ord, ops = body ++ [SReorder ord] /\
    check_cert fmul (N.to_nat (spL sp)) (full_matrix (spS sp) (spH sp) bin hd)
               (map sym_of body) (map N.to_nat ord) = true /\
    NoDup (map N.to_nat ord) /\ length ord = N.to_nat (spL sp).
Proof.
  intros HK Hisis Hn Hsys Hgen Hrun.
  destruct (system_facts m K isis sp bin hd HK Hisis Hn Hsys Hgen)
    as (D & M0 & M32 & Bin & Dh & Bh & HS & HP & W16 & _).
  unfold pi_system_run in Hrun. rewrite Hsys, Hgen in Hrun. cbn [obind] in Hrun.
  exact (pi_run_sound m _ _ _ _ _ _ ops _ _ D M0 M32 Bin Dh Bh HS eq_refl HP W16 Hrun).
Qed.

Theorem pi_system_complete m K isis sp bin hd r :
  K <= 56403 -> Forall (fun x => x < 2 ^ 32) isis -> lenN isis < 2 ^ 31 ->
  sys_params K = Ok sp -> generate_constraint_matrix m K isis = Ok (bin, hd) ->
  pi_system_run m K isis = Ok r ->
  (r = None <-> ~ injective fmul (N.to_nat (spL sp)) (full_matrix (spS sp) (spH sp) bin hd)).
Proof.
  intros HK Hisis Hn Hsys Hgen Hrun.
  destruct (system_facts m K isis sp bin hd HK Hisis Hn Hsys Hgen)
    as (D & M0 & M32 & Bin & Dh & Bh & HS & HP & W16 & Hcov).
  unfold pi_system_run in Hrun. rewrite Hsys, Hgen in Hrun. cbn [obind] in Hrun.
  exact (pi_run_complete m _ _ _ _ _ _ r _ _ D M0 M32 Bin Dh Bh HS eq_refl HP W16 Hcov Hrun).
Qed.

Theorem pi_system_no_hdpc_sound m K isis sp A ops :
  K <= 56403 -> Forall (fun x => x < 2 ^ 32) isis -> lenN isis < 2 ^ 31 ->
  sys_params K = Ok sp -> generate_constraint_matrix_no_hdpc m K isis = Ok A ->
  pi_system_run_no_hdpc m K isis = Ok (Some ops) ->
  exists body ord, ops = body ++ [SReorder ord] /\
    check_cert fmul (N.to_nat (spL sp)) A (map sym_of body) (map N.to_nat ord) = true /\
    NoDup (map N.to_nat ord) /\ length ord = N.to_nat (spL sp).
Proof.
  intros HK Hisis Hn Hsys Hgen Hrun.
  destruct (system_no_hdpc_facts m K isis sp A HK Hisis Hn Hsys Hgen)
    as (D & M0 & M32 & Bin & HP & W16 & _).
  unfold pi_system_run_no_hdpc in Hrun. rewrite Hsys, Hgen in Hrun. cbn [obind] in Hrun.
  exact (pi_run_no_hdpc_sound m _ _ _ ops _ _ D M0 M32 Bin eq_refl HP W16 Hrun).
Qed.

Theorem pi_system_no_hdpc_complete m K isis sp A r :
  K <= 56403 -> Forall (fun x => x < 2 ^ 32) isis -> lenN isis < 2 ^ 31 ->
  sys_params K = Ok sp -> generate_constraint_matrix_no_hdpc m K isis = Ok A ->
  pi_system_run_no_hdpc m K isis = Ok r ->
  (r = None <-> ~ injective fmul (N.to_nat (spL sp)) A).
Proof.
  intros HK Hisis Hn Hsys Hgen Hrun.
  destruct (system_no_hdpc_facts m K isis sp A HK Hisis Hn Hsys Hgen)
    as (D & M0 & M32 & Bin & HP & W16 & Hcov).
  unfold pi_system_run_no_hdpc in Hrun. rewrite Hsys, Hgen in Hrun. cbn [obind] in Hrun.
  exact (pi_run_no_hdpc_complete m _ _ _ r _ _ D M0 M32 Bin eq_refl HP W16 Hcov Hrun).
Qed.

(* further facts about the generated systems, needed for the absence of panics: enough rows, the rows
   of the binary matrix under the HDPC block are empty, fewer than 65535 columns left of the PI block *)
Lemma system_extra m K isis sp bin hd :
  K <= 56403 -> Forall (fun x => x < 2 ^ 32) isis -> lenN isis < 2 ^ 31 ->
  sys_params K = Ok sp -> generate_constraint_matrix m K isis = Ok (bin, hd) ->
  spL sp <= spS sp + spH sp + lenN isis /\
  (forall k j, spS sp <= k < spS sp + spH sp -> j < spL sp -> cell bin k j = 0) /\
  spL sp - spP sp < 65535.
Proof.
  intros HK Hisis Hn Hsys Hgen.
  destruct (sys_params_ok K HK) as (K' & J & S & H & W & P1 & Hr & Hp & _ & Hsys').
  rewrite Hsys in Hsys'. injection Hsys' as ->. cbn [spS spH spL spP].
  pose proof (row_facts K' J S H W P1 Hr Hp) as RF. destruct RF.
  pose proof (cm_row_facts K' J S H W P1 Hr Hp) as CF. destruct CF.
  assert (Hlen : K' + S + H <= S + H + N.of_nat (length isis)).
  { destruct (N.le_gt_cases (K' + S + H) (S + H + N.of_nat (length isis))) as [Hle|Hgt]; [exact Hle|].
    rewrite (cm_panics K' J S H W P1 K Hsys m isis Hgt) in Hgen. discriminate. }
  destruct (cm_generate K' J S H W P1 Hr Hp K Hsys m isis Hisis Hlen)
    as (bin' & hd' & E & Hwb & Hwh & Heb & Heh).
  rewrite Hgen in E. injection E as <- <-.
  unfold lenN in *.
  split; [exact Hlen|]. split; [|lia].
  intros k j Hk Hj. rewrite <- ent_is_cell, Heb by lia.
  replace (k <? S) with false by (symmetry; apply N.ltb_ge; lia).
  replace (S + H <=? k) with false by (symmetry; apply N.leb_gt; lia).
  reflexivity.
Qed.

Lemma system_no_hdpc_extra m K isis sp A :
  K <= 56403 -> Forall (fun x => x < 2 ^ 32) isis -> lenN isis < 2 ^ 31 ->
  sys_params K = Ok sp -> generate_constraint_matrix_no_hdpc m K isis = Ok A ->
  spL sp <= spS sp + lenN isis /\ spL sp - spP sp < 65535.
Proof.
  intros HK Hisis Hn Hsys Hgen.
  destruct (sys_params_ok K HK) as (K' & J & S & H & W & P1 & Hr & Hp & _ & Hsys').
  rewrite Hsys in Hsys'. injection Hsys' as ->. cbn [spS spH spL spP].
  pose proof (row_facts K' J S H W P1 Hr Hp) as RF. destruct RF.
  pose proof (cm_row_facts K' J S H W P1 Hr Hp) as CF. destruct CF.
  assert (Hlen : K' + S + H <= S + N.of_nat (length isis)).
  { destruct (N.le_gt_cases (K' + S + H) (S + N.of_nat (length isis))) as [Hle|Hgt]; [exact Hle|].
    rewrite (cm_panics_no_hdpc K' J S H W P1 K Hsys m isis Hgt) in Hgen. discriminate. }
  unfold lenN in *.
  split; [exact Hlen|lia].
Qed.
