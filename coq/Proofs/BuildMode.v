(* Build-mode (debug assertions / overflow checks vs optimised) irrelevance of the block encoder's intermediate
   symbols, for the reference model and for the model running the real five-phase solver in either variant. *)
From Coq Require Import NArith List Bool Lia.
From RQ Require Import Base.Outcome Base.Ints Base.ListX Spec.Linear Spec.Layout
  Model.Octet Model.FieldFast Model.SysConst Model.Tuple Model.CMatrix Model.Layout Model.Slab
  Model.Encoder Model.Decoder Model.PiSolver Model.DecoderPi Model.CertRun
  Proofs.CMatrixMode Proofs.CertRunProofs Proofs.DecoderPiProofs Proofs.DecoderPiBlock.
Import ListNotations.
Open Scope N_scope.
Open Scope outcome_scope.

Lemma gen_intermediate_symbols_mode m syms T :
  gen_intermediate_symbols m syms T = gen_intermediate_symbols Release syms T.
Proof.
  unfold gen_intermediate_symbols.
  destruct (sys_params (Layout.lenN syms)) as [sp|c] eqn:Hsp; cbn [obind]; [|reflexivity].
  destruct (sys_params_facts _ sp Hsp) as [_ [HL [_ [HL16 _]]]].
  rewrite (generate_constraint_matrix_mode m (Layout.lenN syms)); [reflexivity|].
  apply rangeN_lt32. rewrite N2Nat.id. lia.
Qed.

Lemma encoder_build_mode_irrelevant m1 m2 syms T C : wf_mat T syms ->
  gen_intermediate_symbols m1 syms T = Ok C ->
  gen_intermediate_symbols_pi m1 syms T = Ok C /\ gen_intermediate_symbols_pi m2 syms T = Ok C.
Proof.
  intros Hw H. split.
  - exact (encoder_equal m1 syms T C Hw H).
  - apply (encoder_equal m2 syms T C Hw).
    rewrite gen_intermediate_symbols_mode. rewrite gen_intermediate_symbols_mode in H. exact H.
Qed.
