(* The systematic parameters selected for K and for K' = extended_source_block_symbols K are the
   same table row (the crate looks them up sometimes with K, sometimes with K'); `params_of`
   packages what every look-up returns; `sys_params` in closed form. *)
From Coq Require Import NArith List Bool Lia.
From RQ Require Import Base.Outcome Base.Ints Base.ListX Gen.Consts Gen.SysTables
  Spec.Prime Model.SysConst Model.Tuple Model.CMatrix
  Proofs.PrimeProofs Proofs.SysConstProofs Proofs.C15Sweep1.
Import ListNotations.
Open Scope N_scope.

Definition row5_eqb (r r' : row5) : bool :=
  (r_k r =? r_k r') && (r_j r =? r_j r') && (r_s r =? r_s r') && (r_h r =? r_h r') && (r_w r =? r_w r').

Lemma row5_eqb_eq r r' : row5_eqb r r' = true -> r = r'.
Proof.
  destruct r as [[[[k j] s] h] w], r' as [[[[k' j'] s'] h'] w']. unfold row5_eqb.
  cbn [r_k r_j r_s r_h r_w]. rewrite !andb_true_iff, !N.eqb_eq. intros [[[[-> ->] ->] ->] ->].
  reflexivity.
Qed.

Lemma sweep_keys_unique_ok :
  forallb (fun r : row5 => forallb (fun r' : row5 =>
     negb (r_k r =? r_k r') || row5_eqb r r') TABLE2) TABLE2 = true.
Proof. vm_compute. reflexivity. Qed.

Lemma sweep_p1keys_unique_ok :
  forallb (fun p : N * N => forallb (fun p' : N * N =>
     negb (fst p =? fst p') || (snd p =? snd p')) P1_TABLE) P1_TABLE = true.
Proof. vm_compute. reflexivity. Qed.

Lemma table2_key_unique r r' : In r TABLE2 -> In r' TABLE2 -> r_k r = r_k r' -> r = r'.
Proof.
  intros H1 H2 E. pose proof sweep_keys_unique_ok as S0. rewrite forallb_forall in S0.
  pose proof (S0 r H1) as S1. cbv beta in S1. rewrite forallb_forall in S1.
  pose proof (S1 r' H2) as S2. cbv beta in S2. rewrite E, N.eqb_refl in S2. cbn [negb orb] in S2.
  apply row5_eqb_eq. exact S2.
Qed.

Lemma p1table_key_unique k p p' : In (k, p) P1_TABLE -> In (k, p') P1_TABLE -> p = p'.
Proof.
  intros H1 H2. pose proof sweep_p1keys_unique_ok as S0. rewrite forallb_forall in S0.
  pose proof (S0 _ H1) as S1. cbv beta in S1. rewrite forallb_forall in S1.
  pose proof (S1 _ H2) as S2. cbv beta in S2. cbn [fst snd] in S2. rewrite N.eqb_refl in S2.
  cbn [negb orb] in S2. apply N.eqb_eq. exact S2.
Qed.

Lemma sweep_P3_ok :
  forall_rows (fun K' J S H W P1 => (3 <=? K' + S + H - W) && (10 <=? H)) = true.
Proof. vm_compute. reflexivity. Qed.

Lemma row_P3 K' J S H W P1 : In (K', J, S, H, W) TABLE2 -> In (K', P1) P1_TABLE ->
  3 <= K' + S + H - W.
Proof.
  intros Hr Hp. pose proof sweep_P3_ok as S0.
  pose proof (forall_rows_spec _ S0 K' J S H W P1 Hr Hp) as F. cbv beta in F.
  apply andb_true_iff in F. destruct F as [F _]. apply N.leb_le. exact F.
Qed.

(* everything the look-ups return for K and for K' *)
Record params_of (K K' J S H W P1 : N) : Prop := {
  po_row : In (K', J, S, H, W) TABLE2;
  po_p1 : In (K', P1) P1_TABLE;
  po_le : K <= K';
  po_K : forall sel, lookup5 sel K = Ok (sel (K', J, S, H, W));
  po_Kp1 : calculate_p1 K = Ok P1;
  po_K' : forall sel, lookup5 sel K' = Ok (sel (K', J, S, H, W));
  po_K'p1 : calculate_p1 K' = Ok P1
}.

Lemma params_exist K : K <= 56403 -> exists K' J S H W P1, params_of K K' J S H W P1.
Proof.
  intros HK. change 56403 with MAX_SOURCE_SYMBOLS_PER_BLOCK in HK.
  destruct (lookups_select K HK) as [r [P1 [Hr [Hp [Hge [Hmin [Hsel Hp1]]]]]]].
  destruct r as [[[[K' J] S] H] W]. cbn [r_k] in Hp, Hge, Hmin.
  pose proof (row_facts K' J S H W P1 Hr Hp) as F. destruct F.
  destruct (lookups_select K' ro_Kmax) as [r' [P1' [Hr' [Hp' [Hge' [Hmin' [Hsel' Hp1']]]]]]].
  assert (Ek : r_k r' = K').
  { pose proof (Hmin' _ Hr) as M. cbn [r_k] in M. specialize (M (N.le_refl _)). lia. }
  assert (Er : r' = (K', J, S, H, W)) by (apply table2_key_unique; [assumption | assumption | exact Ek]).
  subst r'. cbn [r_k] in Hp'.
  assert (P1' = P1) by (eapply p1table_key_unique; eassumption). subst P1'.
  exists K', J, S, H, W, P1. constructor; assumption.
Qed.

Section Params.
Variables K K' J S H W P1 : N.
Hypothesis PO : params_of K K' J S H W P1.

Lemma po_ext : extended_source_block_symbols K = Ok K'. Proof. apply (po_K _ _ _ _ _ _ _ PO). Qed.
Lemma po_J : systematic_index K = Ok J. Proof. apply (po_K _ _ _ _ _ _ _ PO). Qed.
Lemma po_S : num_ldpc_symbols K = Ok S. Proof. apply (po_K _ _ _ _ _ _ _ PO). Qed.
Lemma po_H : num_hdpc_symbols K = Ok H. Proof. apply (po_K _ _ _ _ _ _ _ PO). Qed.
Lemma po_W : num_lt_symbols K = Ok W. Proof. apply (po_K _ _ _ _ _ _ _ PO). Qed.
Lemma po_L : num_intermediate_symbols K = Ok (K' + S + H).
Proof. unfold num_intermediate_symbols. rewrite po_ext, po_S, po_H. reflexivity. Qed.
Lemma po_P : num_pi_symbols K = Ok (K' + S + H - W).
Proof. unfold num_pi_symbols. rewrite po_L, po_W. reflexivity. Qed.

Lemma po_ext' : extended_source_block_symbols K' = Ok K'. Proof. apply (po_K' _ _ _ _ _ _ _ PO). Qed.
Lemma po_J' : systematic_index K' = Ok J. Proof. apply (po_K' _ _ _ _ _ _ _ PO). Qed.
Lemma po_S' : num_ldpc_symbols K' = Ok S. Proof. apply (po_K' _ _ _ _ _ _ _ PO). Qed.
Lemma po_H' : num_hdpc_symbols K' = Ok H. Proof. apply (po_K' _ _ _ _ _ _ _ PO). Qed.
Lemma po_W' : num_lt_symbols K' = Ok W. Proof. apply (po_K' _ _ _ _ _ _ _ PO). Qed.
Lemma po_L' : num_intermediate_symbols K' = Ok (K' + S + H).
Proof. unfold num_intermediate_symbols. rewrite po_ext', po_S', po_H'. reflexivity. Qed.
Lemma po_P' : num_pi_symbols K' = Ok (K' + S + H - W).
Proof. unfold num_pi_symbols. rewrite po_L', po_W'. reflexivity. Qed.

Definition the_sp : sysparams := mkSP K' J S H W (K' + S + H - W) P1 (K' + S + H).

Lemma po_sys_params : sys_params K = Ok the_sp.
Proof.
  unfold sys_params. rewrite po_ext, po_S, po_H, po_W, po_P, po_L. cbn [obind].
  rewrite po_J', (po_K'p1 _ _ _ _ _ _ _ PO). reflexivity.
Qed.

Lemma po_facts : row_ok K' J S H W P1.
Proof. apply row_facts; [apply (po_row _ _ _ _ _ _ _ PO) | apply (po_p1 _ _ _ _ _ _ _ PO)]. Qed.

Lemma po_Kmax : K <= 56403.
Proof. pose proof po_facts as F. destruct F. pose proof (po_le _ _ _ _ _ _ _ PO).
  change MAX_SOURCE_SYMBOLS_PER_BLOCK with 56403 in ro_Kmax. lia. Qed.

Lemma po_K'_lt : K' + 16777216 < 2 ^ 32.
Proof.
  pose proof po_facts as F. destruct F.
  change MAX_SOURCE_SYMBOLS_PER_BLOCK with 56403 in ro_Kmax.
  assert (P32 : 16777216 + 56403 < 2 ^ 32) by reflexivity. lia.
Qed.

End Params.

(* a successful look-up determines the parameters *)
Lemma params_of_ext K Kp : extended_source_block_symbols K = Ok Kp ->
  exists J S H W P1, params_of K Kp J S H W P1.
Proof.
  intros E.
  assert (HK : K <= 56403).
  { unfold extended_source_block_symbols, lookup5 in E.
    destruct (K <=? MAX_SOURCE_SYMBOLS_PER_BLOCK) eqn:EK; [|discriminate]. apply N.leb_le in EK. exact EK. }
  destruct (params_exist K HK) as [K' [J [S [H [W [P1 PO]]]]]].
  rewrite (po_ext _ _ _ _ _ _ _ PO) in E. injection E as <-. exists J, S, H, W, P1. exact PO.
Qed.
