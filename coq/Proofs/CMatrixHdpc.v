(* C04, HDPC part: the right-to-left recursion of `generate_hdpc_rows`
     col_{n-1}[i] = alpha^i,   col_j = alpha * col_{j+1}  xor  e_{i1(j)}  xor  e_{i2(j)}
   computes the matrix product MT x GAMMA of RFC 6330 5.3.3.3 (Spec.Code.G_HDPC). *)
From Coq Require Import NArith List Bool Lia Arith.
From RQ Require Import Base.Outcome Base.Ints Base.ListX Spec.GF256 Spec.Rand Spec.Code
  Model.Octet Model.Tuple Model.CMatrix
  Proofs.OctetProofs Proofs.TupleProofs Proofs.CMatrixBase.
Import ListNotations.
Open Scope N_scope.
Open Scope outcome_scope.

(* ---- field facts ---- *)

Lemma sweep_xtime_ok :
  forall_lt 256 (fun g => (xtime g <? 256) && (mulN 2 g =? xtime g)) = true.
Proof. vm_compute. reflexivity. Qed.

Lemma xtime_facts g : g < 256 -> xtime g < 256 /\ mulN 2 g = xtime g.
Proof.
  intros Hg. pose proof sweep_xtime_ok as S0.
  pose proof (forall_lt_spec _ _ S0 g Hg) as F. cbv beta in F. clear S0.
  apply andb_true_iff in F. destruct F as [F1 F2]. apply N.ltb_lt in F1. apply N.eqb_eq in F2. auto.
Qed.

Lemma ppow2_lt e : ppow2 e < 256.
Proof. induction e as [|e IH]; cbn [ppow2]; [lia | apply xtime_facts; exact IH]. Qed.

Lemma alpha_pow_lt i : alpha_pow i < 256. Proof. apply ppow2_lt. Qed.

Lemma alpha_pow_succ e : alpha_pow (e + 1) = mulN 2 (alpha_pow e).
Proof.
  unfold alpha_pow. replace (N.to_nat (e + 1)) with (S (N.to_nat e)) by lia. cbn [ppow2].
  symmetry. apply xtime_facts. apply ppow2_lt.
Qed.

Lemma mulN_2_swap M g : M < 256 -> g < 256 -> mulN M (mulN 2 g) = mulN 2 (mulN M g).
Proof.
  intros HM Hg. assert (H2 : 2 < 256) by lia.
  rewrite <- mulN_assoc by assumption. rewrite (mulN_comm M 2). apply mulN_assoc; assumption.
Qed.

Lemma xsum_app l1 l2 : xsum (l1 ++ l2) = N.lxor (xsum l1) (xsum l2).
Proof.
  induction l1 as [|x t IH]; cbn [app xsum]; [rewrite N.lxor_0_l; reflexivity|].
  rewrite IH, N.lxor_assoc. reflexivity.
Qed.

Lemma xsum_lt l : Forall (fun x => x < 256) l -> xsum l < 256.
Proof.
  induction 1 as [|x t Hx Ht IH]; cbn [xsum]; [lia | apply lxor_lt_256; assumption].
Qed.

Lemma xsum_mul2 {A} (T : A -> N) l : (forall x, T x < 256) ->
  xsum (map (fun k => mulN 2 (T k)) l) = mulN 2 (xsum (map T l)).
Proof.
  intros HT. induction l as [|x t IH]; cbn [map xsum]; [reflexivity|].
  rewrite IH. symmetry. apply mulN_distr_r; [lia | apply HT|].
  apply xsum_lt. apply Forall_forall. intros y Hy. apply in_map_iff in Hy.
  destruct Hy as [z [<- _]]. apply HT.
Qed.

Lemma xsum_delta (f : N -> N) j : forall n, j < N.of_nat n ->
  xsum (map (fun k => if k =? j then f k else 0) (rangeN n)) = f j.
Proof.
  assert (Z : forall n, N.of_nat n <= j ->
              xsum (map (fun k => if k =? j then f k else 0) (rangeN n)) = 0).
  { induction n as [|n IH]; intros Hn; [reflexivity|].
    rewrite rangeN_S, map_app, xsum_app, IH by lia. cbn [map xsum].
    replace (N.of_nat n =? j) with false by (symmetry; apply N.eqb_neq; lia). reflexivity. }
  induction n as [|n IH]; intros Hn; [lia|].
  rewrite rangeN_S, map_app, xsum_app. cbn [map xsum]. rewrite N.lxor_0_r.
  destruct (N.eqb_spec (N.of_nat n) j) as [E|E].
  - rewrite Z by lia. rewrite E. apply N.lxor_0_l.
  - rewrite IH by lia. apply N.lxor_0_r.
Qed.

Lemma omapM_map {A B} (f : A -> outcome B) (g : A -> B) l :
  (forall x, In x l -> f x = Ok (g x)) -> omapM f l = Ok (map g l).
Proof.
  induction l as [|x t IH]; intros Hf; cbn [omapM map]; [reflexivity|].
  rewrite (Hf x) by (left; reflexivity). rewrite IH by (intros y Hy; apply Hf; right; exact Hy).
  reflexivity.
Qed.

Lemma nth_map_lt {A B} (f : A -> B) l i d d' : (i < length l)%nat ->
  nth i (map f l) d' = f (nth i l d).
Proof.
  intros Hi. rewrite (nth_indep _ d' (f d)) by (rewrite map_length; exact Hi). apply map_nth.
Qed.

Lemma nth_rangeN n i : (i < n)%nat -> nth i (rangeN n) 0 = N.of_nat i.
Proof.
  intros Hi. pose proof (nth_rangeN_map (fun x => x) n i 0 Hi) as E. rewrite map_id in E. exact E.
Qed.

(* ---- the algebraic heart: the recursion on the product ---- *)
Section Hdpc.
Variables (K' J S H W P1 : N).
Let p := mkCP K' J S H W P1.
Let n := K' + S.

Lemma MT_lt i k : MT p i k < 256.
Proof.
  unfold MT. cbv zeta. destruct (k + 1 <? cK p + cS p); [|apply alpha_pow_lt].
  destruct (_ || _); lia.
Qed.

Lemma GAMMA_lt k j : GAMMA k j < 256.
Proof. unfold GAMMA. destruct (j <=? k); [apply alpha_pow_lt | lia]. Qed.

Lemma term_lt i j k : pmul (MT p i k) (GAMMA k j) < 256.
Proof. rewrite <- mulN_is_pmul by (apply MT_lt || apply GAMMA_lt). apply mulN_lt; [apply MT_lt | apply GAMMA_lt]. Qed.

Lemma G_HDPC_lt i j : G_HDPC p i j < 256.
Proof.
  unfold G_HDPC. cbv zeta. apply xsum_lt. apply Forall_forall. intros y Hy.
  apply in_map_iff in Hy. destruct Hy as [k [<- _]]. apply term_lt.
Qed.

Lemma term_rec i j k :
  pmul (MT p i k) (GAMMA k j) =
  N.lxor (if k =? j then MT p i k else 0) (mulN 2 (pmul (MT p i k) (GAMMA k (j + 1)))).
Proof.
  pose proof (MT_lt i k) as HM. set (M := MT p i k) in *.
  rewrite <- !mulN_is_pmul by (assumption || apply GAMMA_lt).
  unfold GAMMA.
  destruct (N.lt_trichotomy k j) as [Hlt|[->|Hgt]].
  - replace (j <=? k) with false by (symmetry; apply N.leb_gt; lia).
    replace (j + 1 <=? k) with false by (symmetry; apply N.leb_gt; lia).
    replace (k =? j) with false by (symmetry; apply N.eqb_neq; lia).
    rewrite mulN_0_r. reflexivity.
  - rewrite N.leb_refl, N.eqb_refl.
    replace (j + 1 <=? j) with false by (symmetry; apply N.leb_gt; lia).
    rewrite N.sub_diag. change (alpha_pow 0) with 1. rewrite mulN_1_r by exact HM.
    rewrite mulN_0_r. change (mulN 2 0) with 0. rewrite N.lxor_0_r. reflexivity.
  - replace (j <=? k) with true by (symmetry; apply N.leb_le; lia).
    replace (j + 1 <=? k) with true by (symmetry; apply N.leb_le; lia).
    replace (k =? j) with false by (symmetry; apply N.eqb_neq; lia).
    rewrite N.lxor_0_l. replace (k - j) with (k - (j + 1) + 1) by lia.
    rewrite alpha_pow_succ. apply mulN_2_swap; [exact HM | apply alpha_pow_lt].
Qed.

(* G[i][j] = MT[i][j] + alpha * G[i][j+1] *)
Lemma G_HDPC_rec i j : j < n ->
  G_HDPC p i j = N.lxor (MT p i j) (mulN 2 (G_HDPC p i (j + 1))).
Proof.
  intros Hj. unfold G_HDPC. cbv zeta. cbn [cK cS p]. fold n.
  rewrite (map_ext _ _ (fun k => term_rec i j k)).
  rewrite (xsum_map_lxor (fun k => if k =? j then MT p i k else 0)
             (fun k => mulN 2 (pmul (MT p i k) (GAMMA k (j + 1))))).
  rewrite xsum_delta by lia.
  rewrite (xsum_mul2 (fun k => pmul (MT p i k) (GAMMA k (j + 1)))) by (intros k; apply term_lt).
  reflexivity.
Qed.

(* last column *)
Lemma G_HDPC_last i : 1 <= n -> G_HDPC p i (n - 1) = alpha_pow i.
Proof.
  intros Hn. unfold G_HDPC. cbv zeta. cbn [cK cS p]. fold n.
  rewrite (map_ext_in _ (fun k => if k =? n - 1 then alpha_pow i else 0)).
  - apply (xsum_delta (fun _ => alpha_pow i)). lia.
  - intros k Hk. apply rangeN_in in Hk. rewrite N2Nat.id in Hk. unfold GAMMA.
    destruct (N.eqb_spec k (n - 1)) as [->|Hne].
    + rewrite N.leb_refl, N.sub_diag. change (alpha_pow 0) with 1.
      unfold MT. cbv zeta. cbn [cK cS p]. fold n.
      replace (n - 1 + 1 <? n) with false by (symmetry; apply N.ltb_ge; lia).
      rewrite <- mulN_is_pmul by (try apply alpha_pow_lt; lia). apply mulN_1_r, alpha_pow_lt.
    + replace (n - 1 <=? k) with false by (symmetry; apply N.leb_gt; lia).
      rewrite <- mulN_is_pmul by (try apply MT_lt; lia). apply mulN_0_r.
Qed.

Lemma hdpc_entry_lt i j : hdpc_entry p i j < 256.
Proof.
  unfold hdpc_entry. cbv zeta. destruct (j <? cK p + cS p); [apply G_HDPC_lt|].
  unfold b2n. destruct (_ =? _); lia.
Qed.

(* ---- the model ---- *)
Hypothesis HH2 : 2 <= H.
Hypothesis HH256 : H <= 256.
Hypothesis Hn2 : 2 <= n.
Hypothesis HnL : n < 65536.

Let Hn := N.to_nat H.

Definition Gcol (j : N) : list N := map (fun i => G_HDPC p i j) (rangeN Hn).

Lemma Gcol_length j : length (Gcol j) = Hn.
Proof. unfold Gcol. rewrite map_length. apply rangeN_length. Qed.

Lemma Gcol_nth j i : (i < Hn)%nat -> nth i (Gcol j) 0 = G_HDPC p (N.of_nat i) j.
Proof. intros Hi. unfold Gcol. apply (nth_rangeN_map (fun i => G_HDPC p i j)). exact Hi. Qed.

Lemma i1_neq_i2 r6 r7 : r6 < H -> r7 < H - 1 -> (r6 + r7 + 1) mod H <> r6 /\ (r6 + r7 + 1) mod H < H.
Proof.
  intros H6 H7. rewrite (mod_lt2 (r6 + r7 + 1) H) by lia.
  destruct (N.ltb_spec (r6 + r7 + 1) H); lia.
Qed.

Lemma MT_inner i j : j + 1 < n ->
  MT p i j = if (i =? Rand (j + 1) 6 H) ||
                (i =? (Rand (j + 1) 6 H + Rand (j + 1) 7 (H - 1) + 1) mod H) then 1 else 0.
Proof.
  intros Hj. unfold MT. cbv zeta. cbn [cK cS cH p]. fold n.
  replace (j + 1 <? n) with true by (symmetry; apply N.ltb_lt; exact Hj). reflexivity.
Qed.

Lemma hdpc_step_ok m j : j + 1 < n -> hdpc_step m H j (Gcol (j + 1)) = Ok (Gcol j).
Proof.
  intros Hj. unfold hdpc_step.
  rewrite (oct_alpha_ok 1) by lia. cbn [obind]. change (ppow2 (N.to_nat 1)) with 2.
  rewrite (omapM_map (fun x => oct_mul 2 x) (mulN 2)).
  2:{ intros x Hx. apply oct_mul_ok; [lia|]. unfold Gcol in Hx. apply in_map_iff in Hx.
      destruct Hx as [i [<- _]]. apply G_HDPC_lt. }
  cbn [obind].
  assert (P32 : 65536 < 2 ^ 32) by reflexivity. assert (P24 : 7 < 2 ^ 24) by reflexivity.
  rewrite (rand_gen_ok true m (j + 1) 6 H) by (try lia; left; reflexivity). cbn [obind].
  assert (P64 : 256 < 2 ^ 64) by reflexivity.
  rewrite (sub_w_ok m 64 H 1) by lia. cbn [obind].
  rewrite (rand_gen_ok true m (j + 1) 7 (H - 1)) by (try lia; left; reflexivity). cbn [obind].
  rewrite rem_ok_nz' by lia. cbn [obind].
  pose proof (Rand_lt (j + 1) 6 H ltac:(lia)) as H6.
  pose proof (Rand_lt (j + 1) 7 (H - 1) ltac:(lia)) as H7.
  destruct (i1_neq_i2 _ _ H6 H7) as [Hne H2lt].
  pose proof (fun i => MT_inner i j Hj) as HMT.
  revert H6 H7 Hne H2lt HMT.
  generalize (Rand (j + 1) 6 H) ((Rand (j + 1) 6 H + Rand (j + 1) 7 (H - 1) + 1) mod H).
  intros i1 i2 H6 _ Hne H2lt HMT.
  set (col0 := map (mulN 2) (Gcol (j + 1))).
  assert (L0 : length col0 = Hn) by (unfold col0; rewrite map_length; apply Gcol_length).
  destruct (list_upd_ok (fun v => N.lxor v 1) col0 (N.to_nat i1)) as [col1 [E1 [L1 [N1 O1]]]];
    [unfold Hn in L0; lia|].
  rewrite E1. cbn [obind].
  destruct (list_upd_ok (fun v => N.lxor v 1) col1 (N.to_nat i2)) as [col2 [E2 [L2 [N2 O2]]]];
    [unfold Hn in L0; lia|].
  rewrite E2. f_equal.
  apply (nth_ext _ _ 0 0); [rewrite Gcol_length; congruence|].
  intros i Hi. assert (Hi' : (i < Hn)%nat) by congruence.
  rewrite Gcol_nth by exact Hi'.
  rewrite G_HDPC_rec by lia. rewrite HMT.
  assert (C0 : nth i col0 0 = mulN 2 (G_HDPC p (N.of_nat i) (j + 1))).
  { unfold col0. rewrite (nth_map_lt (mulN 2) _ i 0 0) by (rewrite Gcol_length; exact Hi').
    rewrite Gcol_nth by exact Hi'. reflexivity. }
  destruct (Nat.eq_dec i (N.to_nat i2)) as [Ei2|Ei2].
  - subst i. rewrite N2. rewrite O1 by lia. rewrite C0. rewrite N2Nat.id.
    replace (i2 =? i1) with false by (symmetry; apply N.eqb_neq; lia).
    rewrite N.eqb_refl. cbn [orb]. apply N.lxor_comm.
  - rewrite O2 by exact Ei2.
    replace (N.of_nat i =? i2) with false by (symmetry; apply N.eqb_neq; lia).
    rewrite orb_false_r.
    destruct (Nat.eq_dec i (N.to_nat i1)) as [Ei1|Ei1].
    + subst i. rewrite N1, C0, N2Nat.id, N.eqb_refl. apply N.lxor_comm.
    + rewrite O1 by exact Ei1. rewrite C0.
      replace (N.of_nat i =? i1) with false by (symmetry; apply N.eqb_neq; lia).
      rewrite N.lxor_0_l. reflexivity.
Qed.

Lemma hdpc_cols_ok m : forall k acc, N.of_nat k < n ->
  hdpc_cols m H k (N.of_nat k - 1) (Gcol (N.of_nat k)) acc = Ok (map Gcol (rangeN k) ++ acc).
Proof.
  induction k as [|k IH]; intros acc Hk; cbn [hdpc_cols]; [reflexivity|].
  replace (N.of_nat (Datatypes.S k) - 1) with (N.of_nat k) by lia.
  replace (N.of_nat (Datatypes.S k)) with (N.of_nat k + 1) by lia.
  rewrite hdpc_step_ok by lia. cbn [obind].
  rewrite IH by lia. rewrite rangeN_S, map_app, <- app_assoc. reflexivity.
Qed.

Lemma transpose_cols_nth : forall h cols i, (i < h)%nat ->
  nth i (transpose_cols h cols) [] = map (fun c => nth i c 0) cols.
Proof.
  induction h as [|h IH]; intros cols i Hi; [lia|]. cbn [transpose_cols].
  destruct i as [|i]; cbn [nth].
  - apply map_ext. intros [|x t]; reflexivity.
  - rewrite IH by lia. rewrite map_map. apply map_ext. intros [|x t]; [destruct i|]; reflexivity.
Qed.

Lemma transpose_cols_length : forall h cols, length (transpose_cols h cols) = h.
Proof. induction h as [|h IH]; intros cols; cbn [transpose_cols length]; [reflexivity | rewrite IH; reflexivity]. Qed.

Lemma generate_hdpc_rows_ok m :
  exists rows, generate_hdpc_rows m K' S H = Ok rows /\
    wfm Hn (N.to_nat (n + H)) rows /\
    forall i j, i < H -> j < n + H -> ent rows i j = hdpc_entry p i j.
Proof.
  unfold generate_hdpc_rows. cbv zeta. fold n. fold Hn.
  rewrite (omapM_map oct_alpha alpha_pow).
  2:{ intros x Hx. apply rangeN_in in Hx. unfold Hn in Hx. apply oct_alpha_ok. lia. }
  cbn [obind].
  replace (n <? 2) with false by (symmetry; apply N.ltb_ge; exact Hn2). cbn [obind].
  assert (Elast : map alpha_pow (rangeN Hn) = Gcol (n - 1)).
  { unfold Gcol. apply map_ext. intros i. symmetry. apply G_HDPC_last. lia. }
  rewrite Elast.
  pose proof (hdpc_cols_ok m (N.to_nat (n - 1)) [Gcol (n - 1)]) as Ec.
  rewrite N2Nat.id in Ec. replace (n - 1 - 1) with (n - 2) in Ec by lia.
  rewrite Ec by lia. cbn [obind]. clear Ec.
  set (cols := map Gcol (rangeN (N.to_nat (n - 1))) ++ [Gcol (n - 1)]).
  assert (Ecols : cols = map Gcol (rangeN (N.to_nat n))).
  { unfold cols. replace (N.to_nat n) with (Datatypes.S (N.to_nat (n - 1))) by lia.
    rewrite rangeN_S, map_app. cbn [map]. rewrite N2Nat.id. reflexivity. }
  set (f := fun '(i, row) => row ++ map (fun t : N => if t =? i then 1 else 0) (rangeN Hn)).
  eexists. split; [reflexivity|].
  assert (Lc : length (combine (rangeN Hn) (transpose_cols Hn cols)) = Hn).
  { rewrite combine_length, rangeN_length, transpose_cols_length. apply Nat.min_id. }
  assert (Row : forall i, (i < Hn)%nat ->
    nth i (map f (combine (rangeN Hn) (transpose_cols Hn cols))) [] =
    map (fun j => G_HDPC p (N.of_nat i) j) (rangeN (N.to_nat n)) ++
    map (fun t : N => if t =? N.of_nat i then 1 else 0) (rangeN Hn)).
  { intros i Hi. rewrite (nth_map_lt f _ i (0, []) []) by (rewrite Lc; exact Hi).
    rewrite combine_nth by (rewrite rangeN_length, transpose_cols_length; reflexivity).
    rewrite transpose_cols_nth by exact Hi.
    rewrite (nth_rangeN Hn i Hi).
    unfold f. f_equal. rewrite Ecols, map_map. apply map_ext. intros j. apply Gcol_nth. exact Hi. }
  split.
  - split; [rewrite map_length; exact Lc|].
    apply Forall_forall. intros r Hr. destruct (In_nth _ _ [] Hr) as [i [Hi <-]].
    rewrite map_length, Lc in Hi. rewrite Row by exact Hi.
    rewrite app_length, !map_length, !rangeN_length. unfold Hn. lia.
  - intros i j Hi Hj. unfold ent. rewrite Row by (unfold Hn; lia). rewrite N2Nat.id.
    unfold hdpc_entry. cbv zeta. cbn [cK cS p]. fold n.
    destruct (N.ltb_spec j n) as [Hjn|Hjn].
    + rewrite app_nth1 by (rewrite map_length, rangeN_length; lia).
      rewrite (nth_rangeN_map (fun j => G_HDPC p i j)) by lia. rewrite N2Nat.id. reflexivity.
    + rewrite app_nth2 by (rewrite map_length, rangeN_length; lia).
      rewrite map_length, rangeN_length.
      replace (N.to_nat j - N.to_nat n)%nat with (N.to_nat (j - n)) by lia.
      rewrite (nth_rangeN_map (fun t : N => if t =? i then 1 else 0)) by (unfold Hn; lia).
      rewrite N2Nat.id. reflexivity.
Qed.

End Hdpc.
