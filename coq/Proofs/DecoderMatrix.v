(* Structure of the constraint matrices built by Model/CMatrix.v, as far as the decoder proofs need
   it: the generators are "LDPC rows (a function of K) ++ [HDPC rows (a function of K)] ++ one row
   per ISI (a function of K and that ISI)", every row has L byte entries, and permuting the ISI
   list permutes the G_ENC rows. *)
From Coq Require Import NArith List Bool Arith Lia Permutation.
From RQ Require Import Base.Outcome Base.Ints Base.ListX Gen.OctetTables Spec.Linear
  Model.Octet Model.SysConst Model.Tuple Model.CMatrix Model.Layout Model.Decoder Model.DecoderSpec
  Proofs.LinearProofs Proofs.DecoderLists.
Import ListNotations.
Open Scope N_scope.

Arguments N.add : simpl never.
Arguments N.sub : simpl never.
Arguments N.mul : simpl never.
Arguments N.pow : simpl never.
Arguments N.div : simpl never.
Arguments N.modulo : simpl never.

Ltac bind_inv H :=
  repeat match type of H with
  | obind ?x _ = Ok _ =>
      let E := fresh "E" in destruct x eqn:E; cbn [obind] in H; [|discriminate H]
  end.

(* h rows of L bytes *)
Definition shaped (h L : nat) (mat : list (list N)) : Prop := length mat = h /\ wf_mat L mat.

Lemma wf_mat_app n A B : wf_mat n (A ++ B) <-> wf_mat n A /\ wf_mat n B.
Proof. unfold wf_mat. apply Forall_app. Qed.

Lemma wf_vec_repeat0 n : wf_vec (repeat 0 n).
Proof. apply Forall_forall. intros x Hx. apply repeat_spec in Hx. subst x. reflexivity. Qed.

Lemma zero_matrix_shaped h L : shaped h L (zero_matrix h L).
Proof.
  unfold shaped, zero_matrix. split; [apply repeat_length|].
  apply Forall_forall. intros r Hr. apply repeat_spec in Hr. subst r.
  split; [apply repeat_length | apply wf_vec_repeat0].
Qed.

Lemma zero_matrix_app a b L : zero_matrix (a + b) L = zero_matrix a L ++ zero_matrix b L.
Proof. unfold zero_matrix. apply repeat_app. Qed.

(* ---- mset ---- *)

Lemma mset_eq mat i j v :
  mset mat i j v =
  match nth_error mat (N.to_nat i) with
  | Some row => if (N.to_nat j <? length row)%nat
                then Ok (upd_nth (N.to_nat i) (upd_nth (N.to_nat j) v row) mat)
                else Panic PIndex
  | None => Panic PIndex
  end.
Proof.
  unfold mset, nth_ok. destruct (nth_error mat (N.to_nat i)) as [row|] eqn:E; [|reflexivity].
  cbn [obind]. destruct (N.to_nat j <? length row)%nat eqn:Ej.
  - apply Nat.ltb_lt in Ej. rewrite list_put_spec by exact Ej. cbn [obind].
    apply list_put_spec. apply nth_error_Some. rewrite E. discriminate.
  - apply Nat.ltb_ge in Ej. rewrite list_put_panic by exact Ej. reflexivity.
Qed.

Lemma mset_inv mat i j v mat' h L :
  mset mat i j v = Ok mat' -> v < 256 -> shaped h L mat -> shaped h L mat'.
Proof.
  rewrite mset_eq. destruct (nth_error mat (N.to_nat i)) as [row|] eqn:E; [|discriminate].
  destruct (N.to_nat j <? length row)%nat; [|discriminate]. intros H Hv [Hl Hw]. injection H as <-.
  destruct (wf_mat_nth_error _ _ _ _ Hw E) as [Hrl Hrw].
  split; [rewrite upd_nth_length; exact Hl|].
  apply Forall_upd_nth; [exact Hw|]. split; [rewrite upd_nth_length; exact Hrl|].
  apply Forall_upd_nth; assumption.
Qed.

Lemma mset_ok mat i j v h L :
  shaped h L mat -> (N.to_nat i < h)%nat -> (N.to_nat j < L)%nat -> v < 256 ->
  exists mat', mset mat i j v = Ok mat' /\ shaped h L mat'.
Proof.
  intros [Hl Hw] Hi Hj Hv. rewrite <- Hl in Hi.
  destruct (nth_error mat (N.to_nat i)) as [row|] eqn:E; [|apply nth_error_None in E; lia].
  destruct (wf_mat_nth_error _ _ _ _ Hw E) as [Hrl Hrw].
  assert (M : mset mat i j v = Ok (upd_nth (N.to_nat i) (upd_nth (N.to_nat j) v row) mat)).
  { rewrite mset_eq, E. rewrite <- Hrl in Hj. apply Nat.ltb_lt in Hj. rewrite Hj. reflexivity. }
  eexists. split; [exact M|]. eapply mset_inv; [exact M | exact Hv | split; assumption].
Qed.

(* a step function on matrices that only touches (and needs) the first len rows *)
Definition local (len : nat) (rest : list (list N)) (g : list (list N) -> outcome (list (list N))) : Prop :=
  forall mat, length mat = len ->
    g (mat ++ rest) = obind (g mat) (fun t => Ok (t ++ rest)) /\
    (forall t, g mat = Ok t -> length t = len).

Lemma local_mset len rest i j v : (N.to_nat i < len)%nat -> local len rest (fun mat => mset mat i j v).
Proof.
  intros Hi mat Hl. rewrite <- Hl in Hi. rewrite !mset_eq. rewrite nth_error_app1 by exact Hi.
  destruct (nth_error mat (N.to_nat i)) as [row|]; [|split; [reflexivity | discriminate]].
  destruct (N.to_nat j <? length row)%nat; [|split; [reflexivity | discriminate]].
  cbn [obind]. split.
  - rewrite upd_nth_app_l by exact Hi. reflexivity.
  - intros t H. injection H as <-. rewrite upd_nth_length. exact Hl.
Qed.

Lemma local_bind len rest g1 g2 :
  local len rest g1 -> local len rest g2 -> local len rest (fun mat => obind (g1 mat) g2).
Proof.
  intros L1 L2 mat Hl. destruct (L1 mat Hl) as [E1 Hlen1]. rewrite E1.
  destruct (g1 mat) as [t|c]; cbn [obind]; [|split; [reflexivity | discriminate]].
  apply L2. apply Hlen1. reflexivity.
Qed.

Lemma local_panic len rest c : local len rest (fun _ => Panic c).
Proof. intros mat Hl. split; [reflexivity | discriminate]. Qed.

Lemma local_ext len rest g1 g2 : (forall mat, g1 mat = g2 mat) -> local len rest g1 -> local len rest g2.
Proof. intros E L1 mat Hl. rewrite <- !E. destruct (L1 mat Hl) as [H1 H2]. split; [exact H1 | exact H2]. Qed.

(* ofor restricted to its index range *)
Lemma ofor_inv_range {St} (Q : St -> Prop) (f : N -> St -> outcome St) :
  forall n i s s',
  (forall k s s', i <= k < i + N.of_nat n -> Q s -> f k s = Ok s' -> Q s') ->
  Q s -> ofor n i f s = Ok s' -> Q s'.
Proof.
  induction n as [|n IH]; intros i s s' Hf HQ H; cbn [ofor] in H.
  - injection H as <-. exact HQ.
  - destruct (f i s) as [s1|c] eqn:E; [|discriminate]. cbn [obind] in H.
    apply (IH (i + 1) s1 s'); [| |exact H].
    + intros k s0 s0' Hk. apply Hf. lia.
    + apply (Hf i s s1); [lia | exact HQ | exact E].
Qed.

Lemma local_ofor len rest (f : N -> list (list N) -> outcome (list (list N))) n i :
  (forall k, i <= k < i + N.of_nat n -> local len rest (f k)) ->
  local len rest (fun mat => ofor n i f mat).
Proof.
  intros Hf mat Hl. split.
  - apply (ofor_app_l f rest len); [|exact Hl]. intros k mat0 Hk Hl0. apply (Hf k Hk mat0 Hl0).
  - intros t H. revert H. apply (ofor_inv_range (fun s => length s = len) f); [|exact Hl].
    intros k s s' Hk Hs E. apply (proj2 (Hf k Hk s Hs)). exact E.
Qed.

(* ---- set_ldpc ---- *)

Lemma rem_ok_eq a b : b <> 0 -> rem_ok a b = Ok (a mod b).
Proof. intros H. unfold rem_ok. apply N.eqb_neq in H. rewrite H. reflexivity. Qed.

Lemma div_ok_eq a b : b <> 0 -> div_ok a b = Ok (a / b).
Proof. intros H. unfold div_ok. apply N.eqb_neq in H. rewrite H. reflexivity. Qed.

Lemma set_ldpc_local S B W P rest :
  local (N.to_nat S) rest (fun mat => set_ldpc S B W P mat).
Proof.
  unfold set_ldpc. apply local_bind; [|apply local_bind].
  - apply local_ofor. intros k Hk. destruct (N.eq_dec S 0) as [->|HS].
    + eapply local_ext; [|apply (local_panic _ _ PDivZero)]. intros mat. reflexivity.
    + assert (Hm : forall x, (N.to_nat (x mod S) < N.to_nat S)%nat)
        by (intros x; pose proof (N.mod_lt x S HS); lia).
      eapply local_ext.
      2:{ apply (local_bind _ _ (fun mat => mset mat (k mod S) k 1)); [apply local_mset, Hm|].
          apply (local_bind _ _ (fun mat => mset mat ((k mod S + (1 + k / S)) mod S) k 1)); [apply local_mset, Hm|].
          apply (local_mset _ _ (((k mod S + (1 + k / S)) mod S + (1 + k / S)) mod S) k 1). apply Hm. }
      intros mat. cbv beta. rewrite div_ok_eq by exact HS. cbn [obind]. rewrite ?rem_ok_eq by exact HS.
      cbn [obind]. destruct (mset mat (k mod S) k 1) as [m1|c]; cbn [obind]; [|reflexivity].
      rewrite ?rem_ok_eq by exact HS. cbn [obind].
      destruct (mset m1 ((k mod S + (1 + k / S)) mod S) k 1) as [m2|c]; cbn [obind]; [|reflexivity].
      rewrite ?rem_ok_eq by exact HS. reflexivity.
  - apply local_ofor. intros k Hk. apply local_mset. lia.
  - apply local_ofor. intros k Hk. destruct (N.eq_dec P 0) as [->|HP].
    + eapply local_ext; [|apply (local_panic _ _ PDivZero)]. intros mat. reflexivity.
    + eapply local_ext.
      2:{ apply (local_bind _ _ (fun mat => mset mat k (k mod P + W) 1)); [apply local_mset; lia|].
          apply (local_mset _ _ k ((k + 1) mod P + W) 1). lia. }
      intros mat. cbv beta. rewrite ?rem_ok_eq by exact HP. cbn [obind].
      destruct (mset mat k (k mod P + W) 1) as [m1|c]; cbn [obind]; [|reflexivity].
      rewrite ?rem_ok_eq by exact HP. reflexivity.
Qed.

Lemma set_ldpc_inv S B W P mat mat' h L :
  set_ldpc S B W P mat = Ok mat' -> shaped h L mat -> shaped h L mat'.
Proof.
  assert (One : (1 : N) < 256) by reflexivity.
  unfold set_ldpc. intros H Hs.
  destruct (ofor (N.to_nat B) 0 _ mat) as [m1|] eqn:E1; [|discriminate]. cbn [obind] in H.
  destruct (ofor (N.to_nat S) 0 _ m1) as [m2|] eqn:E2; [|discriminate]. cbn [obind] in H.
  assert (S1 : shaped h L m1).
  { revert E1. apply (ofor_inv (shaped h L)); [|exact Hs]. intros i s s' Q F. bind_inv F.
    eapply mset_inv; [exact F | exact One|]. eapply mset_inv; [eassumption | exact One|].
    eapply mset_inv; [eassumption | exact One | exact Q]. }
  assert (S2 : shaped h L m2).
  { revert E2. apply (ofor_inv (shaped h L)); [|exact S1]. intros i s s' Q F.
    eapply mset_inv; [exact F | exact One | exact Q]. }
  revert H. apply (ofor_inv (shaped h L)); [|exact S2]. intros i s s' Q F. bind_inv F.
  eapply mset_inv; [exact F | exact One|]. eapply mset_inv; [eassumption | exact One | exact Q].
Qed.

Lemma set_ldpc_ok S B W P mat L :
  0 < S -> 0 < P -> B + S <= N.of_nat L -> W + P <= N.of_nat L -> shaped (N.to_nat S) L mat ->
  exists mat', set_ldpc S B W P mat = Ok mat' /\ shaped (N.to_nat S) L mat'.
Proof.
  intros HS HP HB HW Hs. assert (One : (1 : N) < 256) by reflexivity.
  assert (HS0 : S <> 0) by lia. assert (HP0 : P <> 0) by lia.
  unfold set_ldpc.
  destruct (ofor_ok (shaped (N.to_nat S) L)
    (fun i mat => obind (obind (div_ok i S) (fun d => Ok (1 + d))) (fun a =>
       obind (rem_ok i S) (fun b => obind (mset mat b i 1) (fun mat =>
       obind (rem_ok (b + a) S) (fun b => obind (mset mat b i 1) (fun mat =>
       obind (rem_ok (b + a) S) (fun b => mset mat b i 1)))))))
    (N.to_nat B) 0 mat) as [m1 [E1 Q1]]; [|exact Hs|].
  { intros k s Hk Q. rewrite div_ok_eq by exact HS0. cbn [obind]. rewrite ?rem_ok_eq by exact HS0. cbn [obind].
    assert (Hm : forall x, (N.to_nat (x mod S) < N.to_nat S)%nat)
      by (intros x; pose proof (N.mod_lt x S HS0); lia).
    destruct (mset_ok s (k mod S) k 1 _ _ Q (Hm _) ltac:(lia) One) as [s1 [F1 R1]]. rewrite F1. cbn [obind].
    rewrite ?rem_ok_eq by exact HS0. cbn [obind].
    destruct (mset_ok s1 ((k mod S + (1 + k / S)) mod S) k 1 _ _ R1 (Hm _) ltac:(lia) One) as [s2 [F2 R2]].
    rewrite F2. cbn [obind]. rewrite ?rem_ok_eq by exact HS0. cbn [obind].
    apply mset_ok; [exact R2 | apply Hm | lia | exact One]. }
  rewrite E1. cbn [obind].
  destruct (ofor_ok (shaped (N.to_nat S) L) (fun i mat => mset mat i (i + B) 1) (N.to_nat S) 0 m1)
    as [m2 [E2 Q2]]; [|exact Q1|].
  { intros k s Hk Q. apply mset_ok; [exact Q | lia | lia | exact One]. }
  rewrite E2. cbn [obind].
  apply (ofor_ok (shaped (N.to_nat S) L)); [|exact Q2].
  intros k s Hk Q. rewrite ?rem_ok_eq by exact HP0. cbn [obind].
  pose proof (N.mod_lt k P HP0). pose proof (N.mod_lt (k + 1) P HP0).
  destruct (mset_ok s k (k mod P + W) 1 _ _ Q ltac:(lia) ltac:(lia) One) as [s1 [F1 R1]]. rewrite F1. cbn [obind].
  rewrite ?rem_ok_eq by exact HP0. cbn [obind].
  apply mset_ok; [exact R1 | lia | lia | exact One].
Qed.

(* ---- set_enc ---- *)

Lemma ofold_inv {A St} (Q : St -> Prop) (f : A -> St -> outcome St) l :
  (forall a s s', In a l -> Q s -> f a s = Ok s' -> Q s') ->
  forall s s', Q s -> ofold f l s = Ok s' -> Q s'.
Proof.
  induction l as [|a t IH]; intros Hf s s' HQ H; cbn [ofold] in H.
  - injection H as <-. exact HQ.
  - destruct (f a s) as [s1|c] eqn:E; [|discriminate]. cbn [obind] in H.
    apply (IH (fun a0 s0 s0' Hin => Hf a0 s0 s0' (or_intror Hin)) s1 s'); [|exact H].
    apply (Hf a s s1); [left; reflexivity | exact HQ | exact E].
Qed.

Lemma ofold_mset_row r idx : forall pre row post, N.to_nat r = length pre ->
  ofold (fun j mat => mset mat r j 1) idx (pre ++ row :: post) =
  obind (ofold (fun j row => list_put row (N.to_nat j) 1) idx row) (fun row' => Ok (pre ++ row' :: post)).
Proof.
  induction idx as [|j idx IH]; intros pre row post Hr; cbn [ofold obind]; [reflexivity|].
  rewrite mset_eq, Hr, nth_error_app_mid.
  destruct (N.to_nat j <? length row)%nat eqn:Ej.
  - apply Nat.ltb_lt in Ej. rewrite list_put_spec by exact Ej. cbn [obind].
    rewrite upd_nth_app_mid. apply IH. exact Hr.
  - apply Nat.ltb_ge in Ej. rewrite list_put_panic by exact Ej. reflexivity.
Qed.

Lemma set_enc_fold m first W P P1 J L pre : N.to_nat first = length pre -> forall isis done,
  ofold (fun isi (st : N * list (list N)) =>
           let '(row, mat) := st in
           obind (intermediate_tuple_gen true m isi W J P1) (fun t =>
           obind (enc_indices m t W P P1) (fun idx =>
           obind (ofold (fun j mat => mset mat (row + first) j 1) idx mat) (fun mat =>
           Ok (row + 1, mat)))))
        isis (lenN done, pre ++ done ++ zero_matrix (length isis) L) =
  obind (omapM (enc_row m W P P1 J L) isis)
        (fun rows => Ok (lenN done + lenN isis, pre ++ done ++ rows)).
Proof.
  intros Hf. induction isis as [|isi t IH]; intros done.
  - cbn [ofold omapM obind length zero_matrix repeat]. unfold lenN. cbn [length]. f_equal. f_equal. lia.
  - cbn [ofold omapM length]. unfold enc_row at 1.
    destruct (intermediate_tuple_gen true m isi W J P1) as [tp|c]; cbn [obind]; [|reflexivity].
    destruct (enc_indices m tp W P P1) as [idx|c]; cbn [obind]; [|reflexivity].
    change (zero_matrix (S (length t)) L) with (repeat 0 L :: zero_matrix (length t) L).
    replace (pre ++ done ++ repeat 0 L :: zero_matrix (length t) L)
      with ((pre ++ done) ++ repeat 0 L :: zero_matrix (length t) L) by (rewrite <- app_assoc; reflexivity).
    rewrite ofold_mset_row by (unfold lenN; rewrite app_length; lia).
    destruct (ofold (fun j row => list_put row (N.to_nat j) 1) idx (repeat 0 L)) as [row'|c]; cbn [obind]; [|reflexivity].
    replace ((pre ++ done) ++ row' :: zero_matrix (length t) L)
      with (pre ++ (done ++ [row']) ++ zero_matrix (length t) L) by (rewrite <- !app_assoc; reflexivity).
    replace (lenN done + 1) with (lenN (done ++ [row'])) by (unfold lenN; rewrite app_length; cbn [length]; lia).
    rewrite IH. destruct (omapM (enc_row m W P P1 J L) t) as [rows|c]; cbn [obind]; [|reflexivity].
    f_equal. f_equal; [unfold lenN; rewrite app_length; cbn [length]; lia|].
    rewrite <- !app_assoc. reflexivity.
Qed.

Lemma set_enc_eq m first W P P1 J L isis pre : N.to_nat first = length pre ->
  set_enc m first W P P1 J isis (pre ++ zero_matrix (length isis) L) =
  obind (omapM (enc_row m W P P1 J L) isis) (fun rows => Ok (pre ++ rows)).
Proof.
  intros Hf. unfold set_enc.
  pose proof (set_enc_fold m first W P P1 J L pre Hf isis []) as F. cbn [app] in F.
  change (lenN []) with 0 in F. rewrite F.
  destruct (omapM (enc_row m W P P1 J L) isis); reflexivity.
Qed.

Lemma enc_row_wf m W P P1 J L isi row :
  enc_row m W P P1 J L isi = Ok row -> length row = L /\ wf_vec row.
Proof.
  unfold enc_row. intros H. bind_inv H.
  revert H. apply (ofold_inv (fun r => length r = L /\ wf_vec r)).
  - intros j s s' _ [Hl Hw] F. apply list_put_inv in F. destruct F as [_ ->].
    split; [rewrite upd_nth_length; exact Hl | apply Forall_upd_nth; [exact Hw | reflexivity]].
  - split; [apply repeat_length | apply wf_vec_repeat0].
Qed.

Lemma enc_rows_wf m W P P1 J L isis rows :
  omapM (enc_row m W P P1 J L) isis = Ok rows -> length rows = length isis /\ wf_mat L rows.
Proof.
  intros H. split; [eapply omapM_length; exact H|].
  eapply omapM_Forall_out; [exact H|]. intros a b _ E. eapply enc_row_wf. exact E.
Qed.

(* ---- sys_params ---- *)

Lemma sys_params_L K sp : sys_params K = Ok sp -> spL sp = spK sp + spS sp + spH sp.
Proof.
  unfold sys_params. intros H.
  destruct (extended_source_block_symbols K) as [Kp|] eqn:E1; [|discriminate]. cbn [obind] in H.
  destruct (num_ldpc_symbols K) as [S|] eqn:E2; [|discriminate]. cbn [obind] in H.
  destruct (num_hdpc_symbols K) as [Hh|] eqn:E3; [|discriminate]. cbn [obind] in H.
  destruct (num_lt_symbols K) as [W|] eqn:E4; [|discriminate]. cbn [obind] in H.
  destruct (num_pi_symbols K) as [P|] eqn:E5; [|discriminate]. cbn [obind] in H.
  unfold num_intermediate_symbols in H. rewrite E1, E2, E3 in H. cbn [obind] in H.
  bind_inv H. injection H as <-. reflexivity.
Qed.

(* ---- the two generators as "rows of K ++ rows of the ISIs" ---- *)

Lemma gcm_no_hdpc_eq m K isis :
  generate_constraint_matrix_no_hdpc m K isis =
  obind (sys_params K) (fun sp =>
  obind (assert_ok (spL sp <=? spS sp + lenN isis)) (fun _ =>
  obind (ldpc_rows (spS sp) (spW sp) (spP sp) (N.to_nat (spL sp))) (fun top =>
  obind (num_lt_symbols (spK sp)) (fun W' =>
  obind (num_pi_symbols (spK sp)) (fun P' =>
  obind (omapM (enc_row m W' P' (spP1 sp) (spJ sp) (N.to_nat (spL sp))) isis) (fun rows =>
  Ok (top ++ rows))))))).
Proof.
  unfold generate_constraint_matrix_no_hdpc. destruct (sys_params K) as [sp|c]; cbn [obind]; [|reflexivity].
  fold (lenN isis). destruct (assert_ok (spL sp <=? spS sp + lenN isis)); cbn [obind]; [|reflexivity].
  rewrite zero_matrix_app.
  destruct (set_ldpc_local (spS sp) (spW sp - spS sp) (spW sp) (spP sp)
              (zero_matrix (length isis) (N.to_nat (spL sp)))
              (zero_matrix (N.to_nat (spS sp)) (N.to_nat (spL sp)))) as [E Hlen].
  { apply zero_matrix_shaped. }
  rewrite E. unfold ldpc_rows.
  destruct (set_ldpc (spS sp) (spW sp - spS sp) (spW sp) (spP sp)
              (zero_matrix (N.to_nat (spS sp)) (N.to_nat (spL sp)))) as [top|c] eqn:Et; cbn [obind]; [|reflexivity].
  destruct (num_lt_symbols (spK sp)) as [W'|c]; cbn [obind]; [|reflexivity].
  destruct (num_pi_symbols (spK sp)) as [P'|c]; cbn [obind]; [|reflexivity].
  apply set_enc_eq. symmetry. apply Hlen. reflexivity.
Qed.

Lemma gcm_eq m K isis :
  generate_constraint_matrix m K isis =
  obind (sys_params K) (fun sp =>
  obind (assert_ok (spL sp <=? spS sp + spH sp + lenN isis)) (fun _ =>
  obind (ldpc_rows (spS sp) (spW sp) (spP sp) (N.to_nat (spL sp))) (fun top =>
  obind (num_lt_symbols (spK sp)) (fun W' =>
  obind (num_pi_symbols (spK sp)) (fun P' =>
  obind (omapM (enc_row m W' P' (spP1 sp) (spJ sp) (N.to_nat (spL sp))) isis) (fun rows =>
  obind (generate_hdpc_rows m (spK sp) (spS sp) (spH sp)) (fun hd =>
  Ok (top ++ zero_matrix (N.to_nat (spH sp)) (N.to_nat (spL sp)) ++ rows, hd)))))))).
Proof.
  unfold generate_constraint_matrix. destruct (sys_params K) as [sp|c]; cbn [obind]; [|reflexivity].
  fold (lenN isis). destruct (assert_ok (spL sp <=? spS sp + spH sp + lenN isis)); cbn [obind]; [|reflexivity].
  replace (N.to_nat (spS sp + spH sp)) with (N.to_nat (spS sp) + N.to_nat (spH sp))%nat by lia.
  rewrite <- Nat.add_assoc, !zero_matrix_app.
  destruct (set_ldpc_local (spS sp) (spW sp - spS sp) (spW sp) (spP sp)
              (zero_matrix (N.to_nat (spH sp)) (N.to_nat (spL sp)) ++ zero_matrix (length isis) (N.to_nat (spL sp)))
              (zero_matrix (N.to_nat (spS sp)) (N.to_nat (spL sp)))) as [E Hlen].
  { apply zero_matrix_shaped. }
  rewrite E. unfold ldpc_rows.
  destruct (set_ldpc (spS sp) (spW sp - spS sp) (spW sp) (spP sp)
              (zero_matrix (N.to_nat (spS sp)) (N.to_nat (spL sp)))) as [top|c] eqn:Et; cbn [obind]; [|reflexivity].
  destruct (num_lt_symbols (spK sp)) as [W'|c]; cbn [obind]; [|reflexivity].
  destruct (num_pi_symbols (spK sp)) as [P'|c]; cbn [obind]; [|reflexivity].
  rewrite app_assoc. rewrite set_enc_eq.
  - destruct (omapM (enc_row m W' P' (spP1 sp) (spJ sp) (N.to_nat (spL sp))) isis) as [rows|c]; cbn [obind]; [|reflexivity].
    rewrite <- app_assoc. reflexivity.
  - rewrite app_length, (Hlen top eq_refl). unfold zero_matrix. rewrite repeat_length. lia.
Qed.

Lemma full_matrix_eq S H top zs rows hd :
  length top = N.to_nat S -> length zs = N.to_nat H ->
  full_matrix S H (top ++ zs ++ rows) hd = top ++ hd ++ rows.
Proof.
  intros Ht Hz. unfold full_matrix. f_equal.
  - rewrite <- Ht. rewrite firstn_app, Nat.sub_diag, firstn_all. cbn [firstn]. apply app_nil_r.
  - f_equal. rewrite app_assoc. replace (N.to_nat (S + H)) with (length (top ++ zs)) by (rewrite app_length; lia).
    rewrite skipn_app, Nat.sub_diag, skipn_all. reflexivity.
Qed.

Lemma ldpc_rows_shaped S W P L top : ldpc_rows S W P L = Ok top -> shaped (N.to_nat S) L top.
Proof. unfold ldpc_rows. intros H. eapply set_ldpc_inv; [exact H | apply zero_matrix_shaped]. Qed.

(* ---- the HDPC rows: shape ---- *)

Lemma exp_table_bytes : forallb (fun x => x <? 256) OCT_EXP = true.
Proof. vm_compute. reflexivity. Qed.

Lemma exp_at_byte i v : exp_at i = Ok v -> v < 256.
Proof.
  unfold exp_at. intros H. apply nth_ok_inv in H. apply nth_error_In in H.
  pose proof exp_table_bytes as B. rewrite forallb_forall in B. apply N.ltb_lt. apply B. exact H.
Qed.

Lemma oct_mul_byte a b v : oct_mul a b = Ok v -> v < 256.
Proof.
  unfold oct_mul. destruct ((a =? 0) || (b =? 0)); intros H; [injection H as <-; reflexivity|].
  bind_inv H. eapply exp_at_byte. exact H.
Qed.

Lemma oct_alpha_byte i v : oct_alpha i = Ok v -> v < 256.
Proof. unfold oct_alpha. destruct (i <? 256); [apply exp_at_byte | discriminate]. Qed.

Definition colok (H : nat) (c : list N) : Prop := length c = H /\ wf_vec c.

Lemma list_upd_colok H col i col' :
  list_upd col i (fun v => N.lxor v 1) = Ok col' -> colok H col -> colok H col'.
Proof.
  intros E [Hl Hw]. apply list_upd_inv in E. destruct E as [x [Hx ->]].
  split; [rewrite upd_nth_length; exact Hl|]. apply Forall_upd_nth; [exact Hw|].
  apply lxor_byte; [|reflexivity]. unfold wf_vec in Hw. rewrite Forall_forall in Hw.
  apply Hw. eapply nth_error_In. exact Hx.
Qed.

Lemma hdpc_step_colok m H j next col :
  hdpc_step m H j next = Ok col -> colok (length next) col.
Proof.
  unfold hdpc_step. intros E. bind_inv E.
  eapply list_upd_colok; [exact E|]. eapply list_upd_colok; [eassumption|].
  split; [eapply omapM_length; eassumption|].
  eapply omapM_Forall_out; [eassumption|]. intros ? ? _ Hm. eapply oct_mul_byte. exact Hm.
Qed.

Lemma hdpc_cols_ok m H h : forall n j next acc cols,
  hdpc_cols m H n j next acc = Ok cols -> length next = h -> Forall (colok h) acc ->
  Forall (colok h) cols /\ length cols = (n + length acc)%nat.
Proof.
  induction n as [|n IH]; intros j next acc cols E Hn Hacc; cbn [hdpc_cols] in E.
  - injection E as <-. split; [exact Hacc | reflexivity].
  - destruct (hdpc_step m H j next) as [col|c] eqn:Es; [|discriminate]. cbn [obind] in E.
    pose proof (hdpc_step_colok _ _ _ _ _ Es) as Hc. rewrite Hn in Hc.
    destruct (IH _ _ _ _ E (proj1 Hc) (Forall_cons _ Hc Hacc)) as [H1 H2].
    split; [exact H1|]. rewrite H2. cbn [length]. lia.
Qed.

Lemma transpose_cols_shape h : forall cols, Forall wf_vec cols ->
  shaped h (length cols) (transpose_cols h cols).
Proof.
  induction h as [|h IH]; intros cols Hc; cbn [transpose_cols].
  - split; [reflexivity | constructor].
  - destruct (IH (map (fun c => tl c) cols)) as [H1 H2].
    { apply Forall_forall. intros c Hin. apply in_map_iff in Hin. destruct Hin as [c0 [<- Hin0]].
      apply wf_vec_tl. rewrite Forall_forall in Hc. apply Hc. exact Hin0. }
    rewrite map_length in H2. split; [cbn [length]; rewrite H1; reflexivity|].
    constructor; [|exact H2]. split; [apply map_length|].
    apply Forall_forall. intros x Hin. apply in_map_iff in Hin. destruct Hin as [c [<- Hin0]].
    rewrite Forall_forall in Hc. specialize (Hc c Hin0). destruct c as [|y t]; [reflexivity|].
    inversion Hc; assumption.
Qed.

Lemma hdpc_shaped m Kp S H hd :
  generate_hdpc_rows m Kp S H = Ok hd -> shaped (N.to_nat H) (N.to_nat (Kp + S + H)) hd.
Proof.
  unfold generate_hdpc_rows. cbv zeta. intros E.
  destruct (omapM oct_alpha (rangeN (N.to_nat H))) as [last|c] eqn:El; [|discriminate]. cbn [obind] in E.
  destruct (Kp + S <? 2) eqn:En; [discriminate|]. cbn [obind] in E. apply N.ltb_ge in En.
  destruct (hdpc_cols m H (N.to_nat (Kp + S - 1)) (Kp + S - 2) last [last]) as [cols|c] eqn:Ec; [|discriminate].
  cbn [obind] in E. injection E as <-.
  assert (Hlast : colok (N.to_nat H) last).
  { split; [rewrite (omapM_length _ _ _ El); unfold rangeN; rewrite map_length, seq_length; reflexivity|].
    eapply omapM_Forall_out; [exact El|]. intros a b _ Hb. eapply oct_alpha_byte. exact Hb. }
  destruct (hdpc_cols_ok m H (N.to_nat H) _ _ _ _ _ Ec (proj1 Hlast) (Forall_cons _ Hlast (Forall_nil _))) as [Hc Hlen].
  cbn [length] in Hlen.
  destruct (transpose_cols_shape (N.to_nat H) cols) as [T1 T2].
  { eapply Forall_impl; [|exact Hc]. intros c [_ Hw]. exact Hw. }
  assert (Hr : length (rangeN (N.to_nat H)) = N.to_nat H) by (unfold rangeN; rewrite map_length, seq_length; reflexivity).
  split.
  - rewrite map_length, combine_length, Hr, T1. apply Nat.min_id.
  - apply Forall_forall. intros r Hin. apply in_map_iff in Hin. destruct Hin as [[i row] [<- Hin]].
    apply in_combine_r in Hin. unfold wf_mat in T2. rewrite Forall_forall in T2. destruct (T2 row Hin) as [Rl Rw].
    split.
    + rewrite app_length, map_length, Hr, Rl, Hlen. lia.
    + apply Forall_app. split; [exact Rw|]. apply Forall_forall. intros x Hx. apply in_map_iff in Hx.
      destruct Hx as [t [<- _]]. destruct (t =? i); reflexivity.
Qed.

(* ---- what a successful generator run consists of ---- *)

Lemma gcm_parts m K isis bin hd : generate_constraint_matrix m K isis = Ok (bin, hd) ->
  exists sp top W' P' rows,
    sys_params K = Ok sp /\ spL sp <= spS sp + spH sp + lenN isis /\
    ldpc_rows (spS sp) (spW sp) (spP sp) (N.to_nat (spL sp)) = Ok top /\
    num_lt_symbols (spK sp) = Ok W' /\ num_pi_symbols (spK sp) = Ok P' /\
    omapM (enc_row m W' P' (spP1 sp) (spJ sp) (N.to_nat (spL sp))) isis = Ok rows /\
    generate_hdpc_rows m (spK sp) (spS sp) (spH sp) = Ok hd /\
    bin = top ++ zero_matrix (N.to_nat (spH sp)) (N.to_nat (spL sp)) ++ rows /\
    full_matrix (spS sp) (spH sp) bin hd = top ++ hd ++ rows /\
    shaped (N.to_nat (spS sp)) (N.to_nat (spL sp)) top /\
    shaped (N.to_nat (spH sp)) (N.to_nat (spL sp)) hd /\
    length rows = length isis /\ wf_mat (N.to_nat (spL sp)) rows.
Proof.
  rewrite gcm_eq. intros E.
  destruct (sys_params K) as [sp|] eqn:Esp; [|discriminate]. cbn [obind] in E.
  destruct (spL sp <=? spS sp + spH sp + lenN isis) eqn:Ea; [|discriminate]. cbn [assert_ok obind] in E.
  destruct (ldpc_rows (spS sp) (spW sp) (spP sp) (N.to_nat (spL sp))) as [top|] eqn:Et; [|discriminate]. cbn [obind] in E.
  destruct (num_lt_symbols (spK sp)) as [W'|] eqn:EW; [|discriminate]. cbn [obind] in E.
  destruct (num_pi_symbols (spK sp)) as [P'|] eqn:EP; [|discriminate]. cbn [obind] in E.
  destruct (omapM (enc_row m W' P' (spP1 sp) (spJ sp) (N.to_nat (spL sp))) isis) as [rows|] eqn:Er; [|discriminate]. cbn [obind] in E.
  destruct (generate_hdpc_rows m (spK sp) (spS sp) (spH sp)) as [hd'|] eqn:Eh; [|discriminate]. cbn [obind] in E.
  injection E as <- <-.
  pose proof (ldpc_rows_shaped _ _ _ _ _ Et) as St.
  pose proof (hdpc_shaped _ _ _ _ _ Eh) as Sh. rewrite <- (sys_params_L K sp Esp) in Sh.
  destruct (enc_rows_wf _ _ _ _ _ _ _ _ Er) as [Rl Rw].
  exists sp, top, W', P', rows. apply N.leb_le in Ea.
  repeat (split; [first [reflexivity | assumption]|]).
  split; [|split; [exact St | split; [exact Sh | split; assumption]]].
  apply full_matrix_eq; [exact (proj1 St) | apply (proj1 (zero_matrix_shaped _ _))].
Qed.

Lemma gcm_build m K isis sp top W' P' rows hd :
  sys_params K = Ok sp -> spL sp <= spS sp + spH sp + lenN isis ->
  ldpc_rows (spS sp) (spW sp) (spP sp) (N.to_nat (spL sp)) = Ok top ->
  num_lt_symbols (spK sp) = Ok W' -> num_pi_symbols (spK sp) = Ok P' ->
  omapM (enc_row m W' P' (spP1 sp) (spJ sp) (N.to_nat (spL sp))) isis = Ok rows ->
  generate_hdpc_rows m (spK sp) (spS sp) (spH sp) = Ok hd ->
  generate_constraint_matrix m K isis =
    Ok (top ++ zero_matrix (N.to_nat (spH sp)) (N.to_nat (spL sp)) ++ rows, hd).
Proof.
  intros Esp Ea Et EW EP Er Eh. rewrite gcm_eq, Esp. cbn [obind].
  apply N.leb_le in Ea. rewrite Ea. cbn [assert_ok obind]. rewrite Et. cbn [obind].
  rewrite EW. cbn [obind]. rewrite EP. cbn [obind]. rewrite Er. cbn [obind]. rewrite Eh. reflexivity.
Qed.

Lemma gcm_no_hdpc_build m K isis sp top W' P' rows :
  sys_params K = Ok sp -> spL sp <= spS sp + lenN isis ->
  ldpc_rows (spS sp) (spW sp) (spP sp) (N.to_nat (spL sp)) = Ok top ->
  num_lt_symbols (spK sp) = Ok W' -> num_pi_symbols (spK sp) = Ok P' ->
  omapM (enc_row m W' P' (spP1 sp) (spJ sp) (N.to_nat (spL sp))) isis = Ok rows ->
  generate_constraint_matrix_no_hdpc m K isis = Ok (top ++ rows).
Proof.
  intros Esp Ea Et EW EP Er. rewrite gcm_no_hdpc_eq, Esp. cbn [obind].
  apply N.leb_le in Ea. rewrite Ea. cbn [assert_ok obind]. rewrite Et. cbn [obind].
  rewrite EW. cbn [obind]. rewrite EP. cbn [obind]. rewrite Er. reflexivity.
Qed.

Lemma gcm_no_hdpc_parts m K isis A : generate_constraint_matrix_no_hdpc m K isis = Ok A ->
  exists sp top W' P' rows,
    sys_params K = Ok sp /\ spL sp <= spS sp + lenN isis /\
    ldpc_rows (spS sp) (spW sp) (spP sp) (N.to_nat (spL sp)) = Ok top /\
    num_lt_symbols (spK sp) = Ok W' /\ num_pi_symbols (spK sp) = Ok P' /\
    omapM (enc_row m W' P' (spP1 sp) (spJ sp) (N.to_nat (spL sp))) isis = Ok rows /\
    A = top ++ rows /\
    shaped (N.to_nat (spS sp)) (N.to_nat (spL sp)) top /\
    length rows = length isis /\ wf_mat (N.to_nat (spL sp)) rows.
Proof.
  rewrite gcm_no_hdpc_eq. intros E.
  destruct (sys_params K) as [sp|] eqn:Esp; [|discriminate]. cbn [obind] in E.
  destruct (spL sp <=? spS sp + lenN isis) eqn:Ea; [|discriminate]. cbn [assert_ok obind] in E.
  destruct (ldpc_rows (spS sp) (spW sp) (spP sp) (N.to_nat (spL sp))) as [top|] eqn:Et; [|discriminate]. cbn [obind] in E.
  destruct (num_lt_symbols (spK sp)) as [W'|] eqn:EW; [|discriminate]. cbn [obind] in E.
  destruct (num_pi_symbols (spK sp)) as [P'|] eqn:EP; [|discriminate]. cbn [obind] in E.
  destruct (omapM (enc_row m W' P' (spP1 sp) (spJ sp) (N.to_nat (spL sp))) isis) as [rows|] eqn:Er; [|discriminate]. cbn [obind] in E.
  injection E as <-.
  pose proof (ldpc_rows_shaped _ _ _ _ _ Et) as St.
  destruct (enc_rows_wf _ _ _ _ _ _ _ _ Er) as [Rl Rw].
  exists sp, top, W', P', rows. apply N.leb_le in Ea.
  repeat (split; [first [reflexivity | assumption]|]). assumption.
Qed.

(* permuting the ISI list permutes the G_ENC rows and nothing else (C08_matrix_rows_perm) *)
Lemma gcm_perm m K isis1 isis2 bin1 hd :
  Permutation isis1 isis2 -> generate_constraint_matrix m K isis1 = Ok (bin1, hd) ->
  exists sp bin2, sys_params K = Ok sp /\ generate_constraint_matrix m K isis2 = Ok (bin2, hd) /\
    Permutation (full_matrix (spS sp) (spH sp) bin1 hd) (full_matrix (spS sp) (spH sp) bin2 hd).
Proof.
  intros Pm E. destruct (gcm_parts _ _ _ _ _ E)
    as [sp [top [W' [P' [rows [Esp [Ea [Et [EW [EP [Er [Eh [Eb [Ef [St [Sh [Rl Rw]]]]]]]]]]]]]]]]].
  destruct (omapM_perm _ _ _ _ Pm Er) as [rows2 [Er2 Pr]].
  assert (Ea2 : spL sp <= spS sp + spH sp + lenN isis2).
  { unfold lenN in *. rewrite <- (Permutation_length Pm). exact Ea. }
  pose proof (gcm_build m K isis2 sp top W' P' rows2 hd Esp Ea2 Et EW EP Er2 Eh) as E2.
  exists sp, (top ++ zero_matrix (N.to_nat (spH sp)) (N.to_nat (spL sp)) ++ rows2).
  split; [exact Esp|]. split; [exact E2|]. rewrite Ef.
  rewrite full_matrix_eq; [|exact (proj1 St) | apply (proj1 (zero_matrix_shaped _ _))].
  apply Permutation_app_head. apply Permutation_app_head. exact Pr.
Qed.

Lemma gcm_wf m K isis bin hd sp :
  generate_constraint_matrix m K isis = Ok (bin, hd) -> sys_params K = Ok sp ->
  wf_mat (N.to_nat (spL sp)) (full_matrix (spS sp) (spH sp) bin hd).
Proof.
  intros E Esp'. destruct (gcm_parts _ _ _ _ _ E)
    as [sp0 [top [W' [P' [rows [Esp [Ea [Et [EW [EP [Er [Eh [Eb [Ef [St [Sh [Rl Rw]]]]]]]]]]]]]]]]].
  rewrite Esp' in Esp. injection Esp as <-. rewrite Ef.
  apply wf_mat_app. split; [exact (proj2 St)|]. apply wf_mat_app. split; [exact (proj2 Sh) | exact Rw].
Qed.
