(* Decoder (the per-block memo on top of the block decoders): add_new_packet as an explicit case
   split, stability of finished blocks and of the final answer, commutation of packets that address
   different blocks (C08, Decoder part). *)
From Coq Require Import NArith List Bool Arith Lia.
From RQ Require Import Base.Outcome Base.Ints Base.ListX Spec.Linear Spec.Layout
  Model.CMatrix Model.Layout Model.Decoder Model.DecoderSpec
  Proofs.LinearProofs Proofs.DecoderLists.
Import ListNotations.
Open Scope N_scope.

Lemma dec_add_eq m d p :
  dec_add m d p =
  match nth_error (dec_blocks d) (N.to_nat (fst (fst p))) with
  | None => Panic PIndex
  | Some (Some _) => Ok d
  | Some None =>
      match nth_error (dec_sbd d) (N.to_nat (fst (fst p))) with
      | None => Panic PIndex
      | Some sd =>
          match sbd_decode m sd [p] with
          | Panic c => Panic c
          | Ok (r, sd') => Ok (mkDec (dec_cfg d) (upd_nth (N.to_nat (fst (fst p))) sd' (dec_sbd d))
                                     (upd_nth (N.to_nat (fst (fst p))) r (dec_blocks d)))
          end
      end
  end.
Proof.
  unfold dec_add. cbv zeta. unfold nth_ok.
  destruct (nth_error (dec_blocks d) (N.to_nat (fst (fst p)))) as [[b|]|] eqn:Eb; cbn [obind]; try reflexivity.
  destruct (nth_error (dec_sbd d) (N.to_nat (fst (fst p)))) as [sd|] eqn:Es; cbn [obind]; [|reflexivity].
  destruct (sbd_decode m sd [p]) as [[r sd']|c]; cbn [obind]; [|reflexivity].
  rewrite list_put_spec by (apply nth_error_Some; rewrite Es; discriminate). cbn [obind].
  rewrite list_put_spec by (apply nth_error_Some; rewrite Eb; discriminate). reflexivity.
Qed.

Lemma upd_nth_comm {A} (l : list A) : forall i j x y, i <> j ->
  upd_nth i x (upd_nth j y l) = upd_nth j y (upd_nth i x l).
Proof.
  induction l as [|a t IH]; intros [|i] [|j] x y H; cbn [upd_nth]; try reflexivity; try congruence.
  f_equal. apply IH. congruence.
Qed.

(* a finished block is never touched again, whatever arrives *)
Lemma dec_add_block_kept m d p d' i b :
  nth_error (dec_blocks d) i = Some (Some b) -> dec_add m d p = Ok d' ->
  nth_error (dec_blocks d') i = Some (Some b) /\ nth_error (dec_sbd d') i = nth_error (dec_sbd d) i /\
  dec_cfg d' = dec_cfg d.
Proof.
  intros Hb. rewrite dec_add_eq.
  destruct (nth_error (dec_blocks d) (N.to_nat (fst (fst p)))) as [[b0|]|] eqn:Eb; try discriminate.
  - intros H. injection H as <-. repeat split. exact Hb.
  - destruct (nth_error (dec_sbd d) (N.to_nat (fst (fst p)))) as [sd|] eqn:Es; [|discriminate].
    destruct (sbd_decode m sd [p]) as [[r sd']|c]; [|discriminate]. intros H. injection H as <-.
    assert (Hne : N.to_nat (fst (fst p)) <> i) by (intros E; rewrite E in Eb; congruence).
    cbn [dec_blocks dec_sbd dec_cfg]. rewrite !nth_error_upd_other by exact Hne. repeat split. exact Hb.
Qed.

Lemma dec_result_some d x : dec_result d = Some x ->
  (forall i o, nth_error (dec_blocks d) i = Some o -> o <> None) /\
  x = reassemble (dec_cfg d)
        (flat_map (fun b : option (list N) => match b with Some y => [y] | None => [] end) (dec_blocks d)).
Proof.
  unfold dec_result.
  destruct (forallb (fun b : option (list N) => match b with Some _ => true | None => false end) (dec_blocks d)) eqn:E;
    [|discriminate].
  intros H. injection H as <-. split; [|reflexivity].
  intros i o Hn. rewrite forallb_forall in E. apply nth_error_In in Hn. specialize (E o Hn).
  destruct o; [discriminate | discriminate E].
Qed.

(* once the object has been returned, no packet changes the decoder any more *)
Lemma dec_add_after_result m d p x d' : dec_result d = Some x -> dec_add m d p = Ok d' -> d' = d.
Proof.
  intros Hr. destruct (dec_result_some d x Hr) as [Hall _]. rewrite dec_add_eq.
  destruct (nth_error (dec_blocks d) (N.to_nat (fst (fst p)))) as [[b0|]|] eqn:Eb; try discriminate.
  - intros H. injection H as <-. reflexivity.
  - exfalso. apply (Hall _ _ Eb). reflexivity.
Qed.

Lemma dec_run_after_result m pkts : forall d x d',
  dec_result d = Some x -> dec_run m d pkts = Ok d' -> d' = d.
Proof.
  induction pkts as [|p t IH]; intros d x d' Hr H; unfold dec_run in *; cbn [ofold] in H.
  - injection H as <-. reflexivity.
  - destruct (dec_add m d p) as [d1|] eqn:E1; [|discriminate]. cbn [obind] in H.
    pose proof (dec_add_after_result m d p x d1 Hr E1) as ->. apply (IH d x d' Hr H).
Qed.

(* packets addressed to different blocks commute *)
Lemma dec_add_comm m d p q d1 d12 :
  N.to_nat (fst (fst p)) <> N.to_nat (fst (fst q)) ->
  dec_add m d p = Ok d1 -> dec_add m d1 q = Ok d12 ->
  exists d2, dec_add m d q = Ok d2 /\ dec_add m d2 p = Ok d12.
Proof.
  intros Hne. set (bp := N.to_nat (fst (fst p))) in *. set (bq := N.to_nat (fst (fst q))) in *.
  intros H1 H2. pose proof H1 as H1'. rewrite dec_add_eq in H1. fold bp in H1.
  destruct (nth_error (dec_blocks d) bp) as [[b0|]|] eqn:Ebp; try discriminate.
  - (* block of p already finished: p is ignored on both sides *)
    injection H1 as <-. exists d12. split; [exact H2|].
    destruct (dec_add_block_kept m d q d12 bp b0 Ebp H2) as [K1 _].
    rewrite dec_add_eq. fold bp. rewrite K1. reflexivity.
  - destruct (nth_error (dec_sbd d) bp) as [sd|] eqn:Esp; [|discriminate].
    destruct (sbd_decode m sd [p]) as [[r sd']|c] eqn:Edp; [|discriminate]. injection H1 as <-.
    rewrite dec_add_eq in H2. fold bq in H2. cbn [dec_blocks dec_sbd dec_cfg] in H2.
    rewrite !nth_error_upd_other in H2 by exact Hne.
    destruct (nth_error (dec_blocks d) bq) as [[c0|]|] eqn:Ebq; try discriminate.
    + injection H2 as <-. exists d. split; [|exact H1'].
      rewrite dec_add_eq. fold bq. rewrite Ebq. reflexivity.
    + destruct (nth_error (dec_sbd d) bq) as [sdq|] eqn:Esq; [|discriminate].
      destruct (sbd_decode m sdq [q]) as [[rq sdq']|c] eqn:Edq; [|discriminate]. injection H2 as <-.
      eexists. split.
      * rewrite dec_add_eq. fold bq. rewrite Ebq, Esq, Edq. reflexivity.
      * rewrite dec_add_eq. fold bp. cbn [dec_blocks dec_sbd dec_cfg].
        rewrite !nth_error_upd_other by (intros E; apply Hne; symmetry; exact E).
        rewrite Ebp, Esp, Edp. f_equal. f_equal; apply upd_nth_comm; exact Hne.
Qed.
