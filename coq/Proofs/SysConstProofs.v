(* Proofs about Model/SysConst.v: the linear scan returns the first row whose key is >= K; the
   keys of TABLE2 and P1_TABLE agree and are strictly increasing; `forall_rows`, the sweep
   combinator over (row of TABLE2, its entry of P1_TABLE). *)
From Coq Require Import NArith List Bool Lia Arith.
From RQ Require Import Base.Outcome Base.Ints Base.ListX Gen.Consts Gen.SysTables Model.SysConst.
Import ListNotations.
Open Scope N_scope.

(* ---- generic facts about the scan ---- *)

Fixpoint first_ge (K : N) (keys : list N) : option nat :=
  match keys with
  | [] => None
  | k :: t => if K <=? k then Some O else option_map S (first_ge K t)
  end.

Lemma scan_tab_first_ge {R} (key sel : R -> N) K (l : list R) :
  scan_tab key sel K l =
  match first_ge K (map key l) with
  | Some i => Ok (nth i (map sel l) 0)
  | None => Panic PUnreachable
  end.
Proof.
  induction l as [|r t IH]; cbn [scan_tab map first_ge]; [reflexivity|].
  destruct (K <=? key r); [reflexivity|]. rewrite IH.
  destruct (first_ge K (map key t)); reflexivity.
Qed.

Lemma first_ge_some K keys : forall i, first_ge K keys = Some i ->
  (i < length keys)%nat /\ K <= nth i keys 0 /\ forall j, (j < i)%nat -> nth j keys 0 < K.
Proof.
  induction keys as [|k t IH]; intros i H; cbn [first_ge] in H; [discriminate|].
  destruct (K <=? k) eqn:E.
  - injection H as <-. apply N.leb_le in E. cbn [length nth]. repeat split; [lia | exact E | lia].
  - apply N.leb_gt in E. destruct (first_ge K t) as [i'|]; [|discriminate].
    cbn [option_map] in H. injection H as <-. destruct (IH i' eq_refl) as [H1 [H2 H3]].
    cbn [length]. repeat split; [lia | exact H2 |].
    intros [|j] Hj; cbn [nth]; [exact E | apply H3; lia].
Qed.

Lemma first_ge_exists K keys : (exists k, In k keys /\ K <= k) -> exists i, first_ge K keys = Some i.
Proof.
  induction keys as [|k t IH]; intros [x [Hin Hx]]; [destruct Hin|].
  cbn [first_ge]. destruct (K <=? k) eqn:E; [eexists; reflexivity|].
  apply N.leb_gt in E. destruct Hin as [->|Hin]; [lia|].
  destruct (IH (ex_intro _ x (conj Hin Hx))) as [i Hi]. rewrite Hi. eexists; reflexivity.
Qed.

(* strictly increasing lists *)
Fixpoint incr (l : list N) : bool :=
  match l with
  | [] => true
  | a :: t => match t with [] => true | b :: _ => (a <? b) && incr t end
  end.

Lemma incr_tail a t : incr (a :: t) = true -> incr t = true.
Proof. cbn [incr]. destruct t; [reflexivity|]. intros H. apply andb_true_iff in H. apply H. Qed.

Lemma incr_head t : forall a, incr (a :: t) = true -> forall x, In x t -> a < x.
Proof.
  induction t as [|b t IH]; intros a H x Hin; [destruct Hin|].
  pose proof (incr_tail _ _ H) as Ht. cbn [incr] in H. apply andb_true_iff in H.
  destruct H as [Hab _]. apply N.ltb_lt in Hab.
  destruct Hin as [<-|Hin]; [exact Hab|]. pose proof (IH b Ht x Hin). lia.
Qed.

Lemma incr_nth l : incr l = true -> forall i j, (i <= j < length l)%nat -> nth i l 0 <= nth j l 0.
Proof.
  induction l as [|a t IH]; intros H i j Hij; cbn [length] in Hij; [lia|].
  destruct i as [|i], j as [|j]; cbn [nth]; try lia.
  - apply N.lt_le_incl. apply (incr_head t a H). apply nth_In. lia.
  - apply IH; [exact (incr_tail _ _ H) | lia].
Qed.

(* ---- the two tables ---- *)

Lemma keys_agree : map (@fst N N) P1_TABLE = map r_k TABLE2. Proof. vm_compute. reflexivity. Qed.
Lemma keys_incr : incr (map r_k TABLE2) = true. Proof. vm_compute. reflexivity. Qed.
Lemma keys_length : length (map r_k TABLE2) = 477%nat. Proof. reflexivity. Qed.
Lemma keys_last : nth 476 (map r_k TABLE2) 0 = MAX_SOURCE_SYMBOLS_PER_BLOCK. Proof. reflexivity. Qed.
Lemma keys_first : nth 0 (map r_k TABLE2) 0 = 10. Proof. reflexivity. Qed.

(* sweep combinator: chk on every (row of TABLE2, entry of P1_TABLE with the same K') *)
Definition forall_rows (chk : N -> N -> N -> N -> N -> N -> bool) : bool :=
  forallb (fun r : row5 =>
    forallb (fun p : N * N =>
      if r_k r =? fst p then chk (r_k r) (r_j r) (r_s r) (r_h r) (r_w r) (snd p) else true)
      P1_TABLE) TABLE2.

Lemma forall_rows_spec chk : forall_rows chk = true ->
  forall K' J S H W P1, In (K', J, S, H, W) TABLE2 -> In (K', P1) P1_TABLE ->
  chk K' J S H W P1 = true.
Proof.
  unfold forall_rows. intros H0 K' J S H W P1 Hr Hp.
  rewrite forallb_forall in H0. pose proof (H0 _ Hr) as H1. cbv beta in H1.
  rewrite forallb_forall in H1. pose proof (H1 _ Hp) as H2. cbv beta in H2.
  cbn [r_k r_j r_s r_h r_w fst snd] in H2. rewrite N.eqb_refl in H2. exact H2.
Qed.

(* ---- what the eight functions return ---- *)

Lemma row_eta (r : row5) : r = (r_k r, r_j r, r_s r, r_h r, r_w r).
Proof. destruct r as [[[[k j] s] h] w]. reflexivity. Qed.

(* the row selected for K: all functions read the same index of the two tables *)
Lemma lookups_select K : K <= MAX_SOURCE_SYMBOLS_PER_BLOCK ->
  exists r P1,
    In r TABLE2 /\ In (r_k r, P1) P1_TABLE /\
    K <= r_k r /\ (forall r', In r' TABLE2 -> K <= r_k r' -> r_k r <= r_k r') /\
    (forall sel, lookup5 sel K = Ok (sel r)) /\ calculate_p1 K = Ok P1.
Proof.
  intros HK.
  assert (Hex : exists i, first_ge K (map r_k TABLE2) = Some i).
  { apply first_ge_exists. exists MAX_SOURCE_SYMBOLS_PER_BLOCK. split; [|exact HK].
    rewrite <- keys_last. apply nth_In. rewrite keys_length. lia. }
  destruct Hex as [i Hi].
  destruct (first_ge_some _ _ _ Hi) as [Hlen [Hge Hbefore]].
  pose proof Hlen as Hlen2. rewrite map_length in Hlen2.
  set (d5 := (0, 0, 0, 0, 0) : row5).
  assert (Hkeys : forall j, nth j (map r_k TABLE2) 0 = r_k (nth j TABLE2 d5))
    by (intros j; exact (map_nth r_k TABLE2 d5 j)).
  pose proof (Hkeys i) as Hkey.
  exists (nth i TABLE2 d5), (snd (nth i P1_TABLE (0, 0))).
  assert (Hlen3 : (i < length P1_TABLE)%nat).
  { rewrite <- (map_length (@fst N N)), keys_agree. exact Hlen. }
  assert (Hk1 : fst (nth i P1_TABLE (0, 0)) = r_k (nth i TABLE2 d5)).
  { rewrite <- Hkey, <- keys_agree. symmetry. apply (map_nth (@fst N N) P1_TABLE (0, 0) i). }
  split; [apply nth_In; exact Hlen2|].
  split; [rewrite <- Hk1, <- surjective_pairing; apply nth_In; exact Hlen3|].
  split; [rewrite <- Hkey; exact Hge|].
  split.
  { intros r' Hin Hr'. destruct (In_nth _ _ d5 Hin) as [j [Hj Hnj]].
    rewrite <- Hkey. rewrite <- Hnj. rewrite <- (Hkeys j).
    destruct (Nat.lt_ge_cases j i) as [Hlt|Hle].
    - exfalso. pose proof (Hbefore j Hlt) as Hb. rewrite (Hkeys j), Hnj in Hb. lia.
    - apply incr_nth; [exact keys_incr | rewrite map_length; lia]. }
  apply N.leb_le in HK. split.
  - intros sel. unfold lookup5. rewrite HK, scan_tab_first_ge, Hi. f_equal.
    rewrite (nth_indep (map sel TABLE2) 0 (sel d5)) by (rewrite map_length; exact Hlen2).
    apply (map_nth sel TABLE2 d5 i).
  - unfold calculate_p1. rewrite HK, scan_tab_first_ge, keys_agree, Hi. f_equal.
    apply (map_nth (@snd N N) P1_TABLE (0, 0) i).
Qed.

Lemma lookups_reject K : MAX_SOURCE_SYMBOLS_PER_BLOCK < K ->
  (forall sel, lookup5 sel K = Panic PAssert) /\ calculate_p1 K = Panic PAssert /\
  num_intermediate_symbols K = Panic PAssert /\ num_pi_symbols K = Panic PAssert.
Proof.
  intros H. apply N.leb_gt in H.
  assert (H5 : forall sel, lookup5 sel K = Panic PAssert) by (intros sel; unfold lookup5; rewrite H; reflexivity).
  split; [exact H5|]. split; [unfold calculate_p1; rewrite H; reflexivity|].
  unfold num_pi_symbols, num_intermediate_symbols, extended_source_block_symbols.
  rewrite H5. split; reflexivity.
Qed.
