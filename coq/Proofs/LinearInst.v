(* Proofs/LinearProofs.v instantiated at GF(256) with the fast table arithmetic
   (mul := fmul, inv := finv): closed theorems, no remaining hypotheses about the field. *)
From Coq Require Import NArith List Bool Arith Lia Permutation.
From RQ Require Import Base.ListX Gen.OctetTables Model.Octet Proofs.OctetProofs
  Model.FieldFast Proofs.FieldFastProofs Spec.Linear Proofs.LinearProofs.
Import ListNotations.
Open Scope N_scope.

Lemma gf_field_ok : field_ok fmul finv.
Proof.
  constructor.
  - intros a b Ha Hb. rewrite fmul_mulN by assumption. apply mulN_lt; assumption.
  - intros a b Ha Hb. rewrite !fmul_mulN by assumption. apply mulN_comm.
  - intros a b c Ha Hb Hc. pose proof (mulN_lt a b Ha Hb). pose proof (mulN_lt b c Hb Hc).
    rewrite (fmul_mulN a b), (fmul_mulN b c) by assumption.
    rewrite !fmul_mulN by assumption. apply mulN_assoc; assumption.
  - intros a Ha. rewrite fmul_mulN by (try assumption; reflexivity). apply mulN_1_r. exact Ha.
  - intros a Ha. rewrite fmul_mulN by (try assumption; reflexivity). rewrite mulN_comm. apply mulN_1_r. exact Ha.
  - intros a Ha. rewrite fmul_mulN by (try assumption; reflexivity). apply mulN_0_l.
  - intros a Ha. rewrite fmul_mulN by (try assumption; reflexivity). apply mulN_0_r.
  - intros a b c Ha Hb Hc. pose proof (lxor_lt_256 b c Hb Hc).
    rewrite !fmul_mulN by assumption. apply mulN_distr_r; assumption.
  - intros a b c Ha Hb Hc. pose proof (lxor_lt_256 a b Ha Hb).
    rewrite !fmul_mulN by assumption.
    rewrite (mulN_comm (N.lxor a b) c), (mulN_comm a c), (mulN_comm b c). apply mulN_distr_r; assumption.
  - intros a Ha Hz. pose proof (finv_lt a Ha). split; [|assumption].
    rewrite fmul_mulN by assumption. rewrite finv_divN by assumption. apply mulN_inv; assumption.
Qed.

(* ---- module laws ---- *)

Theorem lincomb_add_gf : forall T r1 r2 C,
  length r1 = length r2 -> wf_vec r1 -> wf_vec r2 -> wf_mat T C ->
  lincomb fmul T (vadd r1 r2) C = vadd (lincomb fmul T r1 C) (lincomb fmul T r2 C).
Proof. exact (lincomb_add fmul finv gf_field_ok). Qed.

Theorem lincomb_scale_gf : forall T c r C, c < 256 -> wf_vec r -> wf_mat T C ->
  lincomb fmul T (vscale fmul c r) C = vscale fmul c (lincomb fmul T r C).
Proof. exact (lincomb_scale fmul finv gf_field_ok). Qed.

Theorem injective_iff_dot_gf : forall L A, injective fmul L A <-> injective_dot fmul L A.
Proof. exact (injective_iff_dot fmul). Qed.

(* ---- row operations ---- *)

Theorem ops_preserve_fwd_gf : forall T L A C D ops,
  forallb (op_valid (length A)) ops = true -> wf_mat L A -> wf_mat T C ->
  solves fmul T A C D -> solves fmul T (apply_ops fmul ops A) C (apply_ops fmul ops D).
Proof. exact (ops_preserve_fwd fmul finv gf_field_ok). Qed.

Theorem ops_preserve_bwd_gf : forall T L A C D ops,
  forallb (op_valid (length A)) ops = true -> wf_mat L A -> wf_mat T C -> wf_mat T D ->
  solves fmul T (apply_ops fmul ops A) C (apply_ops fmul ops D) -> solves fmul T A C D.
Proof. exact (ops_preserve_bwd fmul finv gf_field_ok). Qed.

(* ---- certificates ---- *)

Theorem cert_sound_unique_gf : forall T L A ops order C D,
  check_cert fmul L A ops order = true -> wf_mat L A -> wf_mat T C -> length C = L ->
  solves fmul T A C D -> read_out order (apply_ops fmul ops D) = C.
Proof. exact (cert_sound_unique fmul finv gf_field_ok). Qed.

Theorem cert_injective_gf : forall L A ops order,
  check_cert fmul L A ops order = true -> wf_mat L A -> injective fmul L A.
Proof. exact (cert_injective fmul finv gf_field_ok). Qed.

Theorem cert_sound_exists_gf : forall T L A ops order D,
  check_cert fmul L A ops order = true -> length A = L -> NoDup order ->
  wf_mat L A -> wf_mat T D -> length D = L ->
  solves fmul T A (read_out order (apply_ops fmul ops D)) D.
Proof. exact (cert_sound_exists fmul finv gf_field_ok). Qed.

(* ---- reference solver ---- *)

Theorem gauss_solve_correct_gf : forall T L A D C,
  gauss_solve fmul finv T L A D = Some C -> wf_mat L A ->
  forall C', wf_mat T C' -> length C' = L -> solves fmul T A C' D -> C' = C.
Proof. exact (gauss_solve_correct fmul finv gf_field_ok). Qed.

Theorem gauss_solve_consistent_gf : forall T L A D C C',
  wf_mat L A -> wf_mat T C' -> length C' = L ->
  solves fmul T A C' D -> gauss_solve fmul finv T L A D = Some C -> C = C'.
Proof. exact (gauss_solve_consistent fmul finv gf_field_ok). Qed.

Theorem gauss_solve_exists_gf : forall T L A D C,
  gauss_solve fmul finv T L A D = Some C -> length A = L -> length D = L ->
  wf_mat L A -> wf_mat T D -> solves fmul T A C D /\ wf_mat T C /\ length C = L.
Proof. exact (gauss_solve_exists fmul finv gf_field_ok). Qed.

Theorem gauss_solve_some_iff_gf : forall T L A D,
  gauss_solve fmul finv T L A D <> None <-> gauss_rank_full fmul finv L A = true.
Proof. exact (gauss_solve_some_iff fmul finv). Qed.

Theorem gauss_rank_full_iff_injective_gf : forall L A, wf_mat L A ->
  (gauss_rank_full fmul finv L A = true <-> injective fmul L A).
Proof. exact (gauss_rank_full_iff_injective fmul finv gf_field_ok). Qed.

Theorem fewer_rows_not_injective_gf : forall L A, wf_mat L A -> (length A < L)%nat -> ~ injective fmul L A.
Proof. exact (fewer_rows_not_injective fmul finv gf_field_ok). Qed.

Theorem injective_incl_gf : forall L A B, incl A B -> injective fmul L A -> injective fmul L B.
Proof. exact (injective_incl fmul). Qed.

Theorem injective_mono_gf : forall L A B, injective fmul L A -> injective fmul L (A ++ B).
Proof. exact (injective_mono fmul). Qed.

Theorem injective_perm_gf : forall L A A', Permutation A A' -> injective fmul L A -> injective fmul L A'.
Proof. exact (injective_perm fmul). Qed.

(* ---- examples: a 3 x 3 system over GF(256) with non-binary entries ---- *)

Definition exA : list (list N) := [[0; 2; 7]; [3; 1; 0]; [5; 200; 1]].
Definition exC : list (list N) := [[10; 20]; [30; 40]; [255; 1]].
Definition exD : list (list N) := map (fun r => lincomb fmul 2 r exC) exA.

Example ex_rhs : exD = [[251; 87]; [0; 20]; [69; 115]].
Proof. vm_compute. reflexivity. Qed.

Example ex_rank : gauss_rank_full fmul finv 3 exA = true.
Proof. vm_compute. reflexivity. Qed.

Example ex_gauss : gauss_solve fmul finv 2 3 exA exD = Some exC.
Proof. vm_compute. reflexivity. Qed.

Example ex_singular : gauss_solve fmul finv 2 3 [[0; 2; 7]; [3; 1; 0]; [3; 3; 7]] exD = None.
Proof. vm_compute. reflexivity. Qed.

(* a certificate for exA: Gauss-Jordan with pivots in rows 1, 0, 2 (no physical row swaps) *)
Definition exOps : list symop :=
  [ OpMul 1 (finv 3);                      (* row1 = (1, 1/3, 0) *)
    OpFMA 2 1 5;                           (* clear column 0 of row 2 *)
    OpMul 0 (finv 2);                      (* row0 = (0, 1, 7/2) *)
    OpFMA 1 0 (finv 3);                    (* clear column 1 of row 1 *)
    OpFMA 2 0 (N.lxor 200 (fmul 5 (finv 3)));   (* clear column 1 of row 2 *)
    OpMul 2 (finv (N.lxor 1 (fmul (N.lxor 200 (fmul 5 (finv 3))) (fmul 7 (finv 2)))));
    OpFMA 0 2 (fmul 7 (finv 2));
    OpFMA 1 2 (fmul (finv 3) (fmul 7 (finv 2))) ].
Definition exOrder : list nat := [1; 0; 2]%nat.

Example ex_cert : check_cert fmul 3 exA exOps exOrder = true.
Proof. vm_compute. reflexivity. Qed.

Example ex_cert_readout : read_out exOrder (apply_ops fmul exOps exD) = exC.
Proof. vm_compute. reflexivity. Qed.

Example ex_cert_bad : check_cert fmul 3 exA (OpAdd 0 0 :: exOps) exOrder = false.
Proof. vm_compute. reflexivity. Qed.
