(* Proofs about Model/Kernels.v, part 5 (C12): every access a kernel performs -- vector loads and
   stores, the unaligned u64 tail, get_unchecked on slices and on OCTET_MUL, the re-interpreted word
   buffer -- lies inside its buffer; table shapes. *)
From Coq Require Import NArith ZArith List Bool Arith Lia ZifyBool ZifyN ZifyNat.
From RQ Require Import Base.Outcome Base.Ints Base.ListX Base.Vec Spec.Bits Model.Octet Model.Kernels
  Proofs.OctetProofs Proofs.VecLemmas Proofs.KernelsProofs Proofs.KernelsMulProofs Proofs.KernelsBinProofs.
Import ListNotations.
Ltac Zify.zify_post_hook ::= Z.div_mod_to_equations.

Lemma Forall_flat_map {A B} (P : B -> Prop) (f : A -> list B) (l : list A) :
  (forall x, In x l -> Forall P (f x)) -> Forall P (flat_map f l).
Proof.
  intros H. apply Forall_forall. intros y Hy. apply in_flat_map in Hy. destruct Hy as [x [Hx Hy]].
  specialize (H x Hx). rewrite Forall_forall in H. apply H. exact Hy.
Qed.

Lemma in_range i a b : In i (range a b) -> (a <= i < b)%nat.
Proof. unfold range. intros H. apply in_seq in H. lia. Qed.

(* split an access list into its pieces and reduce each to an arithmetic fact about one index *)
Ltac bounds_tac :=
  repeat first
    [ apply Forall_app; split
    | apply Forall_cons
    | apply Forall_nil
    | apply Forall_flat_map; let i := fresh "i" in let Hi := fresh "Hi" in
      intros i Hi; try apply in_range in Hi ];
  unfold in_bounds; cbn [fst snd buf_len].

(* ---------------------------------------------------------------- add_assign *)

Theorem add_assign_fallback_in_bounds wl octets other : length octets = length other ->
  Forall (in_bounds (length octets) (length other) wl) (add_assign_fallback_accesses octets other).
Proof.
  intros HL. unfold add_assign_fallback_accesses, xor_u64_loop_accesses, xor_byte_loop_accesses, acc_rw.
  bounds_tac; lia.
Qed.

Theorem add_assign_simd_in_bounds wl w octets other : (w = 16 \/ w = 32 \/ w = 64)%nat ->
  length octets = length other ->
  Forall (in_bounds (length octets) (length other) wl) (add_assign_simd_accesses w octets other).
Proof.
  intros Hw HL. unfold add_assign_simd_accesses, xor_u64_loop_accesses, xor_byte_loop_accesses, acc_rw.
  destruct Hw as [->|[->| ->]]; bounds_tac; lia.
Qed.

(* ---------------------------------------------------------------- mulassign_scalar *)

Lemma acc_mul_in_bounds ol sl wl c x : (c < 256)%N -> (x < 256)%N -> Forall (in_bounds ol sl wl) (acc_mul c x).
Proof. intros Hc Hx. unfold acc_mul. bounds_tac; lia. Qed.

Theorem mulassign_scalar_fallback_in_bounds sl wl octets c : (c < 256)%N -> bytes octets ->
  Forall (in_bounds (length octets) sl wl) (mulassign_scalar_fallback_accesses octets c).
Proof.
  intros Hc Bo. unfold mulassign_scalar_fallback_accesses. apply Forall_flat_map. intros x Hx.
  apply acc_mul_in_bounds; [exact Hc|]. unfold bytes in Bo. rewrite Forall_forall in Bo. apply Bo, Hx.
Qed.

Theorem mulassign_scalar_simd_in_bounds sl wl w nb octets c :
  (w = 16 \/ w = 32 \/ w = 64)%nat -> (nb = 16 \/ nb = 32)%nat -> (c < 256)%N -> bytes octets ->
  Forall (in_bounds (length octets) sl wl) (mulassign_scalar_simd_accesses w nb octets c).
Proof.
  intros Hw Hnb Hc Bo. unfold mulassign_scalar_simd_accesses, mul_byte_loop_accesses, acc_tables.
  destruct Hw as [->|[->| ->]]; destruct Hnb as [->| ->]; bounds_tac; try lia;
    (match goal with |- context [nth ?i ?l 0%N] =>
       let B := fresh "B" in assert (B : (nth i l 0 < 256)%N) by (apply bytes_nth; [exact Bo | lia]); lia end).
Qed.

(* ---------------------------------------------------------------- fused_addassign_mul_scalar *)

Theorem fused_addassign_mul_scalar_fallback_in_bounds wl octets other c :
  length octets = length other -> (c < 256)%N -> bytes other ->
  Forall (in_bounds (length octets) (length other) wl)
         (fused_addassign_mul_scalar_fallback_accesses octets other c).
Proof.
  intros HL Hc Bo. unfold fused_addassign_mul_scalar_fallback_accesses, fma_byte_loop_accesses.
  bounds_tac; try lia;
    (match goal with |- context [nth ?i ?l 0%N] =>
       let B := fresh "B" in assert (B : (nth i l 0 < 256)%N) by (apply bytes_nth; [exact Bo | lia]); lia end).
Qed.

Theorem fused_addassign_mul_scalar_simd_in_bounds wl w nb octets other c :
  (w = 16 \/ w = 32 \/ w = 64)%nat -> (nb = 16 \/ nb = 32)%nat ->
  length octets = length other -> (c < 256)%N -> bytes other ->
  Forall (in_bounds (length octets) (length other) wl)
         (fused_addassign_mul_scalar_simd_accesses w nb octets other c).
Proof.
  intros Hw Hnb HL Hc Bo.
  unfold fused_addassign_mul_scalar_simd_accesses, fma_byte_loop_accesses, acc_tables.
  destruct Hw as [->|[->| ->]]; destruct Hnb as [->| ->]; bounds_tac; try lia;
    (match goal with |- context [nth ?i ?l 0%N] =>
       let B := fresh "B" in assert (B : (nth i l 0 < 256)%N) by (apply bytes_nth; [exact Bo | lia]); lia end).
Qed.

(* ---------------------------------------------------------------- binary kernels *)

Theorem fused_addassign_mul_scalar_binary_avx2_in_bounds sl octets bv :
  wf_bvec bv -> length octets = lenn bv -> (0 < length octets)%nat ->
  Forall (in_bounds (length octets) sl (length (fst bv)))
         (fused_addassign_mul_scalar_binary_avx2_accesses octets bv).
Proof.
  intros Hwf HL H0. pose proof (layout_total bv Hwf) as HT. pose proof (padn_eq bv) as HP.
  unfold fused_addassign_mul_scalar_binary_avx2_accesses.
  change (N.to_nat (padding_bits bv)) with (padn bv).
  remember (padn bv) as pad eqn:Epad.
  destruct (0 <? pad mod 32)%nat eqn:Ep;
    [apply Nat.ltb_lt in Ep | apply Nat.ltb_ge in Ep]; bounds_tac; lia.
Qed.

Theorem fused_addassign_mul_scalar_binary_avx512_in_bounds sl octets bv :
  wf_bvec bv -> length octets = lenn bv ->
  Forall (in_bounds (length octets) sl (length (fst bv)))
         (fused_addassign_mul_scalar_binary_avx512_accesses octets bv).
Proof.
  intros Hwf HL. pose proof (layout_total bv Hwf) as HT. pose proof (padn_eq bv) as HP.
  unfold fused_addassign_mul_scalar_binary_avx512_accesses.
  destruct (length octets =? 0)%nat eqn:E0; [constructor|]. apply Nat.eqb_neq in E0.
  change (N.to_nat (padding_bits bv)) with (padn bv).
  remember (padn bv) as pad eqn:Epad.
  destruct (0 <? pad mod 64)%nat eqn:Ep;
    [apply Nat.ltb_lt in Ep | apply Nat.ltb_ge in Ep]; bounds_tac; try lia;
    (destruct (nth _ (fst bv) 0%N =? 0)%N; bounds_tac; lia).
Qed.

(* ---------------------------------------------------------------- table shapes *)

Lemma rows_mul_ok : forallb (fun r => (length r =? 256)%nat) octet_mul_table = true.
Proof. vm_compute. reflexivity. Qed.
Lemma len_mul_table : length octet_mul_table = 256%nat. Proof. vm_compute. reflexivity. Qed.

Theorem tables_in_bounds :
  length octet_mul_table = 256%nat /\ (forall r, In r octet_mul_table -> length r = 256%nat) /\
  length octet_mul_low_table = 256%nat /\ (forall r, In r octet_mul_low_table -> length r = 32%nat) /\
  length octet_mul_hi_table = 256%nat /\ (forall r, In r octet_mul_hi_table -> length r = 32%nat).
Proof.
  repeat split; try (vm_compute; reflexivity).
  - intros r Hr. pose proof rows_mul_ok as R. rewrite forallb_forall in R. apply Nat.eqb_eq, R, Hr.
  - intros r Hr. pose proof rows_low_ok as R. rewrite forallb_forall in R. apply Nat.eqb_eq, R, Hr.
  - intros r Hr. pose proof rows_hi_ok as R. rewrite forallb_forall in R. apply Nat.eqb_eq, R, Hr.
Qed.

(* an index pair (c, x) of octets never leaves OCTET_MUL; (c, nibble) never leaves the 16 bytes
   a pshufb lane reads of OCTET_MUL_LOW_BITS / _HI_BITS *)
Theorem table_lookups_in_bounds c x : (c < 256)%N -> (x < 256)%N ->
  is_ok (tbl2 octet_mul_table c x) = true /\
  is_ok (tbl2 octet_mul_low_table c (N.land x 15)) = true /\
  is_ok (tbl2 octet_mul_hi_table c (N.shiftr x 4)) = true.
Proof.
  intros Hc Hx. destruct (tables_ok c x Hc Hx) as [E [l [h [E1 [E2 _]]]]].
  rewrite E, E1, E2. auto.
Qed.

(* ---------------------------------------------------------------- the model's unchecked accessors
   refuse exactly the out-of-bounds accesses, so `kernel .. = Ok ..` excludes them *)
Lemma oob_is_panic (buf v : list N) (o w : nat) (x : N) :
  ((length buf < o + w)%nat -> loadu w buf o = Panic PIndex) /\
  ((length buf < o + length v)%nat -> storeu buf o v = Panic PIndex) /\
  ((length buf <= o)%nat -> get_unchecked buf o = Panic PIndex) /\
  ((length buf <= o)%nat -> set_unchecked buf o x = Panic PIndex).
Proof.
  repeat split; intros H.
  - unfold loadu. replace (o + w <=? length buf)%nat with false by (symmetry; apply Nat.leb_gt; lia). reflexivity.
  - unfold storeu. replace (o + length v <=? length buf)%nat with false by (symmetry; apply Nat.leb_gt; lia). reflexivity.
  - unfold get_unchecked, nth_ok. replace (nth_error buf o) with (@None N) by (symmetry; apply nth_error_None; lia). reflexivity.
  - unfold set_unchecked. replace (o <? length buf)%nat with false by (symmetry; apply Nat.ltb_ge; lia). reflexivity.
Qed.

(* ---------------------------------------------------------------- all kernels at once *)

Theorem kernel_in_bounds octets other bits c :
  length octets = length other -> (c < 256)%N -> bytes octets -> bytes other ->
  wf_bvec bits -> length octets = N.to_nat (snd bits) ->
  let P := in_bounds (length octets) (length other) (length (fst bits)) in
  Forall P (add_assign_avx512_accesses octets other) /\
  Forall P (add_assign_avx2_accesses octets other) /\
  Forall P (add_assign_ssse3_accesses octets other) /\
  Forall P (add_assign_fallback_accesses octets other) /\
  Forall P (mulassign_scalar_avx512_accesses octets c) /\
  Forall P (mulassign_scalar_avx2_accesses octets c) /\
  Forall P (mulassign_scalar_ssse3_accesses octets c) /\
  Forall P (mulassign_scalar_fallback_accesses octets c) /\
  Forall P (fused_addassign_mul_scalar_avx512_accesses octets other c) /\
  Forall P (fused_addassign_mul_scalar_avx2_accesses octets other c) /\
  Forall P (fused_addassign_mul_scalar_ssse3_accesses octets other c) /\
  Forall P (fused_addassign_mul_scalar_fallback_accesses octets other c) /\
  Forall P (fused_addassign_mul_scalar_binary_avx512_accesses octets bits) /\
  ((0 < length octets)%nat -> Forall P (fused_addassign_mul_scalar_binary_avx2_accesses octets bits)).
Proof.
  intros HL Hc Bo Bs Hwf HLb. cbv zeta.
  repeat match goal with |- _ /\ _ => split end.
  - apply add_assign_simd_in_bounds; auto.
  - apply add_assign_simd_in_bounds; auto.
  - apply add_assign_simd_in_bounds; auto.
  - apply add_assign_fallback_in_bounds; auto.
  - apply mulassign_scalar_simd_in_bounds; auto.
  - apply mulassign_scalar_simd_in_bounds; auto.
  - apply mulassign_scalar_simd_in_bounds; auto.
  - apply mulassign_scalar_fallback_in_bounds; auto.
  - apply fused_addassign_mul_scalar_simd_in_bounds; auto.
  - apply fused_addassign_mul_scalar_simd_in_bounds; auto.
  - apply fused_addassign_mul_scalar_simd_in_bounds; auto.
  - apply fused_addassign_mul_scalar_fallback_in_bounds; auto.
  - apply fused_addassign_mul_scalar_binary_avx512_in_bounds; auto.
  - intros H0. apply fused_addassign_mul_scalar_binary_avx2_in_bounds; auto.
Qed.

Theorem kernels_never_out_of_bounds octets other bits c :
  length octets = length other -> (c < 256)%N -> bytes octets -> bytes other ->
  wf_bvec bits -> length octets = N.to_nat (snd bits) ->
  is_ok (add_assign_avx512 octets other) = true /\ is_ok (add_assign_avx2 octets other) = true /\
  is_ok (add_assign_ssse3 octets other) = true /\ is_ok (add_assign_fallback octets other) = true /\
  is_ok (mulassign_scalar_avx512 octets c) = true /\ is_ok (mulassign_scalar_avx2 octets c) = true /\
  is_ok (mulassign_scalar_ssse3 octets c) = true /\ is_ok (mulassign_scalar_fallback octets c) = true /\
  is_ok (fused_addassign_mul_scalar_avx512 octets other c) = true /\
  is_ok (fused_addassign_mul_scalar_avx2 octets other c) = true /\
  is_ok (fused_addassign_mul_scalar_ssse3 octets other c) = true /\
  is_ok (fused_addassign_mul_scalar_fallback octets other c) = true /\
  is_ok (to_octet_vec bits) = true /\
  is_ok (fused_addassign_mul_scalar_binary_avx512 octets bits c) = true /\
  ((0 < length octets)%nat -> is_ok (fused_addassign_mul_scalar_binary_avx2 octets bits c) = true).
Proof.
  intros HL Hc Bo Bs Hwf HLb.
  rewrite add_assign_avx512_ok, add_assign_avx2_ok, add_assign_ssse3_ok, add_assign_fallback_ok by assumption.
  rewrite mulassign_scalar_avx512_ok, mulassign_scalar_avx2_ok, mulassign_scalar_ssse3_ok,
    mulassign_scalar_fallback_ok by assumption.
  rewrite fused_addassign_mul_scalar_avx512_ok, fused_addassign_mul_scalar_avx2_ok,
    fused_addassign_mul_scalar_ssse3_ok, fused_addassign_mul_scalar_fallback_ok by assumption.
  rewrite to_octet_vec_ok by assumption.
  rewrite fused_addassign_mul_scalar_binary_avx512_ok by assumption.
  repeat split. intros H0. rewrite fused_addassign_mul_scalar_binary_avx2_ok by assumption. reflexivity.
Qed.
