(* The packet loop of SourceBlockDecoder::decode (sbd_add): invariant, abstraction to the set of
   received (ESI, payload) pairs, and the state is a function of that set (C08, state part). *)
From Coq Require Import NArith List Bool Arith Lia Permutation.
From RQ Require Import Base.Outcome Base.Ints Base.ListX Spec.Linear Spec.Layout
  Model.CMatrix Model.Layout Model.Decoder Model.DecoderSpec
  Proofs.LinearProofs Proofs.DecoderLists.
Import ListNotations.
Open Scope N_scope.

Arguments N.add : simpl never.
Arguments N.sub : simpl never.
Arguments N.mul : simpl never.
Arguments N.pow : simpl never.

(* ---- present_sources ---- *)

Definition pres (s : N) (l : list (option (list N))) : list (N * list N) :=
  flat_map (fun ix : N * option (list N) => match snd ix with Some x => [(fst ix, x)] | None => [] end)
           (enumerate_from s l).

Lemma present_sources_pres d : present_sources d = pres 0 (sbd_src d).
Proof. reflexivity. Qed.

Lemma pres_cons s o l :
  pres s (o :: l) = match o with Some x => [(s, x)] | None => [] end ++ pres (s + 1) l.
Proof. reflexivity. Qed.

Lemma pres_in l : forall s i x,
  In (i, x) (pres s l) <-> exists k, i = s + N.of_nat k /\ nth_error l k = Some (Some x).
Proof.
  intros s i x. unfold pres. rewrite in_flat_map. split.
  - intros [[j o] [Hin Hm]]. cbn [fst snd] in Hm. destruct o as [y|]; [|destruct Hm].
    destruct Hm as [E|[]]. injection E as -> ->.
    apply enumerate_from_in in Hin. exact Hin.
  - intros [k [E1 E2]]. exists (i, Some x). split; [apply enumerate_from_in; exists k; split; assumption|].
    cbn [fst snd]. left. reflexivity.
Qed.

Lemma pres_fst_in l s e :
  In e (map fst (pres s l)) <-> exists k x, e = s + N.of_nat k /\ nth_error l k = Some (Some x).
Proof.
  rewrite in_map_iff. split.
  - intros [[i x] [E Hin]]. cbn [fst] in E. subst i. apply pres_in in Hin.
    destruct Hin as [k [E1 E2]]. exists k, x. split; assumption.
  - intros [k [x [E1 E2]]]. exists (e, x). split; [reflexivity|]. apply pres_in. exists k. split; assumption.
Qed.

Lemma pres_length l : forall s, length (pres s l) = count_some l.
Proof.
  induction l as [|o t IH]; intros s; [reflexivity|].
  rewrite pres_cons, app_length, IH. unfold count_some. cbn [filter].
  destruct o; reflexivity.
Qed.

Lemma pres_fst_NoDup l : forall s, NoDup (map fst (pres s l)).
Proof.
  induction l as [|o t IH]; intros s; [constructor|].
  rewrite pres_cons. destruct o as [x|]; cbn [app map fst]; [|apply IH].
  constructor; [|apply IH]. intros Hin. apply pres_fst_in in Hin.
  destruct Hin as [k [y [E _]]]. lia.
Qed.

Lemma pres_repeat_None n : forall s, pres s (repeat None n) = [].
Proof. induction n as [|n IH]; intros s; [reflexivity|]. cbn [repeat]. rewrite pres_cons. cbn [app]. apply IH. Qed.

Lemma count_some_repeat_None {A} n : count_some (repeat (@None A) n) = 0%nat.
Proof. induction n as [|n IH]; [reflexivity|]. unfold count_some in *. cbn [repeat filter]. exact IH. Qed.

Lemma count_some_le {A} (l : list (option A)) : (count_some l <= length l)%nat.
Proof.
  unfold count_some. induction l as [|o t IH]; [cbn; lia|]. cbn [filter length].
  destruct o; cbn [length]; lia.
Qed.

Lemma count_some_upd {A} (l : list (option A)) : forall k v,
  nth_error l k = Some None -> count_some (upd_nth k (Some v) l) = S (count_some l).
Proof.
  unfold count_some. induction l as [|o t IH]; intros [|k] v H; cbn in H; try discriminate.
  - injection H as ->. reflexivity.
  - cbn [upd_nth filter]. destruct o; cbn [length]; rewrite (IH k v H); reflexivity.
Qed.

Lemma count_some_full {A} (l : list (option A)) :
  count_some l = length l <-> Forall (fun o => o <> None) l.
Proof.
  induction l as [|o t IH].
  - split; [constructor | reflexivity].
  - pose proof (count_some_le t) as Hle. unfold count_some in *. cbn [filter length]. destruct o as [x|].
    + cbn [length]. split.
      * intros H. constructor; [discriminate | apply IH; lia].
      * intros H. inversion H; subst. f_equal. apply IH. assumption.
    + split; [intros H; lia | intros H; inversion H; subst; congruence].
Qed.

Lemma pres_upd_in l k0 v : nth_error l k0 = Some None -> forall s i x,
  In (i, x) (pres s (upd_nth k0 (Some v) l)) <-> (i, x) = (s + N.of_nat k0, v) \/ In (i, x) (pres s l).
Proof.
  intros H0 s i x. rewrite !pres_in.
  assert (Hlt : (k0 < length l)%nat) by (apply nth_error_Some; rewrite H0; discriminate).
  split.
  - intros [k [E1 E2]]. rewrite nth_error_upd in E2. destruct (Nat.eqb k0 k) eqn:E.
    + apply Nat.eqb_eq in E. subst k. apply Nat.ltb_lt in Hlt. rewrite Hlt in E2. injection E2 as <-.
      left. f_equal. exact E1.
    + right. exists k. split; assumption.
  - intros [E|[k [E1 E2]]].
    + injection E as -> ->. exists k0. split; [reflexivity|]. rewrite nth_error_upd, Nat.eqb_refl.
      apply Nat.ltb_lt in Hlt. rewrite Hlt. reflexivity.
    + exists k. split; [exact E1|]. rewrite nth_error_upd. destruct (Nat.eqb k0 k) eqn:E; [|exact E2].
      apply Nat.eqb_eq in E. subst k. rewrite H0 in E2. discriminate.
Qed.

(* ---- membership ---- *)

Lemma mem_N_spec x l : mem_N x l = true <-> In x l.
Proof.
  unfold mem_N. rewrite existsb_exists. split.
  - intros [y [Hin E]]. apply N.eqb_eq in E. subst y. exact Hin.
  - intros Hin. exists x. split; [exact Hin | apply N.eqb_refl].
Qed.

(* ---- the invariant and the abstraction ---- *)

Lemma abs_in d e x :
  In (e, x) (abs d) <-> In (e, x) (pres 0 (sbd_src d)) \/ In (e, x) (sbd_rep d).
Proof. unfold abs. rewrite present_sources_pres. apply in_app_iff. Qed.

Lemma esis_abs d : sbd_inv d -> forall e, In e (sbd_esis d) <-> exists x, In (e, x) (abs d).
Proof.
  intros I e. rewrite (inv_esis d I), present_sources_pres, in_app_iff. split.
  - intros [H|H]; apply in_map_iff in H; destruct H as [[e' x] [E Hin]]; cbn [fst] in E; subst e';
      exists x; apply abs_in; [left | right]; exact Hin.
  - intros [x H]. apply abs_in in H. destruct H as [H|H]; [left | right];
      apply in_map_iff; exists (e, x); (split; [reflexivity | exact H]).
Qed.

Lemma pres_lt d : sbd_inv d -> forall e x, In (e, x) (pres 0 (sbd_src d)) -> e < sbd_K d.
Proof.
  intros I e x H. apply pres_in in H. destruct H as [k [E1 E2]].
  assert (k < length (sbd_src d))%nat by (apply nth_error_Some; rewrite E2; discriminate).
  rewrite (inv_len d I) in H. lia.
Qed.

Lemma rep_ge d : sbd_inv d -> forall e x, In (e, x) (sbd_rep d) -> sbd_K d <= e.
Proof. intros I e x H. apply (inv_rep_ge d I). apply in_map_iff. exists (e, x). split; [reflexivity | exact H]. Qed.

Lemma abs_split d : sbd_inv d -> forall e x,
  (In (e, x) (pres 0 (sbd_src d)) <-> In (e, x) (abs d) /\ e < sbd_K d) /\
  (In (e, x) (sbd_rep d) <-> In (e, x) (abs d) /\ sbd_K d <= e).
Proof.
  intros I e x. rewrite abs_in. split; split.
  - intros H. split; [left; exact H | eapply pres_lt; eassumption].
  - intros [[H|H] Hlt]; [exact H|]. pose proof (rep_ge d I e x H). lia.
  - intros H. split; [right; exact H | eapply rep_ge; eassumption].
  - intros [[H|H] Hge]; [|exact H]. pose proof (pres_lt d I e x H). lia.
Qed.

(* ---- a fresh block decoder ---- *)

Lemma sbd_new_inv id c bl d0 : sbd_new id c bl = Ok d0 ->
  sbd_inv d0 /\ abs d0 = [] /\ sbd_id d0 = id /\ sbd_cfg d0 = c /\ sbd_decoded d0 = false /\
  sbd_esis d0 = [] /\ sbd_nsrc d0 = 0.
Proof.
  unfold sbd_new. intros H. destruct (int_div_ceil bl (cT c)) as [k|e] eqn:E; [|discriminate].
  cbn [obind] in H. injection H as <-.
  assert (Hk : k < 2 ^ 32).
  { unfold int_div_ceil in E. destruct (cT c =? 0); [discriminate|].
    destruct (bl mod cT c =? 0); injection E as <-; apply wrap_lt. }
  split; [|unfold abs; rewrite present_sources_pres; cbn [sbd_src sbd_rep]; rewrite pres_repeat_None; repeat split].
  constructor; cbn [sbd_src sbd_K sbd_nsrc sbd_esis sbd_rep].
  - apply repeat_length.
  - rewrite count_some_repeat_None. reflexivity.
  - constructor.
  - intros e. rewrite present_sources_pres. cbn [sbd_src sbd_rep]. rewrite pres_repeat_None. cbn. tauto.
  - constructor.
  - intros e [].
  - exact Hk.
Qed.

(* ---- one packet ---- *)

Lemma add_w_one m a : a + 1 < 2 ^ 32 -> add_w m 32 a 1 = Ok (a + 1).
Proof. intros H. unfold add_w. cbv zeta. apply N.ltb_lt in H. rewrite H. reflexivity. Qed.

Lemma sbd_add_dup m d sbn esi payload :
  sbd_id d = sbn -> In esi (sbd_esis d) -> sbd_add m d ((sbn, esi), payload) = Ok d.
Proof.
  intros Hid Hin. unfold sbd_add. rewrite Hid, N.eqb_refl. cbn [assert_ok obind].
  apply mem_N_spec in Hin. rewrite Hin. reflexivity.
Qed.

Lemma sbd_add_new m d sbn esi payload :
  sbd_inv d -> sbd_id d = sbn -> ~ In esi (sbd_esis d) ->
  exists d', sbd_add m d ((sbn, esi), payload) = Ok d' /\ sbd_inv d' /\
    sbd_id d' = sbd_id d /\ sbd_cfg d' = sbd_cfg d /\ sbd_K d' = sbd_K d /\
    sbd_decoded d' = sbd_decoded d /\
    (forall x, In x (abs d') <-> x = (esi, payload) \/ In x (abs d)).
Proof.
  intros I Hid Hnin. unfold sbd_add. rewrite Hid, N.eqb_refl. cbn [assert_ok obind].
  destruct (mem_N esi (sbd_esis d)) eqn:Em; [apply mem_N_spec in Em; contradiction|].
  assert (Hnabs : forall x, ~ In (esi, x) (abs d)).
  { intros x Hx. apply Hnin. apply (esis_abs d I). exists x. exact Hx. }
  destruct (sbd_K d <=? esi) eqn:EK.
  - (* repair symbol *)
    apply N.leb_le in EK. eexists. split; [reflexivity|].
    split; [|repeat split; try reflexivity].
    + constructor; cbn [sbd_src sbd_K sbd_nsrc sbd_esis sbd_rep].
      * apply (inv_len d I).
      * apply (inv_nsrc d I).
      * constructor; [exact Hnin | apply (inv_esis_nodup d I)].
      * intros e. unfold present_sources. cbn [sbd_src]. fold (present_sources d).
        rewrite map_app, app_assoc, in_app_iff. cbn [map fst In].
        rewrite <- (inv_esis d I e). tauto.
      * rewrite map_app. cbn [map fst].
        apply (Permutation_NoDup (Permutation_cons_append (map fst (sbd_rep d)) esi)).
        constructor; [|apply (inv_rep_nodup d I)].
        intros Hin. apply Hnin. apply (inv_esis d I). apply in_app_iff. right. exact Hin.
      * intros e. rewrite map_app, in_app_iff. cbn [map fst In].
        intros [H|[<-|[]]]; [apply (inv_rep_ge d I); exact H | exact EK].
      * apply (inv_K d I).
    + intros H. unfold abs, present_sources in H. cbn [sbd_src sbd_rep] in H.
      fold (present_sources d) in H. rewrite app_assoc in H. apply in_app_iff in H.
      destruct H as [H|[<-|[]]]; [right; exact H | left; reflexivity].
    + intros H. unfold abs, present_sources. cbn [sbd_src sbd_rep]. fold (present_sources d).
      rewrite app_assoc. apply in_app_iff. destruct H as [->|H]; [right; left; reflexivity | left; exact H].
  - (* source symbol *)
    apply N.leb_gt in EK.
    assert (Hlt : (N.to_nat esi < length (sbd_src d))%nat) by (rewrite (inv_len d I); lia).
    assert (Hnone : nth_error (sbd_src d) (N.to_nat esi) = Some None).
    { destruct (nth_error (sbd_src d) (N.to_nat esi)) as [[x|]|] eqn:E.
      - exfalso. apply (Hnabs x). apply abs_in. left. apply pres_in.
        exists (N.to_nat esi). split; [lia | exact E].
      - reflexivity.
      - apply nth_error_None in E. lia. }
    rewrite list_put_spec by exact Hlt. cbn [obind].
    pose proof (count_some_upd (sbd_src d) (N.to_nat esi) payload Hnone) as Hc.
    pose proof (count_some_le (upd_nth (N.to_nat esi) (Some payload) (sbd_src d))) as Hle.
    rewrite upd_nth_length, (inv_len d I) in Hle.
    pose proof (inv_K d I) as HK.
    rewrite add_w_one by (rewrite (inv_nsrc d I); lia). cbn [obind].
    assert (Hpres : forall i x, In (i, x) (pres 0 (upd_nth (N.to_nat esi) (Some payload) (sbd_src d))) <->
                                (i, x) = (esi, payload) \/ In (i, x) (pres 0 (sbd_src d))).
    { intros i x. rewrite (pres_upd_in _ _ _ Hnone). rewrite N2Nat.id, N.add_0_l. reflexivity. }
    eexists. split; [reflexivity|].
    split; [|repeat split; try reflexivity].
    + constructor; cbn [sbd_src sbd_K sbd_nsrc sbd_esis sbd_rep].
      * rewrite upd_nth_length. apply (inv_len d I).
      * rewrite Hc, (inv_nsrc d I). lia.
      * constructor; [exact Hnin | apply (inv_esis_nodup d I)].
      * intros e. unfold present_sources. cbn [sbd_src].
        change (flat_map _ (enumerate_from 0 ?l)) with (pres 0 l).
        cbn [In]. rewrite (inv_esis d I e), present_sources_pres, !in_app_iff.
        rewrite !in_map_iff. split.
        -- intros [<-|[[[i x] [E Hin]]|H]].
           ++ left. exists (esi, payload). split; [reflexivity|]. apply Hpres. left. reflexivity.
           ++ left. exists (i, x). split; [exact E|]. apply Hpres. right. exact Hin.
           ++ right. exact H.
        -- intros [[[i x] [E Hin]]|H]; [|right; right; exact H].
           apply Hpres in Hin. destruct Hin as [Hin|Hin].
           ++ injection Hin as -> ->. left. exact E.
           ++ right. left. exists (i, x). split; assumption.
      * apply (inv_rep_nodup d I).
      * apply (inv_rep_ge d I).
      * exact HK.
    + intros H. destruct x as [i x]. apply abs_in in H. cbn [sbd_src sbd_rep] in H.
      destruct H as [H|H]; [apply Hpres in H; destruct H as [H|H]; [left; exact H | right; apply abs_in; left; exact H]|].
      right. apply abs_in. right. exact H.
    + intros H. destruct x as [i x]. apply abs_in. cbn [sbd_src sbd_rep].
      destruct H as [H|H]; [left; apply Hpres; left; exact H|].
      apply abs_in in H. destruct H as [H|H]; [left; apply Hpres; right; exact H | right; exact H].
Qed.

(* ---- a history ---- *)

Lemma sbd_run_app m d l1 l2 :
  sbd_run m d (l1 ++ l2) = obind (sbd_run m d l1) (fun d' => sbd_run m d' l2).
Proof. apply ofold_app. Qed.

Lemma sbd_run_inv m d0 : sbd_inv d0 -> forall pkts,
  (forall p, In p pkts -> pkt_sbn p = sbd_id d0) ->
  (forall p q, In p pkts -> In q pkts -> pkt_esi p = pkt_esi q -> pkt_data p = pkt_data q) ->
  (forall p x, In p pkts -> In (pkt_esi p, x) (abs d0) -> pkt_data p = x) ->
  exists d, sbd_run m d0 pkts = Ok d /\ sbd_inv d /\
    sbd_id d = sbd_id d0 /\ sbd_cfg d = sbd_cfg d0 /\ sbd_K d = sbd_K d0 /\
    sbd_decoded d = sbd_decoded d0 /\
    (forall x, In x (abs d) <-> In x (abs d0) \/ In x (pset pkts)).
Proof.
  intros I0 pkts. induction pkts as [|p pkts IH] using rev_ind; intros Hid Hfun Hcomp.
  - exists d0. split; [reflexivity|]. split; [exact I0|]. do 4 (split; [reflexivity|]).
    intros x. cbn [pset map In]. tauto.
  - destruct IH as [d [Hrun [I [Eid [Ecfg [EK [Edec Habs]]]]]]].
    { intros q Hq. apply Hid. apply in_app_iff. left. exact Hq. }
    { intros q r Hq Hr. apply Hfun; apply in_app_iff; left; assumption. }
    { intros q x Hq. apply Hcomp. apply in_app_iff. left. exact Hq. }
    rewrite sbd_run_app, Hrun. cbn [obind]. unfold sbd_run. cbn [ofold].
    assert (Hp : In p (pkts ++ [p])) by (apply in_app_iff; right; left; reflexivity).
    destruct p as [[sbn esi] payload].
    pose proof (Hid _ Hp) as Hsbn. cbn [pkt_sbn fst] in Hsbn.
    destruct (in_dec N.eq_dec esi (sbd_esis d)) as [Hin|Hnin].
    + rewrite sbd_add_dup; [|congruence | exact Hin]. cbn [obind].
      exists d. split; [reflexivity|]. split; [exact I|]. do 4 (split; [assumption|]).
      intros x. split.
      * intros H. apply Habs in H. destruct H as [H|H]; [left; exact H | right].
        unfold pset. rewrite map_app. apply in_app_iff. left. exact H.
      * intros H. apply Habs. destruct H as [H|H]; [left; exact H|].
        unfold pset in H. rewrite map_app in H. apply in_app_iff in H.
        destruct H as [H|[<-|[]]]; [right; exact H|]. cbn [pkt_esi pkt_data fst snd].
        apply (esis_abs d I) in Hin. destruct Hin as [y Hy].
        assert (payload = y); [|subst y; apply Habs; exact Hy].
        apply Habs in Hy. destruct Hy as [Hy|Hy].
        -- apply (Hcomp _ y Hp). exact Hy.
        -- unfold pset in Hy. apply in_map_iff in Hy. destruct Hy as [q [Eq Hq]].
           injection Eq as E1 E2. subst y.
           apply (Hfun ((sbn, esi), payload) q Hp); [apply in_app_iff; left; exact Hq|].
           cbn [pkt_esi fst snd]. symmetry. exact E1.
    + destruct (sbd_add_new m d sbn esi payload I ltac:(congruence) Hnin)
        as [d' [Hadd [I' [Eid' [Ecfg' [EK' [Edec' Habs']]]]]]].
      rewrite Hadd. cbn [obind]. exists d'. split; [reflexivity|]. split; [exact I'|].
      do 4 (split; [congruence|]). intros x. split.
      * intros H. apply Habs' in H. destruct H as [->|H].
        -- right. unfold pset. rewrite map_app. apply in_app_iff. right. left. reflexivity.
        -- apply Habs in H. destruct H as [H|H]; [left; exact H | right].
           unfold pset. rewrite map_app. apply in_app_iff. left. exact H.
      * intros H. apply Habs'. destruct H as [H|H]; [right; apply Habs; left; exact H|].
        unfold pset in H. rewrite map_app in H. apply in_app_iff in H.
        destruct H as [H|[<-|[]]]; [right; apply Habs; right; exact H | left; reflexivity].
Qed.

(* the history form used by the theorems: from a fresh decoder *)
Lemma consistent_run m id c bl d0 pkts :
  sbd_new id c bl = Ok d0 -> consistent id (N.to_nat (cT c)) pkts ->
  exists d, sbd_run m d0 pkts = Ok d /\ sbd_inv d /\
    sbd_id d = id /\ sbd_cfg d = c /\ sbd_K d = sbd_K d0 /\ sbd_decoded d = false /\
    (forall x, In x (abs d) <-> In x (pset pkts)).
Proof.
  intros Hnew [C1 [C2 [C3 C4]]].
  destruct (sbd_new_inv id c bl d0 Hnew) as [I0 [Habs0 [Eid [Ecfg [Edec _]]]]].
  destruct (sbd_run_inv m d0 I0 pkts) as [d [Hrun [I [Eid' [Ecfg' [EK [Edec' Habs]]]]]]].
  - intros p Hp. rewrite Eid. apply C1. exact Hp.
  - exact C2.
  - intros p x _ H. rewrite Habs0 in H. destruct H.
  - exists d. split; [exact Hrun|]. split; [exact I|]. do 4 (split; [congruence|]). intros x. split.
    + intros H. apply Habs in H. rewrite Habs0 in H. destruct H as [[]|H]. exact H.
    + intros H. apply Habs. right. exact H.
Qed.

Lemma reached_inv m d pkts : reached m d pkts ->
  sbd_inv d /\ (forall x, In x (abs d) <-> In x (pset pkts)) /\ sized d.
Proof.
  intros [id [c [bl [d0 [Hnew [Hc Hrun]]]]]].
  destruct (consistent_run m id c bl d0 pkts Hnew Hc) as [d' [Hrun' [I [Eid [Ecfg [EK [Edec Habs]]]]]]].
  rewrite Hrun in Hrun'. injection Hrun' as <-.
  split; [exact I|]. split; [exact Habs|].
  unfold sized. apply Forall_forall. intros [e x] Hin. apply Habs in Hin.
  unfold pset in Hin. apply in_map_iff in Hin. destruct Hin as [p [E Hp]]. injection E as <- <-.
  destruct Hc as [_ [_ [C3 C4]]]. cbn [fst snd]. rewrite Ecfg. split; [apply C3 | apply C4]; exact Hp.
Qed.

(* ---- the state is a function of the set of packets ---- *)

Lemma equiv_of_same_abs d1 d2 :
  sbd_inv d1 -> sbd_inv d2 -> sbd_id d1 = sbd_id d2 -> sbd_cfg d1 = sbd_cfg d2 -> sbd_K d1 = sbd_K d2 ->
  (forall x, In x (abs d1) <-> In x (abs d2)) -> sbd_equiv d1 d2.
Proof.
  intros I1 I2 Eid Ecfg EK Habs.
  assert (Esrc : sbd_src d1 = sbd_src d2).
  { apply opt_list_ext; [rewrite (inv_len d1 I1), (inv_len d2 I2), EK; reflexivity|].
    intros k x.
    assert (G : forall d, nth_error (sbd_src d) k = Some (Some x) <-> In (N.of_nat k, x) (pres 0 (sbd_src d))).
    { intros d. rewrite pres_in. split.
      - intros H. exists k. split; [lia | exact H].
      - intros [k' [E H]]. assert (k' = k) by lia. subst k'. exact H. }
    rewrite !G. rewrite (proj1 (abs_split d1 I1 _ _)), (proj1 (abs_split d2 I2 _ _)), Habs, EK. reflexivity. }
  repeat split; try assumption.
  - rewrite (inv_nsrc d1 I1), (inv_nsrc d2 I2), Esrc. reflexivity.
  - intros H. apply (esis_abs d1 I1) in H. destruct H as [y Hy]. apply (esis_abs d2 I2). exists y. apply Habs. exact Hy.
  - intros H. apply (esis_abs d2 I2) in H. destruct H as [y Hy]. apply (esis_abs d1 I1). exists y. apply Habs. exact Hy.
  - apply NoDup_Permutation.
    + apply (NoDup_of_map fst). apply (inv_rep_nodup d1 I1).
    + apply (NoDup_of_map fst). apply (inv_rep_nodup d2 I2).
    + intros [e x]. rewrite (proj2 (abs_split d1 I1 _ _)), (proj2 (abs_split d2 I2 _ _)), Habs, EK. reflexivity.
Qed.

Lemma sbd_equiv_sym d1 d2 : sbd_equiv d1 d2 -> sbd_equiv d2 d1.
Proof.
  intros [E1 [E2 [E3 [E4 [E5 [E6 E7]]]]]]. repeat split; try (symmetry; assumption).
  - apply E6.
  - apply E6.
Qed.

Lemma set_determined m id c bl d0 l1 l2 d1 d2 :
  sbd_new id c bl = Ok d0 ->
  consistent id (N.to_nat (cT c)) l1 -> consistent id (N.to_nat (cT c)) l2 ->
  same_set (pset l1) (pset l2) ->
  sbd_run m d0 l1 = Ok d1 -> sbd_run m d0 l2 = Ok d2 -> sbd_equiv d1 d2.
Proof.
  intros Hnew C1 C2 Hset R1 R2.
  destruct (consistent_run m id c bl d0 l1 Hnew C1) as [d1' [R1' [I1 [Eid1 [Ecfg1 [EK1 [_ Habs1]]]]]]].
  destruct (consistent_run m id c bl d0 l2 Hnew C2) as [d2' [R2' [I2 [Eid2 [Ecfg2 [EK2 [_ Habs2]]]]]]].
  rewrite R1 in R1'. injection R1' as <-. rewrite R2 in R2'. injection R2' as <-.
  apply equiv_of_same_abs; try assumption; try congruence.
  intros x. rewrite Habs1, Habs2. apply Hset.
Qed.

(* ---- checking consistency of a concrete history ---- *)

Lemma consistentb_ok id T pkts : consistentb id T pkts = true -> consistent id T pkts.
Proof.
  unfold consistentb. intros H. apply andb_true_iff in H. destruct H as [H1 H2].
  rewrite forallb_forall in H1, H2.
  assert (G : forall p, In p pkts -> pkt_sbn p = id /\ length (pkt_data p) = T /\ pkt_esi p < 2 ^ 24).
  { intros p Hp. specialize (H1 p Hp). apply andb_true_iff in H1. destruct H1 as [H1 Hc].
    apply andb_true_iff in H1. destruct H1 as [Ha Hb].
    split; [apply N.eqb_eq; exact Ha|]. split; [apply Nat.eqb_eq; exact Hb | apply N.ltb_lt; exact Hc]. }
  split; [intros p Hp; apply (G p Hp)|]. split; [|split; intros p Hp; apply (G p Hp)].
  intros p q Hp Hq E. specialize (H2 p Hp). rewrite forallb_forall in H2. specialize (H2 q Hq).
  apply orb_true_iff in H2. destruct H2 as [H2|H2].
  - apply negb_true_iff in H2. apply N.eqb_neq in H2. contradiction.
  - apply vec_eqb_eq. exact H2.
Qed.

Lemma consistent_prefix id T l1 l2 : consistent id T (l1 ++ l2) -> consistent id T l1.
Proof.
  intros [C1 [C2 [C3 C4]]].
  assert (S : forall p, In p l1 -> In p (l1 ++ l2)) by (intros p Hp; apply in_app_iff; left; exact Hp).
  split; [intros p Hp; apply C1; auto|]. split; [intros p q Hp Hq; apply C2; auto|].
  split; intros p Hp; [apply C3 | apply C4]; auto.
Qed.
