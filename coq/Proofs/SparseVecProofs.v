(* Proofs about Model/SparseMatrix.v, part 1: `SparseBinaryVec` (strictly increasing key vectors:
   search / insert / remove / add_assign as set operations), the polymorphic vector primitives, and
   `ImmutableListMap` (what `build` puts under each key). *)
From Coq Require Import NArith ZArith List Bool Lia Arith Sorted ZifyBool ZifyN.
From RQ Require Import Base.Outcome Base.Ints Base.ListX Spec.BitMatrix Model.DenseMatrix
  Model.SparseMatrix Proofs.DenseBits Proofs.DenseMatrixProofs.
Import ListNotations.
Open Scope N_scope.

(* ---------------- membership and strict sortedness ---------------- *)

Definition memN (k : N) (l : list N) : bool := existsb (N.eqb k) l.
Definition ssorted (l : list N) : Prop := StronglySorted N.lt l.

Lemma memN_In k l : memN k l = true <-> In k l.
Proof.
  unfold memN. rewrite existsb_exists. split.
  - intros [x [Hx E]]. apply N.eqb_eq in E. subst. exact Hx.
  - intros H. exists k. split; [exact H | apply N.eqb_refl].
Qed.

Lemma memN_false_In k l : memN k l = false <-> ~ In k l.
Proof.
  rewrite <- memN_In. destruct (memN k l); split; intros H; congruence.
Qed.

Lemma memN_cons k x l : memN k (x :: l) = (k =? x) || memN k l.
Proof. reflexivity. Qed.

Lemma ssorted_nil : ssorted []. Proof. constructor. Qed.

Lemma ssorted_cons_inv x l : ssorted (x :: l) -> ssorted l /\ Forall (fun y => x < y) l.
Proof. intros H. inversion H; subst. split; assumption. Qed.

Lemma ssorted_cons x l : ssorted l -> Forall (fun y => x < y) l -> ssorted (x :: l).
Proof. intros. constructor; assumption. Qed.

Lemma memN_lt_false k l : Forall (fun y => k < y) l -> memN k l = false.
Proof.
  intros H. apply memN_false_In. intros Hin. rewrite Forall_forall in H. specialize (H k Hin). lia.
Qed.

Lemma ssorted_NoDup l : ssorted l -> NoDup l.
Proof.
  induction l as [|x t IH]; intros H; [constructor|].
  apply ssorted_cons_inv in H. destruct H as [Hs Hf]. constructor; [|apply IH; exact Hs].
  intros Hin. rewrite Forall_forall in Hf. specialize (Hf x Hin). lia.
Qed.

(* ---------------- polymorphic vector primitives ---------------- *)

Lemma lget_ok {A} (l : list A) i d : i < N.of_nat (length l) -> lget l i = Ok (nth (N.to_nat i) l d).
Proof.
  intros H. unfold lget. apply N.ltb_lt in H. rewrite H. unfold nth_ok.
  rewrite (nth_error_nth' l (N.to_nat i) d) by (apply N.ltb_lt in H; lia). reflexivity.
Qed.

Lemma lset_ok {A} (l : list A) i x : i < N.of_nat (length l) -> lset l i x = Ok (upd l (N.to_nat i) x).
Proof. intros H. unfold lset. apply N.ltb_lt in H. rewrite H. reflexivity. Qed.

Lemma nth_upd_N {A} (l : list A) p x q d : p < N.of_nat (length l) ->
  nth (N.to_nat q) (upd l (N.to_nat p) x) d = if q =? p then x else nth (N.to_nat q) l d.
Proof.
  intros Hp. rewrite nth_upd by lia.
  destruct (q =? p) eqn:E.
  - apply N.eqb_eq in E. subst. rewrite Nat.eqb_refl. reflexivity.
  - apply N.eqb_neq in E. destruct (Nat.eqb (N.to_nat q) (N.to_nat p)) eqn:E2; [|reflexivity].
    apply Nat.eqb_eq in E2. lia.
Qed.

Lemma Forall_nth_N {A} (P : A -> Prop) l p d : Forall P l -> p < N.of_nat (length l) ->
  P (nth (N.to_nat p) l d).
Proof. intros H Hp. rewrite Forall_forall in H. apply H. apply nth_In. lia. Qed.

(* ---------------- search ---------------- *)

Definition shift_res (d : nat) (r : bsres) : bsres :=
  match r with Found i => Found (d + i) | Missing i => Missing (d + i) end.

Lemma sv_search_from_shift l k idx : sv_search_from l k idx = shift_res idx (sv_search_from l k 0).
Proof.
  revert idx. induction l as [|x t IH]; intros idx; cbn [sv_search_from shift_res].
  - f_equal. lia.
  - destruct (x =? k); [cbn [shift_res]; f_equal; lia|].
    destruct (k <? x); [cbn [shift_res]; f_equal; lia|].
    rewrite (IH (S idx)), (IH 1%nat). destruct (sv_search_from t k 0); cbn [shift_res]; f_equal; lia.
Qed.

Lemma sv_search_cons x t k :
  sv_search (x :: t) k = if x =? k then Found 0 else if k <? x then Missing 0
                         else shift_res 1 (sv_search t k).
Proof.
  unfold sv_search. cbn [sv_search_from]. destruct (x =? k); [reflexivity|].
  destruct (k <? x); [reflexivity|]. apply sv_search_from_shift.
Qed.

Lemma Forall_lt_trans x y l : x < y -> Forall (fun z => y < z) l -> Forall (fun z => x < z) l.
Proof. intros H HF. eapply Forall_impl; [|exact HF]. cbv beta. intros. lia. Qed.

(* Found: the key is present; removing it is set difference *)
Lemma sv_search_found l k i : ssorted l -> sv_search l k = Found i ->
  memN k l = true /\ ssorted (remove_at l i) /\
  (forall x, memN x (remove_at l i) = memN x l && negb (x =? k)) /\
  (forall P : N -> Prop, Forall P l -> Forall P (remove_at l i)).
Proof.
  revert i. induction l as [|x t IH]; intros i Hs Hf.
  - discriminate.
  - rewrite sv_search_cons in Hf. apply ssorted_cons_inv in Hs. destruct Hs as [Hs Hlt].
    destruct (x =? k) eqn:E1.
    + apply N.eqb_eq in E1. subst x. inversion Hf; subst i. cbn [remove_at].
      split; [rewrite memN_cons, N.eqb_refl; reflexivity|]. split; [exact Hs|]. split.
      * intros y. rewrite memN_cons. destruct (y =? k) eqn:E; cbn [orb negb andb].
        -- apply N.eqb_eq in E. subst. apply memN_lt_false. exact Hlt.
        -- rewrite andb_true_r. reflexivity.
      * intros P HP. inversion HP; assumption.
    + destruct (k <? x) eqn:E2; [discriminate|].
      destruct (sv_search t k) as [i0|i0] eqn:Es; cbn [shift_res] in Hf; [|discriminate].
      inversion Hf; subst i. cbn [Nat.add remove_at].
      destruct (IH i0 Hs eq_refl) as [Hm [Hs' [Hx HP]]].
      split; [rewrite memN_cons, Hm; apply orb_true_r|]. split.
      * apply ssorted_cons; [exact Hs'|]. apply HP. exact Hlt.
      * split.
        -- intros y. rewrite !memN_cons, Hx. apply N.eqb_neq in E1.
           destruct (y =? x) eqn:E; cbn [orb]; [|reflexivity].
           apply N.eqb_eq in E. subst y. destruct (x =? k) eqn:E'; [apply N.eqb_eq in E'; contradiction|].
           reflexivity.
        -- intros P HP'. inversion HP'; subst. constructor; [assumption|]. apply HP. assumption.
Qed.

(* Missing: the key is absent; inserting it at the reported position is set union *)
Lemma sv_search_missing l k i : ssorted l -> sv_search l k = Missing i ->
  memN k l = false /\ ssorted (insert_at l i k) /\
  (forall x, memN x (insert_at l i k) = (x =? k) || memN x l) /\
  (forall P : N -> Prop, Forall P l -> P k -> Forall P (insert_at l i k)).
Proof.
  revert i. induction l as [|x t IH]; intros i Hs Hf.
  - inversion Hf; subst i. cbn [insert_at]. split; [reflexivity|]. split.
    + apply ssorted_cons; [constructor | constructor].
    + split; [intros; reflexivity|]. intros P _ Hk. constructor; [exact Hk | constructor].
  - rewrite sv_search_cons in Hf. pose proof Hs as Hs0.
    apply ssorted_cons_inv in Hs. destruct Hs as [Hs Hlt].
    destruct (x =? k) eqn:E1; [discriminate|]. apply N.eqb_neq in E1.
    destruct (k <? x) eqn:E2.
    + apply N.ltb_lt in E2. inversion Hf; subst i. cbn [insert_at].
      split.
      * rewrite memN_cons. destruct (k =? x) eqn:E; [apply N.eqb_eq in E; lia|]. cbn [orb].
        apply memN_lt_false. apply (Forall_lt_trans k x); assumption.
      * split.
        -- apply ssorted_cons; [exact Hs0|]. constructor; [exact E2|].
           apply (Forall_lt_trans k x); assumption.
        -- split; [intros; reflexivity|]. intros P HP Hk. constructor; assumption.
    + apply N.ltb_ge in E2.
      destruct (sv_search t k) as [i0|i0] eqn:Es; cbn [shift_res] in Hf; [discriminate|].
      inversion Hf; subst i. cbn [Nat.add insert_at].
      destruct (IH i0 Hs eq_refl) as [Hm [Hs' [Hx HP]]].
      split.
      * rewrite memN_cons, Hm. destruct (k =? x) eqn:E; [apply N.eqb_eq in E; lia | reflexivity].
      * split.
        -- apply ssorted_cons; [exact Hs'|]. apply HP; [exact Hlt | lia].
        -- split.
           ++ intros y. rewrite !memN_cons, Hx. destruct (y =? x); destruct (y =? k); reflexivity.
           ++ intros P HP' Hk. inversion HP'; subst. constructor; [assumption|]. apply HP; assumption.
Qed.

Lemma sv_search_mem l k : ssorted l ->
  memN k l = match sv_search l k with Found _ => true | Missing _ => false end.
Proof.
  intros Hs. destruct (sv_search l k) as [i|i] eqn:E.
  - apply (sv_search_found l k i Hs E).
  - apply (sv_search_missing l k i Hs E).
Qed.

(* ---------------- get / remove / insert ---------------- *)

Lemma sv_get_spec l k : ssorted l -> k < 65536 ->
  match sv_get l k with Some v => v | None => 0 end = b2n (memN k l).
Proof.
  intros Hs Hk. unfold sv_get. unfold u16. rewrite wrap_small by exact Hk.
  rewrite (sv_search_mem l k Hs). destruct (sv_search l k); reflexivity.
Qed.

Lemma sv_remove_spec l k : ssorted l -> k < 65536 ->
  ssorted (fst (sv_remove l k)) /\
  (forall x, memN x (fst (sv_remove l k)) = memN x l && negb (x =? k)) /\
  (forall P : N -> Prop, Forall P l -> Forall P (fst (sv_remove l k))) /\
  snd (sv_remove l k) = (if memN k l then Some 1 else None).
Proof.
  intros Hs Hk. unfold sv_remove, u16. rewrite wrap_small by exact Hk.
  destruct (sv_search l k) as [i|i] eqn:E; cbn [fst snd].
  - destruct (sv_search_found l k i Hs E) as [Hm [Hs' [Hx HP]]]. rewrite Hm. auto.
  - destruct (sv_search_missing l k i Hs E) as [Hm _]. rewrite Hm.
    split; [exact Hs|]. split; [|split; [auto | reflexivity]].
    intros x. destruct (x =? k) eqn:Ex; cbn [negb]; [|rewrite andb_true_r; reflexivity].
    apply N.eqb_eq in Ex. subst. rewrite Hm. reflexivity.
Qed.

Lemma sv_insert_spec md l k v : ssorted l -> k < 65536 ->
  exists l', sv_insert md l k v = Ok l' /\ ssorted l' /\
    (forall x, memN x l' = if x =? k then negb (v =? 0) else memN x l) /\
    (forall P : N -> Prop, Forall P l -> P k -> Forall P l').
Proof.
  intros Hs Hk. unfold sv_insert.
  assert (Hd : (match md with Checked => assert_ok (k <? 65536) | Release => Ok tt end) = Ok tt).
  { destruct md; [reflexivity|]. apply N.ltb_lt in Hk. rewrite Hk. reflexivity. }
  rewrite Hd. cbn [obind]. destruct (v =? 0) eqn:Ev; cbn [negb].
  - destruct (sv_remove_spec l k Hs Hk) as [Hs' [Hx [HP _]]].
    eexists. split; [reflexivity|]. split; [exact Hs'|]. split.
    + intros x. rewrite Hx. destruct (x =? k); cbn [negb]; [apply andb_false_r | apply andb_true_r].
    + intros P HPl _. apply HP. exact HPl.
  - unfold u16. rewrite wrap_small by exact Hk.
    destruct (sv_search l k) as [i|i] eqn:E.
    + destruct (sv_search_found l k i Hs E) as [Hm _].
      eexists. split; [reflexivity|]. split; [exact Hs|]. split; [|auto].
      intros x. destruct (x =? k) eqn:Ex; [|reflexivity]. apply N.eqb_eq in Ex. subst. exact Hm.
    + destruct (sv_search_missing l k i Hs E) as [Hm [Hs' [Hx HP]]].
      eexists. split; [reflexivity|]. split; [exact Hs'|]. split; [|exact HP].
      intros x. rewrite Hx. destruct (x =? k); reflexivity.
Qed.

(* ---------------- add_assign ---------------- *)

Lemma sv_merge_nil_r a : sv_merge a [] = (a, false).
Proof. destruct a; reflexivity. Qed.

Lemma sv_merge_spec (P : N -> Prop) a : forall b, ssorted a -> ssorted b ->
  ssorted (fst (sv_merge a b)) /\
  (forall x, memN x (fst (sv_merge a b)) = xorb (memN x a) (memN x b)) /\
  (Forall P a -> Forall P b -> Forall P (fst (sv_merge a b))).
Proof.
  assert (Gen : forall a b, ssorted a -> ssorted b ->
    (forall x, memN x (fst (sv_merge a b)) = xorb (memN x a) (memN x b)) /\
    (forall Q : N -> Prop, Forall Q a -> Forall Q b -> Forall Q (fst (sv_merge a b))) /\
    ssorted (fst (sv_merge a b))).
  { clear a. induction a as [|x ta IHa]; intros b Ha Hb.
    - destruct b as [|y tb]; cbn [sv_merge fst].
      + split; [intros; reflexivity|]. split; [auto | constructor].
      + split; [intros z; change (memN z []) with false; rewrite xorb_false_l; reflexivity|].
        split; [auto | exact Hb].
    - induction b as [|y tb IHb].
      + cbn [sv_merge fst]. split; [intros z; change (memN z []) with false; rewrite xorb_false_r; reflexivity|].
        split; [auto | exact Ha].
      + pose proof Ha as Ha0. pose proof Hb as Hb0.
        apply ssorted_cons_inv in Ha. destruct Ha as [Has Hax].
        apply ssorted_cons_inv in Hb. destruct Hb as [Hbs Hby].
        cbn [sv_merge]. fold (sv_merge ta).
        change ((fix go (b : list N) : list N * bool :=
                   match b with
                   | [] => (x :: ta, false)
                   | y :: tb => if x <? y then let '(r, c) := sv_merge ta b in (x :: r, c)
                                else if x =? y then sv_merge ta tb
                                else let '(r, c) := go tb in (y :: r, true)
                   end) tb) with (sv_merge (x :: ta) tb).
        destruct (x <? y) eqn:E1.
        * apply N.ltb_lt in E1.
          destruct (IHa (y :: tb) Has Hb0) as [Hx [HQ Hsr]].
          destruct (sv_merge ta (y :: tb)) as [r c]. cbn [fst] in *. split; [|split].
          -- intros z. rewrite memN_cons, Hx, (memN_cons z x ta).
             destruct (z =? x) eqn:Ez; cbn [orb]; [|reflexivity].
             apply N.eqb_eq in Ez. subst z.
             assert (Hf : memN x (y :: tb) = false).
             { apply memN_lt_false. constructor; [exact E1|]. apply (Forall_lt_trans x y); assumption. }
             rewrite Hf. reflexivity.
          -- intros Q HQa HQb. inversion HQa; subst. constructor; [assumption|]. apply HQ; assumption.
          -- apply ssorted_cons; [exact Hsr|]. apply HQ; [exact Hax|].
             constructor; [exact E1|]. apply (Forall_lt_trans x y); assumption.
        * apply N.ltb_ge in E1. destruct (x =? y) eqn:E2.
          -- apply N.eqb_eq in E2. subst y.
             destruct (IHa tb Has Hbs) as [Hx [HQ Hsr]]. split; [|split].
             ++ intros z. rewrite Hx, !memN_cons. destruct (z =? x) eqn:Ez; cbn [orb]; [|reflexivity].
                apply N.eqb_eq in Ez. subst z.
                rewrite (memN_lt_false x ta Hax), (memN_lt_false x tb Hby). reflexivity.
             ++ intros Q HQa HQb. inversion HQa; inversion HQb; subst. apply HQ; assumption.
             ++ exact Hsr.
          -- apply N.eqb_neq in E2. assert (Hyx : y < x) by lia.
             destruct (IHb Hbs) as [Hx [HQ Hsr]].
             destruct (sv_merge (x :: ta) tb) as [r c]. cbn [fst] in *. split; [|split].
             ++ intros z. rewrite memN_cons, Hx, (memN_cons z y tb).
                destruct (z =? y) eqn:Ez; cbn [orb]; [|reflexivity].
                apply N.eqb_eq in Ez. subst z.
                assert (Hf : memN y (x :: ta) = false).
                { apply memN_lt_false. constructor; [exact Hyx|]. apply (Forall_lt_trans y x); assumption. }
                rewrite Hf. destruct (memN y tb); reflexivity.
             ++ intros Q HQa HQb. inversion HQb; subst. constructor; [assumption|]. apply HQ; assumption.
             ++ apply ssorted_cons; [exact Hsr|]. apply HQ; [|exact Hby].
                constructor; [exact Hyx|]. apply (Forall_lt_trans y x); assumption. }
  intros b Ha Hb. destruct (Gen a b Ha Hb) as [H1 [H2 H3]]. split; [exact H3|]. split; [exact H1|].
  apply H2.
Qed.

Lemma sv_add_assign_spec (P : N -> Prop) a b : ssorted a -> ssorted b ->
  ssorted (fst (sv_add_assign a b)) /\
  (forall x, memN x (fst (sv_add_assign a b)) = xorb (memN x a) (memN x b)) /\
  (Forall P a -> Forall P b -> Forall P (fst (sv_add_assign a b))) /\
  (forall k, b = [k] -> memN k a = true -> snd (sv_add_assign a b) = false).
Proof.
  intros Ha Hb.
  assert (Hgen : ssorted (fst (sv_merge a b)) /\
     (forall x, memN x (fst (sv_merge a b)) = xorb (memN x a) (memN x b)) /\
     (Forall P a -> Forall P b -> Forall P (fst (sv_merge a b)))) by (apply sv_merge_spec; assumption).
  unfold sv_add_assign. destruct b as [|k [|k2 t]].
  - destruct Hgen as [H1 [H2 H3]]. repeat split; try assumption. intros k E. discriminate.
  - destruct (sv_search a k) as [i|i] eqn:E; cbn [fst snd].
    + destruct (sv_search_found a k i Ha E) as [Hm [Hs' [Hx HP]]].
      split; [exact Hs'|]. split; [|split; [intros HPa _; apply HP; exact HPa | reflexivity]].
      intros x. rewrite Hx. cbn [memN existsb]. rewrite orb_false_r.
      destruct (x =? k) eqn:Ex; cbn [negb].
      * apply N.eqb_eq in Ex. subst. rewrite Hm. reflexivity.
      * rewrite andb_true_r, xorb_false_r. reflexivity.
    + destruct (sv_search_missing a k i Ha E) as [Hm [Hs' [Hx HP]]].
      split; [exact Hs'|]. split; [|split].
      * intros x. rewrite Hx. cbn [memN existsb]. rewrite orb_false_r.
        destruct (x =? k) eqn:Ex; cbn [orb].
        -- apply N.eqb_eq in Ex. subst. rewrite Hm. reflexivity.
        -- rewrite xorb_false_r. reflexivity.
      * intros HPa HPb. apply HP; [exact HPa|]. inversion HPb; assumption.
      * intros k' Ek Hk'. inversion Ek; subst k'. rewrite Hm in Hk'. discriminate.
  - destruct Hgen as [H1 [H2 H3]]. repeat split; try assumption. intros k' E. discriminate.
Qed.

(* ---------------- retain ---------------- *)

Lemma sv_retain_spec (p : N * N -> outcome bool) (g : N -> bool) l :
  (forall x, In x l -> p (x, 1) = Ok (g x)) -> ssorted l ->
  sv_retain p l = Ok (filter g l) /\ ssorted (filter g l).
Proof.
  induction l as [|x t IH]; intros Hp Hs; cbn [sv_retain filter].
  - split; [reflexivity | constructor].
  - apply ssorted_cons_inv in Hs. destruct Hs as [Hs Hlt].
    rewrite (Hp x) by (left; reflexivity). cbn [obind].
    destruct (IH (fun y Hy => Hp y (or_intror Hy)) Hs) as [E Hs']. rewrite E. cbn [obind].
    split; [reflexivity|]. destruct (g x); [|exact Hs'].
    apply ssorted_cons; [exact Hs'|]. rewrite Forall_forall in *. intros y Hy.
    apply filter_In in Hy. apply Hlt. apply Hy.
Qed.

Lemma memN_filter g k l : memN k (filter g l) = memN k l && g k.
Proof.
  induction l as [|x t IH]; [reflexivity|]. cbn [filter]. destruct (g x) eqn:Eg.
  - rewrite !memN_cons, IH. destruct (k =? x) eqn:E; cbn [orb]; [|reflexivity].
    apply N.eqb_eq in E. subst. rewrite Eg. destruct (memN x t); reflexivity.
  - rewrite memN_cons, IH. destruct (k =? x) eqn:E; cbn [orb]; [|reflexivity].
    apply N.eqb_eq in E. subst. rewrite Eg. rewrite andb_false_r. reflexivity.
Qed.

(* ---------------- ImmutableListMap ---------------- *)

(* what the builder stores under key k: the rows, from physical row p0 on, that contain k *)
Fixpoint col_list (rows : list svec) (p0 : N) (k : N) : list N :=
  match rows with
  | [] => []
  | r :: t => (if memN k r then [p0] else []) ++ col_list t (p0 + 1) k
  end.

Lemma filter_key_row (r : list N) (p0 k : N) : NoDup r -> Forall (fun x => x < 65536) r ->
  map snd (filter (fun e : N * N => fst e =? k) (map (fun c => (u16 c, u32 p0)) r)) =
  if memN k r then [u32 p0] else [].
Proof.
  induction r as [|x t IH]; intros Hnd Hk; [reflexivity|].
  inversion Hnd; subst. inversion Hk; subst. cbn [map filter fst].
  unfold u16 at 1. rewrite wrap_small by assumption. rewrite memN_cons, (N.eqb_sym k x).
  destruct (x =? k) eqn:E; cbn [orb map snd].
  - apply N.eqb_eq in E. subst x. rewrite IH by assumption.
    assert (Hf : memN k t = false) by (apply memN_false_In; assumption). rewrite Hf. reflexivity.
  - apply IH; assumption.
Qed.

Lemma index_entries_col rows : forall p0 k,
  Forall (fun r => NoDup r /\ Forall (fun x => x < 65536) r) rows ->
  p0 + N.of_nat (length rows) <= 2 ^ 32 ->
  map snd (filter (fun e : N * N => fst e =? k) (index_entries rows p0)) = col_list rows p0 k.
Proof.
  induction rows as [|r t IH]; intros p0 k HF Hb; [reflexivity|].
  inversion HF as [|? ? [Hnd Hk] HF']; subst. cbn [index_entries col_list length] in *.
  rewrite filter_app, map_app, filter_key_row by assumption.
  rewrite IH by (try assumption; lia).
  unfold u32. rewrite wrap_small by lia. reflexivity.
Qed.

Lemma col_list_In rows : forall p0 k x,
  In x (col_list rows p0 k) <->
  exists j, (j < length rows)%nat /\ x = p0 + N.of_nat j /\ memN k (nth j rows []) = true.
Proof.
  induction rows as [|r t IH]; intros p0 k x; cbn [col_list length].
  - split; [intros [] | intros [j [Hj _]]; lia].
  - rewrite in_app_iff, IH. split.
    + intros [H|[j [Hj [Hx Hm]]]].
      * destruct (memN k r) eqn:E; [|destruct H]. destruct H as [H|[]]. subst x.
        exists 0%nat. split; [lia|]. split; [lia | exact E].
      * exists (S j). split; [lia|]. split; [lia | exact Hm].
    + intros [[|j] [Hj [Hx Hm]]].
      * left. cbn [nth] in Hm. rewrite Hm. left. lia.
      * right. exists j. split; [lia|]. split; [lia | exact Hm].
Qed.

Lemma col_list_sorted rows : forall p0 k, ssorted (col_list rows p0 k) /\
  Forall (fun x => p0 <= x) (col_list rows p0 k).
Proof.
  induction rows as [|r t IH]; intros p0 k; cbn [col_list].
  - split; constructor.
  - destruct (IH (p0 + 1) k) as [Hs Hf].
    assert (Hf' : Forall (fun x => p0 < x) (col_list t (p0 + 1) k)).
    { eapply Forall_impl; [|exact Hf]. cbv beta. intros. lia. }
    destruct (memN k r); cbn [app].
    + split; [apply ssorted_cons; assumption|]. constructor; [lia|].
      eapply Forall_impl; [|exact Hf']. cbv beta. intros. lia.
    + split; [exact Hs|]. eapply Forall_impl; [|exact Hf']. cbv beta. intros. lia.
Qed.

Lemma range_from_0_nth n k : (k < N.to_nat n)%nat -> nth k (range_from 0 n) 0 = N.of_nat k.
Proof.
  intros Hk. unfold range_from. rewrite N.sub_0_r.
  rewrite (nth_indep _ 0 (0 + N.of_nat 0)) by (rewrite map_length, seq_length; exact Hk).
  rewrite (map_nth (fun k => 0 + N.of_nat k) (seq 0 (N.to_nat n)) 0%nat k).
  rewrite seq_nth by exact Hk. lia.
Qed.

Lemma ilm_build_ok n entries :
  N.of_nat (length entries) < 2 ^ 32 - 1 ->
  Forall (fun e => fst e < n) entries ->
  exists ix, ilm_build n entries = Ok ix /\ length ix = N.to_nat n /\
    forall k, k < n -> nth (N.to_nat k) ix [] = map snd (filter (fun e => fst e =? k) entries).
Proof.
  intros Hlen Hk. unfold ilm_build, ilm_build_gen.
  apply N.ltb_lt in Hlen. rewrite Hlen. cbn [negb andb].
  assert (Hall : forallb (fun e => fst e <? n) entries = true).
  { apply forallb_forall. intros e He. rewrite Forall_forall in Hk. apply N.ltb_lt. apply Hk. exact He. }
  rewrite Hall. eexists. split; [reflexivity|]. split.
  - rewrite map_length, range_from_length. f_equal. lia.
  - intros k Hkn.
    rewrite (nth_indep _ [] ((fun k => map snd (filter (fun e => fst e =? k) entries)) 0))
      by (rewrite map_length, range_from_length; lia).
    rewrite (map_nth (fun k => map snd (filter (fun e => fst e =? k) entries)) (range_from 0 n) 0).
    rewrite range_from_0_nth by lia. rewrite N2Nat.id. reflexivity.
Qed.
