(* The selection statistics (FirstPhaseRowSelectionStats) stay exact: st_inv is established by
   st_new and preserved by swap_rows / swap_columns / resize / recompute_row; a selected row has
   exactly r ones in V. *)
From Coq Require Import NArith List Bool Lia Arith Permutation.
From RQ Require Import Base.Outcome Base.Ints Base.ListX Model.Octet Model.CMatrix Model.Slab
  Spec.Linear Proofs.OutcomeLemmas Model.PiSolver
  Proofs.PiSolverBase Proofs.PiSolverStruct Proofs.PiSolverOps Proofs.PiSolverG Proofs.PiSolverInvDefs.
From RQ Require Import Proofs.LinearProofs.
Import ListNotations.
Open Scope N_scope.

(* ================= cnt ================= *)

Lemma firstn_add {A} (l : list A) n m : firstn (n + m) l = firstn n l ++ firstn m (skipn n l).
Proof.
  revert l; induction n as [|n IH]; intros l; [reflexivity|].
  destruct l as [|h t]; cbn [Nat.add firstn skipn app].
  - rewrite firstn_nil. reflexivity.
  - rewrite IH. reflexivity.
Qed.

Lemma skipn_add {A} (l : list A) n m : skipn m (skipn n l) = skipn (n + m) l.
Proof.
  revert l; induction n as [|n IH]; intros l; [reflexivity|].
  destruct l as [|h t]; cbn [Nat.add skipn].
  - apply skipn_nil.
  - apply IH.
Qed.

Lemma count1_app l1 l2 : count1 (l1 ++ l2) = count1 l1 + count1 l2.
Proof. unfold count1, lenN. rewrite filter_app, app_length. lia. Qed.

Lemma cnt_split r a b c : a <= b -> b <= c -> cnt r a c = cnt r a b + cnt r b c.
Proof.
  intros H1 H2. unfold cnt, subl.
  replace (N.to_nat (c - a)) with (N.to_nat (b - a) + N.to_nat (c - b))%nat by lia.
  rewrite firstn_add, skipn_add, count1_app.
  replace (N.to_nat a + N.to_nat (b - a))%nat with (N.to_nat b) by lia. reflexivity.
Qed.

Lemma cnt_one r a : cnt r a (a + 1) = if nth (N.to_nat a) r 0 =? 1 then 1 else 0.
Proof.
  unfold cnt, subl. replace (N.to_nat (a + 1 - a)) with 1%nat by lia.
  replace (nth (N.to_nat a) r 0) with (nth 0 (skipn (N.to_nat a) r) 0)
    by (rewrite nth_skipn'; f_equal; lia).
  destruct (skipn (N.to_nat a) r) as [|h t]; [reflexivity|].
  cbn [firstn nth]. unfold count1. cbn [filter]. destruct (h =? 1); reflexivity.
Qed.

Lemma cnt_empty r s e : e <= s -> cnt r s e = 0.
Proof. intros H. unfold cnt, subl. replace (e - s) with 0 by lia. reflexivity. Qed.

Lemma cnt_last r s e : s < e -> cnt r s e = cnt r s (e - 1) + (if nth (N.to_nat (e - 1)) r 0 =? 1 then 1 else 0).
Proof.
  intros H. rewrite (cnt_split r s (e - 1) e) by lia. f_equal.
  pose proof (cnt_one r (e - 1)) as C. replace (e - 1 + 1) with e in C by lia. exact C.
Qed.

Lemma cnt_first r s e : s < e -> cnt r s e = (if nth (N.to_nat s) r 0 =? 1 then 1 else 0) + cnt r (s + 1) e.
Proof.
  intros H. rewrite (cnt_split r s (s + 1) e) by lia. rewrite cnt_one. reflexivity.
Qed.

Lemma cnt_ext r r' s e :
  (forall k, s <= k < e -> nth (N.to_nat k) r' 0 = nth (N.to_nat k) r 0) -> cnt r' s e = cnt r s e.
Proof.
  remember (N.to_nat (e - s)) as n eqn:En. revert e En. induction n as [|n IH]; intros e En H.
  - rewrite !cnt_empty by lia. reflexivity.
  - rewrite (cnt_last r' s e), (cnt_last r s e) by lia.
    rewrite (IH (e - 1)) by (try lia; intros; apply H; lia).
    rewrite H by lia. reflexivity.
Qed.

Lemma cnt_le r s e : cnt r s e <= e - s.
Proof.
  remember (N.to_nat (e - s)) as n eqn:En. revert e En. induction n as [|n IH]; intros e En.
  - rewrite cnt_empty by lia. lia.
  - rewrite cnt_last by lia. pose proof (IH (e - 1) ltac:(lia)).
    destruct (nth (N.to_nat (e - 1)) r 0 =? 1); lia.
Qed.

Lemma cnt_zero r s e : (forall k, s <= k < e -> nth (N.to_nat k) r 0 <> 1) -> cnt r s e = 0.
Proof.
  remember (N.to_nat (e - s)) as n eqn:En. revert e En. induction n as [|n IH]; intros e En H.
  - apply cnt_empty. lia.
  - rewrite cnt_last by lia. rewrite (IH (e - 1)) by (try lia; intros; apply H; lia).
    destruct (N.eqb_spec (nth (N.to_nat (e - 1)) r 0) 1) as [E|_]; [|reflexivity].
    exfalso. apply (H (e - 1)); [lia | exact E].
Qed.

(* a transposition of two positions inside the window keeps the count *)
Lemma cnt_swap r r' a b s e :
  (forall k, nth k r' 0 = nth (tr (N.to_nat a) (N.to_nat b) k) r 0) ->
  s <= a < e -> s <= b < e -> cnt r' s e = cnt r s e.
Proof.
  assert (W : forall a b, (forall k, nth k r' 0 = nth (tr (N.to_nat a) (N.to_nat b) k) r 0) ->
            s <= a -> a < b -> b < e -> cnt r' s e = cnt r s e).
  { clear a b. intros a b Hn Ha Hab Hb.
    assert (Ho : forall k, k <> a -> k <> b -> nth (N.to_nat k) r' 0 = nth (N.to_nat k) r 0).
    { intros k H1 H2. rewrite Hn, tr_other by lia. reflexivity. }
    rewrite (cnt_split r' s a e), (cnt_split r s a e) by lia.
    rewrite (cnt_first r' a e), (cnt_first r a e) by lia.
    rewrite (cnt_split r' (a + 1) b e), (cnt_split r (a + 1) b e) by lia.
    rewrite (cnt_first r' b e), (cnt_first r b e) by lia.
    rewrite (cnt_ext r r' s a) by (intros; apply Ho; lia).
    rewrite (cnt_ext r r' (a + 1) b) by (intros; apply Ho; lia).
    rewrite (cnt_ext r r' (b + 1) e) by (intros; apply Ho; lia).
    rewrite (Hn (N.to_nat a)), tr_l. rewrite (Hn (N.to_nat b)), tr_r. lia. }
  intros Hn Ha Hb. destruct (N.lt_trichotomy a b) as [L|[E|L]].
  - apply (W a b); try lia. exact Hn.
  - subst b. apply cnt_ext. intros k _. rewrite Hn. unfold tr.
    destruct (Nat.eqb_spec (N.to_nat k) (N.to_nat a)) as [E|_]; [rewrite E|]; reflexivity.
  - apply (W b a); try lia. intros k. rewrite Hn. f_equal. unfold tr.
    destruct (Nat.eqb_spec k (N.to_nat a)) as [E1|N1]; destruct (Nat.eqb_spec k (N.to_nat b)) as [E2|N2];
      try reflexivity. lia.
Qed.

(* ================= col_scan / bm_ones_in_col ================= *)

Lemma col_scan_spec rows col : forall r l, col_scan rows col r = Ok l ->
  NoDup l /\ forall x, In x l <->
    exists k, (k < length rows)%nat /\ x = r + N.of_nat k /\ nth col (nth k rows []) 0 = 1.
Proof.
  induction rows as [|row t IH]; intros r l H; cbn [col_scan] in H.
  - inversion H; subst. split; [constructor|]. intros x; split; [intros []|].
    intros [k [Hk _]]. cbn in Hk; lia.
  - oinvas H as v Ev. oinvas H as rest Er. inversion H; subst; clear H.
    destruct (IH _ _ Er) as [ND HI]. destruct (nth_ok_inv _ _ _ 0 Ev) as [Lc Hv].
    assert (Hrest : forall x, In x rest -> N.succ r <= x).
    { intros x Hx. apply HI in Hx. destruct Hx as [k [_ [-> _]]]. lia. }
    split.
    + destruct (v =? 1); [|exact ND]. constructor; [|exact ND]. intros Hin. apply Hrest in Hin. lia.
    + intros x. split.
      * intros Hin. assert (Hc : (v = 1 /\ x = r) \/ In x rest).
        { destruct (N.eqb_spec v 1); [destruct Hin; auto | auto]. }
        destruct Hc as [[Hv1 ->]|Hin'].
        -- exists 0%nat. cbn [length nth]. repeat split; [lia|lia|]. rewrite <- Hv. exact Hv1.
        -- apply HI in Hin'. destruct Hin' as [k [Hk [-> Hn]]]. exists (S k). cbn [length nth].
           repeat split; [lia|lia|exact Hn].
      * intros [k [Hk [-> Hn]]]. destruct k as [|k]; cbn [nth length] in *.
        -- rewrite <- Hv in Hn. rewrite Hn. left. lia.
        -- assert (In (r + N.of_nat (S k)) rest).
           { apply HI. exists k. repeat split; [lia|lia|exact Hn]. }
           destruct (v =? 1); [right|]; assumption.
Qed.

Lemma bm_ones_in_col_spec A col s e l : bm_ones_in_col A col s e = Ok l ->
  NoDup l /\ forall x, In x l <-> (s <= x < e /\ cell A x col = 1).
Proof.
  unfold bm_ones_in_col. intros H.
  destruct (N.leb_spec e s) as [Les|Lse]; cbn [orb] in H.
  - unfold subl in H. replace (e - s) with 0 in H by lia. cbn in H. inversion H; subst.
    split; [constructor|]. intros x; split; [intros [] | lia].
  - destruct (N.leb_spec e (lenN A)) as [LeA|]; [|discriminate].
    destruct (col_scan_spec _ _ _ _ H) as [ND HI]. split; [exact ND|].
    pose proof (subl_length A s e LeA) as Hl.
    intros x. rewrite HI. split.
    + intros [k [Hk [-> Hn]]]. rewrite Hl in Hk. split; [lia|].
      rewrite subl_nth in Hn by exact Hk. unfold cell, rowN.
      replace (N.to_nat (s + N.of_nat k)) with (N.to_nat s + k)%nat by lia. exact Hn.
    + intros [Hx Hc]. exists (N.to_nat (x - s)). rewrite Hl. repeat split; [lia|lia|].
      rewrite subl_nth by lia. unfold cell, rowN in Hc.
      replace (N.to_nat s + N.to_nat (x - s))%nat with (N.to_nat x) by lia. exact Hc.
Qed.

(* ================= position / swap_remove / single_remove ================= *)

Lemma position_some l x : forall k j, position l x k = Some j ->
  exists l1 l2, l = l1 ++ x :: l2 /\ (j = k + length l1)%nat.
Proof.
  induction l as [|y t IH]; intros k j H; cbn [position] in H; [discriminate|].
  destruct (N.eqb_spec y x) as [->|Hn].
  - inversion H; subst. exists [], t. split; [reflexivity | cbn; lia].
  - destruct (IH _ _ H) as [l1 [l2 [-> Hj]]]. exists (y :: l1), l2. split; [reflexivity | cbn; lia].
Qed.

Lemma position_none l x : forall k, position l x k = None -> ~ In x l.
Proof.
  induction l as [|y t IH]; intros k H; cbn [position] in H; [intros []|].
  destruct (N.eqb_spec y x) as [->|Hn]; [discriminate|].
  intros [E|Hin]; [congruence | exact (IH _ H Hin)].
Qed.

Lemma firstn_exact {A} (l1 l2 : list A) : firstn (length l1) (l1 ++ l2) = l1.
Proof. induction l1 as [|h t IH]; cbn [length firstn app]; [reflexivity | rewrite IH; reflexivity]. Qed.
Lemma skipn_exact_S {A} (l1 : list A) x l2 : skipn (S (length l1)) (l1 ++ x :: l2) = l2.
Proof. induction l1 as [|h t IH]; cbn [length skipn app]; [reflexivity | exact IH]. Qed.

Lemma swap_remove_perm l1 x l2 : Permutation (swap_remove (l1 ++ x :: l2) (length l1)) (l1 ++ l2).
Proof.
  unfold swap_remove.
  destruct l2 as [|y l2 _] using rev_ind.
  - rewrite rev_app_distr. cbn [rev app]. rewrite app_length. cbn [length].
    replace (Nat.eqb (S (length l1)) (length l1 + 1)) with true by (symmetry; apply Nat.eqb_eq; lia).
    rewrite firstn_exact, app_nil_r. reflexivity.
  - replace (l1 ++ x :: l2 ++ [y]) with ((l1 ++ x :: l2) ++ [y]) by (rewrite <- app_assoc; reflexivity).
    rewrite rev_app_distr. cbn [rev app].
    assert (EL : length ((l1 ++ x :: l2) ++ [y]) = (length l1 + length l2 + 2)%nat).
    { rewrite !app_length. cbn [length]. lia. }
    rewrite EL.
    replace (Nat.eqb (S (length l1)) (length l1 + length l2 + 2)) with false
      by (symmetry; apply Nat.eqb_neq; lia).
    replace ((l1 ++ x :: l2) ++ [y]) with (l1 ++ x :: (l2 ++ [y])) by (rewrite <- app_assoc; reflexivity).
    rewrite firstn_exact, skipn_exact_S.
    replace (length l1 + length l2 + 2 - length l1 - 2)%nat with (length l2) by lia.
    rewrite firstn_exact. apply Permutation_app_head. apply Permutation_cons_append.
Qed.

Lemma NoDup_app_one {A} (l : list A) x : NoDup l -> ~ In x l -> NoDup (l ++ [x]).
Proof.
  intros ND Hn. apply (Permutation_NoDup (Permutation_cons_append l x)). constructor; assumption.
Qed.

Lemma single_remove_spec l x : NoDup l ->
  NoDup (single_remove l x) /\ forall y, In y (single_remove l x) <-> (In y l /\ y <> x).
Proof.
  intros ND. unfold single_remove. destruct (position l x 0) as [k|] eqn:E.
  - destruct (position_some _ _ _ _ E) as [l1 [l2 [-> Hk]]]. cbn in Hk. subst k.
    pose proof (swap_remove_perm l1 x l2) as P.
    pose proof (NoDup_remove _ _ _ ND) as [ND' Hni].
    split.
    + apply (Permutation_NoDup (Permutation_sym P) ND').
    + intros y. split.
      * intros Hy. apply (Permutation_in _ P) in Hy. split.
        -- apply in_app_or in Hy. apply in_or_app. destruct Hy; [left | right; right]; assumption.
        -- intros ->. exact (Hni Hy).
      * intros [Hy Hne]. apply (Permutation_in _ (Permutation_sym P)).
        apply in_app_or in Hy. apply in_or_app. destruct Hy as [Hy|[Hy|Hy]]; [left | congruence | right]; assumption.
  - split; [exact ND|]. intros y. split; [|tauto]. intros Hy. split; [exact Hy|].
    intros ->. exact (position_none _ _ _ E Hy).
Qed.

(* ================= frame lemmas: the graph functions change st_g only ================= *)

Lemma st_add_graph_edge_frame m s A row sc ec s' :
  st_add_graph_edge m s A row sc ec = Ok s' -> exists g, s' = st_set_g s g.
Proof. unfold st_add_graph_edge. intros H. omon H. inversion H. eauto. Qed.

Lemma rebuild_cc_frame m s A a b s' : rebuild_cc m s A a b = Ok s' -> exists g, s' = st_set_g s g.
Proof. unfold rebuild_cc. intros H. omon H. inversion H. eauto. Qed.

Lemma st_inv_set_g A st g i er sc ec : st_inv A st i er sc ec -> st_inv A (st_set_g st g) i er sc ec.
Proof. intros [H1 H2 H3 H4 H5 H6 H7]. constructor; assumption. Qed.

(* ================= st_inv_ext ================= *)

Lemma st_inv_ext st A A' i er sc ec : st_inv A st i er sc ec -> lenN A' = lenN A ->
  (forall k, i <= k < er -> cnt (rowN A' k) sc ec = cnt (rowN A k) sc ec) -> st_inv A' st i er sc ec.
Proof.
  intros [H1 H2 H3 H4 H5 H6 H7] HL HC. constructor; try assumption.
  - congruence.
  - intros k Hk. rewrite HC by exact Hk. apply H5. exact Hk.
Qed.

(* ================= st_new ================= *)

Lemma bm_count_ones_inv A row s e v : bm_count_ones A row s e = Ok v -> v = cnt (rowN A row) s e.
Proof.
  unfold bm_count_ones. destruct (N.leb_spec e s) as [L|L].
  - intros H. inversion H. rewrite cnt_empty by exact L. reflexivity.
  - intros H. oinvas H as r Er. destruct (e <=? lenN r); [|discriminate]. inversion H.
    destruct (getN_inv _ _ _ [] Er) as [_ ->]. reflexivity.
Qed.

Lemma u16_cnt r s e : e < 65536 -> u16 (cnt r s e) = cnt r s e.
Proof. intros H. unfold u16. apply wrap_small. pose proof (cnt_le r s e). change (2 ^ 16) with 65536. lia. Qed.

Lemma nth_map_seqN (f : N -> N) n k : k < n -> nth (N.to_nat k) (map f (seqN 0 n)) 0 = f k.
Proof.
  intros H. rewrite (nth_indep _ 0 (f 0)) by (rewrite map_length, seqN_length; lia).
  rewrite map_nth. f_equal. rewrite seqN_nth by lia. lia.
Qed.

Lemma st_new_spec m A ec er st : ec < 65536 -> er <= lenN A ->
  st_new m A ec er = Ok st -> st_inv A st 0 er 0 ec.
Proof.
  intros Hec Her H. unfold st_new in H. oinvas H as r Er. destruct r as [[opr hist] single].
  destruct (rebuild_cc_frame _ _ _ _ _ _ H) as [g ->]. apply st_inv_set_g. clear H.
  set (f := fun row => cnt (rowN A row) 0 ec).
  assert (P : opr = rev (map f (seqN 0 (lenN A))) /\
              single = rev (filter (fun row => f row =? 1) (seqN 0 (lenN A)))).
  { refine (ofold_inv_pre (fun pre (acc : list N * list N * list N) =>
        fst (fst acc) = rev (map f pre) /\ snd acc = rev (filter (fun row => f row =? 1) pre))
        _ _ _ _ _ _ Er).
    - intros pre a post [[o h] s] [[o' h'] s'] _ [Ho Hs] Hstep. cbn [fst snd] in *. subst o s.
      omon Hstep. inversion Hstep; subst; clear Hstep.
      match goal with E : bm_count_ones _ _ _ _ = Ok _ |- _ => apply bm_count_ones_inv in E; subst end.
      rewrite u16_cnt by exact Hec.
      rewrite map_app, filter_app, !rev_app_distr. cbn [map filter rev app]. fold (f a).
      split; [reflexivity|]. destruct (f a =? 1); reflexivity.
    - split; reflexivity. }
  destruct P as [-> ->]. rewrite !rev_involutive.
  constructor; cbn [st_sc st_ec st_sr st_opr st_single]; try reflexivity.
  - unfold lenN. rewrite map_length, seqN_length. lia.
  - intros k Hk. rewrite nth_map_seqN by lia. reflexivity.
  - intros x Hx. apply filter_In in Hx. destruct Hx as [Hin Hf]. apply seqN_in in Hin.
    split; [lia|]. rewrite nth_map_seqN by lia. apply N.eqb_eq. exact Hf.
  - apply NoDup_filter. apply seqN_NoDup.
Qed.

(* ================= selection ================= *)

Lemma find_r_in h ks r : find_r h ks = Some r -> In r ks.
Proof.
  induction ks as [|k t IH]; cbn [find_r]; [discriminate|].
  destruct (0 <? h_get h k); [intros E; inversion E; left; reflexivity | intros E; right; auto].
Qed.

Lemma first_with2_inv opr rows row : first_with2 opr rows = Ok row ->
  In row rows /\ nth (N.to_nat row) opr 0 = 2.
Proof.
  induction rows as [|x t IH]; cbn [first_with2]; [discriminate|].
  intros H. oinvas H as o Eo. destruct (N.eqb_spec o 2) as [->|Hn].
  - inversion H; subst. split; [left; reflexivity|]. destruct (getN_inv _ _ _ 0 Eo) as [_ E]. auto.
  - destruct (IH H) as [H1 H2]. split; [right; exact H1 | exact H2].
Qed.

Lemma od_pick_in cands : forall chosen deg row, od_pick cands chosen deg = Ok row ->
  chosen = Some row \/ In row (map fst cands).
Proof.
  induction cands as [|[r d] t IH]; intros chosen deg row H; cbn [od_pick] in H.
  - destruct chosen; [inversion H; auto | discriminate].
  - cbn [map fst]. destruct (d <? deg).
    + destruct (IH _ _ _ H) as [E|Hin]; [inversion E; right; left; reflexivity | right; right; exact Hin].
    + destruct (IH _ _ _ H) as [E|Hin]; [auto | right; right; exact Hin].
Qed.

Lemma in_combine_nth_error {A B} (l1 : list A) : forall (l2 : list B) a b, In (a, b) (combine l1 l2) ->
  exists k, nth_error l1 k = Some a /\ nth_error l2 k = Some b.
Proof.
  induction l1 as [|x t IH]; intros [|y u] a b H; cbn [combine] in H; try (destruct H; fail).
  destruct H as [H|H].
  - inversion H; subst. exists 0%nat. split; reflexivity.
  - destruct (IH _ _ _ H) as [k [H1 H2]]. exists (S k). split; assumption.
Qed.

Lemma nth_error_combine_l {A B} (l1 : list A) (l2 : list B) k a b :
  nth_error (combine l1 l2) k = Some (a, b) -> nth_error l1 k = Some a.
Proof.
  revert l1 l2. induction k as [|k IH]; intros [|x t] [|y u] E; cbn in E; try discriminate.
  - inversion E; reflexivity.
  - cbn. eapply IH. exact E.
Qed.

Lemma sel_spec m st A i er sc ec row r :
  st_inv A st i er sc ec -> er <= lenN A ->
  first_phase_selection m st A i er = Ok (Some (row, r)) ->
  i <= row /\ nth (N.to_nat row) (st_opr st) 0 = r /\ 1 <= r.
Proof.
  intros I Her H. unfold first_phase_selection in H.
  destruct (find_r _ _) as [r0|] eqn:Ef; [|discriminate].
  assert (Hr0 : 1 <= r0). { apply find_r_in in Ef. apply seqN_in in Ef. lia. }
  destruct (N.eqb_spec r0 2) as [E2|N2].
  - omon H. inversion H; subst; clear H.
    match goal with E : graph_substep _ _ _ _ = Ok _ |- _ => unfold graph_substep in E; omon E; rename E into Hf end.
    apply first_with2_inv in Hf. destruct Hf as [Hin Hn].
    match goal with E : bm_ones_in_col _ _ _ _ = Ok _ |- _ => apply bm_ones_in_col_spec in E; destruct E as [_ HI] end.
    apply HI in Hin. repeat split; [lia | exact Hn | lia].
  - omon H. inversion H; subst; clear H.
    match goal with E : original_degree_substep _ _ _ _ = Ok _ |- _ => unfold original_degree_substep in E; rename E into Hf end.
    destruct (N.eqb_spec r 1) as [E1|N1].
    + subst r. omon Hf. apply od_pick_in in Hf. destruct Hf as [Hf|Hf]; [discriminate|].
      match goal with E : omapM _ _ = Ok ?c |- _ => rename E into Em; rename c into cands end.
      assert (Hs : In row (st_single st)).
      { apply omapM_Forall2 in Em. clear -Em Hf. induction Em as [|x p l l' Hp _ IH]; [exact Hf|].
        cbn [map] in Hf. destruct Hf as [Hf|Hf]; [|right; exact (IH Hf)].
        left. oinvas Hp as d Ed. inversion Hp; subst. reflexivity. }
      destruct (si_single _ _ _ _ _ _ I _ Hs) as [H1 H2]. repeat split; [exact H1 | exact H2 | lia].
    + omon Hf. apply od_pick_in in Hf. destruct Hf as [Hf|Hf]; [discriminate|].
      rewrite map_map in Hf. cbn [fst] in Hf. apply in_map_iff in Hf. destruct Hf as [[ra [rb rc]] [Ea Hin]].
      cbn [fst] in Ea. subst ra. apply filter_In in Hin. destruct Hin as [Hin Hb]. cbn [fst snd] in Hb.
      apply N.eqb_eq in Hb. subst rb.
      apply in_combine_nth_error in Hin. destruct Hin as [k [K1 K2]].
      apply nth_error_combine_l in K2. rename K2 into K3.
      assert (Lk : (k < N.to_nat (er - i))%nat).
      { rewrite <- seqN_length. apply nth_error_Some. congruence. }
      apply (nth_error_nth _ _ 0) in K1. rewrite seqN_nth in K1 by exact Lk.
      apply (nth_error_nth _ _ 0) in K3. rewrite subl_nth in K3 by exact Lk.
      subst row. repeat split; [lia | | lia].
      replace (N.to_nat (i + N.of_nat k)) with (N.to_nat i + k)%nat by lia. exact K3.
Qed.

(* ================= swap rows ================= *)

Lemma trN_ge a b k lo : lo <= a -> lo <= b -> lo <= k -> lo <= trN a b k.
Proof. intros. unfold trN. destruct (k =? a); [assumption|]. destruct (k =? b); assumption. Qed.

Lemma st_swap_rows_spec st A i er sc ec row st' A' :
  st_inv A st i er sc ec -> i <= row < er -> er <= lenN A ->
  st_swap_rows st i row = Ok st' -> swapN A i row = Ok A' -> st_inv A' st' i er sc ec.
Proof.
  intros [H1 H2 H3 H4 H5 H6 H7] Hrow Her H HA. unfold st_swap_rows in H. omon H.
  injection H as <-.
  match goal with E : swapN (st_opr st) _ _ = Ok ?o |- _ => rename E into Eo; rename o into opr end.
  pose proof (swapN_inv _ _ _ _ 0 Eo) as [_ [_ [Lo _]]].
  pose proof (swapN_inv _ _ _ _ [] HA) as [_ [_ [LA _]]].
  constructor; cbn [st_sc st_ec st_sr st_opr st_single]; try assumption.
  - unfold lenN in *. rewrite Lo, LA. exact H4.
  - intros k Hk. rewrite (swapN_cell _ _ _ _ 0 k Eo). unfold rowN. rewrite (swapN_cell _ _ _ _ [] k HA).
    apply H5. apply (trN_range i row k i er); lia.
  - intros x Hx. apply in_map_iff in Hx. destruct Hx as [y [Ey Hy]].
    change (trN i row y = x) in Ey. subst x. destruct (H6 _ Hy) as [G1 G2]. split.
    + apply trN_ge; lia.
    + rewrite (swapN_cell _ _ _ _ 0 _ Eo), trN_invol. exact G2.
  - apply FinFun.Injective_map_NoDup; [|exact H7]. intros x y E. exact (trN_inj i row x y E).
Qed.

(* ================= swap columns ================= *)

Lemma st_swap_cols_spec st A i er sc ec a b sr st' A' :
  st_inv A st i er sc ec -> sc <= a < ec -> sc <= b < ec -> sr <= i ->
  st_swap_cols st a b = Ok st' -> bm_swap_cols A a b sr = Ok A' -> st_inv A' st' i er sc ec.
Proof.
  intros I Ha Hb Hsr H HA. unfold st_swap_cols in H. omon H. inversion H; subst; clear H.
  apply st_inv_set_g. unfold bm_swap_cols in HA. oinvas HA as t Et. inversion HA; subst; clear HA.
  pose proof (omapM_length _ _ _ Et) as Lt. rewrite skipn_length in Lt.
  assert (LA : length (firstn (N.to_nat sr) A ++ t) = length A).
  { rewrite app_length, firstn_length, Lt. lia. }
  apply (st_inv_ext _ _ _ _ _ _ _ I).
  - unfold lenN. rewrite LA. reflexivity.
  - intros k Hk. unfold rowN.
    destruct (Nat.lt_ge_cases (N.to_nat k) (length A)) as [Lk|Lk].
    + rewrite app_nth2 by (rewrite firstn_length; lia). rewrite firstn_length.
      replace (Nat.min (N.to_nat sr) (length A)) with (N.to_nat sr) by lia.
      pose proof (omapM_nth _ _ _ [] [] (N.to_nat k - N.to_nat sr) Et) as Hn.
      rewrite skipn_length in Hn. specialize (Hn ltac:(lia)).
      rewrite nth_skipn' in Hn. replace (N.to_nat sr + (N.to_nat k - N.to_nat sr))%nat with (N.to_nat k) in Hn by lia.
      pose proof (swapN_inv _ _ _ _ 0 Hn) as [_ [_ [_ Hs]]].
      apply (cnt_swap _ _ a b); [exact Hs | lia | lia].
    + rewrite !nth_overflow by lia. reflexivity.
Qed.

(* ================= recompute row ================= *)

Lemma nth_upd_N (l : list N) k j v : (N.to_nat k < length l)%nat ->
  nth (N.to_nat j) (upd_nth (N.to_nat k) v l) 0 = if j =? k then v else nth (N.to_nat j) l 0.
Proof.
  intros L. destruct (N.eqb_spec j k) as [->|Hn].
  - apply nth_upd_same. exact L.
  - apply nth_upd_other. lia.
Qed.

Lemma st_recompute_row_spec m st A A' i er sc ec row st' :
  st_inv A st i er sc ec -> i <= row < er -> ec < 65536 ->
  lenN A' = lenN A -> (forall k, k <> row -> rowN A' k = rowN A k) ->
  st_recompute_row m st A' row = Ok st' -> st_inv A' st' i er sc ec.
Proof.
  intros [H1 H2 H3 H4 H5 H6 H7] Hrow Hec HL HR H. unfold st_recompute_row in H. omon H.
  match goal with E : bm_count_ones _ _ _ _ = Ok ?o |- _ =>
    apply bm_count_ones_inv in E; rewrite H1, H2 in E; rename o into ones; rename E into Eones end.
  match goal with E : putN _ _ _ = Ok ?o |- _ =>
    apply putN_inv in E; destruct E as [Lr Eo]; rename o into opr end.
  rewrite Eones, u16_cnt in Eo by exact Hec. rewrite <- Eones in Eo.
  destruct (single_remove_spec (st_single st) row H7) as [ND HIn].
  set (single := if ones =? 1 then single_remove (st_single st) row ++ [row] else single_remove (st_single st) row) in *.
  assert (G : forall hist, st_inv A' (mkSt (st_od st) opr hist (st_sc st) (st_ec st) (st_sr st) single (st_g st)) i er sc ec).
  { intros hist. constructor; cbn [st_sc st_ec st_sr st_opr st_single]; try assumption.
    - subst opr. unfold lenN in *. rewrite upd_nth_length. congruence.
    - intros k Hk. subst opr. rewrite nth_upd_N by exact Lr. destruct (N.eqb_spec k row) as [->|Hn]; [exact Eones|].
      rewrite HR by exact Hn. apply H5. exact Hk.
    - intros x Hx. subst opr. rewrite nth_upd_N by exact Lr.
      assert (C : (x = row /\ ones = 1) \/ (In x (st_single st) /\ x <> row)).
      { subst single. destruct (N.eqb_spec ones 1) as [Q1|Q1].
        - apply in_app_or in Hx. destruct Hx as [Hx|[Hx|[]]]; [right; apply HIn; exact Hx | left; auto].
        - right. apply HIn. exact Hx. }
      destruct C as [[-> Q1]|[Hx' Hn]].
      + rewrite N.eqb_refl. split; [lia | exact Q1].
      + apply N.eqb_neq in Hn. rewrite Hn. apply H6. exact Hx'.
    - subst single. destruct (ones =? 1); [|exact ND].
      apply NoDup_app_one; [exact ND|]. intros Hx. apply HIn in Hx. destruct Hx as [_ Hx]. congruence. }
  destruct (ones =? 2).
  - destruct (st_add_graph_edge_frame _ _ _ _ _ _ _ H) as [g ->]. apply st_inv_set_g. apply G.
  - injection H as <-. apply G.
Qed.

(* ================= resize ================= *)

Definition SI (i : N) (opr single : list N) : Prop :=
  (forall x, In x single -> i <= x /\ nth (N.to_nat x) opr 0 = 1) /\ NoDup single.

Lemma am_dec_inv m l key l' : am_dec m 0 l key = Ok l' -> 1 <= nth (N.to_nat key) l 0 ->
  (N.to_nat key < length l)%nat /\ l' = upd_nth (N.to_nat key) (nth (N.to_nat key) l 0 - 1) l.
Proof.
  unfold am_dec, am_get, am_put. intros H Hv.
  replace (key <? 0) with false in H by (symmetry; apply N.ltb_ge; lia).
  rewrite N.sub_0_r in H. oinvas H as v Ev. oinvas H as v' Ev'.
  destruct (getN_inv _ _ _ 0 Ev) as [L ->]. unfold sub_w in Ev'.
  replace (1 <=? nth (N.to_nat key) l 0) with true in Ev' by (symmetry; apply N.leb_le; exact Hv).
  injection Ev' as <-. apply putN_inv in H. destruct H as [_ ->]. split; [exact L | reflexivity].
Qed.

Lemma SI_dec i opr single row v : SI i opr single -> i <= row -> (N.to_nat row < length opr)%nat ->
  nth (N.to_nat row) opr 0 = v + 1 ->
  (v = 0 -> SI i (upd_nth (N.to_nat row) v opr) (single_remove single row)) /\
  (v <> 0 -> SI i (upd_nth (N.to_nat row) v opr) single) /\
  (v = 1 -> SI i (upd_nth (N.to_nat row) v opr) (single ++ [row])).
Proof.
  intros [S1 S2] Hi L Hv.
  assert (B : v <> 0 -> SI i (upd_nth (N.to_nat row) v opr) single /\ ~ In row single).
  { intros Hnz. assert (Hni : ~ In row single).
    { intros Hin. destruct (S1 _ Hin) as [_ E]. lia. }
    split; [|exact Hni]. split; [|exact S2]. intros x Hx. rewrite nth_upd_N by exact L.
    destruct (N.eqb_spec x row) as [->|_]; [contradiction | apply S1; exact Hx]. }
  split; [|split].
  - intros _. destruct (single_remove_spec single row S2) as [ND HIn]. split; [|exact ND].
    intros x Hx. apply HIn in Hx. destruct Hx as [Hx Hn]. rewrite nth_upd_N by exact L.
    apply N.eqb_neq in Hn. rewrite Hn. apply S1. exact Hx.
  - intros Hnz. apply B. exact Hnz.
  - intros ->. destruct (B ltac:(lia)) as [[B1 B2] B3]. split.
    + intros x Hx. apply in_app_or in Hx. destruct Hx as [Hx|[<-|[]]]; [apply B1; exact Hx|].
      split; [exact Hi|]. rewrite nth_upd_N by exact L. rewrite N.eqb_refl. reflexivity.
    + apply NoDup_app_one; assumption.
Qed.

Lemma st_lose_one_inv m i row opr hist single cand opr' hist' single' cand' :
  st_lose_one m row (opr, hist, single, cand) = Ok (opr', hist', single', cand') ->
  SI i opr single -> i <= row -> 1 <= nth (N.to_nat row) opr 0 ->
  (N.to_nat row < length opr)%nat /\
  opr' = upd_nth (N.to_nat row) (nth (N.to_nat row) opr 0 - 1) opr /\ SI i opr' single'.
Proof.
  intros H HS Hi Hv. unfold st_lose_one in H. omon H.
  match goal with E : am_dec _ _ _ _ = Ok _ |- _ => apply am_dec_inv in E; [destruct E as [L ->] | exact Hv] end.
  match goal with E : getN _ _ = Ok ?o |- _ =>
    apply (getN_inv _ _ _ 0) in E; destruct E as [_ Eo]; rewrite nth_upd_same in Eo by exact L;
    rename o into ones end.
  injection H as <- <- <- <-. split; [exact L|]. split; [reflexivity|].
  rewrite <- Eo.
  destruct (SI_dec i opr single row ones HS Hi L ltac:(lia)) as [D0 [Dn D1]].
  destruct (N.eqb_spec ones 0) as [Z|NZ]; [apply D0; exact Z|].
  destruct (N.eqb_spec ones 1) as [O|NO]; [apply D1; exact O | apply Dn; exact NZ].
Qed.

Lemma fold_lose m i rows : forall opr hist single cand opr' hist' single' cand',
  ofold (st_lose_one m) rows (opr, hist, single, cand) = Ok (opr', hist', single', cand') ->
  NoDup rows -> (forall x, In x rows -> i <= x /\ 1 <= nth (N.to_nat x) opr 0) -> SI i opr single ->
  length opr' = length opr /\ SI i opr' single' /\
  (forall k, In k rows -> nth (N.to_nat k) opr' 0 = nth (N.to_nat k) opr 0 - 1) /\
  (forall k, ~ In k rows -> nth (N.to_nat k) opr' 0 = nth (N.to_nat k) opr 0).
Proof.
  induction rows as [|a t IH]; intros opr hist single cand opr' hist' single' cand' H ND Hpre HS.
  - cbn in H. injection H as <- <- <- <-. split; [reflexivity|]. split; [exact HS|]. split; [intros k [] | reflexivity].
  - apply ofold_cons_inv in H. destruct H as [[[[o1 h1] s1] c1] [E1 E2]].
    inversion ND as [|? ? Hnin ND']; subst.
    destruct (Hpre a (or_introl eq_refl)) as [Ha Hva].
    destruct (st_lose_one_inv _ i _ _ _ _ _ _ _ _ _ E1 HS Ha Hva) as [L [Eo HS1]].
    assert (Hother : forall x, x <> a -> nth (N.to_nat x) o1 0 = nth (N.to_nat x) opr 0).
    { intros x Hx. subst o1. rewrite nth_upd_N by exact L. apply N.eqb_neq in Hx. rewrite Hx. reflexivity. }
    destruct (IH _ _ _ _ _ _ _ _ E2 ND') as [Len [HS' [K1 K2]]]; [|exact HS1|].
    { intros x Hx. destruct (Hpre x (or_intror Hx)) as [P1 P2]. split; [exact P1|].
      rewrite Hother; [exact P2|]. intros ->. contradiction. }
    split; [rewrite Len; subst o1; apply upd_nth_length|]. split; [exact HS'|]. split.
    + intros k [<-|Hk].
      * rewrite K2 by exact Hnin. subst o1. apply nth_upd_same. exact L.
      * rewrite K1 by exact Hk. rewrite Hother; [reflexivity|]. intros ->. contradiction.
    + intros k Hk. rewrite K2 by (intros Hk'; apply Hk; right; exact Hk').
      apply Hother. intros ->. apply Hk. left. reflexivity.
Qed.

Lemma bm_get_inv A i j v : bm_get A i j = Ok v -> v = cell A i j.
Proof.
  unfold bm_get. intros H. oinvas H as r Er. destruct (getN_inv _ _ _ [] Er) as [_ ->].
  destruct (getN_inv _ _ _ 0 H) as [_ ->]. reflexivity.
Qed.

Lemma cols_loop m A i er ec ec' : forall n col opr hist single cand g opr' hist' single' cand' g',
  n = N.to_nat (ec - col) -> ec' <= col -> col <= ec ->
  ofold (fun col (st : (list N * list N * list N * list N) * ccg) =>
         let '(acc, g) := st in
         obind (bm_ones_in_col A col i er) (fun rows =>
         obind (ofold (st_lose_one m) rows acc) (fun acc =>
         obind (g_remove_node m g col) (fun g => Ok (acc, g))))) (seqN col ec) (opr, hist, single, cand, g) = Ok (opr', hist', single', cand', g') ->
  SI i opr single ->
  (forall k, i <= k < er ->
     nth (N.to_nat k) opr 0 = cnt (rowN A k) (i + 1) ec' + cnt (rowN A k) col ec) ->
  length opr' = length opr /\ SI i opr' single' /\ forall k, i <= k < er -> nth (N.to_nat k) opr' 0 = cnt (rowN A k) (i + 1) ec'.
Proof.
  induction n as [|n IH]; intros col opr hist single cand g opr' hist' single' cand' g' En L1 L2 H HS Hinv.
  - rewrite seqN_nil in H by lia. cbn in H. injection H as <- <- <- <- <-.
    split; [reflexivity|]. split; [exact HS|]. intros k Hk. rewrite Hinv by exact Hk.
    rewrite (cnt_empty _ col ec) by lia. lia.
  - rewrite seqN_cons in H by lia. apply ofold_cons_inv in H.
    destruct H as [[[[[o1 h1] s1] c1] g1] [E1 E2]]. cbv beta iota in E1. omon E1.
    injection E1 as -> -> -> -> ->.
    match goal with E : bm_ones_in_col _ _ _ _ = Ok ?r |- _ =>
      apply bm_ones_in_col_spec in E; destruct E as [NDr HIr]; rename r into rows end.
    match goal with E : ofold (st_lose_one m) _ _ = Ok _ |- _ => rename E into Ef end.
    assert (Hc : forall k, cnt (rowN A k) col ec =
                 (if cell A k col =? 1 then 1 else 0) + cnt (rowN A k) (col + 1) ec).
    { intros k. apply cnt_first. lia. }
    destruct (fold_lose _ i _ _ _ _ _ _ _ _ _ Ef NDr) as [Len [HS1 [K1 K2]]]; [|exact HS|].
    { intros x Hx. apply HIr in Hx. destruct Hx as [Hx Hcx]. split; [lia|].
      rewrite Hinv by exact Hx. rewrite Hc, Hcx, N.eqb_refl. lia. }
    destruct (IH (col + 1) _ _ _ _ _ _ _ _ _ _ ltac:(lia) ltac:(lia) ltac:(lia) E2 HS1) as [Len' [HS' K']].
    { intros k Hk. destruct (in_dec N.eq_dec k rows) as [Hin|Hnin].
      - rewrite K1 by exact Hin. rewrite Hinv by exact Hk. rewrite Hc.
        apply HIr in Hin. destruct Hin as [_ Hcx]. rewrite Hcx, N.eqb_refl. lia.
      - rewrite K2 by exact Hnin. rewrite Hinv by exact Hk. rewrite Hc.
        destruct (N.eqb_spec (cell A k col) 1) as [Hcx|_]; [|lia].
        exfalso. apply Hnin. apply HIr. split; [exact Hk | exact Hcx]. }
    split; [congruence|]. split; [exact HS' | exact K'].
Qed.

Lemma edges_fold_frame m A sc ec cand : forall s1 s2,
  ofold (fun row s1 =>
          obind (getN (st_opr s1) row) (fun o =>
          if o =? 2 then st_add_graph_edge m s1 A row sc ec else Ok s1)) cand s1 = Ok s2 ->
  st_opr s2 = st_opr s1 /\ st_single s2 = st_single s1.
Proof.
  induction cand as [|a t IH]; intros s1 s2 H.
  - cbn in H. injection H as <-. split; reflexivity.
  - apply ofold_cons_inv in H. destruct H as [sm [E1 E2]]. cbv beta in E1. omon E1.
    destruct (IH _ _ E2) as [F1 F2]. rewrite F1, F2.
    destruct (_ =? 2).
    + destruct (st_add_graph_edge_frame _ _ _ _ _ _ _ E1) as [g ->]. split; reflexivity.
    + injection E1 as <-. split; reflexivity.
Qed.

Lemma st_resize_spec m st A Mn Wn i er ec ec' pco st' :
  st_inv A st i er i ec -> dims A Mn Wn -> bin_mat A ->
  i < er -> er <= Mn -> i + 1 <= ec' -> ec' <= ec -> ec <= Wn -> Wn < 65536 ->
  bm_ones_in_col A i (i + 1) er = Ok pco ->
  (forall j, i < j < ec' -> cell A i j = 0) ->
  st_resize m st A (i + 1) er (i + 1) ec' pco = Ok st' ->
  st_inv A st' (i + 1) er (i + 1) ec'.
Proof.
  intros [H1 H2 H3 H4 H5 H6 H7] _ _ Hier _ Hec1 Hec2 _ _ Hpco Hrow H.
  unfold st_resize in H. rewrite H1, H2, H3 in H. omon H.
  injection H as <-.
  match goal with E : bm_get A i i = Ok ?v |- _ => apply bm_get_inv in E; subst v end.
  match goal with E : ofold (st_lose_one m) pco (?a, ?b, ?c, []) = Ok (?a', ?b', ?c', ?d') |- _ =>
    rename E into Ep; rename a into opr0; rename c into single0;
    rename a' into opr1; rename b' into hist1; rename c' into single1; rename d' into cand1 end.
  match goal with E : (if cell A i i =? 1 then _ else _) = Ok _ |- _ => rename E into Es end.
  match goal with E : ofold _ (seqN ec' ec) _ = Ok (?a, ?b, ?c, ?d, ?g) |- _ =>
    rename E into Ec; rename a into opr2; rename c into single2 end.
  match goal with E : ofold _ _ _ = Ok ?s |- st_inv _ (mkSt (st_od ?s) _ _ _ _ _ _ _) _ _ _ _ =>
    apply edges_fold_frame in E; cbn [st_opr st_single] in E; destruct E as [-> ->] end.
  assert (Hc : forall k, cnt (rowN A k) i ec =
               (if cell A k i =? 1 then 1 else 0) + cnt (rowN A k) (i + 1) ec).
  { intros k. apply cnt_first. lia. }
  (* the one of row i in column i *)
  assert (S0 : length opr0 = length (st_opr st) /\ SI i opr0 single0 /\ nth (N.to_nat i) opr0 0 = cnt (rowN A i) (i + 1) ec /\ forall k, k <> i -> nth (N.to_nat k) opr0 0 = nth (N.to_nat k) (st_opr st) 0).
  { assert (HS : SI i (st_opr st) (st_single st)) by (split; assumption).
    pose proof (H5 i ltac:(lia)) as Hi. rewrite Hc in Hi.
    destruct (N.eqb_spec (cell A i i) 1) as [C1|C1].
    - omon Es. injection Es as <- _ <-.
      match goal with E : am_dec _ _ _ _ = Ok _ |- _ => apply am_dec_inv in E; [destruct E as [L ->] | lia] end.
      match goal with E : getN _ _ = Ok ?o |- _ =>
        apply (getN_inv _ _ _ 0) in E; destruct E as [_ Eo]; rewrite nth_upd_same in Eo by exact L;
        rename o into ones end.
      rewrite <- Eo.
      destruct (SI_dec i (st_opr st) (st_single st) i ones HS ltac:(lia) L ltac:(lia)) as [D0 [Dn _]].
      split; [apply upd_nth_length|]. split.
      + destruct (N.eqb_spec ones 0) as [Z|NZ]; [apply D0; exact Z | apply Dn; exact NZ].
      + split.
        * rewrite nth_upd_same by exact L. lia.
        * intros k Hk. apply nth_upd_other. lia.
    - injection Es as <- _ <-. split; [reflexivity|]. split; [exact HS|]. split; [lia | reflexivity]. }
  destruct S0 as [Len0 [HS0 [V0 O0]]].
  (* the other rows with a one in column i *)
  pose proof (bm_ones_in_col_spec _ _ _ _ _ Hpco) as [NDp HIp].
  destruct (fold_lose _ i _ _ _ _ _ _ _ _ _ Ep NDp) as [Len1 [HS1 [K1 K2]]]; [|exact HS0|].
  { intros x Hx. apply HIp in Hx. destruct Hx as [Hx Hcx]. split; [lia|].
    rewrite O0 by lia. rewrite H5 by lia. rewrite Hc, Hcx, N.eqb_refl. lia. }
  (* the removed columns *)
  destruct (cols_loop m A i er ec ec' _ ec' _ _ _ _ _ _ _ _ _ _ eq_refl (N.le_refl ec') Hec2 Ec HS1) as [Len2 [HS2 K']].
  { intros k Hk. rewrite <- (cnt_split _ (i + 1) ec' ec) by lia.
    destruct (in_dec N.eq_dec k pco) as [Hin|Hnin].
    - rewrite K1 by exact Hin. apply HIp in Hin. destruct Hin as [Hk' Hcx].
      rewrite O0 by lia. rewrite H5 by lia. rewrite Hc, Hcx, N.eqb_refl. lia.
    - rewrite K2 by exact Hnin. destruct (N.eq_dec k i) as [->|Hki]; [exact V0|].
      rewrite O0 by exact Hki. rewrite H5 by lia. rewrite Hc.
      destruct (N.eqb_spec (cell A k i) 1) as [Hcx|_]; [|lia].
      exfalso. apply Hnin. apply HIp. split; [lia | exact Hcx]. }
  destruct HS2 as [S1 S2].
  constructor; cbn [st_sc st_ec st_sr st_opr st_single]; try reflexivity.
  - unfold lenN in *. rewrite Len2, Len1, Len0. exact H4.
  - intros k Hk. apply K'. lia.
  - intros x Hx. destruct (S1 _ Hx) as [G1 G2]. split; [|exact G2].
    assert (x <> i); [|lia]. intros ->. rewrite K' in G2 by lia.
    rewrite cnt_zero in G2; [discriminate|]. intros j Hj. fold (cell A i j). rewrite Hrow by lia. discriminate.
  - exact S2.
Qed.
