(* Proofs about Model/DenseMatrix.v, part 2: the queries count_ones, get_row_iter,
   get_ones_in_column, query_non_zero_columns, get_sub_row_as_octets (+ to_octet_vec). *)
From Coq Require Import NArith ZArith List Bool Lia Arith ZifyBool ZifyN.
From RQ Require Import Base.Outcome Base.Ints Base.ListX Spec.BitMatrix Model.DenseMatrix
  Proofs.DenseBits Proofs.DenseMatrixProofs.
Import ListNotations.
Open Scope N_scope.

(* the cell function of a dense matrix on nat indices (what the spec's queries take) *)
Definition dm_bitn (m : dmat) (i j : nat) : bool := dm_bit m (N.of_nat i) (N.of_nat j).

(* ---------------- count_ones ---------------- *)

(* the bits [a, a+n) of word q of a row are the cells [64 q + a, 64 q + a + n) *)
Lemma word_cnt m row (q : N) (a n : nat) : (a + n <= 64)%nat ->
  cnt (fun k => N.testbit (eword (elements m) (row * row_word_width m + q)) (N.of_nat k)) a n =
  cnt (fun c => dm_bit m row (N.of_nat c)) (a + N.to_nat (64 * q)) n.
Proof.
  intros H. rewrite cnt_shift. apply cnt_ext. intros k Hk.
  unfold dm_bit, lbit, ebit. f_equal.
  - f_equal. f_equal. zlia.
  - zlia.
Qed.

Lemma mid_loop m row qs (n : nat) acc :
  Forall lt64 (elements m) ->
  row * row_word_width m + qs + N.of_nat n <= N.of_nat (length (elements m)) ->
  ofold (fun acc word => obind (vget (elements m) word) (fun y => Ok (acc + popcount y)))
        (range_from (row * row_word_width m + qs) (row * row_word_width m + qs + N.of_nat n)) acc =
  Ok (acc + N.of_nat (cnt (fun c => dm_bit m row (N.of_nat c)) (N.to_nat (64 * qs)) (64 * n))).
Proof.
  intros Hall. induction n as [|n IH]; intros Hlen.
  - rewrite N.add_0_r, range_from_nil by lia. cbn [ofold]. f_equal. cbn. lia.
  - rewrite Nat2N.inj_succ, <- N.add_1_r, N.add_assoc, range_from_snoc by lia.
    rewrite ofold_app, IH by lia. cbn [obind ofold].
    rewrite vget_ok by lia. cbn [obind]. f_equal.
    rewrite popcount_full by (apply eword_lt64; exact Hall).
    replace (64 * S n)%nat with (64 * n + 64)%nat by lia. rewrite cnt_app.
    rewrite <- (N.add_assoc (row * row_word_width m)), (word_cnt m row (qs + N.of_nat n) 0 64) by lia.
    replace (0 + N.to_nat (64 * (qs + N.of_nat n)))%nat with (N.to_nat (64 * qs) + 64 * n)%nat by lia.
    rewrite Nat2N.inj_add. lia.
Qed.

Lemma dm_count_ones_ok fixed m row s e :
  dm_inv m -> row < height m -> s <= e -> e <= width m ->
  (fixed = true \/ s < e \/ e < width m \/ width m mod 64 <> 0 \/
   (row + 1) * row_word_width m < N.of_nat (length (elements m))) ->
  dm_count_ones fixed m row s e =
  Ok (N.of_nat (q_count_ones (dm_bitn m) (N.to_nat row) (N.to_nat s) (N.to_nat e))).
Proof.
  intros Hinv Hrow Hse Hew Hx. pose proof Hinv as [Hl Hall].
  unfold q_count_ones. fold (cnt (fun c => dm_bitn m (N.to_nat row) c) (N.to_nat s) (N.to_nat e - N.to_nat s)).
  unfold dm_bitn. rewrite N2Nat.id.
  set (rw := row_word_width m).
  pose proof (row_mul_le row (height m) rw Hrow) as Hmul.
  unfold dm_count_ones.
  destruct (fixed && (e <=? s)) eqn:Efix.
  { apply andb_true_iff in Efix. destruct Efix as [_ E]. apply N.leb_le in E.
    replace (N.to_nat e - N.to_nat s)%nat with 0%nat by lia. reflexivity. }
  unfold bit_position, word_offset, WORD_WIDTH. cbv beta iota zeta. fold rw.
  assert (Hrw : rw = (width m + 63) / 64) by (unfold rw, row_word_width, WORD_WIDTH; apply ceil_div_64).
  destruct (row * rw + s / 64 =? row * rw + e / 64) eqn:Ew.
  - (* one word *)
    apply N.eqb_eq in Ew. assert (Eq : s / 64 = e / 64) by lia.
    assert (Hsw : row * rw + s / 64 < N.of_nat (length (elements m))).
    { destruct (N.eq_dec s (width m)) as [Es|Es].
      - assert (Ee : e = width m) by lia.
        destruct Hx as [Hx|[Hx|[Hx|[Hx|Hx]]]]; lia.
      - assert (s / 64 < rw) by zlia. lia. }
    rewrite vget_ok by exact Hsw. cbn [obind]. f_equal.
    rewrite popcount_masked; [| apply eword_lt64; exact Hall | zlia | zlia].
    f_equal. rewrite (word_cnt m row (s / 64)) by zlia.
    replace (N.to_nat (s mod 64) + N.to_nat (64 * (s / 64)))%nat with (N.to_nat s) by zlia.
    f_equal. zlia.
  - (* several words *)
    apply N.eqb_neq in Ew. assert (Hq : s / 64 < e / 64) by zlia.
    assert (Hs64 : s / 64 < rw) by zlia.
    rewrite vget_ok by lia. cbn [obind].
    rewrite popcount_left; [| apply eword_lt64; exact Hall | zlia].
    rewrite (word_cnt m row (s / 64)) by zlia.
    set (k := N.to_nat (e / 64 - s / 64 - 1)).
    assert (Hr : range_from (row * rw + s / 64 + 1) (row * rw + e / 64) =
                 range_from (row * rw + (s / 64 + 1)) (row * rw + (s / 64 + 1) + N.of_nat k)).
    { f_equal; unfold k; lia. }
    rewrite Hr. unfold rw. rewrite mid_loop; [| exact Hall | fold rw; unfold k; zlia]. fold rw.
    cbn [obind].
    set (f := fun c : nat => dm_bit m row (N.of_nat c)).
    assert (Etot : (N.to_nat e - N.to_nat s)%nat =
                   ((64 - N.to_nat (s mod 64)) + (64 * k + N.to_nat (e mod 64)))%nat) by (unfold k; zlia).
    rewrite Etot, cnt_app, cnt_app.
    replace (N.to_nat (s mod 64) + N.to_nat (64 * (s / 64)))%nat with (N.to_nat s) by zlia.
    replace (N.to_nat s + (64 - N.to_nat (s mod 64)))%nat with (N.to_nat (64 * (s / 64 + 1))) by zlia.
    destruct (0 <? e mod 64) eqn:Eb.
    + apply N.ltb_lt in Eb. assert (He64 : e / 64 < rw) by zlia.
      rewrite vget_ok by lia. cbn [obind]. f_equal.
      rewrite popcount_right; [| apply eword_lt64; exact Hall | zlia].
      rewrite (word_cnt m row (e / 64)) by zlia.
      replace (0 + N.to_nat (64 * (e / 64)))%nat with (N.to_nat (64 * (s / 64 + 1)) + 64 * k)%nat by (unfold k; zlia).
      subst f. rewrite !Nat2N.inj_add. lia.
    + apply N.ltb_ge in Eb. f_equal. replace (N.to_nat (e mod 64)) with 0%nat by lia.
      replace (cnt f (N.to_nat (64 * (s / 64 + 1)) + 64 * k) 0) with 0%nat by reflexivity. lia.
Qed.

(* ---------------- get_row_iter ---------------- *)

Lemma iter_step_pos idx q0 : q0 <= idx / 64 ->
  (if idx mod 64 + 1 =? 64 then (0, idx / 64 - q0 + 1) else (idx mod 64 + 1, idx / 64 - q0)) =
  ((idx + 1) mod 64, (idx + 1) / 64 - q0).
Proof.
  intros H. destruct (idx mod 64 + 1 =? 64) eqn:E.
  - apply N.eqb_eq in E. f_equal; lia.
  - apply N.eqb_neq in E. f_equal; lia.
Qed.

Lemma iter_dense_ok slc q0 (g : N -> bool) e :
  forall (n fuel : nat) idx,
    (n < fuel)%nat -> idx + N.of_nat n = e -> q0 <= idx / 64 ->
    (forall c, idx <= c < e ->
       c / 64 - q0 < N.of_nat (length slc) /\ N.testbit (eword slc (c / 64 - q0)) (c mod 64) = g c) ->
    iter_dense fuel slc e idx (idx / 64 - q0) (idx mod 64) =
    Ok (map (fun c => (c, b2n (g c))) (range_from idx e)).
Proof.
  induction n as [|n IH]; intros fuel idx Hf He Hq Hc; (destruct fuel as [|f]; [lia|]); cbn [iter_dense].
  - assert (idx = e) by lia. subst idx. rewrite N.eqb_refl, range_from_nil by lia. reflexivity.
  - replace (idx =? e) with false by (symmetry; apply N.eqb_neq; lia).
    destruct (Hc idx) as [Hlen Hbit]; [lia|].
    rewrite vget_ok by exact Hlen. cbn [obind].
    rewrite land_mask_eqb, Hbit.
    replace (if negb (g idx) then 0 else 1) with (b2n (g idx)) by (destruct (g idx); reflexivity).
    rewrite (iter_step_pos idx q0 Hq).
    rewrite (IH f (idx + 1)); try lia.
    + cbn [obind]. rewrite (range_from_cons idx e) by lia. reflexivity.
    + intros c Hcr. apply Hc. lia.
Qed.

Lemma eword_sl l a n p : p < n -> eword (sl l a n) p = eword l (a + p).
Proof.
  intros H. unfold eword at 1. rewrite sl_nth by lia. rewrite N2Nat.id. reflexivity.
Qed.

Lemma row_iter_core m row s e wc :
  dm_inv m -> row < height m -> s <= e -> e <= width m ->
  (s < e -> (e - 1) / 64 - s / 64 + 1 <= wc) ->
  row * row_word_width m + s / 64 + wc <= N.of_nat (length (elements m)) ->
  obind (slice_ok (elements m) (row * row_word_width m + s / 64) (row * row_word_width m + s / 64 + wc))
        (fun slc => iter_dense (64 * (length slc + 1) + 1) slc e s 0 (s mod 64)) =
  Ok (map (fun c => (c, b2n (dm_bit m row c))) (range_from s e)).
Proof.
  intros Hinv Hrow Hse Hew Hwc Hlen.
  set (fw := row * row_word_width m + s / 64) in *.
  rewrite slice_ok_eq by lia. cbn [obind]. replace (fw + wc - fw) with wc by lia.
  assert (Hsl : length (sl (elements m) fw wc) = N.to_nat wc) by (apply sl_length; exact Hlen).
  pose proof (iter_dense_ok (sl (elements m) fw wc) (s / 64) (dm_bit m row) e (N.to_nat (e - s))
                (64 * (length (sl (elements m) fw wc) + 1) + 1) s) as Hit.
  rewrite N.sub_diag in Hit. apply Hit; clear Hit.
  - rewrite Hsl. destruct (N.eq_dec s e); [lia|]. specialize (Hwc ltac:(lia)). lia.
  - lia.
  - lia.
  - intros c Hc. specialize (Hwc ltac:(lia)).
    assert (Hcw : c / 64 - s / 64 < wc) by lia.
    split; [rewrite Hsl; lia|].
    rewrite eword_sl by exact Hcw. unfold dm_bit, lbit, ebit, fw. do 2 f_equal. lia.
Qed.

Lemma dm_get_row_iter_fixed_ok m row s e :
  dm_inv m -> row < height m -> s <= e -> e <= width m ->
  dm_get_row_iter true m row s e =
  Ok (map (fun c => (c, b2n (dm_bit m row c))) (range_from s e)).
Proof.
  intros Hinv Hrow Hse Hew. unfold dm_get_row_iter, bit_position, word_offset, WORD_WIDTH.
  cbv beta iota zeta.
  pose proof (row_mul_le row (height m) (row_word_width m) Hrow) as Hmul.
  destruct Hinv as [Hl Hall].
  assert (Hrw : row_word_width m = (width m + 63) / 64) by (unfold row_word_width, WORD_WIDTH; apply ceil_div_64).
  apply row_iter_core; try assumption; [split; assumption | |].
  - intros Hlt. replace (s <? e) with true by (symmetry; apply N.ltb_lt; exact Hlt). lia.
  - destruct (s <? e) eqn:E; [apply N.ltb_lt in E | apply N.ltb_ge in E]; lia.
Qed.

Lemma dm_get_row_iter_pinned_ok m row s e :
  dm_inv m -> row < height m -> s <= e -> e <= width m ->
  (e < width m \/ width m mod 64 <> 0 \/
   (row + 1) * row_word_width m < N.of_nat (length (elements m))) ->
  dm_get_row_iter false m row s e =
  Ok (map (fun c => (c, b2n (dm_bit m row c))) (range_from s e)).
Proof.
  intros Hinv Hrow Hse Hew Hx. unfold dm_get_row_iter, bit_position, word_offset, WORD_WIDTH.
  cbv beta iota zeta.
  pose proof (row_mul_le row (height m) (row_word_width m) Hrow) as Hmul.
  destruct Hinv as [Hl Hall].
  assert (Hrw : row_word_width m = (width m + 63) / 64) by (unfold row_word_width, WORD_WIDTH; apply ceil_div_64).
  replace (row * row_word_width m + e / 64 + 1)
    with (row * row_word_width m + s / 64 + (e / 64 - s / 64 + 1)) by lia.
  apply row_iter_core; try assumption; [split; assumption | |].
  - intros Hlt. lia.
  - destruct Hx as [Hx|[Hx|Hx]]; lia.
Qed.

(* a sufficient condition for the slack disjunct: a later row exists (and rows are not empty) *)
Lemma slack_from_next_row m row : dm_inv m -> row + 1 < height m -> 0 < width m ->
  (row + 1) * row_word_width m < N.of_nat (length (elements m)).
Proof.
  intros [Hl _] Hr Hw.
  assert (Hrw : row_word_width m = (width m + 63) / 64) by (unfold row_word_width, WORD_WIDTH; apply ceil_div_64).
  pose proof (row_mul_le (row + 1) (height m) (row_word_width m) Hr). lia.
Qed.

Lemma pinned_row_iter_panics m row s e :
  s <= e -> N.of_nat (length (elements m)) <= row * row_word_width m + e / 64 ->
  dm_get_row_iter false m row s e = Panic PIndex.
Proof.
  intros Hse H. unfold dm_get_row_iter, bit_position, word_offset, WORD_WIDTH. cbv beta iota zeta.
  unfold slice_ok.
  replace (row * row_word_width m + e / 64 + 1 <=? N.of_nat (length (elements m))) with false
    by (symmetry; apply N.leb_gt; lia).
  rewrite andb_false_r. reflexivity.
Qed.

(* ---------------- column / row scans through `get` ---------------- *)

Lemma ofilter_ok {A} (p : A -> outcome bool) (g : A -> bool) l :
  (forall x, In x l -> p x = Ok (g x)) -> ofilter p l = Ok (filter g l).
Proof.
  induction l as [|x t IH]; intros H; cbn [ofilter filter]; [reflexivity|].
  rewrite (H x) by (left; reflexivity). cbn [obind].
  rewrite IH by (intros y Hy; apply H; right; exact Hy). cbn [obind]. reflexivity.
Qed.

Lemma in_range_from x a b : In x (range_from a b) -> a <= x < b.
Proof.
  unfold range_from. intros H. apply in_map_iff in H. destruct H as [k [Hk Hin]].
  apply in_seq in Hin. lia.
Qed.

Lemma filter_map_comm {A B} (g : A -> B) (f : B -> bool) l :
  filter f (map g l) = map g (filter (fun x => f (g x)) l).
Proof.
  induction l as [|x t IH]; cbn [map filter]; [reflexivity|].
  destruct (f (g x)); cbn [map]; rewrite IH; reflexivity.
Qed.

Lemma b2n_eqb1 b : (b2n b =? 1) = b. Proof. destruct b; reflexivity. Qed.
Lemma b2n_nz b : negb (b2n b =? 0) = b. Proof. destruct b; reflexivity. Qed.

Lemma dm_get_ones_in_column_ok m col s e :
  dm_inv m -> col < width m -> s <= e -> e <= height m -> height m <= 2 ^ 32 ->
  dm_get_ones_in_column m col s e =
  Ok (map N.of_nat (q_ones_in_column (dm_bitn m) (N.to_nat col) (N.to_nat s) (N.to_nat e))).
Proof.
  intros Hinv Hcol Hse Heh H32. unfold dm_get_ones_in_column.
  rewrite (ofilter_ok _ (fun r => dm_bit m r col)).
  2:{ intros r Hr. apply in_range_from in Hr. rewrite dm_get_ok by (try assumption; lia).
      cbn [obind]. rewrite b2n_eqb1. reflexivity. }
  cbn [obind]. f_equal. unfold q_ones_in_column, dm_bitn.
  rewrite range_from_nat, filter_map_comm, map_map, N2Nat.id.
  apply map_ext_in. intros r Hr. apply filter_In in Hr. destruct Hr as [Hr _]. apply in_seq in Hr.
  unfold u32, wrap. apply N.mod_small.
  assert (N.of_nat r < e) by lia. lia.
Qed.

Lemma dm_query_non_zero_columns_ok m row s :
  dm_inv m -> row < height m -> s <= width m ->
  dm_query_non_zero_columns m row s =
  Ok (map N.of_nat (q_non_zero_columns (dm_bitn m) (N.to_nat (width m)) (N.to_nat row) (N.to_nat s))).
Proof.
  intros Hinv Hrow Hs. unfold dm_query_non_zero_columns.
  rewrite (ofilter_ok _ (fun c => dm_bit m row c)).
  2:{ intros c Hc. apply in_range_from in Hc. rewrite dm_get_ok by (try assumption; lia).
      cbn [obind]. rewrite b2n_nz. reflexivity. }
  f_equal. unfold q_non_zero_columns, dm_bitn.
  rewrite range_from_nat, filter_map_comm, N2Nat.id. reflexivity.
Qed.

(* ---------------- get_sub_row_as_octets and its read-back ---------------- *)

(* bit at linear position p of a packed word vector *)
Definition wbit (res : list N) (p : N) : bool := ebit res (p / 64) (p mod 64).

Definition sub_row_body (m : dmat) (row : N) (st : list N * N * N) (col : N)
  : outcome (list N * N * N) :=
  let '(res, word, bit) := st in
  obind (if bit =? 0
         then (if word =? 0 then Panic POverflow else Ok (word - 1, 63))
         else Ok (word, bit - 1))
        (fun wb => let '(word, bit) := wb in
           obind (dm_get m row col) (fun v =>
             if v =? 1 then
               obind (vget res word) (fun x =>
                 obind (vset res word (N.lor x (select_mask bit))) (fun res' => Ok (res', word, bit)))
             else Ok (res, word, bit))).

Lemma sub_row_step m row res P col :
  dm_inv m -> row < height m -> col < width m ->
  0 < P -> P <= 64 * N.of_nat (length res) -> Forall lt64 res ->
  exists res', sub_row_body m row (res, P / 64, P mod 64) col = Ok (res', (P - 1) / 64, (P - 1) mod 64) /\
    length res' = length res /\ Forall lt64 res' /\
    forall p, wbit res' p = if p =? P - 1 then wbit res p || dm_bit m row col else wbit res p.
Proof.
  intros Hinv Hrow Hcol HP HPl Hall. unfold sub_row_body.
  assert (Ewb : (if P mod 64 =? 0
                 then (if P / 64 =? 0 then Panic POverflow else Ok (P / 64 - 1, 63))
                 else Ok (P / 64, P mod 64 - 1)) = Ok ((P - 1) / 64, (P - 1) mod 64)).
  { destruct (P mod 64 =? 0) eqn:E1; [apply N.eqb_eq in E1 | apply N.eqb_neq in E1].
    - replace (P / 64 =? 0) with false by (symmetry; apply N.eqb_neq; lia). f_equal. f_equal; lia.
    - f_equal. f_equal; lia. }
  rewrite Ewb. cbn [obind]. rewrite dm_get_ok by assumption. cbn [obind]. rewrite b2n_eqb1.
  assert (Hw : (P - 1) / 64 < N.of_nat (length res)) by lia.
  destruct (dm_bit m row col) eqn:Eb.
  - rewrite vget_ok by exact Hw. cbn [obind]. rewrite vset_ok by exact Hw. cbn [obind].
    eexists. split; [reflexivity|]. split; [apply upd_length|].
    change (N.lor (eword res ((P - 1) / 64)) (select_mask ((P - 1) mod 64)))
      with (put (eword res ((P - 1) / 64)) ((P - 1) mod 64) true).
    split.
    + apply Forall_upd; [exact Hall|]. apply put_lt64; [apply eword_lt64; exact Hall | apply mod64_lt].
    + intros p. unfold wbit. rewrite ebit_upd_put by assumption.
      destruct (p =? P - 1) eqn:E.
      * apply N.eqb_eq in E. subst p. rewrite !N.eqb_refl. cbn [andb]. symmetry. apply orb_true_r.
      * apply N.eqb_neq in E.
        destruct ((p / 64 =? (P - 1) / 64) && (p mod 64 =? (P - 1) mod 64)) eqn:E2; [|reflexivity].
        apply andb_true_iff in E2. destruct E2 as [E3 E4]. apply N.eqb_eq in E3, E4. lia.
  - exists res. split; [reflexivity|]. split; [reflexivity|]. split; [exact Hall|].
    intros p. rewrite orb_false_r. destruct (p =? P - 1); reflexivity.
Qed.

Lemma wbit_repeat0 n p : wbit (repeat 0 n) p = false.
Proof. unfold wbit, ebit. rewrite eword_repeat0. apply N.bits_0. Qed.

Lemma sub_row_loop m row W (k : nat) :
  dm_inv m -> row < height m -> N.of_nat k <= width m -> N.of_nat k <= 64 * W ->
  exists res,
    ofold (sub_row_body m row) (rev (range_from (width m - N.of_nat k) (width m)))
          (repeat 0 (N.to_nat W), W, 0) =
    Ok (res, (64 * W - N.of_nat k) / 64, (64 * W - N.of_nat k) mod 64) /\
    length res = N.to_nat W /\ Forall lt64 res /\
    forall p, p < 64 * W ->
      wbit res p = (64 * W - N.of_nat k <=? p) && dm_bit m row (width m + p - 64 * W).
Proof.
  intros Hinv Hrow. induction k as [|k IH]; intros Hkw HkW.
  - exists (repeat 0 (N.to_nat W)). cbn [N.of_nat]. rewrite N.sub_0_r, range_from_nil by lia.
    cbn [rev ofold]. split; [f_equal; f_equal; [f_equal|]; lia|].
    split; [apply repeat_length|]. split; [apply Forall_repeat; exact lt64_0|].
    intros p Hp. rewrite wbit_repeat0. symmetry. apply andb_false_iff. left. apply N.leb_gt. lia.
  - destruct IH as [res [Hf [Hlen [Hall Hb]]]]; [lia | lia |].
    set (col := width m - N.of_nat (S k)).
    assert (Hr : range_from col (width m) = col :: range_from (width m - N.of_nat k) (width m)).
    { rewrite range_from_cons by (unfold col; lia). f_equal. f_equal. unfold col. lia. }
    rewrite Hr. cbn [rev]. rewrite ofold_app, Hf. cbn [obind ofold].
    destruct (sub_row_step m row res (64 * W - N.of_nat k) col) as [res' [Hs [Hlen' [Hall' Hb']]]];
      try assumption; try (unfold col; lia); try (rewrite Hlen; lia).
    rewrite Hs. cbn [obind].
    exists res'. replace (64 * W - N.of_nat (S k)) with (64 * W - N.of_nat k - 1) by lia.
    split; [reflexivity|]. split; [congruence|]. split; [exact Hall'|].
    intros p Hp. rewrite Hb', !Hb by lia.
    destruct (p =? 64 * W - N.of_nat k - 1) eqn:E.
    + apply N.eqb_eq in E. subst p.
      replace (64 * W - N.of_nat k <=? 64 * W - N.of_nat k - 1) with false by (symmetry; apply N.leb_gt; lia).
      rewrite N.leb_refl. cbn [andb orb]. f_equal. unfold col. lia.
    + apply N.eqb_neq in E. f_equal.
      destruct (64 * W - N.of_nat k <=? p) eqn:E1; symmetry;
        [apply N.leb_le in E1; apply N.leb_le | apply N.leb_gt in E1; apply N.leb_gt]; lia.
Qed.

Lemma unpack_step_pos P :
  (if P mod 64 + 1 =? 64 then (P / 64 + 1, 0) else (P / 64, P mod 64 + 1)) =
  ((P + 1) / 64, (P + 1) mod 64).
Proof.
  destruct (P mod 64 + 1 =? 64) eqn:E; [apply N.eqb_eq in E | apply N.eqb_neq in E]; f_equal; lia.
Qed.

Lemma bov_unpack_ok res : forall (k : nat) P,
  P + N.of_nat k <= 64 * N.of_nat (length res) ->
  bov_unpack k res (P / 64) (P mod 64) =
  Ok (map (fun t => b2n (wbit res (P + N.of_nat t))) (seq 0 k),
      (P + N.of_nat k) / 64, (P + N.of_nat k) mod 64).
Proof.
  induction k as [|k IH]; intros P H; cbn [bov_unpack].
  - cbn [seq map N.of_nat]. rewrite N.add_0_r. reflexivity.
  - rewrite vget_ok by lia. cbn [obind]. rewrite land_mask_eqb.
    rewrite unpack_step_pos. rewrite IH by lia. cbn [obind].
    rewrite <- cons_seq, <- seq_shift. cbn [map N.of_nat]. rewrite map_map, N.add_0_r.
    f_equal. f_equal; [f_equal|].
    + f_equal.
      * unfold wbit, ebit. destruct (N.testbit _ _); reflexivity.
      * apply map_ext. intros t. do 2 f_equal. lia.
    + f_equal. lia.
    + f_equal. lia.
Qed.

Lemma seq_map_add a n : map (fun t => (a + t)%nat) (seq 0 n) = seq a n.
Proof.
  revert a. induction n as [|n IH]; intros a; [reflexivity|].
  rewrite <- cons_seq, <- seq_shift. cbn [map]. rewrite map_map, Nat.add_0_r. cbn [seq]. f_equal.
  rewrite <- (IH (S a)). apply map_ext. intros t. lia.
Qed.

Lemma dm_get_sub_row_ok m row s :
  dm_inv m -> row < height m -> s <= width m ->
  exists ws, dm_get_sub_row_as_octets m row s = Ok (ws, width m - s) /\
    N.of_nat (length ws) = ceil_div (width m - s) 64 /\ Forall lt64 ws /\
    bov_to_octet_vec ws (width m - s) =
    Ok (map b2n (q_sub_row (dm_bitn m) (N.to_nat (width m)) (N.to_nat row) (N.to_nat s))).
Proof.
  intros Hinv Hrow Hs. unfold dm_get_sub_row_as_octets.
  replace (width m <? s) with false by (symmetry; apply N.ltb_ge; exact Hs).
  set (n := width m - s). set (W := ceil_div n 64).
  assert (HW : W = (n + 63) / 64) by apply ceil_div_64.
  fold (sub_row_body m row). rewrite repeat_length, N2Nat.id.
  destruct (sub_row_loop m row W (N.to_nat n)) as [res [Hf [Hlen [Hall Hb]]]]; try assumption;
    try (unfold n; lia); try lia.
  rewrite N2Nat.id in Hf, Hb. replace (width m - n) with s in Hf by (unfold n; lia).
  rewrite Hf. cbn [obind].
  replace (N.of_nat (length res) =? W) with true by (symmetry; apply N.eqb_eq; lia).
  cbn [assert_ok obind].
  exists res. split; [reflexivity|]. split; [lia|]. split; [exact Hall|].
  unfold bov_to_octet_vec, bov_padding_bits.
  set (pad := (64 - n mod 64) mod 64).
  assert (Hpad : pad = 64 * W - n) by (unfold pad; lia).
  replace 0 with (pad / 64) at 1 by (unfold pad; lia).
  replace pad with (pad mod 64) at 2 by (unfold pad; lia).
  rewrite bov_unpack_ok by (rewrite Hlen; lia). cbn [obind]. rewrite N2Nat.id.
  replace ((pad + n) / 64 =? N.of_nat (length res)) with true by (symmetry; apply N.eqb_eq; lia).
  replace ((pad + n) mod 64 =? 0) with true by (symmetry; apply N.eqb_eq; lia).
  cbn [assert_ok obind]. f_equal.
  unfold q_sub_row, dm_bitn. rewrite map_map.
  replace (N.to_nat (width m) - N.to_nat s)%nat with (N.to_nat n) by (unfold n; lia).
  rewrite <- (seq_map_add (N.to_nat s)), map_map.
  apply map_ext_in. intros t Ht. apply in_seq in Ht. f_equal.
  rewrite Hb by lia. rewrite N2Nat.id.
  replace (64 * W - n <=? pad + N.of_nat t) with true by (symmetry; apply N.leb_le; lia).
  cbn [andb]. f_equal. unfold n in *. lia.
Qed.

(* ---------------- the iterator's fuel is never exhausted (any arguments) ---------------- *)

Lemma obind_not_fuel {A B} (x : outcome A) (f : A -> outcome B) :
  x <> Panic PFuel -> (forall a, x = Ok a -> f a <> Panic PFuel) -> obind x f <> Panic PFuel.
Proof.
  intros Hx Hf. destruct x as [a|c]; cbn [obind]; [apply Hf; reflexivity|].
  intros E. apply Hx. inversion E. reflexivity.
Qed.

Lemma iter_dense_fuel slc e : forall (fuel : nat) idx widx bidx,
  bidx < 64 ->
  (64 * (N.of_nat (length slc) - widx) + 64 < N.of_nat fuel + bidx)%N ->
  iter_dense fuel slc e idx widx bidx <> Panic PFuel.
Proof.
  induction fuel as [|f IH]; intros idx widx bidx Hb Hf; [lia|]. cbn [iter_dense].
  destruct (idx =? e); [discriminate|].
  destruct (N.lt_ge_cases widx (N.of_nat (length slc))) as [L|L].
  - rewrite vget_ok by exact L. cbn [obind].
    destruct (bidx + 1 =? 64) eqn:E; [apply N.eqb_eq in E | apply N.eqb_neq in E].
    + apply obind_not_fuel; [apply IH; lia | intros; discriminate].
    + apply obind_not_fuel; [apply IH; lia | intros; discriminate].
  - rewrite vget_panic by exact L. cbn [obind]. discriminate.
Qed.

Lemma slice_ok_not_fuel l a b : slice_ok l a b <> Panic PFuel.
Proof. unfold slice_ok. destruct (_ && _); discriminate. Qed.

Lemma dm_get_row_iter_fuel fixed m row s e : dm_get_row_iter fixed m row s e <> Panic PFuel.
Proof.
  unfold dm_get_row_iter, bit_position, word_offset, WORD_WIDTH. cbv beta iota zeta.
  apply obind_not_fuel.
  - destruct fixed; apply slice_ok_not_fuel.
  - intros slc _. apply iter_dense_fuel; [apply mod64_lt | lia].
Qed.
