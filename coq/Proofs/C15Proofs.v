(* C15: the lemmas behind Props/C15.v, assembled from the row sweeps (C15Sweep1..3) and the generic
   proofs about the scans, rand / deg / intermediate_tuple and enc_indices. *)
From Coq Require Import NArith List Bool Lia.
From RQ Require Import Base.Outcome Base.Ints Base.ListX Gen.Consts Gen.SysTables
  Spec.Prime Spec.Rand Spec.Tuple Model.SysConst Model.Tuple
  Proofs.PrimeProofs Proofs.SysConstProofs Proofs.C15Sweep1 Proofs.C15Sweep3
  Proofs.TupleProofs Proofs.EncIndicesProofs.
Import ListNotations.
Open Scope N_scope.

Lemma in_by_nth {A} (l : list A) (n : nat) (d x : A) :
  Nat.ltb n (length l) = true -> nth n l d = x -> In x l.
Proof. intros Hn <-. apply nth_In. apply PeanoNat.Nat.ltb_lt. exact Hn. Qed.

(* ---- parameters ---- *)

Lemma c15_params K : K <= 56403 ->
  exists K' J S H W P1,
    (extended_source_block_symbols K = Ok K' /\ systematic_index K = Ok J /\
     num_ldpc_symbols K = Ok S /\ num_hdpc_symbols K = Ok H /\ num_lt_symbols K = Ok W /\
     num_intermediate_symbols K = Ok (K' + S + H) /\
     num_pi_symbols K = Ok (K' + S + H - W) /\ calculate_p1 K = Ok P1) /\
    In (K', J, S, H, W) TABLE2 /\ In (K', P1) P1_TABLE /\
    K <= K' /\ (forall r, In r TABLE2 -> K <= r_k r -> K' <= r_k r) /\
    is_prime S = true /\ is_prime W = true /\ is_prime P1 = true /\
    K' + S + H - W <= P1 /\ (forall q, K' + S + H - W <= q < P1 -> is_prime q = false) /\
    1 <= W - S /\ S < W /\ 2 <= H <= K' + S + H - W /\ K' + S + H < 65536 /\ W <= K' + S.
Proof.
  intros HK. destruct (lookups_select K HK) as [r [P1 [Hr [Hp [Hge [Hmin [Hsel Hp1]]]]]]].
  destruct r as [[[[K' J] S] H] W]. cbn [r_k] in Hp, Hge, Hmin.
  pose proof (row_facts K' J S H W P1 Hr Hp) as F. destruct F.
  exists K', J, S, H, W, P1.
  assert (E : num_intermediate_symbols K = Ok (K' + S + H)).
  { unfold num_intermediate_symbols, extended_source_block_symbols, num_ldpc_symbols,
      num_hdpc_symbols. rewrite !Hsel. reflexivity. }
  split.
  { unfold extended_source_block_symbols, systematic_index, num_ldpc_symbols, num_hdpc_symbols,
      num_lt_symbols. rewrite !Hsel. cbn [r_k r_j r_s r_h r_w].
    repeat split; try reflexivity; try assumption.
    unfold num_pi_symbols. rewrite E. unfold num_lt_symbols. rewrite Hsel. reflexivity. }
  repeat split; assumption.
Qed.

Lemma c15_params_reject K : 56403 < K -> K < 2 ^ 32 ->
  extended_source_block_symbols K = Panic PAssert /\ systematic_index K = Panic PAssert /\
  num_hdpc_symbols K = Panic PAssert /\ num_ldpc_symbols K = Panic PAssert /\
  num_lt_symbols K = Panic PAssert /\ num_intermediate_symbols K = Panic PAssert /\
  num_pi_symbols K = Panic PAssert /\ calculate_p1 K = Panic PAssert.
Proof.
  intros HK _. destruct (lookups_reject K HK) as [H5 [Hp [Hi Hpi]]].
  unfold extended_source_block_symbols, systematic_index, num_ldpc_symbols, num_hdpc_symbols,
    num_lt_symbols. rewrite !H5. repeat split; assumption.
Qed.

(* ---- what a row gives to the tuple proofs ---- *)

Lemma row_tuple_facts K' J S H W P1 :
  In (K', J, S, H, W) TABLE2 -> In (K', P1) P1_TABLE ->
  J <= 1000 /\ 3 <= W < 65536 /\ 2 <= P1 < 65536 /\ prime_N P1 /\
  1 <= K' + S + H - W /\ W + (K' + S + H - W) = K' + S + H /\ K' + S + H < 65536 /\
  K' <= 56403.
Proof.
  intros Hr Hp. destruct (row_facts K' J S H W P1 Hr Hp).
  pose proof (proj1 (is_prime_spec P1) ro_P1) as HP1. destruct HP1 as [HP1a HP1b].
  change MAX_SOURCE_SYMBOLS_PER_BLOCK with 56403 in ro_Kmax.
  repeat split; try assumption; lia.
Qed.

Lemma c15_tuple_ok wr m K' J S H W P1 X :
  In (K', J, S, H, W) TABLE2 -> In (K', P1) P1_TABLE -> X < 2 ^ 32 ->
  wr = true \/ m = Release \/ (Tuple_y J X + 2 < 2 ^ 32 /\ X + 5 < 2 ^ 32) ->
  intermediate_tuple_gen wr m X W J P1 = Ok (Tuple J W P1 X).
Proof.
  intros Hr Hp HX Hal.
  destruct (row_tuple_facts K' J S H W P1 Hr Hp) as [HJ [HW [HP1 _]]].
  assert (P16 : 65536 < 2 ^ 32) by reflexivity.
  rewrite tuple_gen_prefix by assumption. rewrite Tuple_of_y_eq.
  apply tuple_tail_ok; try assumption; try lia. apply Tuple_y_lt.
Qed.

Lemma c15_tuple_ranges K' J S H W P1 X :
  In (K', J, S, H, W) TABLE2 -> In (K', P1) P1_TABLE ->
  let '(d, a, b, d1, a1, b1) := Tuple J W P1 X in
  1 <= d <= N.min 30 (W - 2) /\ 1 <= a < W /\ b < W /\ (d1 = 2 \/ d1 = 3) /\
  1 <= a1 < P1 /\ b1 < P1.
Proof.
  intros Hr Hp. destruct (row_tuple_facts K' J S H W P1 Hr Hp) as [HJ [HW [HP1 _]]].
  rewrite Tuple_of_y_eq. apply Tuple_of_y_ranges; lia.
Qed.

(* ---- the pinned defect ---- *)

Lemma c15_pinned_overflow K' J S H W P1 X :
  In (K', J, S, H, W) TABLE2 -> In (K', P1) P1_TABLE -> X < 2 ^ 32 ->
  2 ^ 32 - 2 <= Tuple_y J X \/ 2 ^ 32 - 5 <= X ->
  intermediate_tuple_gen false Checked X W J P1 = Panic POverflow.
Proof.
  intros Hr Hp HX Hov.
  destruct (row_tuple_facts K' J S H W P1 Hr Hp) as [HJ [HW [HP1 _]]].
  assert (P16 : 65536 < 2 ^ 32) by reflexivity.
  assert (P32 : 5 < 2 ^ 32) by reflexivity.
  rewrite tuple_gen_prefix by assumption.
  apply tuple_tail_ovf; try assumption; try lia. apply Tuple_y_lt.
Qed.

Lemma c15_pinned_overflow_iff K' J S H W P1 X :
  In (K', J, S, H, W) TABLE2 -> In (K', P1) P1_TABLE -> X < 2 ^ 32 ->
  (is_ok (intermediate_tuple_gen false Checked X W J P1) = false <->
   2 ^ 32 - 2 <= Tuple_y J X \/ 2 ^ 32 - 5 <= X).
Proof.
  intros Hr Hp HX. split.
  - intros Hnok.
    destruct (N.le_gt_cases (2 ^ 32 - 2) (Tuple_y J X)) as [H1|H1]; [left; exact H1|].
    destruct (N.le_gt_cases (2 ^ 32 - 5) X) as [H2|H2]; [right; exact H2|]. exfalso.
    assert (P32 : 5 < 2 ^ 32) by reflexivity.
    rewrite (c15_tuple_ok false Checked K' J S H W P1 X Hr Hp HX) in Hnok; [discriminate|].
    right; right. lia.
  - intros Hov. rewrite (c15_pinned_overflow K' J S H W P1 X Hr Hp HX Hov). reflexivity.
Qed.

Lemma c15_pinned_only_two K' J S H W P1 X :
  In (K', J, S, H, W) TABLE2 -> In (K', P1) P1_TABLE -> X < 2 ^ 24 + K' ->
  is_ok (intermediate_tuple_gen false Checked X W J P1) = false ->
  (K' = 989 /\ X = 3158229) \/ (K' = 2195 /\ X = 8192877).
Proof.
  intros Hr Hp HX Hnok.
  destruct (row_tuple_facts K' J S H W P1 Hr Hp) as [_ [_ [_ [_ [_ [_ [_ HK]]]]]]].
  assert (P24 : 2 ^ 24 + 56403 + 5 < 2 ^ 32) by reflexivity.
  assert (HX32 : X < 2 ^ 32) by lia.
  apply (c15_pinned_overflow_iff K' J S H W P1 X Hr Hp HX32) in Hnok.
  destruct Hnok as [Hy|HXbig]; [|lia].
  pose proof (Tuple_y_lt J X) as Hylt.
  apply (only_two_solutions K' J S H W P1 X (Tuple_y J X) Hr Hp HX eq_refl). lia.
Qed.

(* ---- the fixed code never panics; enc_indices ---- *)

Lemma c15_enc_indices m K' J S H W P1 X :
  In (K', J, S, H, W) TABLE2 -> In (K', P1) P1_TABLE ->
  let '(d, a, b, d1, a1, b1) := Tuple J W P1 X in
  exists l, enc_indices m (Tuple J W P1 X) W (K' + S + H - W) P1 = Ok l /\
            length l = N.to_nat (d + d1) /\ Forall (fun i => i < K' + S + H) l.
Proof.
  intros Hr Hp. pose proof (c15_tuple_ranges K' J S H W P1 X Hr Hp) as R.
  destruct (row_tuple_facts K' J S H W P1 Hr Hp) as [HJ [HW [HP1 [Hpr [HP [HL [HL16 _]]]]]]].
  destruct (Tuple J W P1 X) as [[[[[d a] b] d1] a1] b1].
  destruct R as [Rd [Ra [Rb [Rd1 [Ra1 Rb1]]]]].
  assert (P16 : 65536 < 2 ^ 31) by reflexivity.
  assert (P32 : 65536 <= 2 ^ 32) by (intros E; discriminate E).
  destruct (enc_indices_ok m W (K' + S + H - W) P1) with (d := d) (a := a) (b := b) (d1 := d1)
    (a1 := a1) (b1 := b1) as [l [E [Hlen Hall]]]; try assumption; try lia.
  exists l. rewrite HL in Hall. auto.
Qed.

Lemma c15_no_panic_fixed K' J S H W P1 X m :
  In (K', J, S, H, W) TABLE2 -> In (K', P1) P1_TABLE -> X < 2 ^ 32 ->
  is_ok (intermediate_tuple_gen true m X W J P1) = true /\
  is_ok (enc_indices m (Tuple J W P1 X) W (K' + S + H - W) P1) = true.
Proof.
  intros Hr Hp HX. split.
  - rewrite (c15_tuple_ok true m K' J S H W P1 X Hr Hp HX); [reflexivity | left; reflexivity].
  - pose proof (c15_enc_indices m K' J S H W P1 X Hr Hp) as E.
    destruct (Tuple J W P1 X) as [[[[[d a] b] d1] a1] b1]. destruct E as [l [E _]].
    rewrite E. reflexivity.
Qed.
