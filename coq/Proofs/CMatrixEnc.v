(* C04, G_ENC part: the index list of the model's `enc_indices` is Spec.Code.Enc_indices, it has no
   repetition (so `set` and the RFC's parity agree), and `set_enc` writes one indicator row per ISI. *)
From Coq Require Import NArith List Bool Lia Arith.
From RQ Require Import Base.Outcome Base.Ints Base.ListX Gen.SysTables
  Spec.Prime Spec.Rand Spec.Tuple Spec.Code Model.Tuple Model.CMatrix
  Proofs.PrimeProofs Proofs.SysConstProofs Proofs.C15Sweep1 Proofs.TupleProofs
  Proofs.EncIndicesProofs Proofs.C15Proofs Proofs.CMatrixSweep Proofs.CMatrixBase
  Proofs.CMatrixEncNT.
Import ListNotations.
Open Scope N_scope.
Open Scope outcome_scope.

(* ---- the model's index list is the Spec's ---- *)
Section Eq.
Variables (m : mode) (W P P1 : N).
Hypothesis HW : W < 2 ^ 31.
Hypothesis HP1 : P1 < 2 ^ 31.
Hypothesis HW0 : W <> 0.
Hypothesis HP10 : P1 <> 0.

Let P31 : 2 ^ 31 + 2 ^ 31 = 2 ^ 32. Proof. reflexivity. Qed.

Lemma lt_loop_eq a : a < W -> forall n b l, b < W ->
  lt_loop m n a W b = Ok l -> l = enc_lt n a W b.
Proof.
  intros Ha. induction n as [|n IH]; intros b l Hb E; cbn [lt_loop enc_lt] in *.
  - injection E as <-. reflexivity.
  - rewrite add_w_small in E by lia. cbn [obind] in E. rewrite rem_ok_nz in E by exact HW0.
    cbn [obind] in E.
    destruct (lt_loop m n a W ((b + a) mod W)) as [rest|] eqn:Er; [|discriminate E].
    cbn [obind] in E. injection E as <-. cbv zeta. f_equal.
    apply IH; [apply N.mod_lt; exact HW0 | exact Er].
Qed.

Lemma enc_skip_lt a1 : forall fuel b1, b1 < P1 -> enc_skip fuel a1 P P1 b1 < P1.
Proof.
  induction fuel as [|f IH]; intros b1 Hb1; cbn [enc_skip]; [exact Hb1|].
  destruct (P <=? b1); [apply IH; apply N.mod_lt; exact HP10 | exact Hb1].
Qed.

Lemma pi_skip_eq a1 : a1 < P1 -> forall fuel b1 r, b1 < P1 ->
  pi_skip m fuel a1 P P1 b1 = Ok r -> r = enc_skip fuel a1 P P1 b1.
Proof.
  intros Ha1. induction fuel as [|f IH]; intros b1 r Hb1 E; cbn [pi_skip enc_skip] in *;
    [discriminate E|].
  destruct (P <=? b1).
  - rewrite add_w_small in E by lia. cbn [obind] in E. rewrite rem_ok_nz in E by exact HP10.
    cbn [obind] in E. apply IH; [apply N.mod_lt; exact HP10 | exact E].
  - injection E as <-. reflexivity.
Qed.

Lemma pi_loop_eq a1 fuel : a1 < P1 -> forall n b1 l, b1 < P1 ->
  pi_loop m fuel n a1 W P P1 b1 = Ok l -> l = enc_pi fuel n a1 W P P1 b1.
Proof.
  intros Ha1. induction n as [|n IH]; intros b1 l Hb1 E; cbn [pi_loop enc_pi] in *.
  - injection E as <-. reflexivity.
  - rewrite add_w_small in E by lia. cbn [obind] in E. rewrite rem_ok_nz in E by exact HP10.
    cbn [obind] in E.
    assert (Hb' : (b1 + a1) mod P1 < P1) by (apply N.mod_lt; exact HP10).
    destruct (pi_skip m fuel a1 P P1 ((b1 + a1) mod P1)) as [r|] eqn:Es; [|discriminate E].
    cbn [obind] in E. apply (pi_skip_eq a1 Ha1 fuel _ r Hb') in Es. subst r.
    pose proof (enc_skip_lt a1 fuel _ Hb') as Hr.
    rewrite add_w_small in E by lia. cbn [obind] in E.
    destruct (pi_loop m fuel n a1 W P P1 _) as [rest|] eqn:Er; [|discriminate E].
    cbn [obind] in E. injection E as <-. cbv zeta. f_equal. apply IH; [exact Hr | exact Er].
Qed.

Definition Enc_idx (t : tuple6) : list N :=
  let '(d, a, b, d1, a1, b1) := t in
  let fuel := N.to_nat P1 in
  let b1' := enc_skip fuel a1 P P1 b1 in
  b :: enc_lt (N.to_nat (d - 1)) a W b ++ (W + b1') :: enc_pi fuel (N.to_nat (d1 - 1)) a1 W P P1 b1'.

Lemma enc_indices_eq d a b d1 a1 b1 l : a < W -> b < W -> a1 < P1 -> b1 < P1 ->
  enc_indices m (d, a, b, d1, a1, b1) W P P1 = Ok l -> l = Enc_idx (d, a, b, d1, a1, b1).
Proof.
  intros Ha Hb Ha1 Hb1 E. unfold enc_indices in E.
  repeat match type of E with
  | (assert_ok ?c ;;; _) = _ => destruct c; cbn [assert_ok obind] in E; [|discriminate E]
  end.
  cbv zeta in E.
  destruct (lt_loop m _ a W b) as [lt|] eqn:E1; [|discriminate E]. cbn [obind] in E.
  apply (lt_loop_eq a Ha _ b lt Hb) in E1.
  destruct (pi_skip m _ a1 P P1 b1) as [r|] eqn:E2; [|discriminate E]. cbn [obind] in E.
  apply (pi_skip_eq a1 Ha1 _ b1 r Hb1) in E2.
  pose proof (enc_skip_lt a1 (N.to_nat P1) b1 Hb1) as Hr. rewrite <- E2 in Hr.
  rewrite add_w_small in E by lia. cbn [obind] in E.
  destruct (pi_loop m _ _ a1 W P P1 r) as [pis|] eqn:E3; [|discriminate E]. cbn [obind] in E.
  apply (pi_loop_eq a1 _ Ha1 _ r pis Hr) in E3.
  injection E as <-. unfold Enc_idx. cbv zeta. subst. reflexivity.
Qed.

End Eq.

(* ---- counting with no repetition ---- *)

Lemma count_fold_acc j : forall l acc,
  fold_left (fun acc x => if x =? j then acc + 1 else acc) l acc =
  acc + fold_left (fun acc x => if x =? j then acc + 1 else acc) l 0.
Proof.
  induction l as [|x t IH]; intros acc; cbn [fold_left]; [lia|].
  rewrite IH. rewrite (IH (if x =? j then 0 + 1 else 0)). destruct (x =? j); lia.
Qed.

Lemma count_occ_N_notin l j : ~ In j l -> count_occ_N l j = 0.
Proof.
  unfold count_occ_N. induction l as [|x t IH]; intros Hn; cbn [fold_left]; [reflexivity|].
  destruct (N.eqb_spec x j) as [->|Hne]; [exfalso; apply Hn; left; reflexivity|].
  apply IH. intros Hin. apply Hn. right. exact Hin.
Qed.

Lemma count_occ_N_nodup l j : NoDup l ->
  parity (count_occ_N l j) = if existsb (N.eqb j) l then 1 else 0.
Proof.
  induction l as [|x t IH]; intros Hnd; [reflexivity|].
  inversion Hnd as [|? ? Hx Ht]; subst. unfold count_occ_N in *. cbn [fold_left existsb].
  rewrite count_fold_acc. rewrite (N.eqb_sym j x).
  destruct (N.eqb_spec x j) as [->|Hne]; cbn [orb].
  - pose proof (count_occ_N_notin t j Hx) as Z. unfold count_occ_N in Z. rewrite Z. reflexivity.
  - rewrite N.add_0_l. apply IH. exact Ht.
Qed.

(* ---- one row of the table: the indices of an ISI ---- *)

Lemma enc_row_facts m K' J S H W P1 X :
  In (K', J, S, H, W) TABLE2 -> In (K', P1) P1_TABLE -> X < 2 ^ 32 ->
  let p := mkCP K' J S H W P1 in
  let idx := Enc_indices p (Tuple_of p X) in
  (t <- intermediate_tuple_gen true m X W J P1 ;; enc_indices m t W (K' + S + H - W) P1) = Ok idx /\
  NoDup idx /\ Forall (fun j => j < K' + S + H) idx.
Proof.
  intros Hr Hp HX. cbv zeta.
  destruct (row_tuple_facts K' J S H W P1 Hr Hp) as [HJ [HW [HP1 [Hpr [HP [HL [HL16 _]]]]]]].
  destruct (row_facts K' J S H W P1 Hr Hp). destruct (cm_row_facts K' J S H W P1 Hr Hp).
  pose proof (proj1 (is_prime_spec W) ro_W) as HWpr.
  rewrite (c15_tuple_ok true m K' J S H W P1 X Hr Hp HX) by (left; reflexivity). cbn [obind].
  pose proof (c15_tuple_ranges K' J S H W P1 X Hr Hp) as R.
  pose proof (c15_enc_indices m K' J S H W P1 X Hr Hp) as Ex.
  unfold Tuple_of. cbn [cJ cW cP1].
  destruct (Tuple J W P1 X) as [[[[[d a] b] d1] a1] b1].
  destruct R as [Rd [Ra [Rb [Rd1 [Ra1 Rb1]]]]]. destruct Ex as [l [El [_ Hall]]].
  assert (P16 : 65536 < 2 ^ 31) by reflexivity.
  pose proof (enc_indices_eq m W (K' + S + H - W) P1 ltac:(lia) ltac:(lia) ltac:(lia) ltac:(lia)
    d a b d1 a1 b1 l ltac:(lia) Rb ltac:(lia) Rb1 El) as Eq.
  assert (Eidx : Enc_indices (mkCP K' J S H W P1) (d, a, b, d1, a1, b1) =
                 Enc_idx W (K' + S + H - W) P1 (d, a, b, d1, a1, b1)) by reflexivity.
  rewrite Eidx, <- Eq. split; [exact El|]. split; [|exact Hall].
  rewrite Eq. unfold Enc_idx. cbv zeta.
  (* LT part *)
  assert (Hb0 : wkW W a b 0 = b) by (unfold wkW; rewrite N.mul_0_l, N.add_0_r; apply N.mod_small; exact Rb).
  destruct (enc_lt_nodup W a b HWpr Ra (N.to_nat (d - 1)) 0) as [L1 [L2 L3]]; [lia|].
  rewrite Hb0 in L1, L2, L3.
  (* PI part *)
  destruct (enc_pi_nodup W (K' + S + H - W) P1 a1 b1 Hpr Ra1 Rb1 ltac:(lia) ro_P_le
              (N.to_nat (d1 - 1)) cm_P3) as [Q1 Q2]; [destruct Rd1; subst; [left | right]; reflexivity|].
  cbv zeta in Q1, Q2. rewrite Forall_forall in Q2, L3.
  change (b :: enc_lt (N.to_nat (d - 1)) a W b ++ ?t) with ((b :: enc_lt (N.to_nat (d - 1)) a W b) ++ t).
  apply NoDup_app'; [constructor; [|exact L2] | exact Q1 |].
  - rewrite <- Hb0 at 1. apply L1. lia.
  - intros x Hx Hx2. apply Q2 in Hx2. destruct Hx as [<-|Hx]; [lia|]. apply L3 in Hx. lia.
Qed.

(* ---- set_enc ---- *)

Section SetEnc.
Variables (m : mode) (h w : nat) (first W P P1 J : N) (idxf : N -> list N).

Let body := (fun isi (st : N * list (list N)) =>
         let '(row, mat) := st in
         t <- intermediate_tuple_gen true m isi W J P1 ;;
         idx <- enc_indices m t W P P1 ;;
         mat <- ofold (fun j mat => mset mat (row + first) j 1) idx mat ;;
         Ok (row + 1, mat)).

Lemma set_enc_loop : forall isis row0 mat,
  wfm h w mat -> first + row0 + N.of_nat (length isis) <= N.of_nat h ->
  Forall (fun isi =>
    (t <- intermediate_tuple_gen true m isi W J P1 ;; enc_indices m t W P P1) = Ok (idxf isi) /\
    Forall (fun j => j < N.of_nat w) (idxf isi)) isis ->
  exists mat', ofold body isis (row0, mat) = Ok (row0 + N.of_nat (length isis), mat') /\
    wfm h w mat' /\
    forall r c, ent mat' r c =
      if (first + row0 <=? r) && (r <? first + row0 + N.of_nat (length isis)) &&
         existsb (N.eqb c) (idxf (nth (N.to_nat (r - first - row0)) isis 0))
      then 1 else ent mat r c.
Proof.
  induction isis as [|isi isis IH]; intros row0 mat Hwf Hh Hall; cbn [ofold length].
  - change (N.of_nat 0) with 0. exists mat. rewrite N.add_0_r. split; [reflexivity|].
    split; [exact Hwf|]. intros r c.
    replace ((first + row0 <=? r) && (r <? first + row0 + 0)) with false; [reflexivity|].
    symmetry. destruct (N.leb_spec (first + row0) r); destruct (N.ltb_spec r (first + row0 + 0));
      try reflexivity; lia.
  - inversion Hall as [|? ? [Eidx Hrange] Hall']; subst. cbn [length] in Hh.
    unfold body at 1.
    destruct (intermediate_tuple_gen true m isi W J P1) as [t|] eqn:Et; [|discriminate Eidx].
    cbn [obind] in Eidx |- *. rewrite Eidx. cbn [obind].
    destruct (mset_list_ok h w (row0 + first) 1 ltac:(lia) (idxf isi) mat Hwf Hrange)
      as [mat1 [E1 [Hwf1 He1]]].
    rewrite E1. cbn [obind]. fold body.
    destruct (IH (row0 + 1) mat1 Hwf1 ltac:(lia) Hall') as [mat' [E2 [Hwf2 He2]]].
    rewrite E2. exists mat'. split; [f_equal; f_equal; lia|]. split; [exact Hwf2|].
    intros r c. rewrite He2, He1.
    destruct (N.eqb_spec r (row0 + first)) as [->|Hne].
    + replace (first + (row0 + 1) <=? row0 + first) with false by (symmetry; apply N.leb_gt; lia).
      replace (first + row0 <=? row0 + first) with true by (symmetry; apply N.leb_le; lia).
      replace (row0 + first <? first + row0 + N.of_nat (S (length isis))) with true
        by (symmetry; apply N.ltb_lt; lia).
      replace (row0 + first - first - row0) with 0 by lia. cbn [andb nth N.to_nat]. reflexivity.
    + cbn [andb].
      destruct (N.leb_spec (first + (row0 + 1)) r) as [Hge|Hlt].
      * replace (first + row0 <=? r) with true by (symmetry; apply N.leb_le; lia).
        replace (r <? first + row0 + N.of_nat (S (length isis)))
          with (r <? first + (row0 + 1) + N.of_nat (length isis))
          by (destruct (N.ltb_spec r (first + (row0 + 1) + N.of_nat (length isis)));
              destruct (N.ltb_spec r (first + row0 + N.of_nat (S (length isis)))); try reflexivity; lia).
        replace (N.to_nat (r - first - row0)) with (S (N.to_nat (r - first - (row0 + 1)))) by lia.
        cbn [nth andb]. reflexivity.
      * cbn [andb].
        replace (first + row0 <=? r) with false by (symmetry; apply N.leb_gt; lia).
        reflexivity.
Qed.

Lemma set_enc_ok isis mat :
  wfm h w mat -> first + N.of_nat (length isis) <= N.of_nat h ->
  Forall (fun isi =>
    (t <- intermediate_tuple_gen true m isi W J P1 ;; enc_indices m t W P P1) = Ok (idxf isi) /\
    Forall (fun j => j < N.of_nat w) (idxf isi)) isis ->
  exists mat', set_enc m first W P P1 J isis mat = Ok mat' /\ wfm h w mat' /\
    forall r c, ent mat' r c =
      if (first <=? r) && (r <? first + N.of_nat (length isis)) &&
         existsb (N.eqb c) (idxf (nth (N.to_nat (r - first)) isis 0))
      then 1 else ent mat r c.
Proof.
  intros Hwf Hh Hall.
  destruct (set_enc_loop isis 0 mat Hwf ltac:(lia) Hall) as [mat' [E [Hwf' He]]].
  unfold set_enc. fold body. rewrite E. cbn [obind snd].
  exists mat'. split; [reflexivity|]. split; [exact Hwf'|].
  intros r c. rewrite He. rewrite !N.add_0_r, N.sub_0_r. reflexivity.
Qed.

End SetEnc.
