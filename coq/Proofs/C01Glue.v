(* The three hypotheses of the C01 chain about Model/CMatrix.v (MatWF, RowsOK, GenTotal of
   Proofs/SoundProofs.v) discharged from the constraint-matrix development (Proofs/CMatrix*.v,
   entry-wise characterisation `cm_generate` / `cm_generate_no_hdpc`, `c04_matrix_wf`,
   `c04_matrix_panics_iff`), for every K <= 56403 and both build modes. *)
From Coq Require Import NArith List Bool Lia Arith.
From RQ Require Import Base.Outcome Base.Ints Base.ListX Gen.Consts Gen.SysTables
  Spec.Linear Spec.Tuple Spec.Code
  Model.SysConst Model.Tuple Model.CMatrix Model.Layout
  Proofs.LinearProofs Proofs.SysConstProofs Proofs.C15Sweep1 Proofs.C15Proofs
  Proofs.CMatrixBase Proofs.CMatrixProofs
  Proofs.OutcomeLemmas Proofs.RowParams Proofs.RowSem Proofs.SoundProofs.
Import ListNotations.
Open Scope N_scope.

(* entries of an indicator row *)
Lemma fold_upd_nth_ent idx : forall r c,
  nth c (fold_left (fun r j => upd_nth (N.to_nat j) 1 r) idx r) 0 =
  if existsb (fun j => Nat.eqb c (N.to_nat j)) idx && Nat.ltb c (length r) then 1 else nth c r 0.
Proof.
  induction idx as [|j idx IH]; intros r c; cbn [fold_left existsb]; [reflexivity|].
  rewrite IH, upd_nth_length.
  destruct (Nat.eqb_spec c (N.to_nat j)) as [->|Hne]; cbn [orb].
  - destruct (Nat.ltb_spec (N.to_nat j) (length r)) as [Hlt|Hge].
    + rewrite andb_true_r. rewrite SoundProofs.nth_upd_nth_eq by exact Hlt.
      destruct (existsb _ idx); reflexivity.
    + rewrite !andb_false_r. rewrite !(nth_overflow _ 0) by (rewrite ?upd_nth_length; lia). reflexivity.
  - rewrite nth_upd_nth_ne by congruence. reflexivity.
Qed.

Lemma ind_row_ent L idx c : c < N.of_nat L ->
  nth (N.to_nat c) (ind_row L idx) 0 = if existsb (N.eqb c) idx then 1 else 0.
Proof.
  intros Hc. unfold ind_row. rewrite fold_upd_nth_ent, repeat_length.
  replace (Nat.ltb (N.to_nat c) L) with true by (symmetry; apply Nat.ltb_lt; lia).
  rewrite andb_true_r, nth_repeat_0.
  replace (existsb (fun j => Nat.eqb (N.to_nat c) (N.to_nat j)) idx) with (existsb (N.eqb c) idx).
  - reflexivity.
  - induction idx as [|j idx IH]; cbn [existsb]; [reflexivity|]. rewrite IH. f_equal.
    destruct (N.eqb_spec c j) as [->|Hne]; [symmetry; apply Nat.eqb_refl|].
    symmetry. apply Nat.eqb_neq. intros X. apply N2Nat.inj in X. congruence.
Qed.

Section Row.
Variables (m : mode) (K K' J S H W P1 : N).
Hypothesis PO : params_of K K' J S H W P1.
Let Hr := po_row _ _ _ _ _ _ _ PO.
Let Hp := po_p1 _ _ _ _ _ _ _ PO.
Let Hsys := po_sys_params _ _ _ _ _ _ _ PO.
Let p := mkCP K' J S H W P1.
Let L := K' + S + H.
Let sp := the_sp K' J S H W P1.

Definition ldpc_rows : list (list N) :=
  map (fun r => map (fun j => ldpc_entry p r j) (rangeN (N.to_nat L))) (rangeN (N.to_nat S)).
Definition hdpc_rows : list (list N) :=
  map (fun i => map (fun j => hdpc_entry p i j) (rangeN (N.to_nat L))) (rangeN (N.to_nat H)).

(* the G_ENC rows of an in-range ISI list exist, have length L and the RFC entries *)
Lemma enc_rows_exist isis : isis_ok isis ->
  exists rows, omapM (enc_row m sp) isis = Ok rows /\
    wfm (length isis) (N.to_nat L) rows /\
    forall k c, k < N.of_nat (length isis) -> c < L ->
      ent rows k c = enc_entry p (nth (N.to_nat k) isis 0) c.
Proof.
  induction 1 as [|x isis Hx Hall IH].
  - exists []. split; [reflexivity|]. split; [split; [reflexivity | constructor]|].
    intros k c Hk. cbn [length] in Hk. lia.
  - destruct IH as [rows [ER [[Hl Hf] He]]].
    destruct (cm_enc_row K' J S H W P1 Hr Hp m x Hx) as [t [idx [ET [EI [_ [_ [_ [_ Hent]]]]]]]].
    assert (Er : enc_row m sp x = Ok (ind_row (N.to_nat L) idx)).
    { unfold enc_row, sp, the_sp. cbn [spW spJ spP1 spP spL]. rewrite ET. cbn [obind]. rewrite EI. reflexivity. }
    exists (ind_row (N.to_nat L) idx :: rows). cbn [omapM]. rewrite Er, ER. split; [reflexivity|].
    split; [split; [cbn [length]; congruence | constructor; [apply ind_row_length | exact Hf]]|].
    intros k c Hk Hc. cbn [length] in Hk. destruct (N.eq_dec k 0) as [->|Hk0].
    + unfold ent. cbn [N.to_nat nth]. rewrite ind_row_ent by (unfold L in *; lia). apply Hent.
    + unfold ent. replace (N.to_nat k) with (Datatypes.S (N.to_nat (k - 1))) by lia. cbn [nth].
      apply (He (k - 1) c); lia.
Qed.

Lemma ldpc_rows_wfm : wfm (N.to_nat S) (N.to_nat L) ldpc_rows.
Proof. apply map_matrix_wfm. Qed.
Lemma hdpc_rows_wfm : wfm (N.to_nat H) (N.to_nat L) hdpc_rows.
Proof. apply map_matrix_wfm. Qed.

Lemma gcm_bound isis bin hd : isis_ok isis -> generate_constraint_matrix m K isis = Ok (bin, hd) ->
  L <= S + H + N.of_nat (length isis).
Proof.
  intros HI E. destruct (N.le_gt_cases L (S + H + N.of_nat (length isis))) as [?|Hgt]; [assumption|].
  destruct (c04_matrix_panics_iff K' J S H W P1 Hr Hp m K isis Hsys HI) as [X _].
  rewrite (X Hgt) in E. discriminate E.
Qed.

Lemma gcm_nh_bound isis A : isis_ok isis -> generate_constraint_matrix_no_hdpc m K isis = Ok A ->
  L <= S + N.of_nat (length isis).
Proof.
  intros HI E. destruct (N.le_gt_cases L (S + N.of_nat (length isis))) as [?|Hgt]; [assumption|].
  destruct (c04_matrix_panics_iff K' J S H W P1 Hr Hp m K isis Hsys HI) as [_ [_ [X _]]].
  rewrite (X Hgt) in E. discriminate E.
Qed.

Lemma rows_spec_holds : rows_spec m K sp ldpc_rows hdpc_rows.
Proof.
  split; [unfold ldpc_rows; rewrite map_length; apply OutcomeLemmas.rangeN_length|].
  split; [unfold hdpc_rows; rewrite map_length; apply OutcomeLemmas.rangeN_length|].
  change (spL sp) with L. change (spH sp) with H.
  split.
  - intros isis bin hd HI E. pose proof (gcm_bound isis bin hd HI E) as Hb.
    destruct (cm_generate K' J S H W P1 Hr Hp K Hsys m isis HI Hb) as [bin' [hd' [E' [Wb [Wh [Eb Eh]]]]]].
    rewrite E in E'. injection E' as <- <-. split.
    + apply (mat_ext (N.to_nat H) (N.to_nat L)); [exact Wh | exact hdpc_rows_wfm|].
      intros r c Hrr Hc. rewrite Eh by (unfold L in *; lia). unfold hdpc_rows.
      rewrite (map_matrix_ent _ _ (fun i j => hdpc_entry p i j)) by assumption. reflexivity.
    + destruct (enc_rows_exist isis HI) as [rows [ER [Wr Er]]]. exists rows. split; [exact ER|].
      apply (mat_ext (N.to_nat (S + H) + length isis) (N.to_nat L)); [exact Wb| |].
      * replace (N.to_nat (S + H) + length isis)%nat with (N.to_nat S + (N.to_nat H + length isis))%nat by lia.
        apply wfm_app; [exact ldpc_rows_wfm|]. apply wfm_app; [apply zero_matrix_wfm | exact Wr].
      * intros r c Hrr Hc. rewrite Eb by (unfold L in *; lia).
        pose proof ldpc_rows_wfm as [Ll _].
        rewrite ent_app, Ll, N2Nat.id.
        destruct (N.ltb_spec r S) as [HrS|HrS].
        -- unfold ldpc_rows. rewrite (map_matrix_ent _ _ (fun r j => ldpc_entry p r j)) by lia. reflexivity.
        -- rewrite ent_app, repeat_length, N2Nat.id.
           destruct (N.ltb_spec (r - S) H) as [HrH|HrH].
           ++ replace (S + H <=? r) with false by (symmetry; apply N.leb_gt; lia). cbn [andb].
              symmetry. apply (zero_matrix_ent (N.to_nat H) (N.to_nat L)).
           ++ replace (S + H <=? r) with true by (symmetry; apply N.leb_le; lia).
              replace (r <? S + H + N.of_nat (length isis)) with true by (symmetry; apply N.ltb_lt; lia).
              cbn [andb]. rewrite Er by (unfold L in *; lia). do 3 f_equal. lia.
  - intros isis bin HI E. pose proof (gcm_nh_bound isis bin HI E) as Hb.
    destruct (cm_generate_no_hdpc K' J S H W P1 Hr Hp K Hsys m isis HI Hb) as [bin' [E' [Wb Eb]]].
    rewrite E in E'. injection E' as <-.
    destruct (enc_rows_exist isis HI) as [rows [ER [Wr Er]]]. exists rows. split; [exact ER|].
    apply (mat_ext (N.to_nat S + length isis) (N.to_nat L)); [exact Wb| |].
    + apply wfm_app; [exact ldpc_rows_wfm | exact Wr].
    + intros r c Hrr Hc. rewrite Eb by (unfold L in *; lia).
      pose proof ldpc_rows_wfm as [Ll _].
      rewrite ent_app, Ll, N2Nat.id.
      destruct (N.ltb_spec r S) as [HrS|HrS].
      * unfold ldpc_rows. rewrite (map_matrix_ent _ _ (fun r j => ldpc_entry p r j)) by lia. reflexivity.
      * replace (S <=? r) with true by (symmetry; apply N.leb_le; lia).
        replace (r <? S + N.of_nat (length isis)) with true by (symmetry; apply N.ltb_lt; lia).
        cbn [andb]. rewrite Er by (unfold L in *; lia). reflexivity.
Qed.

Lemma mat_wf_holds :
  (forall isis bin hd, isis_ok isis -> generate_constraint_matrix m K isis = Ok (bin, hd) ->
     wf_mat (N.to_nat L) (full_matrix S H bin hd)) /\
  (forall isis bin, isis_ok isis -> generate_constraint_matrix_no_hdpc m K isis = Ok bin ->
     wf_mat (N.to_nat L) bin).
Proof.
  split.
  - intros isis bin hd HI E. pose proof (gcm_bound isis bin hd HI E) as Hb.
    destruct (c04_matrix_wf K' J S H W P1 Hr Hp m K isis Hsys HI) as [X _].
    destruct (X Hb) as [bin' [hd' [E' Wf]]]. rewrite E in E'. injection E' as <- <-. exact Wf.
  - intros isis bin HI E. pose proof (gcm_nh_bound isis bin HI E) as Hb.
    destruct (c04_matrix_wf K' J S H W P1 Hr Hp m K isis Hsys HI) as [_ X].
    destruct (X Hb) as [bin' [E' Wf]]. rewrite E in E'. injection E' as <-. exact Wf.
Qed.

Lemma gen_total_holds isis : isis_ok isis ->
  (L <= S + H + lenN isis -> exists bin hd, generate_constraint_matrix m K isis = Ok (bin, hd)) /\
  (L <= S + lenN isis -> exists bin, generate_constraint_matrix_no_hdpc m K isis = Ok bin).
Proof.
  intros HI. destruct (c04_matrix_panics_iff K' J S H W P1 Hr Hp m K isis Hsys HI) as [_ [X1 [_ X2]]].
  split; intros Hb.
  - specialize (X1 Hb). destruct (generate_constraint_matrix m K isis) as [[bin hd]|]; [eauto | discriminate X1].
  - specialize (X2 Hb). destruct (generate_constraint_matrix_no_hdpc m K isis) as [bin|]; [eauto | discriminate X2].
Qed.

End Row.

(* ---- the hypotheses, for every K that has parameters ---- *)

Lemma sys_params_the_sp K sp : sys_params K = Ok sp ->
  exists K' J S H W P1, params_of K K' J S H W P1 /\ sp = the_sp K' J S H W P1.
Proof.
  intros E. assert (X : exists Kp, extended_source_block_symbols K = Ok Kp).
  { pose proof E as E'. unfold sys_params in E'. oinvas E' as Kp X. eauto. }
  destruct X as [K' X]. destruct (params_of_ext _ _ X) as [J [S [H [W [P1 PO]]]]].
  rewrite (po_sys_params _ _ _ _ _ _ _ PO) in E. injection E as <-.
  exists K', J, S, H, W, P1. auto.
Qed.

Theorem MatWF_holds m K : MatWF m K.
Proof.
  intros sp E. destruct (sys_params_the_sp K sp E) as [K' [J [S [H [W [P1 [PO ->]]]]]]].
  exact (mat_wf_holds m K K' J S H W P1 PO).
Qed.

Theorem RowsOK_holds m K : RowsOK m K.
Proof.
  intros sp E. destruct (sys_params_the_sp K sp E) as [K' [J [S [H [W [P1 [PO ->]]]]]]].
  exists (ldpc_rows K' J S H W P1), (hdpc_rows K' J S H W P1).
  exact (rows_spec_holds m K K' J S H W P1 PO).
Qed.

Theorem GenTotal_holds m K : GenTotal m K.
Proof.
  intros sp E isis HI. destruct (sys_params_the_sp K sp E) as [K' [J [S [H [W [P1 [PO ->]]]]]]].
  exact (gen_total_holds m K K' J S H W P1 PO isis HI).
Qed.
