(* Proofs about Model/SparseMatrix.v, part 2: representation invariant, abstraction function,
   the refinement relation with the ghost state of Spec/SparseAdm.v, and the operations
   new / get / set / swap_rows / swap_columns / enable / disable.  Each operation gets a "cell
   characterisation": bit (r, c) of the result as a function of the bits of the argument. *)
From Coq Require Import NArith ZArith List Bool Lia Arith Sorted ZifyBool ZifyN.
From RQ Require Import Base.Outcome Base.Ints Base.ListX Spec.BitMatrix Spec.SparseAdm
  Model.DenseMatrix Model.SparseMatrix Proofs.DenseBits Proofs.DenseMatrixProofs
  Proofs.SparseVecProofs.
Import ListNotations.
Open Scope N_scope.

(* ---------------- invariant ---------------- *)

Definition rowk (m : smat) (p : N) : svec := nth (N.to_nat p) (s_rows m) [].
Definition W0 (m : smat) : N := N.of_nat (length (s_l2p_col m)).
Definition sfd (m : smat) : N := s_width m - s_nd m.

(* f and g are inverse permutations of [0, n) *)
Definition perm_pair (f g : list N) (n : N) : Prop :=
  N.of_nat (length f) = n /\ N.of_nat (length g) = n /\
  (forall i, i < n -> eword f i < n /\ eword g (eword f i) = i) /\
  (forall p, p < n -> eword g p < n /\ eword f (eword g p) = p).

(* a key is a physical column number whose logical column lies left of the dense tail *)
Definition key_ok (p2l : list N) (w0 fd : N) (k : N) : Prop := k < w0 /\ eword p2l k < fd.
Definition row_ok (m : smat) (r : svec) : Prop :=
  ssorted r /\ Forall (key_ok (s_p2l_col m) (W0 m) (sfd m)) r.

(* height * row_word_width words below 2^64, and the left padding bits of every row are 0 *)
Definition dense_inv (de : list N) (h nd : N) : Prop :=
  N.of_nat (length de) = h * ceil_div nd 64 /\ Forall lt64 de /\
  forall p b, p < h -> b < (64 - nd mod 64) mod 64 -> ebit de (p * ceil_div nd 64) b = false.

(* index ⊇ current entries; lists duplicate free, rows in range; sized by the height *)
Definition index_inv (m : smat) : Prop :=
  match s_index m with
  | None => s_disabled m = true
  | Some ix =>
      s_disabled m = false /\ length ix = N.to_nat (s_height m) /\ W0 m <= s_height m /\
      (forall k, k < W0 m -> NoDup (nth (N.to_nat k) ix []) /\
                             Forall (fun r => r < s_height m) (nth (N.to_nat k) ix [])) /\
      (forall p k, p < s_height m -> memN k (rowk m p) = true -> In p (nth (N.to_nat k) ix []))
  end.

Record sm_inv (md : mode) (m : smat) : Prop := mkinv {
  inv_h : s_height m < 2 ^ 24;
  inv_rows_len : length (s_rows m) = N.to_nat (s_height m);
  inv_rowmaps : perm_pair (s_l2p_row m) (s_p2l_row m) (s_height m);
  inv_colmaps : perm_pair (s_l2p_col m) (s_p2l_col m) (W0 m);
  inv_w : s_width m <= W0 m;
  inv_w0 : W0 m < 2 ^ 16;
  inv_nd : s_nd m <= s_width m;
  inv_rows : Forall (row_ok m) (s_rows m);
  inv_dense : dense_inv (s_dense m) (s_height m) (s_nd m);
  inv_index : index_inv m;
  inv_valid : md = Checked -> length (s_valid m) = length (s_l2p_col m)
}.

(* ---------------- abstraction ---------------- *)

(* dense tail: bit d of physical row p *)
Definition sm_dbit (m : smat) (p d : N) : bool :=
  lbit (s_dense m) (sm_rww m) p (sm_lpb m + d).

Definition sm_bit (m : smat) (i j : N) : bool :=
  let p := eword (s_l2p_row m) i in
  if j <? sfd m then memN (eword (s_l2p_col m) j) (rowk m p) else sm_dbit m p (j - sfd m).

Definition sm_bitn (m : smat) (i j : nat) : bool := sm_bit m (N.of_nat i) (N.of_nat j).

Definition sm_abs (m : smat) : bitmat :=
  bm_make (N.to_nat (s_height m)) (N.to_nat (s_width m)) (sm_bitn m) (fun _ _ => true).

(* the index is exact on the columns the ghost state does not mark stale *)
Definition index_exact (m : smat) (stale : list bool) : Prop :=
  forall ix c p, s_index m = Some ix -> c < sfd m -> nth (N.to_nat c) stale true = false ->
    In p (nth (N.to_nat (eword (s_l2p_col m) c)) ix []) ->
    memN (eword (s_l2p_col m) c) (rowk m p) = true.

(* the refinement relation: the concrete matrix agrees with the abstract one on every cell the
   interface defines, and the ghost state describes the concrete phase *)
Record srefines (md : mode) (m : smat) (st : sstate) : Prop := mkref {
  ref_inv : sm_inv md m;
  ref_h : bh (fst st) = N.to_nat (s_height m);
  ref_w : bw (fst st) = N.to_nat (s_width m);
  ref_nd : g_nd (snd st) = N.to_nat (s_nd m);
  ref_w0 : g_w0 (snd st) = length (s_l2p_col m);
  ref_idx : g_indexed (snd st) = negb (s_disabled m);
  ref_stale_len : length (g_stale (snd st)) = length (s_l2p_col m);
  ref_valid : md = Checked -> s_valid m = map negb (g_stale (snd st));
  ref_cells : forall i j, (i < bh (fst st))%nat -> (j < bw (fst st))%nat ->
                bm_def (fst st) i j = true -> bm_get (fst st) i j = sm_bitn m i j;
  ref_exact : index_exact m (g_stale (snd st))
}.

(* ---------------- arithmetic of the dense tail ---------------- *)

Lemma sub_w_ok md w a b : b <= a -> sub_w md w a b = Ok (a - b).
Proof. intros H. unfold sub_w. apply N.leb_le in H. rewrite H. reflexivity. Qed.

Lemma add_w_ok md w a b : a + b < 2 ^ w -> add_w md w a b = Ok (a + b).
Proof. intros H. unfold add_w. apply N.ltb_lt in H. cbv zeta. rewrite H. reflexivity. Qed.

Lemma mul_w_ok md w a b : a * b < 2 ^ w -> mul_w md w a b = Ok (a * b).
Proof. intros H. unfold mul_w. apply N.ltb_lt in H. cbv zeta. rewrite H. reflexivity. Qed.

Lemma sm_fd_ok md m : s_nd m <= s_width m -> sm_fd md m = Ok (sfd m).
Proof. intros H. unfold sm_fd. apply sub_w_ok. exact H. Qed.

Lemma rww_unfold m : sm_rww m = (s_nd m + 63) / 64.
Proof. unfold sm_rww, WORD_WIDTH. apply ceil_div_64. Qed.

Lemma lpb_unfold m : sm_lpb m = (64 - s_nd m mod 64) mod 64.
Proof. reflexivity. Qed.

Lemma lpb_nd nd : (64 - nd mod 64) mod 64 + nd = 64 * ceil_div nd 64.
Proof. rewrite ceil_div_64. zlia. Qed.

Lemma lpb_lt nd : (64 - nd mod 64) mod 64 < 64.
Proof. apply N.mod_lt. discriminate. Qed.

Lemma dense_word_lt nd d : d < nd -> ((64 - nd mod 64) mod 64 + d) / 64 < ceil_div nd 64.
Proof. intros H. pose proof (lpb_nd nd). zlia. Qed.

Lemma dense_addr_lt de h nd p a : dense_inv de h nd -> p < h -> a < ceil_div nd 64 ->
  p * ceil_div nd 64 + a < N.of_nat (length de).
Proof.
  intros [Hl _] Hp Ha. rewrite Hl. pose proof (row_mul_le p h (ceil_div nd 64) Hp). lia.
Qed.

(* ---------------- permutation pairs ---------------- *)

Lemma perm_l2p_lt f g n i : perm_pair f g n -> i < n -> eword f i < n.
Proof. intros [_ [_ [H _]]] Hi. apply H. exact Hi. Qed.
Lemma perm_p2l_lt f g n p : perm_pair f g n -> p < n -> eword g p < n.
Proof. intros [_ [_ [_ H]]] Hp. apply H. exact Hp. Qed.
Lemma perm_p2l_l2p f g n i : perm_pair f g n -> i < n -> eword g (eword f i) = i.
Proof. intros [_ [_ [H _]]] Hi. apply H. exact Hi. Qed.
Lemma perm_l2p_p2l f g n p : perm_pair f g n -> p < n -> eword f (eword g p) = p.
Proof. intros [_ [_ [_ H]]] Hp. apply H. exact Hp. Qed.
Lemma perm_len_f f g n : perm_pair f g n -> N.of_nat (length f) = n.
Proof. intros [H _]. exact H. Qed.
Lemma perm_len_g f g n : perm_pair f g n -> N.of_nat (length g) = n.
Proof. intros [_ [H _]]. exact H. Qed.

Lemma perm_l2p_inj f g n i j : perm_pair f g n -> i < n -> j < n ->
  (eword f i =? eword f j) = (i =? j).
Proof.
  intros H Hi Hj. destruct (i =? j) eqn:E.
  - apply N.eqb_eq in E. subst. apply N.eqb_refl.
  - apply N.eqb_neq in E. apply N.eqb_neq. intros Heq. apply E.
    rewrite <- (perm_p2l_l2p f g n i H Hi), <- (perm_p2l_l2p f g n j H Hj), Heq. reflexivity.
Qed.

Lemma perm_sym f g n : perm_pair f g n -> perm_pair g f n.
Proof. intros [H1 [H2 [H3 H4]]]. repeat split; try assumption; try (apply H4; assumption); apply H3; assumption. Qed.

Lemma vswap_ok l a b : a < N.of_nat (length l) -> b < N.of_nat (length l) ->
  vswap l a b = Ok (upd (upd l (N.to_nat a) (eword l b)) (N.to_nat b) (eword l a)).
Proof.
  intros Ha Hb. unfold vswap. rewrite !vget_ok by assumption. cbn [obind].
  rewrite vset_ok by assumption. cbn [obind]. rewrite vset_ok by (rewrite upd_length; assumption).
  reflexivity.
Qed.

Lemma eword_swap l a b q : a < N.of_nat (length l) -> b < N.of_nat (length l) ->
  eword (upd (upd l (N.to_nat a) (eword l b)) (N.to_nat b) (eword l a)) q = eword l (swpN a b q).
Proof.
  intros Ha Hb. rewrite eword_upd by (rewrite upd_length; assumption). rewrite eword_upd by assumption.
  unfold swpN. destruct (q =? b) eqn:E1.
  - apply N.eqb_eq in E1. subst. destruct (b =? a) eqn:E2; [apply N.eqb_eq in E2; subst|]; reflexivity.
  - destruct (q =? a) eqn:E2; reflexivity.
Qed.

Lemma swpN_lt a b q n : a < n -> b < n -> q < n -> swpN a b q < n.
Proof. intros. unfold swpN. destruct (q =? a); [assumption|]. destruct (q =? b); assumption. Qed.

Lemma swpN_invol a b q : swpN a b (swpN a b q) = q.
Proof.
  unfold swpN. destruct (q =? a) eqn:E1.
  - apply N.eqb_eq in E1. subst. destruct (b =? a) eqn:E2; [apply N.eqb_eq in E2; auto|].
    rewrite N.eqb_refl. reflexivity.
  - destruct (q =? b) eqn:E2.
    + apply N.eqb_eq in E2. subst. rewrite N.eqb_refl. reflexivity.
    + rewrite E1, E2. reflexivity.
Qed.

(* swapping logical positions a, b of f and the corresponding physical positions of g *)
Lemma perm_pair_swap f g n a b : perm_pair f g n -> a < n -> b < n ->
  let f' := upd (upd f (N.to_nat a) (eword f b)) (N.to_nat b) (eword f a) in
  let g' := upd (upd g (N.to_nat (eword f a)) (eword g (eword f b))) (N.to_nat (eword f b))
                (eword g (eword f a)) in
  perm_pair f' g' n /\ (forall q, eword f' q = eword f (swpN a b q)) /\
  (forall p, p < n -> eword g' p = swpN a b (eword g p)).
Proof.
  intros H Ha Hb f' g'.
  pose proof (perm_len_f _ _ _ H) as Lf. pose proof (perm_len_g _ _ _ H) as Lg.
  pose proof (perm_l2p_lt _ _ _ a H Ha) as Hfa. pose proof (perm_l2p_lt _ _ _ b H Hb) as Hfb.
  assert (Ef : forall q, eword f' q = eword f (swpN a b q)).
  { intros q. apply eword_swap; lia. }
  assert (Eg : forall p, p < n -> eword g' p = swpN a b (eword g p)).
  { intros p Hp. unfold g'. rewrite eword_swap by lia.
    unfold swpN at 1. destruct (p =? eword f a) eqn:E1.
    - apply N.eqb_eq in E1. subst p. rewrite (perm_p2l_l2p _ _ _ b H Hb), (perm_p2l_l2p _ _ _ a H Ha).
      unfold swpN. rewrite N.eqb_refl. reflexivity.
    - destruct (p =? eword f b) eqn:E2.
      + apply N.eqb_eq in E2. subst p. rewrite (perm_p2l_l2p _ _ _ a H Ha), (perm_p2l_l2p _ _ _ b H Hb).
        unfold swpN. destruct (b =? a) eqn:E3; [apply N.eqb_eq in E3; subst; reflexivity|].
        rewrite N.eqb_refl. reflexivity.
      + apply N.eqb_neq in E1, E2. unfold swpN.
        destruct (eword g p =? a) eqn:E3.
        { apply N.eqb_eq in E3. exfalso. apply E1. rewrite <- E3. symmetry. apply (perm_l2p_p2l _ _ _ p H Hp). }
        destruct (eword g p =? b) eqn:E4.
        { apply N.eqb_eq in E4. exfalso. apply E2. rewrite <- E4. symmetry. apply (perm_l2p_p2l _ _ _ p H Hp). }
        reflexivity. }
  split; [|split; assumption].
  unfold perm_pair. split; [unfold f'; rewrite !upd_length; exact Lf|].
  split; [unfold g'; rewrite !upd_length; exact Lg|]. split.
  - intros i Hi. rewrite Ef. pose proof (swpN_lt a b i n Ha Hb Hi) as Hs.
    split; [apply (perm_l2p_lt _ _ _ _ H Hs)|].
    rewrite Eg by (apply (perm_l2p_lt _ _ _ _ H Hs)).
    rewrite (perm_p2l_l2p _ _ _ _ H Hs). apply swpN_invol.
  - intros p Hp. rewrite Eg by exact Hp. pose proof (perm_p2l_lt _ _ _ p H Hp) as Hgp.
    split; [apply swpN_lt; assumption|].
    rewrite Ef, swpN_invol. apply (perm_l2p_p2l _ _ _ p H Hp).
Qed.

(* ---------------- accessors under the invariant ---------------- *)

Section Inv.
Variable md : mode.
Variable m : smat.
Hypothesis Hinv : sm_inv md m.

Lemma l2p_row_ok i : i < s_height m -> vget (s_l2p_row m) i = Ok (eword (s_l2p_row m) i).
Proof. intros Hi. apply vget_ok. rewrite (perm_len_f _ _ _ (inv_rowmaps _ _ Hinv)). exact Hi. Qed.

Lemma l2p_row_lt i : i < s_height m -> eword (s_l2p_row m) i < s_height m.
Proof. intros Hi. apply (perm_l2p_lt _ _ _ _ (inv_rowmaps _ _ Hinv) Hi). Qed.

Lemma p2l_row_ok p : p < s_height m -> vget (s_p2l_row m) p = Ok (eword (s_p2l_row m) p).
Proof. intros Hi. apply vget_ok. rewrite (perm_len_g _ _ _ (inv_rowmaps _ _ Hinv)). exact Hi. Qed.

Lemma l2p_col_ok j : j < W0 m -> vget (s_l2p_col m) j = Ok (eword (s_l2p_col m) j).
Proof. intros Hj. apply vget_ok. exact Hj. Qed.

Lemma l2p_col_lt j : j < W0 m -> eword (s_l2p_col m) j < W0 m.
Proof. intros Hj. apply (perm_l2p_lt _ _ _ _ (inv_colmaps _ _ Hinv) Hj). Qed.

Lemma p2l_col_ok k : k < W0 m -> vget (s_p2l_col m) k = Ok (eword (s_p2l_col m) k).
Proof. intros Hk. apply vget_ok. rewrite (perm_len_g _ _ _ (inv_colmaps _ _ Hinv)). exact Hk. Qed.

Lemma rows_get p : p < s_height m -> lget (s_rows m) p = Ok (rowk m p).
Proof. intros Hp. apply lget_ok. rewrite (inv_rows_len _ _ Hinv). lia. Qed.

Lemma rowk_ok p : p < s_height m -> row_ok m (rowk m p).
Proof.
  intros Hp. unfold rowk. apply Forall_nth_N; [exact (inv_rows _ _ Hinv)|].
  rewrite (inv_rows_len _ _ Hinv). lia.
Qed.

Lemma sfd_le : sfd m <= s_width m.
Proof. unfold sfd. lia. Qed.

Lemma fd_ok : sm_fd md m = Ok (sfd m).
Proof. apply sm_fd_ok. exact (inv_nd _ _ Hinv). Qed.

Lemma dense_pos_lt p d : p < s_height m -> d < s_nd m ->
  p * sm_rww m + (sm_lpb m + d) / 64 < N.of_nat (length (s_dense m)).
Proof.
  intros Hp Hd. apply (dense_addr_lt _ _ _ _ _ (inv_dense _ _ Hinv) Hp).
  apply dense_word_lt. exact Hd.
Qed.

(* key k occurs in some row only if it is a sparse column *)
Lemma mem_key_ok p k : p < s_height m -> memN k (rowk m p) = true ->
  k < W0 m /\ eword (s_p2l_col m) k < sfd m.
Proof.
  intros Hp Hm. destruct (rowk_ok p Hp) as [_ HF]. rewrite Forall_forall in HF.
  apply HF. apply memN_In. exact Hm.
Qed.

End Inv.

(* ---------------- abstraction lemmas ---------------- *)

Lemma sabs_bh m : bh (sm_abs m) = N.to_nat (s_height m). Proof. reflexivity. Qed.
Lemma sabs_bw m : bw (sm_abs m) = N.to_nat (s_width m). Proof. reflexivity. Qed.

Lemma sabs_get m i j : (i < N.to_nat (s_height m))%nat -> (j < N.to_nat (s_width m))%nat ->
  bm_get (sm_abs m) i j = sm_bitn m i j.
Proof. intros. unfold sm_abs. apply bm_make_get; assumption. Qed.

Lemma sabs_def m i j : (i < N.to_nat (s_height m))%nat -> (j < N.to_nat (s_width m))%nat ->
  bm_def (sm_abs m) i j = true.
Proof. intros. unfold sm_abs. rewrite bm_make_def by assumption. reflexivity. Qed.

(* ---------------- new ---------------- *)

Lemma nth_repeat' {A} (x : A) n k : nth k (repeat x n) x = x.
Proof. revert k. induction n as [|n IH]; intros [|k]; cbn [repeat nth]; auto. Qed.

Lemma nth_map_range (f : N -> N) n k d : (k < N.to_nat n)%nat ->
  nth k (map f (range_from 0 n)) d = f (N.of_nat k).
Proof.
  intros Hk. rewrite (nth_indep _ d (f 0)) by (rewrite map_length, range_from_length; lia).
  rewrite (map_nth f (range_from 0 n) 0 k). rewrite range_from_0_nth by exact Hk. reflexivity.
Qed.

Lemma id_map_perm (f : N -> N) n : (forall x, x < n -> f x = x) ->
  perm_pair (map f (range_from 0 n)) (map f (range_from 0 n)) n.
Proof.
  intros Hf.
  assert (L : N.of_nat (length (map f (range_from 0 n))) = n).
  { rewrite map_length, range_from_length. lia. }
  assert (E : forall i, i < n -> eword (map f (range_from 0 n)) i = i).
  { intros i Hi. unfold eword. rewrite nth_map_range by lia. rewrite N2Nat.id. apply Hf. exact Hi. }
  split; [exact L|]. split; [exact L|].
  split; intros i Hi; rewrite (E i Hi); split; try exact Hi; apply E; exact Hi.
Qed.

Lemma dense_inv_zero h nd n : N.of_nat n = h * ceil_div nd 64 -> dense_inv (repeat 0 n) h nd.
Proof.
  intros Hn. split; [rewrite repeat_length; exact Hn|]. split.
  - apply Forall_repeat. exact lt64_0.
  - intros p b _ _. unfold ebit. rewrite eword_repeat0. apply N.bits_0.
Qed.

Lemma sm_new_ok md h w hint : h < 2 ^ 24 -> w < 2 ^ 16 -> hint <= w ->
  exists m, sm_new md h w hint = Ok m /\ sm_inv md m /\
    s_height m = h /\ s_width m = w /\ s_nd m = hint /\ s_disabled m = true /\
    length (s_l2p_col m) = N.to_nat w /\
    (md = Checked -> s_valid m = repeat true (N.to_nat w)) /\
    forall i j, sm_bit m i j = false.
Proof.
  intros Hh Hw Hhint. unfold sm_new.
  assert (D1 : debug_assert md (h <? 16777216) = Ok tt).
  { destruct md; [reflexivity|]. cbn [debug_assert]. change 16777216 with (2 ^ 24).
    apply N.ltb_lt in Hh. rewrite Hh. reflexivity. }
  assert (D2 : debug_assert md (w <? 65536) = Ok tt).
  { destruct md; [reflexivity|]. cbn [debug_assert]. change 65536 with (2 ^ 16).
    apply N.ltb_lt in Hw. rewrite Hw. reflexivity. }
  rewrite D1, D2. cbn [obind]. eexists. split; [reflexivity|].
  set (de := if 0 <? hint then _ else _).
  assert (Hde : dense_inv de h hint /\ forall p b, ebit de p b = false).
  { unfold de, WORD_WIDTH. destruct (0 <? hint) eqn:E.
    - apply N.ltb_lt in E. split.
      + apply dense_inv_zero. rewrite N2Nat.id. rewrite ceil_div_64. f_equal. zlia.
      + intros. unfold ebit. rewrite eword_repeat0. apply N.bits_0.
    - apply N.ltb_ge in E. assert (hint = 0) by lia. subst hint. split.
      + apply (dense_inv_zero h 0 0). cbn. lia.
      + intros. unfold ebit, eword. destruct (N.to_nat p); apply N.bits_0. }
  destruct Hde as [Hde Hz].
  assert (Hrows : forall p, nth p (repeat sv_new (N.to_nat h)) [] = []).
  { intros p. apply (nth_repeat' (@nil N)). }
  split; [|repeat split; try reflexivity].
  - constructor; cbn [s_height s_width s_rows s_dense s_index s_l2p_row s_p2l_row s_l2p_col
                      s_p2l_col s_disabled s_valid s_nd]; unfold W0; cbn [s_l2p_col].
    + exact Hh.
    + apply repeat_length.
    + apply id_map_perm. intros x Hx. unfold u32. apply wrap_small. lia.
    + rewrite map_length, range_from_length. replace (N.of_nat (N.to_nat (w - 0))) with w by lia.
      apply id_map_perm. intros x Hx. unfold u16. apply wrap_small. lia.
    + rewrite map_length, range_from_length. lia.
    + rewrite map_length, range_from_length. lia.
    + exact Hhint.
    + apply Forall_forall. intros r Hr. apply repeat_spec in Hr. subst r. split; constructor.
    + exact Hde.
    + unfold index_inv. reflexivity.
    + intros E. subst md. rewrite repeat_length, map_length, range_from_length. lia.
  - cbn [s_l2p_col]. rewrite map_length, range_from_length. lia.
  - intros E. subst md. reflexivity.
  - intros i j. unfold sm_bit, sm_dbit, lbit, rowk. cbn [s_rows s_dense]. rewrite Hrows, Hz.
    destruct (j <? _); reflexivity.
Qed.

(* ---------------- get ---------------- *)

Lemma sm_get_ok md m i j : sm_inv md m -> i < s_height m -> j < s_width m ->
  sm_get md m i j = Ok (b2n (sm_bit m i j)).
Proof.
  intros Hinv Hi Hj. pose proof (inv_w _ _ Hinv) as Hw. pose proof (inv_nd _ _ Hinv) as Hnd.
  unfold sm_get. rewrite (l2p_row_ok md m Hinv i Hi). cbn [obind].
  rewrite (l2p_col_ok m j) by lia. cbn [obind].
  rewrite sub_w_ok by lia. cbn [obind]. unfold sm_bit.
  pose proof (l2p_row_lt md m Hinv i Hi) as Hp. set (p := eword (s_l2p_row m) i) in *.
  destruct (s_width m - j <=? s_nd m) eqn:E.
  - apply N.leb_le in E. assert (Hge : sfd m <= j) by (unfold sfd; lia).
    assert (Hlt : (j <? sfd m) = false) by (apply N.ltb_ge; exact Hge). rewrite Hlt.
    unfold sm_dense_col. rewrite (fd_ok md m Hinv). cbn [obind].
    apply N.leb_le in Hge. rewrite Hge. apply N.leb_le in Hge. cbn [obind].
    unfold sm_bit_position, sm_word_offset, WORD_WIDTH.
    rewrite vget_ok by (apply (dense_pos_lt md m Hinv); [exact Hp | unfold sfd in *; lia]).
    cbn [obind]. rewrite land_mask_eqb. unfold sm_dbit, lbit, ebit.
    destruct (N.testbit _ _); reflexivity.
  - apply N.leb_gt in E. assert (Hlt : j < sfd m) by (unfold sfd; lia).
    apply N.ltb_lt in Hlt. rewrite Hlt. rewrite (rows_get md m Hinv p Hp). cbn [obind].
    destruct (rowk_ok md m Hinv p Hp) as [Hs _].
    rewrite sv_get_spec; [reflexivity | exact Hs|].
    pose proof (l2p_col_lt md m Hinv j ltac:(lia)). pose proof (inv_w0 _ _ Hinv).
    change 65536 with (2 ^ 16). lia.
Qed.

(* ---------------- set ---------------- *)

Ltac sfields :=
  cbn [set_rows set_dense set_index set_row_maps set_col_maps set_valid set_nd
       s_height s_width s_rows s_dense s_index s_l2p_row s_p2l_row s_l2p_col s_p2l_col
       s_disabled s_valid s_nd].
Ltac sfields_in H :=
  cbn [set_rows set_dense set_index set_row_maps set_col_maps set_valid set_nd
       s_height s_width s_rows s_dense s_index s_l2p_row s_p2l_row s_l2p_col s_p2l_col
       s_disabled s_valid s_nd] in H.

(* everything but the sparse rows and the dense words is unchanged *)
Definition same_frame (m m' : smat) : Prop :=
  s_height m' = s_height m /\ s_width m' = s_width m /\ s_nd m' = s_nd m /\
  s_l2p_row m' = s_l2p_row m /\ s_p2l_row m' = s_p2l_row m /\
  s_l2p_col m' = s_l2p_col m /\ s_p2l_col m' = s_p2l_col m /\
  s_disabled m' = s_disabled m /\ s_valid m' = s_valid m /\ s_index m' = s_index m.

Lemma index_none md m : sm_inv md m -> s_disabled m = true -> s_index m = None.
Proof.
  intros Hinv Hd. pose proof (inv_index _ _ Hinv) as H. unfold index_inv in H.
  destruct (s_index m); [|reflexivity]. destruct H as [H _]. congruence.
Qed.

Lemma lbit_upd_put els rw p c v p' c' : c / 64 < rw -> c' / 64 < rw ->
  p * rw + c / 64 < N.of_nat (length els) -> Forall lt64 els ->
  lbit (upd els (N.to_nat (p * rw + c / 64)) (put (eword els (p * rw + c / 64)) (c mod 64) v)) rw p' c' =
  if (p' =? p) && (c' =? c) then v else lbit els rw p' c'.
Proof.
  intros Hc Hc' Hlen Hall. unfold lbit. rewrite ebit_upd_put by assumption.
  rewrite cell_addr_eqb by assumption. reflexivity.
Qed.

Lemma sm_set_ok md m i j v : sm_inv md m -> i < s_height m -> j < s_width m ->
  (sfd m <= j \/ s_disabled m = true) ->
  exists m', sm_set md m i j v = Ok m' /\ sm_inv md m' /\ same_frame m m' /\
    (s_disabled m = false -> s_rows m' = s_rows m) /\
    forall r c, r < s_height m -> c < s_width m ->
      sm_bit m' r c = if (r =? i) && (c =? j) then negb (v =? 0) else sm_bit m r c.
Proof.
  intros Hinv Hi Hj Hph. pose proof (inv_w _ _ Hinv) as Hw. pose proof (inv_nd _ _ Hinv) as Hnd.
  unfold sm_set. rewrite (l2p_row_ok md m Hinv i Hi). cbn [obind].
  rewrite (l2p_col_ok m j) by lia. cbn [obind].
  rewrite sub_w_ok by lia. cbn [obind].
  pose proof (l2p_row_lt md m Hinv i Hi) as Hp. set (p := eword (s_l2p_row m) i) in *.
  destruct (s_width m - j <=? s_nd m) eqn:E.
  - (* dense tail *)
    apply N.leb_le in E. assert (Hge : sfd m <= j) by (unfold sfd; lia).
    unfold sm_dense_col. rewrite (fd_ok md m Hinv). cbn [obind].
    apply N.leb_le in Hge. rewrite Hge. apply N.leb_le in Hge. cbn [obind].
    set (d := j - sfd m). assert (Hd : d < s_nd m) by (unfold d, sfd in *; lia).
    unfold sm_bit_position, sm_word_offset, WORD_WIDTH.
    pose proof (dense_pos_lt md m Hinv p d Hp Hd) as Hpos.
    rewrite vget_ok by exact Hpos. cbn [obind]. rewrite vset_ok by exact Hpos. cbn [obind].
    set (pos := p * sm_rww m + (sm_lpb m + d) / 64) in *.
    set (x' := if v =? 0 then _ else _).
    assert (Ex : x' = put (eword (s_dense m) pos) ((sm_lpb m + d) mod 64) (negb (v =? 0))).
    { unfold x', put. destruct (v =? 0); reflexivity. }
    destruct (inv_dense _ _ Hinv) as [Hlen [Hall Hpad]].
    assert (Hwd : (sm_lpb m + d) / 64 < sm_rww m) by (apply dense_word_lt; exact Hd).
    eexists. split; [reflexivity|]. split; [|split; [|split]].
    + destruct Hinv. constructor; cbn [set_dense s_height s_width s_rows s_dense s_index s_l2p_row
        s_p2l_row s_l2p_col s_p2l_col s_disabled s_valid s_nd]; try assumption.
      split; [rewrite upd_length; exact Hlen|]. split.
      * apply Forall_upd; [exact Hall|]. rewrite Ex. apply put_lt64; [apply eword_lt64; exact Hall | apply mod64_lt].
      * intros q b Hq Hb. rewrite Ex. rewrite ebit_upd_put by assumption.
        destruct ((q * ceil_div (s_nd m) 64 =? pos) && (b =? (sm_lpb m + d) mod 64)) eqn:Eq;
          [|apply Hpad; assumption].
        exfalso. apply andb_true_iff in Eq. destruct Eq as [Eq1 Eq2]. apply N.eqb_eq in Eq1, Eq2.
        unfold pos, sm_rww, WORD_WIDTH in Eq1.
        assert (E0 : q * ceil_div (s_nd m) 64 + 0 = p * ceil_div (s_nd m) 64 + (sm_lpb m + d) / 64) by lia.
        apply pos_inj in E0; [|unfold sm_rww, WORD_WIDTH in Hwd; lia | exact Hwd].
        destruct E0 as [_ E0]. unfold sm_lpb, WORD_WIDTH in *. zlia.
    + repeat split.
    + reflexivity.
    + intros r c Hr Hc. unfold sm_bit. cbn [set_dense s_l2p_row s_l2p_col s_width s_nd].
      unfold sfd, rowk. cbn [set_dense s_width s_nd s_rows]. fold (sfd m). fold (rowk m (eword (s_l2p_row m) r)).
      destruct (c <? sfd m) eqn:Ec.
      * apply N.ltb_lt in Ec. destruct (c =? j) eqn:Ecj; [apply N.eqb_eq in Ecj; lia|].
        rewrite andb_false_r. reflexivity.
      * apply N.ltb_ge in Ec. unfold sm_dbit. cbn [set_dense s_dense]. unfold sm_rww, sm_lpb. cbn [set_dense s_nd].
        fold (sm_rww m). fold (sm_lpb m). rewrite Ex. unfold pos.
        rewrite lbit_upd_put; try assumption.
        -- unfold p. rewrite (perm_l2p_inj _ _ _ r i (inv_rowmaps _ _ Hinv) Hr Hi).
           replace (sm_lpb m + (c - sfd m) =? sm_lpb m + d) with (c =? j); [reflexivity|].
           unfold d. destruct (c =? j) eqn:Ecj; symmetry; [apply N.eqb_eq; apply N.eqb_eq in Ecj; lia|].
           apply N.eqb_neq. apply N.eqb_neq in Ecj. lia.
        -- apply dense_word_lt. unfold sfd in *. lia.
  - (* sparse rows *)
    apply N.leb_gt in E. assert (Hlt : j < sfd m) by (unfold sfd; lia).
    destruct Hph as [Hph|Hdis]; [lia|].
    rewrite (rows_get md m Hinv p Hp). cbn [obind].
    destruct (rowk_ok md m Hinv p Hp) as [Hs Hk].
    pose proof (l2p_col_lt md m Hinv j ltac:(lia)) as Hpj. pose proof (inv_w0 _ _ Hinv) as Hw0.
    set (pj := eword (s_l2p_col m) j) in *.
    destruct (sv_insert_spec md (rowk m p) pj v Hs) as [r' [Hins [Hs' [Hx HP]]]];
      [change 65536 with (2 ^ 16); lia|].
    rewrite Hins. cbn [obind]. rewrite lset_ok by (rewrite (inv_rows_len _ _ Hinv); lia).
    cbn [obind]. rewrite Hdis. cbn [assert_ok obind].
    eexists. split; [reflexivity|]. split; [|split; [|split]].
    + pose proof (index_none md m Hinv Hdis) as Hnone.
      destruct Hinv. constructor; cbn [set_rows s_height s_width s_rows s_dense s_index s_l2p_row
        s_p2l_row s_l2p_col s_p2l_col s_disabled s_valid s_nd]; try assumption.
      * rewrite upd_length. assumption.
      * unfold row_ok, W0, sfd. sfields. fold (W0 m). fold (sfd m).
        apply Forall_upd; [exact inv_rows0|]. split; [exact Hs'|]. apply HP; [exact Hk|].
        split; [exact Hpj|]. unfold pj. rewrite (perm_p2l_l2p _ _ _ j inv_colmaps0) by lia. exact Hlt.
      * unfold index_inv. cbn [set_rows s_index s_disabled]. rewrite Hnone. exact Hdis.
    + repeat split.
    + intros Hf. congruence.
    + intros r c Hr Hc. unfold sm_bit. cbn [set_rows s_l2p_row s_l2p_col]. unfold sfd. cbn [set_rows s_width s_nd].
      fold (sfd m). unfold sm_dbit, sm_rww, sm_lpb. cbn [set_rows s_dense s_nd].
      fold (sm_rww m). fold (sm_lpb m).
      destruct (c <? sfd m) eqn:Ec.
      * apply N.ltb_lt in Ec. unfold rowk. cbn [set_rows s_rows].
        rewrite nth_upd_N by (rewrite (inv_rows_len _ _ Hinv); lia).
        fold (rowk m (eword (s_l2p_row m) r)).
        unfold p at 1. rewrite (perm_l2p_inj _ _ _ r i (inv_rowmaps _ _ Hinv) Hr Hi).
        destruct (r =? i) eqn:Eri; cbn [andb]; [|reflexivity].
        apply N.eqb_eq in Eri. subst r. rewrite Hx. unfold pj.
        rewrite (perm_l2p_inj _ _ _ c j (inv_colmaps _ _ Hinv)) by lia. reflexivity.
      * apply N.ltb_ge in Ec. destruct (c =? j) eqn:Ecj; [apply N.eqb_eq in Ecj; lia|].
        rewrite andb_false_r. reflexivity.
Qed.

(* ---------------- swap_rows ---------------- *)

Lemma sm_swap_rows_ok md m i j : sm_inv md m -> i < s_height m -> j < s_height m ->
  exists l2p p2l, sm_swap_rows md m i j = Ok (set_row_maps m l2p p2l) /\
    sm_inv md (set_row_maps m l2p p2l) /\
    forall r c, sm_bit (set_row_maps m l2p p2l) r c = sm_bit m (swpN i j r) c.
Proof.
  intros Hinv Hi Hj. pose proof (inv_rowmaps _ _ Hinv) as Hp.
  pose proof (perm_len_f _ _ _ Hp) as Lf. pose proof (perm_len_g _ _ _ Hp) as Lg.
  pose proof (perm_l2p_lt _ _ _ i Hp Hi) as Hfi. pose proof (perm_l2p_lt _ _ _ j Hp Hj) as Hfj.
  unfold sm_swap_rows. rewrite !(l2p_row_ok md m Hinv) by assumption. cbn [obind].
  rewrite !vswap_ok by lia. cbn [obind].
  destruct (perm_pair_swap _ _ _ i j Hp Hi Hj) as [Hp' [Ef Eg]].
  eexists. eexists. split; [reflexivity|]. split.
  - destruct Hinv. constructor; sfields; try assumption.
  - intros r c. unfold sm_bit. sfields. rewrite Ef. reflexivity.
Qed.

(* ---------------- swap_columns ---------------- *)

Lemma lswap_ok {A} (l : list A) a b d : a < N.of_nat (length l) -> b < N.of_nat (length l) ->
  lswap l a b = Ok (upd (upd l (N.to_nat a) (nth (N.to_nat b) l d)) (N.to_nat b) (nth (N.to_nat a) l d)).
Proof.
  intros Ha Hb. unfold lswap. rewrite (lget_ok l a d), (lget_ok l b d) by assumption. cbn [obind].
  rewrite lset_ok by assumption. cbn [obind]. rewrite lset_ok by (rewrite upd_length; assumption).
  reflexivity.
Qed.

Definition swap_valid (md : mode) (valid : list bool) (i j : N) : list bool :=
  match md with
  | Checked => upd (upd valid (N.to_nat i) (nth (N.to_nat j) valid false)) (N.to_nat j)
                   (nth (N.to_nat i) valid false)
  | Release => valid
  end.

Lemma sm_swap_columns_ok md m i j hint : sm_inv md m -> i < sfd m -> j < sfd m ->
  exists l2p p2l,
    sm_swap_columns md m i j hint = Ok (set_col_maps m l2p p2l (swap_valid md (s_valid m) i j)) /\
    sm_inv md (set_col_maps m l2p p2l (swap_valid md (s_valid m) i j)) /\
    length l2p = length (s_l2p_col m) /\
    (forall q, eword l2p q = eword (s_l2p_col m) (swpN i j q)) /\
    forall r c, sm_bit (set_col_maps m l2p p2l (swap_valid md (s_valid m) i j)) r c =
                sm_bit m r (swpN i j c).
Proof.
  intros Hinv Hi Hj. pose proof (inv_colmaps _ _ Hinv) as Hp.
  pose proof (inv_w _ _ Hinv) as Hw. pose proof (inv_nd _ _ Hinv) as Hnd.
  assert (Hi0 : i < W0 m) by (unfold sfd in *; lia). assert (Hj0 : j < W0 m) by (unfold sfd in *; lia).
  pose proof (perm_len_f _ _ _ Hp) as Lf. pose proof (perm_len_g _ _ _ Hp) as Lg.
  pose proof (perm_l2p_lt _ _ _ i Hp Hi0) as Hfi. pose proof (perm_l2p_lt _ _ _ j Hp Hj0) as Hfj.
  unfold sm_swap_columns, sm_swap_columns_gen. rewrite (fd_ok md m Hinv). cbn [obind].
  assert (E : (sfd m <=? j) = false) by (apply N.leb_gt; exact Hj). rewrite E.
  assert (E' : (sfd m <=? i) = false) by (apply N.leb_gt; exact Hi). rewrite E'. cbn [andb orb].
  assert (Hv : (match md with Checked => lswap (s_valid m) i j | Release => Ok (s_valid m) end)
               = Ok (swap_valid md (s_valid m) i j)).
  { destruct md; [reflexivity|]. cbn [swap_valid]. apply lswap_ok; rewrite (inv_valid _ _ Hinv eq_refl); exact Hi0 || exact Hj0. }
  rewrite Hv. cbn [obind]. rewrite !(l2p_col_ok m) by assumption. cbn [obind].
  rewrite !vswap_ok by (unfold W0 in *; lia). cbn [obind].
  destruct (perm_pair_swap _ _ _ i j Hp Hi0 Hj0) as [Hp' [Ef Eg]].
  eexists. eexists. split; [reflexivity|].
  assert (HW : forall l2p p2l v, W0 (set_col_maps m (upd (upd (s_l2p_col m) (N.to_nat i) l2p) (N.to_nat j) p2l) v
                                    (swap_valid md (s_valid m) i j)) = W0 m).
  { intros. unfold W0. sfields. rewrite !upd_length. reflexivity. }
  split; [|split; [rewrite !upd_length; reflexivity | split; [exact Ef|]]].
  - destruct Hinv. constructor; try rewrite HW; sfields; try assumption.
    + unfold row_ok. rewrite HW. unfold sfd. sfields. fold (sfd m).
      eapply Forall_impl; [|exact inv_rows0]. intros r [Hs Hk]. split; [exact Hs|].
      eapply Forall_impl; [|exact Hk]. intros k [Hk1 Hk2]. split; [exact Hk1|].
      rewrite Eg by exact Hk1. apply swpN_lt; assumption.
    + unfold index_inv in *. sfields. rewrite HW. exact inv_index0.
    + intros Emd. rewrite !upd_length. subst md. cbn [swap_valid]. rewrite !upd_length. apply inv_valid0. reflexivity.
  - intros r c. unfold sm_bit. sfields. unfold sfd. sfields. fold (sfd m). rewrite Ef.
    unfold swpN. destruct (c =? i) eqn:E1.
    + apply N.eqb_eq in E1. subst c. apply N.ltb_lt in Hi, Hj. rewrite Hi, Hj. reflexivity.
    + destruct (c =? j) eqn:E2; [|reflexivity].
      apply N.eqb_eq in E2. subst c. apply N.ltb_lt in Hi, Hj. rewrite Hi, Hj. reflexivity.
Qed.

(* ---------------- enable / disable ---------------- *)

Lemma ssorted_length_le l : forall lo n, ssorted l -> Forall (fun x => lo <= x < n) l ->
  N.of_nat (length l) <= n - lo.
Proof.
  induction l as [|x t IH]; intros lo n Hs HF; cbn [length]; [lia|].
  apply ssorted_cons_inv in Hs. destruct Hs as [Hs Hlt]. inversion HF as [|? ? Hx HF']; subst.
  assert (H : N.of_nat (length t) <= n - (x + 1)).
  { apply IH; [exact Hs|]. rewrite Forall_forall in *. intros y Hy.
    specialize (Hlt y Hy). specialize (HF' y Hy). lia. }
  lia.
Qed.

Lemma index_entries_length rows : forall p0 n, Forall (fun r => N.of_nat (length r) <= n) rows ->
  N.of_nat (length (index_entries rows p0)) <= N.of_nat (length rows) * n.
Proof.
  induction rows as [|r t IH]; intros p0 n HF; cbn [index_entries length]; [lia|].
  inversion HF; subst. rewrite app_length, map_length. specialize (IH (p0 + 1) n H2). lia.
Qed.

Lemma index_entries_keys (P : N -> Prop) rows : forall p0,
  Forall (fun r => Forall (fun k => P (u16 k)) r) rows ->
  Forall (fun e => P (fst e)) (index_entries rows p0).
Proof.
  induction rows as [|r t IH]; intros p0 HF; cbn [index_entries]; [constructor|].
  inversion HF; subst. apply Forall_app. split; [|apply IH; assumption].
  apply Forall_forall. intros e He. apply in_map_iff in He. destruct He as [k [Ek Hk]]. subst e.
  cbn [fst]. rewrite Forall_forall in H1. apply H1. exact Hk.
Qed.

Lemma index_entries_nonempty rows : forall p0, (exists r, In r rows /\ r <> []) ->
  index_entries rows p0 <> [].
Proof.
  induction rows as [|r t IH]; intros p0 [r0 [Hin Hne]]; [destruct Hin|].
  cbn [index_entries]. destruct Hin as [E|Hin].
  - subst r0. destruct r as [|k r']; [contradiction|]. discriminate.
  - intros Habs. apply app_eq_nil in Habs. destruct Habs as [_ Habs].
    apply (IH (p0 + 1)); [|exact Habs]. exists r0. split; assumption.
Qed.

(* debug_indexed_column_valid after enable: filled with true *)
Definition enable_valid (md : mode) (m : smat) : list bool :=
  match md with Checked => repeat true (length (s_valid m)) | Release => s_valid m end.

Lemma sm_enable_ok md m : sm_inv md m -> W0 m <= s_height m ->
  s_height m * W0 m < 2 ^ 32 - 1 ->
  exists ix, sm_enable_column_access_acceleration md m =
               Ok (set_valid (set_index m (Some ix) false) (enable_valid md m)) /\
    sm_inv md (set_valid (set_index m (Some ix) false) (enable_valid md m)) /\
    (forall k p, k < W0 m -> In p (nth (N.to_nat k) ix []) -> memN k (rowk m p) = true).
Proof.
  intros Hinv Hwh Hbound.
  pose proof (inv_rows_len _ _ Hinv) as Hrl. pose proof (inv_w0 _ _ Hinv) as Hw0.
  pose proof (inv_h _ _ Hinv) as Hh.
  assert (Hrows : Forall (fun r => NoDup r /\ Forall (fun x => x < 65536) r) (s_rows m)).
  { eapply Forall_impl; [|exact (inv_rows _ _ Hinv)]. intros r [Hs Hk]. split; [apply ssorted_NoDup; exact Hs|].
    eapply Forall_impl; [|exact Hk]. intros k [Hk1 _]. change 65536 with (2 ^ 16). lia. }
  unfold sm_enable_column_access_acceleration, sm_enable_gen. fold ilm_build. fold (enable_valid md m).
  destruct (ilm_build_ok (s_height m) (index_entries (s_rows m) 0)) as [ix [Hb [Hlen Hnth]]].
  - eapply N.le_lt_trans; [|exact Hbound].
    replace (s_height m) with (N.of_nat (length (s_rows m))) by lia.
    apply index_entries_length.
    eapply Forall_impl; [|exact (inv_rows _ _ Hinv)]. intros r [Hs Hk].
    pose proof (ssorted_length_le r 0 (W0 m) Hs) as Hl. rewrite N.sub_0_r in Hl. apply Hl.
    eapply Forall_impl; [|exact Hk]. intros k [Hk1 _]. lia.
  - apply (index_entries_keys (fun k => k < s_height m)).
    eapply Forall_impl; [|exact (inv_rows _ _ Hinv)]. intros r [Hs Hk].
    eapply Forall_impl; [|exact Hk]. intros k [Hk1 _]. unfold u16. rewrite wrap_small by lia. lia.
  - rewrite Hb. cbn [obind]. exists ix. split; [reflexivity|].
    assert (Hcol : forall k, k < W0 m -> nth (N.to_nat k) ix [] = col_list (s_rows m) 0 k).
    { intros k Hk. rewrite Hnth by lia. apply index_entries_col; [exact Hrows|].
      unfold svec in *. rewrite Hrl. change (2 ^ 32) with 4294967296. change (2 ^ 24) with 16777216 in Hh. lia. }
    split.
    + pose proof Hinv as Hinv0. destruct Hinv. constructor; sfields; try assumption.
      * unfold index_inv. sfields. split; [reflexivity|]. split; [exact Hlen|]. split; [exact Hwh|].
        unfold W0. sfields. fold (W0 m). split.
        -- intros k Hk. rewrite (Hcol k Hk). destruct (col_list_sorted (s_rows m) 0 k) as [Hs _].
           split; [apply ssorted_NoDup; exact Hs|]. apply Forall_forall. intros x Hx.
           apply col_list_In in Hx. destruct Hx as [j [Hj [Ex _]]]. lia.
        -- intros p k Hp Hm. unfold rowk in Hm. sfields_in Hm.
           assert (Hk : k < W0 m) by (apply (mem_key_ok md m Hinv0 p k Hp Hm)).
           rewrite (Hcol k Hk). apply col_list_In. exists (N.to_nat p). split; [lia|]. split; [lia | exact Hm].
      * intros E. subst md. cbn [enable_valid]. rewrite repeat_length. apply inv_valid0. reflexivity.
    + intros k p Hk Hin. rewrite (Hcol k Hk) in Hin. apply col_list_In in Hin.
      destruct Hin as [j [Hj [Ex Hm]]]. subst p. unfold rowk. rewrite N.add_0_l, Nat2N.id. exact Hm.
Qed.

Lemma sm_disable_ok md m : sm_inv md m ->
  sm_disable_column_access_acceleration md m = Ok (set_index m None true) /\
  sm_inv md (set_index m None true).
Proof.
  intros Hinv. split; [reflexivity|]. destruct Hinv. constructor; sfields; try assumption.
  unfold index_inv. sfields. reflexivity.
Qed.

Lemma sm_bit_set_index m ix d r c : sm_bit (set_index m ix d) r c = sm_bit m r c.
Proof. reflexivity. Qed.
