(* Proofs about Model/SparseMatrix.v, part 6: add_assign_rows (the dense xor loop, the sparse
   add_assign, the debug-only verify()) and its refinement. *)
From Coq Require Import NArith ZArith List Bool Lia Arith Sorted Permutation ZifyBool ZifyN.
From RQ Require Import Base.Outcome Base.Ints Base.ListX Spec.BitMatrix Spec.SparseAdm
  Model.DenseMatrix Model.SparseMatrix Proofs.DenseBits Proofs.DenseMatrixProofs Proofs.DenseQueries
  Proofs.DenseSeq Proofs.SparseVecProofs Proofs.SparseMatrixProofs Proofs.SparseSim
  Proofs.SparseQueries Proofs.SparseQuerySim.
Import ListNotations.
Open Scope N_scope.

(* ---------------- verify() cannot fire under the invariant ---------------- *)

Lemma ofold_unit_ok {B} (f : unit -> B -> outcome unit) l :
  (forall x, In x l -> f tt x = Ok tt) -> ofold f l tt = Ok tt.
Proof.
  induction l as [|x t IH]; intros H; cbn [ofold]; [reflexivity|].
  rewrite (H x) by (left; reflexivity). cbn [obind]. apply IH. intros y Hy. apply H. right. exact Hy.
Qed.

Lemma sm_verify_ok md m : sm_inv md m -> sm_verify md m = Ok tt.
Proof.
  intros Hinv. unfold sm_verify. destruct md; [reflexivity|].
  destruct (s_disabled m) eqn:Ed; [reflexivity|].
  pose proof (inv_index _ _ Hinv) as Hii. unfold index_inv in Hii.
  destruct (s_index m) as [ix|] eqn:Eix; [|congruence].
  destruct Hii as [_ [Hlen [Hwh [_ Hsup]]]]. cbn [unwrap obind].
  pose proof (inv_h _ _ Hinv) as Hh. pose proof (inv_w0 _ _ Hinv) as Hw0.
  apply ofold_unit_ok. intros row Hrow. apply in_range_from in Hrow.
  rewrite (rows_get Checked m Hinv row) by lia. cbn [obind].
  apply ofold_unit_ok. intros kv Hkv. unfold sv_keys_values in Hkv. apply in_map_iff in Hkv.
  destruct Hkv as [k [E Hk]]. subst kv. cbn [negb N.eqb]. cbv iota.
  apply memN_In in Hk. destruct (mem_key_ok Checked m Hinv row k ltac:(lia) Hk) as [Hkw _].
  unfold u16. rewrite wrap_small by lia. unfold ilm_get. rewrite (lget_ok ix k []) by lia. cbn [obind].
  assert (E : existsb (N.eqb (u32 row)) (nth (N.to_nat k) ix []) = true).
  { apply existsb_exists. exists row. split; [apply Hsup; [lia | exact Hk]|].
    unfold u32. rewrite wrap_small; [apply N.eqb_refl|].
    change (2 ^ 32) with 4294967296. change (2 ^ 24) with 16777216 in Hh. lia. }
  rewrite E. reflexivity.
Qed.

(* ---------------- the dense xor loop ---------------- *)

Definition xor_body (dw sw : N) (de : list N) (word : N) : outcome (list N) :=
  obind (vget de (sw + word)) (fun y =>
    obind (vget de (dw + word)) (fun x => vset de (dw + word) (N.lxor x y))).

Lemma xor_loop de dw sw (n : nat) :
  dw + N.of_nat n <= N.of_nat (length de) -> sw + N.of_nat n <= N.of_nat (length de) ->
  (dw + N.of_nat n <= sw \/ sw + N.of_nat n <= dw) -> Forall lt64 de ->
  exists de', ofold (xor_body dw sw) (range_from 0 (N.of_nat n)) de = Ok de' /\
    length de' = length de /\ Forall lt64 de' /\
    forall q, eword de' q =
      if (dw <=? q) && (q <? dw + N.of_nat n)
      then N.lxor (eword de q) (eword de (sw + (q - dw))) else eword de q.
Proof.
  induction n as [|n IH]; intros Hd Hs Hdis Hall.
  - exists de. cbn [N.of_nat]. rewrite range_from_nil by lia. cbn [ofold].
    split; [reflexivity|]. split; [reflexivity|]. split; [exact Hall|].
    intros q. replace ((dw <=? q) && (q <? dw + 0)) with false by (symmetry; apply andb_false_iff; lia).
    reflexivity.
  - destruct IH as [de1 [Hf [Hl [Ha Hq]]]]; try lia; try assumption.
    rewrite range_from_0_succ, ofold_app, Hf. cbn [obind ofold]. unfold xor_body at 1.
    rewrite !vget_ok by lia. cbn [obind]. rewrite vset_ok by lia. cbn [obind].
    eexists. split; [reflexivity|]. split; [rewrite upd_length; exact Hl|]. split.
    + apply Forall_upd; [exact Ha|]. apply lxor_lt64; apply eword_lt64; exact Ha.
    + intros q. rewrite eword_upd by lia. rewrite !Hq.
      replace ((dw <=? sw + N.of_nat n) && (sw + N.of_nat n <? dw + N.of_nat n)) with false
        by (symmetry; apply andb_false_iff; lia).
      replace ((dw <=? dw + N.of_nat n) && (dw + N.of_nat n <? dw + N.of_nat n)) with false
        by (symmetry; apply andb_false_iff; lia).
      destruct (q =? dw + N.of_nat n) eqn:E.
      * apply N.eqb_eq in E. subst q.
        replace ((dw <=? dw + N.of_nat n) && (dw + N.of_nat n <? dw + N.of_nat (S n))) with true
          by (symmetry; apply andb_true_iff; lia).
        do 2 f_equal. lia.
      * apply N.eqb_neq in E.
        replace ((dw <=? q) && (q <? dw + N.of_nat (S n))) with ((dw <=? q) && (q <? dw + N.of_nat n)); [reflexivity|].
        destruct (dw <=? q) eqn:E1; cbn [andb]; [|reflexivity].
        destruct (q <? dw + N.of_nat n) eqn:E2; symmetry; [apply N.ltb_lt | apply N.ltb_ge]; lia.
Qed.

(* dense part of add_assign_rows on physical rows pd <> ps *)
Lemma dense_add_ok md m pd ps : sm_inv md m -> pd < s_height m -> ps < s_height m -> pd <> ps ->
  exists de, ofold (xor_body (pd * sm_rww m) (ps * sm_rww m)) (range_from 0 (sm_rww m)) (s_dense m) = Ok de /\
    dense_inv de (s_height m) (s_nd m) /\
    forall p d, d < s_nd m ->
      lbit de (sm_rww m) p (sm_lpb m + d) =
      if p =? pd then xorb (sm_dbit m pd d) (sm_dbit m ps d) else sm_dbit m p d.
Proof.
  intros Hinv Hpd Hps Hne. destruct (inv_dense _ _ Hinv) as [Hlen [Hall Hpad]].
  pose proof (dense_row_le md m pd Hinv Hpd) as Hdl. pose proof (dense_row_le md m ps Hinv Hps) as Hsl.
  destruct (xor_loop (s_dense m) (pd * sm_rww m) (ps * sm_rww m) (N.to_nat (sm_rww m))) as [de [Hf [Hl [Ha Hq]]]];
    try (rewrite N2Nat.id); try assumption.
  { destruct (N.lt_trichotomy pd ps) as [L|[L|L]]; [left | contradiction | right].
    - pose proof (row_mul_le pd ps (sm_rww m) L). lia.
    - pose proof (row_mul_le ps pd (sm_rww m) L). lia. }
  rewrite N2Nat.id in Hf, Hq. exists de. split; [exact Hf|].
  assert (Hbit : forall p a b, a < sm_rww m ->
            ebit de (p * sm_rww m + a) b =
            if p =? pd then xorb (ebit (s_dense m) (pd * sm_rww m + a) b) (ebit (s_dense m) (ps * sm_rww m + a) b)
            else ebit (s_dense m) (p * sm_rww m + a) b).
  { intros p a b Ha'. unfold ebit. rewrite Hq.
    replace (pd * sm_rww m + sm_rww m) with (pd * sm_rww m + sm_rww m) by reflexivity.
    rewrite (row_range_eqb p (sm_rww m) pd a Ha').
    destruct (p =? pd) eqn:E; [|reflexivity]. apply N.eqb_eq in E. subst p.
    rewrite N.lxor_spec. do 3 f_equal. lia. }
  split.
  - split; [unfold sm_rww, WORD_WIDTH in *; lia|]. split; [exact Ha|].
    intros p b Hp Hb. destruct (N.eq_dec (ceil_div (s_nd m) 64) 0) as [Hz|Hnz].
    + (* no dense word at all *)
      unfold ebit, eword. rewrite nth_overflow; [apply N.bits_0|]. rewrite Hl. unfold sm_rww, WORD_WIDTH in *. lia.
    + pose proof (Hbit p 0 b) as Hb0. rewrite !N.add_0_r in Hb0. unfold sm_rww, WORD_WIDTH in Hb0.
      rewrite Hb0 by lia. destruct (p =? pd); [rewrite !Hpad by assumption; reflexivity | apply Hpad; assumption].
  - intros p d Hd. unfold lbit, sm_dbit, lbit. apply Hbit. apply dense_word_lt. exact Hd.
Qed.

(* ---------------- get_both_indices ---------------- *)

Lemma get_both_indices_ok {A} md (v : list A) i j d : i < N.of_nat (length v) -> j < N.of_nat (length v) ->
  i <> j -> get_both_indices md v i j = Ok (nth (N.to_nat i) v d, nth (N.to_nat j) v d).
Proof.
  intros Hi Hj Hne. unfold get_both_indices.
  assert (D1 : debug_assert md (negb (i =? j)) = Ok tt).
  { destruct md; [reflexivity|]. cbn [debug_assert]. apply N.eqb_neq in Hne. rewrite Hne. reflexivity. }
  assert (D2 : debug_assert md (i <? N.of_nat (length v)) = Ok tt).
  { destruct md; [reflexivity|]. cbn [debug_assert]. apply N.ltb_lt in Hi. rewrite Hi. reflexivity. }
  assert (D3 : debug_assert md (j <? N.of_nat (length v)) = Ok tt).
  { destruct md; [reflexivity|]. cbn [debug_assert]. apply N.ltb_lt in Hj. rewrite Hj. reflexivity. }
  rewrite D1, D2, D3. cbn [obind].
  rewrite (lget_ok v i d Hi), (lget_ok v j d Hj).
  destruct (i <? j) eqn:E.
  - assert (E2 : (N.of_nat (length v) <? j) = false) by (apply N.ltb_ge; lia). rewrite E2. reflexivity.
  - assert (E2 : (N.of_nat (length v) <? i) = false) by (apply N.ltb_ge; lia). rewrite E2. cbn [obind].
    apply N.ltb_ge in E. assert (E3 : (j <? i) = true) by (apply N.ltb_lt; lia). rewrite E3. reflexivity.
Qed.

(* ---------------- add_assign_rows ---------------- *)

Ltac inv_auto H :=
  first [exact (inv_h _ _ H) | exact (inv_rows_len _ _ H) | exact (inv_rowmaps _ _ H)
        | exact (inv_colmaps _ _ H) | exact (inv_w _ _ H) | exact (inv_w0 _ _ H)
        | exact (inv_nd _ _ H) | exact (inv_rows _ _ H) | exact (inv_dense _ _ H)
        | exact (inv_index _ _ H) | exact (inv_valid _ _ H)].

(* debug_indexed_column_valid after the operation *)
Definition add_valid (md : mode) (m : smat) (c ps : N) : list bool :=
  match md with
  | Checked =>
      if (c =? 0) && negb (s_disabled m)
      then upd (s_valid m) (N.to_nat (eword (s_p2l_col m) (hd 0 (rowk m ps)))) false
      else s_valid m
  | Release => s_valid m
  end.

Lemma sm_add_ok md m d s c : sm_inv md m -> d < s_height m -> s < s_height m -> d <> s ->
  (c = 0 \/ (c = sfd m /\ c <> 0)) ->
  let pd := eword (s_l2p_row m) d in
  let ps := eword (s_l2p_row m) s in
  (c = 0 -> s_disabled m = false -> exists k, rowk m ps = [k] /\ memN k (rowk m pd) = true) ->
  exists m', sm_add_assign_rows md m d s c = Ok m' /\ sm_inv md m' /\
    s_height m' = s_height m /\ s_width m' = s_width m /\ s_nd m' = s_nd m /\
    s_l2p_row m' = s_l2p_row m /\ s_p2l_row m' = s_p2l_row m /\
    s_l2p_col m' = s_l2p_col m /\ s_p2l_col m' = s_p2l_col m /\
    s_disabled m' = s_disabled m /\ s_index m' = s_index m /\
    s_valid m' = add_valid md m c ps /\
    (forall p x, p < s_height m ->
       memN x (rowk m' p) = if (p =? pd) && (c =? 0)
                            then xorb (memN x (rowk m pd)) (memN x (rowk m ps))
                            else memN x (rowk m p)) /\
    (forall p dd, dd < s_nd m ->
       sm_dbit m' p dd = if p =? pd then xorb (sm_dbit m pd dd) (sm_dbit m ps dd) else sm_dbit m p dd).
Proof.
  intros Hinv Hd Hs Hne Hc pd ps Hsingle.
  pose proof (l2p_row_lt md m Hinv d Hd) as Hpd. pose proof (l2p_row_lt md m Hinv s Hs) as Hps.
  fold pd in Hpd. fold ps in Hps.
  assert (Hpne : pd <> ps).
  { intros E. apply Hne. apply N.eqb_eq. rewrite <- (perm_l2p_inj _ _ _ d s (inv_rowmaps _ _ Hinv) Hd Hs).
    apply N.eqb_eq. exact E. }
  unfold sm_add_assign_rows.
  assert (E0 : (d =? s) = false) by (apply N.eqb_neq; exact Hne). rewrite E0.
  assert (Hchk : (if c =? 0 then Ok tt else obind (sm_fd md m) (fun fd => assert_ok (c =? fd))) = Ok tt).
  { destruct Hc as [->|[-> Hnz]]; [reflexivity|]. apply N.eqb_neq in Hnz. rewrite Hnz.
    rewrite (fd_ok md m Hinv). cbn [obind]. rewrite N.eqb_refl. reflexivity. }
  rewrite Hchk. cbn [obind].
  rewrite (l2p_row_ok md m Hinv d Hd), (l2p_row_ok md m Hinv s Hs). cbn [obind]. fold pd ps.
  (* dense part *)
  assert (Hde : exists de,
    (if 0 <? s_nd m
     then let '(dest_word, _) := sm_bit_position m pd 0 in
          let '(src_word, _) := sm_bit_position m ps 0 in
          ofold (fun de word =>
                   obind (vget de (src_word + word)) (fun y =>
                     obind (vget de (dest_word + word)) (fun x => vset de (dest_word + word) (N.lxor x y))))
                (range_from 0 (sm_rww m)) (s_dense m)
     else Ok (s_dense m)) = Ok de /\
    dense_inv de (s_height m) (s_nd m) /\
    forall p dd, dd < s_nd m ->
      lbit de (sm_rww m) p (sm_lpb m + dd) =
      if p =? pd then xorb (sm_dbit m pd dd) (sm_dbit m ps dd) else sm_dbit m p dd).
  { destruct (0 <? s_nd m) eqn:End.
    - unfold sm_bit_position, sm_word_offset, WORD_WIDTH. rewrite lpb_div, !N.add_0_r.
      destruct (dense_add_ok md m pd ps Hinv Hpd Hps Hpne) as [de [Hf [Hdi Hb]]].
      exists de. split; [exact Hf|]. split; assumption.
    - apply N.ltb_ge in End. exists (s_dense m). split; [reflexivity|]. split; [exact (inv_dense _ _ Hinv)|].
      intros p dd Hdd. lia. }
  destruct Hde as [de [Hde [Hdinv Hdbit]]]. rewrite Hde. cbn [obind].
  pose proof (inv_rows_len _ _ Hinv) as Hrl.
  destruct (rowk_ok md m Hinv pd Hpd) as [Hsd Hkd]. destruct (rowk_ok md m Hinv ps Hps) as [Hss Hks].
  destruct (c =? 0) eqn:Ec0.
  - (* whole row *)
    apply N.eqb_eq in Ec0. subst c. sfields.
    rewrite (get_both_indices_ok md (s_rows m) pd ps []) by (try lia; exact Hpne). cbn [obind].
    fold (rowk m pd). fold (rowk m ps).
    destruct (sv_add_assign_spec (key_ok (s_p2l_col m) (W0 m) (sfd m)) (rowk m pd) (rowk m ps) Hsd Hss)
      as [Hsr [Hmem [HP Hadded]]].
    assert (Hlen1 : s_disabled m = false -> sv_len (rowk m ps) =? 1 = true).
    { intros Hdis. destruct (Hsingle eq_refl Hdis) as [k [Ek _]]. rewrite Ek. reflexivity. }
    assert (Hnadd : s_disabled m = false -> snd (sv_add_assign (rowk m pd) (rowk m ps)) = false).
    { intros Hdis. destruct (Hsingle eq_refl Hdis) as [k [Ek Hk]]. apply (Hadded k Ek Hk). }
    assert (A1 : assert_ok (s_disabled m || (sv_len (rowk m ps) =? 1)) = Ok tt).
    { destruct (s_disabled m) eqn:Ed; [reflexivity|]. rewrite (Hlen1 eq_refl). reflexivity. }
    rewrite A1. cbn [obind].
    destruct (sv_add_assign (rowk m pd) (rowk m ps)) as [r' added] eqn:Eadd. cbn [fst snd] in *.
    assert (A2 : assert_ok (s_disabled m || negb added) = Ok tt).
    { destruct (s_disabled m) eqn:Ed; [reflexivity|]. rewrite (Hnadd eq_refl). reflexivity. }
    rewrite A2. cbn [obind]. rewrite lset_ok by lia. cbn [obind]. sfields.
    set (rows' := upd (s_rows m) (N.to_nat pd) r').
    (* the debug flag *)
    assert (Hvalid : exists valid,
      (match md with
       | Checked =>
           if negb (s_disabled m)
           then obind (sv_get_by_raw_index (rowk m ps) 0) (fun e =>
                  obind (vget (s_p2l_col m) (fst e)) (fun col =>
                    obind (lset (s_valid m) col false) (fun valid =>
                      Ok (set_valid (set_rows (set_dense m de) rows') valid))))
           else Ok (set_rows (set_dense m de) rows')
       | Release => Ok (set_rows (set_dense m de) rows')
       end) = Ok (set_valid (set_rows (set_dense m de) rows') valid) /\
      valid = add_valid md m 0 ps /\ (md = Checked -> length valid = length (s_l2p_col m))).
    { unfold add_valid. destruct md.
      - exists (s_valid m). split; [destruct m; reflexivity|]. split; [reflexivity | discriminate].
      - cbn [N.eqb andb]. destruct (s_disabled m) eqn:Ed; cbn [negb].
        + exists (s_valid m). split; [destruct m; reflexivity|]. split; [reflexivity|].
          intros _. apply (inv_valid _ _ Hinv eq_refl).
        + destruct (Hsingle eq_refl eq_refl) as [k [Ek Hk]]. rewrite Ek.
          unfold sv_get_by_raw_index. cbn [lget length N.of_nat N.ltb N.compare nth_ok nth_error N.to_nat obind fst hd].
          assert (Hkk : key_ok (s_p2l_col m) (W0 m) (sfd m) k).
          { rewrite Ek in Hks. inversion Hks; assumption. }
          destruct Hkk as [Hkw Hkl].
          rewrite (p2l_col_ok Checked m Hinv k Hkw). cbn [obind].
          pose proof (inv_w _ _ Hinv). pose proof (inv_nd _ _ Hinv).
          assert (Hcl : eword (s_p2l_col m) k < N.of_nat (length (s_valid m))).
          { rewrite (inv_valid _ _ Hinv eq_refl). fold (W0 m). unfold sfd in Hkl. lia. }
          rewrite lset_ok by exact Hcl. cbn [obind].
          eexists. split; [reflexivity|]. split; [reflexivity|].
          intros _. rewrite upd_length. apply (inv_valid _ _ Hinv eq_refl). }
    destruct Hvalid as [valid [Hv [Ev Hvl]]].
    change (s_disabled (set_rows (set_dense m de) rows')) with (s_disabled m).
    change (s_valid (set_rows (set_dense m de) rows')) with (s_valid m).
    change (s_p2l_col (set_rows (set_dense m de) rows')) with (s_p2l_col m).
    rewrite Hv. cbn [obind].
    set (m' := set_valid (set_rows (set_dense m de) rows') valid).
    assert (Hrowk : forall p x, p < s_height m ->
              memN x (rowk m' p) = if (p =? pd) && true
                                   then xorb (memN x (rowk m pd)) (memN x (rowk m ps))
                                   else memN x (rowk m p)).
    { intros p x Hp. unfold rowk, m', rows'. sfields. rewrite nth_upd_N by lia.
      rewrite andb_true_r. destruct (p =? pd); [apply Hmem | reflexivity]. }
    assert (Hinv' : sm_inv md m').
    { constructor; unfold m'; try inv_auto Hinv; sfields.
      - unfold rows'. rewrite upd_length. exact Hrl.
      - unfold row_ok, W0, sfd. sfields. fold (W0 m). fold (sfd m). unfold rows'.
        apply Forall_upd; [exact (inv_rows _ _ Hinv)|]. split; [exact Hsr|]. apply HP; assumption.
      - exact Hdinv.
      - pose proof (inv_index _ _ Hinv) as Hii.
        unfold index_inv in *. sfields. destruct (s_index m) as [ix|] eqn:Eix; [|exact Hii].
        destruct Hii as [Hdis [Hl [Hwh [Hlists Hsup]]]].
        split; [exact Hdis|]. split; [exact Hl|]. split; [exact Hwh|]. split; [exact Hlists|].
        intros p x Hp Hm. fold m' in Hm. rewrite Hrowk in Hm by exact Hp. rewrite andb_true_r in Hm.
        destruct (p =? pd) eqn:Ep; [|apply Hsup; assumption].
        apply N.eqb_eq in Ep. subst p. apply Hsup; [exact Hp|].
        destruct (Hsingle eq_refl Hdis) as [k [Ek Hk]]. rewrite Ek in Hm.
        cbn [memN existsb] in Hm. rewrite orb_false_r in Hm.
        destruct (memN x (rowk m pd)) eqn:Emx; [reflexivity|]. destruct (x =? k) eqn:Ex; [|discriminate].
        apply N.eqb_eq in Ex. subst x. congruence.
      - exact Hvl. }
    rewrite (sm_verify_ok md m' Hinv'). cbn [obind].
    exists m'. split; [reflexivity|]. split; [exact Hinv'|].
    repeat (split; [reflexivity|]). split; [exact Ev|]. split; [exact Hrowk|].
    intros p dd Hdd. unfold sm_dbit, m'. sfields. unfold sm_rww, sm_lpb. sfields.
    fold (sm_rww m). fold (sm_lpb m). apply Hdbit. exact Hdd.
  - (* dense tail only *)
    cbn [obind].
    set (m' := set_dense m de).
    assert (Hinv' : sm_inv md m').
    { constructor; unfold m'; try inv_auto Hinv; sfields. exact Hdinv. }
    rewrite (sm_verify_ok md m' Hinv'). cbn [obind].
    exists m'. split; [reflexivity|]. split; [exact Hinv'|].
    repeat (split; [reflexivity|]). split.
    { unfold add_valid. rewrite Ec0. cbn [andb]. destruct md; reflexivity. }
    split.
    { intros p x Hp. rewrite andb_false_r. reflexivity. }
    intros p dd Hdd. unfold sm_dbit, m'. sfields. unfold sm_rww, sm_lpb. sfields.
    fold (sm_rww m). fold (sm_lpb m). apply Hdbit. exact Hdd.
Qed.

(* ---------------- refinement ---------------- *)

Lemma filter_singleton {A} (f : A -> bool) l k : filter f l = [k] ->
  In k l /\ f k = true /\ forall x, In x l -> f x = true -> x = k.
Proof.
  intros H.
  assert (Hin : forall x, In x (filter f l) <-> x = k) by (intros x; rewrite H; cbn; intuition).
  split; [|split].
  - apply (proj1 (filter_In f k l)). apply Hin. reflexivity.
  - apply (proj1 (filter_In f k l)). apply Hin. reflexivity.
  - intros x Hx Hf. apply Hin. apply filter_In. split; assumption.
Qed.

Lemma ssorted_singleton l k : ssorted l -> (forall x, memN x l = (x =? k)) -> l = [k].
Proof.
  intros Hs Hm. destruct l as [|x t].
  - specialize (Hm k). rewrite N.eqb_refl in Hm. discriminate.
  - assert (x = k) as ->.
    { specialize (Hm x). rewrite memN_cons, N.eqb_refl in Hm. cbn [orb] in Hm. symmetry in Hm.
      apply N.eqb_eq in Hm. exact Hm. }
    destruct t as [|y t']; [reflexivity|]. exfalso.
    apply ssorted_cons_inv in Hs. destruct Hs as [_ Hlt]. inversion Hlt; subst.
    specialize (Hm y). rewrite !memN_cons, N.eqb_refl in Hm. rewrite orb_true_r in Hm.
    symmetry in Hm. apply N.eqb_eq in Hm. lia.
Qed.

(* the concrete source / destination rows of an admissible indexed elimination *)
Lemma single_elim_rows md m st d s : srefines md m st -> d < s_height m -> s < s_height m ->
  single_elim (fst st) (ss_fd st) (N.to_nat d) (N.to_nat s) = true ->
  exists kl, sparse_ones (fst st) (N.to_nat s) (ss_fd st) = [kl] /\ N.of_nat kl < sfd m /\
    rowk m (eword (s_l2p_row m) s) = [eword (s_l2p_col m) (N.of_nat kl)] /\
    memN (eword (s_l2p_col m) (N.of_nat kl)) (rowk m (eword (s_l2p_row m) d)) = true.
Proof.
  intros Hr Hd Hs Hse. pose proof (ref_inv _ _ _ Hr) as Hinv. pose proof (sfd_nat md m st Hr) as Hfd.
  unfold single_elim in Hse. apply andb_true_iff in Hse. destruct Hse as [Hdef Hone].
  destruct (sparse_ones (fst st) (N.to_nat s) (ss_fd st)) as [|kl [|k2 t]] eqn:Eso; try discriminate.
  apply andb_true_iff in Hone. destruct Hone as [Hdd Hdg].
  unfold sparse_ones in Eso. apply filter_singleton in Eso. destruct Eso as [Hin [Hg Huniq]].
  apply in_seq in Hin. rewrite Hfd in *.
  pose proof (inv_colmaps _ _ Hinv) as Hcm. pose proof (inv_w _ _ Hinv) as Hw. pose proof (inv_nd _ _ Hinv) as Hnd.
  exists kl. split; [reflexivity|]. split; [lia|].
  assert (Hklw : N.of_nat kl < W0 m) by (unfold sfd in *; lia).
  assert (Hcell : forall c, c < sfd m ->
            memN (eword (s_l2p_col m) c) (rowk m (eword (s_l2p_row m) s)) = bm_get (fst st) (N.to_nat s) (N.to_nat c)).
  { intros c Hc. symmetry. apply (abs_row_cell md m st s c Hr Hs Hc).
    apply (all_def_row_spec _ _ _ _ _ Hdef). lia. }
  split.
  - pose proof (l2p_row_lt md m Hinv s Hs) as Hps.
    destruct (rowk_ok md m Hinv _ Hps) as [Hss Hks]. apply ssorted_singleton; [exact Hss|].
    intros x. destruct (x =? eword (s_l2p_col m) (N.of_nat kl)) eqn:Ex.
    + apply N.eqb_eq in Ex. subst x. rewrite Hcell by lia. rewrite Nat2N.id. exact Hg.
    + destruct (memN x (rowk m (eword (s_l2p_row m) s))) eqn:Em; [|reflexivity]. exfalso.
      destruct (mem_key_ok md m Hinv _ x Hps Em) as [Hxw Hxl].
      pose proof (Hcell (eword (s_p2l_col m) x) Hxl) as Hc2.
      rewrite (perm_l2p_p2l _ _ _ x Hcm Hxw), Em in Hc2. symmetry in Hc2.
      apply Huniq in Hc2; [|apply in_seq; lia].
      apply N.eqb_neq in Ex. apply Ex. rewrite <- Hc2, N2Nat.id. symmetry. apply (perm_l2p_p2l _ _ _ x Hcm Hxw).
  - rewrite <- Hdg. symmetry. rewrite <- (Nat2N.id kl) at 1.
    apply (abs_row_cell md m st d (N.of_nat kl) Hr Hd); [lia|]. rewrite Nat2N.id. exact Hdd.
Qed.

Lemma ssim_add_rows md m st d s c : srefines md m st -> adm_sparse st (OAddRows d s c) = true ->
  exists m', sm_add_assign_rows md m d s c = Ok m' /\
    srefines md m' (fst (ss_step st (OAddRows d s c))).
Proof.
  intros Hr Hadm. pose proof (fd_N md m st Hr) as Hfd. pose proof (sfd_nat md m st Hr) as Hfdn.
  pose proof (ref_inv _ _ _ Hr) as Hinv.
  pose proof (ref_h md m _ Hr) as Hh. pose proof (ref_w md m _ Hr) as Hw.
  pose proof (ref_idx md m _ Hr) as Hidx. pose proof (ref_stale_len md m _ Hr) as Hsl.
  pose proof (ref_nd md m _ Hr) as Hgnd. pose proof (ref_w0 md m _ Hr) as Hgw0.
  unfold adm_sparse in Hadm. destruct st as [a g]. rewrite Hfd in Hadm. cbn [fst snd] in *.
  apply andb_true_iff in Hadm. destruct Hadm as [Ha Hs]. cbn [adm] in Ha.
  rewrite Hh, Hw, !N2Nat.id in Ha. bsplit Ha. bsplit Hs.
  assert (Hd : d < s_height m) by lia. assert (Hss : s < s_height m) by lia.
  assert (Hne : d <> s) by (intros E; subst; rewrite N.eqb_refl in Ha1; discriminate).
  pose proof (inv_w _ _ Hinv) as Hww. pose proof (inv_nd _ _ Hinv) as Hnd.
  assert (Hc : c = 0 \/ (c = sfd m /\ c <> 0)).
  { destruct (c =? 0) eqn:E; [left; apply N.eqb_eq; exact E|]. right. cbn [orb] in Hs.
    split; [apply N.eqb_eq; exact Hs | apply N.eqb_neq; exact E]. }
  (* the single-entry elimination, when indexed *)
  assert (Hel : c = 0 -> s_disabled m = false ->
            exists kl, sparse_ones a (N.to_nat s) (ss_fd (a, g)) = [kl] /\ N.of_nat kl < sfd m /\
              rowk m (eword (s_l2p_row m) s) = [eword (s_l2p_col m) (N.of_nat kl)] /\
              memN (eword (s_l2p_col m) (N.of_nat kl)) (rowk m (eword (s_l2p_row m) d)) = true).
  { intros E0 Hdis. subst c. rewrite Hidx, Hdis in Hs0. cbn [N.eqb negb andb] in Hs0.
    apply (single_elim_rows md m (a, g) d s Hr Hd Hss Hs0). }
  destruct (sm_add_ok md m d s c Hinv Hd Hss Hne Hc) as
    [m' [Hadd [Hinv' [Fh [Fw [Fnd [Flr [Fpr [Flc [Fpc [Fdis [Fix [Fval [Hrowk Hdbit]]]]]]]]]]]]]].
  { intros E0 Hdis. destruct (Hel E0 Hdis) as [kl [_ [_ [E1 E2]]]]. eexists. split; [exact E1 | exact E2]. }
  exists m'. split; [exact Hadd|].
  set (pd := eword (s_l2p_row m) d) in *. set (ps := eword (s_l2p_row m) s) in *.
  pose proof (l2p_row_lt md m Hinv d Hd) as Hpd. fold pd in Hpd.
  (* bit characterisation of the result *)
  assert (Hbit : forall r j, r < s_height m -> j < s_width m ->
            sm_bit m' r j = if r =? d
                            then (if (j <? sfd m) && negb (c =? 0) then sm_bit m d j
                                  else xorb (sm_bit m d j) (sm_bit m s j))
                            else sm_bit m r j).
  { intros r j Hrr Hj. unfold sm_bit. rewrite Flr, Flc. unfold sfd. rewrite Fw, Fnd. fold (sfd m).
    fold pd ps. pose proof (l2p_row_lt md m Hinv r Hrr) as Hpr.
    rewrite <- (perm_l2p_inj _ _ _ r d (inv_rowmaps _ _ Hinv) Hrr Hd). fold pd.
    destruct (j <? sfd m) eqn:Ej; cbn [andb].
    - rewrite Hrowk by exact Hpr. destruct (eword (s_l2p_row m) r =? pd) eqn:Er; cbn [andb]; [|reflexivity].
      apply N.eqb_eq in Er. rewrite Er. destruct (c =? 0); reflexivity.
    - apply N.ltb_ge in Ej. rewrite Hdbit by (unfold sfd in *; lia).
      destruct (eword (s_l2p_row m) r =? pd) eqn:Er; reflexivity. }
  unfold ss_step. cbn [fst snd bm_step sg_step]. unfold bm_add_assign_rows.
  constructor; cbn [fst snd bm_make bh bw]; try congruence.
  - destruct ((c =? 0) && g_indexed g); cbn [g_nd]; congruence.
  - destruct ((c =? 0) && g_indexed g); cbn [g_w0]; congruence.
  - destruct ((c =? 0) && g_indexed g); cbn [g_indexed]; congruence.
  - destruct ((c =? 0) && g_indexed g); cbn [g_stale]; [|congruence].
    rewrite updb_upd, upd_length. congruence.
  - intros E. subst md. rewrite Fval. unfold add_valid. rewrite Hidx.
    pose proof (ref_valid Checked m _ Hr eq_refl) as Hv. cbn [snd] in Hv.
    destruct ((c =? 0) && negb (s_disabled m)) eqn:Ecase; cbn [g_stale]; [|exact Hv].
    apply andb_true_iff in Ecase. destruct Ecase as [E0 Edis]. apply N.eqb_eq in E0.
    apply negb_true_iff in Edis. destruct (Hel E0 Edis) as [kl [Eso [Hkl [Erow _]]]].
    fold ps in Erow. rewrite Erow, Eso. cbn [hd].
    rewrite (perm_p2l_l2p _ _ _ _ (inv_colmaps _ _ Hinv)) by (unfold sfd in *; lia).
    rewrite Nat2N.id, updb_upd, Hv, map_upd. reflexivity.
  - intros i j Hi Hj Hdf. rewrite bm_make_def in Hdf by assumption. rewrite bm_make_get by assumption.
    unfold sm_bitn. rewrite Hbit by lia. rewrite eqb_nat_N.
    destruct (Nat.eqb i (N.to_nat d)) eqn:Ei.
    + apply Nat.eqb_eq in Ei. subst i.
      destruct (Nat.ltb j (N.to_nat c)) eqn:Ejc; [discriminate|]. apply Nat.ltb_ge in Ejc.
      apply andb_true_iff in Hdf. destruct Hdf as [Hd1 Hd2].
      assert (E : (N.of_nat j <? sfd m) && negb (c =? 0) = false).
      { destruct Hc as [->|[-> _]]; [apply andb_false_r|]. apply andb_false_iff. left. apply N.ltb_ge. lia. }
      rewrite E. pose proof (ref_cells md m _ Hr) as Hcells. cbn [fst] in Hcells.
      rewrite (Hcells (N.to_nat d) j), (Hcells (N.to_nat s) j); try assumption; try lia.
      unfold sm_bitn. rewrite !N2Nat.id. reflexivity.
    + apply (ref_cells md m _ Hr i j); assumption.
  - (* exactness of the index on the columns not marked stale *)
    pose proof (ref_exact md m _ Hr) as Hex. cbn [snd] in Hex.
    intros ix cc p Hix Hcc Hst Hin. rewrite Fix in Hix. rewrite Flc in *. unfold sfd in Hcc. rewrite Fw, Fnd in Hcc.
    fold (sfd m) in Hcc.
    pose proof (inv_index _ _ Hinv) as Hii. unfold index_inv in Hii. rewrite Hix in Hii.
    destruct Hii as [Hdis [_ [_ [Hlists _]]]].
    assert (Hccw : cc < W0 m) by (unfold sfd in *; lia).
    pose proof (l2p_col_lt md m Hinv cc Hccw) as Hpc.
    destruct (Hlists _ Hpc) as [_ Hrng]. rewrite Forall_forall in Hrng. pose proof (Hrng p Hin) as Hp.
    rewrite Hrowk by exact Hp.
    destruct ((p =? pd) && (c =? 0)) eqn:Ecase.
    + apply andb_true_iff in Ecase. destruct Ecase as [Ep E0]. apply N.eqb_eq in Ep, E0. subst p.
      destruct (Hel E0 Hdis) as [kl [Eso [Hkl [Erow _]]]]. fold ps in Erow.
      rewrite Hidx, Hdis, E0 in Hst. cbn [N.eqb negb andb g_stale] in Hst. rewrite Eso in Hst. cbn [hd] in Hst.
      rewrite updb_upd in Hst.
      assert (Hkllen : (kl < length (g_stale g))%nat) by (rewrite Hsl; unfold sfd, W0 in *; lia).
      assert (Hnk : N.to_nat cc <> kl).
      { intros E. rewrite E, nth_upd in Hst by exact Hkllen. rewrite Nat.eqb_refl in Hst. discriminate. }
      rewrite nth_upd in Hst by exact Hkllen.
      destruct (Nat.eqb (N.to_nat cc) kl) eqn:E2; [apply Nat.eqb_eq in E2; contradiction|].
      rewrite (Hex ix cc pd Hix Hcc Hst Hin). rewrite Erow. cbn [memN existsb]. rewrite orb_false_r.
      rewrite (perm_l2p_inj _ _ _ cc (N.of_nat kl) (inv_colmaps _ _ Hinv)) by (unfold sfd in *; lia).
      destruct (cc =? N.of_nat kl) eqn:E3; [apply N.eqb_eq in E3; lia | reflexivity].
    + apply (Hex ix cc p Hix Hcc); [|exact Hin].
      destruct ((c =? 0) && g_indexed g) eqn:E1; [|exact Hst]. cbn [g_stale] in Hst.
      apply andb_true_iff in E1. destruct E1 as [E0 E1]. apply N.eqb_eq in E0.
      rewrite Hidx in E1. apply negb_true_iff in E1.
      destruct (Hel E0 E1) as [kl [Eso [Hkl _]]]. rewrite Eso in Hst. cbn [hd] in Hst.
      assert (Hkllen : (kl < length (g_stale g))%nat) by (rewrite Hsl; unfold sfd, W0 in *; lia).
      rewrite updb_upd, nth_upd in Hst by exact Hkllen.
      destruct (Nat.eqb (N.to_nat cc) kl); [discriminate | exact Hst].
Qed.
