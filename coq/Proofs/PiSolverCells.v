(* Cell-level behaviour of the matrix primitives of Model/PiSolver.v (bm_swap_rows, bm_swap_cols,
   bm_add_rows) and of the state functions built on them (ps_swap_rows, ps_swap_cols, onX,
   swap_cols_all, fma_rows, fma_rows_with_pi): dimensions, binary entries, cells. *)
From Coq Require Import NArith List Bool Lia Arith.
From RQ Require Import Base.Outcome Base.Ints Base.ListX Model.Octet Model.CMatrix Model.Slab
  Spec.Linear Proofs.OutcomeLemmas Proofs.OctetProofs Proofs.LinearProofs Model.PiSolver
  Proofs.PiSolverBase Proofs.PiSolverStruct Proofs.PiSolverOps Proofs.PiSolverG Proofs.PiSolverInvDefs.
Import ListNotations.
Open Scope N_scope.

Definition hd_rows (s : pstate) : list (list N) := match ps_hd s with Some h => h | None => [] end.

Lemma num_hdpc_hd_rows s : num_hdpc s = lenN (hd_rows s).
Proof. unfold num_hdpc, hd_rows. destruct (ps_hd s); reflexivity. Qed.

(* ---- generic ---- *)
Lemma getN_lt {A} (l : list A) k x : getN l k = Ok x -> k < lenN l.
Proof.
  intros H. destruct l as [|d0 l0]; [unfold getN, nth_ok in H; destruct (N.to_nat k); discriminate|].
  destruct (getN_inv _ _ _ d0 H) as [Lk _]. unfold lenN. lia.
Qed.

Lemma lenN_upd {A} k (x : A) l : lenN (upd_nth k x l) = lenN l.
Proof. unfold lenN. rewrite upd_nth_length. reflexivity. Qed.

Lemma Forall_nth_N {A} (P : A -> Prop) (l : list A) d k : Forall P l -> k < lenN l -> P (nth (N.to_nat k) l d).
Proof. intros H Hk. rewrite Forall_forall in H. apply H. apply nth_In. unfold lenN in Hk. lia. Qed.

Lemma dims_row A Mn Wn k : dims A Mn Wn -> k < Mn -> lenN (rowN A k) = Wn.
Proof. intros [Hl Hr] Hk. unfold rowN. apply (Forall_nth_N (fun r => lenN r = Wn)); [exact Hr | lia]. Qed.

Lemma bin_row_nth r j : bin_row r -> nth j r 0 = 0 \/ nth j r 0 = 1.
Proof.
  intros H. destruct (Nat.ltb_spec j (length r)) as [L|L].
  - unfold bin_row in H. rewrite Forall_forall in H. apply H. apply nth_In. exact L.
  - left. apply nth_overflow. exact L.
Qed.

Lemma bin_mat_row A k : bin_mat A -> bin_row (rowN A k).
Proof.
  intros H. unfold rowN. destruct (Nat.ltb_spec (N.to_nat k) (length A)) as [L|L].
  - unfold bin_mat in H. rewrite Forall_forall in H. apply H. apply nth_In. exact L.
  - rewrite nth_overflow by exact L. constructor.
Qed.

Lemma bin_cell A k j : bin_mat A -> cell A k j = 0 \/ cell A k j = 1.
Proof. intros H. unfold cell. apply bin_row_nth. apply bin_mat_row. exact H. Qed.

Lemma cell_upd_same A k row j : k < lenN A -> cell (upd_nth (N.to_nat k) row A) k j = nth (N.to_nat j) row 0.
Proof. intros H. unfold cell, rowN. rewrite nth_upd_same; [reflexivity | unfold lenN in H; lia]. Qed.

Lemma cell_upd_other A k k' row j : k <> k' -> cell (upd_nth (N.to_nat k) row A) k' j = cell A k' j.
Proof. intros H. unfold cell, rowN. rewrite nth_upd_other; [reflexivity | lia]. Qed.

Lemma rowN_upd_same A k row : k < lenN A -> rowN (upd_nth (N.to_nat k) row A) k = row.
Proof. intros H. unfold rowN. rewrite nth_upd_same; [reflexivity | unfold lenN in H; lia]. Qed.

Lemma rowN_upd_other A k k' row : k <> k' -> rowN (upd_nth (N.to_nat k) row A) k' = rowN A k'.
Proof. intros H. unfold rowN. rewrite nth_upd_other; [reflexivity | lia]. Qed.

Lemma dims_upd A Mn Wn k row : dims A Mn Wn -> lenN row = Wn -> dims (upd_nth (N.to_nat k) row A) Mn Wn.
Proof. intros [Hl Hr] Hrow. split; [rewrite lenN_upd; exact Hl | apply Forall_upd_nth; assumption]. Qed.

Lemma bin_upd A k row : bin_mat A -> bin_row row -> bin_mat (upd_nth (N.to_nat k) row A).
Proof. intros. apply Forall_upd_nth; assumption. Qed.

(* ---- swapping two entries of a row ---- *)
Lemma swapN_row_cell (r : list N) a b r' j : swapN r a b = Ok r' ->
  nth (N.to_nat j) r' 0 = nth (N.to_nat (trN a b j)) r 0.
Proof. apply swapN_cell. Qed.

Lemma swapN_Forall {A} (P : A -> Prop) (l : list A) a b l' : Forall P l -> swapN l a b = Ok l' -> Forall P l'.
Proof. apply Forall_swapN. Qed.

(* ---- bm_swap_rows ---- *)
Lemma bm_swap_rows_spec A Mn Wn i j A' : dims A Mn Wn -> bm_swap_rows A i j = Ok A' ->
  dims A' Mn Wn /\ i < Mn /\ j < Mn /\ (forall k, rowN A' k = rowN A (trN i j k)).
Proof.
  unfold bm_swap_rows. intros [Hl Hr] H. destruct (swapN_lenN _ _ _ _ H) as [L1 [L2 L3]].
  repeat split; try lia.
  - eapply Forall_swapN; eassumption.
  - intros k. unfold rowN. apply swapN_cell. exact H.
Qed.

(* ---- bm_swap_cols ---- *)
Lemma bm_swap_cols_spec A Mn Wn a b sr A' : dims A Mn Wn -> bm_swap_cols A a b sr = Ok A' ->
  dims A' Mn Wn /\
  (forall k j, k < Mn -> cell A' k j = if sr <=? k then cell A k (trN a b j) else cell A k j).
Proof.
  unfold bm_swap_cols. intros [Hl Hr] H. oinvas H as t Et. inversion H; subst A'. clear H.
  pose proof (omapM_length _ _ _ Et) as Lt. rewrite skipn_length in Lt.
  assert (Hlen : lenN (firstn (N.to_nat sr) A ++ t) = Mn).
  { unfold lenN in *. rewrite app_length, firstn_length, Lt. lia. }
  split; [split; [exact Hlen|]|].
  - apply Forall_app. split; [apply Forall_firstn, Hr|].
    eapply (Forall_omapM (fun r => lenN r = Wn)); [| apply Forall_skipn, Hr | exact Et].
    intros r r' Pr Er. destruct (swapN_lenN _ _ _ _ Er) as [L1 _]. lia.
  - intros k j Hk. unfold cell, rowN. destruct (N.leb_spec sr k) as [Hs|Hs].
    + rewrite app_nth2 by (rewrite firstn_length; unfold lenN in *; lia).
      rewrite firstn_length. replace (Nat.min (N.to_nat sr) (length A)) with (N.to_nat sr) by (unfold lenN in *; lia).
      assert (Lk : (N.to_nat k - N.to_nat sr < length (skipn (N.to_nat sr) A))%nat)
        by (rewrite skipn_length; unfold lenN in *; lia).
      pose proof (omapM_nth _ _ _ [] [] _ Et Lk) as Ek. rewrite nth_skipn' in Ek.
      replace (N.to_nat sr + (N.to_nat k - N.to_nat sr))%nat with (N.to_nat k) in Ek by lia.
      apply (swapN_cell _ _ _ _ 0 j Ek).
    + rewrite app_nth1 by (rewrite firstn_length; unfold lenN in *; lia).
      rewrite nth_firstn_lt by lia. reflexivity.
Qed.

Lemma bin_row_swapN r a b r' : bin_row r -> swapN r a b = Ok r' -> bin_row r'.
Proof. unfold bin_row. apply Forall_swapN. Qed.

Lemma bm_swap_cols_bin A a b sr A' : bin_mat A -> bm_swap_cols A a b sr = Ok A' -> bin_mat A'.
Proof.
  unfold bm_swap_cols. intros Hb H. oinvas H as t Et. inversion H; subst A'.
  apply Forall_app. split; [apply Forall_firstn, Hb|].
  eapply (Forall_omapM bin_row bin_row); [| apply Forall_skipn; exact Hb | exact Et].
  intros r r' Pr Er. cbv beta in Er. exact (bin_row_swapN _ _ _ _ Pr Er).
Qed.

(* ---- bm_add_rows ---- *)
Lemma nth_map2_lxor u v j : length u = length v ->
  nth j (Slab.map2 N.lxor u v) 0 = N.lxor (nth j u 0) (nth j v 0).
Proof.
  revert v j; induction u as [|x u IH]; intros [|y v] j H; cbn in *; try discriminate.
  - destruct j; reflexivity.
  - destruct j; [reflexivity|]. apply IH. lia.
Qed.

Lemma map2_lxor_length u v : length u = length v -> length (Slab.map2 N.lxor u v) = length u.
Proof.
  revert v; induction u as [|x u IH]; intros [|y v] H; cbn in *; try discriminate; [reflexivity|].
  rewrite IH by lia. reflexivity.
Qed.

Lemma bin_map2_lxor u v : bin_row u -> bin_row v -> bin_row (Slab.map2 N.lxor u v).
Proof.
  unfold bin_row. revert v; induction u as [|x u IH]; intros [|y v] Hu Hv; cbn; try constructor.
  - inversion Hu; inversion Hv; subst. destruct H1 as [->| ->], H5 as [->| ->]; cbn; auto.
  - inversion Hu; inversion Hv; subst. apply IH; assumption.
Qed.

Lemma bm_add_rows_spec A Mn Wn dest src sc A' : dims A Mn Wn -> sc <= Wn ->
  bm_add_rows A dest src sc = Ok A' ->
  dims A' Mn Wn /\ dest <> src /\ dest < Mn /\ src < Mn /\
  (forall k, k <> dest -> rowN A' k = rowN A k) /\
  (forall j, cell A' dest j = if sc <=? j then N.lxor (cell A dest j) (cell A src j) else cell A dest j).
Proof.
  unfold bm_add_rows. intros D Hsc H. destruct (N.eqb_spec dest src) as [|Hne]; [discriminate|].
  oinvas H as rd Erd. oinvas H as rs Ers.
  pose proof (getN_lt _ _ _ Erd) as Ld. pose proof (getN_lt _ _ _ Ers) as Ls.
  destruct (getN_inv _ _ _ [] Erd) as [_ Hrd]. destruct (getN_inv _ _ _ [] Ers) as [_ Hrs].
  destruct (putN_inv _ _ _ _ H) as [_ ->]. destruct D as [Hl Hr].
  assert (Lrd : lenN rd = Wn) by (subst rd; apply (Forall_nth_N (fun r => lenN r = Wn)); assumption).
  assert (Lrs : lenN rs = Wn) by (subst rs; apply (Forall_nth_N (fun r => lenN r = Wn)); assumption).
  assert (Lsk : length (skipn (N.to_nat sc) rd) = length (skipn (N.to_nat sc) rs))
    by (rewrite !skipn_length; unfold lenN in *; lia).
  repeat split; try lia.
  - rewrite lenN_upd. exact Hl.
  - apply Forall_upd_nth; [exact Hr|]. unfold lenN in *. rewrite app_length, firstn_length, map2_lxor_length by exact Lsk.
    rewrite skipn_length. lia.
  - intros k Hk. apply rowN_upd_other. auto.
  - intros j. rewrite cell_upd_same by lia. unfold cell. fold (rowN A dest). fold (rowN A src).
    unfold rowN. rewrite <- Hrd, <- Hrs. destruct (N.leb_spec sc j) as [Hj|Hj].
    + rewrite app_nth2 by (rewrite firstn_length; unfold lenN in *; lia).
      rewrite firstn_length. replace (Nat.min (N.to_nat sc) (length rd)) with (N.to_nat sc) by (unfold lenN in *; lia).
      rewrite nth_map2_lxor by exact Lsk. rewrite !nth_skipn'. f_equal; f_equal; lia.
    + rewrite app_nth1 by (rewrite firstn_length; unfold lenN in *; lia).
      apply nth_firstn_lt. lia.
Qed.

Lemma bm_add_rows_bin A dest src sc A' : bin_mat A -> bm_add_rows A dest src sc = Ok A' -> bin_mat A'.
Proof.
  unfold bm_add_rows. intros Hb H. destruct (dest =? src); [discriminate|].
  oinvas H as rd Erd. oinvas H as rs Ers. destruct (putN_inv _ _ _ _ H) as [_ ->].
  destruct (getN_inv _ _ _ [] Erd) as [_ Hrd]. destruct (getN_inv _ _ _ [] Ers) as [_ Hrs].
  apply bin_upd; [exact Hb|]. apply Forall_app. split.
  - apply Forall_firstn. subst rd. apply (bin_mat_row A dest Hb).
  - apply bin_map2_lxor; apply Forall_skipn; [subst rd; apply (bin_mat_row A dest Hb) | subst rs; apply (bin_mat_row A src Hb)].
Qed.

(* ---- frames of the state functions ---- *)
Lemma onX_frame m s f s' : onX m s f = Ok s' ->
  ps_A s' = ps_A s /\ ps_hd s' = ps_hd s /\ ps_d s' = ps_d s /\ ps_c s' = ps_c s /\ ps_W s' = ps_W s /\
  ps_i s' = ps_i s /\ ps_u s' = ps_u s /\ ps_L s' = ps_L s /\ ps_ops s' = ps_ops s.
Proof.
  unfold onX. intros H. destruct m; [inversion H; subst; repeat split|].
  oinvas H as X EX. inversion H; subst. cbn. repeat split.
Qed.

Lemma ps_swap_rows_frame m s i j s' : ps_swap_rows m s i j = Ok s' ->
  bm_swap_rows (ps_A s) i j = Ok (ps_A s') /\ swapN (ps_d s) i j = Ok (ps_d s') /\
  ps_hd s' = ps_hd s /\ ps_c s' = ps_c s /\ ps_W s' = ps_W s /\
  ps_i s' = ps_i s /\ ps_u s' = ps_u s /\ ps_L s' = ps_L s /\ ps_ops s' = ps_ops s /\
  (forall h, ps_hd s = Some h -> lenN h <= ps_height s ->
             i + lenN h < ps_height s /\ j + lenN h < ps_height s).
Proof.
  unfold ps_swap_rows. intros H. oinvas H as u0 E0. omon H. inversion H; subst s'. cbn.
  repeat split; try assumption;
    (destruct (ps_hd s) as [h'|] eqn:Eh; [|discriminate]; inversion H0; subst h'; omon E0;
     apply N.ltb_lt in As; apply assert_ok_inv in E0; apply N.ltb_lt in E0;
     match goal with X : usub _ _ _ = Ok _ |- _ => apply usub_inv in X; [|assumption] end; subst; lia).
Qed.

Lemma ps_swap_cols_frame s a b sr s' : ps_swap_cols s a b sr = Ok s' ->
  bm_swap_cols (ps_A s) a b sr = Ok (ps_A s') /\
  match ps_hd s with
  | Some h => exists h', bm_swap_cols h a b 0 = Ok h' /\ ps_hd s' = Some h'
  | None => ps_hd s' = None
  end /\
  swapN (ps_c s) a b = Ok (ps_c s') /\ ps_d s' = ps_d s /\ ps_W s' = ps_W s /\
  ps_i s' = ps_i s /\ ps_u s' = ps_u s /\ ps_L s' = ps_L s /\ ps_ops s' = ps_ops s.
Proof.
  unfold ps_swap_cols. intros H. omon H. inversion H; subst s'. cbn. repeat split; try assumption.
  destruct (ps_hd s) as [h|]; [|inversion E0; reflexivity]. omon E0. inversion E0; subst. eauto.
Qed.

Lemma swap_cols_all_inv m s st a b s' st' : swap_cols_all m s st a b = Ok (s', st') ->
  exists s1, ps_swap_cols s a b (ps_i s) = Ok s1 /\ st_swap_cols st a b = Ok st' /\
             onX m s1 (fun X => bm_swap_cols X a b 0) = Ok s'.
Proof. unfold swap_cols_all. intros H. omon H. inversion H; subst. eauto. Qed.

Lemma fma_rows_inv m s i ip sc s' : fma_rows m s i ip sc = Ok s' ->
  exists s1 A', record_fma_rows s i ip 1 = Ok s1 /\ bm_add_rows (ps_A s) ip i sc = Ok A' /\
    s' = set_A s1 A' /\
    (forall h, ps_hd s = Some h -> lenN h <= ps_height s -> i + lenN h < ps_height s /\ ip + lenN h < ps_height s).
Proof.
  unfold fma_rows. intros H. oinvas H as s1 E1.
  destruct (record_fma_frame _ _ _ _ _ E1) as [EA [Eh _]].
  destruct (ps_hd s1) as [h|] eqn:Eh1.
  - omon H. destruct (N.leb_spec a ip) as [|Hlt]; [discriminate|]. omon H. inversion H; subst s'.
    rewrite EA in E0. exists s1, a0. split; [exact E1|]. split; [exact E0|]. split; [reflexivity|].
    intros h0 Eh0 Hle. rewrite <- Eh in Eh0. inversion Eh0; subst h0. apply N.ltb_lt in As.
    unfold ps_height in *. rewrite EA in E. apply usub_inv in E; [|assumption]. lia.
  - omon H. inversion H; subst s'. rewrite EA in E. exists s1, a. split; [exact E1|]. split; [exact E|].
    split; [reflexivity|]. intros h0 Eh0. rewrite <- Eh in Eh0. discriminate.
Qed.

(* the HDPC branch of fma_rows_with_pi *)
Lemma fma_rows_with_pi_hdpc m s i ip beta col pio s' h Wn :
  ps_hd s = Some h -> lenN h <= ps_height s -> ps_height s - lenN h <= ip ->
  Forall (fun r => lenN r = Wn) h -> ps_W s = Wn -> lenN pio <= Wn -> col < Wn - lenN pio ->
  fma_rows_with_pi m s i ip beta col pio = Ok s' ->
  exists s1 h', record_fma_rows s i ip beta = Ok s1 /\ s' = set_hd s1 (Some h') /\
    i + lenN h < ps_height s /\ ip - (ps_height s - lenN h) < lenN h /\
    lenN h' = lenN h /\ Forall (fun r => lenN r = Wn) h' /\
    (forall k, k <> ip - (ps_height s - lenN h) -> rowN h' k = rowN h k) /\
    (forall j, j <> col -> cell h' (ip - (ps_height s - lenN h)) j =
       if Wn - lenN pio <=? j
       then N.lxor (cell h (ip - (ps_height s - lenN h)) j)
                   (if nth (N.to_nat (j - (Wn - lenN pio))) pio 0 =? 1 then beta else 0)
       else cell h (ip - (ps_height s - lenN h)) j).
Proof.
  intros Eh Hle Hip Hrows HW Hpio Hcol H. unfold fma_rows_with_pi in H. oinvas H as s1 E1.
  destruct (record_fma_frame _ _ _ _ _ E1) as [EA [Eh1 [_ [_ [EW _]]]]].
  rewrite Eh1, Eh in H. unfold ps_height in *. rewrite EA in H.
  oinvas H as first Ef. apply usub_inv in Ef; [|assumption]. subst first.
  obind_inv H. apply N.ltb_lt in As.
  destruct (N.leb_spec (lenN (ps_A s) - lenN h) ip) as [_|Hlt]; [|lia].
  set (hr := ip - (lenN (ps_A s) - lenN h)) in *.
  oinvas H as row Er. oinvas H as row2 Er2. omon H. inversion H; subst s'. clear H.
  pose proof (getN_lt _ _ _ Er) as Lhr.
  destruct (getN_inv _ _ _ [] Er) as [_ Hrow].
  assert (Lrow : lenN row = Wn) by (subst row; apply (Forall_nth_N (fun r => lenN r = Wn)); assumption).
  rewrite EW, HW in E. apply usub_inv in E; [|assumption]. subst a.
  (* row2: row with (mode Checked) the cell at col updated *)
  assert (R2 : lenN row2 = Wn /\ forall j, j <> col -> nth (N.to_nat j) row2 0 = nth (N.to_nat j) row 0).
  { destruct m; [inversion Er2; subst; auto|]. omon Er2. destruct (putN_inv _ _ _ _ Er2) as [_ ->].
    split; [rewrite lenN_upd; exact Lrow|]. intros j Hj. apply nth_upd_other. lia. }
  destruct R2 as [Lrow2 Hrow2].
  unfold fma_binary in E2. omon E2. inversion E2; subst a1. clear E2.
  destruct (putN_inv _ _ _ _ E3) as [_ ->].
  set (sc := Wn - lenN pio) in *.
  assert (Lsub : length (subl row2 sc (sc + lenN pio)) = length pio).
  { rewrite subl_length by lia. unfold lenN. lia. }
  set (seg := Slab.map2 (fun d b : N => if b =? 1 then N.lxor d beta else d) (subl row2 sc (sc + lenN pio)) pio).
  assert (Lseg : length seg = length pio).
  { unfold seg. clear - Lsub. revert Lsub. generalize (subl row2 sc (sc + lenN pio)). intros l.
    revert l. induction pio as [|b p IH]; intros [|x l] H; cbn in *; try discriminate; [reflexivity|].
    rewrite IH by lia. reflexivity. }
  assert (Hseg : forall t, (t < length pio)%nat ->
            nth t seg 0 = N.lxor (nth t (subl row2 sc (sc + lenN pio)) 0) (if nth t pio 0 =? 1 then beta else 0)).
  { unfold seg. clear - Lsub. revert Lsub. generalize (subl row2 sc (sc + lenN pio)). intros l.
    revert l. induction pio as [|b p IH]; intros [|x l] H t Ht; cbn in *; try discriminate; try lia.
    destruct t; [destruct (b =? 1); [reflexivity | rewrite N.lxor_0_r; reflexivity]|]. apply IH; lia. }
  exists s1, (upd_nth (N.to_nat hr) (firstn (N.to_nat sc) row2 ++ seg ++ skipn (N.to_nat (sc + lenN pio)) row2) h).
  split; [exact E1|]. split; [reflexivity|]. split; [lia|]. split; [exact Lhr|].
  split; [apply lenN_upd|]. split.
  { apply Forall_upd_nth; [exact Hrows|]. unfold lenN in *. rewrite !app_length, firstn_length, skipn_length, Lseg. lia. }
  split; [intros k Hk; apply rowN_upd_other; auto|].
  intros j Hj. rewrite cell_upd_same by exact Lhr. unfold cell. fold (rowN h hr). unfold rowN. rewrite <- Hrow.
  destruct (N.leb_spec sc j) as [Hs|Hs].
  - destruct (N.ltb_spec j Wn) as [HjW|HjW].
    + rewrite app_nth2 by (rewrite firstn_length; unfold lenN in *; lia).
      rewrite firstn_length. replace (Nat.min (N.to_nat sc) (length row2)) with (N.to_nat sc) by (unfold lenN in *; lia).
      rewrite app_nth1 by (rewrite Lseg; unfold lenN in *; lia).
      rewrite Hseg by (unfold lenN in *; lia). rewrite subl_nth by lia.
      replace (N.to_nat sc + (N.to_nat j - N.to_nat sc))%nat with (N.to_nat j) by lia.
      rewrite Hrow2 by exact Hj. f_equal. replace (N.to_nat (j - sc)) with (N.to_nat j - N.to_nat sc)%nat by lia. reflexivity.
    + rewrite (nth_overflow (firstn _ _ ++ _)) by (rewrite !app_length, firstn_length, skipn_length, Lseg; unfold lenN in *; lia).
      rewrite (nth_overflow row) by (unfold lenN in *; lia).
      rewrite (nth_overflow pio) by (unfold lenN in *; lia). reflexivity.
  - rewrite app_nth1 by (rewrite firstn_length; unfold lenN in *; lia).
    rewrite nth_firstn_lt by lia. apply Hrow2. exact Hj.
Qed.
