(* Errata 9 as a theorem: the additions recorded in the first phase (x_elimination_ops), replayed on
   the ORIGINAL rows (in the current row / column order: G0 = the X matrix of debug builds), give the
   current logical matrix G on the rows above i; hence they turn the i x i corner of X into the
   identity, and that corner is lower triangular. *)
From Coq Require Import NArith List Bool Lia Arith.
From RQ Require Import Base.Outcome Base.Ints Base.ListX Model.Octet Model.CMatrix Model.Slab
  Spec.Linear Proofs.OutcomeLemmas Proofs.OctetProofs Proofs.LinearProofs Model.PiSolver
  Proofs.PiSolverBase Proofs.PiSolverStruct Proofs.PiSolverOps Proofs.PiSolverG Proofs.PiSolverInvDefs
  Proofs.PiSolverStats Proofs.PiSolverHist Proofs.PiSolverGraph Proofs.PiSolverXStats
  Proofs.PiSolverSwapCols Proofs.PiSolverPhase345 Proofs.PiSolverCells Proofs.PiSolverPhase1
  Proofs.PiSolverElimTotal Proofs.PiSolverNoPanic.
Import ListNotations.
Open Scope N_scope.

(* the recorded row operations (most recent first, positions as they were when recorded) re-indexed
   through `mp` (position then -> position now), in execution order; x_elimination_ops computes the
   same list with mp = the final mapping and keeps the additions whose destination is above i *)
Fixpoint xcur (rops : list rowop) (mp : N -> N) : list rowop :=
  match rops with
  | [] => []
  | RAdd a b :: t => xcur t mp ++ [RAdd (mp a) (mp b)]
  | RSwap a b :: t => xcur t (fun p => mp (trN a b p))
  end.

(* ---- pure facts about xcur and colapply ---- *)

(* renaming the rows of an operation *)
Definition ren (f : N -> N) (op : rowop) : rowop :=
  match op with RAdd a b => RAdd (f a) (f b) | RSwap a b => RSwap (f a) (f b) end.

Lemma xcur_rename f : forall rops mp,
  xcur rops (fun p => f (mp p)) = map (ren f) (xcur rops mp).
Proof.
  induction rops as [|[a b|a b] t IH]; intros mp; cbn [xcur map].
  - reflexivity.
  - rewrite map_app, IH. reflexivity.
  - exact (IH (fun p => mp (trN a b p))).
Qed.

Lemma xcur_ext : forall rops mp mp', (forall p, mp p = mp' p) -> xcur rops mp = xcur rops mp'.
Proof.
  induction rops as [|[a b|a b] t IH]; intros mp mp' E; cbn [xcur].
  - reflexivity.
  - rewrite (IH mp mp' E), !E. reflexivity.
  - apply IH. intros p. apply E.
Qed.

Lemma xcur_ext_good Mn : forall rops lo mp mp', good Mn lo rops -> lo <= Mn ->
  (forall p, p < Mn -> mp p = mp' p) -> xcur rops mp = xcur rops mp'.
Proof.
  induction rops as [|[a b|a b] t IH]; intros lo mp mp' Gd Hlo E; cbn [xcur good] in *.
  - reflexivity.
  - destruct Gd as (Ga & Gb & Gne & Gt). rewrite (IH lo mp mp' Gt Hlo E), !E by lia. reflexivity.
  - destruct Gd as (Ga & Gb & Gt). apply (IH (N.min lo (N.min a b))); [exact Gt | lia |].
    intros p Hp. apply E. apply (trN_range a b p 0 Mn); lia.
Qed.

(* a block of additions from the same source, recorded at the current positions *)
Lemma xcur_adds i mp : forall pco rest,
  xcur (rev (map (RAdd i) pco) ++ rest) mp = xcur rest mp ++ map (fun x => RAdd (mp i) (mp x)) pco.
Proof.
  induction pco as [|x t IH]; intros rest; cbn [map rev app].
  - rewrite app_nil_r. reflexivity.
  - rewrite <- app_assoc. cbn [app]. rewrite IH. cbn [xcur]. rewrite <- app_assoc. reflexivity.
Qed.

Lemma colapply_ext : forall l f g, (forall k, f k = g k) -> forall k, colapply l f k = colapply l g k.
Proof.
  induction l as [|[a b|a b] t IH]; intros f g E k; cbn [colapply].
  - apply E.
  - apply IH. intros k'. unfold addf. rewrite !E. reflexivity.
  - apply IH, E.
Qed.

(* replaying renamed additions on a renamed column *)
Lemma colapply_rename (t : N -> N) : (forall k, t (t k) = k) ->
  forall l f k, colapply (map (ren t) l) (fun k' => f (t k')) k = colapply l f (t k).
Proof.
  intros Ht. induction l as [|[a b|a b] l IH]; intros f k; cbn [map ren colapply].
  - reflexivity.
  - rewrite <- (IH (addf a b f) k). apply colapply_ext. intros k'. unfold addf. rewrite !Ht.
    destruct (N.eqb_spec k' (t b)) as [->|Hne].
    + rewrite Ht, N.eqb_refl. reflexivity.
    + destruct (N.eqb_spec (t k') b) as [Eb|_]; [|reflexivity]. exfalso. apply Hne. rewrite <- Eb. symmetry. apply Ht.
  - apply IH.
Qed.

Lemma inb_In k l : inb k l = true -> In k l.
Proof.
  unfold inb. rewrite existsb_exists. intros [x [Hx E]]. apply N.eqb_eq in E. subst. exact Hx.
Qed.

(* additions of row i to distinct rows different from i *)
Lemma colapply_adds i : forall pco f k, NoDup pco -> ~ In i pco ->
  colapply (map (RAdd i) pco) f k = if inb k pco then N.lxor (f k) (f i) else f k.
Proof.
  induction pco as [|x t IH]; intros f k ND Hi; cbn [map colapply].
  - reflexivity.
  - inversion ND as [|? ? Hx NDt]; subst.
    rewrite IH; [|exact NDt | intros X; apply Hi; right; exact X].
    assert (Hix : i <> x) by (intros ->; apply Hi; left; reflexivity).
    unfold inb. cbn [existsb]. fold (inb k t). unfold addf.
    destruct (N.eqb_spec i x) as [|_]; [contradiction|].
    destruct (N.eqb_spec k x) as [->|Hkx]; cbn [orb].
    + destruct (inb x t) eqn:Eb; [apply inb_In in Eb; contradiction | reflexivity].
    + reflexivity.
Qed.

(* the operations kept by x_elimination_ops *)
Definition keep (i : N) (op : rowop) : bool :=
  match op with RAdd _ b => b <? i | RSwap _ _ => false end.

(* an addition whose source is above i and above its destination *)
Definition srclt (i : N) (op : rowop) : Prop :=
  match op with RAdd a b => a < i /\ a < b | RSwap _ _ => False end.

Lemma xe_filter i : forall rops mapping acc xo, x_elimination_ops rops mapping i acc = Ok xo ->
  xo = filter (keep i) (xcur rops (fun p => nth (N.to_nat p) mapping 0)) ++ acc.
Proof.
  induction rops as [|[a b|a b] t IH]; intros mapping acc xo H; cbn [x_elimination_ops] in H.
  - inversion H. reflexivity.
  - oinvas H as ms Ea. oinvas H as u0 Eu. oinvas H as md Eb.
    destruct (getN_inv _ _ _ 0 Ea) as [_ ->]. destruct (getN_inv _ _ _ 0 Eb) as [_ ->].
    cbn [xcur]. rewrite filter_app. cbn [filter keep].
    destruct (nth (N.to_nat b) mapping 0 <? i); apply IH in H; rewrite H.
    + rewrite <- app_assoc. reflexivity.
    + rewrite app_nil_r. reflexivity.
  - oinvas H as mp' Em. apply IH in H. rewrite H. cbn [xcur]. f_equal. f_equal.
    apply xcur_ext. intros p. apply (swapN_cell _ _ _ _ 0 p Em).
Qed.

Lemma xcur_srclt Mn i : forall rops lo mp, good Mn lo rops -> lo <= i ->
  (forall p, p < lo -> mp p = p) -> (forall p, lo <= p < Mn -> lo <= mp p) ->
  Forall (srclt i) (xcur rops mp).
Proof.
  induction rops as [|[a b|a b] t IH]; intros lo mp Gd Hlo Hid Hhi; cbn [xcur good] in *.
  - constructor.
  - destruct Gd as (Ga & Gb & Gne & Gt). apply Forall_app. split; [apply (IH lo); assumption|].
    constructor; [|constructor]. cbn [srclt]. rewrite (Hid a Ga). specialize (Hhi b ltac:(lia)). lia.
  - destruct Gd as (Ga & Gb & Gt). apply (IH (N.min lo (N.min a b))); [exact Gt | lia | |].
    + intros p Hp. rewrite trN_other by lia. apply Hid. lia.
    + intros p Hp.
      assert (Hq : N.min lo (N.min a b) <= trN a b p < Mn).
      { unfold trN. destruct (N.eqb_spec p a); [lia|]. destruct (N.eqb_spec p b); lia. }
      destruct (N.lt_ge_cases (trN a b p) lo) as [Hlt|Hge].
      * rewrite Hid by exact Hlt. lia.
      * specialize (Hhi (trN a b p) ltac:(lia)). lia.
Qed.

(* the dropped additions never feed a row above i *)
Lemma colapply_filter i : forall X, Forall (srclt i) X ->
  forall f g, (forall k, k < i -> f k = g k) ->
  forall k, k < i -> colapply (filter (keep i) X) f k = colapply X g k.
Proof.
  induction 1 as [|op X Hop _ IH]; intros f g E k Hk; cbn [filter colapply]; [apply E, Hk|].
  destruct op as [a b|a b]; [|destruct Hop]. cbn [srclt keep] in *.
  destruct (N.ltb_spec b i) as [Hb|Hb]; cbn [colapply].
  - apply IH; [|exact Hk]. apply addf_ext_lt; [lia | exact Hb | exact E].
  - apply IH; [|exact Hk]. intros k' Hk'. unfold addf. destruct (N.eqb_spec k' b); [lia|]. apply E, Hk'.
Qed.

Lemma filter_srclt i : forall X, Forall (srclt i) X ->
  Forall (xo_lt i) (filter (keep i) X) /\ Forall (srclt i) (filter (keep i) X).
Proof.
  induction 1 as [|op X Hop _ [IH1 IH2]]; cbn [filter]; [split; constructor|].
  destruct op as [a b|a b]; [|destruct Hop]. cbn [srclt keep] in *.
  destruct (N.ltb_spec b i) as [Hb|Hb]; [|split; assumption].
  split; constructor; try assumption; cbn; lia.
Qed.

(* additions downwards keep the zeros above position j *)
Lemma colapply_lowtri i : forall l, Forall (srclt i) l ->
  forall j f, (forall k, k < j -> f k = 0) -> forall k, k < j -> colapply l f k = 0.
Proof.
  induction 1 as [|op l Hop _ IH]; intros j f Hz k Hk; cbn [colapply]; [apply Hz, Hk|].
  destruct op as [a b|a b]; [|destruct Hop]. cbn [srclt] in Hop.
  apply (IH j); [|exact Hk]. intros k' Hk'. unfold addf.
  destruct (N.eqb_spec k' b) as [->|_]; [|apply Hz, Hk'].
  rewrite !Hz by lia. reflexivity.
Qed.

Section XR.
Variable A0 : list (list N).
Variable M W Hn : N.
Hypothesis A0_wf : wf_mat (N.to_nat W) A0.
Hypothesis A0_len : lenN A0 = M.
Hypothesis W16 : W < 65536.
Hypothesis HM : Hn <= M.
Hypothesis M32 : M < 4294967296.
Local Notation G := (G A0).
Local Notation fp_inv := (fp_inv A0 M W Hn).

(* the original matrix in the current row and column order *)
Definition G0 (s : pstate) (k j : N) : N := cell A0 (dat s k) (cat s j).

Definition er_inv (s : pstate) (rops : list rowop) : Prop :=
  forall k j, k + Hn < M -> j < W ->
    G s k j = colapply (xcur rops (fun p => p)) (fun k' => G0 s k' j) k.

(* ---- local abbreviations: the lemmas of PiSolverPhase1 with the section context applied ---- *)
Local Notation el_inv := (el_inv A0 M W Hn).
Local Notation hd_inv := (hd_inv A0 M W Hn).
Local Notation fi_lite := (fi_lite A0 M W Hn).
Local Notation fi_dims := (fi_dims A0 M W Hn).
Local Notation fi_bin := (fi_bin A0 M W Hn).
Local Notation fi_hlen := (fi_hlen A0 M W Hn).
Local Notation fi_hrows := (fi_hrows A0 M W Hn).
Local Notation fi_W := (fi_W A0 M W Hn).
Local Notation fi_iu := (fi_iu A0 M W Hn).
Local Notation fi_iH := (fi_iH A0 M W Hn).
Local Notation fi_agreeA := (fi_agreeA A0 M W Hn).
Local Notation fi_agreeH := (fi_agreeH A0 M W Hn).
Local Notation fi_I := (fi_I A0 M W Hn).
Local Notation fi_st := (fi_st A0 M W Hn).
Local Notation ei_lite := (ei_lite A0 M W Hn).
Local Notation ei_dims := (ei_dims A0 M W Hn).
Local Notation ei_hd := (ei_hd A0 M W Hn).
Local Notation ei_d := (ei_d A0 M W Hn).
Local Notation ei_c := (ei_c A0 M W Hn).
Local Notation ei_W := (ei_W A0 M W Hn).
Local Notation ei_i := (ei_i A0 M W Hn).
Local Notation ei_u := (ei_u A0 M W Hn).
Local Notation ei_G := (ei_G A0 M W Hn).
Local Notation ei_rows := (ei_rows A0 M W Hn).
Local Notation hi_d := (hi_d A0 M W Hn).
Local Notation hi_c := (hi_c A0 M W Hn).
Local Notation hi_G := (hi_G A0 M W Hn).
Local Notation fp_height := (fp_height A0 M W Hn).
Local Notation fp_inv_swap_rows := (fp_inv_swap_rows A0 M W Hn A0_len W16 HM M32).
Local Notation fp_inv_onX := (fp_inv_onX A0 M W Hn).
Local Notation fp_inv_swaps_all := (fp_inv_swaps_all A0 M W Hn A0_len W16 HM M32).
Local Notation el_loop := (el_loop A0 M W Hn A0_wf A0_len W16 HM M32).
Local Notation hd_loop := (hd_loop A0 M W Hn A0_wf A0_len W16 HM M32).

(* ---- the intermediate states of one iteration (the walk of fp_step_inv_pre) ---- *)
Lemma fp_step_mid m s st rops s' st' rops' :
  fp_inv s st -> ps_i s + ps_u s < W -> fp_pre_step m s st rops s' st' rops' ->
  exists chosen r s1 s2 st1 sw s3 st2 ec pco s4 s5,
    ps_i s <= chosen /\ chosen + Hn < M /\ ps_i s + Hn < M /\
    ps_swap_rows m s (ps_i s) chosen = Ok s1 /\
    onX m s1 (fun X => bm_swap_rows X (ps_i s) chosen) = Ok s2 /\
    swaps_all m s2 st1 sw = Ok (s3, st2) /\
    Forall (fun p => fst p < W /\ snd p < W) sw /\
    ps_i s3 = ps_i s /\
    NoDup pco /\ (forall x, In x pco -> ps_i s < x /\ x + Hn < M) /\
    el_inv s3 ec pco s4 st' /\
    rops' = rev (map (RAdd (ps_i s)) pco) ++ RSwap (ps_i s) chosen :: rops /\
    hd_inv s4 (seqN 0 Hn) s5 /\
    s' = advance s5 (r - 1).
Proof.
  intros I Hlt H.
  destruct H as (end_row & chosen & r & s1 & s2 & st1 & s3 & st2 & tv & pco & r1 & wu & ec & st3 & s4 & s5 &
    Eer & Esel & Hch & Esw & EX & Est & Esub & Etv & Epco & Er1 & Ewu & Eec & Ers & Eel & Ehd & ->).
  (* end_row *)
  rewrite (fp_height _ _ I), num_hdpc_hd_rows, (fi_hlen _ _ I) in Eer. apply usub_inv in Eer; [|exact HM]. subst end_row.
  (* the selected row *)
  destruct (sel_spec _ _ _ _ _ _ _ _ _ (fi_st _ _ I) ltac:(destruct (fi_dims _ _ I); lia) Esel) as (Hch' & Hopr & Hr).
  destruct (fp_inv_swap_rows _ _ _ _ _ _ I Hch Esw Est) as (I1 & HchM & Ei1 & Eu1 & Hopr1).
  pose proof (fp_inv_onX _ _ _ _ _ I1 EX) as I2.
  destruct (onX_frame _ _ _ _ EX) as (EA2 & Eh2 & Ed2 & Ec2 & EW2 & Ei2 & Eu2 & EL2 & Eo2).
  assert (Ei2' : ps_i s2 = (ps_i s)) by congruence. assert (Eu2' : ps_u s2 = (ps_u s)) by congruence.
  assert (HiM : (ps_i s) + Hn < M) by lia.
  assert (Hcnt : cnt (rowN (ps_A s2) (ps_i s)) (ps_i s) (W - (ps_u s)) = r).
  { pose proof (si_opr _ _ _ _ _ _ (fi_st _ _ I2)) as X. rewrite Ei2', Eu2' in X. rewrite <- X by lia.
    rewrite Hopr1. exact Hopr. }
  assert (Hrle : r <= W - (ps_u s) - (ps_i s)) by (rewrite <- Hcnt; apply PiSolverStats.cnt_le).
  (* the column exchanges *)
  destruct (substep_spec m s2 st1 r s3 st2) as (sw & Esw2 & Fsw & Hone & Hzeros); try assumption.
  { rewrite (fi_W _ _ I2), Eu2'. lia. }
  { rewrite (fi_W _ _ I2), Eu2', Ei2'. lia. }
  { rewrite Ei2'. rewrite (dims_row _ _ _ _ (fi_dims _ _ I2)) by lia. symmetry. apply (fi_W _ _ I2). }
  { rewrite Ei2'. apply bin_mat_row. apply (fi_bin _ _ I2). }
  { rewrite (fi_W _ _ I2), Eu2', Ei2'. exact Hcnt. }
  rewrite (fi_W _ _ I2), Eu2', Ei2' in *.
  destruct (fp_inv_swaps_all m sw s2 st1 s3 st2 I2) as (I3 & Ei3 & Eu3); [rewrite Ei2', Eu2'; exact Fsw | exact Esw2 |].
  rewrite Ei2' in Ei3. rewrite Eu2' in Eu3.
  (* the pivot *)
  apply bm_get_cell in Etv. rewrite Hone in Etv. subst tv.
  apply usub_inv in Er1; [|exact Hr]. subst r1.
  rewrite (fi_W _ _ I3), Eu3 in Ewu. apply usub_inv in Ewu; [|pose proof (fi_iu _ _ I); lia]. subst wu.
  apply usub_inv in Eec; [|lia]. subst ec. set (ec := W - (ps_u s) - (r - 1)) in *.
  rewrite Ei3 in *.
  destruct (bm_ones_in_col_spec _ _ _ _ _ Epco) as (NDpco & Hpco).
  assert (Hagree3 : forall j, (ps_i s) <= j < W -> cell (ps_A s3) (ps_i s) j = G s3 (ps_i s) j).
  { intros j Hj. apply (fi_agreeA _ _ I3); [exact HiM | rewrite Ei3; exact Hj]. }
  assert (Hshape : forall j, (ps_i s) < j < ec -> cell (ps_A s3) (ps_i s) j = 0) by (intros j Hj; apply Hzeros; unfold ec in Hj; lia).
  (* the statistics for the shrunk V *)
  assert (S3 : st_inv (ps_A s3) st3 ((ps_i s) + 1) (M - Hn) ((ps_i s) + 1) ec).
  { pose proof (fi_st _ _ I3) as X. rewrite Ei3, Eu3 in X.
    assert (Y1 : ps_i s + 1 <= ec) by (unfold ec; lia).
    assert (Y2 : ec <= W - ps_u s) by (unfold ec; lia).
    apply (st_resize_spec m st2 (ps_A s3) M W (ps_i s) (M - Hn) (W - ps_u s) ec pco st3 X
             (fi_dims _ _ I3) (fi_bin _ _ I3)); try assumption; lia. }
  (* the rows below the pivot *)
  assert (E0 : el_inv s3 ec [] s3 st3).
  { apply mkEL; try reflexivity.
    - apply (fi_lite _ _ I3).
    - apply (fi_dims _ _ I3).
    - apply (fi_bin _ _ I3).
    - intros k j Hk Hj. apply (fi_agreeA _ _ I3); [exact Hk | lia].
    - rewrite Ei3. exact S3. }
  assert (P2 : ps_i s3 + Hn < M) by (rewrite Ei3; exact HiM).
  assert (P4 : ec = W - ps_u s3 - (r - 1)) by (rewrite Eu3; reflexivity).
  assert (P5 : ps_i s3 + 1 <= ec) by (rewrite Ei3; unfold ec; lia).
  assert (P6 : ps_u s3 + (r - 1) <= W) by (rewrite Eu3; lia).
  assert (P7 : forall j, ps_i s3 < j < ec -> cell (ps_A s3) (ps_i s3) j = 0) by (rewrite Ei3; exact Hshape).
  assert (P9 : forall x, In x ([] ++ pco) -> ps_i s3 < x /\ x + Hn < M)
    by (intros x Hx; apply Hpco in Hx; rewrite Ei3; lia).
  assert (P11 : ofold (eliminate_row m r (ps_i s3) 1) pco (s3, st3, RSwap (ps_i s) chosen :: rops)
                = Ok (s4, st', rops')) by (rewrite Ei3; exact Eel).
  pose proof (el_loop m r 1 s3 st2 ec pco [] s3 st3 _ s4 st' rops' I3 P2 Hr P4 P5 P6 P7 NDpco P9 E0 P11) as E4.
  cbn [app] in E4.
  assert (G4 : forall k j, k < M -> ~ In k pco -> G s4 k j = G s3 k j).
  { intros k j Hk Hn'. rewrite (ei_G _ _ _ _ _ E4) by exact Hk.
    destruct (inb k pco) eqn:Eb; [apply inb_In in Eb; contradiction | reflexivity]. }
  assert (Hipco : ~ In (ps_i s) pco) by (intros X; apply Hpco in X; lia).
  assert (Hhpco : forall x, x < Hn -> ~ In (M - Hn + x) pco) by (intros x Hx X; apply Hpco in X; lia).
  (* the HDPC rows *)
  assert (E5 : hd_inv s4 (seqN 0 Hn) s5).
  { assert (E40 : hd_inv s4 [] s4).
    { constructor; try reflexivity.
      - apply (ei_lite _ _ _ _ _ E4).
      - unfold hd_rows. rewrite (ei_hd _ _ _ _ _ E4). apply (fi_hlen _ _ I3).
      - unfold hd_rows. rewrite (ei_hd _ _ _ _ _ E4). apply (fi_hrows _ _ I3).
      - intros k j Hk. rewrite andb_false_r. reflexivity.
      - intros hr j [] . }
    unfold eliminate_hdpc in Ehd. rewrite num_hdpc_hd_rows, (fi_hlen _ _ I) in Ehd.
    destruct (N.ltb_spec 0 Hn) as [Hpos|Hzero].
    - omon Ehd. rewrite (ei_W _ _ _ _ _ E4), (fi_W _ _ I3), (ei_u _ _ _ _ _ E4), Eu3 in E.
      apply usub_inv in E; [|lia]. replace (W - ((ps_u s) + r - 1)) with ec in E by (unfold ec; lia). subst a.
      unfold bm_sub_row in E1. omon E1. destruct (N.leb_spec ec (lenN a)); [|discriminate]. inversion E1; subst a0. clear E1.
      destruct (getN_inv _ _ _ [] E) as [_ Ha]. fold (rowN (ps_A s4) (ps_i s)) in Ha. subst a.
      pose proof (ei_i _ _ _ _ _ E4) as Ei4. rewrite Ei3 in Ei4. pose proof (ei_u _ _ _ _ _ E4) as Eu4. rewrite Eu3 in Eu4.
      assert (Q1 : lite M s4) by apply (ei_lite _ _ _ _ _ E4).
      assert (Q2 : dims (ps_A s4) M W) by apply (ei_dims _ _ _ _ _ E4).
      assert (Q3 : ps_W s4 = W) by (rewrite (ei_W _ _ _ _ _ E4); apply (fi_W _ _ I3)).
      assert (Q4 : ps_i s4 + Hn < M) by (rewrite Ei4; exact HiM).
      assert (Q6 : ec = W - ps_u s4 - (r - 1)) by (rewrite Eu4; reflexivity).
      assert (Q7 : ps_i s4 + 1 <= ec) by (rewrite Ei4; unfold ec; lia).
      assert (Q8 : ec <= W) by (unfold ec; lia).
      assert (Q9 : skipn (N.to_nat ec) (rowN (ps_A s4) (ps_i s)) = skipn (N.to_nat ec) (rowN (ps_A s4) (ps_i s4)))
        by (rewrite Ei4; reflexivity).
      assert (Q10 : forall j, ps_i s4 < j < ec -> G s4 (ps_i s4) j = 0).
      { rewrite Ei4. intros j Hj. rewrite G4 by (try lia; exact Hipco).
        rewrite <- Hagree3 by (unfold ec in Hj; lia). apply Hshape. exact Hj. }
      assert (Q11 : forall j, ec <= j < W -> cell (ps_A s4) (ps_i s4) j = G s4 (ps_i s4) j /\
                                           (G s4 (ps_i s4) j = 0 \/ G s4 (ps_i s4) j = 1)).
      { rewrite Ei4. intros j Hj. unfold cell. rewrite (ei_rows _ _ _ _ _ E4) by exact Hipco.
        fold (cell (ps_A s3) (ps_i s) j).
        rewrite G4 by (try lia; exact Hipco). rewrite Hagree3 by (unfold ec in Hj; lia). split; [reflexivity|].
        rewrite <- Hagree3 by (unfold ec in Hj; lia). apply bin_cell. apply (fi_bin _ _ I3). }
      assert (Q12 : forall x j, x < Hn -> ps_i s4 <= j < W -> cell (hd_rows s4) x j = G s4 (M - Hn + x) j).
      { rewrite Ei4. intros x j Hx Hj. unfold hd_rows. rewrite (ei_hd _ _ _ _ _ E4). fold (hd_rows s3).
        rewrite G4 by (try lia; apply Hhpco; exact Hx). apply (fi_agreeH _ _ I3); [exact Hx | rewrite Ei3; exact Hj]. }
      assert (Q13 : NoDup ([] ++ seqN 0 Hn)) by (cbn [app]; apply seqN_NoDup).
      assert (Q14 : forall x, In x ([] ++ seqN 0 Hn) -> x < Hn) by (intros x Hx; cbn [app] in Hx; apply seqN_in in Hx; lia).
      rewrite <- Ei4 in Ehd at 1.
      exact (hd_loop m 1 r s4 ec _ (seqN 0 Hn) [] s4 s5 Q1 Q2 Q3 Q4 eq_refl Q6 Q7 Q8 Q9 Q10 Q11 Q12 Q13 Q14 E40 Ehd).
    - inversion Ehd; subst s5. replace (seqN 0 Hn) with (@nil N); [exact E40|].
      replace Hn with 0 by lia. reflexivity. }
  exists chosen, r, s1, s2, st1, sw, s3, st2, ec, pco, s4, s5.
  split; [exact Hch|]. split; [exact HchM|]. split; [exact HiM|]. split; [exact Esw|]. split; [exact EX|].
  split; [exact Esw2|]. split.
  { eapply Forall_impl; [|exact Fsw]. intros [a b] [Ha Hb]. cbn [fst snd] in *. lia. }
  split; [exact Ei3|]. split; [exact NDpco|]. split.
  { intros x Hx. apply Hpco in Hx. lia. }
  split; [exact E4|]. split; [exact (el_rops _ _ _ _ _ _ _ _ _ _ _ Eel)|]. split; [exact E5 | reflexivity].
Qed.

(* ---- how each part of an iteration transports er_inv ---- *)

(* G unchanged on the non-HDPC rows, d and c unchanged *)
Lemma er_frame s s' rops : (forall k j, k + Hn < M -> G s' k j = G s k j) ->
  ps_d s' = ps_d s -> ps_c s' = ps_c s -> er_inv s rops -> er_inv s' rops.
Proof.
  intros HG Ed Ec E k j Hk Hj. rewrite HG by exact Hk. rewrite (E k j Hk Hj).
  apply colapply_ext. intros k'. unfold G0, dat, cat. rewrite Ed, Ec. reflexivity.
Qed.

(* two columns exchanged *)
Lemma er_cols s s' rops a b : a < W -> b < W ->
  (forall k j, G s' k j = G s k (trN a b j)) -> ps_d s' = ps_d s ->
  (forall j, cat s' j = cat s (trN a b j)) -> er_inv s rops -> er_inv s' rops.
Proof.
  intros Ha Hb HG Ed Ec E k j Hk Hj. rewrite HG.
  assert (Ht : trN a b j < W) by (apply (trN_range a b j 0 W); lia).
  rewrite (E k (trN a b j) Hk Ht).
  apply colapply_ext. intros k'. unfold G0, dat. rewrite Ed, Ec. reflexivity.
Qed.

Lemma er_swap_cols_all m s st a b s' st' rops : a < W -> b < W ->
  swap_cols_all m s st a b = Ok (s', st') -> er_inv s rops -> er_inv s' rops.
Proof.
  intros Ha Hb H E. destruct (swap_cols_all_inv _ _ _ _ _ _ _ H) as (s1 & Esw & _ & EX).
  destruct (ps_swap_cols_frame _ _ _ _ _ Esw) as (_ & _ & Ec & Ed & _).
  destruct (onX_frame _ _ _ _ EX) as (_ & _ & Ed' & Ec' & _ & _ & _ & _ & Eo').
  apply (er_frame s1); [intros k j _; apply G_frame; assumption | exact Ed' | exact Ec' |].
  apply (er_cols s s1 rops a b Ha Hb); [| exact Ed | | exact E].
  - intros k j. exact (G_swap_cols A0 _ _ _ _ _ Esw k j).
  - intros j. unfold cat. apply (swapN_cell _ _ _ _ 0 j Ec).
Qed.

Lemma er_swaps_all m sw : forall s st s' st' rops,
  Forall (fun p => fst p < W /\ snd p < W) sw ->
  swaps_all m s st sw = Ok (s', st') -> er_inv s rops -> er_inv s' rops.
Proof.
  induction sw as [|[a b] t IH]; intros s st s' st' rops F H E; cbn [swaps_all] in H.
  - inversion H; subst. exact E.
  - destruct (swap_cols_all m s st a b) as [[s1 st1]|] eqn:E1; [|discriminate].
    inversion F as [|x l [Ha Hb] Ft]; subst. cbn [fst snd] in *.
    apply (IH s1 st1 s' st' rops Ft H). exact (er_swap_cols_all _ _ _ _ _ _ _ _ Ha Hb E1 E).
Qed.

(* rows i and ch (both non-HDPC) exchanged, and the exchange recorded *)
Lemma er_swap_rows m s i ch s1 rops : i + Hn < M -> ch + Hn < M ->
  ps_swap_rows m s i ch = Ok s1 -> er_inv s rops -> er_inv s1 (RSwap i ch :: rops).
Proof.
  intros Hi Hc Esw E k j Hk Hj.
  destruct (ps_swap_rows_frame _ _ _ _ _ Esw) as (_ & Ed & _ & Ec & _).
  assert (R : xcur (RSwap i ch :: rops) (fun p => p) = map (ren (trN i ch)) (xcur rops (fun p => p)))
    by exact (xcur_rename (trN i ch) rops (fun p => p)).
  rewrite R. rewrite (G_swap_rows A0 _ _ _ _ _ Esw k j).
  assert (Hk' : trN i ch k + Hn < M).
  { unfold trN. destruct (k =? i); [lia|]. destruct (k =? ch); lia. }
  rewrite (E (trN i ch k) j Hk' Hj).
  transitivity (colapply (map (ren (trN i ch)) (xcur rops (fun p => p))) (fun k' => G0 s (trN i ch k') j) k).
  - symmetry. exact (colapply_rename (trN i ch) (trN_invol i ch) (xcur rops (fun p => p)) (fun k' => G0 s k' j) k).
  - apply colapply_ext. intros k'. unfold G0, dat, cat. rewrite Ec.
    rewrite (swapN_cell _ _ _ _ 0 k' Ed). reflexivity.
Qed.

(* the additions of row i to the rows of pco *)
Lemma er_adds b ec pco s4 st4 rops : ps_i b + Hn < M -> NoDup pco ->
  (forall x, In x pco -> ps_i b < x /\ x + Hn < M) ->
  el_inv b ec pco s4 st4 -> er_inv b rops ->
  er_inv s4 (rev (map (RAdd (ps_i b)) pco) ++ rops).
Proof.
  intros Hi ND Hp E4 E k j Hk Hj.
  assert (R : xcur (rev (map (RAdd (ps_i b)) pco) ++ rops) (fun p => p)
              = xcur rops (fun p => p) ++ map (RAdd (ps_i b)) pco)
    by exact (xcur_adds (ps_i b) (fun p => p) pco rops).
  rewrite R.
  transitivity (colapply (xcur rops (fun p => p) ++ map (RAdd (ps_i b)) pco) (fun k' => G0 b k' j) k).
  2:{ apply colapply_ext. intros k'. unfold G0, dat, cat.
      rewrite (ei_d _ _ _ _ _ E4), (ei_c _ _ _ _ _ E4). reflexivity. }
  rewrite colapply_app. rewrite colapply_adds; [|exact ND | intros X; apply Hp in X; lia].
  rewrite (ei_G _ _ _ _ _ E4) by lia.
  rewrite <- (E k j Hk Hj), <- (E (ps_i b) j Hi Hj). reflexivity.
Qed.

Lemma er_init s : ps_ops s = [] -> er_inv s [].
Proof using A0_wf A0_len W16 HM M32.
  intros H k j _ _. cbn [xcur colapply]. unfold G0, PiSolverG.G, Bmat, sops. rewrite H. reflexivity.
Qed.

Lemma er_step m s st rops s' st' rops' : fp_inv s st -> er_inv s rops -> good M (ps_i s) rops ->
  ps_i s + ps_u s < W -> fp_pre_step m s st rops s' st' rops' -> er_inv s' rops'.
Proof using A0_wf A0_len W16 HM M32.
  intros I E _ Hlt Pre.
  destruct (fp_step_mid _ _ _ _ _ _ _ I Hlt Pre) as
    (chosen & r & s1 & s2 & st1 & sw & s3 & st2 & ec & pco & s4 & s5 &
     Hch & HchM & HiM & Esw & EX & Esw2 & Fsw & Ei3 & NDpco & Hpco & E4 & -> & E5 & ->).
  (* the row exchange *)
  pose proof (er_swap_rows _ _ _ _ _ _ HiM HchM Esw E) as R1.
  (* the same exchange in X *)
  destruct (onX_frame _ _ _ _ EX) as (_ & _ & Ed2 & Ec2 & _ & _ & _ & _ & Eo2).
  assert (R2 : er_inv s2 (RSwap (ps_i s) chosen :: rops)).
  { apply (er_frame s1); [intros k j _; apply G_frame; assumption | exact Ed2 | exact Ec2 | exact R1]. }
  (* the column exchanges *)
  pose proof (er_swaps_all m sw _ _ _ _ _ Fsw Esw2 R2) as R3.
  (* the additions *)
  rewrite <- Ei3 in HiM, Hpco.
  pose proof (er_adds s3 ec pco s4 st' _ HiM NDpco Hpco E4 R3) as R4. rewrite Ei3 in R4.
  (* the HDPC rows, and the new i and u *)
  apply (er_frame s4); [| | | exact R4].
  - intros k j Hk.
    replace (G (advance s5 (r - 1)) k j) with (G s5 k j) by (symmetry; apply G_frame; reflexivity).
    rewrite (hi_G _ _ _ E5) by lia. destruct (N.leb_spec (M - Hn) k); [lia | reflexivity].
  - exact (hi_d _ _ _ E5).
  - exact (hi_c _ _ _ E5).
Qed.

Theorem x_relation s st rops xo : fp_inv s st -> er_inv s rops -> good M (ps_i s) rops ->
  x_elimination_ops rops (seqN 0 M) (ps_i s) [] = Ok xo ->
  (forall k j, k < ps_i s -> j < ps_i s ->
     colapply xo (fun k' => G0 s k' j) k = if k =? j then 1 else 0) /\
  (forall k j, k < j -> j < ps_i s -> G0 s k j = 0).
Proof using A0_wf A0_len W16 HM M32.
  intros I E Gd Hx.
  pose proof (fi_iH _ _ I) as HiH. pose proof (fi_iu _ _ I) as Hiu.
  set (i := ps_i s) in *. set (X := xcur rops (fun p => p)).
  assert (Hxo : xo = filter (keep i) X).
  { rewrite (xe_filter i _ _ _ _ Hx), app_nil_r. f_equal.
    apply (xcur_ext_good M rops i); [exact Gd | lia |].
    intros p Hp. rewrite seqN_nth by lia. lia. }
  assert (SL : Forall (srclt i) X).
  { apply (xcur_srclt M i rops i); [exact Gd | lia | reflexivity | intros p Hp; lia]. }
  destruct (filter_srclt i X SL) as [XL SLx]. rewrite <- Hxo in XL, SLx.
  assert (key : forall k j, k < i -> j < i -> colapply xo (fun k' => G0 s k' j) k = G s k j).
  { intros k j Hk Hj. rewrite Hxo.
    rewrite (colapply_filter i X SL _ (fun k' => G0 s k' j)); [|reflexivity | exact Hk].
    symmetry. apply E; lia. }
  split.
  - intros k j Hk Hj. rewrite (key k j Hk Hj). apply (fi_I _ _ I); assumption.
  - intros k j Hkj Hj.
    assert (XLr : Forall (xo_lt i) (rev xo)) by (apply Forall_rev, XL).
    assert (SLr : Forall (srclt i) (rev xo)) by (apply Forall_rev, SLx).
    assert (Hk : k < i) by lia.
    transitivity (colapply (rev xo) (fun k' => G s k' j) k).
    + rewrite (colapply_ext_lt i i (rev xo) XLr (N.le_refl i) _ (colapply xo (fun k' => G0 s k' j)));
        [| intros k' Hk'; symmetry; apply key; assumption | exact Hk].
      pose proof (colapply_cancel i i (rev xo) XLr (N.le_refl i) (fun k' => G0 s k' j) k Hk) as C.
      rewrite rev_involutive in C. symmetry. exact C.
    + apply (colapply_lowtri i (rev xo) SLr j); [|exact Hkj].
      intros k' Hk'. rewrite (fi_I _ _ I) by (fold i; lia).
      destruct (N.eqb_spec k' j); [lia | reflexivity].
Qed.

End XR.
