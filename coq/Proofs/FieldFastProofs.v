(* The table-in-a-trie arithmetic of Model/FieldFast.v is the arithmetic of Model/Octet.v. *)
From Coq Require Import NArith List Bool FMapPositive.
From RQ Require Import Base.ListX Gen.OctetTables Model.Octet Model.FieldFast.
Open Scope N_scope.

Lemma sweep_fmul_ok :
  forall_lt2 256 256 (fun a b => fmul a b =? mulN a b) = true. Proof. vm_compute. reflexivity. Qed.

Lemma sweep_finv_ok :
  forall_lt 256 (fun a => (finv a =? divN 1 a) && (finv a <? 256)) = true. Proof. vm_compute. reflexivity. Qed.

Lemma fmul_mulN a b : a < 256 -> b < 256 -> fmul a b = mulN a b.
Proof.
  intros Ha Hb. apply N.eqb_eq. pose proof sweep_fmul_ok as S0.
  exact (forall_lt2_spec _ _ _ S0 a b Ha Hb).
Qed.

Lemma finv_facts a : a < 256 -> finv a = divN 1 a /\ finv a < 256.
Proof.
  intros Ha. pose proof sweep_finv_ok as S0.
  pose proof (forall_lt_spec _ _ S0 a Ha) as S. cbv beta in S. clear S0.
  apply andb_true_iff in S. destruct S as [S1 S2]. apply N.eqb_eq in S1. apply N.ltb_lt in S2. auto.
Qed.

Lemma finv_divN a : a < 256 -> finv a = divN 1 a.
Proof. intros Ha. apply (finv_facts a Ha). Qed.

Lemma finv_lt a : a < 256 -> finv a < 256.
Proof. intros Ha. apply (finv_facts a Ha). Qed.
