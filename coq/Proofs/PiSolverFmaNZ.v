(* The solver never records an FMA with the scalar 0 or 1 (record_fma_rows turns 1 into an AddAssign;
   every call site has tested the scalar against 0), so replaying its list never trips the
   debug assertions of fused_addassign_mul_scalar. *)
From Coq Require Import NArith List Bool Lia Arith.
From RQ Require Import Base.Outcome Base.Ints Base.ListX Model.Octet Model.CMatrix Model.Slab
  Spec.Linear Proofs.OutcomeLemmas Proofs.OctetProofs Proofs.LinearProofs Model.PiSolver
  Proofs.PiSolverBase Proofs.PiSolverStruct Proofs.PiSolverOps.
Import ListNotations.
Open Scope N_scope.

Definition fma_ok (o : symbol_op) : bool :=
  match o with SFMA _ _ c => negb (c =? 0) && negb (c =? 1) | _ => true end.

(* ---- a quotient with a non-zero numerator is non-zero (whatever the denominator) ---- *)
Lemma logN_lt_255_or_0 a : a <> 0 -> logN a < 255.
Proof.
  intros Hz. destruct (N.ltb_spec a 256) as [Ha|Ha].
  - apply log_facts; assumption.
  - unfold logN. rewrite nth_overflow; [reflexivity|].
    rewrite len_log. lia.
Qed.

Lemma divN_nz a b : a <> 0 -> divN a b <> 0.
Proof.
  intros Hz. unfold divN. pose proof (logN_lt_255_or_0 a Hz) as La.
  apply N.eqb_neq in Hz. rewrite Hz. apply exp_facts. lia.
Qed.

(* ---- the second light invariant ---- *)
Definition fok (s : pstate) : Prop := forallb fma_ok (ps_ops s) = true.

Lemma fok_eq s s' : ps_ops s' = ps_ops s -> fok s -> fok s'.
Proof. unfold fok. intros ->. auto. Qed.

Lemma fok_record_fma s i ip beta s' : fok s -> record_fma_rows s i ip beta = Ok s' ->
  beta <> 0 -> fok s'.
Proof.
  unfold record_fma_rows, fok. intros F H Hz. omon H. inversion H; subst s'. clear H.
  cbn [ps_ops set_ops forallb]. rewrite F, andb_true_r.
  destruct (beta =? 1) eqn:E1; cbn [fma_ok]; [reflexivity|].
  apply N.eqb_neq in Hz. rewrite Hz, E1. reflexivity.
Qed.

Lemma fok_record_mul s i beta s' : fok s -> record_mul_row s i beta = Ok s' -> fok s'.
Proof.
  unfold record_mul_row, fok. intros F H. omon H. destruct (ps_hd s); [discriminate|].
  inversion H; subst s'. cbn [ps_ops set_ops forallb fma_ok]. exact F.
Qed.

Lemma ops_onX m s f s' : onX m s f = Ok s' -> ps_ops s' = ps_ops s.
Proof. unfold onX. intros H. destruct m; [inversion H; reflexivity|]. omon H. inversion H; reflexivity. Qed.

Lemma fok_onX m s f s' : fok s -> onX m s f = Ok s' -> fok s'.
Proof. intros F H. eapply fok_eq; [eapply ops_onX; exact H | exact F]. Qed.

Lemma fok_ps_swap_rows m s i j s' : fok s -> ps_swap_rows m s i j = Ok s' -> fok s'.
Proof.
  unfold ps_swap_rows. intros F H. oinvas H as u0 E0. omon H. inversion H; subst s'. exact F.
Qed.

Lemma fok_ps_swap_cols s i j sr s' : fok s -> ps_swap_cols s i j sr = Ok s' -> fok s'.
Proof. unfold ps_swap_cols. intros F H. omon H. inversion H; subst s'. exact F. Qed.

Lemma fok_set_A s A : fok s -> fok (set_A s A).
Proof. auto. Qed.
Lemma fok_set_hd s h : fok s -> fok (set_hd s h).
Proof. auto. Qed.
Lemma fok_advance s r1 : fok s -> fok (advance s r1).
Proof. auto. Qed.

Lemma fok_fma_rows m s i ip sc s' : fok s -> fma_rows m s i ip sc = Ok s' -> fok s'.
Proof.
  unfold fma_rows. intros F H. oinvas H as s1 E1.
  assert (F1 : fok s1) by (eapply fok_record_fma; [exact F | exact E1 | discriminate]).
  destruct (ps_hd s1) as [h|].
  - omon H. destruct (_ <=? ip); [discriminate|]. omon H. inversion H; subst. exact F1.
  - omon H. inversion H; subst. exact F1.
Qed.

Lemma fok_fma_rows_with_pi m s i ip beta col pio s' : fok s -> beta <> 0 ->
  fma_rows_with_pi m s i ip beta col pio = Ok s' -> fok s'.
Proof.
  unfold fma_rows_with_pi. intros F Hz H. oinvas H as s1 E1.
  assert (F1 : fok s1) by (eapply fok_record_fma; [exact F | exact E1 | exact Hz]).
  destruct (ps_hd s1) as [h|].
  - oinvas H as first Ef. obind_inv H. destruct (first <=? ip).
    + omon H. inversion H; subst s'. exact F1.
    + omon H. inversion H; subst. exact F1.
  - omon H. inversion H; subst. exact F1.
Qed.

Lemma fok_swap_cols_all m s st dest col s' st' : fok s ->
  swap_cols_all m s st dest col = Ok (s', st') -> fok s'.
Proof.
  unfold swap_cols_all. intros F H. omon H. inversion H; subst.
  eapply fok_onX; [|eassumption]. eapply fok_ps_swap_cols; eassumption.
Qed.

Lemma fok_swap_cols_loop m it : forall r s st rem ff s' st' rem', fok s ->
  swap_cols_loop m it r s st rem ff = Ok (s', st', rem') -> fok s'.
Proof.
  induction it as [|[col value] t IH]; intros r s st rem ff s' st' rem' F H; cbn [swap_cols_loop] in H.
  - inversion H; subst; exact F.
  - destruct (value =? 0); [eapply IH; eassumption|].
    omon H. destruct (_ <=? col).
    + omon H. eapply IH; eassumption.
    + destruct (col =? ps_i s).
      * omon H. eapply IH; eassumption.
      * omon H.
        match goal with X : swap_cols_all _ _ _ _ _ = Ok _ |- _ =>
          pose proof (fok_swap_cols_all _ _ _ _ _ _ _ F X) as F1 end.
        destruct (_ =? 0); [inversion H; subst; exact F1|]. eapply IH; eassumption.
Qed.

Lemma fok_swap_substep m s st r s' st' : fok s ->
  first_phase_swap_columns_substep m s st r = Ok (s', st') -> fok s'.
Proof.
  unfold first_phase_swap_columns_substep. intros F H. omon H. destruct (r =? 1).
  - destruct (filter _ _) as [|[col v] t]; [discriminate|]. eapply fok_swap_cols_all; eassumption.
  - omon H. inversion H; subst. eapply fok_swap_cols_loop; eassumption.
Qed.

Lemma fok_eliminate_row m r temp tv row s st rops s' st' rops' : fok s ->
  eliminate_row m r temp tv row (s, st, rops) = Ok (s', st', rops') -> fok s'.
Proof.
  unfold eliminate_row. intros F H. omon H.
  match goal with X : fma_rows _ _ _ _ _ = Ok _ |- _ => pose proof (fok_fma_rows _ _ _ _ _ _ F X) as F1 end.
  destruct (r =? 1); [inversion H; subst; exact F1|]. omon H. inversion H; subst. exact F1.
Qed.

Lemma fok_eliminate_hdpc m nh temp tv r s s' : fok s ->
  eliminate_hdpc m nh temp tv r s = Ok s' -> fok s'.
Proof.
  unfold eliminate_hdpc. intros F H. destruct (0 <? nh); [|inversion H; subst; exact F]. omon H.
  revert H. apply (ofold_inv_in fok); [|exact F].
  intros row sa sb _ Fa Eb. unfold eliminate_hdpc_row in Eb.
  destruct (ps_hd sa) as [h|]; [|discriminate]. omon Eb.
  destruct (_ =? 0) eqn:El in Eb; [inversion Eb; subst; exact Fa|]. omon Eb.
  destruct (tv =? 0); [discriminate|]. apply N.eqb_neq in El.
  eapply fok_fma_rows_with_pi; [exact Fa | | exact Eb]. apply divN_nz. exact El.
Qed.

Lemma fok_first_phase_step m s st rops s' st' rops' : fok s ->
  first_phase_step m s st rops = Ok (Some (s', st', rops')) -> fok s'.
Proof.
  intros F H. apply first_phase_step_inv in H.
  destruct H as [(end_row & chosen & r & s1 & s2 & st1 & s3 & st2 & tv & pco & r1 & wu & ec & st3 & s4 & s5 &
    Eer & Esel & Hch & Esw & EX & Est & Esub & Etv & Epco & Er1 & Ewu & Eec & Ers & Eel & Ehd & ->) Evf].
  pose proof (fok_ps_swap_rows _ _ _ _ _ F Esw) as F1.
  pose proof (fok_onX _ _ _ _ F1 EX) as F2.
  pose proof (fok_swap_substep _ _ _ _ _ _ F2 Esub) as F3.
  assert (F4 : fok s4).
  { revert Eel. apply (ofold_inv_in (fun x : pstate * stats * list rowop => fok (fst (fst x)))
      (eliminate_row m r (ps_i s) tv) pco); [|exact F3].
    intros row [[sa sta] ra] [[sb stb] rb] _ Fa Eb. cbn [fst] in *. eapply fok_eliminate_row; eassumption. }
  cbn [fst] in F4.
  apply fok_advance. eapply fok_eliminate_hdpc; [exact F4 | exact Ehd].
Qed.

Lemma fok_first_phase_loop m fuel : forall s st rops s' rops', fok s ->
  first_phase_loop m fuel s st rops = Ok (Some (s', rops')) -> fok s'.
Proof.
  induction fuel as [|k IH]; intros s st rops s' rops' F H; cbn [first_phase_loop] in H.
  - destruct (ps_i s + ps_u s <? ps_L s); [discriminate|]. inversion H; subst; exact F.
  - destruct (ps_i s + ps_u s <? ps_L s); [|inversion H; subst; exact F].
    oinvas H as r Er. destruct r as [[[s1 st1] rops1]|]; [|discriminate].
    eapply IH; [|exact H]. eapply fok_first_phase_step; eassumption.
Qed.

Lemma fok_first_phase m s s' xo : fok s -> first_phase m s = Ok (Some (s', xo)) -> fok s'.
Proof.
  unfold first_phase. intros F H. omon H.
  match type of H with match ?a with _ => _ end = _ => destruct a as [[s1 rops]|]; [|discriminate] end.
  omon H. inversion H; subst. eapply fok_first_phase_loop; eassumption.
Qed.

(* ---- second phase ---- *)

Lemma fok_reduce_column m ro i s sub s' sub' : fok s ->
  reduce_column m ro i (s, sub) = Ok (Some (s', sub')) -> fok s'.
Proof.
  unfold reduce_column. intros F H. omon H.
  match goal with X : match ?a with Some _ => _ | None => _ end = Ok (?p, _) |- _ =>
    assert (K1 : fok p);
    [ destruct a as [j|]; [|inversion X; subst; exact F]; omon X; inversion X; subst;
      eapply fok_ps_swap_rows; eassumption | ] end.
  destruct (_ =? 0) in H; [discriminate|]. omon H.
  match goal with X : (if ?c then _ else _) = Ok (?p, _) |- _ =>
    assert (K2 : fok p);
    [ destruct c; [inversion X; subst; exact K1|]; omon X; inversion X; subst;
      eapply fok_record_mul; eassumption | ] end.
  inversion H; subst. clear H.
  match goal with X : ofold _ _ _ = Ok (s', sub') |- _ => revert X end.
  apply (ofold_inv_in (fun x : pstate * list (list N) => fok (fst x))); [|exact K2].
  intros j [sa suba] [sb subb] Hj Fa Eb. cbn [fst snd] in *. omon Eb.
  destruct (_ =? 0) eqn:Ez in Eb; [inversion Eb; subst; exact Fa|].
  omon Eb. inversion Eb; subst. apply N.eqb_neq in Ez.
  eapply fok_record_fma; [exact Fa | eassumption | exact Ez].
Qed.

Lemma fok_reduce_loop m ro cols : forall s sub s' sub', fok s ->
  reduce_loop m ro cols (s, sub) = Ok (Some (s', sub')) -> fok s'.
Proof.
  induction cols as [|i t IH]; intros s sub s' sub' F H; cbn [reduce_loop] in H.
  - inversion H; subst; auto.
  - oinvas H as r Er. destruct r as [[s1 sub1]|]; [|discriminate].
    pose proof (fok_reduce_column _ _ _ _ _ _ _ F Er) as F1. eapply IH; eassumption.
Qed.

Lemma fok_reduce m s hd ro co size s' sub' : fok s ->
  record_reduce_to_row_echelon m s hd ro co size = Ok (Some (s', sub')) -> fok s'.
Proof.
  unfold record_reduce_to_row_echelon. intros F H. omon H.
  eapply fok_reduce_loop; [exact F | exact H].
Qed.

Lemma fok_backwards s sub ro co size s' : fok s ->
  backwards_elimination s sub ro co size = Ok s' -> fok s'.
Proof.
  unfold backwards_elimination. intros F H. omon H. inversion H; subst.
  apply fok_set_A.
  match goal with X : ofold _ (rev _) s = Ok _ |- _ => revert X end.
  apply (ofold_inv_in fok); [|exact F].
  intros i sa sb Hi Fa. apply (ofold_inv_in fok); [|exact Fa].
  intros j sc sd Hj Fc Ed. omon Ed. destruct (_ =? 0) eqn:Ez in Ed; [inversion Ed; subst; exact Fc|].
  apply N.eqb_neq in Ez. eapply fok_record_fma; [exact Fc | exact Ed | exact Ez].
Qed.

Lemma fok_second_phase m s xo s' : fok s -> second_phase m s xo = Ok (Some s') -> fok s'.
Proof.
  unfold second_phase. intros F H. omon H.
  match goal with X : onX _ _ _ = Ok _ |- _ => pose proof (fok_onX _ _ _ _ F X) as F0 end.
  match type of H with match ?a with _ => _ end = _ => destruct a as [[s1 sub]|] eqn:Ea; [|discriminate] end.
  omon H. inversion H; subst.
  match goal with X : record_reduce_to_row_echelon _ _ _ _ _ _ = Ok _ |- _ =>
    pose proof (fok_reduce _ _ _ _ _ _ _ _ (fok_set_hd _ None F0) X) as F1 end.
  match goal with X : backwards_elimination _ _ _ _ _ = Ok _ |- _ =>
    pose proof (fok_backwards _ _ _ _ _ _ F1 X) as F2 end.
  exact F2.
Qed.

(* ---- third, fourth, fifth phase ---- *)

Lemma fok_third_phase m s xo s' : fok s -> third_phase m s xo = Ok s' -> fok s'.
Proof.
  unfold third_phase. intros F H. omon H. inversion H; subst.
  match goal with X : ofold _ (rev xo) s = Ok _ |- _ => revert X end.
  apply (ofold_inv_in fok); [|exact F].
  intros op sa sb _ Fa Eb. destruct op as [src dest|]; [|discriminate].
  eapply fok_fma_rows; eassumption.
Qed.

Lemma fok_fourth_phase m s s' : fok s -> fourth_phase m s = Ok s' -> fok s'.
Proof.
  unfold fourth_phase. intros F H. omon H. inversion H; subst.
  match goal with X : ofold _ _ s = Ok _ |- _ => revert X end.
  apply (ofold_inv_in fok); [|exact F].
  intros i sa sb _ Fa Eb. omon Eb. revert Eb. apply (ofold_inv_in fok); [|exact Fa].
  intros j sc sd _ Fc Ed. eapply fok_fma_rows; eassumption.
Qed.

Lemma fok_fifth_phase m s xo s' : fok s -> fifth_phase m s xo = Ok s' -> fok s'.
Proof.
  unfold fifth_phase. intros F H. omon H. inversion H; subst.
  match goal with X : ofold _ xo s = Ok _ |- _ => revert X end.
  apply (ofold_inv_in fok); [|exact F].
  intros op sa sb _ Fa Eb. destruct op as [src dest|]; [|discriminate]. destruct m.
  - eapply fok_record_fma; [exact Fa | exact Eb | discriminate].
  - eapply fok_fma_rows; eassumption.
Qed.

(* ---- the whole run ---- *)

Lemma fok_execute m s ops : fok s -> execute m s = Ok (Some ops) -> forallb fma_ok ops = true.
Proof.
  unfold execute. intros F H. omon H.
  match type of H with match ?a with _ => _ end = _ => destruct a as [[s1 xo]|]; [|discriminate] end.
  omon H.
  match type of H with match ?a with _ => _ end = _ => destruct a as [s2|]; [|discriminate] end.
  omon H. inversion H; subst.
  assert (F5 : fok a1).
  { eapply fok_fifth_phase; [|eassumption]. eapply fok_fourth_phase; [|eassumption].
    eapply fok_third_phase; [|eassumption]. eapply fok_second_phase; [|eassumption].
    eapply fok_first_phase; eassumption. }
  unfold fok in F5. rewrite forallb_app. cbn [forallb fma_ok]. rewrite andb_true_r.
  rewrite forallb_forall in *. intros x Hx. apply F5. apply in_rev. exact Hx.
Qed.

Lemma fok_new_common m A L P s : ps_new_common m A L P = Ok s -> fok s.
Proof. unfold ps_new_common. intros H. omon H. inversion H; subst. reflexivity. Qed.

Lemma fok_new m S H A hdpc L P s : ps_new m S H A hdpc L P = Ok s -> fok s.
Proof.
  unfold ps_new. intros E. omon E. inversion E; subst s. apply fok_set_hd.
  match goal with X : ofold _ _ _ = Ok _ |- _ => revert X end.
  apply (ofold_inv_in fok); [|eapply fok_new_common; eassumption].
  intros i sa sb _ Fa Eb. omon Eb. eapply fok_onX; [|exact Eb]. eapply fok_ps_swap_rows; eassumption.
Qed.

Theorem pi_run_fma_ok m S H A hdpc L P ops : bytes_mat A -> bytes_mat hdpc ->
  pi_run m S H A hdpc L P = Ok (Some ops) -> forallb fma_ok ops = true.
Proof.
  unfold pi_run. intros _ _ E. omon E. eapply fok_execute; [|exact E]. eapply fok_new; eassumption.
Qed.

Theorem pi_run_no_hdpc_fma_ok m A L P ops : bytes_mat A ->
  pi_run_no_hdpc m A L P = Ok (Some ops) -> forallb fma_ok ops = true.
Proof.
  unfold pi_run_no_hdpc. intros _ E. omon E. eapply fok_execute; [|exact E]. eapply fok_new_common; eassumption.
Qed.
