(* first_phase_swap_columns_substep never panics (given that exchanging two columns of V does not). *)
From Coq Require Import NArith List Bool Lia Arith.
From RQ Require Import Base.Outcome Base.Ints Base.ListX Model.Octet Model.CMatrix Model.Slab
  Spec.Linear Proofs.OutcomeLemmas Model.PiSolver
  Proofs.PiSolverBase Proofs.PiSolverStruct Proofs.PiSolverOps Proofs.PiSolverG Proofs.PiSolverInvDefs
  Proofs.PiSolverSwapCols.
Import ListNotations.
Open Scope N_scope.

(* ---------- reads of an existing row succeed ---------- *)
Lemma row_exists A i : lenN (rowN A i) <> 0 -> (N.to_nat i < length A)%nat.
Proof.
  intros Hl. destruct (Nat.ltb_spec (N.to_nat i) (length A)) as [L|L]; [exact L|].
  exfalso. apply Hl. unfold rowN. rewrite nth_overflow by exact L. reflexivity.
Qed.

Lemma bm_get_ok A i j W : lenN (rowN A i) = W -> j < W -> bm_get A i j = Ok (cell A i j).
Proof.
  intros Hl Hj. unfold bm_get.
  assert (L : (N.to_nat i < length A)%nat) by (apply row_exists; lia).
  rewrite (getN_ok A i [] L). cbn [obind]. fold (rowN A i).
  rewrite (getN_ok (rowN A i) j 0); [reflexivity|]. unfold lenN in Hl. lia.
Qed.

Lemma row_iter_ok A i s e : lenN (rowN A i) <> 0 -> e <= lenN (rowN A i) ->
  exists it, bm_row_iter A i s e = Ok it.
Proof.
  intros Hne He. unfold bm_row_iter.
  rewrite (getN_ok A i [] (row_exists _ _ Hne)). cbn [obind]. fold (rowN A i).
  apply N.leb_le in He. rewrite He, orb_true_r. eexists; reflexivity.
Qed.

(* ---------- a range with fewer ones than cells holds a zero ---------- *)
Lemma ones_lt_zero f : (forall j, f j = 0 \/ f j = 1) -> forall n a, ones f a n < N.of_nat n ->
  exists z, a <= z < a + N.of_nat n /\ f z = 0.
Proof.
  intros Hb. induction n as [|n IH]; intros a H; cbn [ones] in H; [lia|].
  destruct (Hb a) as [Z|O].
  - exists a. split; [lia | exact Z].
  - rewrite O in H. change (b1 1) with 1 in H.
    destruct (IH (a + 1)) as [z [Hz Hfz]]; [lia|]. exists z. split; [lia | exact Hfz].
Qed.

Lemma onesR_lt_zero f a b : (forall j, f j = 0 \/ f j = 1) -> onesR f a b < b - a ->
  exists z, a <= z < b /\ f z = 0.
Proof.
  intros Hb H. unfold onesR in H.
  destruct (ones_lt_zero f Hb (N.to_nat (b - a)) a) as [z [Hz Hfz]]; [lia|].
  exists z. split; [lia | exact Hfz].
Qed.

(* ---------- the filter of the r = 1 branch is non-empty ---------- *)
Lemma filter_nonempty (f : N -> N) : forall n c0, ones f c0 n <> 0 ->
  filter (fun p : N * N => negb (snd p =? 0)) (map (fun j => (j, f j)) (seqN_from n c0)) <> [].
Proof.
  induction n as [|n IH]; intros c0 H; cbn [ones] in H; [congruence|].
  cbn [seqN_from map filter snd]. destruct (N.eqb_spec (f c0) 0) as [Hz|Hnz]; cbn [negb].
  - rewrite <- N.add_1_r. apply IH. rewrite Hz in H. change (b1 0) with 0 in H. lia.
  - discriminate.
Qed.

(* ---------- find_dest: totality ---------- *)
Lemma find_dest_total m A i W : lenN (rowN A i) = W ->
  forall fuel d z, fuel = S (N.to_nat d) -> d < W -> z <= d -> cell A i z = 0 ->
  exists dest, find_dest m fuel A i d = Ok dest.
Proof.
  intros Hl. induction fuel as [|k IH]; intros d z Hf Hd Hz Hc; [discriminate|].
  cbn [find_dest]. rewrite (bm_get_ok A i d W Hl Hd). cbn [obind].
  destruct (N.eqb_spec (cell A i d) 0) as [E|E]; [eexists; reflexivity|].
  assert (z <> d) by congruence.
  rewrite (usub_ok m d 1) by lia. cbn [obind].
  apply (IH (d - 1) z); [lia | lia | lia | exact Hc].
Qed.

(* ---------- the loop ---------- *)
Section LoopTotal.
Variables (i W u r : N) (f0 : N -> N).
Hypothesis HuW : u <= W.
Hypothesis HiV : i < W - u.
Hypothesis Hr1 : 1 <= r.
Hypothesis Hf0 : forall j, f0 j = 0 \/ f0 j = 1.
Hypothesis Hcnt0 : onesR f0 i (W - u) = r.
Variable m : mode.
Variable R : pstate -> stats -> Prop.
Hypothesis HR : forall s1 st1 a b, R s1 st1 -> ps_i s1 = i -> ps_u s1 = u -> ps_W s1 = W ->
  i <= a < W - u -> i <= b < W - u ->
  exists s2 st2, swap_cols_all m s1 st1 a b = Ok (s2, st2) /\ R s2 st2.

Local Notation ve := (W - u).
Local Notation lim := (W - u - (r - 1)).
Local Notation linv := (linv i W u r f0).

(* when a one of F is met after the first one, the tail T holds a zero *)
Lemma tail_zero c0 s rem : linv c0 s rem true -> i < c0 < lim -> f0 c0 = 1 ->
  exists z, lim <= z < ve /\ cell (ps_A s) i z = 0.
Proof.
  intros I Hc Hv. pose proof (r_le i W u r f0 Hcnt0) as Hrl. pose proof (live_bin _ _ _ _ _ _ _ _ _ I) as Hb.
  assert (Hi1 : live s i = 1) by (apply (li_ff _ _ _ _ _ _ _ _ _ I); reflexivity).
  assert (Hlc : live s c0 = 1) by (rewrite (li_snap _ _ _ _ _ _ _ _ _ I) by lia; exact Hv).
  pose proof (li_cnt _ _ _ _ _ _ _ _ _ I) as Hcnt.
  rewrite (onesR_split (live s) i (i + 1) ve), (onesR_split (live s) (i + 1) c0 ve),
    (onesR_split (live s) c0 (c0 + 1) ve), (onesR_split (live s) (c0 + 1) lim ve) in Hcnt by lia.
  rewrite !onesR_one, Hlc, Hi1 in Hcnt. change (b1 1) with 1 in Hcnt.
  destruct (onesR_lt_zero (live s) lim ve Hb) as [z [Hz Hfz]]; [lia|].
  exists z. split; [exact Hz|]. unfold live in Hfz. rewrite (li_i _ _ _ _ _ _ _ _ _ I) in Hfz. exact Hfz.
Qed.

Lemma loop_total : forall n c0 s st rem ff,
  c0 + N.of_nat n = ve -> i <= c0 -> linv c0 s rem ff -> R s st ->
  exists s' st', swap_cols_loop m (map (fun j => (j, f0 j)) (seqN_from n c0)) r s st rem ff = Ok (s', st', 0).
Proof.
  pose proof (r_le i W u r f0 Hcnt0) as Hrl.
  induction n as [|n IH]; intros c0 s st rem ff Hn Hc I HRs.
  - cbn [seqN_from map swap_cols_loop]. exists s, st.
    pose proof (li_rem _ _ _ _ _ _ _ _ _ I) as Hrem. replace c0 with ve in Hrem by lia.
    rewrite Hcnt0 in Hrem. assert (rem = 0) by lia. subst rem. reflexivity.
  - cbn [seqN_from map swap_cols_loop]. rewrite <- N.add_1_r.
    assert (Hc' : i <= c0 < ve) by lia.
    destruct (N.eqb_spec (f0 c0) 0) as [Hz|Hnz].
    { apply (IH (c0 + 1) s st rem ff); [lia | lia | apply step_skip; assumption | exact HRs]. }
    assert (Hv : f0 c0 = 1) by (destruct (Hf0 c0); [contradiction | assumption]).
    destruct (rem_pos _ _ _ _ _ HuW HiV Hr1 Hcnt0 _ _ _ _ I Hc' Hv) as [Hrem _].
    rewrite (li_W _ _ _ _ _ _ _ _ _ I), (li_u _ _ _ _ _ _ _ _ _ I), (li_i _ _ _ _ _ _ _ _ _ I).
    rewrite (usub_ok m W u HuW). cbn [obind].
    rewrite (usub_ok m r 1 Hr1). cbn [obind].
    rewrite (usub_ok m ve (r - 1)) by lia. cbn [obind].
    destruct (N.leb_spec lim c0) as [Hl|Hl].
    { rewrite (usub_ok m rem 1 Hrem). cbn [obind].
      apply (IH (c0 + 1) s st (rem - 1) ff); [lia | lia | apply step_tail; assumption | exact HRs]. }
    destruct (N.eqb_spec c0 i) as [->|Hci].
    { rewrite (usub_ok m rem 1 Hrem). cbn [obind].
      apply (IH (i + 1) s st (rem - 1) true); [lia | lia | apply (step_first _ _ _ _ _ HuW HiV Hr1 Hcnt0 _ _ ff); assumption | exact HRs]. }
    assert (Hdst : exists dest,
      (if negb ff then Ok i
       else d0 <- usub m ve 1 ;; find_dest m (S (N.to_nat d0)) (ps_A s) i d0) = Ok dest /\
      ((dest = i /\ live s i = 0) \/ (lim <= dest < ve /\ live s dest = 0 /\ live s i = 1))).
    { destruct ff; cbn [negb].
      - rewrite (usub_ok m ve 1) by lia. cbn [obind].
        destruct (tail_zero c0 s rem I) as [z [Hz Hcz]]; [lia | exact Hv |].
        destruct (find_dest_total m (ps_A s) i W (li_len _ _ _ _ _ _ _ _ _ I) (S (N.to_nat (ve - 1))) (ve - 1) z)
          as [dest Ed]; [reflexivity | lia | lia | exact Hcz |].
        exists dest. split; [exact Ed|]. right.
        apply (dest_in_tail _ _ _ _ _ HuW HiV Hr1 Hcnt0 m c0 s rem dest I); [lia | exact Hv | exact Ed].
      - exists i. split; [reflexivity|]. left. split; [reflexivity|].
        destruct (live_bin _ _ _ _ _ _ _ _ _ I i) as [Z|O]; [exact Z|].
        apply (li_ff _ _ _ _ _ _ _ _ _ I) in O. discriminate. }
    destruct Hdst as [dest [Ed Hd]]. rewrite Ed. cbn [obind].
    assert (Hdest : i <= dest < ve) by (destruct Hd as [[-> _]|[? _]]; lia).
    destruct (HR s st dest c0 HRs (li_i _ _ _ _ _ _ _ _ _ I) (li_u _ _ _ _ _ _ _ _ _ I) (li_W _ _ _ _ _ _ _ _ _ I))
      as [s1 [st1 [Esw HR1]]]; [exact Hdest | lia |].
    rewrite Esw. cbn [obind].
    rewrite (usub_ok m rem 1 Hrem). cbn [obind].
    destruct (step_swap _ _ _ _ _ HuW HiV Hr1 Hcnt0 m c0 s st rem ff dest s1 st1 I) as [_ I1];
      [lia | exact Hv | exact Esw | exact Hd |].
    destruct (N.eqb_spec (rem - 1) 0) as [Hr0|Hr0].
    + exists s1, st1. rewrite Hr0. reflexivity.
    + apply (IH (c0 + 1) s1 st1 (rem - 1) true); [lia | lia | exact I1 | exact HR1].
Qed.

End LoopTotal.

(* ---------- the substep ---------- *)
Lemma substep_total m (R : pstate -> stats -> Prop) s st r :
  (forall s1 st1 a b, R s1 st1 -> ps_i s1 = ps_i s -> ps_u s1 = ps_u s -> ps_W s1 = ps_W s ->
     ps_i s <= a < ps_W s - ps_u s -> ps_i s <= b < ps_W s - ps_u s ->
     exists s2 st2, swap_cols_all m s1 st1 a b = Ok (s2, st2) /\ R s2 st2) ->
  R s st ->
  ps_u s <= ps_W s -> ps_i s < ps_W s - ps_u s -> 1 <= r ->
  ps_i s < lenN (ps_A s) ->
  lenN (rowN (ps_A s) (ps_i s)) = ps_W s ->
  bin_row (rowN (ps_A s) (ps_i s)) ->
  cnt (rowN (ps_A s) (ps_i s)) (ps_i s) (ps_W s - ps_u s) = r ->
  exists s' st', first_phase_swap_columns_substep m s st r = Ok (s', st').
Proof.
  intros HR HRs HuW HiV Hr1 HiA Hlen Hbin Hcnt.
  set (f0 := nthf (rowN (ps_A s) (ps_i s))).
  assert (Hf0 : forall j, f0 j = 0 \/ f0 j = 1) by (apply bin_nthf; exact Hbin).
  assert (Hcnt0 : onesR f0 (ps_i s) (ps_W s - ps_u s) = r).
  { unfold f0. rewrite <- cnt_onesR; [exact Hcnt | lia | lia]. }
  unfold first_phase_swap_columns_substep.
  rewrite (usub_ok m _ _ HuW). cbn [obind].
  destruct (row_iter_ok (ps_A s) (ps_i s) (ps_i s) (ps_W s - ps_u s)) as [it Eit]; [lia | lia |].
  rewrite Eit. cbn [obind].
  apply row_iter_snapshot in Eit; [| lia | lia]. fold f0 in Eit. subst it.
  destruct (N.eqb_spec r 1) as [->|Hr].
  - destruct (filter _ _) as [|[col v] t] eqn:Ef.
    + exfalso. revert Ef. apply filter_nonempty. unfold onesR in Hcnt0. rewrite Hcnt0. discriminate.
    + apply filter_first in Ef. destruct Ef as [Hcol _].
      destruct (HR s st (ps_i s) col HRs eq_refl eq_refl eq_refl) as [s2 [st2 [E _]]]; [lia | lia |].
      exists s2, st2. exact E.
  - rewrite (bm_get_ok (ps_A s) (ps_i s) (ps_i s) (ps_W s) Hlen) by lia. cbn [obind].
    set (v := cell (ps_A s) (ps_i s) (ps_i s)).
    assert (I0 : linv (ps_i s) (ps_W s) (ps_u s) r f0 (ps_i s) s r (v =? 1)).
    { constructor; try reflexivity; try assumption.
      - intros j Hj _. lia.
      - subst v. fold (live s (ps_i s)). split; [apply N.eqb_eq | intros E; apply N.eqb_eq; exact E].
      - rewrite onesR_nil by lia. lia. }
    destruct (loop_total (ps_i s) (ps_W s) (ps_u s) r f0 HuW HiV Hr1 Hf0 Hcnt0 m R HR
                (N.to_nat (ps_W s - ps_u s - ps_i s)) (ps_i s) s st r (v =? 1)) as [s' [st' El]];
      [lia | apply N.le_refl | exact I0 | exact HRs |].
    rewrite El. cbn [obind]. rewrite N.eqb_refl. cbn [assert_ok obind].
    exists s', st'. reflexivity.
Qed.
