(* Shared definitions for the invariants of the first phase (Proofs/PiSolverStats.v,
   PiSolverSwapCols.v, PiSolverPhase1.v). *)
From Coq Require Import NArith List Bool Lia Arith.
From RQ Require Import Base.Outcome Base.Ints Base.ListX Model.Octet Model.CMatrix Model.Slab
  Spec.Linear Proofs.OutcomeLemmas Model.PiSolver
  Proofs.PiSolverBase Proofs.PiSolverStruct Proofs.PiSolverOps Proofs.PiSolverG.
Import ListNotations.
Open Scope N_scope.

(* number of ones of a row between columns s (inclusive) and e (exclusive) *)
Definition cnt (row : list N) (s e : N) : N := count1 (subl row s e).

Definition bin_row (r : list N) : Prop := Forall (fun x => x = 0 \/ x = 1) r.
Definition bin_mat (A : list (list N)) : Prop := Forall bin_row A.

(* an Mn x Wn matrix *)
Definition dims (A : list (list N)) (Mn Wn : N) : Prop :=
  lenN A = Mn /\ Forall (fun r => lenN r = Wn) A.

(* the selection statistics describe V = rows [i, er) x columns [sc, ec) of A:
   ones_per_row is exact there, rows_with_single_one lists (without repetition) only rows >= i
   whose ones_per_row entry is 1.  (ones_histogram, original_degree and the component graph influence
   only WHICH admissible row is chosen.) *)
Record st_inv (A : bmat) (st : stats) (i er sc ec : N) : Prop := mkStInv {
  si_sc : st_sc st = sc;
  si_ec : st_ec st = ec;
  si_sr : st_sr st = i;
  si_len : lenN (st_opr st) = lenN A;
  si_opr : forall k, i <= k < er -> nth (N.to_nat k) (st_opr st) 0 = cnt (rowN A k) sc ec;
  si_single : forall x, In x (st_single st) -> i <= x /\ nth (N.to_nat x) (st_opr st) 0 = 1;
  si_nodup : NoDup (st_single st) }.

(* the column exchanges performed by first_phase_swap_columns_substep, in order *)
Fixpoint swaps_all (m : mode) (s : pstate) (st : stats) (sw : list (N * N)) : outcome (pstate * stats) :=
  match sw with
  | [] => Ok (s, st)
  | (a, b) :: t =>
      match swap_cols_all m s st a b with
      | Ok (s1, st1) => swaps_all m s1 st1 t
      | Panic c => Panic c
      end
  end.

(* the operations of the x_elimination_ops list: additions between two different rows above i *)
Definition xo_lt (i : N) (op : rowop) : Prop :=
  match op with RAdd a b => a < i /\ b < i /\ a <> b | RSwap _ _ => False end.
