(* SourceBlockEncodingPlan::generate(K) in the model: pi_plan. *)
From Coq Require Import NArith List Bool Lia Arith.
From RQ Require Import Base.Outcome Base.Ints Base.ListX Model.Octet Model.FieldFast Model.SysConst
  Model.CMatrix Model.Slab Spec.Linear Proofs.OutcomeLemmas Model.PiSolver
  Proofs.C15Sweep1 Proofs.CMatrixProofs
  Proofs.LinearInst Proofs.PiSolverBase Proofs.PiSolverOps Proofs.PiSolverG Proofs.PiSolverInvDefs
  Proofs.PiSolverSound Proofs.PiSolverSystem Proofs.PiSolverExamples.
Import ListNotations.
Open Scope N_scope.

Lemma spK_small K sp : K <= 56403 -> sys_params K = Ok sp -> spK sp < 65536.
Proof.
  intros HK E. destruct (sys_params_ok K HK) as (K' & J & S & H & W & P1 & Hr & Hp & _ & E').
  rewrite E in E'. injection E' as ->. cbn [spK].
  pose proof (ro_L _ _ _ _ _ _ (row_facts K' J S H W P1 Hr Hp)). lia.
Qed.

Theorem pi_plan_sound m K sp bin hd v :
  K <= 56403 -> sys_params K = Ok sp ->
  generate_constraint_matrix m K (seqN 0 (spK sp)) = Ok (bin, hd) ->
  pi_plan m K = Some v ->
  exists body ord, v = flat_ops (body ++ [SReorder ord]) /\
    check_cert fmul (N.to_nat (spL sp)) (full_matrix (spS sp) (spH sp) bin hd)
               (map sym_of body) (map N.to_nat ord) = true /\
    NoDup (map N.to_nat ord) /\ length ord = N.to_nat (spL sp).
Proof.
  intros HK Esp Eg Ep. apply unpanic_some in Ep.
  unfold pi_plan_run in Ep. rewrite Esp in Ep. cbn [obind] in Ep.
  destruct (pi_system_run m K (seqN 0 (spK sp))) as [[ops|]|c] eqn:Er; cbn [obind] in Ep; try discriminate.
  inversion Ep; subst v.
  pose proof (spK_small _ _ HK Esp) as Hk.
  assert (F : Forall (fun x => x < 2 ^ 32) (seqN 0 (spK sp))).
  { apply Forall_forall. intros x Hx. apply seqN_in in Hx. change (2 ^ 32) with 4294967296. lia. }
  assert (Ln : lenN (seqN 0 (spK sp)) < 2 ^ 31).
  { unfold lenN. rewrite seqN_length. change (2 ^ 31) with 2147483648. lia. }
  destruct (pi_system_sound m K _ sp bin hd ops HK F Ln Esp Eg Er) as (body & ord & E1 & E2 & E3 & E4).
  exists body, ord. subst ops. repeat split; assumption.
Qed.

(* ---- the option-valued entry points (a panic counts as None) ---- *)
Theorem pi_solve_ops_valid : forall m S H A hdpc L P ops,
  bytes_mat A -> bytes_mat hdpc ->
  pi_solve m S H A hdpc L P = Some ops ->
  exists body ord, ops = body ++ [SReorder ord] /\
    forallb (sop_valid (lenN A)) body = true /\
    forallb (op_valid (length A)) (map sym_of body) = true.
Proof.
  intros m S H A hdpc L P ops BA Bh E. apply pi_solve_some in E.
  destruct (pi_run_ops_valid _ _ _ _ _ _ _ _ BA Bh E) as (body & ord & E1 & E2).
  exists body, ord. split; [exact E1|]. split; [exact E2|].
  rewrite forallb_forall in *. intros o Ho. apply in_map_iff in Ho. destruct Ho as (so & <- & Hso).
  replace (length A) with (N.to_nat (lenN A)) by (unfold lenN; lia). apply sop_valid_op_valid, E2, Hso.
Qed.

Theorem pi_solve_sound : forall m S H A hdpc L P ops M W,
  dims A M W -> 0 < M -> M < 4294967296 -> bin_mat A -> dims hdpc H W -> bytes_mat hdpc ->
  S + 2 * H <= M -> L = W -> P <= W -> W < 65536 ->
  pi_solve m S H A hdpc L P = Some ops ->
  exists body ord, ops = body ++ [SReorder ord] /\
    check_cert fmul (N.to_nat W) (full_matrix S H A hdpc) (map sym_of body) (map N.to_nat ord) = true /\
    NoDup (map N.to_nat ord) /\ length ord = N.to_nat W.
Proof.
  intros m S H A hdpc L P ops M W D HM0 M32 Bin Dh Bh HS HL HP W16 E. apply pi_solve_some in E.
  exact (pi_run_sound _ _ _ _ _ _ _ _ _ _ D HM0 M32 Bin Dh Bh HS HL HP W16 E).
Qed.

Theorem pi_solve_no_hdpc_sound : forall m A L P ops M W,
  dims A M W -> 0 < M -> M < 4294967296 -> bin_mat A -> L = W -> P <= W -> W < 65536 ->
  pi_solve_no_hdpc m A L P = Some ops ->
  exists body ord, ops = body ++ [SReorder ord] /\
    check_cert fmul (N.to_nat W) A (map sym_of body) (map N.to_nat ord) = true /\
    NoDup (map N.to_nat ord) /\ length ord = N.to_nat W.
Proof.
  intros m A L P ops M W D HM0 M32 Bin HL HP W16 E. apply pi_solve_no_hdpc_some in E.
  exact (pi_run_no_hdpc_sound _ _ _ _ _ _ _ D HM0 M32 Bin HL HP W16 E).
Qed.

Theorem pi_solve_sound_solution : forall m S H A hdpc L P ops M W,
  dims A M W -> 0 < M -> M < 4294967296 -> bin_mat A -> dims hdpc H W -> bytes_mat hdpc ->
  S + 2 * H <= M -> L = W -> P <= W -> W < 65536 ->
  pi_solve m S H A hdpc L P = Some ops ->
  exists body ord, ops = body ++ [SReorder ord] /\
    injective fmul (N.to_nat W) (full_matrix S H A hdpc) /\
    forall T C D, wf_mat T C -> length C = N.to_nat W ->
      solves fmul T (full_matrix S H A hdpc) C D ->
      read_out (map N.to_nat ord) (apply_ops fmul (map sym_of body) D) = C.
Proof.
  intros m S H A hdpc L P ops M W D HM0 M32 Bin Dh Bh HS HL HP W16 E.
  pose proof E as E'. apply pi_solve_some in E'.
  destruct (hdpc_init _ _ _ _ _ _ _ _ _ _ D HM0 Bin Dh Bh HS HL HP E') as (_ & _ & _ & Wf & _).
  destruct (pi_solve_sound _ _ _ _ _ _ _ _ _ _ D HM0 M32 Bin Dh Bh HS HL HP W16 E) as (body & ord & E1 & Hc & _).
  exists body, ord. split; [exact E1|]. split.
  - exact (cert_injective_gf _ _ _ _ Hc Wf).
  - intros T C Dd HC HlC Hs. exact (cert_sound_unique_gf _ _ _ _ _ _ _ Hc Wf HC HlC Hs).
Qed.
