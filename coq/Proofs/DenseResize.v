(* Proofs about Model/DenseMatrix.v, part 3: resize (the in-place compaction loop). *)
From Coq Require Import NArith ZArith List Bool Lia Arith ZifyBool ZifyN.
From RQ Require Import Base.Outcome Base.Ints Base.ListX Spec.BitMatrix Model.DenseMatrix
  Proofs.DenseBits Proofs.DenseMatrixProofs.
Import ListNotations.
Open Scope N_scope.

Lemma mod_qt q n t : t < n -> (q * n + t) mod n = t.
Proof.
  intros H. rewrite N.add_comm, N.mod_add by lia. apply N.mod_small. exact H.
Qed.

Lemma Forall_firstn {A} (P : A -> Prop) n l : Forall P l -> Forall P (firstn n l).
Proof.
  intros H. revert n. induction H as [|x t Hx Ht IH]; intros [|n]; cbn [firstn]; constructor; auto.
Qed.

Lemma eword_firstn l n p : p < N.of_nat n -> eword (firstn n l) p = eword l p.
Proof. intros H. unfold eword. apply nth_firstn'. lia. Qed.

(* State of the loop after copying q full rows and t words of the next one:
   dest = q * nrw + t, src = q * orw + t. *)
Lemma resize_loop_ok els0 nh nrw orw :
  0 < nrw -> nrw < orw -> nh * orw <= N.of_nat (length els0) -> Forall lt64 els0 ->
  forall (k : nat) q t cur,
    t < nrw -> q * nrw + t + N.of_nat k = nh * nrw ->
    length cur = length els0 -> Forall lt64 cur ->
    (forall q' t', t' < nrw -> q' * nrw + t' < q * nrw + t ->
                   eword cur (q' * nrw + t') = eword els0 (q' * orw + t')) ->
    (forall p, q * nrw + t <= p -> eword cur p = eword els0 p) ->
    exists els',
      resize_loop k cur (q * orw + t) (q * nrw + t) nrw (orw - nrw) = Ok (els', nh * orw) /\
      length els' = length els0 /\ Forall lt64 els' /\
      forall q' t', t' < nrw -> q' < nh -> eword els' (q' * nrw + t') = eword els0 (q' * orw + t').
Proof.
  intros Hn0 Hno Hlen0 Hall0.
  induction k as [|k IH]; intros q t cur Ht Hk Hlen Hall Hlow Hhigh; cbn [resize_loop].
  - cbn [N.of_nat] in Hk. rewrite N.add_0_r in Hk.
    destruct (pos_inj nrw q t nh 0 Ht Hn0) as [-> ->]; [lia|].
    exists cur. rewrite N.add_0_r. split; [reflexivity|]. split; [exact Hlen|]. split; [exact Hall|].
    intros q' t' Ht' Hq'. apply Hlow; [exact Ht'|].
    pose proof (row_mul_le q' nh nrw Hq'). lia.
  - (* q < nh *)
    assert (Hq : q < nh).
    { destruct (N.lt_ge_cases q nh) as [L|L]; [exact L|].
      assert (nh * nrw <= q * nrw) by (apply N.mul_le_mono_r; exact L). lia. }
    pose proof (row_mul_le q nh orw Hq) as Hm1.
    pose proof (row_mul_le q nh nrw Hq) as Hm2.
    assert (Hqq : q * nrw <= q * orw) by (apply N.mul_le_mono_l; lia).
    assert (Hnn : nh * nrw <= nh * orw) by (apply N.mul_le_mono_l; lia).
    rewrite vget_ok by lia. cbn [obind].
    rewrite vset_ok by lia. cbn [obind].
    unfold rem_ok. replace (nrw =? 0) with false by (symmetry; apply N.eqb_neq; lia). cbn [obind].
    rewrite (Hhigh (q * orw + t)) by lia.
    set (cur' := upd cur (N.to_nat (q * nrw + t)) (eword els0 (q * orw + t))).
    assert (Hlen' : length cur' = length els0) by (unfold cur'; rewrite upd_length; exact Hlen).
    assert (Hall' : Forall lt64 cur') by (apply Forall_upd; [exact Hall | apply eword_lt64; exact Hall0]).
    assert (Hcur' : forall p, eword cur' p = if p =? q * nrw + t then eword els0 (q * orw + t) else eword cur p).
    { intros p. unfold cur'. apply eword_upd. lia. }
    destruct (N.eq_dec (t + 1) nrw) as [Et|Et].
    + (* row finished *)
      replace (q * nrw + t + 1) with ((q + 1) * nrw + 0) by lia.
      rewrite mod_qt by lia. rewrite N.eqb_refl.
      replace (q * orw + t + 1 + (orw - nrw)) with ((q + 1) * orw + 0) by lia.
      apply (IH (q + 1) 0 cur'); try assumption; try lia.
      * intros q' t' Ht' Hlt. rewrite Hcur'.
        destruct (q' * nrw + t' =? q * nrw + t) eqn:E.
        -- apply N.eqb_eq in E. destruct (pos_inj nrw q' t' q t Ht' Ht E) as [-> ->]. reflexivity.
        -- apply N.eqb_neq in E. apply Hlow; [exact Ht' | lia].
      * intros p Hp. rewrite Hcur'.
        replace (p =? q * nrw + t) with false by (symmetry; apply N.eqb_neq; lia).
        apply Hhigh. lia.
    + replace (q * nrw + t + 1) with (q * nrw + (t + 1)) by lia.
      rewrite mod_qt by lia.
      replace (t + 1 =? 0) with false by (symmetry; apply N.eqb_neq; lia).
      replace (q * orw + t + 1) with (q * orw + (t + 1)) by lia.
      apply (IH q (t + 1) cur'); try assumption; try lia.
      * intros q' t' Ht' Hlt. rewrite Hcur'.
        destruct (q' * nrw + t' =? q * nrw + t) eqn:E.
        -- apply N.eqb_eq in E. destruct (pos_inj nrw q' t' q t Ht' Ht E) as [-> ->]. reflexivity.
        -- apply N.eqb_neq in E. apply Hlow; [exact Ht' | lia].
      * intros p Hp. rewrite Hcur'.
        replace (p =? q * nrw + t) with false by (symmetry; apply N.eqb_neq; lia).
        apply Hhigh. lia.
Qed.

Lemma ceil_div_mono a b : a <= b -> ceil_div a 64 <= ceil_div b 64.
Proof. intros H. rewrite !ceil_div_64. lia. Qed.

Lemma dm_resize_ok m nh nw :
  dm_inv m -> nh <= height m -> nw <= width m -> (0 < nw \/ nh = 0 \/ width m = 0) ->
  exists m', dm_resize m nh nw = Ok m' /\ dm_inv m' /\ height m' = nh /\ width m' = nw /\
    forall r c, r < nh -> c < nw -> dm_bit m' r c = dm_bit m r c.
Proof.
  intros Hinv Hnh Hnw Hz. pose proof Hinv as [Hl Hall].
  unfold dm_resize.
  replace (nh <=? height m) with true by (symmetry; apply N.leb_le; exact Hnh).
  replace (nw <=? width m) with true by (symmetry; apply N.leb_le; exact Hnw).
  cbn [negb].
  set (orw := row_word_width m).
  set (nrw := row_word_width (mkdm nh nw (elements m))).
  assert (Eo : orw = ceil_div (width m) 64) by reflexivity.
  assert (En : nrw = ceil_div nw 64) by reflexivity.
  assert (Hno : nrw <= orw) by (rewrite Eo, En; apply ceil_div_mono; exact Hnw).
  assert (Hh1 : nh * orw <= height m * orw) by (apply N.mul_le_mono_r; exact Hnh).
  assert (Hh2 : nh * nrw <= nh * orw) by (apply N.mul_le_mono_l; exact Hno).
  (* what is needed of the vector produced by the (optional) compaction *)
  assert (Hcore : exists els,
    (if 0 <? orw - nrw
     then obind (resize_loop (N.to_nat (nh * nrw)) (elements m) 0 0 nrw (orw - nrw))
            (fun r => let '(els, src) := r in
                      obind (assert_ok (src =? nh * orw)) (fun _ => Ok els))
     else Ok (elements m)) = Ok els /\
    length els = length (elements m) /\ Forall lt64 els /\
    forall q t, t < nrw -> q < nh -> eword els (q * nrw + t) = eword (elements m) (q * orw + t)).
  { destruct (0 <? orw - nrw) eqn:E; [apply N.ltb_lt in E | apply N.ltb_ge in E].
    - destruct (N.eq_dec nrw 0) as [Z|NZ].
      + (* new width 0: the loop does not run, the assert needs nh = 0 *)
        assert (nh = 0).
        { destruct Hz as [Hz|[Hz|Hz]]; [| exact Hz |].
          - rewrite En, ceil_div_64 in Z. lia.
          - rewrite Eo, Hz in E. cbn in E. lia. }
        subst nh. rewrite Z. cbn [N.mul N.to_nat resize_loop obind]. cbn [N.eqb assert_ok obind].
        exists (elements m). split; [reflexivity|]. split; [reflexivity|]. split; [exact Hall|].
        intros q t Ht Hq. lia.
      + destruct (resize_loop_ok (elements m) nh nrw orw ltac:(lia) ltac:(lia) ltac:(lia) Hall
                    (N.to_nat (nh * nrw)) 0 0 (elements m)) as [els' [Hr [Hlen' [Hall' Hw]]]];
          try lia; try assumption; try reflexivity.
        cbn [N.mul N.add] in Hr. rewrite Hr. cbn [obind]. rewrite N.eqb_refl. cbn [assert_ok obind].
          exists els'. split; [reflexivity|]. split; [exact Hlen'|]. split; [exact Hall'|]. exact Hw.
    - assert (nrw = orw) by lia.
      exists (elements m). split; [reflexivity|]. split; [reflexivity|]. split; [exact Hall|].
      intros q t _ _. congruence. }
  destruct Hcore as [els [He [Hlen [Halle Hw]]]].
  fold orw. fold nrw. rewrite He. cbn [obind].
  eexists. split; [reflexivity|].
  split; [|split; [reflexivity | split; [reflexivity|]]].
  - split.
    + cbn [height elements]. replace (row_word_width _) with nrw by reflexivity.
      rewrite firstn_length, Hlen. fold orw in Hl. lia.
    + cbn [elements]. apply Forall_firstn. exact Halle.
  - intros r c Hr Hc. unfold dm_bit, lbit, ebit. cbn [elements].
    replace (row_word_width (mkdm _ _ _)) with nrw by reflexivity. fold orw.
    assert (Hcn : c / 64 < nrw) by (rewrite En, ceil_div_64; lia).
    pose proof (row_mul_le r nh nrw Hr).
    rewrite eword_firstn by lia. rewrite Hw by assumption. reflexivity.
Qed.

Lemma dm_resize_zero_width_panics m nh :
  0 < nh -> nh <= height m -> 0 < width m -> dm_resize m nh 0 = Panic PAssert.
Proof.
  intros H0 Hh Hw. unfold dm_resize.
  replace (nh <=? height m) with true by (symmetry; apply N.leb_le; exact Hh).
  cbn [N.leb negb]. replace (0 <=? width m) with true by (symmetry; apply N.leb_le; lia). cbn [negb].
  assert (En : row_word_width (mkdm nh 0 (elements m)) = 0) by reflexivity.
  rewrite En, N.sub_0_r, N.mul_0_r.
  assert (Ho : 0 < row_word_width m) by (unfold row_word_width, WORD_WIDTH; rewrite ceil_div_64; lia).
  replace (0 <? row_word_width m) with true by (symmetry; apply N.ltb_lt; exact Ho).
  cbn [N.to_nat resize_loop obind].
  replace (0 =? nh * row_word_width m) with false by (symmetry; apply N.eqb_neq; lia).
  reflexivity.
Qed.
