(* PS_sound: if the solver returns an operation list, that list (with the final Reorder) is a
   certificate for the ORIGINAL matrix: check_cert accepts it.  Both build variants. *)
From Coq Require Import NArith List Bool Lia Arith.
From RQ Require Import Base.Outcome Base.Ints Base.ListX Model.Octet Model.CMatrix Model.Slab
  Model.FieldFast
  Spec.Linear Proofs.OutcomeLemmas Proofs.OctetProofs Proofs.LinearProofs Model.PiSolver
  Proofs.PiSolverBase Proofs.PiSolverStruct Proofs.PiSolverOps Proofs.PiSolverG Proofs.PiSolverInvDefs
  Proofs.PiSolverStats Proofs.PiSolverHist Proofs.PiSolverSwapCols Proofs.PiSolverPhase2 Proofs.PiSolverPhase345
  Proofs.PiSolverSingular Proofs.PiSolverCells Proofs.PiSolverPhase1.
Import ListNotations.
Open Scope N_scope.

(* ---- x_elimination_ops only produces additions between rows above i ---- *)
Definition xo_lt0 (i : N) (op : rowop) : Prop :=
  match op with RAdd a b => a < i /\ b < i | RSwap _ _ => False end.

Lemma x_elim_lt i : forall rops mapping acc xo, Forall (xo_lt0 i) acc ->
  x_elimination_ops rops mapping i acc = Ok xo -> Forall (xo_lt0 i) xo.
Proof.
  induction rops as [|[src dest|r1 r2] t IH]; intros mapping acc xo Fa H; cbn [x_elimination_ops] in H.
  - inversion H; subst; exact Fa.
  - omon H. apply N.ltb_lt in As. destruct (N.ltb_spec a0 i) as [Hlt|Hge].
    + eapply IH; [|exact H]. constructor; [split; assumption | exact Fa].
    + eapply IH; eassumption.
  - omon H. eapply IH; eassumption.
Qed.

Lemma dims_wf A Mn Wn : dims A Mn Wn -> bytes_mat A -> wf_mat (N.to_nat Wn) A.
Proof.
  intros [Hl Hr] Hb. unfold wf_mat. rewrite Forall_forall in *. intros r Hin. split.
  - specialize (Hr r Hin). unfold lenN in Hr. lia.
  - unfold bytes_mat in Hb. rewrite Forall_forall in Hb. apply Hb, Hin.
Qed.

Lemma bin_bytes A : bin_mat A -> bytes_mat A.
Proof.
  unfold bin_mat, bytes_mat, bin_row, bytes_row. intros H. rewrite Forall_forall in *. intros r Hr.
  specialize (H r Hr). rewrite Forall_forall in *. intros x Hx. destruct (H x Hx) as [-> | ->]; reflexivity.
Qed.

Lemma cnt_pos row s e j : s <= j < e -> nth (N.to_nat j) row 0 = 1 -> cnt row s e <> 0.
Proof.
  intros Hj Hc. rewrite (cnt_split row s j e) by lia. rewrite (cnt_first row j e) by lia. rewrite Hc, N.eqb_refl. lia.
Qed.

Section Sound.
Variable A0 : list (list N).
Variable M W Hn : N.
Hypothesis A0_wf : wf_mat (N.to_nat W) A0.
Hypothesis A0_len : lenN A0 = M.
Hypothesis W16 : W < 65536.
Hypothesis HM : Hn <= M.
Hypothesis WM : W <= M.
Hypothesis M32 : M < 4294967296.
Local Notation G := (G A0).
Local Notation fp_inv := (fp_inv A0 M W Hn).
Local Notation cover_s := (cover_s M W Hn).

(* ---- the loop of the first phase ---- *)
Lemma fp_loop_inv m fuel : forall s st rops s' rops', fp_inv s st ->
  first_phase_loop m fuel s st rops = Ok (Some (s', rops')) ->
  exists st', fp_inv s' st' /\ ps_i s' + ps_u s' = W.
Proof.
  induction fuel as [|k IH]; intros s st rops s' rops' I H; cbn [first_phase_loop] in H;
    rewrite (fi_L _ _ _ _ _ _ I) in H.
  - destruct (N.ltb_spec (ps_i s + ps_u s) W) as [Hlt|Hge]; [discriminate|]. inversion H; subst.
    exists st. split; [exact I|]. pose proof (fi_iu _ _ _ _ _ _ I). lia.
  - destruct (N.ltb_spec (ps_i s + ps_u s) W) as [Hlt|Hge].
    + oinvas H as r Er. destruct r as [[[s1 st1] rops1]|]; [|discriminate].
      destruct (fp_step_inv A0 M W Hn A0_wf A0_len W16 HM M32 _ _ _ _ _ _ _ I Hlt Er) as [I1 _].
      eapply IH; eassumption.
    + inversion H; subst. exists st. split; [exact I|]. pose proof (fi_iu _ _ _ _ _ _ I). lia.
Qed.

Lemma first_phase_inv m s s' xo :
  (forall st, st_inv (ps_A s) st (ps_i s) (M - Hn) (ps_i s) (W - ps_u s) -> fp_inv s st) ->
  ps_i s = 0 -> ps_u s <= W -> ps_W s = W -> lenN (ps_A s) = M -> lenN (hd_rows s) = Hn ->
  first_phase m s = Ok (Some (s', xo)) ->
  exists st', fp_inv s' st' /\ ps_i s' + ps_u s' = W /\ Forall (xo_lt0 (ps_i s')) xo.
Proof.
  intros Hinv Hi0 Hu HW HA Hh H. unfold first_phase in H. omon H.
  destruct a2 as [[s1 rops]|]; [|discriminate]. omon H. inversion H; subst s' xo. clear H.
  rewrite HW in E. apply usub_inv in E; [|exact Hu]. subst a.
  unfold ps_height in E0. rewrite HA, num_hdpc_hd_rows, Hh in E0. apply usub_inv in E0; [|exact HM]. subst a0.
  assert (S0 : st_inv (ps_A s) a1 0 (M - Hn) 0 (W - ps_u s)).
  { eapply st_new_spec; [| | exact E1]; lia. }
  rewrite <- Hi0 in S0 at 1 2.
  destruct (fp_loop_inv _ _ _ _ _ _ _ (Hinv _ S0) E2) as (st' & I' & Hiu).
  exists st'. split; [exact I'|]. split; [exact Hiu|].
  eapply x_elim_lt; [constructor | exact E3].
Qed.

(* ---- PS_first_phase_total (errata 2): the selection never answers "no row" ---- *)
Lemma fp_step_total m s st rops : fp_inv s st -> hist_ok st -> cover_s s -> ps_i s + ps_u s < W ->
  first_phase_step m s st rops <> Ok None.
Proof.
  clear WM. intros I Hh C Hlt H. apply first_phase_step_none_inv in H. destruct H as (end_row & Eer & Esel).
  rewrite (fp_height _ _ _ _ _ _ I), num_hdpc_hd_rows, (fi_hlen _ _ _ _ _ _ I) in Eer.
  apply usub_inv in Eer; [|exact HM]. subst end_row.
  pose proof (sel_none_spec _ _ _ _ _ _ _ (fi_st _ _ _ _ _ _ I) Hh
                ltac:(destruct (fi_dims _ _ _ _ _ _ I); lia) Esel) as Hz.
  destruct (C (ps_i s)) as (k & Hk & Hc); [lia|].
  apply (cnt_pos (rowN (ps_A s) k) (ps_i s) (W - ps_u s) (ps_i s)); [lia | exact Hc | apply Hz; lia].
Qed.

Lemma fp_loop_total m fuel : forall s st rops, fp_inv s st -> hist_ok st -> cover_s s ->
  first_phase_loop m fuel s st rops <> Ok None.
Proof.
  induction fuel as [|k IH]; intros s st rops I Hh C H; cbn [first_phase_loop] in H;
    rewrite (fi_L _ _ _ _ _ _ I) in H.
  - destruct (ps_i s + ps_u s <? W); discriminate.
  - destruct (N.ltb_spec (ps_i s + ps_u s) W) as [Hlt|Hge]; [|discriminate].
    destruct (first_phase_step m s st rops) as [[[[s1 st1] rops1]|]|] eqn:Er; cbn in H; [| |discriminate].
    + destruct (fp_step_inv A0 M W Hn A0_wf A0_len W16 HM M32 _ _ _ _ _ _ _ I Hlt Er) as (I1 & _ & Hh1 & C1).
      apply (IH _ _ _ I1 (Hh1 Hh) (C1 C) H).
    + apply (fp_step_total _ _ _ _ I Hh C Hlt Er).
Qed.

Lemma first_phase_total m s :
  (forall st, st_inv (ps_A s) st (ps_i s) (M - Hn) (ps_i s) (W - ps_u s) -> fp_inv s st) ->
  ps_i s = 0 -> ps_u s <= W -> ps_W s = W -> lenN (ps_A s) = M -> lenN (hd_rows s) = Hn ->
  cover_s s -> first_phase m s <> Ok None.
Proof.
  intros Hinv Hi0 Hu HW HA Hh C H. unfold first_phase in H. omon H.
  rewrite HW in E. apply usub_inv in E; [|exact Hu]. subst a.
  unfold ps_height in E0. rewrite HA, num_hdpc_hd_rows, Hh in E0. apply usub_inv in E0; [|exact HM]. subst a0.
  assert (S0 : st_inv (ps_A s) a1 0 (M - Hn) 0 (W - ps_u s)).
  { eapply st_new_spec; [| | exact E1]; lia. }
  assert (H0 : hist_ok a1) by (eapply hist_new; [| | exact E1]; lia).
  rewrite <- Hi0 in S0 at 1 2.
  destruct a2 as [[s1 rops]|]; [omon H; discriminate|].
  apply (fp_loop_total _ _ _ _ _ (Hinv _ S0) H0 C E2).
Qed.

(* ---- from the end of the first phase to the certificate ---- *)
Lemma execute_sound m s ops :
  (forall st, st_inv (ps_A s) st (ps_i s) (M - Hn) (ps_i s) (W - ps_u s) -> fp_inv s st) ->
  ps_i s = 0 -> ps_u s <= W -> ps_W s = W -> lenN (ps_A s) = M -> lenN (hd_rows s) = Hn ->
  execute m s = Ok (Some ops) ->
  exists body ord, ops = body ++ [SReorder ord] /\
    check_cert mulN (N.to_nat W) A0 (map sym_of body) (map N.to_nat ord) = true /\
    NoDup (map N.to_nat ord) /\ length ord = N.to_nat W.
Proof.
  intros Hinv Hi0 Hu HW HA Hh H. unfold execute in H. omon H.
  destruct a as [[s1 xo]|]; [|discriminate]. omon H. destruct a as [s2|]; [|discriminate]. omon H.
  inversion H; subst ops. clear H.
  destruct (first_phase_inv _ _ _ _ Hinv Hi0 Hu HW HA Hh E) as (st1 & I1 & Hiu & Fxo).
  (* second phase *)
  assert (P2 : p2_pre A0 M W Hn s1).
  { constructor; try apply I1; try assumption. }
  destruct (second_phase_spec A0 M W A0_wf A0_len m Hn s1 xo s2 P2 E0) as
    (L2 & Hhd2 & Ei2 & Eu2 & Ec2 & EW2 & EL2 & D2 & B2 & Hrows2 & HG2 & Hlow2 & Hid2).
  pose proof (fi_iH _ _ _ _ _ _ I1) as HiH.
  (* third to fifth phase *)
  assert (P3 : p3_pre A0 M W s2).
  { constructor; try assumption.
    - rewrite Ei2, Eu2. exact Hiu.
    - rewrite Ei2. intros k j Hk Hj. destruct (N.ltb_spec k (ps_i s1)) as [Hlo|Hhi].
      + rewrite Hrows2, HG2 by exact Hlo. apply (fi_agreeA _ _ _ _ _ _ I1); lia.
      + rewrite Hid2, Hlow2 by lia. reflexivity.
    - rewrite Ei2. intros k j Hk Hj. rewrite HG2 by exact Hk. apply (fi_I _ _ _ _ _ _ I1); assumption.
    - rewrite Ei2. exact Hlow2. }
  destruct (lite_third_phase _ _ _ _ _ L2 E1) as [_ Fne].
  assert (Fxo2 : Forall (xo_lt (ps_i s2)) xo).
  { rewrite Ei2. rewrite Forall_forall in *. intros op Hop. specialize (Fxo op Hop). specialize (Fne op Hop).
    destruct op as [x y|]; cbn in *; [|contradiction]. tauto. }
  destruct (phases345_spec A0 M W A0_wf A0_len m s2 xo a a0 a1 P3 Fxo2 E1 E2 E3) as (L5 & Ec5 & EL5 & HG5).
  assert (Pc : permN W (ps_c a1)) by (rewrite Ec5, Ec2; apply (fi_c _ _ _ _ _ _ I1)).
  exists (rev (ps_ops a1)), a2. split; [reflexivity|]. split.
  - apply (final_cert A0 M W A0_wf A0_len a1 a2 L5 Pc EL5 WM HG5 E4).
  - apply (final_order_nodup A0 M W A0_len a1 a2 L5 Pc EL5 WM E4).
Qed.

(* ---- PS_complete (for runs that do not panic): None exactly for non-injective matrices ---- *)
Lemma execute_complete m s r :
  (forall st, st_inv (ps_A s) st (ps_i s) (M - Hn) (ps_i s) (W - ps_u s) -> fp_inv s st) ->
  ps_i s = 0 -> ps_u s <= W -> ps_W s = W -> lenN (ps_A s) = M -> lenN (hd_rows s) = Hn ->
  cover_s s ->
  execute m s = Ok r -> (r = None <-> ~ injective mulN (N.to_nat W) A0).
Proof.
  intros Hinv Hi0 Hu HW HA Hh C H. destruct r as [ops|].
  - destruct (execute_sound _ _ _ Hinv Hi0 Hu HW HA Hh H) as (body & ord & _ & Hc & _).
    split; [discriminate|]. intros Hni. exfalso. apply Hni.
    apply (cert_injective mulN inv8 mulN_field _ _ _ _ Hc A0_wf).
  - split; [|reflexivity]. intros _. unfold execute in H. omon H.
    destruct a as [[s1 xo]|]; [|exfalso; exact (first_phase_total _ _ Hinv Hi0 Hu HW HA Hh C E)].
    omon H. destruct a as [s2|]; [omon H; discriminate|].
    destruct (first_phase_inv _ _ _ _ Hinv Hi0 Hu HW HA Hh E) as (st1 & I1 & Hiu & Fxo).
    assert (P2 : p2_pre A0 M W Hn s1) by (constructor; try apply I1; try assumption).
    apply (second_phase_none A0 M W A0_wf A0_len m Hn s1 xo P2 (fi_c _ _ _ _ _ _ I1) E0).
Qed.

End Sound.

(* ================= the initial states ================= *)

Lemma seqN_nth0 n k : k < n -> nth (N.to_nat k) (seqN 0 n) 0 = k.
Proof. intros H. rewrite seqN_nth by lia. lia. Qed.

(* G of a state without recorded operations *)
Lemma G_initial A0 s k j : ps_ops s = [] -> G A0 s k j = cell A0 (dat s k) (cat s j).
Proof. intros H. unfold G, Bmat, sops. rewrite H. reflexivity. Qed.

(* ---- without HDPC rows ---- *)
Lemma no_hdpc_init_state m A L P M W s :
  dims A M W -> 0 < M -> bin_mat A -> L = W -> P <= W ->
  ps_new_common m A L P = Ok s ->
  let s0 := s in W <= M /\ wf_mat (N.to_nat W) A /\
    (forall st, st_inv (ps_A s0) st (ps_i s0) (M - 0) (ps_i s0) (W - ps_u s0) -> fp_inv A M W 0 s0 st) /\
    ps_i s0 = 0 /\ ps_u s0 = P /\ ps_W s0 = W /\ ps_A s0 = A /\ lenN (hd_rows s0) = 0.
Proof.
  intros D HM0 Bin HL HP Es. cbv zeta.
  pose proof (dims_wf _ _ _ D (bin_bytes _ Bin)) as Wf. destruct D as [DL DR].
  assert (Ehd : lenN (hd [] A) = W).
  { destruct A as [|r0 A']; [cbn in DL; lia|]. inversion DR as [|? ? Hr0 ?]. cbn. exact Hr0. }
  unfold ps_new_common in Es. rewrite Ehd, DL in Es. omon Es. apply N.leb_le in As. inversion Es; subst s. clear Es.
  set (s0 := mkPS A W None a (seqN 0 W) (seqN 0 M) 0 P L []) in *.
  split; [exact As|]. split; [exact Wf|].
  split; [|repeat split; reflexivity].
  intros st St. apply mkFP; cbn [s0 ps_A ps_W ps_hd ps_c ps_d ps_i ps_u ps_L ps_ops hd_rows] in *.
  - constructor; cbn; [apply permN_seqN | apply bin_bytes, Bin | exact I | reflexivity].
  - split; assumption.
  - exact Bin.
  - reflexivity.
  - constructor.
  - reflexivity.
  - exact HL.
  - apply permN_seqN.
  - lia.
  - lia.
  - intros k j Hk Hj. rewrite G_initial by reflexivity. unfold dat, cat. cbn [ps_d ps_c s0].
    rewrite !seqN_nth0 by lia. reflexivity.
  - intros k j Hk. lia.
  - intros k j Hk. lia.
  - intros k j Hk. lia.
  - intros k j Hk Hj. lia.
  - exact St.
Qed.

Lemma no_hdpc_init m A L P M W r :
  dims A M W -> 0 < M -> bin_mat A -> L = W -> P <= W ->
  pi_run_no_hdpc m A L P = Ok r ->
  exists s0, execute m s0 = Ok r /\ W <= M /\ wf_mat (N.to_nat W) A /\
    (forall st, st_inv (ps_A s0) st (ps_i s0) (M - 0) (ps_i s0) (W - ps_u s0) -> fp_inv A M W 0 s0 st) /\
    ps_i s0 = 0 /\ ps_u s0 = P /\ ps_W s0 = W /\ ps_A s0 = A /\ lenN (hd_rows s0) = 0.
Proof.
  intros D HM0 Bin HL HP H. unfold pi_run_no_hdpc in H. oinvas H as s Es.
  exists s. split; [exact H|]. exact (no_hdpc_init_state _ _ _ _ _ _ _ D HM0 Bin HL HP Es).
Qed.

Theorem pi_run_no_hdpc_sound m A L P ops M W :
  dims A M W -> 0 < M -> M < 4294967296 -> bin_mat A -> L = W -> P <= W -> W < 65536 ->
  pi_run_no_hdpc m A L P = Ok (Some ops) ->
  exists body ord, ops = body ++ [SReorder ord] /\
    check_cert fmul (N.to_nat W) A (map sym_of body) (map N.to_nat ord) = true /\
    NoDup (map N.to_nat ord) /\ length ord = N.to_nat W.
Proof.
  intros D HM0 M32 Bin HL HP W16 H.
  destruct (no_hdpc_init _ _ _ _ _ _ _ D HM0 Bin HL HP H) as (s0 & Ex & WM & Wf & Hinv & Hi & Hu & HW & HA & Hh).
  destruct D as [DL DR].
  destruct (execute_sound A M W 0 Wf DL W16 ltac:(lia) WM M32 m s0 ops Hinv Hi ltac:(lia) HW ltac:(congruence) Hh Ex)
    as (body & ord & E1 & E2 & E3 & E4).
  exists body, ord. split; [exact E1|]. split; [|split; assumption].
  apply check_cert_mulN_fmul; assumption.
Qed.

(* PS_complete without HDPC rows, for runs that do not panic *)
Theorem pi_run_no_hdpc_complete m A L P r M W :
  dims A M W -> 0 < M -> M < 4294967296 -> bin_mat A -> L = W -> P <= W -> W < 65536 ->
  (forall j, j < W - P -> exists k, k < M /\ cell A k j = 1) ->
  pi_run_no_hdpc m A L P = Ok r ->
  (r = None <-> ~ injective fmul (N.to_nat W) A).
Proof.
  intros D HM0 M32 Bin HL HP W16 Hcov H.
  destruct (no_hdpc_init _ _ _ _ _ _ _ D HM0 Bin HL HP H) as (s0 & Ex & WM & Wf & Hinv & Hi & Hu & HW & HA & Hh).
  destruct D as [DL DR].
  rewrite <- (injective_mulN_fmul _ _ Wf).
  apply (execute_complete A M W 0 Wf DL W16 ltac:(lia) WM M32 m s0 r Hinv Hi ltac:(lia) HW ltac:(congruence) Hh); [|exact Ex].
  intros j Hj. rewrite Hi, Hu in Hj. destruct (Hcov j ltac:(lia)) as (k & Hk & Hc).
  exists k. rewrite Hi, HA. split; [lia | exact Hc].
Qed.

(* ---- with HDPC rows: IntermediateSymbolDecoder::new moves the (empty) rows S .. S+H-1 of the
        binary matrix to the end; the HDPC rows logically replace them ---- *)

Lemma cell_full_matrix S H A hdpc x j : lenN hdpc = H -> S + H <= lenN A ->
  cell (full_matrix S H A hdpc) x j =
    if x <? S then cell A x j else if x <? S + H then cell hdpc (x - S) j else cell A x j.
Proof.
  intros Hh Hle. unfold full_matrix, cell, rowN. unfold lenN in *.
  destruct (N.ltb_spec x S) as [H1|H1].
  - rewrite app_nth1 by (rewrite firstn_length; lia). rewrite nth_firstn_lt by lia. reflexivity.
  - rewrite app_nth2 by (rewrite firstn_length; lia). rewrite firstn_length.
    replace (Nat.min (N.to_nat S) (length A)) with (N.to_nat S) by lia.
    destruct (N.ltb_spec x (S + H)) as [H2|H2].
    + rewrite app_nth1 by lia. f_equal. f_equal. lia.
    + rewrite app_nth2 by lia. rewrite nth_skipn'. f_equal. f_equal. lia.
Qed.

Lemma full_matrix_len S H A hdpc : lenN hdpc = H -> S + H <= lenN A -> lenN (full_matrix S H A hdpc) = lenN A.
Proof.
  intros Hh Hle. unfold full_matrix, lenN in *. rewrite !app_length, firstn_length, skipn_length. lia.
Qed.

(* the row permutation after n exchanges *)
Definition sigma (S H M n k : N) : N :=
  if (S <=? k) && (k <? S + n) then M - H + (k - S)
  else if (M - H <=? k) && (k <? M - H + n) then S + (k - (M - H)) else k.

Record new_inv (A : list (list N)) (S H M W P L n : N) (s : pstate) : Prop := mkNew {
  ni_lite : lite M s;
  ni_dims : dims (ps_A s) M W;
  ni_bin : bin_mat (ps_A s);
  ni_hd : ps_hd s = None;
  ni_c : ps_c s = seqN 0 W;
  ni_W : ps_W s = W;
  ni_i : ps_i s = 0;
  ni_u : ps_u s = P;
  ni_L : ps_L s = L;
  ni_ops : ps_ops s = [];
  ni_d : forall k, k < M -> dat s k = sigma S H M n k;
  ni_rows : forall k, k < M -> rowN (ps_A s) k = rowN A (dat s k) }.

Lemma new_loop_step m A S H M W P L n s s' : S + 2 * H <= M -> n < H ->
  new_inv A S H M W P L n s ->
  (hi <- usub m (ps_height s) H ;;
   s1 <- ps_swap_rows m s (S + n) (hi + n) ;;
   onX m s1 (fun X => bm_swap_rows X (S + n) (hi + n))) = Ok s' ->
  new_inv A S H M W P L (n + 1) s'.
Proof.
  intros HS Hn I H0. omon H0.
  assert (HM' : ps_height s = M) by (unfold ps_height; apply (ni_dims _ _ _ _ _ _ _ _ _ I)).
  rewrite HM' in E. apply usub_inv in E; [|lia]. subst a.
  destruct (ps_swap_rows_frame _ _ _ _ _ E0) as (EA & Ed & Eh & Ec & EW & Ei & Eu & EL & Eo & _).
  destruct (onX_frame _ _ _ _ H0) as (EA' & Eh' & Ed' & Ec' & EW' & Ei' & Eu' & EL' & Eo').
  destruct (bm_swap_rows_spec _ _ _ _ _ _ (ni_dims _ _ _ _ _ _ _ _ _ I) EA) as (D1 & L1 & L2 & Hrows).
  assert (Hdat : forall k, dat s' k = dat s (trN (S + n) (M - H + n) k)).
  { intros k. unfold dat. rewrite Ed'. apply (swapN_cell _ _ _ _ 0 k Ed). }
  constructor; rewrite ?EA', ?Eh', ?Ec', ?EW', ?Ei', ?Eu', ?EL', ?Eo', ?Eh, ?Ec, ?EW, ?Ei, ?Eu, ?EL, ?Eo; try apply I; try assumption.
  - eapply lite_onX; [|exact H0]. eapply lite_ps_swap_rows; [apply I | exact E0].
  - unfold bm_swap_rows in EA. eapply Forall_swapN; [apply (ni_bin _ _ _ _ _ _ _ _ _ I) | exact EA].
  - intros k Hk. rewrite Hdat. rewrite (ni_d _ _ _ _ _ _ _ _ _ I) by (apply (trN_range (S + n) (M - H + n) k 0 M); lia).
    unfold sigma, trN.
    destruct (N.eqb_spec k (S + n)) as [->|K1].
    + destruct (N.leb_spec S (M - H + n)); destruct (N.ltb_spec (M - H + n) (S + n)); cbn [andb]; try lia.
      destruct (N.leb_spec (M - H) (M - H + n)); destruct (N.ltb_spec (M - H + n) (M - H + n)); cbn [andb]; try lia.
      destruct (N.leb_spec S (S + n)); destruct (N.ltb_spec (S + n) (S + (n + 1))); cbn [andb]; try lia.
    + destruct (N.eqb_spec k (M - H + n)) as [->|K2].
      * destruct (N.leb_spec S (S + n)); destruct (N.ltb_spec (S + n) (S + n)); cbn [andb]; try lia.
        destruct (N.leb_spec (M - H) (S + n)); destruct (N.ltb_spec (S + n) (M - H + n)); cbn [andb]; try lia.
        destruct (N.leb_spec S (M - H + n)); destruct (N.ltb_spec (M - H + n) (S + (n + 1))); cbn [andb]; try lia.
        destruct (N.leb_spec (M - H) (M - H + n)); destruct (N.ltb_spec (M - H + n) (M - H + (n + 1))); cbn [andb]; try lia.
      * destruct (N.leb_spec S k); destruct (N.ltb_spec k (S + n)); destruct (N.ltb_spec k (S + (n + 1)));
          cbn [andb]; try lia;
          destruct (N.leb_spec (M - H) k); destruct (N.ltb_spec k (M - H + n)); destruct (N.ltb_spec k (M - H + (n + 1)));
          cbn [andb]; try lia.
  - intros k Hk. rewrite Hrows, Hdat. apply (ni_rows _ _ _ _ _ _ _ _ _ I).
    apply (trN_range (S + n) (M - H + n) k 0 M); lia.
Qed.

Lemma new_loop m A S H M W P L : S + 2 * H <= M -> forall l n s s', 
  l = seqN n H -> n <= H ->
  new_inv A S H M W P L n s ->
  ofold (fun i s => hi <- usub m (ps_height s) H ;;
                    s1 <- ps_swap_rows m s (S + i) (hi + i) ;;
                    onX m s1 (fun X => bm_swap_rows X (S + i) (hi + i))) l s = Ok s' ->
  new_inv A S H M W P L H s'.
Proof.
  intros HS. induction l as [|x t IH]; intros n s s' El Hn I H0.
  - cbn in H0. inversion H0; subst s'. destruct (N.eq_dec n H) as [->|Hne]; [exact I|].
    exfalso. rewrite seqN_cons in El by lia. discriminate.
  - destruct (N.eq_dec n H) as [->|Hne]; [rewrite seqN_nil in El by lia; discriminate|].
    rewrite seqN_cons in El by lia. inversion El; subst x t.
    apply ofold_cons_inv in H0. destruct H0 as [s1 [E1 E2]].
    eapply (IH (n + 1)); [reflexivity | lia | | exact E2].
    eapply new_loop_step; [exact HS | lia | exact I | exact E1].
Qed.

Lemma sigma_invol S H M k : S + 2 * H <= M -> k < M -> sigma S H M H (sigma S H M H k) = k.
Proof.
  intros HS Hk. unfold sigma.
  destruct (N.leb_spec S k); destruct (N.ltb_spec k (S + H)); cbn [andb].
  - destruct (N.leb_spec S (M - H + (k - S))); destruct (N.ltb_spec (M - H + (k - S)) (S + H)); cbn [andb]; try lia.
    destruct (N.leb_spec (M - H) (M - H + (k - S))); destruct (N.ltb_spec (M - H + (k - S)) (M - H + H)); cbn [andb]; lia.
  - destruct (N.leb_spec (M - H) k); destruct (N.ltb_spec k (M - H + H)); cbn [andb]; try lia.
    + destruct (N.leb_spec S (S + (k - (M - H)))); destruct (N.ltb_spec (S + (k - (M - H))) (S + H)); cbn [andb]; lia.
    + destruct (N.leb_spec S k); destruct (N.ltb_spec k (S + H)); cbn [andb]; try lia.
      destruct (N.leb_spec (M - H) k); destruct (N.ltb_spec k (M - H + H)); cbn [andb]; lia.
  - destruct (N.leb_spec (M - H) k); destruct (N.ltb_spec k (M - H + H)); cbn [andb]; try lia.
    destruct (N.leb_spec S k); destruct (N.ltb_spec k (S + H)); cbn [andb]; try lia.
    destruct (N.leb_spec (M - H) k); destruct (N.ltb_spec k (M - H + H)); cbn [andb]; lia.
  - lia.
Qed.

Lemma hdpc_init_state m S H A hdpc L P M W s :
  dims A M W -> 0 < M -> bin_mat A -> dims hdpc H W -> bytes_mat hdpc -> S + 2 * H <= M ->
  L = W -> P <= W ->
  ps_new m S H A hdpc L P = Ok s ->
  let s0 := s in W <= M /\ wf_mat (N.to_nat W) (full_matrix S H A hdpc) /\
    lenN (full_matrix S H A hdpc) = M /\
    (forall st, st_inv (ps_A s0) st (ps_i s0) (M - H) (ps_i s0) (W - ps_u s0) ->
                fp_inv (full_matrix S H A hdpc) M W H s0 st) /\
    ps_i s0 = 0 /\ ps_u s0 = P /\ ps_W s0 = W /\ lenN (ps_A s0) = M /\ lenN (hd_rows s0) = H /\
    (forall k, k < M -> rowN (ps_A s0) k = rowN A (sigma S H M H k)).
Proof.
  intros D HM0 Bin Dh Bh HS HL HP Es. cbv zeta.
  destruct D as [DL DR]. destruct Dh as [DhL DhR].
  set (A0 := full_matrix S H A hdpc).
  assert (A0len : lenN A0 = M) by (unfold A0; rewrite full_matrix_len; [exact DL | exact DhL | lia]).
  assert (Wf : wf_mat (N.to_nat W) A0).
  { unfold A0, full_matrix, wf_mat. pose proof (bin_bytes _ Bin) as BA.
    assert (X : forall l, Forall (fun r => lenN r = W) l -> bytes_mat l ->
                Forall (fun r => length r = N.to_nat W /\ wf_vec r) l).
    { intros l F1 F2. apply Forall_forall. intros r0 Hr. unfold bytes_mat in F2. rewrite Forall_forall in F1, F2.
      split; [specialize (F1 r0 Hr); unfold lenN in F1; lia | apply F2, Hr]. }
    apply Forall_app. split; [apply X; [apply Forall_firstn, DR | apply Forall_firstn, BA]|].
    apply Forall_app. split; [apply X; assumption|]. apply X; [apply Forall_skipn, DR | apply Forall_skipn, BA]. }
  assert (Ehd : lenN (hd [] A) = W).
  { destruct A as [|r0 A']; [cbn in DL; lia|]. inversion DR as [|? ? Hr0 ?]. cbn. exact Hr0. }
  unfold ps_new in Es. omon Es. inversion Es; subst s. clear Es.
  unfold ps_new_common in E. rewrite Ehd, DL in E. omon E. apply N.leb_le in As. inversion E; subst a. clear E.
  set (s00 := mkPS A W None a1 (seqN 0 W) (seqN 0 M) 0 P L []) in *.
  assert (I00 : new_inv A S H M W P L 0 s00).
  { constructor; cbn; try reflexivity; try assumption.
    - constructor; cbn; [apply permN_seqN | apply bin_bytes, Bin | exact I | reflexivity].
    - split; assumption.
    - intros k Hk. unfold dat, sigma. cbn [ps_d s00]. rewrite seqN_nth0 by exact Hk.
      destruct (N.leb_spec S k); destruct (N.ltb_spec k (S + 0)); destruct (N.leb_spec (M - H) k);
        destruct (N.ltb_spec k (M - H + 0)); cbn [andb]; lia.
    - intros k Hk. unfold dat. cbn [ps_d ps_A s00]. rewrite seqN_nth0 by exact Hk. reflexivity. }
  pose proof (new_loop m A S H M W P L HS _ 0 _ _ eq_refl ltac:(lia) I00 E0) as I1.
  split; [exact As|]. split; [exact Wf|]. split; [exact A0len|].
  cbn [set_hd ps_A ps_W ps_hd ps_c ps_d ps_i ps_u ps_L ps_ops hd_rows].
  split; [|split; [apply (ni_i _ _ _ _ _ _ _ _ _ I1) | split; [apply (ni_u _ _ _ _ _ _ _ _ _ I1) |
           split; [apply (ni_W _ _ _ _ _ _ _ _ _ I1) | split; [apply (ni_dims _ _ _ _ _ _ _ _ _ I1) | split; [exact DhL|]]]]]].
  2:{ intros k Hk. rewrite (ni_rows _ _ _ _ _ _ _ _ _ I1) by exact Hk. rewrite (ni_d _ _ _ _ _ _ _ _ _ I1) by exact Hk. reflexivity. }
  intros st St.
  assert (Gs : forall k j, k < M -> j < W -> G A0 (set_hd a0 (Some hdpc)) k j = cell A0 (sigma S H M H k) j).
  { intros k j Hk Hj. rewrite G_initial by apply (ni_ops _ _ _ _ _ _ _ _ _ I1).
    unfold cat. cbn [set_hd ps_c]. rewrite (ni_c _ _ _ _ _ _ _ _ _ I1), seqN_nth0 by exact Hj.
    replace (dat (set_hd a0 (Some hdpc)) k) with (dat a0 k) by reflexivity.
    rewrite (ni_d _ _ _ _ _ _ _ _ _ I1) by exact Hk. reflexivity. }
  apply mkFP; cbn [set_hd ps_A ps_W ps_hd ps_c ps_d ps_i ps_u ps_L ps_ops hd_rows];
    rewrite ?(ni_i _ _ _ _ _ _ _ _ _ I1), ?(ni_u _ _ _ _ _ _ _ _ _ I1), ?(ni_W _ _ _ _ _ _ _ _ _ I1), ?(ni_L _ _ _ _ _ _ _ _ _ I1).
  - apply lite_set_hd; [apply (ni_lite _ _ _ _ _ _ _ _ _ I1) | exact Bh].
  - apply (ni_dims _ _ _ _ _ _ _ _ _ I1).
  - apply (ni_bin _ _ _ _ _ _ _ _ _ I1).
  - exact DhL.
  - exact DhR.
  - reflexivity.
  - exact HL.
  - rewrite (ni_c _ _ _ _ _ _ _ _ _ I1). apply permN_seqN.
  - lia.
  - lia.
  - intros k j Hk Hj. rewrite Gs by lia. unfold cell at 1. rewrite (ni_rows _ _ _ _ _ _ _ _ _ I1) by lia.
    rewrite (ni_d _ _ _ _ _ _ _ _ _ I1) by lia. fold (cell A (sigma S H M H k) j).
    unfold A0. rewrite cell_full_matrix by (try assumption; lia). unfold sigma.
    destruct (N.leb_spec S k); destruct (N.ltb_spec k (S + H)); cbn [andb].
    + destruct (N.ltb_spec (M - H + (k - S)) S); [lia|]. destruct (N.ltb_spec (M - H + (k - S)) (S + H)); [lia | reflexivity].
    + destruct (N.leb_spec (M - H) k); [lia|]. cbn [andb].
      destruct (N.ltb_spec k S); [lia|]. destruct (N.ltb_spec k (S + H)); [lia | reflexivity].
    + destruct (N.leb_spec (M - H) k); [lia|]. cbn [andb]. destruct (N.ltb_spec k S); [reflexivity | lia].
    + lia.
  - intros k j Hk Hj. rewrite Gs by lia. unfold A0. rewrite cell_full_matrix by (try assumption; lia). unfold sigma.
    destruct (N.leb_spec S (M - H + k)); destruct (N.ltb_spec (M - H + k) (S + H)); cbn [andb]; try lia.
    destruct (N.leb_spec (M - H) (M - H + k)); destruct (N.ltb_spec (M - H + k) (M - H + H)); cbn [andb]; try lia.
    replace (S + (M - H + k - (M - H))) with (S + k) by lia.
    destruct (N.ltb_spec (S + k) S); [lia|]. destruct (N.ltb_spec (S + k) (S + H)); [|lia].
    f_equal. lia.
  - intros k j Hk. lia.
  - intros k j Hk. lia.
  - intros k j Hk Hj. lia.
  - rewrite (ni_i _ _ _ _ _ _ _ _ _ I1), (ni_u _ _ _ _ _ _ _ _ _ I1) in St. exact St.
Qed.

Lemma hdpc_init m S H A hdpc L P M W r :
  dims A M W -> 0 < M -> bin_mat A -> dims hdpc H W -> bytes_mat hdpc -> S + 2 * H <= M ->
  L = W -> P <= W ->
  pi_run m S H A hdpc L P = Ok r ->
  exists s0, execute m s0 = Ok r /\ W <= M /\ wf_mat (N.to_nat W) (full_matrix S H A hdpc) /\
    lenN (full_matrix S H A hdpc) = M /\
    (forall st, st_inv (ps_A s0) st (ps_i s0) (M - H) (ps_i s0) (W - ps_u s0) ->
                fp_inv (full_matrix S H A hdpc) M W H s0 st) /\
    ps_i s0 = 0 /\ ps_u s0 = P /\ ps_W s0 = W /\ lenN (ps_A s0) = M /\ lenN (hd_rows s0) = H /\
    (forall k, k < M -> rowN (ps_A s0) k = rowN A (sigma S H M H k)).
Proof.
  intros D HM0 Bin Dh Bh HS HL HP H0. unfold pi_run in H0. oinvas H0 as s Es.
  exists s. split; [exact H0|]. exact (hdpc_init_state _ _ _ _ _ _ _ _ _ _ D HM0 Bin Dh Bh HS HL HP Es).
Qed.

Theorem pi_run_sound m S H A hdpc L P ops M W :
  dims A M W -> 0 < M -> M < 4294967296 -> bin_mat A -> dims hdpc H W -> bytes_mat hdpc -> S + 2 * H <= M ->
  L = W -> P <= W -> W < 65536 ->
  pi_run m S H A hdpc L P = Ok (Some ops) ->
  exists body ord, ops = body ++ [SReorder ord] /\
    check_cert fmul (N.to_nat W) (full_matrix S H A hdpc) (map sym_of body) (map N.to_nat ord) = true /\
    NoDup (map N.to_nat ord) /\ length ord = N.to_nat W.
Proof.
  intros D HM0 M32 Bin Dh Bh HS HL HP W16 H0.
  destruct (hdpc_init _ _ _ _ _ _ _ _ _ _ D HM0 Bin Dh Bh HS HL HP H0) as
    (s0 & Ex & WM & Wf & A0len & Hinv & Hi & Hu & HW & HA & Hh & _).
  destruct (execute_sound _ M W H Wf A0len W16 ltac:(lia) WM M32 m s0 ops Hinv Hi ltac:(lia) HW HA Hh Ex)
    as (body & ord & E1 & E2 & E3 & E4).
  exists body, ord. split; [exact E1|]. split; [|split; assumption].
  apply check_cert_mulN_fmul; assumption.
Qed.

(* PS_complete, for runs that do not panic: every column left of the PI columns has a one in a
   non-HDPC row (for constraint matrices: in an LDPC row) *)
Theorem pi_run_complete m S H A hdpc L P r M W :
  dims A M W -> 0 < M -> M < 4294967296 -> bin_mat A -> dims hdpc H W -> bytes_mat hdpc -> S + 2 * H <= M ->
  L = W -> P <= W -> W < 65536 ->
  (forall j, j < W - P -> exists k, k < M /\ (k < S \/ S + H <= k) /\ cell A k j = 1) ->
  pi_run m S H A hdpc L P = Ok r ->
  (r = None <-> ~ injective fmul (N.to_nat W) (full_matrix S H A hdpc)).
Proof.
  intros D HM0 M32 Bin Dh Bh HS HL HP W16 Hcov H0.
  destruct (hdpc_init _ _ _ _ _ _ _ _ _ _ D HM0 Bin Dh Bh HS HL HP H0) as
    (s0 & Ex & WM & Wf & A0len & Hinv & Hi & Hu & HW & HA & Hh & Hrows).
  rewrite <- (injective_mulN_fmul _ _ Wf).
  apply (execute_complete _ M W H Wf A0len W16 ltac:(lia) WM M32 m s0 r Hinv Hi ltac:(lia) HW HA Hh); [|exact Ex].
  intros j Hj. rewrite Hi, Hu in Hj. destruct (Hcov j ltac:(lia)) as (k & Hk & Hnh & Hc).
  exists (sigma S H M H k). rewrite Hi. split.
  - unfold sigma. destruct (N.leb_spec S k); destruct (N.ltb_spec k (S + H)); cbn [andb]; try lia;
      destruct (N.leb_spec (M - H) k); destruct (N.ltb_spec k (M - H + H)); cbn [andb]; lia.
  - unfold cell. rewrite Hrows.
    + rewrite sigma_invol by assumption. exact Hc.
    + unfold sigma. destruct (N.leb_spec S k); destruct (N.ltb_spec k (S + H)); cbn [andb]; try lia;
        destruct (N.leb_spec (M - H) k); destruct (N.ltb_spec k (M - H + H)); cbn [andb]; lia.
Qed.
