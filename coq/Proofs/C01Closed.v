(* The statements of Props/C01u.v: Props/C01.v with MatWF / RowsOK / GenTotal discharged by
   Proofs/C01Glue.v. *)
From Coq Require Import NArith List Bool Lia.
From RQ Require Import Base.Outcome Base.Ints Base.ListX Spec.Linear Spec.Layout
  Model.Octet Model.FieldFast Model.SysConst Model.Tuple Model.CMatrix Model.Layout Model.Slab
  Model.Encoder Model.Decoder
  Proofs.OutcomeLemmas Proofs.RowParams Proofs.EncoderProofs Proofs.RowSem
  Proofs.SoundProofs Proofs.BlockSound Proofs.ObjectSound Proofs.C01Glue.
Import ListNotations.
Open Scope N_scope.

Lemma c01u_block_sound : forall m c data id K blk e,
  cfg_ok c data -> lenN blk = K * cT c -> Forall (fun b => b < 256) blk ->
  sbe_new m id c blk = Ok e ->
  exists d0, sbd_new id c (K * cT c) = Ok d0 /\
    forall bs, Forall (Forall (enc_produces m e)) bs ->
      exists rs d', run_batches m d0 bs = Ok (rs, d') /\
                    Forall (fun r => r = None \/ r = Some blk) rs.
Proof.
  intros m c data id K blk e OK HB Hb E.
  destruct (block_sound m c data id K blk e OK HB Hb E (MatWF_holds m K) (RowsOK_holds m K)) as [d0 [E0 S0]].
  exists d0. split; [exact E0|]. intros bs F.
  destruct (block_no_panic m c data id K blk e OK HB Hb E (MatWF_holds m K) (RowsOK_holds m K)
              (GenTotal_holds m K) d0 E0 bs F) as [rs [d' R]].
  exists rs, d'. split; [exact R | exact (S0 bs rs d' F R)].
Qed.

Lemma c01u_all_source_complete : forall m c data id K blk e,
  cfg_ok c data -> lenN blk = K * cT c -> Forall (fun b => b < 256) blk ->
  sbe_new m id c blk = Ok e ->
  forall d0, sbd_new id c (K * cT c) = Ok d0 ->
  forall bs b, Forall (Forall (enc_produces m e)) (bs ++ [b]) ->
    (forall i, i < K -> exists p, In p (concat (bs ++ [b])) /\ snd (fst p) = i) ->
    exists rs d1 d2, run_batches m d0 bs = Ok (rs, d1) /\ sbd_decode m d1 b = Ok (Some blk, d2).
Proof.
  intros m c data id K blk e OK HB Hb E d0 E0 bs b F Hall.
  pose proof F as F'. apply Forall_app in F'. destruct F' as [F1 _].
  destruct (block_no_panic m c data id K blk e OK HB Hb E (MatWF_holds m K) (RowsOK_holds m K)
              (GenTotal_holds m K) d0 E0 bs F1) as [rs [d1 R]].
  destruct (block_complete m c data id K blk e OK HB Hb E (MatWF_holds m K) (RowsOK_holds m K)
              d0 E0 bs b rs d1 F R Hall) as [d2 E2].
  exists rs, d1, d2. auto.
Qed.

Lemma c01u_encoder_solves : forall m c data id K blk e,
  cfg_ok c data -> lenN blk = K * cT c -> Forall (fun b => b < 256) blk ->
  sbe_new m id c blk = Ok e ->
  exists sp bin hdpc,
    sys_params K = Ok sp /\
    generate_constraint_matrix m K (rangeN (N.to_nat (spK sp))) = Ok (bin, hdpc) /\
    let A := full_matrix (spS sp) (spH sp) bin hdpc in
    solves fmul (N.to_nat (cT c)) A (sbe_C e) (create_d sp (sbe_syms e) (N.to_nat (cT c))) /\
    wf_mat (N.to_nat (spL sp)) A /\ length A = N.to_nat (spL sp) /\
    length (sbe_C e) = N.to_nat (spL sp) /\ wf_mat (N.to_nat (cT c)) (sbe_C e).
Proof.
  intros m c data id K blk e OK HB Hb E.
  exact (encoder_solves m c data id K blk e OK HB Hb E (MatWF_holds m K) (RowsOK_holds m K)).
Qed.

Lemma c01u_source_is_enc : forall m c data id K blk e,
  cfg_ok c data -> lenN blk = K * cT c -> Forall (fun b => b < 256) blk ->
  sbe_new m id c blk = Ok e ->
  exists sp, sys_params K = Ok sp /\ K <= spK sp /\
    (forall i, i < K ->
       rebuild_source_symbol m sp (sbe_C e) i = Ok (nth (N.to_nat i) (sbe_syms e) [])) /\
    (forall i, K <= i < spK sp ->
       rebuild_source_symbol m sp (sbe_C e) i = Ok (repeat 0 (N.to_nat (cT c)))) /\
    (forall p, enc_produces m e p -> K <= snd (fst p) ->
       snd (fst p) < 16777216 /\ length (snd p) = N.to_nat (cT c) /\
       forall r, enc_row m sp (snd (fst p) + (spK sp - K)) = Ok r ->
         lincomb fmul (N.to_nat (cT c)) r (sbe_C e) = snd p).
Proof.
  intros m c data id K blk e OK HB Hb E.
  exact (source_is_enc m c data id K blk e OK HB Hb E (MatWF_holds m K) (RowsOK_holds m K)).
Qed.

Lemma c01u_object_sound : forall m c data encs d0 pkts,
  cfg_ok c data -> encoder_new_full m c data = Ok encs -> dec_new c = Ok d0 ->
  Forall (obj_produces m c encs) pkts ->
  exists rs d', run_dec m d0 pkts = Ok (rs, d') /\
    Forall (fun r => r = None \/ (r = Some data /\ lenN data = cF c)) rs.
Proof.
  intros m c data encs d0 pkts OK E E0 F.
  destruct (object_no_panic m c data OK (fun j _ => MatWF_holds m _) (fun j _ => RowsOK_holds m _)
              encs E (fun j _ => GenTotal_holds m _) d0 pkts E0 F) as [rs [d' R]].
  exists rs, d'. split; [exact R|].
  exact (object_sound m c data OK (fun j _ => MatWF_holds m _) (fun j _ => RowsOK_holds m _)
           encs E d0 pkts rs d' E0 F R).
Qed.

Lemma c01u_object_complete : forall m c data encs d0 pkts,
  cfg_ok c data -> encoder_new_full m c data = Ok encs -> dec_new c = Ok d0 ->
  Forall (obj_produces m c encs) pkts ->
  (forall j i, j < cZ c -> i < blk_K c j -> exists p, In p pkts /\ fst p = (j, i)) ->
  exists rs d', run_dec m d0 pkts = Ok (rs, d') /\
    dec_result d' = Some data /\ last rs None = Some data.
Proof.
  intros m c data encs d0 pkts OK E E0 F Hall.
  destruct (object_no_panic m c data OK (fun j _ => MatWF_holds m _) (fun j _ => RowsOK_holds m _)
              encs E (fun j _ => GenTotal_holds m _) d0 pkts E0 F) as [rs [d' R]].
  exists rs, d'. split; [exact R|].
  exact (object_complete m c data OK (fun j _ => MatWF_holds m _) (fun j _ => RowsOK_holds m _)
           encs E d0 pkts rs d' E0 F R Hall).
Qed.

