(* Proofs about `enc_indices` (Model/Tuple.v): for a tuple within the ranges of RFC 6330 5.3.5.4
   and P1 prime, no assert fails, no addition overflows, both `while b1 >= p` loops stop within
   their fuel N.to_nat P1, and every index passed to `f` is < W + P = L.

   Termination: b1 walks b1 + k*a1 mod P1; P1 prime and 1 <= a1 < P1 give gcd(a1, P1) = 1, so by
   Bezout some k < P1 has b1 + k*a1 = 0 mod P1, and 0 < P ends the loop.  The loop therefore runs at
   most k < P1 times and needs at most k + 1 <= P1 units of fuel. *)
From Coq Require Import NArith List Bool Lia Arith.
From RQ Require Import Base.Outcome Base.Ints Base.ListX Spec.Prime Model.Tuple
  Proofs.PrimeProofs Proofs.TupleProofs.
Import ListNotations.
Open Scope N_scope.
Open Scope outcome_scope.

Lemma rem_ok_nz a b : b <> 0 -> rem_ok a b = Ok (a mod b).
Proof. intros H. unfold rem_ok. apply N.eqb_neq in H. rewrite H. reflexivity. Qed.

Section Enc.
Variables (m : mode) (W P P1 : N).
Hypothesis HW : W < 2 ^ 31.
Hypothesis HP1 : P1 < 2 ^ 31.
Hypothesis HWP : W + P <= 2 ^ 32.
Hypothesis HP : 1 <= P.

Let P31 : 2 ^ 31 + 2 ^ 31 = 2 ^ 32. Proof. reflexivity. Qed.

Lemma lt_loop_ok a : a < W -> forall n b, b < W ->
  exists l, lt_loop m n a W b = Ok l /\ length l = n /\ Forall (fun i => i < W) l.
Proof.
  intros Ha. induction n as [|n IH]; intros b Hb; cbn [lt_loop].
  - exists []. repeat split. constructor.
  - rewrite add_w_small by lia. cbn [obind]. rewrite rem_ok_nz by lia. cbn [obind].
    assert (Hb' : (b + a) mod W < W) by (apply N.mod_lt; lia).
    destruct (IH _ Hb') as [l [E [Hl Hf]]]. rewrite E. cbn [obind].
    eexists. split; [reflexivity|]. split; [cbn [length]; congruence|].
    constructor; assumption.
Qed.

(* the walk of b1 *)
Fixpoint walk (k : nat) (a1 b1 : N) : N :=
  match k with O => b1 | S k' => walk k' a1 ((b1 + a1) mod P1) end.

Lemma walk_formula a1 : P1 <> 0 -> forall k b1, b1 < P1 ->
  walk k a1 b1 = (b1 + N.of_nat k * a1) mod P1.
Proof.
  intros Hnz. induction k as [|k IH]; intros b1 Hb1; cbn [walk].
  - rewrite N.mul_0_l, N.add_0_r. symmetry. apply N.mod_small. exact Hb1.
  - rewrite IH by (apply N.mod_lt; exact Hnz).
    rewrite N.add_mod_idemp_l by exact Hnz. f_equal. rewrite Nat2N.inj_succ. lia.
Qed.

Lemma pi_skip_ok a1 : a1 < P1 -> forall k b1 fuel, b1 < P1 -> walk k a1 b1 < P -> (k < fuel)%nat ->
  exists r, pi_skip m fuel a1 P P1 b1 = Ok r /\ r < P /\ r < P1.
Proof.
  intros Ha1. induction k as [|k IH]; intros b1 fuel Hb1 Hwalk Hfuel;
    (destruct fuel as [|f]; [lia|]); cbn [pi_skip]; cbn [walk] in Hwalk.
  - apply N.leb_gt in Hwalk. rewrite Hwalk. apply N.leb_gt in Hwalk. eauto.
  - destruct (N.leb_spec P b1) as [Hge|Hlt]; [|eauto].
    rewrite add_w_small by lia. cbn [obind]. rewrite rem_ok_nz by lia. cbn [obind].
    apply IH; [apply N.mod_lt; lia | exact Hwalk | lia].
Qed.

Hypothesis HP1prime : prime_N P1.

Lemma pi_skip_total a1 b1 : 1 <= a1 < P1 -> b1 < P1 ->
  exists r, pi_skip m (N.to_nat P1) a1 P P1 b1 = Ok r /\ r < P /\ r < P1.
Proof.
  intros Ha1 Hb1. destruct (prime_hits_zero P1 a1 b1 HP1prime Ha1 Hb1) as [k [Hk Hz]].
  apply (pi_skip_ok a1 (proj2 Ha1) (N.to_nat k) b1 (N.to_nat P1) Hb1); [|lia].
  rewrite walk_formula by lia. rewrite N2Nat.id, Hz. lia.
Qed.

Lemma pi_loop_ok a1 : 1 <= a1 < P1 -> forall n b1, b1 < P1 ->
  exists l, pi_loop m (N.to_nat P1) n a1 W P P1 b1 = Ok l /\ length l = n /\
            Forall (fun i => i < W + P) l.
Proof.
  intros Ha1. induction n as [|n IH]; intros b1 Hb1; cbn [pi_loop].
  - exists []. repeat split. constructor.
  - rewrite add_w_small by lia. cbn [obind]. rewrite rem_ok_nz by lia. cbn [obind].
    assert (Hb' : (b1 + a1) mod P1 < P1) by (apply N.mod_lt; lia).
    destruct (pi_skip_total a1 _ Ha1 Hb') as [r [E [Hr Hr1]]]. rewrite E. cbn [obind].
    rewrite add_w_small by lia. cbn [obind].
    destruct (IH r Hr1) as [l [El [Hl Hf]]]. rewrite El. cbn [obind].
    eexists. split; [reflexivity|]. split; [cbn [length]; congruence|].
    constructor; [lia | assumption].
Qed.

Lemma enc_indices_ok d a b d1 a1 b1 :
  1 <= d -> 1 <= a < W -> b < W -> (d1 = 2 \/ d1 = 3) -> 1 <= a1 < P1 -> b1 < P1 ->
  exists l, enc_indices m (d, a, b, d1, a1, b1) W P P1 = Ok l /\
            length l = N.to_nat (d + d1) /\ Forall (fun i => i < W + P) l.
Proof.
  intros Hd Ha Hb Hd1 Ha1 Hb1. unfold enc_indices.
  replace (0 <? d) with true by (symmetry; apply N.ltb_lt; lia).
  replace ((1 <=? a) && (a <? W)) with true
    by (symmetry; apply andb_true_iff; split; [apply N.leb_le | apply N.ltb_lt]; lia).
  replace (b <? W) with true by (symmetry; apply N.ltb_lt; lia).
  replace ((d1 =? 2) || (d1 =? 3)) with true
    by (symmetry; apply orb_true_iff; destruct Hd1; [left | right]; apply N.eqb_eq; assumption).
  replace ((1 <=? a1) && (a1 <? P1)) with true
    by (symmetry; apply andb_true_iff; split; [apply N.leb_le | apply N.ltb_lt]; lia).
  replace (b1 <? P1) with true by (symmetry; apply N.ltb_lt; lia).
  cbn [assert_ok obind]. cbv zeta.
  destruct (lt_loop_ok a (proj2 Ha) (N.to_nat (d - 1)) b Hb) as [l1 [E1 [Hl1 Hf1]]].
  rewrite E1. cbn [obind].
  destruct (pi_skip_total a1 b1 Ha1 Hb1) as [r [E2 [Hr Hr1]]]. rewrite E2. cbn [obind].
  rewrite add_w_small by lia. cbn [obind].
  destruct (pi_loop_ok a1 Ha1 (N.to_nat (d1 - 1)) r Hr1) as [l2 [E3 [Hl2 Hf2]]].
  rewrite E3. cbn [obind].
  eexists. split; [reflexivity|]. split.
  - cbn [length]. rewrite app_length. cbn [length]. rewrite Hl1, Hl2. lia.
  - constructor; [lia|]. apply Forall_app. split.
    + eapply Forall_impl; [|exact Hf1]. cbv beta. intros x Hx. lia.
    + constructor; [lia | exact Hf2].
Qed.

End Enc.

(* the asserts, as panics *)
Lemma enc_indices_assert_d m a b d1 a1 b1 W P P1 :
  enc_indices m (0, a, b, d1, a1, b1) W P P1 = Panic PAssert.
Proof. reflexivity. Qed.
