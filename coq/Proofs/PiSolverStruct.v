(* Structural inversion of the composite functions of Model/PiSolver.v: a successful run of a
   function yields the successful runs of its parts, with names that proofs can rely on. *)
From Coq Require Import NArith List Bool Lia Arith.
From RQ Require Import Base.Outcome Base.Ints Base.ListX Model.Octet Model.CMatrix Model.Slab
  Proofs.OutcomeLemmas Model.PiSolver Proofs.PiSolverBase.
Import ListNotations.
Open Scope N_scope.

(* invert a chain of binds / asserts in H : ... = Ok _ *)
Ltac obind_inv H :=
  match type of H with
  | obind (assert_ok ?b) _ = Ok _ =>
      let u := fresh "u" in let E := fresh "As" in
      apply obind_ok in H; destruct H as [u [E H]]; apply assert_ok_inv in E
  | obind ?e _ = Ok _ =>
      let a := fresh "a" in let E := fresh "E" in
      apply obind_ok in H; destruct H as [a [E H]]
  end.
Ltac omon H :=
  repeat (cbv beta iota in H; obind_inv H;
          repeat match goal with x : (_ * _)%type |- _ => destruct x end);
  cbv beta iota in H.

(* everything a successful iteration consists of, up to (not including) first_phase_verify *)
Definition fp_pre_step (m : mode) (s : pstate) (st : stats) (rops : list rowop)
  (s' : pstate) (st' : stats) (rops' : list rowop) : Prop :=
  exists end_row chosen r s1 s2 st1 s3 st2 tv pco r1 wu ec st3 s4 s5,
    usub m (ps_height s) (num_hdpc s) = Ok end_row /\
    first_phase_selection m st (ps_A s) (ps_i s) end_row = Ok (Some (chosen, r)) /\
    ps_i s <= chosen /\
    ps_swap_rows m s (ps_i s) chosen = Ok s1 /\
    onX m s1 (fun X => bm_swap_rows X (ps_i s) chosen) = Ok s2 /\
    st_swap_rows st (ps_i s) chosen = Ok st1 /\
    first_phase_swap_columns_substep m s2 st1 r = Ok (s3, st2) /\
    bm_get (ps_A s3) (ps_i s) (ps_i s) = Ok tv /\
    bm_ones_in_col (ps_A s3) (ps_i s) (ps_i s3 + 1) end_row = Ok pco /\
    usub m r 1 = Ok r1 /\
    usub m (ps_W s3) (ps_u s3) = Ok wu /\
    usub m wu r1 = Ok ec /\
    st_resize m st2 (ps_A s3) (ps_i s3 + 1) end_row (ps_i s3 + 1) ec pco = Ok st3 /\
    ofold (eliminate_row m r (ps_i s) tv) pco (s3, st3, RSwap (ps_i s) chosen :: rops) = Ok (s4, st', rops') /\
    eliminate_hdpc m (num_hdpc s) (ps_i s) tv r s4 = Ok s5 /\
    s' = advance s5 r1.

Definition verify_of (m : mode) (s : pstate) : outcome unit :=
  match m with Checked => first_phase_verify s | Release => Ok tt end.

Lemma first_phase_step_inv m s st rops s' st' rops' :
  first_phase_step m s st rops = Ok (Some (s', st', rops')) ->
  fp_pre_step m s st rops s' st' rops' /\ verify_of m s' = Ok tt.
Proof.
  unfold first_phase_step. intros H. omon H.
  destruct a0 as [[chosen r]|]; [|discriminate]. omon H.
  inversion H; subst. apply N.leb_le in As. destruct a10.
  split; [|exact E13]. unfold fp_pre_step.
  do 16 eexists. repeat (split; [eassumption|]). reflexivity.
Qed.

(* conversely: the run of an iteration whose parts succeed *)
Lemma fp_pre_step_run m s st rops s' st' rops' : fp_pre_step m s st rops s' st' rops' ->
  first_phase_step m s st rops =
    match verify_of m s' with Ok _ => Ok (Some (s', st', rops')) | Panic c => Panic c end.
Proof.
  intros (end_row & chosen & r & s1 & s2 & st1 & s3 & st2 & tv & pco & r1 & wu & ec & st3 & s4 & s5 &
    Eer & Esel & Hch & Esw & EX & Est & Esub & Etv & Epco & Er1 & Ewu & Eec & Ers & Eel & Ehd & ->).
  unfold first_phase_step. rewrite Eer. cbn [obind]. rewrite Esel. cbn [obind].
  apply N.leb_le in Hch. rewrite Hch. cbn [assert_ok obind].
  rewrite Esw. cbn [obind]. rewrite EX. cbn [obind]. rewrite Est. cbn [obind]. rewrite Esub. cbn [obind].
  rewrite Etv. cbn [obind]. rewrite Epco. cbn [obind]. rewrite Er1. cbn [obind]. rewrite Ewu. cbn [obind].
  rewrite Eec. cbn [obind]. rewrite Ers. cbn [obind]. rewrite Eel. cbn [obind]. rewrite Ehd. cbn [obind].
  unfold verify_of. destruct m; [reflexivity|]. destruct (first_phase_verify (advance s5 r1)) as [[]|c]; reflexivity.
Qed.

Lemma first_phase_step_none_inv m s st rops :
  first_phase_step m s st rops = Ok None ->
  exists end_row, usub m (ps_height s) (num_hdpc s) = Ok end_row /\
    first_phase_selection m st (ps_A s) (ps_i s) end_row = Ok None.
Proof.
  unfold first_phase_step. intros H. omon H.
  destruct a0 as [[chosen r]|]; [omon H; discriminate|]. eauto.
Qed.
