(* Proofs about Model/Layout.v: the crate's block / sub-block / symbol layout is the one of
   RFC 6330 4.4.1.2 as written in Spec/Layout.v, and the decoder's unpacking inverts it. *)
From Coq Require Import NArith List Bool Lia Arith ZifyBool.
From RQ Require Import Base.Outcome Base.Ints Base.ListX Spec.Layout Model.Layout Proofs.LayoutLists.
Import ListNotations.
Open Scope N_scope.
Arguments N.add : simpl never.
Arguments N.sub : simpl never.
Arguments N.mul : simpl never.
Arguments N.div : simpl never.
Arguments N.modulo : simpl never.
Arguments N.eqb : simpl never.
Arguments N.ltb : simpl never.
Arguments N.leb : simpl never.
Arguments N.pow : simpl never.

(* ---------------------------------------------------------------------------------------- *)
(* ceil, Partition                                                                           *)

Lemma divmod_cases a b : 0 < b -> exists q r, a = b * q + r /\ r < b /\ a / b = q /\ a mod b = r.
Proof.
  intros Hb. exists (a / b), (a mod b). repeat split.
  - apply N.div_mod. lia.
  - apply N.mod_lt. lia.
Qed.

Lemma ceil_eq a b : 0 < b -> ceil a b = ceil_div a b.
Proof.
  intros Hb. unfold ceil, ceil_div.
  destruct (divmod_cases a b Hb) as [q [r [Ha [Hr [Hq Hm]]]]]. rewrite Hq, Hm.
  destruct (r =? 0) eqn:E.
  - apply N.eqb_eq in E. symmetry. apply (N.div_unique _ b q (b - 1)); lia.
  - apply N.eqb_neq in E. symmetry. apply (N.div_unique _ b (q + 1) (r - 1)); lia.
Qed.

Lemma ceil_cases a b : 0 < b ->
  exists q r, a = b * q + r /\ r < b /\ a / b = q /\ a mod b = r /\
              ceil a b = (if r =? 0 then q else q + 1).
Proof.
  intros Hb. destruct (divmod_cases a b Hb) as [q [r [Ha [Hr [Hq Hm]]]]].
  exists q, r. repeat split; try assumption.
  rewrite (ceil_eq a b Hb). unfold ceil_div. rewrite Hq, Hm. reflexivity.
Qed.

Lemma ceil_bounds a b : 0 < b -> a <= ceil a b * b /\ ceil a b * b < a + b.
Proof.
  intros Hb. destruct (ceil_cases a b Hb) as [q [r [Ha [Hr [_ [_ Hc]]]]]]. rewrite Hc.
  destruct (r =? 0) eqn:E; [apply N.eqb_eq in E | apply N.eqb_neq in E]; nia.
Qed.

Lemma ceil_le_self a b : 0 < b -> ceil a b <= a.
Proof.
  intros Hb. destruct (ceil_cases a b Hb) as [q [r [Ha [Hr [_ [_ Hc]]]]]]. rewrite Hc.
  destruct (r =? 0) eqn:E; [apply N.eqb_eq in E | apply N.eqb_neq in E]; nia.
Qed.

Lemma ceil_mul k b : 0 < b -> ceil (k * b) b = k.
Proof.
  intros Hb. pose proof (ceil_bounds (k * b) b Hb) as [H1 H2]. nia.
Qed.

Lemma Partition_facts I J : 0 < J ->
  let IL := q1 (Partition I J) in let IS := q2 (Partition I J) in
  let JL := q3 (Partition I J) in let JS := q4 (Partition I J) in
  JL * IL + JS * IS = I /\ JL + JS = J /\ IL = ceil I J /\ IS = I / J /\ IS <= IL /\
  JL < J /\ (JL = 0 -> IL = IS) /\ IL * J < I + J /\ I <= IL * J.
Proof.
  intros HJ. unfold Partition, floor, q1, q2, q3, q4. cbv zeta.
  pose proof (ceil_bounds I J HJ) as [Hb1 Hb2].
  destruct (ceil_cases I J HJ) as [q [r [HI [Hr [Hq [_ Hc]]]]]]. rewrite Hq, Hc in *.
  destruct (r =? 0) eqn:E; [apply N.eqb_eq in E | apply N.eqb_neq in E];
    repeat split; try nia.
Qed.

Lemma int_div_ceil_ok a b : 0 < b -> ceil a b < 2 ^ 32 -> int_div_ceil a b = Ok (ceil a b).
Proof.
  intros Hb Hc. unfold int_div_ceil. rewrite (ceil_eq a b Hb) in *. unfold ceil_div in *.
  destruct (b =? 0) eqn:E; [apply N.eqb_eq in E; lia|].
  destruct (a mod b =? 0); unfold u32; rewrite wrap_small by exact Hc; reflexivity.
Qed.

Lemma int_div_ceil_mul k b : 0 < b -> k < 2 ^ 32 -> int_div_ceil (k * b) b = Ok k.
Proof.
  intros Hb Hk. rewrite int_div_ceil_ok; rewrite ?ceil_mul by exact Hb; [reflexivity | exact Hb | exact Hk].
Qed.

Lemma int_div_ceil_zero a : int_div_ceil a 0 = Panic PDivZero.
Proof. reflexivity. Qed.

(* the u32 -> u32 use of int_div_ceil inside partition never narrows *)
Lemma partition_ok i j : 0 < j -> i < 2 ^ 32 -> j < 2 ^ 32 -> partition i j = Ok (Partition i j).
Proof.
  intros Hj Hi Hj2. unfold partition.
  rewrite int_div_ceil_ok; [|exact Hj|pose proof (ceil_le_self i j Hj); lia].
  cbn [obind]. unfold div_ok. destruct (j =? 0) eqn:E; [apply N.eqb_eq in E; lia|].
  reflexivity.
Qed.

(* every intermediate u32 value of partition is in range: no wrap in either build mode *)
Lemma partition_u32_range i j : 0 < j -> i < 2 ^ 32 -> j < 2 ^ 32 ->
  (i / j) * j <= i /\ i - (i / j) * j <= j /\ ceil i j < 2 ^ 32 /\ (i / j) * j < 2 ^ 32.
Proof.
  intros Hj Hi Hj2. pose proof (ceil_le_self i j Hj).
  destruct (divmod_cases i j Hj) as [q [r [Ha [Hr [Hq Hm]]]]]. rewrite Hq.
  change (2 ^ 32) with 4294967296 in *. repeat split; lia.
Qed.

Lemma partition_zero i : partition i 0 = Panic PDivZero.
Proof. reflexivity. Qed.

(* ---------------------------------------------------------------------------------------- *)
(* sums over index ranges                                                                    *)

Lemma rangeN_S n : rangeN (S n) = rangeN n ++ [N.of_nat n].
Proof. unfold rangeN. rewrite seq_S, map_app. reflexivity. Qed.

Lemma sumN_app l1 l2 : sumN (l1 ++ l2) = sumN l1 + sumN l2.
Proof. induction l1 as [|x t IH]; cbn [app sumN fold_right]; [reflexivity|]. fold (sumN (t ++ l2)). fold (sumN t). rewrite IH. lia. Qed.

Lemma sum_piecewise a x y (n : nat) :
  sumN (map (fun s => if s <? a then x else y) (rangeN n)) =
  if N.of_nat n <=? a then N.of_nat n * x else a * x + (N.of_nat n - a) * y.
Proof.
  induction n as [|n IH].
  - cbn. destruct (0 <=? a) eqn:E; [reflexivity | apply N.leb_gt in E; lia].
  - rewrite rangeN_S, map_app, sumN_app, IH. cbn [map sumN fold_right].
    destruct (N.of_nat n <=? a) eqn:E1; destruct (N.of_nat (S n) <=? a) eqn:E2;
      destruct (N.of_nat n <? a) eqn:E3; nia.
Qed.

Lemma to_nat_sumN (f : N -> N) (l : list nat) :
  N.to_nat (sumN (map f (map N.of_nat l))) = list_sum (map (fun s => N.to_nat (f (N.of_nat s))) l).
Proof.
  induction l as [|x t IH]; [reflexivity|].
  cbn [map sumN fold_right]. rewrite list_sum_cons, <- IH. unfold sumN. lia.
Qed.

Lemma seq_add_map a b : seq a b = map (Nat.add a) (seq 0 b).
Proof.
  revert a; induction b as [|b IH]; intros a; [reflexivity|].
  cbn [seq map]. f_equal; [lia|]. rewrite (IH (S a)), (IH 1%nat), map_map.
  apply map_ext. intros i. lia.
Qed.

Lemma rangeN_app a b : rangeN (a + b) = rangeN a ++ map (fun i => N.of_nat a + i) (rangeN b).
Proof.
  unfold rangeN. rewrite seq_app, map_app. f_equal. cbn [Nat.add].
  rewrite seq_add_map, !map_map. apply map_ext. intros i. lia.
Qed.

Lemma omapM_map_ok {A B C} (f : B -> outcome C) (g : A -> B) (h : A -> C) (l : list A) :
  (forall x, In x l -> f (g x) = Ok (h x)) -> omapM f (map g l) = Ok (map h l).
Proof.
  induction l as [|x t IH]; intros H; [reflexivity|].
  cbn [map omapM]. rewrite (H x (or_introl eq_refl)), IH; [reflexivity|].
  intros y Hy. apply H. right. exact Hy.
Qed.

Lemma omapM_ok {A C} (f : A -> outcome C) (h : A -> C) (l : list A) :
  (forall x, In x l -> f x = Ok (h x)) -> omapM f l = Ok (map h l).
Proof. intros H. rewrite <- (map_id l) at 1. apply omapM_map_ok. exact H. Qed.

Lemma enumerate_from_map {A} (g : nat -> A) (a n : nat) :
  enumerate_from (N.of_nat a) (map g (seq a n)) = map (fun i => (N.of_nat i, g i)) (seq a n).
Proof.
  revert a; induction n as [|n IH]; intros a; [reflexivity|].
  cbn [seq map enumerate_from]. f_equal.
  replace (N.of_nat a + 1) with (N.of_nat (S a)) by lia. apply IH.
Qed.

(* ---------------------------------------------------------------------------------------- *)
(* block structure under a valid configuration                                               *)

Lemma pow8 : 2 ^ 8 = 256. Proof. reflexivity. Qed.
Lemma pow16 : 2 ^ 16 = 65536. Proof. reflexivity. Qed.
Lemma pow32 : 2 ^ 32 = 4294967296. Proof. reflexivity. Qed.
Lemma pow40 : 2 ^ 40 = 1099511627776. Proof. reflexivity. Qed.
Lemma pow48 : 2 ^ 48 = 281474976710656. Proof. reflexivity. Qed.

Lemma Partition_Z c : Partition (Kt c) (cZ c) = (KL c, KS c, ZL c, ZS c).
Proof. reflexivity. Qed.
Lemma Partition_N c : Partition (cT c / cAl c) (cN c) = (TL c, TS c, NL c, NS c).
Proof. reflexivity. Qed.

Lemma blk_pre_closed c j :
  sumN (map (blk_K c) (rangeN (N.to_nat j))) =
  if j <=? ZL c then j * KL c else ZL c * KL c + (j - ZL c) * KS c.
Proof.
  unfold blk_K. rewrite sum_piecewise, N2Nat.id. reflexivity.
Qed.

Lemma blk_off_0 c : blk_off c 0 = 0.
Proof. unfold blk_off. cbn [N.to_nat rangeN seq map sumN fold_right]. lia. Qed.

Lemma blk_off_succ c j : blk_off c (j + 1) = blk_off c j + blk_K c j * cT c.
Proof.
  unfold blk_off. replace (N.to_nat (j + 1)) with (S (N.to_nat j)) by lia.
  rewrite rangeN_S, map_app, sumN_app, N2Nat.id. cbn [map sumN fold_right]. lia.
Qed.

Section Cfg.
Variable c : cfg.
Variable data : list N.
Hypothesis OK : cfg_ok c data.

Lemma cfg_facts :
  0 < cT c /\ 0 < cAl c /\ 0 < cZ c /\ 0 < cN c /\ lenN data = cF c /\
  cF c <= Kt c * cT c /\ Kt c * cT c < cF c + cT c /\
  ZL c * KL c + ZS c * KS c = Kt c /\ ZL c + ZS c = cZ c /\ 1 <= KS c /\ KS c <= KL c /\
  KL c <= 56403 /\ Kt c < 2 ^ 32 /\ cZ c < 256 /\ cT c < 65536 /\ (ZL c = 0 -> KL c = KS c).
Proof.
  destruct OK as (HF & Hlen & HAl & Hdiv & HT & [HN1 HN2] & [HZ1 HZ2] & HKL & HZ8 & HT16 & HN16 & HAl8 & HF40 & Hb).
  rewrite pow8 in *. rewrite pow16 in *. rewrite pow32. rewrite pow40 in *.
  assert (HTp : 0 < cT c) by lia. assert (HZp : 0 < cZ c) by lia.
  pose proof (ceil_bounds (cF c) (cT c) HTp) as [Hk1 Hk2]. fold (Kt c) in Hk1, Hk2.
  pose proof (Partition_facts (Kt c) (cZ c) HZp) as P. cbv zeta in P.
  fold (KL c) (KS c) (ZL c) (ZS c) in P.
  destruct P as (P1 & P2 & P3 & P4 & P5 & P6 & P7 & P8 & P9).
  assert (HKS : 1 <= KS c).
  { rewrite P4. destruct (divmod_cases (Kt c) (cZ c) HZp) as [q [r [Ha [Hr [Hq _]]]]]. rewrite Hq. nia. }
  unfold lenN. repeat split; try lia; try nia.
Qed.

Lemma blk_K_bounds j : 1 <= blk_K c j /\ blk_K c j <= 56403.
Proof.
  destruct cfg_facts as (_ & _ & _ & _ & _ & _ & _ & _ & _ & H1 & H2 & H3 & _).
  unfold blk_K. destruct (j <? ZL c); lia.
Qed.

Lemma blk_off_Z : blk_off c (cZ c) = Kt c * cT c.
Proof.
  destruct cfg_facts as (_ & _ & _ & _ & _ & _ & _ & H1 & H2 & _).
  unfold blk_off. rewrite blk_pre_closed.
  destruct (cZ c <=? ZL c) eqn:E.
  - assert (ZS c = 0) by lia. assert (ZL c = cZ c) by lia. nia.
  - replace (cZ c - ZL c) with (ZS c) by lia. nia.
Qed.

(* prefix offsets are monotone and end inside the padded object *)
Lemma blk_off_mono j : j < cZ c -> blk_off c (j + 1) <= Kt c * cT c.
Proof.
  intros Hj. destruct cfg_facts as (_ & _ & _ & _ & _ & _ & _ & H1 & H2 & H3 & H4 & _).
  unfold blk_off. rewrite blk_pre_closed. rewrite <- H1.
  destruct (j + 1 <=? ZL c) eqn:E; nia.
Qed.

(* only the last block can reach past F: every block starts strictly inside the object *)
Lemma blk_off_lt_F j : j < cZ c -> blk_off c j < cF c.
Proof.
  intros Hj. pose proof (blk_off_mono j Hj) as Hm. rewrite blk_off_succ in Hm.
  pose proof (blk_K_bounds j) as [Hk _].
  destruct cfg_facts as (HT & _ & _ & _ & _ & HF1 & HF2 & _). nia.
Qed.

Lemma layout_usize_range : Kt c * cT c < 2 ^ 48.
Proof.
  destruct cfg_facts as (_ & _ & _ & _ & _ & _ & _ & _ & _ & _ & _ & _ & H1 & _ & H2 & _).
  rewrite pow32 in H1. rewrite pow48. nia.
Qed.

Lemma push_blocks_ok n offset chk idx :
  (forall i, (i < n)%nat -> chk (idx + N.of_nat (S i) * offset) = Ok tt) ->
  push_blocks n offset chk idx =
  Ok (map (fun i => (idx + N.of_nat i * offset, idx + N.of_nat i * offset + offset)) (seq 0 n),
      idx + N.of_nat n * offset).
Proof.
  revert idx; induction n as [|n IH]; intros idx H.
  - cbn [push_blocks seq map]. f_equal. f_equal. lia.
  - cbn [push_blocks].
    pose proof (H 0%nat ltac:(lia)) as H0. replace (idx + N.of_nat 1 * offset) with (idx + offset) in H0 by lia.
    rewrite H0. cbn [obind]. rewrite IH.
    + cbn [obind]. f_equal. f_equal; [|lia].
      cbn [seq map]. f_equal; [f_equal; lia|].
      rewrite <- seq_shift, map_map. apply map_ext. intros i. f_equal; lia.
    + intros i Hi. rewrite <- (H (S i) ltac:(lia)). f_equal. lia.
Qed.

Lemma calculate_block_offsets_ok :
  calculate_block_offsets (cF c) (cT c) (cZ c) (lenN data) =
  Ok (map (fun j => (blk_off c j, blk_off c j + blk_K c j * cT c)) (rangeN (N.to_nat (cZ c)))).
Proof.
  destruct cfg_facts as (HT & HAl & HZ & HN & Hlen & HF1 & HF2 & HS & HZZ & HKS & HKSL & HKL & HKt & HZ8 & HT16 & HZL0).
  unfold calculate_block_offsets.
  rewrite int_div_ceil_ok by (try exact HT; exact HKt). fold (Kt c). cbn [obind].
  rewrite partition_ok by (try exact HZ; try exact HKt; rewrite pow32; lia).
  rewrite Partition_Z. cbn [obind].
  rewrite push_blocks_ok by reflexivity. cbn [obind].
  rewrite push_blocks_ok.
  - cbn [obind]. f_equal.
    rewrite <- HZZ. replace (N.to_nat (ZL c + ZS c)) with (N.to_nat (ZL c) + N.to_nat (ZS c))%nat by lia.
    rewrite rangeN_app, map_app. unfold rangeN. rewrite !map_map. f_equal.
    + apply map_ext_in. intros i Hi. apply in_seq in Hi.
      unfold blk_off. rewrite blk_pre_closed. unfold blk_K.
      destruct (N.of_nat i <=? ZL c) eqn:E1; [|lia].
      destruct (N.of_nat i <? ZL c) eqn:E2; [|lia]. f_equal; nia.
    + apply map_ext_in. intros i Hi. apply in_seq in Hi. rewrite N2Nat.id.
      unfold blk_off. rewrite blk_pre_closed. unfold blk_K.
      destruct (ZL c + N.of_nat i <? ZL c) eqn:E2; [lia|].
      destruct (ZL c + N.of_nat i <=? ZL c) eqn:E1.
      * assert (N.of_nat i = 0) as -> by lia. f_equal; nia.
      * replace (ZL c + N.of_nat i - ZL c) with (N.of_nat i) by lia. f_equal; nia.
  - intros i Hi. destruct (lenN data <? _) eqn:E; [|reflexivity].
    unfold assert_ok. destruct (lenN data <? Kt c * cT c) eqn:E2; [reflexivity|]. nia.
Qed.

End Cfg.

(* ---------------------------------------------------------------------------------------- *)
(* slices of the model                                                                       *)

Lemma slice_ok l a n :
  a + n <= lenN l -> slice l a (a + n) = Ok (firstn (N.to_nat n) (skipn (N.to_nat a) l)).
Proof.
  intros H. unfold slice.
  destruct (a <=? a + n) eqn:E1; [|lia]. destruct (a + n <=? lenN l) eqn:E2; [|lia].
  cbn [andb]. replace (a + n - a) with n by lia. reflexivity.
Qed.

Lemma slice_window (SP X Y : list N) n :
  length X = N.to_nat n -> slice (SP ++ X ++ Y) (lenN SP) (lenN SP + n) = Ok X.
Proof.
  intros HX. rewrite slice_ok by (unfold lenN; rewrite !app_length; lia). f_equal.
  unfold lenN. rewrite Nat2N.id, skipn_app, Nat.sub_diag, skipn_all. cbn [app skipn].
  rewrite <- HX, firstn_app, Nat.sub_diag, firstn_all. cbn [firstn]. apply app_nil_r.
Qed.

Lemma write_slice_ok (P X C src : list N) a :
  N.to_nat a = length P -> length X = length src ->
  write_slice (P ++ X ++ C) a src = Ok (P ++ src ++ C).
Proof.
  intros Ha HX. unfold write_slice.
  destruct (a + lenN src <=? lenN (P ++ X ++ C)) eqn:E.
  - f_equal. replace (N.to_nat (a + lenN src)) with (N.to_nat a + length src)%nat by (unfold lenN; lia).
    apply upd_window; assumption.
  - unfold lenN in E. rewrite !app_length in E. lia.
Qed.

Lemma firstn_repeat_le {A} (x : A) n m : (n <= m)%nat -> firstn n (repeat x m) = repeat x n.
Proof.
  revert m; induction n as [|n IH]; intros m H; [reflexivity|].
  destruct m as [|m]; [lia|]. cbn [repeat firstn]. f_equal. apply IH. lia.
Qed.

(* ---------------------------------------------------------------------------------------- *)
(* the zero-padded object and its blocks                                                     *)

Definition padded (c : cfg) (data : list N) : list N :=
  data ++ repeat 0 (N.to_nat (Kt c * cT c - cF c)).

Definition blockP (c : cfg) (data : list N) (j : N) : list N :=
  firstn (N.to_nat (blk_K c j * cT c)) (skipn (N.to_nat (blk_off c j)) (padded c data)).

Section Blocks.
Variable c : cfg.
Variable data : list N.
Hypothesis OK : cfg_ok c data.

Lemma padded_length : length (padded c data) = N.to_nat (Kt c * cT c).
Proof.
  destruct (cfg_facts c data OK) as (_ & _ & _ & _ & Hlen & HF1 & _).
  unfold padded. rewrite app_length, repeat_length. unfold lenN in Hlen. lia.
Qed.

Lemma blockP_length j : j < cZ c -> length (blockP c data j) = N.to_nat (blk_K c j * cT c).
Proof.
  intros Hj. unfold blockP. apply firstn_skipn_length. rewrite padded_length.
  pose proof (blk_off_mono c data OK j Hj) as H. rewrite blk_off_succ in H. lia.
Qed.

Lemma blockP_is_spec j : j < cZ c -> blockP c data j = block_bytes c data j.
Proof.
  intros Hj. unfold blockP, block_bytes.
  rewrite (slice_as_map _ _ _ 0).
  - unfold rangeN. rewrite map_map. apply map_ext. intros i.
    unfold padded. rewrite nth_app_repeat. unfold blk_byte, obj_byte. f_equal. lia.
  - rewrite padded_length.
    pose proof (blk_off_mono c data OK j Hj) as H. rewrite blk_off_succ in H. lia.
Qed.

Lemma encoder_block_ok j : j < cZ c ->
  encoder_block data (blk_off c j, blk_off c j + blk_K c j * cT c) = Ok (blockP c data j).
Proof.
  intros Hj. destruct (cfg_facts c data OK) as (_ & _ & _ & _ & Hlen & HF1 & _).
  pose proof (blk_off_mono c data OK j Hj) as Hm. rewrite blk_off_succ in Hm.
  pose proof (blk_off_lt_F c data OK j Hj) as Hs.
  assert (HL : length data = N.to_nat (cF c)) by (unfold lenN in Hlen; lia).
  unfold encoder_block, blockP, padded. rewrite Hlen.
  rewrite skipn_app, firstn_app, skipn_length, HL.
  replace (N.to_nat (blk_off c j) - N.to_nat (cF c))%nat with 0%nat by lia. cbn [skipn].
  destruct (cF c <? blk_off c j + blk_K c j * cT c) eqn:E.
  - unfold slice_from. rewrite Hlen. destruct (blk_off c j <=? cF c) eqn:E2; [|lia].
    cbn [obind]. f_equal. f_equal.
    + symmetry. apply firstn_all2. rewrite skipn_length. lia.
    + symmetry. rewrite firstn_repeat_le by lia. f_equal. lia.
  - unfold slice. rewrite Hlen.
    destruct (blk_off c j <=? blk_off c j + blk_K c j * cT c) eqn:E1; [|lia].
    destruct (blk_off c j + blk_K c j * cT c <=? cF c) eqn:E2; [|lia]. cbn [andb].
    f_equal. replace (blk_off c j + blk_K c j * cT c - blk_off c j) with (blk_K c j * cT c) by lia.
    replace (N.to_nat (blk_K c j * cT c) - (N.to_nat (cF c) - N.to_nat (blk_off c j)))%nat with 0%nat by lia.
    cbn [firstn]. symmetry. apply app_nil_r.
Qed.

Lemma encoder_blocks_ok :
  encoder_blocks c data = Ok (map (blockP c data) (rangeN (N.to_nat (cZ c)))).
Proof.
  unfold encoder_blocks. rewrite (calculate_block_offsets_ok c data OK). cbn [obind].
  apply omapM_map_ok. intros j Hj. apply rangeN_in in Hj. apply encoder_block_ok. lia.
Qed.

Lemma blocks_concat : concat (map (blockP c data) (rangeN (N.to_nat (cZ c)))) = padded c data.
Proof.
  unfold rangeN. rewrite map_map.
  rewrite (map_seq_ext _ (fun j => firstn (N.to_nat (blk_off c (N.of_nat (S j))) - N.to_nat (blk_off c (N.of_nat j)))
                                    (skipn (N.to_nat (blk_off c (N.of_nat j))) (padded c data)))).
  - rewrite (concat_windows (fun j => N.to_nat (blk_off c (N.of_nat j)))).
    + rewrite N2Nat.id, (blk_off_Z c data OK), <- padded_length. apply firstn_all.
    + cbn [N.of_nat]. rewrite blk_off_0. reflexivity.
    + intros j Hj. replace (N.of_nat (S j)) with (N.of_nat j + 1) by lia. rewrite blk_off_succ. lia.
  - intros j Hj. unfold blockP. f_equal.
    replace (N.of_nat (S j)) with (N.of_nat j + 1) by lia. rewrite blk_off_succ. lia.
Qed.

Lemma pad_lt_T : Kt c * cT c - cF c < cT c.
Proof. destruct (cfg_facts c data OK) as (HT & _ & _ & _ & _ & HF1 & HF2 & _). lia. Qed.

End Blocks.

(* ---------------------------------------------------------------------------------------- *)
(* the interleave loops of create_symbols                                                    *)

Lemma extend_symbols_ok data bytes (f : nat -> list N) a k offset :
  offset + N.of_nat k * bytes <= lenN data ->
  extend_symbols data bytes (map f (seq a k)) offset =
  Ok (map (fun m => f m ++ firstn (N.to_nat bytes)
                              (skipn (N.to_nat offset + (m - a) * N.to_nat bytes) data)) (seq a k),
      offset + N.of_nat k * bytes).
Proof.
  revert a offset; induction k as [|k IH]; intros a offset H.
  - cbn [seq map extend_symbols]. f_equal. f_equal. lia.
  - cbn [seq map extend_symbols]. rewrite slice_ok by lia. cbn [obind].
    rewrite IH by lia. cbn [obind]. f_equal. f_equal; [|lia]. f_equal.
    + rewrite Nat.sub_diag, Nat.mul_0_l, Nat.add_0_r. reflexivity.
    + apply map_seq_ext. intros m Hm. f_equal. f_equal. f_equal.
      replace (m - a)%nat with (S (m - S a)) by lia. lia.
Qed.

Definition lens_gen (tl ts nl al : N) (sbs : list N) : list nat :=
  map (fun sb => N.to_nat (if sb <? nl then tl * al else ts * al)) sbs.

Lemma sub_block_loop_ok data tl ts nl al sbs K (g : nat -> list N) offset :
  (N.to_nat offset + K * list_sum (lens_gen tl ts nl al sbs) <= length data)%nat ->
  sub_block_loop data tl ts nl al sbs (map g (seq 0 K)) offset =
  Ok (map (fun m => g m ++ symr (skipn (N.to_nat offset) data) K (lens_gen tl ts nl al sbs) m) (seq 0 K),
      offset + N.of_nat (K * list_sum (lens_gen tl ts nl al sbs))).
Proof.
  revert g offset; induction sbs as [|sb rest IH]; intros g offset H.
  - cbn [sub_block_loop lens_gen map symr list_sum fold_right]. f_equal. f_equal; [|lia].
    apply map_ext. intros m. symmetry. apply app_nil_r.
  - cbn [lens_gen map] in *. fold (lens_gen tl ts nl al rest) in *.
    rewrite list_sum_cons in *. cbn [sub_block_loop].
    set (bytes := if sb <? nl then tl * al else ts * al) in *.
    rewrite extend_symbols_ok by (unfold lenN; nia). cbn [obind].
    rewrite IH by nia. f_equal. f_equal; [|nia].
    apply map_seq_ext. intros m Hm. cbn [symr]. rewrite <- app_assoc. f_equal. f_equal.
    + rewrite skipn_skipn', Nat.sub_0_r. reflexivity.
    + rewrite skipn_skipn'. f_equal. f_equal. nia.
Qed.

(* ---------------------------------------------------------------------------------------- *)
(* the un-interleave loop of unpack_sub_blocks                                               *)

Lemma unpack_loop_ok tl ts nl al K m sbs : (m < K)%nat -> forall (B R0 P SP : list N),
  length B = (K * list_sum (lens_gen tl ts nl al sbs))%nat ->
  length R0 = (K * list_sum (lens_gen tl ts nl al sbs))%nat ->
  unpack_loop tl ts nl al (N.of_nat K) (SP ++ symr B K (lens_gen tl ts nl al sbs) m) (N.of_nat m) sbs
              (P ++ mix B R0 K m (lens_gen tl ts nl al sbs)) (lenN SP) (lenN P) =
  Ok (P ++ mix B R0 K (S m) (lens_gen tl ts nl al sbs)).
Proof.
  intros Hm. induction sbs as [|sb rest IH]; intros B R0 P SP HB HR.
  - reflexivity.
  - cbn [lens_gen map] in *. fold (lens_gen tl ts nl al rest) in *.
    rewrite list_sum_cons in *. cbn [unpack_loop symr mix].
    set (bytes := if sb <? nl then tl * al else ts * al) in *.
    set (b := N.to_nat bytes) in *. set (lens := lens_gen tl ts nl al rest) in *.
    pose proof (cell_bound K m b (list_sum lens) Hm) as Hcell.
    set (X := firstn b (skipn (m * b) B)).
    set (Y := symr (skipn (K * b) B) K lens m).
    set (A1 := firstn (m * b) B).
    set (M := mix (skipn (K * b) B) (skipn (K * b) R0) K m lens).
    set (W := firstn b (skipn (m * b) R0)).
    set (C1 := firstn ((K - S m) * b) (skipn (S m * b) R0)).
    assert (HX : length X = b) by (apply firstn_skipn_length; lia).
    assert (HW : length W = b) by (apply firstn_skipn_length; lia).
    assert (HA1 : length A1 = (m * b)%nat) by (unfold A1; rewrite firstn_length; nia).
    assert (HC1 : length C1 = ((K - S m) * b)%nat) by (apply firstn_skipn_length; nia).
    assert (Hsplit : firstn ((K - m) * b) (skipn (m * b) R0) = W ++ C1).
    { unfold W, C1. replace ((K - m) * b)%nat with (b + (K - S m) * b)%nat by nia.
      rewrite firstn_add_split, skipn_skipn'. f_equal. f_equal. f_equal. lia. }
    rewrite Hsplit.
    rewrite (slice_window SP X Y bytes) by exact HX. cbn [obind].
    replace (P ++ A1 ++ (W ++ C1) ++ M) with ((P ++ A1) ++ W ++ (C1 ++ M))
      by (rewrite <- !app_assoc; reflexivity).
    rewrite write_slice_ok; [|unfold lenN; rewrite app_length; nia | lia]. cbn [obind].
    replace (SP ++ X ++ Y) with ((SP ++ X) ++ Y) by (rewrite <- app_assoc; reflexivity).
    replace ((P ++ A1) ++ X ++ C1 ++ M) with ((P ++ A1 ++ X ++ C1) ++ M)
      by (rewrite <- !app_assoc; reflexivity).
    replace (lenN SP + bytes) with (lenN (SP ++ X)) by (unfold lenN; rewrite app_length; lia).
    replace (lenN P + bytes * N.of_nat K) with (lenN (P ++ A1 ++ X ++ C1))
      by (unfold lenN; rewrite !app_length; nia).
    unfold Y, M. rewrite IH by (rewrite skipn_length; nia). f_equal.
    rewrite <- !app_assoc. f_equal.
    replace (S m * b)%nat with (m * b + b)%nat by lia.
    rewrite firstn_add_split. fold A1 X. rewrite <- !app_assoc. reflexivity.
Qed.

(* ---------------------------------------------------------------------------------------- *)
(* sub-block structure under a valid configuration                                           *)

(* sub-symbol sizes of the N sub-blocks, in order *)
Definition lens_of (c : cfg) : list nat :=
  lens_gen (TL c) (TS c) (NL c) (cAl c) (rangeN (N.to_nat (cN c))).

Lemma lens_of_eq c :
  lens_of c = map (fun s => N.to_nat (sub_len c (N.of_nat s))) (seq 0 (N.to_nat (cN c))).
Proof. unfold lens_of, lens_gen, rangeN. rewrite map_map. reflexivity. Qed.

Section Sub.
Variable c : cfg.
Variable data : list N.
Hypothesis OK : cfg_ok c data.

Lemma sub_facts :
  NL c + NS c = cN c /\ NL c * TL c + NS c * TS c = cT c / cAl c /\ cT c / cAl c * cAl c = cT c /\
  partition (cT c / cAl c) (cN c) = Ok (TL c, TS c, NL c, NS c) /\ 0 < cT c /\ 0 < cAl c /\
  1 <= cN c /\ cT c < 65536.
Proof.
  destruct OK as (HF & Hlen & HAl & Hdiv & HT & [HN1 HN2] & [HZ1 HZ2] & HKL & HZ8 & HT16 & HN16 & HAl8 & HF40 & Hb).
  rewrite pow16 in *.
  assert (HNp : 0 < cN c) by lia.
  pose proof (Partition_facts (cT c / cAl c) (cN c) HNp) as P. cbv zeta in P.
  fold (TL c) (TS c) (NL c) (NS c) in P.
  destruct P as (P1 & P2 & _).
  assert (Hd : cT c / cAl c * cAl c = cT c).
  { pose proof (N.div_mod (cT c) (cAl c) ltac:(lia)) as H. lia. }
  assert (Hq : cT c / cAl c <= cT c) by nia.
  repeat split; try lia.
  rewrite <- Partition_N. apply partition_ok; rewrite ?pow32; lia.
Qed.

Lemma lens_sum : list_sum (lens_of c) = N.to_nat (cT c).
Proof.
  destruct sub_facts as (H1 & H2 & H3 & _).
  rewrite lens_of_eq, <- (to_nat_sumN (sub_len c)). fold (rangeN (N.to_nat (cN c))).
  unfold sub_len. rewrite sum_piecewise, N2Nat.id. f_equal.
  destruct (cN c <=? NL c) eqn:E.
  - assert (NS c = 0) by lia. assert (NL c = cN c) by lia. nia.
  - replace (cN c - NL c) with (NS c) by lia. nia.
Qed.

Lemma lens_of_N1 : cN c = 1 -> lens_of c = [N.to_nat (cT c)].
Proof.
  intros H1. pose proof lens_sum as Hs. rewrite lens_of_eq in *. rewrite H1 in *.
  change (N.to_nat 1) with 1%nat in *. cbn [seq map] in *.
  rewrite list_sum_cons in Hs. cbn [list_sum fold_right] in Hs. f_equal. lia.
Qed.

(* create_symbols: symbol m of a block of K symbols is the interleave [symr] of its sub-blocks *)
Lemma create_symbols_ok B K : lenN B = K * cT c ->
  create_symbols c B = Ok (map (symr B (N.to_nat K) (lens_of c)) (seq 0 (N.to_nat K))).
Proof.
  intros HB. destruct sub_facts as (H1 & H2 & H3 & Hp & HT & HAl & HN & HT16).
  assert (HBn : length B = (N.to_nat K * N.to_nat (cT c))%nat) by (unfold lenN in HB; lia).
  unfold create_symbols, rem_ok, div_ok.
  destruct (cT c =? 0) eqn:ET; [apply N.eqb_eq in ET; lia|].
  rewrite HB, N.mod_mul by lia. cbn [obind]. rewrite N.eqb_refl. cbn [obind assert_ok].
  destruct (1 <? cN c) eqn:EN.
  - rewrite N.div_mul by lia. cbn [obind].
    destruct (cAl c =? 0) eqn:EA; [apply N.eqb_eq in EA; lia|]. cbn [obind].
    rewrite Hp. cbn [obind]. rewrite H1, repeat_as_map. fold (lens_of c).
    rewrite sub_block_loop_ok; fold (lens_of c); rewrite lens_sum; [|cbn [N.to_nat]; lia].
    cbn [obind]. replace (0 + N.of_nat (N.to_nat K * N.to_nat (cT c))) with (K * cT c) by lia.
    rewrite N.eqb_refl. cbn [assert_ok obind]. reflexivity.
  - assert (HN1 : cN c = 1) by lia. f_equal. unfold chunks.
    rewrite HB, <- ceil_eq, ceil_mul by exact HT. rewrite lens_of_N1 by exact HN1.
    unfold rangeN. rewrite map_map. apply map_ext. intros m. cbn [symr].
    rewrite app_nil_r. f_equal. f_equal. lia.
Qed.

(* unpack_sub_blocks writes cell m of every sub-block *)
Lemma unpack_sub_blocks_ok K m (B R0 : list N) : (m < K)%nat ->
  length B = (K * N.to_nat (cT c))%nat -> length R0 = (K * N.to_nat (cT c))%nat ->
  unpack_sub_blocks c (N.of_nat K) (mix B R0 K m (lens_of c)) (symr B K (lens_of c) m) (N.of_nat m)
  = Ok (mix B R0 K (S m) (lens_of c)).
Proof.
  intros Hm HB HR. destruct sub_facts as (H1 & H2 & H3 & Hp & HT & HAl & HN & HT16).
  unfold unpack_sub_blocks, div_ok.
  destruct (cAl c =? 0) eqn:EA; [apply N.eqb_eq in EA; lia|]. cbn [obind].
  rewrite Hp. cbn [obind]. rewrite H1.
  pose proof (unpack_loop_ok (TL c) (TS c) (NL c) (cAl c) K m (rangeN (N.to_nat (cN c))) Hm B R0 [] []) as U.
  fold (lens_of c) in U. rewrite lens_sum in U. cbn [app] in U. apply U; assumption.
Qed.

Lemma unpack_all_ok K (B R0 : list N) :
  length B = (K * N.to_nat (cT c))%nat -> length R0 = (K * N.to_nat (cT c))%nat ->
  forall n m0, (m0 + n = K)%nat ->
  unpack_all c (N.of_nat K) (enumerate_from (N.of_nat m0) (map (symr B K (lens_of c)) (seq m0 n)))
             (mix B R0 K m0 (lens_of c)) = Ok (mix B R0 K K (lens_of c)).
Proof.
  intros HB HR. induction n as [|n IH]; intros m0 Hm.
  - cbn [seq map enumerate_from unpack_all]. replace m0 with K by lia. reflexivity.
  - cbn [seq map enumerate_from unpack_all].
    rewrite unpack_sub_blocks_ok by (try assumption; lia). cbn [obind].
    replace (N.of_nat m0 + 1) with (N.of_nat (S m0)) by lia. apply IH. lia.
Qed.

Lemma block_from_all_source_ok K (B : list N) : lenN B = K * cT c ->
  block_from_all_source c K (map (symr B (N.to_nat K) (lens_of c)) (seq 0 (N.to_nat K))) = Ok B.
Proof.
  intros HB.
  assert (HBn : length B = (N.to_nat K * N.to_nat (cT c))%nat) by (unfold lenN in HB; lia).
  unfold block_from_all_source.
  set (R0 := repeat 0 (N.to_nat (cT c * K))).
  assert (HR : length R0 = (N.to_nat K * N.to_nat (cT c))%nat) by (unfold R0; rewrite repeat_length; lia).
  rewrite <- (mix_0 B R0 (N.to_nat K) (lens_of c)) at 1 by (rewrite lens_sum; exact HR).
  rewrite <- (N2Nat.id K) at 1.
  change 0 with (N.of_nat 0).
  rewrite (unpack_all_ok (N.to_nat K) B R0 HBn HR (N.to_nat K) 0%nat eq_refl).
  f_equal. apply mix_K. rewrite lens_sum. exact HBn.
Qed.

End Sub.

(* ---------------------------------------------------------------------------------------- *)
(* the Spec index functions against the recursive interleave, packets, decoder               *)

Lemma list_sum_prefix_le (f : nat -> nat) a b :
  (a <= b)%nat -> (list_sum (map f (seq 0 a)) <= list_sum (map f (seq 0 b)))%nat.
Proof.
  intros H. replace b with (a + (b - a))%nat by lia.
  rewrite seq_app, map_app, list_sum_app. lia.
Qed.

Lemma combine_map_same {A B C} (f : A -> B) (g : A -> C) (l : list A) :
  combine (map f l) (map g l) = map (fun x => (f x, g x)) l.
Proof. induction l as [|x t IH]; [reflexivity|]. cbn [map combine]. rewrite IH. reflexivity. Qed.

Section Packets.
Variable c : cfg.
Variable data : list N.
Hypothesis OK : cfg_ok c data.

Let len (s : nat) : nat := N.to_nat (sub_len c (N.of_nat s)).

Lemma sub_off_nat j s :
  N.to_nat (sub_off c j (N.of_nat s)) = (N.to_nat (blk_K c j) * list_sum (map len (seq 0 s)))%nat.
Proof.
  unfold sub_off. rewrite Nat2N.id. unfold rangeN.
  rewrite N2Nat.inj_mul, (to_nat_sumN (sub_len c)). reflexivity.
Qed.

Lemma pre_bound s : (s < N.to_nat (cN c))%nat ->
  (list_sum (map len (seq 0 s)) + len s <= N.to_nat (cT c))%nat.
Proof.
  intros Hs. rewrite <- (lens_sum c data OK), lens_of_eq. fold len.
  pose proof (list_sum_prefix_le len (S s) (N.to_nat (cN c)) ltac:(lia)) as H.
  rewrite seq_S, map_app, list_sum_app in H. cbn [Nat.add map list_sum fold_right] in H. lia.
Qed.

Lemma symbol_is_symr j m : j < cZ c -> m < blk_K c j ->
  symbol c data j m = symr (blockP c data j) (N.to_nat (blk_K c j)) (lens_of c) (N.to_nat m).
Proof.
  intros Hj Hm. rewrite lens_of_eq. fold len.
  rewrite (symr_as_concat len). unfold symbol, rangeN. rewrite map_map. f_equal.
  apply map_seq_ext. intros s Hs. rewrite Nat.sub_0_r.
  pose proof (pre_bound s ltac:(lia)) as Hpre.
  pose proof (blockP_length c data OK j Hj) as HBl.
  set (K := N.to_nat (blk_K c j)) in *. set (pre := list_sum (map len (seq 0 s))) in *.
  assert (Hin : (K * pre + N.to_nat m * len s + len s <= length (blockP c data j))%nat).
  { rewrite HBl. assert (N.to_nat m < K)%nat by (unfold K; lia).
    rewrite N2Nat.inj_mul. fold K. nia. }
  rewrite (slice_as_map _ _ _ 0) by exact Hin.
  unfold sub_symbol, rangeN. rewrite map_map. fold (len s).
  apply map_seq_ext. intros i Hi.
  unfold blockP. rewrite nth_firstn', nth_skipn' by (rewrite <- HBl; lia).
  unfold padded. rewrite nth_app_repeat. unfold blk_byte, obj_byte. f_equal.
  pose proof (sub_off_nat j s) as Hso. fold K pre in Hso.
  rewrite !N2Nat.inj_add, N2Nat.inj_mul, Hso, Nat2N.id. fold (len s). lia.
Qed.

Lemma symbol_length j m : j < cZ c -> m < blk_K c j ->
  length (symbol c data j m) = N.to_nat (cT c).
Proof.
  intros Hj Hm. rewrite symbol_is_symr by assumption.
  rewrite symr_length; [apply (lens_sum c data OK) | lia |].
  rewrite (lens_sum c data OK), (blockP_length c data OK j Hj). lia.
Qed.

Lemma source_packets_ok sbn (g : nat -> list N) K : N.of_nat K <= 16777216 ->
  source_packets sbn (map g (seq 0 K)) = Ok (map (fun m => ((sbn, N.of_nat m), g m)) (seq 0 K)).
Proof.
  intros HK. unfold source_packets. change 0 with (N.of_nat 0).
  rewrite enumerate_from_map. apply omapM_map_ok. intros m Hm. apply in_seq in Hm.
  cbn [fst snd]. unfold payload_id_new, u32. rewrite wrap_small by (rewrite pow32; lia).
  destruct (N.of_nat m <? 16777216) eqn:E; [reflexivity | lia].
Qed.

Lemma blockP_lenN j : j < cZ c -> lenN (blockP c data j) = blk_K c j * cT c.
Proof. intros Hj. unfold lenN. rewrite (blockP_length c data OK j Hj). lia. Qed.

Lemma encoder_new_ok :
  encoder_new c data =
  Ok (map (fun j => (N.of_nat j,
                     map (symr (blockP c data (N.of_nat j)) (N.to_nat (blk_K c (N.of_nat j))) (lens_of c))
                         (seq 0 (N.to_nat (blk_K c (N.of_nat j))))))
          (seq 0 (N.to_nat (cZ c)))).
Proof.
  destruct (cfg_facts c data OK) as (_ & _ & _ & _ & _ & _ & _ & _ & _ & _ & _ & _ & _ & HZ8 & _).
  unfold encoder_new. rewrite (calculate_block_offsets_ok c data OK). cbn [obind].
  unfold rangeN. rewrite map_map. change 0 with (N.of_nat 0).
  rewrite (enumerate_from_map (fun x => (blk_off c (N.of_nat x), blk_off c (N.of_nat x) + blk_K c (N.of_nat x) * cT c))).
  apply omapM_map_ok. intros j Hj. apply in_seq in Hj. cbn [fst snd].
  assert (Hjz : N.of_nat j < cZ c) by lia.
  rewrite (encoder_block_ok c data OK _ Hjz). cbn [obind].
  rewrite (create_symbols_ok c data OK _ _ (blockP_lenN _ Hjz)). cbn [obind].
  unfold u8. rewrite wrap_small by (rewrite pow8; lia). reflexivity.
Qed.

Lemma source_packets_of_object_ok :
  source_packets_of_object c data = Ok (source_packets_spec c data).
Proof.
  unfold source_packets_of_object. rewrite encoder_new_ok. cbn [obind].
  rewrite (omapM_map_ok _ _
            (fun j => map (fun m => ((N.of_nat j, N.of_nat m), symbol c data (N.of_nat j) (N.of_nat m)))
                          (seq 0 (N.to_nat (blk_K c (N.of_nat j)))))).
  - cbn [obind]. f_equal. unfold source_packets_spec, rangeN. rewrite !map_map. f_equal.
    apply map_ext. intros j. rewrite map_map. reflexivity.
  - intros j Hj. apply in_seq in Hj. cbn [fst snd].
    pose proof (blk_K_bounds c data OK (N.of_nat j)) as [_ HK].
    rewrite source_packets_ok by lia. f_equal. apply map_seq_ext. intros m Hm. f_equal.
    rewrite symbol_is_symr by lia. rewrite Nat2N.id. reflexivity.
Qed.

Lemma decoder_block_sizes_ok :
  decoder_block_sizes c = Ok (map (blk_K c) (rangeN (N.to_nat (cZ c)))).
Proof.
  destruct (cfg_facts c data OK) as (HT & HAl & HZ & HN & Hlen & HF1 & HF2 & HS & HZZ & HKS & HKSL & HKL & HKt & HZ8 & HT16 & HZL0).
  unfold decoder_block_sizes.
  rewrite int_div_ceil_ok by (try exact HT; exact HKt). fold (Kt c). cbn [obind].
  rewrite partition_ok by (try exact HZ; try exact HKt; rewrite pow32; lia).
  rewrite Partition_Z. cbn [obind].
  rewrite (omapM_ok _ (fun _ => KL c)) by (intros; apply int_div_ceil_mul; rewrite ?pow32; lia).
  cbn [obind].
  rewrite (omapM_ok _ (fun _ => KS c)) by (intros; apply int_div_ceil_mul; rewrite ?pow32; lia).
  cbn [obind]. f_equal.
  rewrite <- HZZ. replace (N.to_nat (ZL c + ZS c)) with (N.to_nat (ZL c) + N.to_nat (ZS c))%nat by lia.
  rewrite rangeN_app, map_app, map_map. f_equal.
  - apply map_ext_in. intros i Hi. apply rangeN_in in Hi. unfold blk_K.
    destruct (i <? ZL c) eqn:E; [reflexivity | lia].
  - apply map_ext_in. intros i Hi. unfold blk_K.
    destruct (N.of_nat (N.to_nat (ZL c)) + i <? ZL c) eqn:E; [lia | reflexivity].
Qed.

Lemma spec_symbols_as_symr j : j < cZ c ->
  map (symbol c data j) (rangeN (N.to_nat (blk_K c j))) =
  map (symr (blockP c data j) (N.to_nat (blk_K c j)) (lens_of c)) (seq 0 (N.to_nat (blk_K c j))).
Proof.
  intros Hj. unfold rangeN. rewrite map_map. apply map_seq_ext. intros m Hm.
  rewrite symbol_is_symr by lia. rewrite Nat2N.id. reflexivity.
Qed.

Lemma reassemble_blocks :
  reassemble c (map (blockP c data) (rangeN (N.to_nat (cZ c)))) = data.
Proof.
  destruct (cfg_facts c data OK) as (_ & _ & _ & _ & Hlen & _).
  unfold reassemble. rewrite (blocks_concat c data OK). unfold padded.
  replace (N.to_nat (cF c)) with (length data + 0)%nat by (unfold lenN in Hlen; lia).
  rewrite firstn_app_2. cbn [firstn]. apply app_nil_r.
Qed.

Lemma decoder_inverts_spec :
  omapM (fun j => block_from_all_source c (blk_K c j)
                    (map (symbol c data j) (rangeN (N.to_nat (blk_K c j)))))
        (rangeN (N.to_nat (cZ c)))
  = Ok (map (blockP c data) (rangeN (N.to_nat (cZ c)))).
Proof.
  apply omapM_ok. intros j Hj. apply rangeN_in in Hj. assert (Hjz : j < cZ c) by lia.
  rewrite (spec_symbols_as_symr j Hjz).
  apply (block_from_all_source_ok c data OK). apply blockP_lenN. exact Hjz.
Qed.

(* the same round trip stated on model functions only: encoder blocks -> symbols -> decoder *)
Lemma decoder_inverts_model :
  exists encs sizes blocks,
    encoder_new c data = Ok encs /\ decoder_block_sizes c = Ok sizes /\
    omapM (fun ke => block_from_all_source c (fst ke) (snd (snd ke))) (combine sizes encs) = Ok blocks /\
    reassemble c blocks = data.
Proof.
  eexists. eexists. exists (map (blockP c data) (rangeN (N.to_nat (cZ c)))).
  split; [apply encoder_new_ok|]. split; [apply decoder_block_sizes_ok|]. split; [|apply reassemble_blocks].
  unfold rangeN. rewrite !map_map, combine_map_same.
  apply omapM_map_ok. intros j Hj. apply in_seq in Hj. cbn [fst snd].
  apply (block_from_all_source_ok c data OK). apply blockP_lenN. lia.
Qed.

End Packets.

(* ---------------------------------------------------------------------------------------- *)
(* statements in the form pinned by Props/C05.v                                              *)

Lemma unpack_inverts_create c data : cfg_ok c data -> forall K block syms,
  lenN block = K * cT c -> create_symbols c block = Ok syms ->
  block_from_all_source c K syms = Ok block.
Proof.
  intros OK K block syms HB HC. rewrite (create_symbols_ok c data OK block K HB) in HC.
  injection HC as <-. apply (block_from_all_source_ok c data OK K block HB).
Qed.

Lemma create_symbols_shape c data : cfg_ok c data -> forall K block,
  lenN block = K * cT c ->
  exists syms, create_symbols c block = Ok syms /\ lenN syms = K /\
               Forall (fun s => lenN s = cT c) syms.
Proof.
  intros OK K block HB. eexists. split; [apply (create_symbols_ok c data OK block K HB)|]. split.
  - unfold lenN. rewrite map_length, seq_length. lia.
  - apply Forall_forall. intros s Hs. apply in_map_iff in Hs. destruct Hs as [m [<- Hm]].
    apply in_seq in Hm. unfold lenN. rewrite symr_length; rewrite ?(lens_sum c data OK); unfold lenN in HB; lia.
Qed.

Lemma in_packets_spec c data p : In p (source_packets_spec c data) ->
  exists j m, j < cZ c /\ m < blk_K c j /\ p = ((j, m), symbol c data j m).
Proof.
  unfold source_packets_spec. intros H. apply in_concat in H. destruct H as [l [Hl Hp]].
  apply in_map_iff in Hl. destruct Hl as [j [<- Hj]]. apply in_map_iff in Hp.
  destruct Hp as [m [<- Hm]]. apply rangeN_in in Hj, Hm. exists j, m. repeat split; lia.
Qed.

Lemma payload_lengths c data : cfg_ok c data ->
  Forall (fun p => lenN (snd p) = cT c) (source_packets_spec c data).
Proof.
  intros OK. apply Forall_forall. intros p Hp.
  destruct (in_packets_spec c data p Hp) as [j [m [Hj [Hm ->]]]]. cbn [snd]. unfold lenN.
  rewrite (symbol_length c data OK j m Hj Hm). lia.
Qed.

Lemma packet_ids_in_range c data : cfg_ok c data ->
  Forall (fun p => fst (fst p) < cZ c /\ fst (fst p) < 256 /\
                   snd (fst p) < blk_K c (fst (fst p)) /\ snd (fst p) < 56403)
         (source_packets_spec c data).
Proof.
  intros OK. apply Forall_forall. intros p Hp.
  destruct (in_packets_spec c data p Hp) as [j [m [Hj [Hm ->]]]]. cbn [fst snd].
  pose proof (blk_K_bounds c data OK j) as [_ HK].
  destruct OK as (_ & _ & _ & _ & _ & _ & _ & _ & HZ8 & _). rewrite pow8 in HZ8. lia.
Qed.

Lemma blocks_nth c data j : j < cZ c ->
  nth (N.to_nat j) (map (blockP c data) (rangeN (N.to_nat (cZ c)))) [] = blockP c data j.
Proof.
  intros Hj. unfold rangeN. rewrite map_map.
  rewrite (nth_indep _ [] (blockP c data (N.of_nat 0))) by (rewrite map_length, seq_length; lia).
  rewrite (map_nth (fun x => blockP c data (N.of_nat x))), seq_nth by lia.
  cbn [Nat.add]. rewrite N2Nat.id. reflexivity.
Qed.

(* long-form statements used verbatim by Props/C05.v *)

Lemma pinned_partition_facts : forall I J IL IS JL JS, 0 < J -> Partition I J = (IL, IS, JL, JS) ->
  JL * IL + JS * IS = I /\ JL + JS = J /\ IL = ceil I J /\ IS = I / J /\ IS <= IL /\ JL < J.
Proof.
  intros I J IL IS JL JS HJ HP. pose proof (Partition_facts I J HJ) as P. cbv zeta in P.
  rewrite HP in P. cbn [q1 q2 q3 q4] in P. tauto.
Qed.

Lemma pinned_block_offsets : forall c data, cfg_ok c data ->
  calculate_block_offsets (cF c) (cT c) (cZ c) (lenN data) =
    Ok (map (fun j => (blk_off c j, blk_off c j + blk_K c j * cT c)) (rangeN (N.to_nat (cZ c)))) /\
  length (rangeN (N.to_nat (cZ c))) = N.to_nat (cZ c) /\
  blk_off c 0 = 0 /\
  (forall j, blk_off c (j + 1) = blk_off c j + blk_K c j * cT c) /\
  blk_off c (cZ c) = Kt c * cT c /\
  (forall j, 1 <= blk_K c j /\ blk_K c j <= 56403) /\
  Kt c * cT c < 2 ^ 48.
Proof.
  intros c data OK. split; [exact (calculate_block_offsets_ok c data OK)|].
  split; [unfold rangeN; rewrite map_length, seq_length; reflexivity|].
  split; [exact (blk_off_0 c)|]. split; [exact (blk_off_succ c)|].
  split; [exact (blk_off_Z c data OK)|]. split; [exact (blk_K_bounds c data OK)|].
  exact (layout_usize_range c data OK).
Qed.

Lemma pinned_padding_only_tail : forall c data, cfg_ok c data ->
  exists blocks,
    encoder_blocks c data = Ok blocks /\
    blocks = map (block_bytes c data) (rangeN (N.to_nat (cZ c))) /\
    (forall j, j < cZ c -> lenN (nth (N.to_nat j) blocks []) = blk_K c j * cT c) /\
    concat blocks = data ++ repeat 0 (N.to_nat (Kt c * cT c - cF c)) /\
    Kt c * cT c - cF c < cT c /\
    (forall j, j < cZ c -> blk_off c j < cF c).
Proof.
  intros c data OK. exists (map (blockP c data) (rangeN (N.to_nat (cZ c)))).
  split; [exact (encoder_blocks_ok c data OK)|]. split.
  { apply map_ext_in. intros j Hj. apply rangeN_in in Hj. apply (blockP_is_spec c data OK). lia. }
  split.
  { intros j Hj. rewrite (blocks_nth c data j Hj). exact (blockP_lenN c data OK j Hj). }
  split; [exact (blocks_concat c data OK)|]. split; [exact (pad_lt_T c data OK)|].
  exact (blk_off_lt_F c data OK).
Qed.

Lemma pinned_sub_lens_sum : forall c data, cfg_ok c data ->
  sumN (map (sub_len c) (rangeN (N.to_nat (cN c)))) = cT c /\
  partition (cT c / cAl c) (cN c) = Ok (TL c, TS c, NL c, NS c) /\
  NL c + NS c = cN c /\ (NL c * TL c + NS c * TS c) * cAl c = cT c.
Proof.
  intros c data OK. pose proof (lens_sum c data OK) as H. rewrite lens_of_eq in H.
  rewrite <- (to_nat_sumN (sub_len c)) in H. fold (rangeN (N.to_nat (cN c))) in H.
  destruct (sub_facts c data OK) as (H1 & H2 & H3 & Hp & _).
  split; [lia|]. split; [exact Hp|]. split; [exact H1|]. rewrite H2. exact H3.
Qed.

Lemma pinned_packet_ids : forall c data,
  map fst (source_packets_spec c data) =
  concat (map (fun j => map (fun m => (j, m)) (rangeN (N.to_nat (blk_K c j)))) (rangeN (N.to_nat (cZ c)))).
Proof.
  intros c data. unfold source_packets_spec. rewrite concat_map, map_map. f_equal.
  apply map_ext. intros j. rewrite map_map. reflexivity.
Qed.

Lemma pinned_decoder_inverts : forall c data, cfg_ok c data ->
  exists blocks,
    omapM (fun j => block_from_all_source c (blk_K c j)
                      (map (symbol c data j) (rangeN (N.to_nat (blk_K c j)))))
          (rangeN (N.to_nat (cZ c))) = Ok blocks /\
    blocks = map (block_bytes c data) (rangeN (N.to_nat (cZ c))) /\
    reassemble c blocks = data.
Proof.
  intros c data OK. exists (map (blockP c data) (rangeN (N.to_nat (cZ c)))).
  split; [exact (decoder_inverts_spec c data OK)|]. split; [|exact (reassemble_blocks c data OK)].
  apply map_ext_in. intros j Hj. apply rangeN_in in Hj. apply (blockP_is_spec c data OK). lia.
Qed.

Lemma pinned_payload_length : forall c data, cfg_ok c data ->
  Forall (fun p => lenN (snd p) = cT c) (source_packets_spec c data) /\
  Forall (fun p => fst (fst p) < cZ c /\ fst (fst p) < 256 /\
                   snd (fst p) < blk_K c (fst (fst p)) /\ snd (fst p) < 56403)
         (source_packets_spec c data).
Proof. intros c data OK. split; [exact (payload_lengths c data OK) | exact (packet_ids_in_range c data OK)]. Qed.
