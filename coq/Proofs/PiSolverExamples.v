(* Boolean forms of the hypotheses of the solver theorems (for non-vacuity examples run by
   vm_compute), and the link between pi_solve (option) and pi_run (outcome). *)
From Coq Require Import NArith List Bool Lia Arith.
From RQ Require Import Base.Outcome Base.Ints Base.ListX Model.Octet Model.CMatrix Model.Slab
  Spec.Linear Model.PiSolver Proofs.PiSolverBase Proofs.PiSolverOps Proofs.PiSolverG Proofs.PiSolverInvDefs.
Import ListNotations.
Open Scope N_scope.

Definition dimsb (A : list (list N)) (Mn Wn : N) : bool :=
  (lenN A =? Mn) && forallb (fun r => lenN r =? Wn) A.
Definition bin_matb (A : list (list N)) : bool := forallb (forallb (fun x => (x =? 0) || (x =? 1))) A.
Definition bytes_matb (A : list (list N)) : bool := forallb (forallb (fun x => x <? 256)) A.
(* every column j < n has a one in a row k < Mn outside [S, S+H) *)
Definition coverb (A : list (list N)) (Mn S H n : N) : bool :=
  forallb (fun j => existsb (fun k => ((k <? S) || (S + H <=? k)) && (cell A k j =? 1)) (seqN 0 Mn)) (seqN 0 n).

Lemma dimsb_ok A Mn Wn : dimsb A Mn Wn = true -> dims A Mn Wn.
Proof.
  unfold dimsb, dims. intros H. apply andb_prop in H. destruct H as [H1 H2]. apply N.eqb_eq in H1.
  split; [exact H1|]. apply Forall_forall. intros r Hr. rewrite forallb_forall in H2. apply N.eqb_eq, H2, Hr.
Qed.

Lemma bin_matb_ok A : bin_matb A = true -> bin_mat A.
Proof.
  unfold bin_matb, bin_mat, bin_row. intros H. apply Forall_forall. intros r Hr. rewrite forallb_forall in H.
  specialize (H r Hr). apply Forall_forall. intros x Hx. rewrite forallb_forall in H. specialize (H x Hx).
  apply orb_prop in H. destruct H as [H|H]; apply N.eqb_eq in H; auto.
Qed.

Lemma bytes_matb_ok A : bytes_matb A = true -> bytes_mat A.
Proof.
  unfold bytes_matb, bytes_mat, bytes_row. intros H. apply Forall_forall. intros r Hr. rewrite forallb_forall in H.
  specialize (H r Hr). apply Forall_forall. intros x Hx. rewrite forallb_forall in H. apply N.ltb_lt, H, Hx.
Qed.

Lemma coverb_ok A Mn S H n : coverb A Mn S H n = true ->
  forall j, j < n -> exists k, k < Mn /\ (k < S \/ S + H <= k) /\ cell A k j = 1.
Proof.
  unfold coverb. intros Hc j Hj. rewrite forallb_forall in Hc. specialize (Hc j ltac:(apply seqN_in; lia)).
  apply existsb_exists in Hc. destruct Hc as (k & Hk & Hb). apply seqN_in in Hk.
  apply andb_prop in Hb. destruct Hb as [H1 H2]. apply N.eqb_eq in H2.
  exists k. split; [lia|]. split; [|exact H2].
  apply orb_prop in H1. destruct H1 as [H1|H1]; [left; apply N.ltb_lt, H1 | right; apply N.leb_le, H1].
Qed.

(* the rows S .. S+H-1 are zero on the columns j < n *)
Definition zerob (A : list (list N)) (S H n : N) : bool :=
  forallb (fun k => forallb (fun j => cell A k j =? 0) (seqN 0 n)) (seqN S (S + H)).

Lemma zerob_ok A S H n : zerob A S H n = true ->
  forall k j, S <= k < S + H -> j < n -> cell A k j = 0.
Proof.
  unfold zerob. intros Hz k j Hk Hj. rewrite forallb_forall in Hz. specialize (Hz k ltac:(apply seqN_in; lia)).
  rewrite forallb_forall in Hz. apply N.eqb_eq. apply Hz. apply seqN_in. lia.
Qed.

Lemma unpanic_some {A} (x : outcome (option A)) a : unpanic x = Some a -> x = Ok (Some a).
Proof. destruct x as [[b|]|c]; cbn; intros H; inversion H; reflexivity. Qed.

Lemma pi_solve_some m S H A hdpc L P ops : pi_solve m S H A hdpc L P = Some ops ->
  pi_run m S H A hdpc L P = Ok (Some ops).
Proof. apply unpanic_some. Qed.

Lemma pi_solve_no_hdpc_some m A L P ops : pi_solve_no_hdpc m A L P = Some ops ->
  pi_run_no_hdpc m A L P = Ok (Some ops).
Proof. apply unpanic_some. Qed.
