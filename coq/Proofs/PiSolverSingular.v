(* Second phase: when record_reduce_to_row_echelon finds no pivot the original matrix is not
   injective. *)
From Coq Require Import NArith List Bool Lia Arith Permutation.
From RQ Require Import Base.Outcome Base.Ints Base.ListX Model.Octet Model.CMatrix Model.Slab
  Model.FieldFast Proofs.FieldFastProofs
  Spec.Linear Proofs.OutcomeLemmas Proofs.OctetProofs Proofs.LinearProofs Model.PiSolver
  Proofs.PiSolverBase Proofs.PiSolverStruct Proofs.PiSolverOps Proofs.PiSolverG Proofs.PiSolverInvDefs
  Proofs.PiSolverPhase2.
Import ListNotations.
Open Scope N_scope.

(* ================= (A) xor-sums, positions in a permutation ================= *)

Lemma xsum_app a b : xsum (a ++ b) = N.lxor (xsum a) (xsum b).
Proof.
  induction a as [|x a IH]; cbn [app xsum]; [reflexivity|]. rewrite IH, N.lxor_assoc. reflexivity.
Qed.

Lemma xsum_perm a b : Permutation a b -> xsum a = xsum b.
Proof.
  induction 1 as [|x a b _ IH|x y a|a b c _ IH1 _ IH2]; cbn [xsum].
  - reflexivity.
  - rewrite IH. reflexivity.
  - rewrite <- !N.lxor_assoc. f_equal. apply N.lxor_comm.
  - congruence.
Qed.

Lemma xsum_zero {X} (f : X -> N) l : (forall a, In a l -> f a = 0) -> xsum (map f l) = 0.
Proof.
  induction l as [|a l IH]; intros H; cbn [map xsum]; [reflexivity|].
  rewrite H by (left; reflexivity). rewrite IH; [reflexivity|]. intros b Hb. apply H. right. exact Hb.
Qed.

Lemma dot_map_map {X} mul (g h : X -> N) l :
  dot mul (map g l) (map h l) = xsum (map (fun t => mul (g t) (h t)) l).
Proof. induction l as [|a l IH]; cbn [map dot xsum]; [reflexivity|]. rewrite IH. reflexivity. Qed.

Lemma list_eq_map_nth (l : list N) n : lenN l = n -> l = map (fun t => nth (N.to_nat t) l 0) (seqN 0 n).
Proof.
  intros Hl. unfold lenN in Hl. apply (nth_ext _ _ 0 0).
  - rewrite map_length, seqN_length. lia.
  - intros k Hk. rewrite nth_map_seqN by lia. f_equal. lia.
Qed.

Lemma seqN_split a b c : a <= b -> b <= c -> seqN a c = seqN a b ++ seqN b c.
Proof.
  intros H1 H2. rewrite !seqN_spec.
  replace (N.to_nat (c - a)) with (N.to_nat (b - a) + N.to_nat (c - b))%nat by lia.
  rewrite seq_app, map_app. f_equal. f_equal. f_equal. lia.
Qed.

(* position of the first occurrence *)
Fixpoint posN (l : list N) (t : N) : N :=
  match l with [] => 0 | x :: l' => if x =? t then 0 else 1 + posN l' t end.

Lemma posN_nth l : NoDup l -> forall j, (j < length l)%nat -> posN l (nth j l 0) = N.of_nat j.
Proof.
  induction 1 as [|x l Hx ND IH]; intros j Hj; cbn [length] in Hj; [lia|].
  destruct j as [|j]; cbn [nth posN].
  - rewrite N.eqb_refl. reflexivity.
  - destruct (N.eqb_spec x (nth j l 0)) as [E|_].
    + exfalso. apply Hx. rewrite E. apply nth_In. lia.
    + rewrite IH by lia. lia.
Qed.

Lemma permN_Permutation n l : permN n l -> Permutation (seqN 0 n) l.
Proof.
  intros [Hl [ND Hb]]. unfold lenN in Hl. apply Permutation_sym. apply NoDup_Permutation_bis.
  - exact ND.
  - rewrite seqN_length. lia.
  - intros x Hx. apply seqN_in. rewrite Forall_forall in Hb. specialize (Hb x Hx). lia.
Qed.

(* ================= (B) the two multiplications ================= *)

Lemma vscale_fmul_s c v : c < 256 -> wf_vec v -> vscale fmul c v = vscale mulN c v.
Proof.
  intros Hc Hv. unfold vscale. apply map_ext_in. intros x Hx. apply fmul_mulN; [exact Hc|].
  unfold wf_vec in Hv. rewrite Forall_forall in Hv. apply Hv, Hx.
Qed.

Lemma lincomb_fmul T r C : wf_vec r -> wf_mat T C -> lincomb fmul T r C = lincomb mulN T r C.
Proof.
  intros Hr. revert C. induction Hr as [|a r Ha Hr IH]; intros C HC; [reflexivity|].
  destruct HC as [|c C [_ Hc] HC]; [reflexivity|]. cbn [lincomb].
  rewrite IH by exact HC. rewrite vscale_fmul_s by assumption. reflexivity.
Qed.


(* ================= (C) a zero block below r rows on r+1 columns contradicts injectivity ================= *)

Lemma perm_surj_s n l j : permN n l -> j < n -> exists t, t < n /\ nth (N.to_nat t) l 0 = j.
Proof.
  intros [Hl [ND Hb]] Hj. unfold lenN in Hl.
  assert (I : incl (seqN 0 n) l).
  { apply NoDup_length_incl; [exact ND | rewrite seqN_length; lia|].
    intros x Hx. apply seqN_in. rewrite Forall_forall in Hb. specialize (Hb x Hx). lia. }
  assert (Hin : In j l) by (apply I, seqN_in; lia).
  destruct (In_nth _ _ 0 Hin) as [t [Lt Et]]. exists (N.of_nat t). rewrite Nat2N.id.
  split; [lia | exact Et].
Qed.

Lemma apply_op_zero Mn o n : op_valid Mn o = true ->
  apply_op mulN o (repeat [0] n) = repeat [0] n.
Proof.
  intros V. pose proof (op_valid_scalar Mn o V) as Sc. set (Z := repeat [0] n).
  assert (HZ : forall d r, nth_error Z d = Some r -> r = [0]).
  { intros d r E. apply nth_error_In in E. apply repeat_spec in E. exact E. }
  destruct o as [d s|d c|d s c]; unfold apply_op.
  - destruct (nth_error Z d) as [rd|] eqn:Ed; [|reflexivity].
    destruct (nth_error Z s) as [rs|] eqn:Es; [|reflexivity].
    pose proof (HZ _ _ Ed); pose proof (HZ _ _ Es); subst rd rs. apply upd_nth_same. exact Ed.
  - destruct (nth_error Z d) as [rd|] eqn:Ed; [|reflexivity].
    pose proof (HZ _ _ Ed); subst rd. unfold vscale. cbn [map]. rewrite mulN_0_r.
    apply upd_nth_same. exact Ed.
  - destruct (nth_error Z d) as [rd|] eqn:Ed; [|reflexivity].
    destruct (nth_error Z s) as [rs|] eqn:Es; [|reflexivity].
    pose proof (HZ _ _ Ed); pose proof (HZ _ _ Es); subst rd rs. unfold vscale. cbn [map vadd].
    rewrite mulN_0_r. apply upd_nth_same. exact Ed.
Qed.

Lemma apply_ops_zero Mn ops n : forallb (op_valid Mn) ops = true ->
  apply_ops mulN ops (repeat [0] n) = repeat [0] n.
Proof.
  induction ops as [|o ops IH]; intros V; [reflexivity|].
  cbn [forallb] in V. apply andb_true_iff in V. destruct V as [V1 V2].
  rewrite (apply_ops_cons mulN). rewrite (apply_op_zero Mn o n V1). apply IH, V2.
Qed.

Lemma dot_row_map mul (row : list N) Wn (h : N -> N) : lenN row = Wn ->
  dot mul row (map h (seqN 0 Wn)) = xsum (map (fun t => mul (nth (N.to_nat t) row 0) (h t)) (seqN 0 Wn)).
Proof.
  intros Hl.
  transitivity (dot mul (map (fun t => nth (N.to_nat t) row 0) (seqN 0 Wn)) (map h (seqN 0 Wn))).
  - f_equal. apply list_eq_map_nth, Hl.
  - apply dot_map_map.
Qed.

Section Core.
Variable A0 : list (list N).
Variable M W : N.
Hypothesis A0_wf : wf_mat (N.to_nat W) A0.
Hypothesis A0_len : lenN A0 = M.
Local Notation G := (G A0).
Local Notation Bmat := (Bmat A0).

(* (a) the recorded operations preserve injectivity *)
Lemma injective_Bmat s : lite M s -> injective mulN (N.to_nat W) A0 -> injective mulN (N.to_nat W) (Bmat s).
Proof.
  intros L Inj x Hl Hx Hk. apply Inj; try assumption.
  set (C := map (fun v => [v]) x) in *.
  apply (Forall_Forall2_repeat (fun r d => lincomb mulN 1 r C = d)) in Hk.
  apply (Forall_Forall2_repeat (fun r d => lincomb mulN 1 r C = d)).
  assert (V : forallb (op_valid (length A0)) (sops s) = true) by (apply (sops_valid A0 M A0_len), (lt_ops _ _ L)).
  apply (ops_preserve_bwd mulN inv8 mulN_field 1 (N.to_nat W) A0 C _ (sops s)).
  - exact V.
  - exact A0_wf.
  - apply wf_mat_singletons. exact Hx.
  - apply Forall_forall. intros r Hr. apply repeat_spec in Hr. subst r. split; [reflexivity|].
    constructor; [reflexivity | constructor].
  - rewrite (apply_ops_zero _ _ _ V). unfold PiSolverG.Bmat in Hk.
    rewrite (apply_ops_length mulN) in Hk. exact Hk.
Qed.

(* (b) a row of Bmat against the un-permuted vector is a sum over the logical columns *)
Lemma dot_unpermute s k' (yf : N -> N) : lite M s -> permN W (ps_c s) -> k' < M ->
  dot mulN (rowN (Bmat s) (dat s k')) (map (fun t => yf (posN (ps_c s) t)) (seqN 0 W)) =
  xsum (map (fun j => mulN (G s k' j) (yf j)) (seqN 0 W)).
Proof.
  intros L Pc Hk.
  assert (Lr : lenN (rowN (Bmat s) (dat s k')) = W).
  { unfold lenN. rewrite (Bmat_row_len A0 M W A0_wf A0_len) by (try exact L; apply (dat_lt A0 M A0_len); assumption). lia. }
  rewrite (dot_row_map mulN _ W _ Lr).
  set (f := fun t => mulN (nth (N.to_nat t) (rowN (Bmat s) (dat s k')) 0) (yf (posN (ps_c s) t))).
  rewrite (xsum_perm _ _ (Permutation_map f (permN_Permutation W (ps_c s) Pc))).
  assert (Ec : ps_c s = map (cat s) (seqN 0 W)) by (apply (list_eq_map_nth (ps_c s) W), Pc).
  rewrite Ec. rewrite map_map. f_equal. apply map_ext_in. intros j Hj. apply seqN_in in Hj.
  subst f. cbv beta. unfold G, cell. unfold cat at 2.
  destruct Pc as [Hl [ND _]]. unfold lenN in Hl.
  rewrite (posN_nth _ ND) by lia. rewrite N2Nat.id. reflexivity.
Qed.

Lemma zero_block_not_injective s r : lite M s -> permN W (ps_c s) -> r < W ->
  (forall k j, r <= k < M -> j < r + 1 -> G s k j = 0) -> ~ injective mulN (N.to_nat W) A0.
Proof.
  intros L Pc Hr Z Inj. set (n := r + 1).
  set (A' := map (fun k' => map (fun j => G s k' j) (seqN 0 n)) (seqN 0 r)).
  apply (fewer_rows_not_injective mulN inv8 mulN_field (N.to_nat n) A').
  - apply Forall_forall. intros row Hrow. apply in_map_iff in Hrow. destruct Hrow as [k' [<- _]]. split.
    + rewrite map_length, seqN_length. lia.
    + apply Forall_forall. intros v Hv. apply in_map_iff in Hv. destruct Hv as [j [<- _]].
      apply (G_byte A0 M W A0_wf A0_len), L.
  - unfold A'. rewrite map_length, seqN_length. lia.
  - apply (injective_iff_dot mulN). intros y Hl Hy Hk.
    pose proof (injective_Bmat s L Inj) as InjB. apply (injective_iff_dot mulN) in InjB.
    set (yf := fun j => if j <? n then nth (N.to_nat j) y 0 else 0).
    set (x := map (fun t => yf (posN (ps_c s) t)) (seqN 0 W)).
    assert (Hx0 : x = repeat 0 (N.to_nat W)).
    { apply InjB.
      - unfold x. rewrite map_length, seqN_length. lia.
      - apply Forall_forall. intros v Hv. apply in_map_iff in Hv. destruct Hv as [t [<- _]].
        unfold yf. destruct (_ <? n); [apply bytes_nth; exact Hy | reflexivity].
      - apply Forall_forall. intros row Hin. destruct (In_nth _ _ [] Hin) as [q [Lq <-]].
        rewrite (Bmat_len A0 M A0_len) in Lq.
        destruct (perm_surj_s M (ps_d s) (N.of_nat q) (lt_d _ _ L)) as [k' [Hk' Ek']]; [lia|].
        replace (nth q (Bmat s) []) with (rowN (Bmat s) (dat s k'))
          by (unfold rowN, dat; rewrite Ek', Nat2N.id; reflexivity).
        unfold x. rewrite (dot_unpermute s k' yf L Pc Hk').
        rewrite (seqN_split 0 n W) by lia. rewrite map_app, xsum_app.
        rewrite (xsum_zero _ (seqN n W)).
        2:{ intros j Hj. apply seqN_in in Hj. unfold yf. destruct (N.ltb_spec j n); [lia | apply mulN_0_r]. }
        rewrite N.lxor_0_r.
        destruct (N.ltb_spec k' r) as [Hlt|Hge].
        + assert (Hin' : In (map (fun j => G s k' j) (seqN 0 n)) A').
          { unfold A'. apply (in_map (fun k' => map (fun j => G s k' j) (seqN 0 n))). apply seqN_in. lia. }
          rewrite Forall_forall in Hk. specialize (Hk _ Hin').
          pose proof (dot_map_map mulN (fun j => G s k' j) yf (seqN 0 n)) as E. cbv beta in E. rewrite <- E.
          replace (map yf (seqN 0 n)) with y; [exact Hk|].
          rewrite (list_eq_map_nth y n) at 1 by (unfold lenN; lia).
          apply map_ext_in. intros j Hj. apply seqN_in in Hj. unfold yf.
          destruct (N.ltb_spec j n); [reflexivity | lia].
        + apply xsum_zero. intros j Hj. apply seqN_in in Hj. rewrite Z by lia. apply mulN_0_l. }
    apply (nth_ext _ _ 0 0); [rewrite repeat_length; exact Hl|]. intros k Hk'.
    rewrite nth_repeat.
    assert (E : nth (N.to_nat (cat s (N.of_nat k))) x 0 = yf (N.of_nat k)).
    { assert (Hc : cat s (N.of_nat k) < W).
      { destruct Pc as [Hlc [_ Hb]]. rewrite Forall_forall in Hb. apply Hb. unfold cat. apply nth_In.
        unfold lenN in Hlc. lia. }
      unfold x. rewrite (nth_map_seqN (fun t => yf (posN (ps_c s) t))) by lia.
      replace (0 + N.of_nat (N.to_nat (cat s (N.of_nat k)))) with (cat s (N.of_nat k)) by lia.
      unfold cat. destruct Pc as [Hlc [ND _]]. unfold lenN in Hlc.
      rewrite (posN_nth _ ND) by lia. rewrite N2Nat.id. reflexivity. }
    rewrite Hx0, nth_repeat in E. unfold yf in E.
    destruct (N.ltb_spec (N.of_nat k) n); [|lia]. rewrite Nat2N.id in E. symmetry. exact E.
Qed.
End Core.

(* ================= (D) the failed pivot search ================= *)

Lemma find_pivot_none l col : forall j, find_pivot l col j = Ok None ->
  Forall (fun row => nth col row 0 = 0) l.
Proof.
  induction l as [|row t IH]; intros j H; cbn [find_pivot] in H; [constructor|].
  oinvas H as v Ev. destruct (nth_ok_inv _ _ _ 0 Ev) as [_ ->].
  destruct (N.eqb_spec (nth col row 0) 0) as [Ez|_]; [|discriminate].
  constructor; [exact Ez | apply (IH _ H)].
Qed.

Lemma find_pivot_some l col : forall j p, find_pivot l col j = Ok (Some p) ->
  j <= p /\ nth col (nth (N.to_nat (p - j)) l []) 0 <> 0.
Proof.
  induction l as [|row t IH]; intros j p H; cbn [find_pivot] in H; [discriminate|].
  oinvas H as v Ev. destruct (nth_ok_inv _ _ _ 0 Ev) as [_ ->].
  destruct (N.eqb_spec (nth col row 0) 0) as [Ez|Enz].
  - destruct (IH _ _ H) as [Hle Hnz]. split; [lia|].
    replace (N.to_nat (p - j)) with (S (N.to_nat (p - N.succ j))) by lia. exact Hnz.
  - inversion H; subst p. split; [lia|]. replace (N.to_nat (j - j)) with 0%nat by lia. exact Enz.
Qed.

Section Red.
Variable A0 : list (list N).
Variable M W : N.
Hypothesis A0_wf : wf_mat (N.to_nat W) A0.
Hypothesis A0_len : lenN A0 = M.
Local Notation G := (G A0).
Variable s0 : pstate.
Variables i0 u : N.
Hypothesis iuW : i0 + u = W.
Hypothesis WM : W <= M.
Local Notation sinv := (sinv A0 M W s0 i0 u).

Lemma reduce_column_none m c s sub : sinv c s sub -> c < u ->
  reduce_column m i0 c (s, sub) = Ok None ->
  forall k', c <= k' < M - i0 -> cell sub k' c = 0.
Proof.
  intros S Hcu H. unfold reduce_column in H. omon H.
  destruct (bm_get_cell _ _ _ _ E1) as (Lc & _ & ->).
  destruct (N.eqb_spec (cell l c c) 0) as [Ez|Enz]; [|omon H; discriminate]. clear H E1.
  pose proof (si_len _ _ _ _ _ _ _ _ _ S) as SL. unfold lenN in SL.
  destruct a as [j|].
  - exfalso. omon E0. inversion E0; subst p l. clear E0.
    destruct (find_pivot_some _ _ _ _ E) as [Hcj Hnz]. apply Hnz.
    rewrite nth_skipn'. replace (N.to_nat c + N.to_nat (j - c))%nat with (N.to_nat j) by lia.
    match goal with X : swapN sub c j = Ok _ |- _ => pose proof (swapN_rowN _ _ _ _ c X) as R end.
    rewrite trN_l in R. unfold cell in Ez. rewrite R in Ez. exact Ez.
  - inversion E0; subst p l. clear E0. apply find_pivot_none in E. rewrite Forall_forall in E.
    intros k' Hk'. unfold cell, rowN.
    replace (N.to_nat k') with (N.to_nat c + (N.to_nat k' - N.to_nat c))%nat by lia.
    rewrite <- nth_skipn'. apply E. apply nth_In. rewrite skipn_length. lia.
Qed.

Lemma reduce_loop_none m : forall n c s sub, N.of_nat n + c = u -> sinv c s sub ->
  reduce_loop m i0 (seqN c u) (s, sub) = Ok None ->
  exists c' s' sub', c' < u /\ sinv c' s' sub' /\ forall k', c' <= k' < M - i0 -> cell sub' k' c' = 0.
Proof.
  induction n as [|n IH]; intros c s sub Hn S H.
  - rewrite seqN_nil in H by lia. cbn in H. discriminate.
  - rewrite seqN_cons in H by lia. cbn [reduce_loop] in H. oinvas H as r Er.
    destruct r as [[s1 sub1]|].
    + apply (IH (c + 1) s1 sub1); [lia | | exact H].
      eapply (sinv_reduce_column A0 M W A0_wf A0_len s0 i0 u iuW WM); [exact S | lia | exact Er].
    + exists c, s, sub. split; [lia|]. split; [exact S|].
      eapply reduce_column_none; [exact S | lia | exact Er].
Qed.

(* at the failing column the logical matrix has a zero block: rows >= i0 + c, columns <= i0 + c *)
Lemma sinv_zero_block c s sub : sinv c s sub -> c < u ->
  (forall k', c <= k' < M - i0 -> cell sub k' c = 0) ->
  forall k j, i0 + c <= k < M -> j < i0 + c + 1 -> G s k j = 0.
Proof.
  intros S Hcu Hz k j Hk Hj.
  destruct (N.ltb_spec j i0) as [Hlt|Hge].
  - apply (ri_zero _ _ _ _ _ _ _ (si_r _ _ _ _ _ _ _ _ _ S)); lia.
  - replace k with (i0 + (k - i0)) by lia. replace j with (i0 + (j - i0)) by lia.
    rewrite <- (si_agree _ _ _ _ _ _ _ _ _ S) by lia.
    destruct (N.eq_dec (j - i0) c) as [->|Hne].
    + apply Hz. lia.
    + apply (si_ech _ _ _ _ _ _ _ _ _ S (j - i0)); lia.
Qed.
End Red.

Section Sing.
Variable A0 : list (list N).
Variable M W : N.
Hypothesis A0_wf : wf_mat (N.to_nat W) A0.
Hypothesis A0_len : lenN A0 = M.
Local Notation G := (G A0).

Lemma second_phase_none m H s xo : p2_pre A0 M W H s -> permN W (ps_c s) ->
  second_phase m s xo = Ok None -> ~ injective mulN (N.to_nat W) A0.
Proof.
  intros P Pc H0. unfold second_phase in H0. omon H0.
  match goal with X : onX m s _ = Ok ?s1 |- _ =>
    destruct (onX_frame _ _ _ _ X) as (EA & Eh & Ec & Ed & Eo & Ei & Eu & EW & EL);
    pose proof (lite_onX _ _ _ _ _ (p2_lite _ _ _ _ _ P) X) as L1; rename s1 into sx end.
  clear E E0. rewrite Ei, Eu in *.
  destruct a1 as [[sr sub]|]; [omon H0; discriminate|]. clear H0.
  fold (hd_rows sx) in E1. assert (Ehr : hd_rows sx = hd_rows s) by (unfold hd_rows; rewrite Eh; reflexivity).
  rewrite Ehr in E1.
  set (sI := set_hd sx None) in *. set (i0 := ps_i s) in *. set (u := ps_u s) in *.
  pose proof (p2_iu _ _ _ _ _ P) as iuW. fold i0 u in iuW. pose proof (p2_WM _ _ _ _ _ P) as WM.
  assert (LI : lite M sI) by apply lite_set_hd_none, L1.
  assert (GI : forall k j, G sI k j = G s k j) by (intros; apply G_frame; assumption).
  assert (RI : rinv A0 M W sI i0 u sI).
  { constructor; cbn [sI set_hd ps_hd ps_c ps_i ps_u ps_W ps_L ps_A]; try reflexivity; try assumption.
    - rewrite EW. apply (p2_W _ _ _ _ _ P).
    - rewrite EL. apply (p2_L _ _ _ _ _ P).
    - rewrite EA. apply (p2_dims _ _ _ _ _ P).
    - rewrite EA. apply (p2_bin _ _ _ _ _ P).
    - intros k j Hk Hj. rewrite GI. apply (p2_zero _ _ _ _ _ P); assumption. }
  unfold record_reduce_to_row_echelon in E1. omon E1.
  assert (EhI : ps_height sI = M).
  { unfold ps_height. cbn [sI set_hd ps_A]. rewrite EA. apply (p2_dims _ _ _ _ _ P). }
  rewrite EhI in *. pose proof (p2_HM _ _ _ _ _ P) as HM.
  match goal with X : usub m M _ = Ok ?f |- _ =>
    rewrite (p2_hlen _ _ _ _ _ P) in X; apply usub_inv in X; [|exact HM]; subst f end.
  assert (DI : dims (ps_A sI) M W) by apply (ri_dims _ _ _ _ _ _ _ RI).
  match goal with X : omapM _ (seqN i0 M) = Ok ?sb |- _ =>
    destruct (sub_init _ _ _ _ _ _ _ _ DI (p2_hrows _ _ _ _ _ P) iuW X) as (SL & SR & SB & SC); rename sb into sub0 end.
  assert (S0 : sinv A0 M W sI i0 u 0 sI sub0).
  { constructor.
    - exact RI.
    - exact SL.
    - exact SR.
    - apply SB; [apply (lt_A _ _ LI)|]. pose proof (lt_hd _ _ (p2_lite _ _ _ _ _ P)) as X. unfold hd_rows.
      destruct (ps_hd s); [exact X | constructor].
    - intros k' j' Hk' Hj'. rewrite SC by assumption. rewrite GI.
      destruct (N.ltb_spec (i0 + k') (M - H)).
      + cbn [sI set_hd ps_A]. rewrite EA. apply (p2_agreeA _ _ _ _ _ P); fold i0; lia.
      + rewrite (p2_agreeH _ _ _ _ _ P) by (fold i0; lia). f_equal. lia.
    - intros c' Hc'. lia. }
  assert (Hn : N.of_nat (N.to_nat u) + 0 = u) by lia.
  assert (RN : exists c' s' sub', c' < u /\ sinv A0 M W sI i0 u c' s' sub' /\
                 forall k', c' <= k' < M - i0 -> cell sub' k' c' = 0)
    by (eapply (reduce_loop_none A0 M W) with (n := N.to_nat u) (c := 0); eassumption).
  destruct RN as (c & sc & subc & Hcu & Sc & Zc).
  assert (ZB : forall k j, i0 + c <= k < M -> j < i0 + c + 1 -> G sc k j = 0)
    by (eapply sinv_zero_block; eassumption).
  pose proof (si_r _ _ _ _ _ _ _ _ _ Sc) as Rc.
  apply (zero_block_not_injective A0 M W A0_wf A0_len sc (i0 + c)).
  - apply (ri_lite _ _ _ _ _ _ _ Rc).
  - rewrite (ri_c _ _ _ _ _ _ _ Rc). cbn [sI set_hd ps_c]. rewrite Ec. exact Pc.
  - lia.
  - exact ZB.
Qed.
End Sing.

Lemma injective_mulN_fmul L A : wf_mat L A -> (injective mulN L A <-> injective fmul L A).
Proof.
  intros HA. unfold injective.
  assert (K : forall x, Forall (fun v => v < 256) x ->
     (Forall (fun r => lincomb mulN 1 r (map (fun v => [v]) x) = [0]) A <->
      Forall (fun r => lincomb fmul 1 r (map (fun v => [v]) x) = [0]) A)).
  { intros x Hx. rewrite !Forall_forall. unfold wf_mat in HA. rewrite Forall_forall in HA.
    split; intros H r Hr; specialize (H r Hr); destruct (HA r Hr) as [_ Wr].
    - rewrite lincomb_fmul; [exact H | exact Wr | apply wf_mat_singletons; exact Hx].
    - rewrite lincomb_fmul in H; [exact H | exact Wr | apply wf_mat_singletons; exact Hx]. }
  split; intros H x Hl Hx Hk; apply H; try assumption; apply (K x Hx); exact Hk.
Qed.
