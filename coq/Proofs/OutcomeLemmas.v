(* Generic lemmas about outcome-returning combinators (obind, omapM, ofold, nth_ok, add_w) used by
   the encoder / decoder proofs. *)
From Coq Require Import NArith List Bool Lia Arith.
From RQ Require Import Base.Outcome Base.Ints Base.ListX Model.CMatrix.
Import ListNotations.
Open Scope N_scope.

Lemma obind_ok {A B} (x : outcome A) (f : A -> outcome B) (b : B) :
  obind x f = Ok b -> exists a, x = Ok a /\ f a = Ok b.
Proof. destruct x as [a|c]; cbn [obind]; [eauto | discriminate]. Qed.

Lemma obind_assoc {A B C} (x : outcome A) (f : A -> outcome B) (g : B -> outcome C) :
  obind (obind x f) g = obind x (fun a => obind (f a) g).
Proof. destruct x; reflexivity. Qed.

Lemma obind_ext {A B} (x : outcome A) (f g : A -> outcome B) :
  (forall a, f a = g a) -> obind x f = obind x g.
Proof. intros E. destruct x; cbn [obind]; [apply E | reflexivity]. Qed.

Lemma assert_ok_ok b : assert_ok b = Ok tt -> b = true.
Proof. destruct b; [reflexivity | discriminate]. Qed.

Lemma assert_ok_inv b u : assert_ok b = Ok u -> b = true.
Proof. destruct b; [reflexivity | discriminate]. Qed.

(* invert a hypothesis  x <- e ;; k = Ok v  step by step *)
Ltac oinv H :=
  let a := fresh "a" in let E := fresh "E" in
  apply obind_ok in H; destruct H as [a [E H]].

Tactic Notation "oinvas" hyp(H) "as" simple_intropattern(p) ident(E) :=
  apply obind_ok in H; destruct H as [p [E H]].

(* ---- omapM ---- *)

Lemma omapM_Forall2 {A B} (f : A -> outcome B) (l : list A) (r : list B) :
  omapM f l = Ok r <-> Forall2 (fun a b => f a = Ok b) l r.
Proof.
  revert r; induction l as [|a t IH]; intros r; cbn [omapM].
  - split; [intros E; injection E as <-; constructor | intros E; inversion E; reflexivity].
  - split.
    + destruct (f a) as [b|] eqn:Ea; [|discriminate].
      destruct (omapM f t) as [bs|] eqn:Et; [|discriminate].
      intros E; injection E as <-. constructor; [exact Ea | apply IH; reflexivity].
    + intros E. inversion E as [|a' b' t' bs Hab Ht]; subst. rewrite Hab.
      apply IH in Ht. rewrite Ht. reflexivity.
Qed.

Lemma omapM_length {A B} (f : A -> outcome B) l r : omapM f l = Ok r -> length r = length l.
Proof. intros E. apply omapM_Forall2 in E. symmetry. revert E. induction 1; cbn; congruence. Qed.

Lemma omapM_ext_in {A B} (f g : A -> outcome B) l :
  (forall a, In a l -> f a = g a) -> omapM f l = omapM g l.
Proof.
  induction l as [|a t IH]; intros E; cbn [omapM]; [reflexivity|].
  rewrite (E a) by (left; reflexivity). rewrite IH by (intros x Hx; apply E; right; exact Hx).
  reflexivity.
Qed.

Lemma omapM_app {A B} (f : A -> outcome B) l1 l2 :
  omapM f (l1 ++ l2) =
  obind (omapM f l1) (fun r1 => obind (omapM f l2) (fun r2 => Ok (r1 ++ r2))).
Proof.
  induction l1 as [|a t IH]; cbn [omapM app obind].
  - destruct (omapM f l2); reflexivity.
  - destruct (f a); [|reflexivity]. rewrite IH.
    destruct (omapM f t); cbn [obind]; [|reflexivity].
    destruct (omapM f l2); reflexivity.
Qed.

Lemma omapM_app_ok {A B} (f : A -> outcome B) l1 l2 r :
  omapM f (l1 ++ l2) = Ok r ->
  exists r1 r2, omapM f l1 = Ok r1 /\ omapM f l2 = Ok r2 /\ r = r1 ++ r2.
Proof.
  rewrite omapM_app. intros E. oinv E. oinv E. injection E as <-. eauto.
Qed.

Lemma omapM_map {A B C} (f : B -> outcome C) (g : A -> B) l :
  omapM f (map g l) = omapM (fun a => f (g a)) l.
Proof.
  induction l as [|a t IH]; cbn [map omapM]; [reflexivity|]. rewrite IH. reflexivity.
Qed.

Lemma omapM_all_ok {A B} (f : A -> outcome B) l :
  (forall a, In a l -> exists b, f a = Ok b) -> exists r, omapM f l = Ok r.
Proof.
  induction l as [|a t IH]; intros E; cbn [omapM]; [eauto|].
  destruct (E a (or_introl eq_refl)) as [b Eb]. rewrite Eb.
  destruct IH as [r Er]; [intros x Hx; apply E; right; exact Hx|]. rewrite Er. eauto.
Qed.

Lemma omapM_ok_pure {A B} (g : A -> B) l : omapM (fun a => Ok (g a)) l = Ok (map g l).
Proof. induction l as [|a t IH]; cbn [omapM map]; [reflexivity|]. rewrite IH. reflexivity. Qed.

Lemma Forall2_nth_N {A B} (R : A -> B -> Prop) l r da db i :
  Forall2 R l r -> (i < length l)%nat -> R (nth i l da) (nth i r db).
Proof.
  intros F. revert i; induction F as [|a b l r Hab F IH]; intros i Hi; cbn [length] in Hi; [lia|].
  destruct i as [|i]; cbn [nth]; [exact Hab | apply IH; lia].
Qed.

Lemma Forall2_length' {A B} (R : A -> B -> Prop) l r : Forall2 R l r -> length l = length r.
Proof. induction 1; cbn; congruence. Qed.

Lemma Forall2_from_nth {A B} (R : A -> B -> Prop) l r da db :
  length l = length r -> (forall i, (i < length l)%nat -> R (nth i l da) (nth i r db)) ->
  Forall2 R l r.
Proof.
  revert r; induction l as [|a l IH]; intros [|b r] E Hn; cbn [length] in E; try discriminate;
    constructor.
  - apply (Hn 0%nat). cbn [length]. lia.
  - apply IH; [lia|]. intros i Hi. apply (Hn (S i)). cbn [length]. lia.
Qed.

(* ---- rangeN ---- *)

Lemma rangeN_length n : length (rangeN n) = n.
Proof. unfold rangeN. rewrite map_length, seq_length. reflexivity. Qed.

Lemma rangeN_nth n i d : (i < n)%nat -> nth i (rangeN n) d = N.of_nat i.
Proof.
  intros Hi. unfold rangeN.
  rewrite (nth_indep _ d (N.of_nat 0)) by (rewrite map_length, seq_length; exact Hi).
  rewrite map_nth, seq_nth by exact Hi. reflexivity.
Qed.

(* ---- nth_ok ---- *)

Lemma nth_ok_some {A} (l : list A) i d : (i < length l)%nat -> nth_ok l i = Ok (nth i l d).
Proof. intros H. unfold nth_ok. rewrite (nth_error_nth' l i d H). reflexivity. Qed.

Lemma nth_ok_inv {A} (l : list A) i a d : nth_ok l i = Ok a -> (i < length l)%nat /\ a = nth i l d.
Proof.
  unfold nth_ok. destruct (nth_error l i) as [x|] eqn:E; [|discriminate]. intros H; injection H as <-.
  split; [apply nth_error_Some; congruence | symmetry; apply nth_error_nth; exact E].
Qed.

(* ---- add_w ---- *)

Lemma add_w_mod m w a b v : add_w m w a b = Ok v -> v = (a + b) mod 2 ^ w.
Proof.
  unfold add_w. destruct (a + b <? 2 ^ w) eqn:E.
  - intros H; injection H as <-. apply N.ltb_lt in E. symmetry. apply N.mod_small. exact E.
  - destruct m; [intros H; injection H as <-; reflexivity | discriminate].
Qed.

Lemma add_w_release w a b : add_w Release w a b = Ok ((a + b) mod 2 ^ w).
Proof.
  unfold add_w. destruct (a + b <? 2 ^ w) eqn:E; [|reflexivity].
  apply N.ltb_lt in E. rewrite N.mod_small by exact E. reflexivity.
Qed.

Lemma add_w_checked_ok w a b v : add_w Checked w a b = Ok v -> a + b < 2 ^ w /\ v = a + b.
Proof.
  unfold add_w. destruct (a + b <? 2 ^ w) eqn:E; [|discriminate].
  intros H; injection H as <-. apply N.ltb_lt in E. auto.
Qed.

Lemma add_w_small' m w a b : a + b < 2 ^ w -> add_w m w a b = Ok (a + b).
Proof. intros H. unfold add_w. apply N.ltb_lt in H. rewrite H. reflexivity. Qed.

(* two chained additions only depend on how the three terms are grouped through the total *)
Definition add2 (m : mode) (a b c : N) : outcome N := obind (add_w m 32 a b) (fun x => add_w m 32 x c).

Lemma add2_checked a b c :
  add2 Checked a b c = if a + b + c <? 2 ^ 32 then Ok (a + b + c) else Panic POverflow.
Proof.
  unfold add2, add_w. destruct (a + b <? 2 ^ 32) eqn:E1; cbn [obind].
  - reflexivity.
  - apply N.ltb_ge in E1. destruct (a + b + c <? 2 ^ 32) eqn:E2; [apply N.ltb_lt in E2; lia | reflexivity].
Qed.

Lemma add2_release a b c : add2 Release a b c = Ok ((a + b + c) mod 2 ^ 32).
Proof.
  unfold add2. rewrite add_w_release. cbn [obind]. rewrite add_w_release.
  rewrite N.add_mod_idemp_l by (apply N.pow_nonzero; discriminate). reflexivity.
Qed.

Lemma add2_regroup_l m a b c : add2 m a b c = add2 m (a + c) b 0.
Proof.
  destruct m.
  - rewrite !add2_release. do 2 f_equal. lia.
  - rewrite !add2_checked. replace (a + c + b + 0) with (a + b + c) by lia. reflexivity.
Qed.

Lemma add2_regroup_r m a b c : add2 m a b c = add2 m a (b + c) 0.
Proof.
  destruct m.
  - rewrite !add2_release. do 2 f_equal. lia.
  - rewrite !add2_checked. replace (a + (b + c) + 0) with (a + b + c) by lia. reflexivity.
Qed.

Lemma add2_ok_mod m a b c v : add2 m a b c = Ok v -> v = (a + b + c) mod 2 ^ 32.
Proof.
  destruct m.
  - rewrite add2_release. intros H; injection H as <-. reflexivity.
  - rewrite add2_checked. destruct (a + b + c <? 2 ^ 32) eqn:E; [|discriminate].
    intros H; injection H as <-. apply N.ltb_lt in E. rewrite N.mod_small by exact E. reflexivity.
Qed.

Lemma add2_small m a b c : a + b + c < 2 ^ 32 -> add2 m a b c = Ok (a + b + c).
Proof.
  intros H. unfold add2. rewrite add_w_small' by lia. cbn [obind]. apply add_w_small'. exact H.
Qed.

(* ---- ofold ---- *)

Lemma ofold_app {A St} (f : A -> St -> outcome St) l1 l2 s :
  ofold f (l1 ++ l2) s = obind (ofold f l1 s) (fun s' => ofold f l2 s').
Proof.
  revert s; induction l1 as [|a t IH]; intros s; cbn [ofold app obind]; [reflexivity|].
  destruct (f a s); cbn [obind]; [apply IH | reflexivity].
Qed.

Lemma Forall2_impl' {A B} (R R' : A -> B -> Prop) l r :
  (forall a b, R a b -> R' a b) -> Forall2 R l r -> Forall2 R' l r.
Proof. intros HI F. induction F; constructor; auto. Qed.
