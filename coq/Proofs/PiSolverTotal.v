(* PS_no_panic, part 2 (mode Release): the whole run never panics. *)
From Coq Require Import NArith List Bool Lia Arith.
From RQ Require Import Base.Outcome Base.Ints Base.ListX Model.Octet Model.CMatrix Model.Slab
  Model.FieldFast
  Spec.Linear Proofs.OutcomeLemmas Proofs.OctetProofs Proofs.LinearProofs Model.PiSolver
  Proofs.PiSolverBase Proofs.PiSolverStruct Proofs.PiSolverOps Proofs.PiSolverG Proofs.PiSolverInvDefs
  Proofs.PiSolverStats Proofs.PiSolverHist Proofs.PiSolverGraph Proofs.PiSolverXStats
  Proofs.PiSolverSwapCols Proofs.PiSolverPhase2 Proofs.PiSolverPhase345 Proofs.PiSolverPhaseTotal
  Proofs.PiSolverSingular Proofs.PiSolverCells Proofs.PiSolverPhase1 Proofs.PiSolverSound
  Proofs.PiSolverElimTotal Proofs.PiSolverNoPanic.
Import ListNotations.
Open Scope N_scope.

Section RT.
Variable A0 : list (list N).
Variable M W Hn : N.
Hypothesis A0_wf : wf_mat (N.to_nat W) A0.
Hypothesis A0_len : lenN A0 = M.
Hypothesis W16 : W < 65536.
Hypothesis HM : Hn <= M.
Hypothesis WM : W <= M.
Hypothesis M32 : M < 4294967296.
Local Notation fp_inv := (fp_inv A0 M W Hn).
Local Notation np_inv := (np_inv A0 M W Hn).

Lemma np_loop_release N0 fuel : forall s st rops,
  np_inv Release N0 s st -> good M (ps_i s) rops ->
  (N.to_nat (W - (ps_i s + ps_u s)) < fuel)%nat ->
  exists r, first_phase_loop Release fuel s st rops = Ok r /\
    forall s' rops', r = Some (s', rops') ->
      (exists st', np_inv Release N0 s' st') /\ good M (ps_i s') rops' /\ ps_i s' + ps_u s' = W.
Proof.
  induction fuel as [|k IH]; intros s st rops NI Gd Hf; [lia|].
  cbn [first_phase_loop]. pose proof (ni_fp _ _ _ _ _ _ _ _ NI) as I.
  rewrite (fi_L _ _ _ _ _ _ I). pose proof (fi_iu _ _ _ _ _ _ I) as Hiu.
  destruct (N.ltb_spec (ps_i s + ps_u s) W) as [Hlt|Hge].
  - destruct (np_step_pre A0 M W Hn A0_wf A0_len W16 HM M32 Release N0 s st rops NI Gd Hlt)
      as [En|(s1 & st1 & rops1 & Pre & NI1 & Gd1 & Hm)].
    + rewrite En. cbn [obind]. eexists. split; [reflexivity|]. intros s' rops' X. discriminate.
    + rewrite (fp_pre_step_run _ _ _ _ _ _ _ Pre). cbn [verify_of obind].
      apply (IH s1 st1 rops1 NI1 Gd1). lia.
  - eexists. split; [reflexivity|]. intros s' rops' X. inversion X; subst. split; [eauto|]. split; [exact Gd | lia].
Qed.

(* the first phase from an initial state *)
Lemma first_phase_release_total s :
  (forall st, st_inv (ps_A s) st (ps_i s) (M - Hn) (ps_i s) (W - ps_u s) -> fp_inv s st) ->
  ps_i s = 0 -> ps_u s <= W -> ps_W s = W -> ps_L s = W -> dims (ps_A s) M W -> lenN (hd_rows s) = Hn ->
  (forall k j, M - Hn <= k < M -> j < W - ps_u s -> cell (ps_A s) k j = 0) -> W - ps_u s < 65535 ->
  exists r, first_phase Release s = Ok r /\
    forall s' xo, r = Some (s', xo) ->
      (exists st', fp_inv s' st') /\ ps_i s' + ps_u s' = W /\ Forall (xo_lt (ps_i s')) xo.
Proof.
  intros Hinv Hi0 Hu HW HL DA Hh Hz Hod. unfold first_phase.
  rewrite HW, usub_total by exact Hu. cbn [obind].
  unfold ps_height. rewrite (proj1 DA), num_hdpc_hd_rows, Hh, usub_total by exact HM. cbn [obind].
  assert (Hz' : forall k, M - Hn <= k < M -> cnt (rowN (ps_A s) k) 0 (W - ps_u s) = 0).
  { intros k Hk. apply cnt_zero. intros j Hj. fold (cell (ps_A s) k j). rewrite Hz by lia. discriminate. }
  destruct (xst_new Release (ps_A s) M W (W - ps_u s) (M - Hn) DA M32 ltac:(lia) W16 ltac:(lia) Hz') as (st & Est & X).
  rewrite Est. cbn [obind].
  assert (NI : np_inv Release (W - ps_u s) s st).
  { constructor.
    - apply Hinv. rewrite Hi0. apply (xs_st _ _ _ _ _ _ _ X).
    - rewrite Hi0. exact X.
    - lia.
    - exact I.
    - exact (st_new_od _ _ _ _ _ Hod Est).
    - intros E; discriminate.
    - exact Hz. }
  destruct (np_loop_release (W - ps_u s) (S (N.to_nat (ps_L s))) s st [] NI I ltac:(rewrite HL; lia)) as (r & Er & Hr).
  rewrite Er. cbn [obind]. destruct r as [[s1 rops]|].
  - destruct (Hr s1 rops eq_refl) as ((st1 & NI1) & Gd1 & Hiu1).
    pose proof (ni_fp _ _ _ _ _ _ _ _ NI1) as I1.
    assert (Hh1 : ps_height s1 = M) by (apply (fp_height _ _ _ _ _ _ I1)).
    destruct (x_elim_total M (ps_i s1) rops (seqN 0 (ps_height s1)) (ps_i s1) [] Gd1 ltac:(lia)
                ltac:(pose proof (fi_iH _ _ _ _ _ _ I1); lia)) as (xo & Exo & Fxo).
    + rewrite Hh1. apply permN_seqN.
    + intros p Hp. rewrite Hh1. apply seqN_nth0. pose proof (fi_iH _ _ _ _ _ _ I1). lia.
    + constructor.
    + cbv beta iota. unfold ps_height in Exo. rewrite Exo. cbn [obind]. eexists. split; [reflexivity|]. intros s' xo' E. inversion E; subst.
      split; [eauto|]. split; assumption.
  - eexists. split; [reflexivity|]. intros s' xo E. discriminate.
Qed.

Lemma execute_release_total s :
  (forall st, st_inv (ps_A s) st (ps_i s) (M - Hn) (ps_i s) (W - ps_u s) -> fp_inv s st) ->
  ps_i s = 0 -> ps_u s <= W -> ps_W s = W -> ps_L s = W -> dims (ps_A s) M W -> lenN (hd_rows s) = Hn ->
  (forall k j, M - Hn <= k < M -> j < W - ps_u s -> cell (ps_A s) k j = 0) -> W - ps_u s < 65535 ->
  exists r, execute Release s = Ok r.
Proof.
  intros Hinv Hi0 Hu HW HL DA Hh Hz Hod. unfold execute.
  destruct (first_phase_release_total s Hinv Hi0 Hu HW HL DA Hh Hz Hod) as (r & Er & Hr). rewrite Er. cbn [obind].
  destruct r as [[s1 xo]|]; [|eauto].
  destruct (Hr s1 xo eq_refl) as ((st1 & I1) & Hiu & Fxo).
  assert (P2 : p2_pre A0 M W Hn s1) by (constructor; try apply I1; try assumption).
  destruct (second_phase_total A0 M W A0_wf A0_len Hn s1 xo P2) as (r2 & E2). rewrite E2. cbn [obind].
  destruct r2 as [s2|]; [|eauto].
  destruct (second_phase_spec A0 M W A0_wf A0_len Release Hn s1 xo s2 P2 E2) as
    (L2 & Hhd2 & Ei2 & Eu2 & Ec2 & EW2 & EL2 & D2 & B2 & Hrows2 & HG2 & Hlow2 & Hid2).
  pose proof (fi_iH _ _ _ _ _ _ I1) as HiH.
  assert (P3 : p3_pre A0 M W s2).
  { constructor; try assumption.
    - rewrite Ei2, Eu2. exact Hiu.
    - rewrite Ei2. intros k j Hk Hj. destruct (N.ltb_spec k (ps_i s1)) as [Hlo|Hhi].
      + rewrite Hrows2, HG2 by exact Hlo. apply (fi_agreeA _ _ _ _ _ _ I1); lia.
      + rewrite Hid2, Hlow2 by lia. reflexivity.
    - rewrite Ei2. intros k j Hk Hj. rewrite HG2 by exact Hk. apply (fi_I _ _ _ _ _ _ I1); assumption.
    - rewrite Ei2. exact Hlow2. }
  assert (Pc : permN W (ps_c s2)) by (rewrite Ec2; apply (fi_c _ _ _ _ _ _ I1)).
  destruct (phases345_total A0 M W A0_wf A0_len s2 xo P3 ltac:(rewrite Ei2; exact Fxo) Pc)
    as (s3 & s4 & s5 & ord & E3 & E4 & E5 & E6).
  rewrite E3. cbn [obind]. rewrite E4. cbn [obind]. rewrite E5. cbn [obind]. rewrite E6. cbn [obind]. eauto.
Qed.

End RT.

(* ---- the constructors never panic ---- *)
Lemma dims_hd A Mn Wn : dims A Mn Wn -> 0 < Mn -> lenN (hd [] A) = Wn.
Proof.
  intros [DL DR] HM0. destruct A as [|r0 A']; [cbn in DL; lia|]. inversion DR as [|? ? Hr0 ?]. cbn. exact Hr0.
Qed.

Lemma ps_new_common_total m A L P Mn Wn : dims A Mn Wn -> 0 < Mn -> Wn <= Mn -> P <= Wn ->
  exists s, ps_new_common m A L P = Ok s /\ xdims m (ps_X s) Mn (Wn - P) /\
    ps_A s = A /\ ps_d s = seqN 0 Mn /\ ps_hd s = None /\ ps_ops s = [] /\
    (m = Checked -> forall k, rowN (ps_X s) k = firstn (N.to_nat (Wn - P)) (rowN (ps_A s) k)).
Proof.
  intros D HM0 HWM HP. unfold ps_new_common. rewrite (dims_hd _ _ _ D HM0). destruct D as [DL DR]. rewrite DL.
  replace (Wn <=? Mn) with true by (symmetry; apply N.leb_le; exact HWM). cbn [assert_ok obind].
  destruct m; cbn [obind].
  - eexists. split; [reflexivity|]. cbn. repeat split. intros E; discriminate.
  - rewrite usub_total by exact HP. cbn [obind]. unfold bm_resize. rewrite DL.
    replace ((Mn <=? Mn) && (Wn - P <=? Wn)) with true
      by (symmetry; apply andb_true_iff; split; apply N.leb_le; lia).
    cbn [obind]. eexists. split; [reflexivity|]. cbn. split; [|repeat split].
    2:{ intros _ k. unfold rowN.
        replace (firstn (N.to_nat Mn) A) with A by (symmetry; apply firstn_all2; unfold lenN in DL; lia).
        destruct (Nat.ltb_spec (N.to_nat k) (length A)) as [Lk|Lk].
        - rewrite (nth_indep _ [] (firstn (N.to_nat (Wn - P)) [])) by (rewrite map_length; exact Lk).
          rewrite map_nth. reflexivity.
        - rewrite !nth_overflow by (rewrite ?map_length; exact Lk). destruct (N.to_nat (Wn - P)); reflexivity. }
    split.
    + unfold lenN in *. rewrite map_length, firstn_length. lia.
    + apply Forall_forall. intros r Hr. apply in_map_iff in Hr. destruct Hr as (r0 & <- & Hr0).
      apply In_firstn_incl' in Hr0. rewrite Forall_forall in DR. specialize (DR r0 Hr0).
      unfold lenN in *. rewrite firstn_length. lia.
Qed.

Lemma ps_new_total m S H A hdpc L P Mn Wn : dims A Mn Wn -> 0 < Mn -> Wn <= Mn -> P <= Wn ->
  S + 2 * H <= Mn ->
  exists s, ps_new m S H A hdpc L P = Ok s /\ xdims m (ps_X s) Mn (Wn - P) /\ ps_ops s = [] /\
    (m = Checked -> forall k, rowN (ps_X s) k = firstn (N.to_nat (Wn - P)) (rowN (ps_A s) k)).
Proof.
  intros D HM0 HWM HP HS. unfold ps_new.
  destruct (ps_new_common_total m A L P Mn Wn D HM0 HWM HP) as (s0 & E0 & HX0 & EA0 & Ed0 & Eh0 & Eo0 & EXA0).
  rewrite E0. cbn [obind].
  set (Q := fun s : pstate => lenN (ps_A s) = Mn /\ lenN (ps_d s) = Mn /\ ps_hd s = None /\
                              xdims m (ps_X s) Mn (Wn - P) /\ ps_ops s = [] /\
              (m = Checked -> forall k, rowN (ps_X s) k = firstn (N.to_nat (Wn - P)) (rowN (ps_A s) k))).
  destruct (ofold_total Q (fun i s => hi <- usub m (ps_height s) H ;;
                                       s1 <- ps_swap_rows m s (S + i) (hi + i) ;;
                                       onX m s1 (fun X => bm_swap_rows X (S + i) (hi + i)))%outcome
              (seqN 0 H)) with (s := s0) as (s1 & E1 & Q1).
  - intros i s Hi (QA & Qd & Qh & QX & Qo & QXA). apply seqN_in in Hi. cbv beta.
    unfold ps_height. rewrite QA, usub_total by lia. cbn [obind].
    assert (Hhr : lenN (hd_rows s) = 0) by (unfold hd_rows; rewrite Qh; reflexivity).
    destruct (ps_swap_rows_total m s Mn (S + i) (Mn - H + i) QA Qd) as [s' Es']; try (rewrite Hhr; lia).
    rewrite Es'. cbn [obind].
    assert (QX' : xdims m (ps_X s') Mn (Wn - P)) by (rewrite (ps_swap_rows_X _ _ _ _ _ Es'); exact QX).
    destruct (onX_swap_rows_total m s' Mn (Wn - P) (S + i) (Mn - H + i) QX' ltac:(lia) ltac:(lia)) as (s'' & Es'' & QX'').
    exists s''. split; [exact Es''|].
    destruct (ps_swap_rows_frame _ _ _ _ _ Es') as (FA & Fd & Fh & _ & _ & _ & _ & _ & Fo & _).
    destruct (onX_frame _ _ _ _ Es'') as (GA & Gh & Gd & _ & _ & _ & _ & _ & Go).
    unfold bm_swap_rows in FA. destruct (swapN_lenN _ _ _ _ FA) as [LA _]. destruct (swapN_lenN _ _ _ _ Fd) as [Ld _].
    split; [congruence|]. split; [congruence|]. split; [congruence|]. split; [exact QX''|]. split; [congruence|].
    intros Em k. subst m. cbn [onX] in Es''. oinvas Es'' as X2 EX2. inversion Es''; subst s''. cbn [set_X ps_X ps_A].
    unfold bm_swap_rows in EX2. unfold rowN. rewrite (swapN_cell _ _ _ _ [] k EX2), (swapN_cell _ _ _ _ [] k FA).
    rewrite (ps_swap_rows_X _ _ _ _ _ Es'). apply (QXA eq_refl).
  - unfold Q. rewrite EA0, Ed0. split; [apply D|]. split; [unfold lenN; rewrite seqN_length; lia|].
    split; [exact Eh0|]. split; [exact HX0|]. split; [exact Eo0|]. rewrite <- EA0. exact EXA0.
  - rewrite E1. cbn [obind]. eexists. split; [reflexivity|]. cbn. destruct Q1 as (_ & _ & _ & Q4 & Q5 & Q6).
    split; [exact Q4|]. split; [exact Q5 | exact Q6].
Qed.

Theorem pi_run_no_hdpc_release_total A L P Mn Wn :
  dims A Mn Wn -> 0 < Mn -> Mn < 4294967296 -> bin_mat A -> L = Wn -> P <= Wn -> Wn < 65536 -> Wn <= Mn ->
  Wn - P < 65535 ->
  exists r, pi_run_no_hdpc Release A L P = Ok r.
Proof.
  intros D HM0 M32 Bin HL HP W16 HWM Hod. unfold pi_run_no_hdpc.
  destruct (ps_new_common_total Release A L P Mn Wn D HM0 HWM HP) as (s0 & E0 & _ & EA0 & _).
  rewrite E0. cbn [obind].
  destruct (no_hdpc_init_state _ _ _ _ _ _ _ D HM0 Bin HL HP E0) as (_ & Wf & Hinv & Hi & Hu & HW & HA & Hh).
  apply (execute_release_total A Mn Wn 0 Wf (proj1 D) W16 ltac:(lia) HWM M32 s0 Hinv Hi ltac:(lia) HW); try assumption.
  - unfold ps_new_common in E0. rewrite (dims_hd _ _ _ D HM0) in E0. omon E0. inversion E0; subst; cbn; first [reflexivity | assumption].
  - rewrite HA. exact D.
  - intros k j Hk. lia.
  - rewrite Hu. exact Hod.
Qed.

Theorem pi_run_release_total S H A hdpc L P Mn Wn :
  dims A Mn Wn -> 0 < Mn -> Mn < 4294967296 -> bin_mat A -> dims hdpc H Wn -> bytes_mat hdpc ->
  S + 2 * H <= Mn -> L = Wn -> P <= Wn -> Wn < 65536 -> Wn <= Mn ->
  (forall k j, S <= k < S + H -> j < Wn - P -> cell A k j = 0) -> Wn - P < 65535 ->
  exists r, pi_run Release S H A hdpc L P = Ok r.
Proof.
  intros D HM0 M32 Bin Dh Bh HS HL HP W16 HWM Hzero Hod. unfold pi_run.
  destruct (ps_new_total Release S H A hdpc L P Mn Wn D HM0 HWM HP HS) as (s0 & E0 & _).
  rewrite E0. cbn [obind].
  destruct (hdpc_init_state _ _ _ _ _ _ _ _ _ _ D HM0 Bin Dh Bh HS HL HP E0)
    as (_ & Wf & A0len & Hinv & Hi & Hu & HW & HA & Hh & Hrows).
  assert (DA : dims (ps_A s0) Mn Wn).
  { split; [exact HA|]. apply Forall_forall. intros r Hr. destruct (In_nth _ _ [] Hr) as (k & Lk & <-).
    assert (Hk : N.of_nat k < Mn) by (unfold lenN in HA; lia).
    pose proof (Hrows (N.of_nat k) Hk) as Er. unfold rowN in Er at 1. rewrite Nat2N.id in Er. rewrite Er.
    apply (dims_row _ _ _ _ D).
    unfold sigma. destruct (N.leb_spec S (N.of_nat k)); destruct (N.ltb_spec (N.of_nat k) (S + H)); cbn [andb]; try lia;
      destruct (N.leb_spec (Mn - H) (N.of_nat k)); destruct (N.ltb_spec (N.of_nat k) (Mn - H + H)); cbn [andb]; lia. }
  apply (execute_release_total _ Mn Wn H Wf A0len W16 ltac:(lia) HWM M32 s0 Hinv Hi ltac:(lia) HW); try assumption.
  - pose proof (Hinv) as Hx. clear Hx.
    unfold ps_new in E0. omon E0. inversion E0; subst s0. cbn.
    match goal with X : ofold _ _ _ = Ok ?a |- ps_L ?a = _ => revert X end.
    apply (ofold_inv_in (fun x => ps_L x = Wn)).
    + intros i sa sb _ Ea Eb. omon Eb.
      match goal with X : ps_swap_rows _ _ _ _ = Ok _ |- _ =>
        destruct (ps_swap_rows_frame _ _ _ _ _ X) as (_ & _ & _ & _ & _ & _ & _ & FL & _) end.
      destruct (onX_frame _ _ _ _ Eb) as (_ & _ & _ & _ & _ & _ & _ & GL & _). congruence.
    + unfold ps_new_common in E. rewrite (dims_hd _ _ _ D HM0) in E. omon E. inversion E; subst; cbn; first [reflexivity | assumption].
  - intros k j Hk Hj. unfold cell. rewrite Hrows by lia. rewrite Hu in Hj.
    fold (cell A (sigma S H Mn H k) j). apply Hzero; [|lia].
    unfold sigma. destruct (N.leb_spec S k); destruct (N.ltb_spec k (S + H)); cbn [andb]; try lia;
      destruct (N.leb_spec (Mn - H) k); destruct (N.ltb_spec k (Mn - H + H)); cbn [andb]; lia.
  - rewrite Hu. exact Hod.
Qed.
