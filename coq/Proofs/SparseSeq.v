(* Proofs about Model/SparseMatrix.v, part 9: one step of the sparse matrix simulates one step of
   the abstract machine with its ghost state (Spec/SparseAdm.v); lifting to operation sequences and
   to the differential-testing entry points; corollaries in terms of the abstraction function. *)
From Coq Require Import NArith ZArith List Bool Lia Arith Sorted Permutation ZifyBool ZifyN.
From RQ Require Import Base.Outcome Base.Ints Base.ListX Spec.BitMatrix Spec.SparseAdm
  Model.DenseMatrix Model.SparseMatrix Proofs.DenseBits Proofs.DenseMatrixProofs Proofs.DenseQueries
  Proofs.DenseSeq Proofs.SparseVecProofs Proofs.SparseMatrixProofs Proofs.SparseSim
  Proofs.SparseQueries Proofs.SparseQuerySim Proofs.SparseAdd Proofs.SparseFreeze Proofs.SparseResize.
Import ListNotations.
Open Scope N_scope.

(* two answers are equivalent when their encodings agree: identical, except that a row answer is
   compared as the set of the columns whose value is 1 *)
Definition ans_equiv (x y : option ans) : Prop := enc_ans x = enc_ans y.

Lemma ssorted_map_filter_seq (f : nat -> bool) : forall n a, ssorted (map N.of_nat (filter f (seq a n))).
Proof.
  induction n as [|n IH]; intros a; cbn [seq filter map]; [constructor|].
  destruct (f a); cbn [map]; [|apply IH].
  apply ssorted_cons; [apply IH|]. apply Forall_forall. intros y Hy.
  apply in_map_iff in Hy. destruct Hy as [k [Ek Hk]]. apply filter_In in Hk. destruct Hk as [Hk _].
  apply in_seq in Hk. lia.
Qed.

Lemma filter_all_true {A} (f : A -> bool) l : (forall x, In x l -> f x = true) -> filter f l = l.
Proof.
  induction l as [|x t IH]; intros H; [reflexivity|]. cbn [filter].
  rewrite (H x) by (left; reflexivity). f_equal. apply IH. intros y Hy. apply H. right. exact Hy.
Qed.

Lemma map_of_to_nat l : map N.of_nat (map N.to_nat l) = l.
Proof. rewrite map_map. rewrite <- (map_id l) at 2. apply map_ext. intros. apply N2Nat.id. Qed.

(* ---------------- one step ---------------- *)

Lemma step_sim md m st o : srefines md m st -> adm_sparse st o = true ->
  exists m' r, sm_step md m o = Ok (m', r) /\ srefines md m' (fst (ss_step st o)) /\
    ans_equiv r (snd (ss_step st o)).
Proof.
  intros Hr Hadm. unfold sm_step. destruct o; cbn [sm_step_gen]; unfold ss_step at 2; cbn [snd bm_step].
  - destruct (ssim_set md m st i j v Hr Hadm) as [m' [H1 H2]]. rewrite H1. cbn [obind].
    exists m', None. split; [reflexivity|]. split; [assumption | reflexivity].
  - rewrite (ssim_get md m st i j Hr Hadm). cbn [obind]. rewrite nz_b2n.
    exists m, (Some (ABit (bm_get (fst st) (N.to_nat i) (N.to_nat j)))). split; [reflexivity|].
    split; [|reflexivity]. destruct st. exact Hr.
  - destruct (ssim_swap_rows md m st i j Hr Hadm) as [m' [H1 H2]]. rewrite H1. cbn [obind].
    exists m', None. split; [reflexivity|]. split; [assumption | reflexivity].
  - destruct (ssim_swap_columns md m st i j hint Hr Hadm) as [m' [H1 H2]].
    unfold sm_swap_columns in H1. rewrite H1. cbn [obind].
    exists m', None. split; [reflexivity|]. split; [assumption | reflexivity].
  - destruct (ssim_add_rows md m st dest src start_col Hr Hadm) as [m' [H1 H2]]. rewrite H1. cbn [obind].
    exists m', None. split; [reflexivity|]. split; [assumption | reflexivity].
  - destruct (ssim_resize md m st new_h new_w Hr Hadm) as [m' [H1 H2]]. rewrite H1. cbn [obind].
    exists m', None. split; [reflexivity|]. split; [assumption | reflexivity].
  - rewrite (ssim_count_ones md m st row s e Hr Hadm). cbn [obind]. rewrite Nat2N.id.
    eexists m, _. split; [reflexivity|]. split; [destruct st; exact Hr | reflexivity].
  - destruct (ssim_row_iter md m st row s e Hr Hadm) as [l [H1 [H2 H3]]]. rewrite H1. cbn [obind].
    eexists m, _. split; [reflexivity|]. split; [destruct st; exact Hr|].
    unfold ans_equiv. cbn [enc_ans]. f_equal.
    rewrite (filter_all_true (fun cv : N * N => nz (snd cv)) l).
    2:{ intros cv Hcv. rewrite Forall_forall in H2. rewrite (H2 cv Hcv). reflexivity. }
    rewrite (sortN_perm_sorted _ _ H3) by apply ssorted_map_filter_seq.
    rewrite filter_all_true by (intros cv Hcv; apply in_map_iff in Hcv; destruct Hcv as [c [E _]]; subst cv; reflexivity).
    rewrite map_map. cbn [fst]. rewrite !map_map.
    unfold bm_row, q_row. rewrite filter_map_comm, map_map. cbn [fst snd].
    apply map_ext. intros c. apply N2Nat.id.
  - destruct (ssim_ones_in_column md m st col s e Hr Hadm) as [l [H1 H2]]. rewrite H1. cbn [obind].
    eexists m, _. split; [reflexivity|]. split; [destruct st; exact Hr|].
    rewrite (sortN_perm_sorted _ _ H2) by apply ssorted_map_filter_seq.
    rewrite map_to_nat_of_nat. reflexivity.
  - destruct (ssim_sub_row md m st row s Hr Hadm) as [ws [H1 [_ H3]]]. rewrite H1. cbn [obind].
    rewrite H3. cbn [obind]. rewrite map_nz_b2n.
    eexists m, _. split; [reflexivity|]. split; [destruct st; exact Hr | reflexivity].
  - pose proof (ssim_non_zero_columns md m st row s Hr Hadm) as H1.
    unfold sm_query_non_zero_columns in H1. rewrite H1. cbn [obind].
    eexists m, _. split; [reflexivity|]. split; [destruct st; exact Hr|].
    rewrite sortN_sorted_id by apply ssorted_map_filter_seq. rewrite map_to_nat_of_nat. reflexivity.
  - destruct (ssim_freeze md m st col Hr Hadm) as [m' [H1 H2]].
    unfold sm_hint_column_dense_and_frozen in H1. rewrite H1. cbn [obind].
    exists m', None. split; [reflexivity|]. split; [assumption | reflexivity].
  - destruct (ssim_enable md m st Hr Hadm) as [m' [H1 H2]].
    unfold sm_enable_column_access_acceleration in H1. rewrite H1. cbn [obind].
    exists m', None. split; [reflexivity|]. split; [assumption | reflexivity].
  - destruct (ssim_disable md m st Hr Hadm) as [m' [H1 H2]]. rewrite H1. cbn [obind].
    exists m', None. split; [reflexivity|]. split; [assumption | reflexivity].
Qed.

(* ---------------- sequences ---------------- *)

(* the abstract matrix and the answers of the ghost-extended machine are those of [bm_exec] *)
Lemma ss_exec_bm ops : forall st,
  fst (fst (ss_exec st ops)) = fst (bm_exec (fst st) ops) /\
  snd (ss_exec st ops) = snd (bm_exec (fst st) ops).
Proof.
  induction ops as [|o t IH]; intros st; cbn [ss_exec bm_exec]; [split; reflexivity|].
  unfold ss_step. destruct (bm_step (fst st) o) as [a1 r] eqn:Es. cbn [fst snd].
  specialize (IH (a1, sg_step st o)). cbn [fst] in IH.
  destruct (ss_exec (a1, sg_step st o) t) as [st2 rs]. destruct (bm_exec a1 t) as [a2 rs'].
  cbn [fst snd] in *. destruct IH as [H1 H2]. split; congruence.
Qed.

Lemma adm_sparse_adm st o : adm_sparse st o = true -> adm o (fst st) = true.
Proof. destruct st as [a g]. unfold adm_sparse. intros H. apply andb_true_iff in H. apply H. Qed.

Lemma adm_sparse_seq_adm ops : forall st, adm_sparse_seq st ops = true -> adm_seq (fst st) ops = true.
Proof.
  induction ops as [|o t IH]; intros st H; [reflexivity|]. cbn [adm_sparse_seq adm_seq] in *.
  apply andb_true_iff in H. destruct H as [H1 H2]. apply andb_true_iff. split; [apply adm_sparse_adm; exact H1|].
  apply (IH _ H2).
Qed.

Lemma exec_sim md ops : forall m st, srefines md m st -> adm_sparse_seq st ops = true ->
  exists m' l, sm_exec md m ops = Ok (m', l) /\ srefines md m' (fst (ss_exec st ops)) /\
    Forall2 ans_equiv l (snd (ss_exec st ops)).
Proof.
  induction ops as [|o t IH]; intros m st Hr Hadm; cbn [sm_exec ss_exec].
  - exists m, []. split; [reflexivity|]. split; [exact Hr | constructor].
  - cbn [adm_sparse_seq] in Hadm. apply andb_true_iff in Hadm. destruct Hadm as [Ha1 Ha2].
    destruct (step_sim md m st o Hr Ha1) as [m1 [r [H1 [H2 H3]]]]. rewrite H1. cbn [obind].
    destruct (ss_step st o) as [st1 r1] eqn:Es. cbn [fst snd] in *.
    destruct (IH m1 st1 H2 Ha2) as [m2 [l [H4 [H5 H6]]]]. rewrite H4. cbn [obind].
    destruct (ss_exec st1 t) as [st2 rs]. cbn [fst snd] in *.
    exists m2, (r :: l). split; [reflexivity|]. split; [exact H5|]. constructor; assumption.
Qed.

Definition decode_all (ops : list (list N)) : list op :=
  fold_right (fun l acc => match decode_op l with Some o => o :: acc | None => acc end) [] ops.

Lemma run_sim md ops : forall m st, srefines md m st ->
  (forall l, In l ops -> decode_op l <> None) ->
  adm_sparse_seq st (decode_all ops) = true ->
  sm_run_from md m ops = bm_run_from (fst st) ops /\ sm_run_from md m ops = sp_run_from st ops.
Proof.
  induction ops as [|l t IH]; intros m st Hr Hdec Hadm; unfold sm_run_from in *;
    cbn [sm_run_from_gen bm_run_from sp_run_from]; [split; reflexivity|].
  unfold decode_all in Hadm. cbn [fold_right] in Hadm. fold (decode_all t) in Hadm.
  destruct (decode_op l) as [o|] eqn:Ed; [|exfalso; apply (Hdec l); [left; reflexivity | exact Ed]].
  cbn [adm_sparse_seq] in Hadm. apply andb_true_iff in Hadm. destruct Hadm as [Ha1 Ha2].
  rewrite (adm_sparse_adm st o Ha1), Ha1.
  destruct (step_sim md m st o Hr Ha1) as [m1 [r [H1 [H2 H3]]]]. unfold sm_step in H1. rewrite H1.
  unfold ss_step in *. destruct (bm_step (fst st) o) as [a1 r1]. cbn [fst snd] in *.
  destruct (IH m1 (a1, sg_step st o) H2) as [I1 I2]; [intros l' Hl'; apply Hdec; right; exact Hl' | exact Ha2|].
  cbn [fst] in I1. unfold ans_equiv in H3. rewrite H3. split; f_equal; assumption.
Qed.

(* ---------------- from new ---------------- *)

Lemma sparse_sequence md h w hint ops :
  adm_sparse_new h w hint = true ->
  adm_sparse_seq (ss_new (N.to_nat h) (N.to_nat w) (N.to_nat hint)) ops = true ->
  exists m0 m' l, sm_new md h w hint = Ok m0 /\ sm_exec md m0 ops = Ok (m', l) /\
    sm_inv md m' /\
    Forall2 ans_equiv l (snd (bm_exec (bm_new (N.to_nat h) (N.to_nat w)) ops)) /\
    bm_agree (sm_abs m') (fst (bm_exec (bm_new (N.to_nat h) (N.to_nat w)) ops)).
Proof.
  intros Hnew Hadm. destruct (ssim_new md h w hint Hnew) as [m0 [H0 [Hr0 _]]].
  destruct (exec_sim md ops m0 _ Hr0 Hadm) as [m' [l [H1 [H2 H3]]]].
  destruct (ss_exec_bm ops (ss_new (N.to_nat h) (N.to_nat w) (N.to_nat hint))) as [E1 E2].
  cbn [ss_new fst] in E1, E2.
  exists m0, m', l. split; [exact H0|]. split; [exact H1|]. split; [exact (ref_inv _ _ _ H2)|].
  split; [rewrite <- E2; exact H3|]. rewrite <- E1.
  destruct (ss_exec (ss_new (N.to_nat h) (N.to_nat w) (N.to_nat hint)) ops) as [[a g] rs]. cbn [fst snd] in *.
  pose proof (ref_h _ _ _ H2) as Hh. pose proof (ref_w _ _ _ H2) as Hw. cbn [fst] in Hh, Hw.
  split; [rewrite sabs_bh; congruence|]. split; [rewrite sabs_bw; congruence|].
  intros i j Hi Hj Hd. rewrite sabs_get by lia. symmetry. apply (ref_cells _ _ _ H2); assumption.
Qed.

Lemma sparse_run md h w hint ops :
  (forall l, In l ops -> decode_op l <> None) ->
  adm_sparse_new h w hint = true ->
  adm_sparse_seq (ss_new (N.to_nat h) (N.to_nat w) (N.to_nat hint)) (decode_all ops) = true ->
  sm_run md h w hint ops = bm_run h w ops /\ sm_run md h w hint ops = sp_run h w hint ops.
Proof.
  intros Hdec Hnew Hadm. destruct (ssim_new md h w hint Hnew) as [m0 [H0 [Hr0 _]]].
  unfold sm_run, sm_run_gen, bm_run, sp_run. rewrite H0, Hnew.
  destruct (run_sim md ops m0 _ Hr0 Hdec Hadm) as [R1 R2]. unfold sm_run_from in *.
  split; [exact R1 | exact R2].
Qed.

(* ---------------- corollaries in terms of the abstraction function ---------------- *)

(* the ghost state describes the concrete matrix *)
Record ghost_ok (md : mode) (m : smat) (g : sghost) : Prop := mkgk {
  gk_nd : g_nd g = N.to_nat (s_nd m);
  gk_w0 : g_w0 g = length (s_l2p_col m);
  gk_idx : g_indexed g = negb (s_disabled m);
  gk_len : length (g_stale g) = length (s_l2p_col m);
  gk_valid : md = Checked -> s_valid m = map negb (g_stale g);
  gk_exact : index_exact m (g_stale g)
}.

Lemma srefines_abs md m g : sm_inv md m -> ghost_ok md m g -> srefines md m (sm_abs m, g).
Proof.
  intros Hinv [H1 H2 H3 H4 H5 H6]. constructor; cbn [fst snd]; try assumption; try reflexivity.
  intros i j Hi Hj _. rewrite sabs_bh in Hi. rewrite sabs_bw in Hj. apply sabs_get; assumption.
Qed.

Lemma srefines_split md m a g : srefines md m (a, g) ->
  sm_inv md m /\ ghost_ok md m g /\ bm_agree (sm_abs m) a.
Proof.
  intros [Hinv Hh Hw H1 H2 H3 H4 H5 Hc H6]. cbn [fst snd] in *.
  split; [exact Hinv|]. split; [constructor; assumption|].
  split; [rewrite sabs_bh; congruence|]. split; [rewrite sabs_bw; congruence|].
  intros i j Hi Hj Hd. rewrite sabs_get by lia. symmetry. apply Hc; assumption.
Qed.

Lemma agree_eq m h w f d : bm_agree (sm_abs m) (bm_make h w f d) ->
  (forall i j, (i < h)%nat -> (j < w)%nat -> d i j = true) -> sm_abs m = bm_make h w f d.
Proof.
  intros [Hh [Hw Hc]] Hd. cbn [bm_make bh bw] in Hh, Hw, Hc. rewrite sabs_bh in Hh. rewrite sabs_bw in Hw.
  unfold sm_abs. rewrite Hh, Hw. apply bm_make_ext; intros i j Hi Hj.
  - specialize (Hc i j Hi Hj). rewrite bm_make_def, bm_make_get in Hc by assumption.
    rewrite sabs_get in Hc by lia. apply Hc. apply Hd; assumption.
  - symmetry. apply Hd; assumption.
Qed.

Lemma agree_abs_eq m' m : bm_agree (sm_abs m') (sm_abs m) -> sm_abs m' = sm_abs m.
Proof. intros H. unfold sm_abs at 2. apply agree_eq; [exact H | reflexivity]. Qed.

Ltac from_abs Hinv Hg := pose proof (srefines_abs _ _ _ Hinv Hg) as Hr.

Lemma abs_new md h w hint : adm_sparse_new h w hint = true ->
  exists m, sm_new md h w hint = Ok m /\ sm_inv md m /\
    ghost_ok md m (snd (ss_new (N.to_nat h) (N.to_nat w) (N.to_nat hint))) /\
    sm_abs m = bm_new (N.to_nat h) (N.to_nat w).
Proof.
  intros H. destruct (ssim_new md h w hint H) as [m [H0 [Hr Habs]]]. exists m. split; [exact H0|].
  destruct (srefines_split md m _ _ Hr) as [Hinv [Hg _]].
  split; [exact Hinv|]. split; [exact Hg | exact Habs].
Qed.

Lemma abs_set md m g i j v : sm_inv md m -> ghost_ok md m g ->
  adm_sparse (sm_abs m, g) (OSet i j v) = true ->
  exists m', sm_set md m i j v = Ok m' /\ sm_inv md m' /\ ghost_ok md m' g /\
    sm_abs m' = bm_set (sm_abs m) (N.to_nat i) (N.to_nat j) (negb (v =? 0)).
Proof.
  intros Hinv Hg Hadm. from_abs Hinv Hg. destruct (ssim_set md m _ i j v Hr Hadm) as [m' [H1 H2]].
  exists m'. split; [exact H1|]. unfold ss_step in H2. cbn [fst snd bm_step sg_step] in H2.
  destruct (srefines_split md m' _ _ H2) as [Hinv' [Hg' Hag]]. split; [exact Hinv'|]. split; [exact Hg'|].
  apply agree_eq; [exact Hag|]. intros r c Hrr Hc. cbv beta.
  destruct (_ && _); [reflexivity|]. apply sabs_def; assumption.
Qed.

Lemma abs_get md m g i j : sm_inv md m -> ghost_ok md m g ->
  adm_sparse (sm_abs m, g) (OGet i j) = true ->
  sm_get md m i j = Ok (b2n (bm_get (sm_abs m) (N.to_nat i) (N.to_nat j))).
Proof. intros Hinv Hg Hadm. from_abs Hinv Hg. exact (ssim_get md m _ i j Hr Hadm). Qed.

Lemma adm_of_sparse m g o : adm_sparse (sm_abs m, g) o = true -> adm o (sm_abs m) = true.
Proof. intros H. exact (adm_sparse_adm (sm_abs m, g) o H). Qed.

Lemma abs_swap_rows md m g i j : sm_inv md m -> ghost_ok md m g ->
  adm_sparse (sm_abs m, g) (OSwapRows i j) = true ->
  exists m', sm_swap_rows md m i j = Ok m' /\ sm_inv md m' /\ ghost_ok md m' g /\
    sm_abs m' = bm_swap_rows (sm_abs m) (N.to_nat i) (N.to_nat j).
Proof.
  intros Hinv Hg Hadm. from_abs Hinv Hg. destruct (ssim_swap_rows md m _ i j Hr Hadm) as [m' [H1 H2]].
  exists m'. split; [exact H1|]. unfold ss_step in H2. cbn [fst snd bm_step sg_step] in H2.
  destruct (srefines_split md m' _ _ H2) as [Hinv' [Hg' Hag]]. split; [exact Hinv'|]. split; [exact Hg'|].
  apply agree_eq; [exact Hag|]. intros r c Hrr Hc. cbv beta.
  pose proof (adm_of_sparse m g _ Hadm) as Ha. cbn [adm] in Ha. rewrite sabs_bh, N2Nat.id in Ha.
  rewrite sabs_bh in Hrr. rewrite sabs_bw in Hc. apply sabs_def; [|assumption]. apply swp_lt; lia.
Qed.

Lemma abs_swap_columns md m g i j hint : sm_inv md m -> ghost_ok md m g ->
  adm_sparse (sm_abs m, g) (OSwapCols i j hint) = true ->
  exists m', sm_swap_columns md m i j hint = Ok m' /\ sm_inv md m' /\
    ghost_ok md m' (sg_step (sm_abs m, g) (OSwapCols i j hint)) /\
    sm_abs m' = bm_swap_columns (sm_abs m) (N.to_nat i) (N.to_nat j)
                  (N.to_nat (N.min hint (s_height m))).
Proof.
  intros Hinv Hg Hadm. from_abs Hinv Hg. destruct (ssim_swap_columns md m _ i j hint Hr Hadm) as [m' [H1 H2]].
  exists m'. split; [exact H1|]. unfold ss_step in H2. cbn [fst snd bm_step] in H2.
  destruct (srefines_split md m' _ _ H2) as [Hinv' [Hg' Hag]]. split; [exact Hinv'|]. split; [exact Hg'|].
  rewrite sabs_bh, N2Nat.id in Hag.
  apply agree_eq; [exact Hag|]. intros r c Hrr Hc. cbv beta.
  pose proof (adm_of_sparse m g _ Hadm) as Ha. cbn [adm] in Ha. rewrite sabs_bw, N2Nat.id in Ha.
  rewrite sabs_bh in Hrr. rewrite sabs_bw in Hc. apply sabs_def; [assumption|]. apply swp_lt; lia.
Qed.

Lemma abs_enable md m g : sm_inv md m -> ghost_ok md m g ->
  adm_sparse (sm_abs m, g) OEnableAccel = true ->
  exists m', sm_enable_column_access_acceleration md m = Ok m' /\ sm_inv md m' /\
    ghost_ok md m' (sg_step (sm_abs m, g) OEnableAccel) /\ sm_abs m' = sm_abs m.
Proof.
  intros Hinv Hg Hadm. from_abs Hinv Hg. destruct (ssim_enable md m _ Hr Hadm) as [m' [H1 H2]].
  exists m'. split; [exact H1|]. unfold ss_step in H2. cbn [fst snd bm_step] in H2.
  destruct (srefines_split md m' _ _ H2) as [Hinv' [Hg' Hag]]. split; [exact Hinv'|]. split; [exact Hg'|].
  apply agree_abs_eq. exact Hag.
Qed.

Lemma abs_disable md m g : sm_inv md m -> ghost_ok md m g ->
  exists m', sm_disable_column_access_acceleration md m = Ok m' /\ sm_inv md m' /\
    ghost_ok md m' (sg_step (sm_abs m, g) ODisableAccel) /\ sm_abs m' = sm_abs m.
Proof.
  intros Hinv Hg. from_abs Hinv Hg.
  destruct (ssim_disable md m _ Hr) as [m' [H1 H2]]; [unfold adm_sparse; reflexivity|].
  exists m'. split; [exact H1|]. unfold ss_step in H2. cbn [fst snd bm_step] in H2.
  destruct (srefines_split md m' _ _ H2) as [Hinv' [Hg' Hag]]. split; [exact Hinv'|]. split; [exact Hg'|].
  apply agree_abs_eq. exact Hag.
Qed.

Lemma abs_freeze md m g col : sm_inv md m -> ghost_ok md m g ->
  adm_sparse (sm_abs m, g) (OFreeze col) = true ->
  exists m', sm_hint_column_dense_and_frozen md m col = Ok m' /\ sm_inv md m' /\
    ghost_ok md m' (sg_step (sm_abs m, g) (OFreeze col)) /\ s_nd m' = s_nd m + 1 /\
    sm_abs m' = sm_abs m.
Proof.
  intros Hinv Hg Hadm. from_abs Hinv Hg. destruct (ssim_freeze md m _ col Hr Hadm) as [m' [H1 H2]].
  exists m'. split; [exact H1|]. unfold ss_step in H2. cbn [fst snd bm_step] in H2.
  destruct (srefines_split md m' _ _ H2) as [Hinv' [Hg' Hag]]. split; [exact Hinv'|]. split; [exact Hg'|].
  split.
  - pose proof (gk_nd _ _ _ Hg') as E1. pose proof (gk_nd _ _ _ Hg) as E2. cbn [sg_step g_nd] in E1. lia.
  - apply agree_abs_eq. exact Hag.
Qed.

Lemma abs_add_rows md m g d s c : sm_inv md m -> ghost_ok md m g ->
  adm_sparse (sm_abs m, g) (OAddRows d s c) = true ->
  exists m', sm_add_assign_rows md m d s c = Ok m' /\ sm_inv md m' /\
    ghost_ok md m' (sg_step (sm_abs m, g) (OAddRows d s c)) /\
    bm_agree (sm_abs m') (bm_add_assign_rows (sm_abs m) (N.to_nat d) (N.to_nat s) (N.to_nat c)) /\
    (c = 0 -> sm_abs m' = bm_add_assign_rows (sm_abs m) (N.to_nat d) (N.to_nat s) 0).
Proof.
  intros Hinv Hg Hadm. from_abs Hinv Hg. destruct (ssim_add_rows md m _ d s c Hr Hadm) as [m' [H1 H2]].
  exists m'. split; [exact H1|]. unfold ss_step in H2. cbn [fst snd bm_step] in H2.
  destruct (srefines_split md m' _ _ H2) as [Hinv' [Hg' Hag]]. split; [exact Hinv'|]. split; [exact Hg'|].
  split; [exact Hag|]. intros E. subst c. cbn [N.to_nat] in Hag.
  apply agree_eq; [exact Hag|]. intros r cc Hrr Hc. cbv beta.
  pose proof (adm_of_sparse m g _ Hadm) as Ha. cbn [adm] in Ha. rewrite sabs_bh, sabs_bw, !N2Nat.id in Ha.
  rewrite sabs_bh in Hrr. rewrite sabs_bw in Hc.
  destruct (Nat.eqb r (N.to_nat d)); [|apply sabs_def; assumption].
  cbn [Nat.ltb Nat.leb]. rewrite !sabs_def by lia. reflexivity.
Qed.

Lemma abs_resize md m g nh nw : sm_inv md m -> ghost_ok md m g ->
  adm_sparse (sm_abs m, g) (OResize nh nw) = true ->
  exists m', sm_resize md m nh nw = Ok m' /\ sm_inv md m' /\
    ghost_ok md m' (sg_step (sm_abs m, g) (OResize nh nw)) /\
    sm_abs m' = bm_resize (sm_abs m) (N.to_nat nh) (N.to_nat nw).
Proof.
  intros Hinv Hg Hadm. from_abs Hinv Hg. destruct (ssim_resize md m _ nh nw Hr Hadm) as [m' [H1 H2]].
  exists m'. split; [exact H1|]. unfold ss_step in H2. cbn [fst snd bm_step] in H2.
  destruct (srefines_split md m' _ _ H2) as [Hinv' [Hg' Hag]]. split; [exact Hinv'|]. split; [exact Hg'|].
  apply agree_eq; [exact Hag|]. intros r c Hrr Hc.
  pose proof (adm_of_sparse m g _ Hadm) as Ha. cbn [adm] in Ha. rewrite sabs_bh, sabs_bw, !N2Nat.id in Ha.
  apply sabs_def; lia.
Qed.

Lemma abs_count_ones md m g row s e : sm_inv md m -> ghost_ok md m g ->
  adm_sparse (sm_abs m, g) (OCountOnes row s e) = true ->
  sm_count_ones md m row s e =
  Ok (N.of_nat (bm_count_ones (sm_abs m) (N.to_nat row) (N.to_nat s) (N.to_nat e))).
Proof. intros Hinv Hg Hadm. from_abs Hinv Hg. exact (ssim_count_ones md m _ row s e Hr Hadm). Qed.

Lemma abs_row_iter md m g row s e : sm_inv md m -> ghost_ok md m g ->
  adm_sparse (sm_abs m, g) (ORowIter row s e) = true ->
  exists l, sm_get_row_iter md m row s e = Ok l /\ Forall (fun cv => snd cv = 1) l /\
    Permutation (map fst l)
      (map N.of_nat (filter (fun c => bm_get (sm_abs m) (N.to_nat row) c)
                            (seq (N.to_nat s) (N.to_nat e - N.to_nat s)))).
Proof. intros Hinv Hg Hadm. from_abs Hinv Hg. exact (ssim_row_iter md m _ row s e Hr Hadm). Qed.

Lemma abs_ones_in_column md m g col s e : sm_inv md m -> ghost_ok md m g ->
  adm_sparse (sm_abs m, g) (OOnesInCol col s e) = true ->
  exists l, sm_get_ones_in_column md m col s e = Ok l /\
    Permutation l (map N.of_nat (bm_ones_in_column (sm_abs m) (N.to_nat col) (N.to_nat s) (N.to_nat e))).
Proof. intros Hinv Hg Hadm. from_abs Hinv Hg. exact (ssim_ones_in_column md m _ col s e Hr Hadm). Qed.

Lemma abs_sub_row md m g row s : sm_inv md m -> ghost_ok md m g ->
  adm_sparse (sm_abs m, g) (OSubRow row s) = true ->
  exists ws, sm_get_sub_row_as_octets md m row s = Ok (ws, s_nd m) /\
    N.of_nat (length ws) = ceil_div (s_nd m) 64 /\
    bov_to_octet_vec ws (s_nd m) = Ok (map b2n (bm_sub_row (sm_abs m) (N.to_nat row) (N.to_nat s))).
Proof. intros Hinv Hg Hadm. from_abs Hinv Hg. exact (ssim_sub_row md m _ row s Hr Hadm). Qed.

Lemma abs_non_zero_columns md m g row s : sm_inv md m -> ghost_ok md m g ->
  adm_sparse (sm_abs m, g) (ONonZeroCols row s) = true ->
  sm_query_non_zero_columns md m row s =
  Ok (map N.of_nat (bm_non_zero_columns (sm_abs m) (N.to_nat row) (N.to_nat s))).
Proof. intros Hinv Hg Hadm. from_abs Hinv Hg. exact (ssim_non_zero_columns md m _ row s Hr Hadm). Qed.

(* the fuel of the model's data dependent loops is never exhausted on admissible operations:
   every admissible step returns Ok (step_sim), in particular not Panic PFuel *)
Lemma step_no_fuel md m st o : srefines md m st -> adm_sparse st o = true ->
  sm_step md m o <> Panic PFuel.
Proof. intros Hr Ha. destruct (step_sim md m st o Hr Ha) as [m' [r [H _]]]. rewrite H. discriminate. Qed.
