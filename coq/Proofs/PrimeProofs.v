(* Soundness and completeness of the trial-division primality checker of Spec/Prime.v, and the
   consequence used for the PI loop of enc_indices: a prime is coprime with every 1 <= a < p. *)
From Coq Require Import NArith List Bool Lia.
From RQ Require Import Spec.Prime.
Open Scope N_scope.

Lemma no_divisor_from_spec fuel n : forall d0,
  no_divisor_from fuel n d0 = true <-> (forall j, d0 <= j < d0 + N.of_nat fuel -> n mod j <> 0).
Proof.
  induction fuel as [|f IH]; intros d0.
  - cbn [no_divisor_from]. split; [intros _ j Hj; lia | reflexivity].
  - cbn [no_divisor_from]. destruct (n mod d0 =? 0) eqn:E.
    + apply N.eqb_eq in E. split; [discriminate|]. intros H. exfalso. apply (H d0); [lia | exact E].
    + apply N.eqb_neq in E. rewrite IH. split.
      * intros H j Hj. destruct (N.eq_dec j d0) as [->|Hne]; [exact E | apply H; lia].
      * intros H j Hj. apply H. lia.
Qed.

Lemma divisor_cofactor n d : d <> 0 -> n mod d = 0 -> n = d * (n / d).
Proof. intros Hd Hm. pose proof (N.div_mod n d Hd) as H. rewrite Hm in H. lia. Qed.

Theorem is_prime_spec n : is_prime n = true <-> prime_N n.
Proof.
  unfold is_prime, prime_N. rewrite andb_true_iff, N.ltb_lt, no_divisor_from_spec.
  pose proof (N.sqrt_spec n (N.le_0_l n)) as [Hs1 Hs2]. set (s := N.sqrt n) in *.
  split.
  - intros [H1 Hnd]. split; [exact H1|]. intros d Hd Hm.
    assert (Hs : 1 <= s) by (destruct (N.eq_dec s 0) as [Z|NZ]; [rewrite Z in Hs2; lia | lia]).
    assert (Hfuel : N.of_nat (N.to_nat (s - 1)) = s - 1) by apply N2Nat.id.
    destruct (N.le_gt_cases d s) as [Hle|Hgt].
    + apply (Hnd d); [lia | exact Hm].
    + assert (Hd0 : d <> 0) by lia.
      pose proof (divisor_cofactor n d Hd0 Hm) as Hq. set (q := n / d) in *. clearbody q.
      assert (Hq2 : 2 <= q).
      { destruct (N.eq_dec q 0) as [Z|NZ]; [rewrite Z in Hq; lia|].
        destruct (N.eq_dec q 1) as [Z1|NZ1]; [rewrite Z1 in Hq; lia | lia]. }
      assert (Hqs : q <= s).
      { destruct (N.le_gt_cases q s) as [?|Hqgt]; [assumption|]. exfalso.
        assert ((s + 1) * (s + 1) <= d * q) by (apply N.mul_le_mono; lia). lia. }
      apply (Hnd q); [lia|]. rewrite Hq. apply N.mod_mul. lia.
  - intros [H1 Hnd]. split; [exact H1|]. intros j Hj. rewrite N2Nat.id in Hj.
    apply Hnd. split; [lia|].
    assert (j <= s) by lia. assert (j * j <= s * s) by (apply N.mul_le_mono; lia).
    assert (2 * j <= j * j) by (apply N.mul_le_mono; lia). lia.
Qed.

Corollary is_prime_true n : is_prime n = true -> 1 < n /\ forall d, 1 < d < n -> n mod d <> 0.
Proof. apply is_prime_spec. Qed.

Corollary is_prime_false n : is_prime n = false -> ~ prime_N n.
Proof. intros H Hp. apply is_prime_spec in Hp. congruence. Qed.

(* a prime is coprime with every 1 <= a < p *)
Lemma prime_coprime p a : prime_N p -> 1 <= a < p -> N.gcd a p = 1.
Proof.
  intros [Hp Hnd] Ha. set (g := N.gcd a p).
  assert (Hga : (g | a)) by apply N.gcd_divide_l.
  assert (Hgp : (g | p)) by apply N.gcd_divide_r.
  assert (Hg0 : g <> 0).
  { intros Z. destruct Hgp as [k Hk]. rewrite Z in Hk. lia. }
  assert (Hgle : g <= a) by (apply N.divide_pos_le; [lia | exact Hga]).
  destruct (N.eq_dec g 1) as [E|NE]; [exact E|]. exfalso.
  apply (Hnd g); [lia|]. apply N.mod_divide; assumption.
Qed.

(* hence b + k*a hits 0 modulo p for some k < p *)
Lemma prime_hits_zero p a b : prime_N p -> 1 <= a < p -> b < p ->
  exists k, k < p /\ (b + k * a) mod p = 0.
Proof.
  intros Hp Ha Hb. pose proof (prime_coprime p a Hp Ha) as Hg.
  assert (Hp0 : p <> 0) by (destruct Hp; lia).
  assert (E : exists k0, (b + k0 * a) mod p = 0).
  { destruct (N.gcd_bezout a p) as [[u [v Huv]] | [u [v Huv]]]; rewrite Hg in Huv.
    - (* u*a = 1 + v*p *)
      exists (u * (p - b)).
      replace (b + u * (p - b) * a) with ((1 + v * (p - b)) * p) by nia.
      apply N.mod_mul. exact Hp0.
    - (* u*p = 1 + v*a *)
      exists (v * b).
      replace (b + v * b * a) with ((u * b) * p) by nia.
      apply N.mod_mul. exact Hp0. }
  destruct E as [k0 Hk0]. exists (k0 mod p). split; [apply N.mod_lt; exact Hp0|].
  rewrite <- Hk0.
  rewrite (N.add_mod b (k0 * a) p Hp0), (N.add_mod b (k0 mod p * a) p Hp0).
  rewrite (N.mul_mod_idemp_l k0 a p Hp0). reflexivity.
Qed.
