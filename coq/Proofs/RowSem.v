(* Semantics of a G_ENC row.  [ind_row L idx] is the row obtained by storing 1 at every index of
   idx (what `set_enc` does with `matrix.set(row, j, 1)`); for a duplicate-free in-range idx its
   linear combination with the intermediate symbols is the xor of the symbols at idx, i.e. what
   enc_into / rebuild_source_symbol compute (Enc[] of RFC 6330 5.3.5.3). *)
From Coq Require Import NArith List Bool Lia Arith.
From RQ Require Import Base.Outcome Base.Ints Base.ListX Gen.SysTables Spec.Linear Spec.Tuple
  Model.Octet Model.FieldFast Model.SysConst Model.Tuple Model.CMatrix Model.Layout Model.Slab
  Model.Encoder Model.Decoder
  Proofs.LinearProofs Proofs.LinearInst Proofs.SysConstProofs Proofs.C15Sweep1 Proofs.C15Proofs
  Proofs.OutcomeLemmas Proofs.RowParams Proofs.EncoderProofs Proofs.EncIdxNoDup.
Import ListNotations.
Open Scope N_scope.

Definition ind_row (L : nat) (idx : list N) : list N :=
  fold_left (fun r j => upd_nth (N.to_nat j) 1 r) idx (repeat 0 L).

(* the G_ENC row of ISI x, as a function *)
Definition enc_row (m : mode) (sp : sysparams) (x : N) : outcome (list N) :=
  obind (intermediate_tuple_gen true m x (spW sp) (spJ sp) (spP1 sp)) (fun t =>
  obind (enc_indices m t (spW sp) (spP sp) (spP1 sp)) (fun idx =>
  Ok (ind_row (N.to_nat (spL sp)) idx))).

Lemma bytes_add_vadd u v : bytes_add u v = vadd u v.
Proof. unfold bytes_add. revert v; induction u as [|x u IH]; intros [|y v]; cbn; auto. rewrite IH. reflexivity. Qed.

Lemma nth_upd_nth_ne {A} i j (x d : A) l : i <> j -> nth j (upd_nth i x l) d = nth j l d.
Proof. revert i j; induction l as [|h t IH]; intros [|i] [|j] H; cbn; auto; congruence. Qed.

Lemma upd_nth_unit r : forall j, (j < length r)%nat -> nth j r 0 = 0 ->
  upd_nth j 1 r = vadd r (unit_row (length r) j).
Proof.
  induction r as [|x r IH]; intros j Hj Hz; cbn [length] in *; [lia|].
  destruct j as [|j]; cbn [nth] in Hz.
  - subst x. rewrite unit_row_0. cbn [upd_nth vadd]. f_equal.
    symmetry. apply (vadd_vzero_r r (length r)). lia.
  - rewrite unit_row_S. cbn [upd_nth vadd]. rewrite N.lxor_0_r. f_equal. apply IH; [lia | exact Hz].
Qed.

Lemma fold_upd_length idx : forall r,
  length (fold_left (fun r j => upd_nth (N.to_nat j) 1 r) idx r) = length r.
Proof. induction idx as [|j idx IH]; intros r; cbn [fold_left]; [reflexivity|]. rewrite IH. apply upd_nth_length. Qed.

Lemma fold_upd_wf idx : forall r, wf_vec r ->
  wf_vec (fold_left (fun r j => upd_nth (N.to_nat j) 1 r) idx r).
Proof.
  induction idx as [|j idx IH]; intros r Hr; cbn [fold_left]; [exact Hr|].
  apply IH. apply Forall_upd_nth; [exact Hr | lia].
Qed.

Lemma ind_row_length L idx : length (ind_row L idx) = L.
Proof. unfold ind_row. rewrite fold_upd_length. apply repeat_length. Qed.

Lemma ind_row_wf L idx : wf_vec (ind_row L idx).
Proof. unfold ind_row. apply fold_upd_wf. apply wf_vec_vzero. Qed.

Section Lincomb.
Variables (T : nat) (C : list (list N)).
Hypothesis HC : wf_mat T C.

Lemma xsyms_vadd idx : forall acc,
  xsyms C idx acc = fold_left (fun acc j => vadd acc (nth (N.to_nat j) C [])) idx acc.
Proof.
  induction idx as [|j idx IH]; intros acc; cbn [xsyms fold_left]; [reflexivity|].
  rewrite bytes_add_vadd. apply IH.
Qed.

(* (b): a 0/1 row built by setting the bits of a duplicate-free in-range index list *)
Lemma lincomb_fold_upd idx : NoDup idx -> Forall (fun j => j < lenN C) idx ->
  forall r, length r = length C -> wf_vec r -> (forall j, In j idx -> nth (N.to_nat j) r 0 = 0) ->
  lincomb fmul T (fold_left (fun r j => upd_nth (N.to_nat j) 1 r) idx r) C =
  xsyms C idx (lincomb fmul T r C).
Proof.
  induction 1 as [|j idx Hnin ND IH]; intros Hall r Hlen Hwf Hz; [reflexivity|].
  inversion Hall as [|? ? Hj Hall']; subst. unfold lenN in Hj.
  assert (Hjn : (N.to_nat j < length r)%nat) by lia.
  change (xsyms C (j :: idx) (lincomb fmul T r C))
    with (xsyms C idx (bytes_add (lincomb fmul T r C) (nth (N.to_nat j) C []))).
  cbn [fold_left]. rewrite IH.
  - f_equal. rewrite (upd_nth_unit r _ Hjn (Hz j (or_introl eq_refl))).
    rewrite lincomb_add_gf; [| rewrite unit_row_length; reflexivity | exact Hwf | apply unit_row_wf | exact HC].
    rewrite Hlen, (lincomb_unit fmul finv gf_field_ok T C _ HC) by lia.
    symmetry. apply bytes_add_vadd.
  - exact Hall'.
  - rewrite upd_nth_length. exact Hlen.
  - apply Forall_upd_nth; [exact Hwf | lia].
  - intros j' Hin. rewrite nth_upd_nth_ne.
    + apply Hz. right. exact Hin.
    + intros E. apply N2Nat.inj in E. subst j'. exact (Hnin Hin).
Qed.

Lemma nth_repeat_0 n k : nth k (repeat 0 n) 0 = 0.
Proof. revert k; induction n as [|n IH]; intros [|k]; cbn; auto. Qed.

Lemma lincomb_ind_row idx : NoDup idx -> Forall (fun j => j < lenN C) idx ->
  lincomb fmul T (ind_row (length C) idx) C = xsyms C idx (vzero T).
Proof.
  intros ND Hall. unfold ind_row. rewrite lincomb_fold_upd.
  - rewrite (lincomb_zero_row fmul finv gf_field_ok T _ C HC). reflexivity.
  - exact ND.
  - exact Hall.
  - apply repeat_length.
  - apply wf_vec_vzero.
  - intros j _. apply nth_repeat_0.
Qed.

(* ... equals Enc over the index list (first symbol copied, the others xor-ed in) *)
Lemma xor_at_lincomb idx : idx <> [] -> NoDup idx -> Forall (fun j => j < lenN C) idx ->
  xor_at C idx = Ok (lincomb fmul T (ind_row (length C) idx) C).
Proof.
  intros Hne ND Hall. destruct idx as [|i0 rest]; [congruence|].
  rewrite xor_at_ok by exact Hall. rewrite lincomb_ind_row by assumption. f_equal.
  change (xsyms C (i0 :: rest) (vzero T))
    with (xsyms C rest (bytes_add (vzero T) (nth (N.to_nat i0) C []))).
  f_equal. rewrite bytes_add_vadd.
  inversion Hall as [|? ? H0 _]; subst. unfold lenN in H0.
  destruct (wf_mat_nth T C (N.to_nat i0) HC ltac:(lia)) as [Hl _].
  symmetry. apply vadd_vzero_l. lia.
Qed.

End Lincomb.

(* the row of an ISI of a table row: its tuple is the RFC tuple, its index list is duplicate-free
   and in range, and Enc over it is the linear combination of the row *)
Section RowOfIsi.
Variables (m : mode) (K K' J S H W P1 : N).
Hypothesis PO : params_of K K' J S H W P1.
Let sp := the_sp K' J S H W P1.
Variables (T : nat) (C : list (list N)).
Hypothesis HC : wf_mat T C.
Hypothesis HCL : lenN C = K' + S + H.

Lemma enc_row_sem X r : X < 2 ^ 32 -> enc_row m sp X = Ok r ->
  exists idx, intermediate_tuple_gen true m X W J P1 = Ok (Tuple J W P1 X) /\
    enc_indices m (Tuple J W P1 X) W (K' + S + H - W) P1 = Ok idx /\
    r = ind_row (length C) idx /\ length r = length C /\ wf_vec r /\
    xor_at C idx = Ok (lincomb fmul T r C).
Proof.
  intros HX E. pose proof (po_row _ _ _ _ _ _ _ PO) as Hr. pose proof (po_p1 _ _ _ _ _ _ _ PO) as Hp.
  pose proof (c15_tuple_ok true m K' J S H W P1 X Hr Hp HX (or_introl eq_refl)) as ET.
  unfold enc_row in E. unfold sp, the_sp in E. cbn [spW spJ spP1 spP spL] in E.
  rewrite ET in E. cbn [obind] in E. oinv E. injection E as <-.
  pose proof (enc_indices_nodup_row m K' J S H W P1 X a Hr Hp E0) as ND.
  pose proof (c15_enc_indices m K' J S H W P1 X Hr Hp) as EI.
  pose proof (c15_tuple_ranges K' J S H W P1 X Hr Hp) as RG.
  set (t := Tuple J W P1 X) in *. clearbody t.
  destruct t as [[[[[d a0] b] d1] a1] b1].
  destruct EI as [idx [EI [Hlen Hall]]]. rewrite E0 in EI. injection EI as <-.
  destruct RG as [Rd [_ [_ [Rd1 _]]]].
  assert (Hne : a <> []) by (intros ->; cbn [length] in Hlen; destruct Rd1; lia).
  assert (HLn : N.to_nat (K' + S + H) = length C) by (unfold lenN in HCL; lia).
  rewrite HLn. exists a. split; [exact ET|]. split; [exact E0|]. split; [reflexivity|].
  split; [apply ind_row_length|]. split; [apply ind_row_wf|].
  apply xor_at_lincomb; [exact HC | exact Hne | exact ND | rewrite HCL; exact Hall].
Qed.

Lemma enc_row_ok X : X < 2 ^ 32 -> exists r, enc_row m sp X = Ok r.
Proof.
  intros HX. pose proof (po_row _ _ _ _ _ _ _ PO) as Hr. pose proof (po_p1 _ _ _ _ _ _ _ PO) as Hp.
  pose proof (c15_tuple_ok true m K' J S H W P1 X Hr Hp HX (or_introl eq_refl)) as ET.
  pose proof (c15_enc_indices m K' J S H W P1 X Hr Hp) as EI.
  unfold enc_row, sp, the_sp. cbn [spW spJ spP1 spP spL]. rewrite ET. cbn [obind].
  destruct (Tuple J W P1 X) as [[[[[d a0] b] d1] a1] b1]. destruct EI as [idx [EI _]].
  rewrite EI. cbn [obind]. eauto.
Qed.

(* rebuild_source_symbol is Enc over the row of the ISI *)
Lemma rebuild_is_row X r : X < 2 ^ 32 -> enc_row m sp X = Ok r ->
  rebuild_source_symbol m sp C X = Ok (lincomb fmul T r C).
Proof.
  intros HX E. destruct (enc_row_sem X r HX E) as [idx [ET [EI [_ [_ [_ EX]]]]]].
  unfold rebuild_source_symbol, sp, the_sp. cbn [spW spJ spP1 spP spL].
  rewrite ET. cbn [obind]. rewrite EI. cbn [obind]. exact EX.
Qed.

(* enc_into for the tuple of an ISI is Enc over the row of the ISI *)
Lemma enc_into_is_row X r t v : X < 2 ^ 32 -> enc_row m sp X = Ok r ->
  intermediate_tuple_gen true m X W J P1 = Ok t -> enc_into m K C t = Ok v ->
  v = lincomb fmul T r C.
Proof.
  intros HX E ET EV. destruct (enc_row_sem X r HX E) as [idx [ET' [EI [_ [_ [_ EX]]]]]].
  rewrite ET' in ET. injection ET as <-.
  rewrite (enc_into_is_enc_indices m K C _ W (K' + S + H - W) P1 idx
             (po_W _ _ _ _ _ _ _ PO) (po_P _ _ _ _ _ _ _ PO) (po_Kp1 _ _ _ _ _ _ _ PO) EI) in EV.
  rewrite EX in EV. injection EV as <-. reflexivity.
Qed.

End RowOfIsi.
